/-
  Theorems/LexLines.lean — the lexer's line counter counts exactly the newlines of the text
  it has consumed (C08 (c), C10).

  A syntactic check on the regenerated rule table (`LineCountOK`, decided by the kernel):
  every rule either cannot match a newline at all, or its action adds the number of newlines
  of the matched text (`countNl`), or it matches newlines only and adds the length (`lenNl`);
  ignored characters and literals are not newlines.  Soundness, for every input: after each
  token, `lineno` has advanced by the number of newlines in the text consumed since the
  previous token (skipped pieces included).
-/
import CxxModel.Theorems.LexPartition
namespace Cxx

/-- every character class occurring in `r` satisfies `ok` -/
def reChars (ok : Bool → List (Nat × Nat) → Bool) : Re → Bool
  | .chars neg rs => ok neg rs
  | .eps => true
  | .seq a b => reChars ok a && reChars ok b
  | .alt a b => reChars ok a && reChars ok b
  | .rep a _ _ => reChars ok a
  | .nla _ => true
  | .eos => true
  | .unsupported => true

/-- `p` is what is left of `s` after consuming a prefix whose characters all satisfy `P` -/
def Consumes (P : Nat → Bool) (s p : Str) : Prop := ∃ pre, s = pre ++ p ∧ pre.all P = true

theorem Consumes.refl (P : Nat → Bool) (s : Str) : Consumes P s s := ⟨[], rfl, rfl⟩

theorem Consumes.trans {P : Nat → Bool} {a b c : Str} (h1 : Consumes P a b) (h2 : Consumes P b c) : Consumes P a c := by
  obtain ⟨p1, e1, a1⟩ := h1
  obtain ⟨p2, e2, a2⟩ := h2
  exact ⟨p1 ++ p2, by rw [e1, e2, List.append_assoc], by simp [List.all_append, a1, a2]⟩

theorem iterPaths_consumes (P : Nat → Bool) (pa : Str → List Str) (hpa : ∀ s p, p ∈ pa s → Consumes P s p)
    (mn : Nat) (mx : Option Nat) : ∀ (fuel n : Nat) (s p : Str), p ∈ iterPaths pa mn mx fuel n s → Consumes P s p := by
  intro fuel
  induction fuel with
  | zero =>
    intro n s p hp
    simp only [iterPaths] at hp
    split at hp <;> simp at hp
    subst hp; exact Consumes.refl _ _
  | succ f ih =>
    intro n s p hp
    simp only [iterPaths, List.mem_append] at hp
    rcases hp with hp | hp
    · split at hp
      · simp only [List.mem_flatMap] at hp
        obtain ⟨s', hs', hp⟩ := hp
        split at hp
        · exact (hpa _ _ hs').trans (ih _ _ _ hp)
        · simp at hp
      · simp at hp
    · split at hp <;> simp at hp
      subst hp; exact Consumes.refl _ _

theorem paths_consumes (P : Nat → Bool) (ok : Bool → List (Nat × Nat) → Bool)
    (hok : ∀ neg rs c, ok neg rs = true → charOk neg rs c = true → P c = true) (r : Re) :
    reChars ok r = true → ∀ s p, p ∈ paths r s → Consumes P s p := by
  induction r with
  | chars neg rs =>
    intro h s p hp
    cases s with
    | nil => simp [paths, stepChar] at hp
    | cons c t =>
      simp only [paths, stepChar] at hp
      split at hp
      · rename_i hc
        simp at hp; subst hp
        exact ⟨[c], rfl, by simp [hok neg rs c h hc]⟩
      · simp at hp
  | eps => intro _ s p hp; simp [paths] at hp; subst hp; exact Consumes.refl _ _
  | seq a b iha ihb =>
    intro h s p hp
    simp only [reChars, Bool.and_eq_true] at h
    simp only [paths, List.mem_flatMap] at hp
    obtain ⟨s', hs', hp⟩ := hp
    exact (iha h.1 _ _ hs').trans (ihb h.2 _ _ hp)
  | alt a b iha ihb =>
    intro h s p hp
    simp only [reChars, Bool.and_eq_true] at h
    simp only [paths, List.mem_append] at hp
    rcases hp with hp | hp
    · exact iha h.1 _ _ hp
    · exact ihb h.2 _ _ hp
  | rep a mn mx iha =>
    intro h s p hp
    exact iterPaths_consumes P (paths a) (iha h) mn mx _ _ _ _ hp
  | nla a _ =>
    intro _ s p hp
    simp only [paths] at hp
    split at hp <;> simp at hp
    subst hp; exact Consumes.refl _ _
  | eos =>
    intro _ s p hp
    simp only [paths] at hp
    split at hp <;> simp at hp
    subst hp; exact Consumes.refl _ _
  | unsupported => intro _ s p hp; simp [paths] at hp

/-! ### the two character conditions -/

def notNl (c : Nat) : Bool := c != 10
def isNl (c : Nat) : Bool := c == 10

/-- the class does not contain the newline -/
def okNoNl (neg : Bool) (rs : List (Nat × Nat)) : Bool := !charOk neg rs 10
/-- the class contains nothing but the newline -/
def okOnlyNl (neg : Bool) (rs : List (Nat × Nat)) : Bool := !neg && rs.all (fun p => p.1 == 10 && p.2 == 10)

theorem okNoNl_sound (neg : Bool) (rs : List (Nat × Nat)) (c : Nat) (h : okNoNl neg rs = true)
    (hc : charOk neg rs c = true) : notNl c = true := by
  unfold notNl
  by_cases h10 : c = 10
  · subst h10; simp [okNoNl, hc] at h
  · simp [h10]

theorem inRanges_only (c : Nat) : ∀ (rs : List (Nat × Nat)), rs.all (fun p => p.1 == 10 && p.2 == 10) = true →
    inRanges c rs = true → c = 10 := by
  intro rs
  induction rs with
  | nil => intro _ h; simp [inRanges] at h
  | cons p r ih =>
    intro ha h
    obtain ⟨lo, hi⟩ := p
    simp only [List.all_cons, Bool.and_eq_true, beq_iff_eq] at ha
    simp only [inRanges, Bool.or_eq_true, Bool.and_eq_true, decide_eq_true_eq] at h
    rcases h with ⟨h1, h2⟩ | h
    · obtain ⟨⟨hl, hh⟩, _⟩ := ha
      omega
    · exact ih ha.2 h

theorem okOnlyNl_sound (neg : Bool) (rs : List (Nat × Nat)) (c : Nat) (h : okOnlyNl neg rs = true)
    (hc : charOk neg rs c = true) : isNl c = true := by
  simp only [okOnlyNl, Bool.and_eq_true, Bool.not_eq_true'] at h
  obtain ⟨hn, ha⟩ := h
  subst hn
  simp only [charOk, bne_iff_ne, ne_eq, Bool.not_eq_false] at hc
  simp [isNl, inRanges_only c rs ha hc]

theorem countNl_notNl : ∀ (s : Str), s.all notNl = true → countNl s = 0 := by
  intro s
  induction s with
  | nil => intro _; rfl
  | cons c t ih =>
    intro h
    simp only [List.all_cons, Bool.and_eq_true, notNl, bne_iff_ne, ne_eq] at h
    simp [countNl, h.1, ih (by simpa [notNl] using h.2)]

theorem countNl_isNl : ∀ (s : Str), s.all isNl = true → countNl s = s.length := by
  intro s
  induction s with
  | nil => intro _; rfl
  | cons c t ih =>
    intro h
    simp only [List.all_cons, Bool.and_eq_true, isNl, beq_iff_eq] at h
    simp [countNl, h.1, ih (by simpa [isNl] using h.2)]
    omega

/-! ### the table condition and its soundness -/

/-- what the action adds to the line counter must be the number of newlines matched -/
def ruleLinesOK (r : Rule) : Bool :=
  match r.action with
  | .countNl => true
  | .lenNl => reChars okOnlyNl r.re
  | .error _ => true
  | .errorFmt _ => true
  | .opaque => true
  | _ => reChars okNoNl r.re

def LineCountOK (cfg : LexCfg) : Bool :=
  !cfg.ignore.contains 10 && !cfg.literals.contains 10 && cfg.rules.all ruleLinesOK

theorem countNl_append (a b : Str) : countNl (a ++ b) = countNl a + countNl b := by
  induction a with
  | nil => simp [countNl]
  | cons c t ih => simp only [List.cons_append, countNl, ih]; omega

theorem firstRule_match {rules : List Rule} {s rest : Str} {r : Rule}
    (h : firstRule rules s = some (r, rest)) : rest ∈ paths r.re s := by
  induction rules with
  | nil => simp [firstRule] at h
  | cons x xs ih =>
    simp only [firstRule] at h
    split at h
    · rename_i rest' hm
      injection h with h; injection h with h1 h2
      subst h1; subst h2
      rw [rmatchK_eq_rmatch] at hm
      exact List.mem_of_head? hm
    · exact ih h

/-- a token produced by a rule whose table entry is fine: the counter moves by the newlines of `v` -/
theorem runAction_tok_lines {kw : List String} {r : Rule} {v : Str} {st0 : LexState} {rest : Str} {t : RawTok} {st' : LexState}
    (hok : ruleLinesOK r = true) (hm : rest ∈ paths r.re (v ++ rest))
    (h : runAction kw r v st0 rest = .tok t st') : st'.lineno = st0.lineno + countNl v := by
  have hcons : ∀ (P : Nat → Bool) (ok : Bool → List (Nat × Nat) → Bool)
      (hs : ∀ neg rs c, ok neg rs = true → charOk neg rs c = true → P c = true),
      reChars ok r.re = true → v.all P = true := by
    intro P ok hs hre
    obtain ⟨pre, he, ha⟩ := paths_consumes P ok hs r.re hre _ _ hm
    have : pre = v := List.append_cancel_right he.symm
    rw [← this]; exact ha
  unfold runAction at h
  unfold ruleLinesOK at hok
  cases ha : r.action <;> simp only [ha] at h hok
  case ret => injection h with _ h2; subst h2; simp [countNl_notNl v (hcons _ _ okNoNl_sound hok)]
  case skip => cases h
  case countNl => injection h with _ h2; subst h2; rfl
  case lenNl => injection h with _ h2; subst h2; simp [countNl_isNl v (hcons _ _ okOnlyNl_sound hok)]
  case keyword => split at h <;> (injection h with _ h2; subst h2; simp [countNl_notNl v (hcons _ _ okNoNl_sound hok)])
  case ppDirective =>
    split at h
    · cases h
    · split at h
      · cases h
      · split at h <;> simp [mkErr] at h
  case error => simp [mkErr] at h
  case errorFmt => simp [mkErr] at h
  case «opaque» => cases h

/-- a rule whose action returns nothing: the counter stays and the skipped text has no newline -/
theorem runAction_none_lines {kw : List String} {r : Rule} {v : Str} {st0 : LexState} {rest : Str} {st' : LexState}
    (hok : ruleLinesOK r = true) (hm : rest ∈ paths r.re (v ++ rest))
    (h : runAction kw r v st0 rest = .none st') : st'.lineno = st0.lineno ∧ countNl v = 0 := by
  have hcons : reChars okNoNl r.re = true → countNl v = 0 := by
    intro hre
    obtain ⟨pre, he, ha⟩ := paths_consumes notNl okNoNl okNoNl_sound r.re hre _ _ hm
    have : pre = v := List.append_cancel_right he.symm
    rw [← this]; exact countNl_notNl _ ha
  unfold runAction at h
  unfold ruleLinesOK at hok
  cases ha : r.action <;> simp only [ha] at h hok
  case ret => cases h
  case skip => injection h with h; subst h; exact ⟨rfl, hcons hok⟩
  case countNl => cases h
  case lenNl => cases h
  case keyword => split at h <;> cases h
  case ppDirective =>
    split at h
    · injection h with h; subst h; exact ⟨rfl, hcons hok⟩
    · split at h
      · injection h with h; subst h; exact ⟨rfl, hcons hok⟩
      · split at h <;> simp [mkErr] at h
  case error => simp [mkErr] at h
  case errorFmt => simp [mkErr] at h
  case «opaque» => cases h

/-- **the line counter**: after a token, `lineno` has advanced by exactly the newlines of the
    text consumed since the state before (gap and token), and the token's own `lineno` is
    the counter where the token starts -/
theorem plyToken_lineno (cfg : LexCfg) (hcfg : LineCountOK cfg = true) : ∀ (fuel : Nat) (st : LexState) (t : RawTok) (st' : LexState),
    plyToken cfg fuel st = .tok t st' →
    ∃ gap, st.rest = gap ++ t.value ++ st'.rest ∧ t.lineno = st.lineno + countNl gap ∧
      st'.lineno = st.lineno + countNl gap + countNl t.value := by
  simp only [LineCountOK, Bool.and_eq_true, Bool.not_eq_true', List.all_eq_true] at hcfg
  obtain ⟨⟨hign, hlit⟩, hrules⟩ := hcfg
  intro fuel
  induction fuel with
  | zero => intro st t st' h; simp [plyToken] at h
  | succ fuel ih =>
    intro st t st' h
    simp only [plyToken] at h
    split at h
    · cases h
    · rename_i c tl hrest
      split at h
      · -- ignored character: not a newline
        rename_i hc
        have hc10 : c ≠ 10 := by intro h10; subst h10; rw [hign] at hc; cases hc
        obtain ⟨gap, h1, h2, h3⟩ := ih _ _ _ h
        refine ⟨c :: gap, ?_, ?_, ?_⟩
        · rw [hrest]; simp only at h1; simp [h1]
        · simp only at h2; simp [h2, countNl, hc10]
        · simp only at h3; simp [h3, countNl, hc10]
      · split at h
        · rename_i r rest hfr
          have hsuf := firstRule_suffix hfr
          have hsplit := take_drop_of_suffix hsuf
          have hmem := firstRule_mem hfr
          have hok := hrules r hmem
          have hm : rest ∈ paths r.re (st.rest.take (st.rest.length - rest.length) ++ rest) := by
            rw [← hsplit]; exact firstRule_match hfr
          split at h
          · rename_i tk st1 hact
            injection h with h1 h2; subst h1 h2
            obtain ⟨hv, _, hln, hr, _⟩ := runAction_tok hact
            have hl := runAction_tok_lines hok hm hact
            refine ⟨[], ?_, ?_, ?_⟩
            · simp only [List.nil_append, hv, hr]; exact hsplit
            · simp [hln, countNl]
            · simp [hl, hv, countNl]
          · rename_i st1 hact
            split at h
            · obtain ⟨hr, _⟩ := runAction_none hact
              obtain ⟨hl, hz⟩ := runAction_none_lines hok hm hact
              obtain ⟨gap, h1, h2, h3⟩ := ih _ _ _ h
              refine ⟨st.rest.take (st.rest.length - rest.length) ++ gap, ?_, ?_, ?_⟩
              · rw [hr] at h1
                conv => lhs; rw [hsplit]
                simp [h1]
              · rw [h2, hl, countNl_append, hz]; simp
              · rw [h3, hl, countNl_append, hz]; simp
            · cases h
          · cases h
          · cases h
        · split at h
          · rename_i hcl
            have hc10 : c ≠ 10 := by intro h10; subst h10; rw [hlit] at hcl; cases hcl
            injection h with h1 h2; subst h1 h2
            exact ⟨[], by simp [hrest], by simp [countNl], by simp [countNl, hc10]⟩
          · cases h

end Cxx
