/-
  Theorems/Fault.lean — a callback that raises: no further callback is delivered, the run
  fails with that exception, and what was delivered is exactly the prefix of the stream of
  the run in which nothing raises.  For every client program and every fault position.
-/
import CxxModel.Theorems.Events
namespace Cxx

def Env.withFault (env : Env) (i : Nat) : Env := { env with faultAt := some i }

@[simp] theorem withFault_cfg (env : Env) (i : Nat) : (env.withFault i).cfg = env.cfg := rfl
@[simp] theorem withFault_mcRe (env : Env) (i : Nat) : (env.withFault i).mcRe = env.mcRe := rfl
@[simp] theorem withFault_opts (env : Env) (i : Nat) : (env.withFault i).opts = env.opts := rfl
@[simp] theorem withFault_skip (env : Env) (i : Nat) : (env.withFault i).skip = env.skip := rfl
@[simp] theorem withFault_faultAt (env : Env) (i : Nat) : (env.withFault i).faultAt = some i := rfl

/-- the counter is the length of the stream -/
def Counted (w : World) : Prop := w.events.length = w.delivered

theorem Counted.of_extends {w w' : World} (h : Counted w) (e : Extends w w') : Counted w' := by
  obtain ⟨suf, he, hd⟩ := e
  simp [Counted, he, hd, h.symm] at *

/-- relation between the outcome `o` of the run in which nothing raises and the outcome
    `oF` of the run in which the `i`-th delivered callback raises -/
def FaultOut (i : Nat) {α : Type} (o oF : World × Except Err α) : Prop :=
  (o.1.delivered ≤ i → oF = o) ∧
  (i < o.1.delivered → oF.2 = .error (.visitor i) ∧ oF.1.events = o.1.events.take (i + 1))

theorem take_of_extends {w w' : World} (hc : Counted w) (e : Extends w w') {i : Nat} (hi : i < w.delivered) :
    w'.events.take (i + 1) = w.events.take (i + 1) := by
  obtain ⟨suf, he, _⟩ := e
  rw [he, List.take_append_of_le_length]
  rw [hc]; omega

/-- one delivery: either it does not raise (same world in both runs) or it is the `i`-th -/
theorem deliver_fault (env : Env) (hf : env.faultAt = none) (i : Nat) (w : World) (e : Event)
    (hc : Counted w) (hi : w.delivered ≤ i) :
    (deliver env w e).2 = none ∧
    ((deliver (env.withFault i) w e = deliver env w e ∧ (deliver env w e).1.delivered ≤ i) ∨
     ((deliver (env.withFault i) w e).2 = some (.visitor i) ∧
      (deliver (env.withFault i) w e).1 = (deliver env w e).1 ∧
      (deliver env w e).1.delivered = i + 1)) := by
  simp only [deliver]
  cases hm : w.muted with
  | true => simp [hi]
  | false =>
    simp only [Bool.false_eq_true, ↓reduceIte, hf, withFault_faultAt]
    by_cases h : w.delivered = i
    · simp [h]
    · have : ¬ (some i = some w.delivered) := by intro hh; injection hh with hh; exact h hh.symm
      simp [this]; omega

/-- deliver one callback, then go on with `f`: the pattern of `push`, `pop` and `emit` -/
theorem deliver_then (env : Env) (hf : env.faultAt = none) (i : Nat) {α : Type} (w : World) (e : Event)
    (hc : Counted w) (hi : w.delivered ≤ i) (f : Env → World → World × Except Err α)
    (hfo : ∀ w1, Counted w1 → w1.delivered ≤ i → FaultOut i (f env w1) (f (env.withFault i) w1))
    (hfe : ∀ w1, Extends w1 (f env w1).1) :
    FaultOut i
      (match deliver env w e with
        | (w1, some e) => (w1, .error e)
        | (w1, none) => f env w1)
      (match deliver (env.withFault i) w e with
        | (w1, some e) => (w1, .error e)
        | (w1, none) => f (env.withFault i) w1) := by
  obtain ⟨hn, hcase⟩ := deliver_fault env hf i w e hc hi
  rcases hd : deliver env w e with ⟨w1, r1⟩
  rw [hd] at hn hcase
  simp only at hn
  subst hn
  have hc1 : Counted w1 := hc.of_extends (deliver_extends' hd)
  rcases hcase with ⟨heq, hle⟩ | ⟨hr, hw, hdl⟩
  · rw [heq]; exact hfo _ hc1 hle
  · rcases hdF : deliver (env.withFault i) w e with ⟨wF, rF⟩
    rw [hdF] at hr hw
    simp only at hr hw hdl
    subst hr hw
    simp only
    obtain ⟨suf, _, hdd⟩ := hfe wF
    refine ⟨fun h => absurd h (by omega), fun _ => ⟨rfl, ?_⟩⟩
    have := take_of_extends hc1 (hfe wF) (i := i) (by omega)
    rw [this, List.take_of_length_le]
    rw [hc1]; omega

@[simp] theorem catchable_visitor (i : Nat) : catchable (.visitor i) = false := rfl

theorem fault_sim (env : Env) (hf : env.faultAt = none) (i : Nat) {α : Type} (p : Prog α) :
    ∀ w, Counted w → w.delivered ≤ i →
      FaultOut i (interp env p w) (interp (env.withFault i) p w) := by
  induction p with
  | pure a => intro w _ hi; exact ⟨fun _ => rfl, fun h => absurd h (by simp [interp]; omega)⟩
  | fail e => intro w _ hi; exact ⟨fun _ => rfl, fun h => absurd h (by simp [interp]; omega)⟩
  | next nl k ih =>
    intro w hc hi
    simp only [interp, withFault_cfg]
    split
    · exact ⟨fun _ => rfl, fun h => absurd h (by simp; omega)⟩
    · exact ih _ _ hc hi
    · exact ih _ _ (hc.of_extends (handOut_extends _ _)) (by simp [World.handOut]; split <;> exact hi)
  | unread ts k ih => intro w hc hi; simp only [interp]; exact ih _ hc hi
  | curLoc k ih =>
    intro w hc hi; simp only [interp]
    split
    · exact ⟨fun _ => rfl, fun h => absurd h (by simp; omega)⟩
    · exact ih _ _ hc hi
  | dox after k ih =>
    intro w hc hi; simp only [interp, withFault_cfg, withFault_mcRe]
    split
    · exact ih _ _ hc hi
    · split
      · exact ⟨fun _ => rfl, fun h => absurd h (by simp; omega)⟩
      · exact ih _ _ hc hi
  | top k ih =>
    intro w hc hi; simp only [interp]
    split
    · exact ⟨fun _ => rfl, fun h => absurd h (by simp; omega)⟩
    · exact ih _ _ hc hi
  | setAccess a k ih =>
    intro w hc hi; simp only [interp]
    split
    · exact ⟨fun _ => rfl, fun h => absurd h (by simp; omega)⟩
    · exact ih _ hc hi
  | setLoc l k ih =>
    intro w hc hi; simp only [interp]
    split
    · exact ⟨fun _ => rfl, fun h => absurd h (by simp; omega)⟩
    · exact ih _ hc hi
  | fresh k ih => intro w hc hi; simp only [interp]; exact ih _ _ hc hi
  | opt k ih => intro w hc hi; simp only [interp, withFault_opts]; exact ih _ _ hc hi
  | debug m k ih =>
    intro w hc hi; simp only [interp, withFault_opts]
    apply ih
    · split <;> exact hc
    · split <;> exact hi
  | note t k ih => intro w hc hi; simp only [interp]; exact ih _ hc hi
  | emit p k ih =>
    intro w hc hi; simp only [interp]
    split
    · exact ⟨fun _ => rfl, fun h => absurd h (by simp; omega)⟩
    · exact deliver_then env hf i w _ hc hi (fun env w1 => interp env k w1)
        (fun w1 h1 h2 => ih w1 h1 h2) (fun w1 => interp_extends env k w1)
  | pop k ih =>
    intro w hc hi; simp only [interp]
    split
    · exact ⟨fun _ => rfl, fun h => absurd h (by simp; omega)⟩
    · split
      · exact ⟨fun _ => rfl, fun h => absurd h (by simp; omega)⟩
      · rename_i blk rest _ _
        exact deliver_then env hf i w _ hc hi
          (fun env w1 => interp env (k blk.view) { w1 with muted := blk.priorMuted, stack := rest })
          (fun w1 h1 h2 => ih _ _ h1 h2)
          (fun w1 => (Extends.of_eq rfl rfl).trans (interp_extends env _ _))
  | push hdr k ih =>
    intro w hc hi; simp only [interp, withFault_skip]
    refine deliver_then env hf i _ _ ?_ ?_
      (fun env' w2 => interp env' k (if !w2.muted && env.skip w.nextId hdr then { w2 with muted := true } else w2))
      (fun w1 h1 h2 => ih _ (by split <;> exact h1) (by split <;> exact h2))
      (fun w1 => Extends.trans (by split <;> exact Extends.of_eq rfl rfl) (interp_extends env _ _))
    · exact hc
    · exact hi
  | bounded ts body k ihb ihk =>
    intro w hc hi; simp only [interp]
    have hb := ihb { w with buf := { tokbuf := ts.map w.toTok, lex := { rest := [] }, bounded := true } } hc hi
    have hbe := interp_extends env body { w with buf := { tokbuf := ts.map w.toTok, lex := { rest := [] }, bounded := true } }
    rcases h1 : interp env body { w with buf := { tokbuf := ts.map w.toTok, lex := { rest := [] }, bounded := true } } with ⟨w1, r1⟩
    rcases h2 : interp (env.withFault i) body { w with buf := { tokbuf := ts.map w.toTok, lex := { rest := [] }, bounded := true } } with ⟨w1F, r1F⟩
    rw [h1, h2] at hb
    rw [h1] at hbe
    have hc1 : Counted w1 := Counted.of_extends (w := { w with buf := _ }) hc hbe
    obtain ⟨hsame, hfault⟩ := hb
    simp only at hsame hfault
    by_cases hle : w1.delivered ≤ i
    · have := hsame hle
      injection this with e1 e2
      subst e1 e2
      simp only
      cases r1F with
      | ok g => exact ihk _ _ hc1 hle
      | error e =>
        simp only
        by_cases hcatch : catchable e = true
        · simp only [hcatch, ↓reduceIte]; exact ihk _ _ hc1 hle
        · simp only [hcatch, Bool.false_eq_true, ↓reduceIte]
          exact ⟨fun _ => rfl, fun h => absurd h (by simp; omega)⟩
    · have hlt : i < w1.delivered := by omega
      obtain ⟨hr, hev⟩ := hfault hlt
      subst hr
      simp only [catchable_visitor, Bool.false_eq_true, ↓reduceIte]
      -- the run without fault goes on from `w1`; its stream extends `w1.events`
      rename_i αk _
      have hgo : ∀ (o : World × Except Err αk), Extends { w1 with buf := w.buf } o.1 →
          FaultOut i o ({ w1F with buf := w.buf }, .error (.visitor i)) := by
        intro o hext
        obtain ⟨suf, he, hd⟩ := hext
        refine ⟨fun h => absurd h (by simp at hd; omega), fun _ => ⟨rfl, ?_⟩⟩
        simp only at he ⊢
        rw [hev, he, List.take_append_of_le_length]
        rw [hc1]; omega
      cases r1 with
      | ok g => exact hgo _ (interp_extends env _ _)
      | error e =>
        simp only
        by_cases hcatch : catchable e = true
        · simp only [hcatch, ↓reduceIte]; exact hgo _ (interp_extends env _ _)
        · simp only [hcatch, Bool.false_eq_true, ↓reduceIte]; exact hgo _ (Extends.refl _)

end Cxx
