/-
  Theorems/MethodEnd.lean — `_parse_method_end`: the qualifiers after a method's parameter
  list set exactly the flags that are written, for qualifier sequences of any length and
  order, whatever follows (C03).
-/
import CxxModel.Theorems.Stream
import CxxModel.Parser.Decl
import CxxModel.Props.C13
namespace Cxx
open P

/-- effect of one plain qualifier token on the method being built -/
def qualStep (m : Function) (v : String) : Option Function :=
  if v = "const" then some { m with const := true }
  else if v = "volatile" then some { m with volatile := true }
  else if v = "override" then some { m with override := true }
  else if v = "final" then some { m with final := true }
  else if v = "&" || v = "&&" then some { m with refQualifier := some v }
  else none

def applyQuals : Function → List String → Option Function
  | m, [] => some m
  | m, v :: vs =>
    match qualStep m v with
    | some m' => applyQuals m' vs
    | none => none

/-- a token text that `_parse_method_end` does not handle: the loop pushes it back and returns -/
def isPlainEnd (v : String) : Bool :=
  !([":", "{", "=", "const", "volatile", "override", "final", "&", "&&", "->", "throw", "noexcept", "requires"].contains v)

theorem methodEndBody_qual (env : Env) (F : Nat) (c : Core) (m m' : Function) (w : World) (t : Tok) (b1 : Buf)
    (htok : tokenEofOk env.cfg w.buf = .ok (some t, b1)) (hq : qualStep m t.value = some m') :
    interp env (methodEndBody F c m) w = ((({ w with buf := b1 } : World).handOut t).2, .ok (.inl m')) := by
  have hho := handOut_same ({ w with buf := b1 } : World) t
  obtain ⟨_, _, _, hval⟩ := hho
  unfold methodEndBody
  simp only [bind, interp_bind, interp_token, htok, hval]
  unfold qualStep at hq
  split at hq
  · rename_i hv
    injection hq with hq; subst hq
    simp [hv, pure, interp]
  · split at hq
    · rename_i hv
      injection hq with hq; subst hq
      simp [hv, pure, interp]
    · split at hq
      · rename_i hv
        injection hq with hq; subst hq
        simp [hv, pure, interp]
      · split at hq
        · rename_i hv
          injection hq with hq; subst hq
          simp [hv, pure, interp]
        · split at hq
          · rename_i h1 h2 h3 h4 hv
            injection hq with hq; subst hq
            rcases (by simpa using hv : t.value = "&" ∨ t.value = "&&") with hv | hv
            · simp [hv, pure, interp]
            · simp [hv, pure, interp]
          · cases hq

theorem methodEndBody_plain (env : Env) (F : Nat) (c : Core) (m : Function) (w : World) (t : Tok) (b1 : Buf)
    (htok : tokenEofOk env.cfg w.buf = .ok (some t, b1)) (hp : isPlainEnd t.value = true) :
    interp env (methodEndBody F c m) w =
      ({ (({ w with buf := b1 } : World).handOut t).2 with
          buf := Cxx.returnTokens ([(({ w with buf := b1 } : World).handOut t).1].map (({ w with buf := b1 } : World).handOut t).2.toTok)
            (({ w with buf := b1 } : World).handOut t).2.buf }, .ok (.inr m)) := by
  have hho := handOut_same ({ w with buf := b1 } : World) t
  obtain ⟨_, _, _, hval⟩ := hho
  simp only [isPlainEnd, List.contains_cons, List.contains_nil, Bool.or_false, Bool.not_eq_true', Bool.or_eq_false_iff,
    beq_eq_false_iff_ne, ne_eq] at hp
  obtain ⟨h1, h2, h3, h4, h5, h6, h7, h8, h9, h10, h11, h12, h13⟩ := hp
  unfold methodEndBody P.returnToken
  simp only [bind, interp_bind, interp_token, htok, hval]
  simp [h1, h2, h3, h4, h5, h6, h7, h8, h9, h10, h11, h12, h13, pure, interp, Prog.bind]

/-- **qualifier sequences**: after the qualifiers `quals` (any of `const`, `volatile`,
    `override`, `final`, `&`, `&&`, in any order, any number) and a token the routine does not
    handle, the method carries exactly the flags `applyQuals` computes and that token is left
    in the stream. -/
theorem methodEnd_quals_loop (env : Env) (c : Core) (G : Nat) : ∀ (quals : List Tok) (m m' : Function) (n : Nat) (w : World)
    (bmid b' : Buf) (term : Tok),
    Yields env.cfg w.buf quals bmid → applyQuals m (quals.map (·.value)) = some m' →
    tokenEofOk env.cfg bmid = .ok (some term, b') → isPlainEnd term.value = true → quals.length + 1 ≤ n →
    ∃ (w' : World) (t' : Tok), interp env (P.loopN n m (methodEndBody G c)) w = (w', .ok m') ∧
      w'.buf = Cxx.returnToken t' b' ∧ t'.tv = term.tv ∧ SameParse w w' := by
  intro quals
  induction quals with
  | nil =>
    intro m m' n w bmid b' term hy ha htok hp hF
    cases hy
    simp only [List.map_nil, applyQuals, Option.some.injEq] at ha
    subst ha
    cases n with
    | zero => omega
    | succ n =>
      have hho := handOut_same ({ w with buf := b' } : World) term
      obtain ⟨hsame0, hbuf, hty, hval⟩ := hho
      refine ⟨{ (({ w with buf := b' } : World).handOut term).2 with
          buf := Cxx.returnToken ((({ w with buf := b' } : World).handOut term).2.toTok (({ w with buf := b' } : World).handOut term).1) b' },
        _, ?_, rfl, ?_, ?_⟩
      · rw [P.loopN]
        simp only [bind, interp_bind, methodEndBody_plain env G c m w term b' htok hp, pure, interp]
        simp only [List.map_cons, List.map_nil, Cxx.returnTokens, List.singleton_append, hbuf]
        rfl
      · simp [Tok.tv, World.toTok, hty, hval]
      · exact ((SameParse.setBuf w b').trans hsame0).trans (SameParse.setBuf _ _)
  | cons q qs ih =>
    intro m m' n w bmid b' term hy ha htok hp hF
    cases hy with
    | cons htq hrest =>
      rename_i b1
      simp only [List.map_cons, applyQuals] at ha
      cases hqs : qualStep m q.value with
      | none => simp [hqs] at ha
      | some m1 =>
        simp only [hqs] at ha
        have hho := handOut_same ({ w with buf := b1 } : World) q
        obtain ⟨hsame0, hbuf, _, _⟩ := hho
        cases n with
        | zero => simp at hF
        | succ n =>
          obtain ⟨w', t', hw, hb, ht, hsp⟩ := ih m1 m' n _ bmid b' term (by rw [hbuf]; exact hrest) ha htok hp
            (by simp at hF; omega)
          refine ⟨w', t', ?_, hb, ht, ((SameParse.setBuf w b1).trans hsame0).trans hsp⟩
          rw [P.loopN]
          simp only [bind, interp_bind, methodEndBody_qual env G c m m1 w q b1 htq hqs]
          exact hw

theorem methodEnd_quals (env : Env) (c : Core) (quals : List Tok) (m m' : Function) (F : Nat) (w : World)
    (bmid b' : Buf) (term : Tok)
    (hy : Yields env.cfg w.buf quals bmid) (ha : applyQuals m (quals.map (·.value)) = some m')
    (htok : tokenEofOk env.cfg bmid = .ok (some term, b')) (hp : isPlainEnd term.value = true)
    (hF : quals.length + 1 ≤ F) :
    ∃ (w' : World) (t' : Tok), interp env (parseMethodEnd F c m) w = (w', .ok m') ∧
      w'.buf = Cxx.returnToken t' b' ∧ t'.tv = term.tv ∧ SameParse w w' :=
  methodEnd_quals_loop env c F quals m m' F w bmid b' term hy ha htok hp hF

/-! ### the flags are exactly the qualifiers written -/

theorem qualStep_flags {m m' : Function} {v : String} (h : qualStep m v = some m') :
    m'.const = (m.const || v == "const") ∧ m'.volatile = (m.volatile || v == "volatile") ∧
    m'.override = (m.override || v == "override") ∧ m'.final = (m.final || v == "final") ∧
    m'.name = m.name ∧ m'.parameters = m.parameters ∧ m'.returnType = m.returnType ∧
    m'.pureVirtual = m.pureVirtual ∧ m'.deleted = m.deleted ∧ m'.default = m.default ∧ m'.hasBody = m.hasBody := by
  unfold qualStep at h
  split at h
  · rename_i hv; injection h with h; subst h; subst hv; simp
  · split at h
    · rename_i hv; injection h with h; subst h; subst hv; simp
    · split at h
      · rename_i hv; injection h with h; subst h; subst hv; simp
      · split at h
        · rename_i hv; injection h with h; subst h; subst hv; simp
        · split at h
          · rename_i h1 h2 h3 h4 hv
            injection h with h; subst h
            simp [h1, h2, h3, h4]
          · cases h

theorem applyQuals_flags : ∀ (vs : List String) (m m' : Function), applyQuals m vs = some m' →
    m'.const = (m.const || vs.contains "const") ∧ m'.volatile = (m.volatile || vs.contains "volatile") ∧
    m'.override = (m.override || vs.contains "override") ∧ m'.final = (m.final || vs.contains "final") ∧
    m'.name = m.name ∧ m'.parameters = m.parameters ∧ m'.returnType = m.returnType ∧
    m'.pureVirtual = m.pureVirtual ∧ m'.deleted = m.deleted ∧ m'.default = m.default ∧ m'.hasBody = m.hasBody := by
  intro vs
  induction vs with
  | nil => intro m m' h; simp only [applyQuals, Option.some.injEq] at h; subst h; simp
  | cons v vs ih =>
    intro m m' h
    simp only [applyQuals] at h
    cases hq : qualStep m v with
    | none => simp [hq] at h
    | some m1 =>
      simp only [hq] at h
      obtain ⟨a1, a2, a3, a4, a5, a6, a7, a8, a9, a10, a11⟩ := qualStep_flags hq
      obtain ⟨b1, b2, b3, b4, b5, b6, b7, b8, b9, b10, b11⟩ := ih m1 m' h
      refine ⟨?_, ?_, ?_, ?_, b5.trans a5, b6.trans a6, b7.trans a7, b8.trans a8, b9.trans a9, b10.trans a10, b11.trans a11⟩
      · rw [b1, a1]; simp [List.contains_cons, Bool.or_assoc, eq_comm, Bool.beq_eq_decide_eq]
      · rw [b2, a2]; simp [List.contains_cons, Bool.or_assoc, eq_comm, Bool.beq_eq_decide_eq]
      · rw [b3, a3]; simp [List.contains_cons, Bool.or_assoc, eq_comm, Bool.beq_eq_decide_eq]
      · rw [b4, a4]; simp [List.contains_cons, Bool.or_assoc, eq_comm, Bool.beq_eq_decide_eq]


/-! ### what may follow the qualifiers -/

/-- the qualifier prefix in general: the loop reaches, with the fuel reduced by the number of
    qualifiers, the method `m1` at a world whose stream is right after them -/
theorem methodEnd_quals_prefix (env : Env) (c : Core) (G : Nat) : ∀ (quals : List Tok) (m m1 : Function) (w : World) (bmid : Buf),
    Yields env.cfg w.buf quals bmid → applyQuals m (quals.map (·.value)) = some m1 →
    ∃ wmid, wmid.buf = bmid ∧ SameParse w wmid ∧
      ∀ k, interp env (P.loopN (quals.length + k) m (methodEndBody G c)) w =
           interp env (P.loopN k m1 (methodEndBody G c)) wmid := by
  intro quals
  induction quals with
  | nil =>
    intro m m1 w bmid hy ha
    cases hy
    simp only [List.map_nil, applyQuals, Option.some.injEq] at ha
    subst ha
    exact ⟨w, rfl, SameParse.refl w, by intro k; simp⟩
  | cons q qs ih =>
    intro m m1 w bmid hy ha
    cases hy with
    | cons htq hrest =>
      rename_i b1
      simp only [List.map_cons, applyQuals] at ha
      cases hqs : qualStep m q.value with
      | none => simp [hqs] at ha
      | some m2 =>
        simp only [hqs] at ha
        have hho := handOut_same ({ w with buf := b1 } : World) q
        obtain ⟨hsame0, hbuf, _, _⟩ := hho
        obtain ⟨wmid, hb, hsp, hk⟩ := ih m2 m1 _ bmid (by rw [hbuf]; exact hrest) ha
        refine ⟨wmid, hb, ((SameParse.setBuf w b1).trans hsame0).trans hsp, ?_⟩
        intro k
        have : (q :: qs).length + k = (qs.length + k) + 1 := by simp; omega
        rw [this, P.loopN]
        simp only [bind, interp_bind, methodEndBody_qual env G c m m2 w q b1 htq hqs]
        exact hk k

/-- `= 0`, `= delete`, `= default` -/
theorem methodEndBody_assign (env : Env) (G : Nat) (c : Core) (m : Function) (w : World) (eq z : Tok) (b1 b2 : Buf)
    (h1 : tokenEofOk env.cfg w.buf = .ok (some eq, b1)) (he : eq.value = "=")
    (h2 : tokenEofOk env.cfg b1 = .ok (some z, b2)) (res : Function)
    (hz : (z.value = "0" ∧ res = { m with pureVirtual := true }) ∨
          (z.value = "delete" ∧ res = { m with deleted := true }) ∨
          (z.value = "default" ∧ res = { m with default := true })) :
    ∃ w', interp env (methodEndBody G c m) w = (w', .ok (.inr res)) ∧ w'.buf = b2 ∧ SameParse w w' := by
  have ho1 := handOut_same ({ w with buf := b1 } : World) eq
  obtain ⟨hs1, hb1, _, hv1⟩ := ho1
  generalize hwA : (({ w with buf := b1 } : World).handOut eq).2 = wA at *
  have h2' : tokenEofOk env.cfg wA.buf = .ok (some z, b2) := by rw [hb1]; exact h2
  have ho2 := handOut_same ({ wA with buf := b2 } : World) z
  obtain ⟨hs2, hb2, _, hv2⟩ := ho2
  refine ⟨(({ wA with buf := b2 } : World).handOut z).2, ?_, hb2, ?_⟩
  · unfold methodEndBody
    simp only [bind, interp_bind, interp_token, h1, hwA, hv1, he, h2', hv2]
    rcases hz with ⟨hz, hr⟩ | ⟨hz, hr⟩ | ⟨hz, hr⟩
    · subst hr; simp [interp_bind, interp_token, h2', hv2, hz, pure, interp]
    · subst hr; simp [interp_bind, interp_token, h2', hv2, hz, pure, interp]
    · subst hr; simp [interp_bind, interp_token, h2', hv2, hz, pure, interp]
  · exact (((SameParse.setBuf w b1).trans hs1).trans (SameParse.setBuf wA b2)).trans hs2

/-- a body: `{`, bracket-balanced content, `}` -/
theorem methodEndBody_body (env : Env) (G : Nat) (c : Core) (m : Function) (w : World) (ob : Tok) (b1 b' : Buf)
    (content : List Tok) (closer : Tok)
    (h1 : tokenEofOk env.cfg w.buf = .ok (some ob, b1)) (ho : ob.value = "{")
    (hy : Yields env.cfg b1 (content ++ [closer]) b') (hb : Balanced "{" "}" content) (hc : closer.type = "}")
    (hG : content.length + 1 ≤ G) :
    ∃ w', interp env (methodEndBody (G + 1) c m) w = (w', .ok (.inr { m with hasBody := true })) ∧ w'.buf = b' ∧ SameParse w w' := by
  have ho1 := handOut_same ({ w with buf := b1 } : World) ob
  obtain ⟨hs1, hb1, _, hv1⟩ := ho1
  obtain ⟨w', hw, hb', hsp⟩ := C13_discard_resumes env "{" "}" (by decide) content closer hb hc
    (({ w with buf := b1 } : World).handOut ob).2 b' G (by rw [hb1]; exact hy) hG
  refine ⟨w', ?_, hb', ((SameParse.setBuf w b1).trans hs1).trans hsp⟩
  unfold methodEndBody
  simp only [bind, interp_bind, interp_token, h1, hv1, ho]
  simp [interp_bind, hw, pure, interp]

/-- **qualifiers, then `= 0` / `= delete` / `= default`** -/
theorem methodEnd_quals_assign (env : Env) (c : Core) (quals : List Tok) (m m1 : Function) (F : Nat) (w : World)
    (bmid b1 b2 : Buf) (eq z : Tok) (res : Function)
    (hy : Yields env.cfg w.buf quals bmid) (ha : applyQuals m (quals.map (·.value)) = some m1)
    (h1 : tokenEofOk env.cfg bmid = .ok (some eq, b1)) (he : eq.value = "=")
    (h2 : tokenEofOk env.cfg b1 = .ok (some z, b2))
    (hz : (z.value = "0" ∧ res = { m1 with pureVirtual := true }) ∨
          (z.value = "delete" ∧ res = { m1 with deleted := true }) ∨
          (z.value = "default" ∧ res = { m1 with default := true }))
    (hF : quals.length + 1 ≤ F) :
    ∃ w', interp env (parseMethodEnd F c m) w = (w', .ok res) ∧ w'.buf = b2 ∧ SameParse w w' := by
  obtain ⟨wmid, hbm, hsp, hk⟩ := methodEnd_quals_prefix env c F quals m m1 w bmid hy ha
  obtain ⟨w', hw, hb, hsp2⟩ := methodEndBody_assign env F c m1 wmid eq z b1 b2 (by rw [hbm]; exact h1) he h2 res hz
  refine ⟨w', ?_, hb, hsp.trans hsp2⟩
  unfold parseMethodEnd
  obtain ⟨k, rfl⟩ : ∃ k, F = quals.length + (k + 1) := ⟨F - quals.length - 1, by omega⟩
  rw [hk (k + 1), P.loopN]
  simp only [bind, interp_bind, hw, pure, interp]

/-- **qualifiers, then a body** -/
theorem methodEnd_quals_body (env : Env) (c : Core) (quals : List Tok) (m m1 : Function) (F : Nat) (w : World)
    (bmid b1 b' : Buf) (ob : Tok) (content : List Tok) (closer : Tok)
    (hy : Yields env.cfg w.buf quals bmid) (ha : applyQuals m (quals.map (·.value)) = some m1)
    (h1 : tokenEofOk env.cfg bmid = .ok (some ob, b1)) (ho : ob.value = "{")
    (hyb : Yields env.cfg b1 (content ++ [closer]) b') (hb : Balanced "{" "}" content) (hc : closer.type = "}")
    (hF : quals.length + content.length + 2 ≤ F) :
    ∃ w', interp env (parseMethodEnd (F + 1) c m) w = (w', .ok { m1 with hasBody := true }) ∧ w'.buf = b' ∧ SameParse w w' := by
  obtain ⟨wmid, hbm, hsp, hk⟩ := methodEnd_quals_prefix env c (F + 1) quals m m1 w bmid hy ha
  obtain ⟨w', hw, hb', hsp2⟩ := methodEndBody_body env F c m1 wmid ob b1 b' content closer (by rw [hbm]; exact h1) ho hyb hb hc
    (by omega)
  refine ⟨w', ?_, hb', hsp.trans hsp2⟩
  unfold parseMethodEnd
  obtain ⟨k, hkF⟩ : ∃ k, F + 1 = quals.length + (k + 1) := ⟨F - quals.length, by omega⟩
  conv => lhs; arg 2; arg 1; rw [hkF]
  rw [hk (k + 1), P.loopN]
  simp only [bind, interp_bind, hw, pure, interp]


/-! ### `noexcept( … )` and `throw( … )` in the qualifier sequence: the value is the content -/

theorem inner_tv (o : CTok) (mid : List CTok) (cl : CTok) : (P.inner (o :: (mid ++ [cl]))).map CTok.tv = mid.map CTok.tv := by
  simp [P.inner]

/-- split a token list whose type/text image is `o :: content ++ [closer]` -/
theorem tv_split_both {res : List CTok} {o : CTok} {content : List Tok} {closer : Tok}
    (h : res.map CTok.tv = o.tv :: (content.map Tok.tv ++ [closer.tv])) :
    ∃ o' mid cl, res = o' :: (mid ++ [cl]) ∧ mid.map CTok.tv = content.map Tok.tv := by
  cases res with
  | nil => simp at h
  | cons o' r =>
    simp only [List.map_cons, List.cons.injEq] at h
    obtain ⟨_, hr⟩ := h
    obtain ⟨mid, c2, hsplit, h1, h2⟩ := List.map_eq_append_iff.mp hr
    cases c2 with
    | nil => simp at h2
    | cons cl cr =>
      cases cr with
      | cons x y => simp at h2
      | nil => exact ⟨o', mid, cl, by rw [hsplit], h1⟩

/-- `noexcept ( content )`: the method's `noexcept` value holds exactly the content tokens —
    the parentheses are left out and nothing else is -/
theorem methodEndBody_noexcept (env : Env) (G : Nat) (c : Core) (m : Function) (w : World) (kw op : Tok) (b1 b2 b' : Buf)
    (content : List Tok) (closer : Tok)
    (h1 : tokenEofOk env.cfg w.buf = .ok (some kw, b1)) (hk : kw.value = "noexcept")
    (h2 : tokenEofOk env.cfg b1 = .ok (some op, b2)) (ho : op.type = "(")
    (hy : Yields env.cfg b2 (content ++ [closer]) b') (hn : Nested (content.map (·.type))) (hc : closer.type = ")")
    (hG : content.length + 1 ≤ G) :
    ∃ (w' : World) (v : Value), interp env (methodEndBody (G + 1) c m) w = (w', .ok (.inl { m with noexcept := some v })) ∧
      w'.buf = b' ∧ SameParse w w' ∧ v.tokens.map (fun t => (t.type, t.value)) = content.map Tok.tv := by
  have ho1 := handOut_same ({ w with buf := b1 } : World) kw
  obtain ⟨hs1, hb1, _, hv1⟩ := ho1
  generalize hwA : (({ w with buf := b1 } : World).handOut kw).2 = wA at *
  have h2' : tokenEofOk env.cfg wA.buf = .ok (some op, b2) := by rw [hb1]; exact h2
  have ho2 := handOut_same ({ wA with buf := b2 } : World) op
  obtain ⟨hs2, hb2, hty2, _⟩ := ho2
  generalize hwB : (({ wA with buf := b2 } : World).handOut op).2 = wB at *
  generalize hcB : (({ wA with buf := b2 } : World).handOut op).1 = cB at *
  have hl : Gen.balancedTokenMap.lookup cB.type = some ")" := by rw [hty2, ho]; decide
  obtain ⟨w', res, hw, hb', hsp, hres⟩ := consumeBalanced_region env cB ")" hl content closer hn hc wB b' G
    (by rw [hb2]; exact hy) hG
  obtain ⟨o', mid, cl, hsplit, hmid⟩ := tv_split_both hres
  refine ⟨w', P.createValue (P.sliceIf Gen.methodNoexceptSliced res), ?_, hb', ?_, ?_⟩
  · unfold methodEndBody P.tokenIf
    simp only [bind, interp_bind, interp_token, h1, hwA, hv1, hk]
    simp [interp_bind, interp_tokenIfP, h2', hwB, hcB, hty2, ho, hw, pure, interp]
  · exact ((((SameParse.setBuf w b1).trans hs1).trans (SameParse.setBuf wA b2)).trans hs2).trans hsp
  · have hsl : Gen.methodNoexceptSliced = true := by decide
    rw [hsl, hsplit]
    simp only [P.sliceIf, ↓reduceIte, P.createValue, List.map_map]
    have := inner_tv o' mid cl
    rw [← hmid, ← this]
    simp [Function.comp_def, CTok.tv]

end Cxx
