/-
  Theorems/BlockEnd.lean — `}` closing a namespace or extern block (C04, C12): `_on_block_end`
  delivers the end callback of the innermost open block (to whoever received its start), pops
  exactly that block, restores the visitor that was active before it, and does nothing else.
-/
import CxxModel.Theorems.Structural
namespace Cxx
open P

theorem block_end_nonclass (env : Env) (F : Nat) (c : Core) (w : World) (blk : Block) (rest : List Block)
    (hstack : w.stack = blk :: rest) (hg : blk.isGlobal = false) (hk : blk.hdr.kind ≠ .cls) :
    interp env (onBlockEnd F c) w =
      match deliver env w (mkEvent w .blockEnd blk (rest.head?.map (·.id))) with
      | (w1, some e) => (w1, .error e)
      | (w1, none) => ({ w1 with muted := blk.priorMuted, stack := rest }, .ok ()) := by
  unfold onBlockEnd
  simp only [bind, interp_bind, interp, hstack, hg, Bool.false_eq_true, ↓reduceIte]
  cases deliver env w (mkEvent w .blockEnd blk (rest.head?.map (·.id))) with
  | mk w1 o =>
    cases o with
    | some e => rfl
    | none => simp [Block.view, hk, pure, interp]

end Cxx
