/-
  Theorems/BlockEnd.lean — `}` closing a namespace or extern block (C04, C12): `_on_block_end`
  delivers the end callback of the innermost open block (to whoever received its start), pops
  exactly that block, restores the visitor that was active before it, and does nothing else.
-/
import CxxModel.Theorems.Structural
namespace Cxx
open P

theorem block_end_nonclass (env : Env) (F : Nat) (c : Core) (w : World) (blk : Block) (rest : List Block)
    (hstack : w.stack = blk :: rest) (hg : blk.isGlobal = false) (hk : blk.hdr.kind ≠ .cls) :
    interp env (onBlockEnd F c) w =
      match deliver env w (mkEvent w .blockEnd blk (rest.head?.map (·.id))) with
      | (w1, some e) => (w1, .error e)
      | (w1, none) => ({ w1 with muted := blk.priorMuted, stack := rest }, .ok ()) := by
  unfold onBlockEnd
  simp only [bind, interp_bind, interp, hstack, hg, Bool.false_eq_true, ↓reduceIte]
  cases deliver env w (mkEvent w .blockEnd blk (rest.head?.map (·.id))) with
  | mk w1 o =>
    cases o with
    | some e => rfl
    | none => simp [Block.view, hk, pure, interp]

/-- the block a `push` creates -/
def pushedBlock (hdr : BlockHdr) (w : World) : Block :=
  { id := w.nextId, hdr := hdr, loc := hdr.loc, access := hdr.access, priorMuted := w.muted }

/-- the start callback a `push` delivers -/
def pushEvent (hdr : BlockHdr) (w : World) : Event :=
  mkEvent { w with stack := pushedBlock hdr w :: w.stack, nextId := w.nextId + 1 } .blockStart (pushedBlock hdr w)
    (w.stack.head?.map (·.id))

/-- the parser state after a `push` whose callback was delivered and returned -/
def pushedWorld (env : Env) (hdr : BlockHdr) (w : World) : World :=
  { w with stack := pushedBlock hdr w :: w.stack, nextId := w.nextId + 1, events := w.events ++ [pushEvent hdr w],
           delivered := w.delivered + 1, muted := env.skip w.nextId hdr }

/-- opening a block under an active visitor that does not raise: ONE start callback for a new
    block (fresh state id, child of the innermost open block), exactly that block pushed, the
    visitor muted iff the callback asks to skip the block -/
theorem interp_push_passing (env : Env) (hdr : BlockHdr) (w : World) (hmu : w.muted = false)
    (hfa : ¬ env.faultAt = some w.delivered) :
    interp env (Prog.push hdr (Prog.pure ())) w = (pushedWorld env hdr w, .ok ()) := by
  simp only [interp, deliver, hmu, Bool.false_eq_true, ↓reduceIte, hfa, Bool.not_false, Bool.true_and]
  cases hsk : env.skip w.nextId hdr with
  | true => simp [pushedWorld, pushEvent, pushedBlock, hsk, hmu]
  | false => simp [pushedWorld, pushEvent, pushedBlock, hsk, hmu]

theorem pushEvent_fields (hdr : BlockHdr) (w : World) :
    (pushEvent hdr w).kind = .blockStart ∧ (pushEvent hdr w).stateId = w.nextId ∧
    (pushEvent hdr w).parentId = w.stack.head?.map (·.id) ∧ (pushEvent hdr w).hdr = hdr ∧
    (pushEvent hdr w).stateKind = hdr.kind :=
  ⟨rfl, rfl, rfl, rfl, rfl⟩

end Cxx
