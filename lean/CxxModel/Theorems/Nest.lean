/-
  Theorems/Nest.lean — the delivered stream is a well-formed traversal: `on_parse_start`
  first and once, block start/end callbacks nested, every end matching the most recent open
  start, every callback carrying the innermost open state, `parent` = the enclosing state.
  For every client program, when no start callback returns `False`.
-/
import CxxModel.Theorems.Events
namespace Cxx

/-- protocol monitor: the stack of open state ids (innermost first), `none` = violated -/
def trackStep (st : Option (List Nat)) (e : Event) : Option (List Nat) :=
  match st with
  | none => none
  | some opn =>
    match e.kind with
    | .parseStart => if opn = [] ∧ e.parentId = none then some [e.stateId] else none
    | .blockStart => if opn ≠ [] ∧ e.parentId = opn.head? then some (e.stateId :: opn) else none
    | .blockEnd =>
      match opn with
      | top :: rest => if top = e.stateId ∧ e.parentId = rest.head? then some rest else none
      | [] => none
    | .item _ => if opn.head? = some e.stateId ∧ e.parentId = opn.tail.head? then some opn else none

def track (evs : List Event) : Option (List Nat) := evs.foldl trackStep (some [])

theorem track_snoc (evs : List Event) (e : Event) : track (evs ++ [e]) = trackStep (track evs) e := by
  simp [track, List.foldl_append]

def ids (s : List Block) : List Nat := s.map (·.id)

/-- invariant of a run in which nothing is skipped -/
structure Nest (w : World) : Prop where
  unmuted : w.muted = false
  prior : ∀ b ∈ w.stack, b.priorMuted = false
  trk : track w.events = some (ids w.stack)
  /-- the global state is at the bottom of the stack (it is never popped) -/
  bottom : w.stack.getLast?.map (·.isGlobal) = some true

/-- outcome: the stream is always well nested; on success the open states are the stack -/
def NestOut {α : Type} (o : World × Except Err α) : Prop :=
  (track o.1.events).isSome ∧ (keepsGoing o.2 → Nest o.1)

theorem NestOut.of_nest {α : Type} {w : World} (h : Nest w) (r : Except Err α) : NestOut (w, r) :=
  ⟨by simp [h.trk], fun _ => h⟩

/-- deliver one callback to an unmuted visitor, then go on with `f` -/
theorem nest_deliver_then (env : Env) {α : Type} (w : World) (e : Event) (hm : w.muted = false)
    (f : World → World × Except Err α)
    (ht : (track (w.events ++ [e])).isSome)
    (hf : NestOut (f { w with events := w.events ++ [e], delivered := w.delivered + 1 })) :
    NestOut
      (match deliver env w e with
        | (w1, some err) => (w1, .error err)
        | (w1, none) => f w1) := by
  by_cases hfa : env.faultAt = some w.delivered
  · have : deliver env w e =
        ({ w with events := w.events ++ [e], delivered := w.delivered + 1 }, some (.visitor w.delivered)) := by
      simp [deliver, hm, hfa]
    rw [this]
    exact ⟨ht, fun hh => by simp [keepsGoing, catchable] at hh⟩
  · have : deliver env w e = ({ w with events := w.events ++ [e], delivered := w.delivered + 1 }, none) := by
      simp [deliver, hm, hfa]
    rw [this]
    exact hf

theorem head_ids (s : List Block) : (ids s).head? = s.head?.map (·.id) := by
  cases s <;> simp [ids]

theorem nest_sim (env : Env) (hs : ∀ i h, env.skip i h = false) {α : Type} (p : Prog α) :
    ∀ w, Nest w → NestOut (interp env p w) := by
  induction p with
  | pure a => intro w h; exact NestOut.of_nest h _
  | fail e => intro w h; exact NestOut.of_nest h _
  | next nl k ih =>
    intro w h; simp only [interp]
    split
    · exact NestOut.of_nest h _
    · exact ih _ _ ⟨h.unmuted, h.prior, h.trk, h.bottom⟩
    · apply ih; simp only [World.handOut]; split <;> exact ⟨h.unmuted, h.prior, h.trk, h.bottom⟩
  | unread ts k ih => intro w h; simp only [interp]; exact ih _ ⟨h.unmuted, h.prior, h.trk, h.bottom⟩
  | curLoc k ih =>
    intro w h; simp only [interp]
    split
    · exact NestOut.of_nest h _
    · exact ih _ _ ⟨h.unmuted, h.prior, h.trk, h.bottom⟩
  | dox after k ih =>
    intro w h; simp only [interp]
    split
    · exact ih _ _ ⟨h.unmuted, h.prior, h.trk, h.bottom⟩
    · split
      · exact NestOut.of_nest h _
      · exact ih _ _ ⟨h.unmuted, h.prior, h.trk, h.bottom⟩
  | top k ih =>
    intro w h; simp only [interp]
    split
    · exact NestOut.of_nest h _
    · exact ih _ _ h
  | setAccess a k ih =>
    intro w h; simp only [interp]
    split
    · exact NestOut.of_nest h _
    · rename_i blk rest hst
      apply ih
      have hp := h.prior; have ht := h.trk
      rw [hst] at hp ht
      have hb := h.bottom
      rw [hst] at hb
      refine ⟨h.unmuted, ?_, by simpa [ids] using ht, ?_⟩
      · intro b hb; simp at hb; rcases hb with rfl | hb
        · exact hp blk (by simp)
        · exact hp b (by simp [hb])
      · cases rest with
        | nil => simpa using hb
        | cons r rs => simpa [List.getLast?_cons_cons] using hb
  | setLoc l k ih =>
    intro w h; simp only [interp]
    split
    · exact NestOut.of_nest h _
    · rename_i blk rest hst
      apply ih
      have hp := h.prior; have ht := h.trk
      rw [hst] at hp ht
      have hb := h.bottom
      rw [hst] at hb
      refine ⟨h.unmuted, ?_, by simpa [ids] using ht, ?_⟩
      · intro b hb; simp at hb; rcases hb with rfl | hb
        · exact hp blk (by simp)
        · exact hp b (by simp [hb])
      · cases rest with
        | nil => simpa using hb
        | cons r rs => simpa [List.getLast?_cons_cons] using hb
  | fresh k ih => intro w h; simp only [interp]; exact ih _ _ ⟨h.unmuted, h.prior, h.trk, h.bottom⟩
  | opt k ih => intro w h; simp only [interp]; exact ih _ _ h
  | debug m k ih =>
    intro w h; simp only [interp]; apply ih
    split
    · exact ⟨h.unmuted, h.prior, h.trk, h.bottom⟩
    · exact h
  | note t k ih => intro w h; simp only [interp]; exact ih _ ⟨h.unmuted, h.prior, h.trk, h.bottom⟩
  | emit p k ih =>
    intro w h; simp only [interp]
    split
    · exact NestOut.of_nest h _
    · rename_i blk rest hst
      have ht := h.trk
      rw [hst] at ht
      have hstep : track (w.events ++ [mkEvent w (.item p) blk (rest.head?.map (·.id))]) = some (ids (blk :: rest)) := by
        rw [track_snoc, ht]; simp [trackStep, mkEvent, ids, head_ids]
      refine nest_deliver_then env w _ h.unmuted (fun w1 => interp env k w1) (by simp [hstep]) ?_
      exact ih _ ⟨h.unmuted, h.prior, by simpa [hst] using hstep, h.bottom⟩
  | pop k ih =>
    intro w h; simp only [interp]
    split
    · exact NestOut.of_nest h _
    · rename_i blk rest hst
      split
      · exact NestOut.of_nest h _
      · have ht := h.trk
        rw [hst] at ht
        have hstep : track (w.events ++ [mkEvent w .blockEnd blk (rest.head?.map (·.id))]) = some (ids rest) := by
          rw [track_snoc, ht]; simp [trackStep, mkEvent, ids, head_ids]
        have hp := h.prior
        rw [hst] at hp
        refine nest_deliver_then env w _ h.unmuted
          (fun w1 => interp env (k blk.view) { w1 with muted := blk.priorMuted, stack := rest }) (by simp [hstep]) ?_
        apply ih
        rename_i hng
        have hb := h.bottom
        rw [hst] at hb
        refine ⟨hp blk (by simp), fun b hb => hp b (by simp [hb]), hstep, ?_⟩
        cases rest with
        | nil => simp at hb; exact absurd hb hng
        | cons r rs => simpa [List.getLast?_cons_cons] using hb
  | push hdr k ih =>
    intro w h; simp only [interp]
    have ht := h.trk
    have hemp : w.stack ≠ [] := by
      intro hh; have := h.bottom; simp [hh] at this
    · have hne : ids w.stack ≠ [] := by
        intro hh; apply hemp
        cases hst : w.stack with
        | nil => rfl
        | cons a b => simp [ids, hst] at hh
      refine nest_deliver_then env _ _ ?_
        (fun w2 => interp env k (if !w2.muted && env.skip w.nextId hdr then { w2 with muted := true } else w2)) ?_ ?_
      · exact h.unmuted
      · simp only [track_snoc, ht]
        simp [trackStep, mkEvent, hne, head_ids, hemp]
      · have : ∀ (w2 : World), (!w2.muted && env.skip w.nextId hdr) = false := by intro w2; simp [hs]
        simp only [this, Bool.false_eq_true, ↓reduceIte]
        apply ih
        refine ⟨h.unmuted, ?_, ?_, ?_⟩
        · intro b hb; simp at hb; rcases hb with rfl | hb
          · exact h.unmuted
          · exact h.prior b hb
        · simp only [track_snoc, ht]
          simp [trackStep, mkEvent, hne, head_ids, ids, hemp]
        · have := h.bottom
          cases hst : w.stack with
          | nil => exact absurd hst hemp
          | cons r rs => simpa [hst, List.getLast?_cons_cons] using this
  | bounded ts body k ihb ihk =>
    intro w h; simp only [interp]
    have hb := ihb { w with buf := { tokbuf := ts.map w.toTok, lex := { rest := [] }, bounded := true } }
      ⟨h.unmuted, h.prior, h.trk, h.bottom⟩
    rcases h1 : interp env body { w with buf := { tokbuf := ts.map w.toTok, lex := { rest := [] }, bounded := true } } with ⟨w1, r1⟩
    rw [h1] at hb
    obtain ⟨hsome, hnest⟩ := hb
    simp only at hsome hnest
    cases r1 with
    | ok g =>
      have hn := hnest trivial
      exact ihk _ _ ⟨hn.unmuted, hn.prior, hn.trk, hn.bottom⟩
    | error e =>
      simp only
      by_cases hcatch : catchable e = true
      · simp only [hcatch, ↓reduceIte]
        have hn := hnest (by simpa [keepsGoing] using hcatch)
        exact ihk _ _ ⟨hn.unmuted, hn.prior, hn.trk, hn.bottom⟩
      · simp only [hcatch, Bool.false_eq_true, ↓reduceIte]
        exact ⟨hsome, fun hh => by simp [keepsGoing, hcatch] at hh⟩

end Cxx
