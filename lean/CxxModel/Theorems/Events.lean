/-
  Theorems/Events.lean — the delivered stream only grows (history is monotone), and the
  delivery counter is its length.  For every client program.
-/
import CxxModel.Interp
namespace Cxx

/-- does the run go on after this result (ok, or an error a `bounded` region catches)? -/
def keepsGoing {α : Type} : Except Err α → Prop
  | .ok _ => True
  | .error e => catchable e = true

/-- `w'` extends `w`: same events plus a suffix, counter in step -/
def Extends (w w' : World) : Prop :=
  ∃ suf, w'.events = w.events ++ suf ∧ w'.delivered = w.delivered + suf.length ∧ w.anon ≤ w'.anon

theorem Extends.refl (w : World) : Extends w w := ⟨[], by simp, by simp, Nat.le_refl _⟩

theorem Extends.trans {a b c : World} (h1 : Extends a b) (h2 : Extends b c) : Extends a c := by
  obtain ⟨s1, e1, d1, a1⟩ := h1
  obtain ⟨s2, e2, d2, a2⟩ := h2
  exact ⟨s1 ++ s2, by simp [e2, e1], by simp [d2, d1]; omega, Nat.le_trans a1 a2⟩

/-- a step that leaves `events` and `delivered` alone (and does not lower the anonymous-id counter) -/
theorem Extends.of_eq {w w' : World} (he : w'.events = w.events) (hd : w'.delivered = w.delivered)
    (ha : w.anon ≤ w'.anon := by first | exact Nat.le_refl _ | (simp; done) | omega) :
    Extends w w' := ⟨[], by simp [he], by simp [hd], ha⟩

theorem deliver_extends (env : Env) (w : World) (e : Event) : Extends w (deliver env w e).1 := by
  simp only [deliver]
  split
  · exact Extends.refl w
  · split
    · exact ⟨[e], rfl, rfl, Nat.le_refl _⟩
    · exact ⟨[e], rfl, rfl, Nat.le_refl _⟩

theorem deliver_extends' {env : Env} {w w' : World} {e : Event} {r : Option Err}
    (h : deliver env w e = (w', r)) : Extends w w' := by
  have := deliver_extends env w e; rw [h] at this; exact this

theorem handOut_extends (w : World) (t : Tok) : Extends w (w.handOut t).2 := by
  simp only [World.handOut]; split <;> exact Extends.of_eq rfl rfl

theorem interp_extends (env : Env) {α : Type} (p : Prog α) : ∀ w, Extends w (interp env p w).1 := by
  induction p with
  | pure a => intro w; exact Extends.refl w
  | next nl k ih =>
    intro w
    simp only [interp]
    split
    · exact Extends.refl w
    · exact (Extends.of_eq rfl rfl).trans (ih _ _)
    · rename_i t b _
      exact ((Extends.of_eq (w' := { w with buf := b }) rfl rfl).trans (handOut_extends _ t)).trans (ih _ _)
  | unread ts k ih => intro w; simp only [interp]; exact (Extends.of_eq rfl rfl).trans (ih _)
  | curLoc k ih =>
    intro w; simp only [interp]
    split
    · exact Extends.refl w
    · exact (Extends.of_eq rfl rfl).trans (ih _ _)
  | dox after k ih =>
    intro w; simp only [interp]
    split
    · exact (Extends.of_eq rfl rfl).trans (ih _ _)
    · split
      · exact Extends.refl w
      · exact (Extends.of_eq rfl rfl).trans (ih _ _)
  | push hdr k ih =>
    intro w; simp only [interp]
    split
    · rename_i heq
      have h1 := deliver_extends' heq
      exact (Extends.of_eq rfl rfl).trans h1
    · rename_i heq
      have h1 := deliver_extends' heq
      refine ((Extends.of_eq rfl rfl).trans h1).trans ?_
      refine Extends.trans ?_ (ih _)
      split <;> exact Extends.of_eq rfl rfl
  | pop k ih =>
    intro w; simp only [interp]
    split
    · exact Extends.refl w
    · split
      · exact Extends.refl w
      · split
        · rename_i heq; exact deliver_extends' heq
        · rename_i heq
          exact (deliver_extends' heq).trans ((Extends.of_eq rfl rfl).trans (ih _ _))
  | emit p k ih =>
    intro w; simp only [interp]
    split
    · exact Extends.refl w
    · split
      · rename_i heq; exact deliver_extends' heq
      · rename_i heq; exact (deliver_extends' heq).trans (ih _)
  | top k ih =>
    intro w; simp only [interp]
    split
    · exact Extends.refl w
    · exact ih _ _
  | setAccess a k ih =>
    intro w; simp only [interp]
    split
    · exact Extends.refl w
    · exact (Extends.of_eq rfl rfl).trans (ih _)
  | setLoc l k ih =>
    intro w; simp only [interp]
    split
    · exact Extends.refl w
    · exact (Extends.of_eq rfl rfl).trans (ih _)
  | fresh k ih =>
    intro w; simp only [interp]
    have h1 : Extends w { w with anon := w.anon + 1 } := ⟨[], by simp, by simp, Nat.le_succ _⟩
    exact h1.trans (ih _ _)
  | bounded ts body k ihb ihk =>
    intro w; simp only [interp]
    have hb := ihb { w with buf := { tokbuf := ts.map w.toTok, lex := { rest := [] }, bounded := true } }
    rcases h1 : interp env body { w with buf := { tokbuf := ts.map w.toTok, lex := { rest := [] }, bounded := true } } with ⟨w1, r1⟩
    rw [h1] at hb
    have hb' : Extends w { w1 with buf := w.buf } :=
      ((Extends.of_eq rfl rfl).trans hb).trans (Extends.of_eq rfl rfl)
    cases r1 with
    | ok g => exact hb'.trans (ihk _ _)
    | error e =>
      simp only
      split
      · exact hb'.trans (ihk _ _)
      · exact hb'
  | opt k ih => intro w; simp only [interp]; exact ih _ _
  | debug m k ih =>
    intro w; simp only [interp]
    refine Extends.trans ?_ (ih _)
    split <;> exact Extends.of_eq rfl rfl
  | note t k ih => intro w; simp only [interp]; exact (Extends.of_eq rfl rfl).trans (ih _)
  | fail e => intro w; exact Extends.refl w

end Cxx
