import CxxModel.Theorems.MemberKinds
import CxxModel.Theorems.CtorDecl

/-!
# Class bodies whose members may depend on the class header: constructors and destructors

`MemberN env F c P` is a `Member` whose soundness may assume a property `P` of the header of the class it is written in (here:
the class's name, `nameIs nm`).  Every `Member` is a `MemberN` for any `P` (`Member.toN`); constructors `N ( ) quals ;` and
destructors `~N ( ) quals ;` are `MemberN (nameIs N)`; `Item.clsN` turns `key … N { members } ;` into an `Item` when the
written name is `N`, so whole sources with classes that declare constructors and destructors are covered by `parse_source`.
The sequence lemmas are those of `Members.lean` with the extra hypothesis carried along (the header of a class block never
changes while its body is read: `Block.SameButLocAcc`).
-/

namespace Cxx
open P

structure MemberN (env : Env) (F : Nat) (c : Core) (P : BlockHdr → Prop) where
  At : Buf → Buf → Prop
  Ev : Block → List Block → String → List Event → Prop
  accOut : String → String
  size : Nat
  at_sigEq : ∀ {b b' k : Buf}, At b b' → SigEq b k → ∃ k', At k k' ∧ SigEq b' k'
  sound : ∀ (w : World) (b' : Buf) (blk : Block) (rest : List Block) (acc : String), w.stack = blk :: rest →
    blk.hdr.kind = .cls → P blk.hdr → blk.access = some acc → w.muted = false → At w.buf b' →
    ∃ (w7 : World) (evs : List Event), RanC env F c w size b' blk rest (accOut acc) evs w7 ∧ Ev blk rest acc evs

/-- every member that needs nothing of the class header is a member under any requirement -/
def Member.toN {env : Env} {F : Nat} {c : Core} (m : Member env F c) (P : BlockHdr → Prop) : MemberN env F c P where
  At := m.At
  Ev := m.Ev
  accOut := m.accOut
  size := m.size
  at_sigEq := m.at_sigEq
  sound := fun w b' blk rest acc hst hk _ hacc hmu hat => m.sound w b' blk rest acc hst hk hacc hmu hat

/-- the class is called `nm` -/
def nameIs (nm : String) (h : BlockHdr) : Prop := h.cls.typename.segments.getLast?.bind PQSeg.nameAttr = some nm

/-- the access level after a list of members -/
def accAfterN {env : Env} {F : Nat} {c : Core} {P : BlockHdr → Prop} (ms : List (MemberN env F c P)) (acc : String) : String :=
  ms.foldl (fun a m => m.accOut a) acc

inductive MSeqAtN {env : Env} {F : Nat} {c : Core} {P : BlockHdr → Prop} : List (MemberN env F c P) → Buf → Buf → Prop
  | nil (b : Buf) : MSeqAtN [] b b
  | cons {m : MemberN env F c P} {ms : List (MemberN env F c P)} {b b1 b' : Buf} : m.At b b1 → MSeqAtN ms b1 b' → MSeqAtN (m :: ms) b b'

/-- one group of callbacks per member, each under the access level the members before it leave -/
inductive MSeqEvN {env : Env} {F : Nat} {c : Core} {P : BlockHdr → Prop} (blk : Block) (rest : List Block) :
    List (MemberN env F c P) → String → List Event → Prop
  | nil (acc : String) : MSeqEvN blk rest [] acc []
  | cons {m : MemberN env F c P} {ms : List (MemberN env F c P)} {acc : String} {g evs : List Event} {blk' : Block} :
      blk.SameButLocAcc blk' → m.Ev blk' rest acc g → MSeqEvN blk rest ms (m.accOut acc) evs → MSeqEvN blk rest (m :: ms) acc (g ++ evs)

def mseqSizeN {env : Env} {F : Nat} {c : Core} {P : BlockHdr → Prop} (ms : List (MemberN env F c P)) : Nat := (ms.map (·.size)).sum

theorem MSeqAtN.sigEq {env : Env} {F : Nat} {c : Core} {P : BlockHdr → Prop} : ∀ {ms : List (MemberN env F c P)} {b b' k : Buf},
    MSeqAtN ms b b' → SigEq b k → ∃ k', MSeqAtN ms k k' ∧ SigEq b' k' := by
  intro ms
  induction ms with
  | nil => intro b b' k h hs; cases h; exact ⟨k, .nil _, hs⟩
  | cons m ms ih =>
    intro b b' k h hs
    cases h with
    | cons h1 hrest =>
      obtain ⟨k1, hk1, hs1⟩ := m.at_sigEq h1 hs
      obtain ⟨k', hk', hs'⟩ := ih hrest hs1
      exact ⟨k', .cons hk1 hk', hs'⟩

theorem MSeqEvN.reanchor {env : Env} {F : Nat} {c : Core} {P : BlockHdr → Prop} {blk blk1 : Block} {rest : List Block} (h1 : blk.SameButLocAcc blk1) :
    ∀ {ms : List (MemberN env F c P)} {a : String} {evs : List Event}, MSeqEvN blk1 rest ms a evs → MSeqEvN blk rest ms a evs := by
  intro ms a evs h
  induction h with
  | nil a => exact .nil a
  | cons hsb hev _ ih2 => exact .cons (h1.trans hsb) hev ih2

theorem mseq_soundN {env : Env} {F : Nat} {c : Core} {P : BlockHdr → Prop} : ∀ (ms : List (MemberN env F c P)) (w : World) (b' : Buf) (blk : Block)
    (rest : List Block) (acc : String), w.stack = blk :: rest → blk.hdr.kind = .cls → P blk.hdr → blk.access = some acc →
    w.muted = false → MSeqAtN ms w.buf b' →
    ∃ (w7 : World) (evs : List Event), RanC env F c w (mseqSizeN ms) b' blk rest (accAfterN ms acc) evs w7 ∧
      MSeqEvN blk rest ms acc evs := by
  intro ms
  induction ms with
  | nil =>
    intro w b' blk rest acc hst hk hP hacc hmu hat
    cases hat
    exact ⟨w, [], ⟨⟨[], .nil _, rfl⟩, SigEq.refl _, ⟨blk, hst, .refl _, hacc⟩, by simp, hmu⟩, .nil _⟩
  | cons m ms ih =>
    intro w b' blk rest acc hst hk hP hacc hmu hat
    cases hat with
    | cons h1 hrest =>
      rename_i b1
      obtain ⟨w1, g, ⟨⟨ws1, hc1, hl1⟩, hb1, ⟨blk1, hst1, hsb1, hacc1⟩, hev1, hmu1⟩, hg⟩ := m.sound w b1 blk rest acc hst hk hP hacc hmu h1
      obtain ⟨k', hrest', hs'⟩ := hrest.sigEq hb1
      obtain ⟨w7, evs, ⟨⟨ws2, hc2, hl2⟩, hb2, ⟨blk7, hst7, hsb7, hacc7⟩, hev2, hmu2⟩, hse⟩ :=
        ih w1 k' blk1 rest (m.accOut acc) hst1 (by rw [← hsb1.2.1]; exact hk) (by rw [← hsb1.2.1]; exact hP) hacc1 hmu1 hrest'
      refine ⟨w7, g ++ evs, ⟨⟨ws1 ++ ws2, hc1.append hc2, by simp [hl1, hl2, mseqSizeN]⟩, hs'.trans hb2,
        ⟨blk7, hst7, hsb1.trans hsb7, hacc7⟩, by rw [hev2, hev1]; simp, hmu2⟩, ?_⟩
      exact .cons (.refl _) hg (hse.reanchor hsb1)


section kinds
variable (env : Env) (hp : RulesProgress env.cfg = true) (hnf : env.faultAt = none) (F D : Nat)

/-- `N ( ) quals ;` in the body of a class called `N`: the default constructor -/
def MemberN.ctor0 (nm : String) (first op cp : Tok) (quals : List Tok) (semi : Tok) :
    MemberN env F (core F (D + 1 + 1 + 1 + 1)) (nameIs nm) where
  At := fun b b' =>
    (first.type = "NAME" ∧ first.value = nm ∧ identVal nm = true ∧ nm.isEmpty = false ∧ op.type = "(" ∧ op.value ≠ "auto" ∧
      cp.type = ")" ∧ cp.value = ")" ∧ semi.type = ";" ∧ semi.value = ";" ∧ quals.length + 1 ≤ F ∧ 2 ≤ F ∧
      (∀ d acc, ∃ m', applyQuals { ctorFunction nm d with parameters := [], isMethod := true, constructor := true, access := some acc }
        (quals.map (·.value)) = some m')) ∧
    Yields env.cfg b (first :: op :: cp :: (quals ++ [semi])) b'
  Ev := fun blk rest acc evs => ∃ ev d m',
    applyQuals { ctorFunction nm d with parameters := [], isMethod := true, constructor := true, access := some acc } (quals.map (·.value)) = some m' ∧
    evs = [ev] ∧ ItemEvent blk rest ev (.classMethod m')
  accOut := id
  size := 1
  at_sigEq := by
    intro b b' k ⟨hok, hy⟩ hs
    obtain ⟨k', hy', hs'⟩ := hy.sigEq hs
    exact ⟨k', ⟨hok, hy'⟩, hs'⟩
  sound := by
    intro w b' blk rest acc hst hk hP hacc hmu ⟨⟨h1, h2, h3, h4, h5, h6, h7, h8, h9, h10, h11, h12, hq⟩, hy⟩
    obtain ⟨bn, t0, hy⟩ := hy.cons_inv
    obtain ⟨bo, t1, hy⟩ := hy.cons_inv
    obtain ⟨bc, t2, hy⟩ := hy.cons_inv
    obtain ⟨bq, hyq, hy⟩ := hy.split
    obtain ⟨d, bD, hd⟩ := getDoxygen_ok env.cfg hp env.mcRe w.buf (some first) bn t0
    obtain ⟨m', hm'⟩ := hq d acc
    obtain ⟨w7, ct, ev, hi7, hb, _, hst7, hev7, hk7, hid7, hpar7, _, _, hmu7, _⟩ :=
      toplevel_ctor env hp F D w first op cp semi [] quals m' bn bo bc bc bq b' blk rest hst hk (by rw [h2]; exact hP) hmu
        (by rw [hnf]; simp) t0 h1 (by rw [h2]; exact h3) (by rw [h2]; exact h4) t1 h5 h6 t2 (by rw [h7]; decide) (by rw [h7]; decide)
        (by rw [h8]; decide) (fun W f' hW hft _ => parseParameters_empty_flex env F _ W f' bc hW (hft.trans h7)) hyq hy.single_inv h9 h10 h11 h12
        d bD hd (by rw [h2, hacc]; exact hm')
    exact ⟨w7, [ev], ⟨⟨[w7], .one hi7, rfl⟩, by rw [hb]; exact .refl _, ⟨_, hst7, ⟨rfl, rfl, rfl, rfl⟩, hacc⟩, hev7, hmu7⟩,
      ev, d, m', hm', rfl, hk7, hid7, hpar7⟩

/-- `~N ( ) quals ;` in the body of a class called `N`: the destructor (`~N` is one token) -/
def MemberN.dtor0 (nm : String) (first op cp : Tok) (quals : List Tok) (semi : Tok) :
    MemberN env F (core F (D + 1 + 1 + 1 + 1)) (nameIs nm) where
  At := fun b b' =>
    (first.type = "NAME" ∧ first.value = "~" ++ nm ∧ identVal ("~" ++ nm) = true ∧ nm.isEmpty = false ∧ op.type = "(" ∧ op.value ≠ "auto" ∧
      cp.type = ")" ∧ cp.value = ")" ∧ semi.type = ";" ∧ semi.value = ";" ∧ quals.length + 1 ≤ F ∧ 2 ≤ F ∧
      (∀ d acc, ∃ m', applyQuals { ctorFunction ("~" ++ nm) d with parameters := [], isMethod := true, destructor := true, access := some acc }
        (quals.map (·.value)) = some m')) ∧
    Yields env.cfg b (first :: op :: cp :: (quals ++ [semi])) b'
  Ev := fun blk rest acc evs => ∃ ev d m',
    applyQuals { ctorFunction ("~" ++ nm) d with parameters := [], isMethod := true, destructor := true, access := some acc } (quals.map (·.value)) = some m' ∧
    evs = [ev] ∧ ItemEvent blk rest ev (.classMethod m')
  accOut := id
  size := 1
  at_sigEq := by
    intro b b' k ⟨hok, hy⟩ hs
    obtain ⟨k', hy', hs'⟩ := hy.sigEq hs
    exact ⟨k', ⟨hok, hy'⟩, hs'⟩
  sound := by
    intro w b' blk rest acc hst hk hP hacc hmu ⟨⟨h1, h2, h3, h4, h5, h6, h7, h8, h9, h10, h11, h12, hq⟩, hy⟩
    obtain ⟨bn, t0, hy⟩ := hy.cons_inv
    obtain ⟨bo, t1, hy⟩ := hy.cons_inv
    obtain ⟨bc, t2, hy⟩ := hy.cons_inv
    obtain ⟨bq, hyq, hy⟩ := hy.split
    obtain ⟨d, bD, hd⟩ := getDoxygen_ok env.cfg hp env.mcRe w.buf (some first) bn t0
    obtain ⟨m', hm'⟩ := hq d acc
    obtain ⟨w7, ct, ev, hi7, hb, _, hst7, hev7, hk7, hid7, hpar7, _, _, hmu7, _⟩ :=
      toplevel_dtor env hp F D w first nm op cp semi [] quals m' bn bo bc bc bq b' blk rest hst hk hP h2 hmu
        (by rw [hnf]; simp) t0 h1 (by rw [h2]; exact h3) h4 t1 h5 h6 t2 (by rw [h7]; decide) (by rw [h7]; decide)
        (by rw [h8]; decide) (fun W f' hW hft _ => parseParameters_empty_flex env F _ W f' bc hW (hft.trans h7)) hyq hy.single_inv h9 h10 h11 h12
        d bD hd (by rw [h2, hacc]; exact hm')
    exact ⟨w7, [ev], ⟨⟨[w7], .one hi7, rfl⟩, by rw [hb]; exact .refl _, ⟨_, hst7, ⟨rfl, rfl, rfl, rfl⟩, hacc⟩, hev7, hmu7⟩,
      ev, d, m', hm', rfl, hk7, hid7, hpar7⟩

/-- `N ( S1 prefix1 n1 , … , Sk prefixk nk ) quals ;` in the body of a class called `N`: a constructor over a general
    parameter list (every parameter a type specifier, a declarator prefix and a name: `PItemG`) -/
def MemberN.ctorP (nm : String) (first op : Tok) (ps : List (PItemG × Tok)) (last : PItemG) (cp : Tok) (quals : List Tok) (semi : Tok) :
    MemberN env F (core F (D + 1 + 1 + 1 + 1)) (nameIs nm) where
  At := fun b b' =>
    (first.type = "NAME" ∧ first.value = nm ∧ identVal nm = true ∧ nm.isEmpty = false ∧ op.type = "(" ∧ op.value ≠ "auto" ∧
      cp.type = ")" ∧ cp.value = ")" ∧ semi.type = ";" ∧ semi.value = ";" ∧ quals.length + 1 ≤ F ∧ 2 ≤ F ∧
      ((∀ q ∈ ps, q.1.OK env F D ∧ q.2.type = "," ∧ q.2.value ≠ ")") ∧ last.OK env F D ∧ ps.length + 1 ≤ F ∧
        (∃ f prest, plistToks ps last cp = f :: prest ∧ f.type ≠ "*" ∧ f.type ≠ "&" ∧ Gen.msvcConventions.contains f.value = false)) ∧
      (∀ d acc, ∃ m', applyQuals { ctorFunction nm d with parameters := ps.map (fun q => q.1.param) ++ [last.param], isMethod := true, constructor := true, access := some acc }
        (quals.map (·.value)) = some m')) ∧
    Yields env.cfg b (first :: op :: (plistToks ps last cp ++ (quals ++ [semi]))) b'
  Ev := fun blk rest acc evs => ∃ ev d m',
    applyQuals { ctorFunction nm d with parameters := ps.map (fun q => q.1.param) ++ [last.param], isMethod := true, constructor := true, access := some acc } (quals.map (·.value)) = some m' ∧
    evs = [ev] ∧ ItemEvent blk rest ev (.classMethod m')
  accOut := id
  size := 1
  at_sigEq := by
    intro b b' k ⟨hok, hy⟩ hs
    obtain ⟨k', hy', hs'⟩ := hy.sigEq hs
    exact ⟨k', ⟨hok, hy'⟩, hs'⟩
  sound := by
    intro w b' blk rest acc hst hk hP hacc hmu ⟨⟨h1, h2, h3, h4, h5, h6, h7, h8, h9, h10, h11, h12, ⟨hps, hl, hFp, f, prest, htoks, hf1, hf2, hf3⟩, hq⟩, hy⟩
    obtain ⟨bn, t0, hy⟩ := hy.cons_inv
    obtain ⟨bo, t1, hy⟩ := hy.cons_inv
    rw [htoks] at hy
    obtain ⟨b1, tf, hy⟩ := Yields.cons_inv hy
    obtain ⟨bc, hyp, hy⟩ := hy.split
    obtain ⟨bq, hyq, hy⟩ := hy.split
    obtain ⟨d, bD, hd⟩ := getDoxygen_ok env.cfg hp env.mcRe w.buf (some first) bn t0
    obtain ⟨m', hm'⟩ := hq d acc
    obtain ⟨w7, ct, ev, hi7, hb, _, hst7, hev7, hk7, hid7, hpar7, _, _, hmu7, _⟩ :=
      toplevel_ctor env hp F D w first op f semi _ quals m' bn bo b1 bc bq b' blk rest hst hk (by rw [h2]; exact hP) hmu
        (by rw [hnf]; simp) t0 h1 (by rw [h2]; exact h3) (by rw [h2]; exact h4) t1 h5 h6 tf hf1 hf2 hf3
        (fun W f' hW hft hfv => parseParameters_gen_flex env F D ps last cp W b1 bc f f' prest hps hl h7 h8 htoks hW hft hfv hyp hFp)
        hyq hy.single_inv h9 h10 h11 h12 d bD hd (by rw [h2, hacc]; exact hm')
    exact ⟨w7, [ev], ⟨⟨[w7], .one hi7, rfl⟩, by rw [hb]; exact .refl _, ⟨_, hst7, ⟨rfl, rfl, rfl, rfl⟩, hacc⟩, hev7, hmu7⟩,
      ev, d, m', hm', rfl, hk7, hid7, hpar7⟩

variable (hskip : ∀ i h, env.skip i h = false)

/-- **`class a::b { members };` is an item** (`struct` and `union` too): the class block's start
    and end callbacks around the members' callbacks, the members read under the access level the
    class key gives until an access specifier changes it -/
def Item.clsN (nm : String) (kw first : Tok) (pairs : List (Tok × Tok)) (ms : List (MemberN env F (core F (D + 1 + 1 + 1 + 1)) (nameIs nm))) :
    Item env F (core F (D + 1 + 1 + 1 + 1)) where
  At := fun b b' => ∃ (ob cl semi : Tok) (b1 b2 : Buf),
    isClassKey kw.value = true ∧ kw.type = kw.value ∧ first.type = "NAME" ∧ plainVal first.value = true ∧
    (∀ p ∈ pairs, p.1.type = "DBL_COLON" ∧ p.2.type = "NAME" ∧ plainVal p.2.value = true) ∧ ob.type = "{" ∧
    cl.type = "}" ∧ semi.type = ";" ∧ pairs.length + 2 ≤ F ∧
    (PQSeg.name first.value none :: pairs.map (fun p => PQSeg.name p.2.value none)).getLast?.bind PQSeg.nameAttr = some nm ∧
    Yields env.cfg b (kw :: first :: (pairs.flatMap (fun p => [p.1, p.2]) ++ [ob])) b1 ∧ MSeqAtN ms b1 b2 ∧
    Yields env.cfg b2 [cl, semi] b'
  Ev := fun blk rest evs => BlockEvents blk
    (fun h => h.kind = .cls ∧ h.access = some (defaultAccess kw.value) ∧
      h.cls.typename = .mk (.name first.value none :: pairs.map (fun p => .name p.2.value none)) (some kw.value) false)
    (fun nb mid => MSeqEvN nb (blk :: rest) ms (defaultAccess kw.value) mid) evs
  size := mseqSizeN ms + 2
  at_sigEq := by
    intro b b' k ⟨ob, cl, semi, b1, b2, h1, h2, h3, h4, h5, h6, h7, h8, h9, hN, hy, hm, hy2⟩ hs
    obtain ⟨k1, hy', hs1⟩ := hy.sigEq hs
    obtain ⟨k2, hm', hs2⟩ := hm.sigEq hs1
    obtain ⟨k', hy2', hs'⟩ := hy2.sigEq hs2
    exact ⟨k', ⟨ob, cl, semi, k1, k2, h1, h2, h3, h4, h5, h6, h7, h8, h9, hN, hy', hm', hy2'⟩, hs'⟩
  sound := by
    intro w b' blk rest hst hk hmu ⟨ob, cl, semi, b1, b2, h1, h2, h3, h4, h5, h6, h7, h8, h9, hN, hy, hm, hy2⟩
    have hfa : ∀ n, ¬ env.faultAt = some n := by intro n; rw [hnf]; simp
    obtain ⟨bk, t0, hy⟩ := hy.cons_inv
    obtain ⟨bf, t1, hy⟩ := hy.cons_inv
    obtain ⟨bmid, hyp, hy⟩ := hy.split
    obtain ⟨d, bD, w', ct, _, hbuf', hctv, hst', hev', _, _, hmu', _, hi⟩ :=
      toplevel_class_head env hp F (D + 1 + 1) w kw first pairs ob bk bf bmid b1 blk rest hst hmu (hfa _) t0 h1 h2 t1 h3 h4 h5 hyp
        hy.single_inv h6 h9
    generalize hhdr : classHdr ct first pairs blk d = hdr at hi
    have hPst : (pushedWorld env hdr w').stack = pushedBlock hdr w' :: blk :: rest := by
      show pushedBlock hdr w' :: w'.stack = _; rw [hst', hst]
    have hPmu : (pushedWorld env hdr w').muted = false := hskip _ _
    obtain ⟨w7, mid, ⟨⟨ws, hch, hl⟩, hb7, ⟨nb7, hst7, hsb7, _⟩, hev7, hmu7⟩, hE⟩ :=
      mseq_soundN ms (pushedWorld env hdr w') b2 (pushedBlock hdr w') (blk :: rest) (defaultAccess kw.value) hPst
        (by show hdr.kind = .cls; rw [← hhdr]; rfl) (by show nameIs nm hdr; rw [← hhdr]; exact hN) (by show hdr.access = _; rw [← hhdr, ← hctv]; rfl) hPmu
        (by show MSeqAtN ms w'.buf b2; rw [hbuf']; exact hm)
    obtain ⟨k', hy2', hs'⟩ := hy2.sigEq hb7
    obtain ⟨kc, tc, hy2'⟩ := hy2'.cons_inv
    obtain ⟨n, hn⟩ := segs_getLast pairs first.value
    obtain ⟨wA, cc, hsA, _, hend⟩ := toplevel_class_end env hp F (core F (D + 1 + 1 + 1 + 1)) w7 cl semi kc k' nb7 blk rest n none hst7
      (by rw [← hsb7.2.2.2]; rfl) (by rw [← hsb7.2.1]; show hdr.kind = .cls; rw [← hhdr]; rfl)
      (by rw [← hsb7.2.1]; show hdr.typedef = false; rw [← hhdr]; rfl)
      (by rw [← hsb7.2.1]; show hdr.cls.typename.segments.getLast? = _; rw [← hhdr]; exact hn)
      (fun hc => absurd hc hk) tc h7 hy2'.single_inv h8
    obtain ⟨w3, hi3, hb3, hs3⟩ := hend _ (deliver_passing env { wA with mainTok := some cc }
      (mkEvent { wA with mainTok := some cc } .blockEnd nb7 (some blk.id))
      (by show wA.muted = false; rw [hsA.muted]; exact hmu7) (hfa _))
    refine ⟨w3, pushEvent hdr w' :: (mid ++ [mkEvent { wA with mainTok := some cc } .blockEnd nb7 (some blk.id)]),
      ⟨⟨pushedWorld env hdr w' :: (ws ++ [w3]), .cons hi (hch.append (.one hi3)), by simp [hl]⟩, ?_, ⟨blk, hs3.stack, .refl _⟩, ?_, ?_⟩, ?_⟩
    · rw [hb3]; exact hs'
    · rw [hs3.events]
      show wA.events ++ _ = _
      rw [hsA.events, hev7]
      show (w'.events ++ [pushEvent hdr w']) ++ mid ++ _ = _
      rw [hev']; simp
    · rw [hs3.muted]
      show nb7.priorMuted = false
      rw [← hsb7.2.2.1]; show w'.muted = false; rw [hmu']; exact hmu
    · refine ⟨pushedBlock hdr w', _, _, mid, rfl, rfl, rfl, ?_, rfl, ?_, hE, rfl, hsb7.1.symm, rfl⟩
      · show w'.stack.head?.map (·.id) = _; rw [hst', hst]; rfl
      · show hdr.kind = .cls ∧ hdr.access = _ ∧ hdr.cls.typename = _
        rw [← hhdr, ← hctv]; exact ⟨rfl, rfl, rfl⟩

/-- **a class that declares constructors / destructors, nested in a class body, is a member**: its own members are read under ITS key's default
    access level, whatever level is in force outside, and the outer level is in force again after it -/
def Member.clsN (nm : String) (kw first : Tok) (pairs : List (Tok × Tok)) (ms : List (MemberN env F (core F (D + 1 + 1 + 1 + 1)) (nameIs nm))) :
    Member env F (core F (D + 1 + 1 + 1 + 1)) where
  At := fun b b' => ∃ (ob cl semi : Tok) (b1 b2 : Buf),
    isClassKey kw.value = true ∧ kw.type = kw.value ∧ first.type = "NAME" ∧ plainVal first.value = true ∧
    (∀ p ∈ pairs, p.1.type = "DBL_COLON" ∧ p.2.type = "NAME" ∧ plainVal p.2.value = true) ∧ ob.type = "{" ∧
    cl.type = "}" ∧ semi.type = ";" ∧ pairs.length + 2 ≤ F ∧
    (PQSeg.name first.value none :: pairs.map (fun p => PQSeg.name p.2.value none)).getLast?.bind PQSeg.nameAttr = some nm ∧
    Yields env.cfg b (kw :: first :: (pairs.flatMap (fun p => [p.1, p.2]) ++ [ob])) b1 ∧ MSeqAtN ms b1 b2 ∧
    Yields env.cfg b2 [cl, semi] b'
  Ev := fun blk rest acc evs => BlockEvents blk
    (fun h => h.kind = .cls ∧ h.access = some (defaultAccess kw.value) ∧ h.cls.access = some acc ∧
      h.cls.typename = .mk (.name first.value none :: pairs.map (fun p => .name p.2.value none)) (some kw.value) false)
    (fun nb mid => MSeqEvN nb (blk :: rest) ms (defaultAccess kw.value) mid) evs
  accOut := id
  size := mseqSizeN ms + 2
  at_sigEq := by
    intro b b' k ⟨ob, cl, semi, b1, b2, h1, h2, h3, h4, h5, h6, h7, h8, h9, hN, hy, hm, hy2⟩ hs
    obtain ⟨k1, hy', hs1⟩ := hy.sigEq hs
    obtain ⟨k2, hm', hs2⟩ := hm.sigEq hs1
    obtain ⟨k', hy2', hs'⟩ := hy2.sigEq hs2
    exact ⟨k', ⟨ob, cl, semi, k1, k2, h1, h2, h3, h4, h5, h6, h7, h8, h9, hN, hy', hm', hy2'⟩, hs'⟩
  sound := by
    intro w b' blk rest acc hst hk hacc hmu ⟨ob, cl, semi, b1, b2, h1, h2, h3, h4, h5, h6, h7, h8, h9, hN, hy, hm, hy2⟩
    have hfa : ∀ n, ¬ env.faultAt = some n := by intro n; rw [hnf]; simp
    obtain ⟨bk, t0, hy⟩ := hy.cons_inv
    obtain ⟨bf, t1, hy⟩ := hy.cons_inv
    obtain ⟨bmid, hyp, hy⟩ := hy.split
    obtain ⟨d, bD, w', ct, _, hbuf', hctv, hst', hev', _, _, hmu', _, hi⟩ :=
      toplevel_class_head env hp F (D + 1 + 1) w kw first pairs ob bk bf bmid b1 blk rest hst hmu (hfa _) t0 h1 h2 t1 h3 h4 h5 hyp
        hy.single_inv h6 h9
    generalize hhdr : classHdr ct first pairs blk d = hdr at hi
    have hPst : (pushedWorld env hdr w').stack = pushedBlock hdr w' :: blk :: rest := by
      show pushedBlock hdr w' :: w'.stack = _; rw [hst', hst]
    have hPmu : (pushedWorld env hdr w').muted = false := hskip _ _
    obtain ⟨w7, mid, ⟨⟨ws, hch, hl⟩, hb7, ⟨nb7, hst7, hsb7, _⟩, hev7, hmu7⟩, hE⟩ :=
      mseq_soundN ms (pushedWorld env hdr w') b2 (pushedBlock hdr w') (blk :: rest) (defaultAccess kw.value) hPst
        (by show hdr.kind = .cls; rw [← hhdr]; rfl) (by show nameIs nm hdr; rw [← hhdr]; exact hN) (by show hdr.access = _; rw [← hhdr, ← hctv]; rfl) hPmu
        (by show MSeqAtN ms w'.buf b2; rw [hbuf']; exact hm)
    obtain ⟨k', hy2', hs'⟩ := hy2.sigEq hb7
    obtain ⟨kc, tc, hy2'⟩ := hy2'.cons_inv
    obtain ⟨n, hn⟩ := segs_getLast pairs first.value
    obtain ⟨wA, cc, hsA, _, hend⟩ := toplevel_class_end env hp F (core F (D + 1 + 1 + 1 + 1)) w7 cl semi kc k' nb7 blk rest n none hst7
      (by rw [← hsb7.2.2.2]; rfl) (by rw [← hsb7.2.1]; show hdr.kind = .cls; rw [← hhdr]; rfl)
      (by rw [← hsb7.2.1]; show hdr.typedef = false; rw [← hhdr]; rfl)
      (by rw [← hsb7.2.1]; show hdr.cls.typename.segments.getLast? = _; rw [← hhdr]; exact hn)
      (fun _ => ⟨acc, hacc⟩) tc h7 hy2'.single_inv h8
    obtain ⟨w3, hi3, hb3, hs3⟩ := hend _ (deliver_passing env { wA with mainTok := some cc }
      (mkEvent { wA with mainTok := some cc } .blockEnd nb7 (some blk.id))
      (by show wA.muted = false; rw [hsA.muted]; exact hmu7) (hfa _))
    refine ⟨w3, pushEvent hdr w' :: (mid ++ [mkEvent { wA with mainTok := some cc } .blockEnd nb7 (some blk.id)]),
      ⟨⟨pushedWorld env hdr w' :: (ws ++ [w3]), .cons hi (hch.append (.one hi3)), by simp [hl]⟩, ?_, ⟨blk, hs3.stack, .refl _, hacc⟩, ?_, ?_⟩, ?_⟩
    · rw [hb3]; exact hs'
    · rw [hs3.events]
      show wA.events ++ _ = _
      rw [hsA.events, hev7]
      show (w'.events ++ [pushEvent hdr w']) ++ mid ++ _ = _
      rw [hev']; simp
    · rw [hs3.muted]
      show nb7.priorMuted = false
      rw [← hsb7.2.2.1]; show w'.muted = false; rw [hmu']; exact hmu
    · refine ⟨pushedBlock hdr w', _, _, mid, rfl, rfl, rfl, ?_, rfl, ?_, hE, rfl, hsb7.1.symm, rfl⟩
      · show w'.stack.head?.map (·.id) = _; rw [hst', hst]; rfl
      · show hdr.kind = .cls ∧ hdr.access = _ ∧ hdr.cls.access = _ ∧ hdr.cls.typename = _
        rw [← hhdr, ← hctv]
        refine ⟨rfl, rfl, ?_, rfl⟩
        show (if blk.hdr.kind = .cls then blk.access else none) = some acc
        rw [if_pos hk, hacc]

end kinds

end Cxx
