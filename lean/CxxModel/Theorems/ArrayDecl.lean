/-
  Theorems/ArrayDecl.lean — array declarators inside FULL declarations (C02, C14): `S prefix x [ size ] ;` for any
  type specifier and any declarator prefix delivers exactly ONE `on_variable` (`on_class_field` in a class body)
  whose type is the array of the type the prefix denotes, with EXACTLY the written size tokens (or no size).
-/
import CxxModel.Theorems.DeclPre
import CxxModel.Theorems.ArrayForm
namespace Cxx
open P

/-- `_parse_field` on a declarator followed by ONE array group `[ size ]` (no bit-field, no initializer) -/
theorem parseField_array (env : Env) (F : Nat) (mods : Mods) (dtype : DType) (pq : PQName) (template : Option TemplateDecl)
    (doxygen : Option String) (location : LocRef) (isTypedef : Bool) (w : World) (ob : Tok) (content : List Tok) (cb tm : Tok) (bo bmid b1 : Buf)
    (blk : Block) (rest : List Block) (hstack : w.stack = blk :: rest) (nm : Option String)
    (hname : fieldName (isTypedef || decide (blk.hdr.kind = .cls)) pq = some nm)
    (hto : tokenEofOk env.cfg w.buf = .ok (some ob, bo)) (hob : ob.type = "[") (hnr : isRefLike dtype = false)
    (hn : Nested (content.map (·.type))) (hcb : cb.type = "]") (hyc : Yields env.cfg bo (content ++ [cb]) bmid)
    (htok : tokenEofOk env.cfg bmid = .ok (some tm, b1))
    (htm : ["[", ":", "=", "{"].contains tm.type = false) (hF : content.length + 1 ≤ F) :
    ∃ (w5 : World) (t' : Tok) (bx : Buf) (dox : Option String),
      SameParse { w with stack := { blk with loc := location } :: rest } w5 ∧
      tokenEofOk env.cfg w5.buf = .ok (some t', bx) ∧ SigEq b1 bx ∧ t'.type = tm.type ∧ t'.value = tm.value ∧
      (∀ d, doxygen = some d → dox = some d) ∧
      interp env (parseField (F + 1) mods dtype (some pq) template doxygen location isTypedef) w =
        interp env (fieldEmit mods ({ blk with loc := location } : Block).view
          (.array dtype (if content.isEmpty then none else some (valueOf content))) (some pq) template nm none none dox isTypedef) w5 := by
  simp only [List.contains_cons, List.contains_nil, Bool.or_false, Bool.or_eq_false_iff, beq_eq_false_iff_ne, ne_eq] at htm
  obtain ⟨h1, h2, h3, h4⟩ := htm
  have htop := interp_getTop env { w with stack := { blk with loc := location } :: rest } { blk with loc := location } rest rfl
  obtain ⟨w0, c0, hi0, hb0, hs0, hty0, _⟩ := step_tokenIf_hit env ["["] { w with stack := { blk with loc := location } :: rest } ob bo hto (by rw [hob]; decide)
  obtain ⟨wa, ta, hia, hsa0, hta, htya, hva⟩ := parseArrayType_one env F c0 dtype content cb tm w0 bmid b1 (hty0.trans hob) hnr hn hcb
    (by rw [hb0]; exact hyc) htok h1 hF
  have hsa := hs0.trans hsa0
  obtain ⟨wb, tb, hib, hsb, htb, htyb, hvb⟩ := step_tokenIf_miss env [":"] wa ta b1 hta (by simp [htya, h2])
  obtain ⟨wc, tc, hic, hsc, htc, htyc, hvc⟩ := step_tokenIf_miss env ["="] wb tb b1 htb (by simp [htyb, htya, h3])
  obtain ⟨wd, td, hid, hsd, htd, htyd, hvd⟩ := step_tokenIf_miss env ["{"] wc tc b1 htc (by simp [htyc, htyb, htya, h4])
  have hsame := ((hsa.trans hsb).trans hsc).trans hsd
  have htyT : td.type = tm.type := by rw [htyd, htyc, htyb, htya]
  have hvT : td.value = tm.value := by rw [hvd, hvc, hvb, hva]
  obtain ⟨n, sp, hg, hcase⟩ := fieldName_cases _ pq nm hname
  cases doxygen with
  | some d =>
    refine ⟨wd, td, b1, some d, hsame, htd, SigEq.refl _, htyT, hvT, fun _ h => h, ?_⟩
    unfold parseField P.setLoc
    rcases hcase with ⟨hc, hl, rfl⟩ | ⟨hc, rfl⟩
    · simp only [bind, interp_bind, interp, hstack, htop, hg, Block.view, hc, ↓reduceIte, hl,
        hi0, hia, hib, hic, hid, pure]
    · simp only [bind, interp_bind, interp, hstack, htop, hg, Block.view, hc, Bool.false_eq_true,
        ↓reduceIte, hi0, hia, hib, hic, hid, pure]
  | none =>
    have hsig := getDoxygenAfter_sigEq env.mcRe wd.buf
    rcases tokenEofOk_sigEq env.cfg hsig.symm with ⟨e, he, _⟩ | ⟨o, bA, bB, hA, hB, hAB⟩
    · rw [htd] at he; cases he
    · rw [htd] at hA
      injection hA with hA; injection hA with ho hbA
      subst ho; subst hbA
      refine ⟨{ wd with buf := (getDoxygenAfter env.mcRe wd.buf).2 }, td, bB, (getDoxygenAfter env.mcRe wd.buf).1,
        hsame.trans (SameParse.setBuf wd _), hB, hAB, htyT, hvT, (fun _ h => by cases h), ?_⟩
      unfold parseField P.setLoc
      rcases hcase with ⟨hc, hl, rfl⟩ | ⟨hc, rfl⟩
      · simp only [bind, interp_bind, interp, hstack, htop, hg, Block.view, hc, ↓reduceIte, hl,
          hi0, hia, hib, hic, hid, pure, interp_getDoxygenAfter]
      · simp only [bind, interp_bind, interp, hstack, htop, hg, Block.view, hc, Bool.false_eq_true,
          ↓reduceIte, hi0, hia, hib, hic, hid, pure, interp_getDoxygenAfter]


/-- **one declarator `prefix x [ size ]` and the `,` / `;` after it, outside a class** -/
theorem declarator_variable_array_pre (env : Env) (F D : Nat) (pt : DType) (location : LocRef) (doxygen : Option String)
    (pre : List (String × String)) (ops : List Tok) (x ob : Tok) (content : List Tok) (cb tm : Tok) (d1 : DType) (w : World) (bmid bx bo bc b' : Buf)
    (blk : Block) (rest : List Block) (hstack : w.stack = blk :: rest) (hk : blk.hdr.kind ≠ .cls)
    (hmu : w.muted = false) (hfa : ¬ env.faultAt = some w.delivered)
    (hspec : PrefixSpec env (F + 1) D pt pre d1) (hfn : isFnType d1 = false) (hnr : isRefLike d1 = false)
    (hy : Yields env.cfg w.buf ops bmid) (hops : tvs ops = pre)
    (htx : tokenEofOk env.cfg bmid = .ok (some x, bx)) (hx : x.type = "NAME") (hxv : identVal x.value = true)
    (hto : tokenEofOk env.cfg bx = .ok (some ob, bo)) (hob : ob.type = "[")
    (hn : Nested (content.map (·.type))) (hcb : cb.type = "]") (hyc : Yields env.cfg bo (content ++ [cb]) bc)
    (httm : tokenEofOk env.cfg bc = .ok (some tm, b')) (htm : tm.type = ";" ∨ tm.type = ",")
    (hF : content.length + 1 ≤ F) :
    ∃ (w7 : World) (c : CTok) (dox : Option String) (ev : Event),
      interp env (declaratorBody (F + 1) (core (F + 1) (D + 1)) pt {} .none false false (location, doxygen)) w =
        (w7, .ok (afterDeclarator tm c)) ∧
      SigEq b' w7.buf ∧ w7.stack = { blk with loc := location } :: rest ∧
      w7.events = w.events ++ [ev] ∧ ev.kind = .item (.variable (plainVariable x (DType.array d1 (if content.isEmpty then none else some (valueOf content))) dox)) ∧
      ev.stateId = blk.id ∧ ev.parentId = rest.head?.map (·.id) ∧ (∀ d, doxygen = some d → dox = some d) ∧
      w7.delivered = w.delivered + 1 ∧ w7.anon = w.anon ∧ w7.muted = false ∧ w7.nextId = w.nextId ∧
      w7.mainTok = w.mainTok := by
  obtain ⟨w1, t1, hs1, ht1, hty1, hv1, hi1⟩ := parseDecl_prefix env (F + 1) D pt {} location doxygen false pre ops x ob d1 w bmid bx bo
    blk rest hstack hspec hfn hy hops htx hx hxv hto
    (by rw [hob]; decide) (by rw [hob]; decide) (by rw [hob]; decide) (by omega)
  have hnm : fieldName (false || decide (blk.hdr.kind = .cls)) (.mk [.name x.value none] none false) = some none := by
    have hd : decide (blk.hdr.kind = .cls) = false := by simp [hk]
    rw [hd]; rfl
  obtain ⟨w5, t5, b5, dox, hs5, ht5, hsig5, hty5, hv5, hdox, hi5⟩ := parseField_array env F {} d1 (.mk [.name x.value none] none false)
    none doxygen location false w1 t1 content cb tm bo bc b' blk rest (by rw [hs1.stack]; exact hstack) none hnm ht1 (hty1.trans hob) hnr hn hcb hyc httm
    (by rcases htm with h | h <;> (rw [h]; decide)) hF
  -- the callback
  have hst5 : w5.stack = { blk with loc := location } :: rest := hs5.stack
  have hmu5 : w5.muted = false := by rw [hs5.muted]; show w1.muted = _; rw [hs1.muted]; exact hmu
  have hdl5 : w5.delivered = w.delivered := by rw [hs5.delivered]; show w1.delivered = _; exact hs1.delivered
  have hev5 : w5.events = w.events := by rw [hs5.events]; show w1.events = _; exact hs1.events
  have hdel := deliver_passing env w5 (mkEvent w5 (.item (.variable (plainVariable x (DType.array d1 (if content.isEmpty then none else some (valueOf content))) dox)))
    { blk with loc := location } (rest.head?.map (·.id))) hmu5 (by rw [hdl5]; exact hfa)
  have htok6 : tokenEofOk env.cfg ({ w5 with events := w5.events ++ [mkEvent w5 (.item (.variable (plainVariable x (DType.array d1 (if content.isEmpty then none else some (valueOf content))) dox)))
      { blk with loc := location } (rest.head?.map (·.id))], delivered := w5.delivered + 1 } : World).buf = .ok (some t5, b5) := ht5
  obtain ⟨w7, c7, hi7, hb7, hs7, hty7, _⟩ := step_mustBe env [",", ";"] _ t5 b5 htok6
    (by rw [hty5]; rcases htm with h | h <;> (rw [h]; decide))
  refine ⟨w7, c7, dox, _, ?_, by rw [hb7]; exact hsig5, by rw [hs7.stack]; exact hst5, by rw [hs7.events, hev5], rfl, rfl, rfl,
    hdox, by rw [hs7.delivered, hdl5], ?_, by rw [hs7.muted]; exact hmu5, ?_, ?_⟩
  · unfold declaratorBody
    have hk' : ¬ blk.hdr.kind = .cls := hk
    have hi7' := hi7
    simp only [hst5, plainVariable] at hi7'
    simp only [bind, interp_bind, hi1, hi5, fieldEmit, Block.view, hk', decide_false, Bool.false_eq_true, ↓reduceIte, hasKey,
      List.any_nil, P.emit, interp, hst5, plainVariable] at hdel ⊢
    simp only [hdel, Bool.false_eq_true, ↓reduceIte, bind, interp_bind, pure, interp, hi7', hty7, hty5, afterDeclarator]
    rcases htm with h | h <;> simp [h, interp]
  · rw [hs7.anon]; show w5.anon = _; rw [hs5.anon]; exact hs1.anon
  · rw [hs7.nextId]; show w5.nextId = _; rw [hs5.nextId]; exact hs1.nextId
  · rw [hs7.mainTok]; show w5.mainTok = _; rw [hs5.mainTok]; exact hs1.mainTok



/-- **the same in a class body** -/
theorem declarator_field_array_pre (env : Env) (F D : Nat) (pt : DType) (location : LocRef) (doxygen : Option String)
    (pre : List (String × String)) (ops : List Tok) (x ob : Tok) (content : List Tok) (cb tm : Tok) (d1 : DType) (w : World) (bmid bx bo bc b' : Buf)
    (blk : Block) (rest : List Block) (hstack : w.stack = blk :: rest) (hk : blk.hdr.kind = .cls) (acc : String) (hacc : blk.access = some acc)
    (hmu : w.muted = false) (hfa : ¬ env.faultAt = some w.delivered)
    (hspec : PrefixSpec env (F + 1) D pt pre d1) (hfn : isFnType d1 = false) (hnr : isRefLike d1 = false)
    (hy : Yields env.cfg w.buf ops bmid) (hops : tvs ops = pre)
    (htx : tokenEofOk env.cfg bmid = .ok (some x, bx)) (hx : x.type = "NAME") (hxv : identVal x.value = true)
    (hto : tokenEofOk env.cfg bx = .ok (some ob, bo)) (hob : ob.type = "[")
    (hn : Nested (content.map (·.type))) (hcb : cb.type = "]") (hyc : Yields env.cfg bo (content ++ [cb]) bc)
    (httm : tokenEofOk env.cfg bc = .ok (some tm, b')) (htm : tm.type = ";" ∨ tm.type = ",")
    (hF : content.length + 1 ≤ F) :
    ∃ (w7 : World) (c : CTok) (dox : Option String) (ev : Event),
      interp env (declaratorBody (F + 1) (core (F + 1) (D + 1)) pt {} .none false false (location, doxygen)) w =
        (w7, .ok (afterDeclarator tm c)) ∧
      SigEq b' w7.buf ∧ w7.stack = { blk with loc := location } :: rest ∧
      w7.events = w.events ++ [ev] ∧ ev.kind = .item (.classField (plainField x (DType.array d1 (if content.isEmpty then none else some (valueOf content))) acc dox)) ∧
      ev.stateId = blk.id ∧ ev.parentId = rest.head?.map (·.id) ∧ (∀ d, doxygen = some d → dox = some d) ∧
      w7.delivered = w.delivered + 1 ∧ w7.anon = w.anon ∧ w7.muted = false ∧ w7.nextId = w.nextId ∧
      w7.mainTok = w.mainTok := by
  obtain ⟨w1, t1, hs1, ht1, hty1, hv1, hi1⟩ := parseDecl_prefix env (F + 1) D pt {} location doxygen false pre ops x ob d1 w bmid bx bo
    blk rest hstack hspec hfn hy hops htx hx hxv hto
    (by rw [hob]; decide) (by rw [hob]; decide) (by rw [hob]; decide) (by omega)
  have hnm : fieldName (false || decide (blk.hdr.kind = .cls)) (.mk [.name x.value none] none false) = some (some x.value) := by
    have hd : decide (blk.hdr.kind = .cls) = true := by simp [hk]
    rw [hd]; rfl
  obtain ⟨w5, t5, b5, dox, hs5, ht5, hsig5, hty5, hv5, hdox, hi5⟩ := parseField_array env F {} d1 (.mk [.name x.value none] none false)
    none doxygen location false w1 t1 content cb tm bo bc b' blk rest (by rw [hs1.stack]; exact hstack) (some x.value) hnm ht1 (hty1.trans hob) hnr hn hcb hyc httm
    (by rcases htm with h | h <;> (rw [h]; decide)) hF
  -- the callback
  have hst5 : w5.stack = { blk with loc := location } :: rest := hs5.stack
  have hmu5 : w5.muted = false := by rw [hs5.muted]; show w1.muted = _; rw [hs1.muted]; exact hmu
  have hdl5 : w5.delivered = w.delivered := by rw [hs5.delivered]; show w1.delivered = _; exact hs1.delivered
  have hev5 : w5.events = w.events := by rw [hs5.events]; show w1.events = _; exact hs1.events
  have hdel := deliver_passing env w5 (mkEvent w5 (.item (.classField (plainField x (DType.array d1 (if content.isEmpty then none else some (valueOf content))) acc dox)))
    { blk with loc := location } (rest.head?.map (·.id))) hmu5 (by rw [hdl5]; exact hfa)
  have htok6 : tokenEofOk env.cfg ({ w5 with events := w5.events ++ [mkEvent w5 (.item (.classField (plainField x (DType.array d1 (if content.isEmpty then none else some (valueOf content))) acc dox)))
      { blk with loc := location } (rest.head?.map (·.id))], delivered := w5.delivered + 1 } : World).buf = .ok (some t5, b5) := ht5
  obtain ⟨w7, c7, hi7, hb7, hs7, hty7, _⟩ := step_mustBe env [",", ";"] _ t5 b5 htok6
    (by rw [hty5]; rcases htm with h | h <;> (rw [h]; decide))
  refine ⟨w7, c7, dox, _, ?_, by rw [hb7]; exact hsig5, by rw [hs7.stack]; exact hst5, by rw [hs7.events, hev5], rfl, rfl, rfl,
    hdox, by rw [hs7.delivered, hdl5], ?_, by rw [hs7.muted]; exact hmu5, ?_, ?_⟩
  · unfold declaratorBody
    have hi7' := hi7
    simp only [hst5, plainField, hacc] at hi7'
    simp only [bind, interp_bind, hi1, hi5, fieldEmit, Block.view, hk, hacc, decide_true, Bool.false_eq_true, ↓reduceIte, hasKey,
      List.any_nil, P.emit, interp, hst5, plainField] at hdel ⊢
    simp only [hdel, Bool.false_eq_true, ↓reduceIte, bind, interp_bind, pure, interp, hi7', hty7, hty5, afterDeclarator]
    rcases htm with h | h <;> simp [h, interp]
  · rw [hs7.anon]; show w5.anon = _; rw [hs5.anon]; exact hs1.anon
  · rw [hs7.nextId]; show w5.nextId = _; rw [hs5.nextId]; exact hs1.nextId
  · rw [hs7.mainTok]; show w5.mainTok = _; rw [hs5.mainTok]; exact hs1.mainTok



theorem parseDeclarations_variable_array_pre (env : Env) (F D : Nat) (tok : CTok) (doxygen : Option String)
    (toks : List Tok) (f : Tok) (trest : List Tok) (segs : List PQSeg) (cst vol : Bool) (pre : List (String × String)) (ops : List Tok) (x ob : Tok) (content : List Tok) (cb semi : Tok) (d1 : DType) (w : World) (b0 bmid bx bo bc b' : Buf)
    (blk : Block) (rest : List Block) (hstack : w.stack = blk :: rest) (hk : blk.hdr.kind ≠ .cls)
    (hmu : w.muted = false) (hfa : ¬ env.faultAt = some w.delivered)
    (hspec : TypeSpecR env (F + 1) D toks segs cst vol) (htoks : toks = f :: trest)
    (hty : tok.type = f.type) (htv : tok.value = f.value)
    (hy0 : Yields env.cfg w.buf trest b0)
    (hhead : ∀ p ∈ pre.head?, declStart p.1 = true ∧ p.2 ≠ "auto")
    (hy : Yields env.cfg b0 ops bmid)
    (hpre : PrefixSpec env (F + 1) (D + 1) (.type (.mk segs none false) cst vol) pre d1) (hfn : isFnType d1 = false) (hnr : isRefLike d1 = false) (hops : tvs ops = pre)
    (htx : tokenEofOk env.cfg bmid = .ok (some x, bx)) (hx : x.type = "NAME") (hxv : identVal x.value = true)
    (hto : tokenEofOk env.cfg bx = .ok (some ob, bo)) (hob : ob.type = "[")
    (hn : Nested (content.map (·.type))) (hcb : cb.type = "]") (hyc : Yields env.cfg bo (content ++ [cb]) bc)
    (hsemi : tokenEofOk env.cfg bc = .ok (some semi, b')) (hs : semi.type = ";")
    (hF : content.length + 1 ≤ F) :
    ∃ (w7 : World) (dox : Option String) (ev : Event),
      interp env (parseDeclarations (F + 1) (core (F + 1) (D + 1 + 1)) tok doxygen) w = (w7, .ok ()) ∧
      SigEq b' w7.buf ∧ w7.stack = { blk with loc := .tok tok.sidx } :: rest ∧
      w7.events = w.events ++ [ev] ∧ ev.kind = .item (.variable (plainVariable x (DType.array d1 (if content.isEmpty then none else some (valueOf content))) dox)) ∧
      ev.stateId = blk.id ∧ ev.parentId = rest.head?.map (·.id) ∧ (∀ d, doxygen = some d → dox = some d) ∧
      w7.delivered = w.delivered + 1 ∧ w7.anon = w.anon ∧ w7.muted = false ∧ w7.nextId = w.nextId ∧
      w7.mainTok = w.mainTok := by
  have hxauto : x.value ≠ "auto" := by
    have := hxv
    simp only [identVal, Bool.and_eq_true, Bool.not_eq_true', bne_iff_ne, ne_eq] at this
    exact this.2
  -- the token after the type name: the first pointer operator, or the name
  obtain ⟨nx, bnx, hnx, hnxstop, hnxauto⟩ : ∃ (nx : Tok) (bnx : Buf), tokenEofOk env.cfg b0 = .ok (some nx, bnx) ∧
      declStart nx.type = true ∧ nx.value ≠ "auto" := by
    cases ops with
    | nil =>
      cases hy
      exact ⟨x, bx, htx, by rw [hx]; decide, hxauto⟩
    | cons o os =>
      cases hy with
      | cons hto _ =>
        have hh := hhead (o.type, o.value) (by rw [← hops]; simp [tvs])
        exact ⟨o, _, hto, hh.1, hh.2⟩
  obtain ⟨w1, t1, hi1, hs1, ht1, hty1, hv1⟩ := hspec true tok f trest w b0 bnx nx htoks hty htv hy0 hnx hnxstop
  obtain ⟨w2, t2, hi2, hs2, ht2, hty2, hv2⟩ := step_tokenIfP_miss env (fun t => ["auto"].contains t.value) w1 t1 bnx ht1
    (by intro c _ hcv; show ["auto"].contains c.value = false; rw [hcv, hv1]; simp [hnxauto])
  have hsl2 : SameButLog w w2 := hs1.trans hs2.butLog
  have htop2 := interp_getTop env w2 blk rest (by rw [hsl2.stack]; exact hstack)
  -- the stream seen by the declarator loop: the pushed-back copy of `nx`, then as given
  obtain ⟨ops', x', bmid', hy', hmapeq, htx', hx', hxv'⟩ : ∃ (ops' : List Tok) (x' : Tok) (bmid' : Buf),
      Yields env.cfg w2.buf ops' bmid' ∧ tvs ops' = tvs ops ∧
      tokenEofOk env.cfg bmid' = .ok (some x', bx) ∧ x'.type = "NAME" ∧ x'.value = x.value := by
    cases ops with
    | nil =>
      cases hy
      rw [htx] at hnx
      injection hnx with hnx; injection hnx with h1 h2
      injection h1 with h1
      subst h1; subst h2
      exact ⟨[], t2, w2.buf, .nil _, rfl, ht2, by rw [hty2, hty1, hx], by rw [hv2, hv1]⟩
    | cons o os =>
      cases hy with
      | cons hto hrest =>
        rw [hto] at hnx
        injection hnx with hnx; injection hnx with h1 h2
        injection h1 with h1
        subst h1; subst h2
        exact ⟨t2 :: os, x, bmid, .cons ht2 hrest, by simp [tvs, hty2, hty1, hv2, hv1], htx, hx, rfl⟩
  obtain ⟨w7, c7, dox, ev, hi7, hsig, hst7, hev7, hk7, hid7, hpar7, hdox7, hdl7, han7, hmu7, hnx7, hmt7⟩ :=
    declarator_variable_array_pre env F (D + 1) _ (.tok tok.sidx) doxygen pre ops' x' ob content cb semi d1 w2 bmid' bx bo bc b' blk rest
      (by rw [hsl2.stack]; exact hstack) hk (by rw [hsl2.muted]; exact hmu) (by rw [hsl2.delivered]; exact hfa) hpre hfn hnr hy'
      (by rw [hmapeq]; exact hops) htx' hx' (by rw [hxv']; exact hxv) hto hob hn hcb hyc hsemi (.inl hs) hF
  refine ⟨w7, dox, ev, ?_, hsig, hst7, by rw [hev7, hsl2.events], ?_, hid7, hpar7, hdox7, by rw [hdl7, hsl2.delivered],
    by rw [han7, hsl2.anon], hmu7, by rw [hnx7, hsl2.nextId], by rw [hmt7, hsl2.mainTok]⟩
  · unfold parseDeclarations
    simp only [bind, interp_bind, core_parseType, hi1, Option.bind, typenameOf, strTruthy, PQName.classkey, Bool.false_eq_true, ↓reduceIte, pure, interp, Bool.not_false,
      P.tokenIfVal, hi2, htop2, validate_empty]
    rw [loopN]
    simp only [bind, interp_bind, hi7, afterDeclarator, hs, ↓reduceIte, pure, interp]
  · rw [hk7]
    simp only [plainVariable, hxv']

/-- **`T ptr-ops x ;`** from `_parse_declarations`, in a class body, with an active visitor that
    does not raise here: exactly ONE `on_class_field` callback, with the type the declarator denotes
    and the access level in force in the innermost class -/
theorem parseDeclarations_field_array_pre (env : Env) (F D : Nat) (tok : CTok) (doxygen : Option String)
    (toks : List Tok) (f : Tok) (trest : List Tok) (segs : List PQSeg) (cst vol : Bool) (pre : List (String × String)) (ops : List Tok) (x ob : Tok) (content : List Tok) (cb semi : Tok) (d1 : DType) (w : World) (b0 bmid bx bo bc b' : Buf)
    (blk : Block) (rest : List Block) (hstack : w.stack = blk :: rest) (hk : blk.hdr.kind = .cls) (acc : String) (hacc : blk.access = some acc)
    (hmu : w.muted = false) (hfa : ¬ env.faultAt = some w.delivered)
    (hspec : TypeSpecR env (F + 1) D toks segs cst vol) (htoks : toks = f :: trest)
    (hty : tok.type = f.type) (htv : tok.value = f.value)
    (hy0 : Yields env.cfg w.buf trest b0)
    (hhead : ∀ p ∈ pre.head?, declStart p.1 = true ∧ p.2 ≠ "auto")
    (hy : Yields env.cfg b0 ops bmid)
    (hpre : PrefixSpec env (F + 1) (D + 1) (.type (.mk segs none false) cst vol) pre d1) (hfn : isFnType d1 = false) (hnr : isRefLike d1 = false) (hops : tvs ops = pre)
    (htx : tokenEofOk env.cfg bmid = .ok (some x, bx)) (hx : x.type = "NAME") (hxv : identVal x.value = true)
    (hto : tokenEofOk env.cfg bx = .ok (some ob, bo)) (hob : ob.type = "[")
    (hn : Nested (content.map (·.type))) (hcb : cb.type = "]") (hyc : Yields env.cfg bo (content ++ [cb]) bc)
    (hsemi : tokenEofOk env.cfg bc = .ok (some semi, b')) (hs : semi.type = ";")
    (hF : content.length + 1 ≤ F) :
    ∃ (w7 : World) (dox : Option String) (ev : Event),
      interp env (parseDeclarations (F + 1) (core (F + 1) (D + 1 + 1)) tok doxygen) w = (w7, .ok ()) ∧
      SigEq b' w7.buf ∧ w7.stack = { blk with loc := .tok tok.sidx } :: rest ∧
      w7.events = w.events ++ [ev] ∧ ev.kind = .item (.classField (plainField x (DType.array d1 (if content.isEmpty then none else some (valueOf content))) acc dox)) ∧
      ev.stateId = blk.id ∧ ev.parentId = rest.head?.map (·.id) ∧ (∀ d, doxygen = some d → dox = some d) ∧
      w7.delivered = w.delivered + 1 ∧ w7.anon = w.anon ∧ w7.muted = false ∧ w7.nextId = w.nextId ∧
      w7.mainTok = w.mainTok := by
  have hxauto : x.value ≠ "auto" := by
    have := hxv
    simp only [identVal, Bool.and_eq_true, Bool.not_eq_true', bne_iff_ne, ne_eq] at this
    exact this.2
  -- the token after the type name: the first pointer operator, or the name
  obtain ⟨nx, bnx, hnx, hnxstop, hnxauto⟩ : ∃ (nx : Tok) (bnx : Buf), tokenEofOk env.cfg b0 = .ok (some nx, bnx) ∧
      declStart nx.type = true ∧ nx.value ≠ "auto" := by
    cases ops with
    | nil =>
      cases hy
      exact ⟨x, bx, htx, by rw [hx]; decide, hxauto⟩
    | cons o os =>
      cases hy with
      | cons hto _ =>
        have hh := hhead (o.type, o.value) (by rw [← hops]; simp [tvs])
        exact ⟨o, _, hto, hh.1, hh.2⟩
  obtain ⟨w1, t1, hi1, hs1, ht1, hty1, hv1⟩ := hspec true tok f trest w b0 bnx nx htoks hty htv hy0 hnx hnxstop
  obtain ⟨w2, t2, hi2, hs2, ht2, hty2, hv2⟩ := step_tokenIfP_miss env (fun t => ["auto"].contains t.value) w1 t1 bnx ht1
    (by intro c _ hcv; show ["auto"].contains c.value = false; rw [hcv, hv1]; simp [hnxauto])
  have hsl2 : SameButLog w w2 := hs1.trans hs2.butLog
  have htop2 := interp_getTop env w2 blk rest (by rw [hsl2.stack]; exact hstack)
  -- the stream seen by the declarator loop: the pushed-back copy of `nx`, then as given
  obtain ⟨ops', x', bmid', hy', hmapeq, htx', hx', hxv'⟩ : ∃ (ops' : List Tok) (x' : Tok) (bmid' : Buf),
      Yields env.cfg w2.buf ops' bmid' ∧ tvs ops' = tvs ops ∧
      tokenEofOk env.cfg bmid' = .ok (some x', bx) ∧ x'.type = "NAME" ∧ x'.value = x.value := by
    cases ops with
    | nil =>
      cases hy
      rw [htx] at hnx
      injection hnx with hnx; injection hnx with h1 h2
      injection h1 with h1
      subst h1; subst h2
      exact ⟨[], t2, w2.buf, .nil _, rfl, ht2, by rw [hty2, hty1, hx], by rw [hv2, hv1]⟩
    | cons o os =>
      cases hy with
      | cons hto hrest =>
        rw [hto] at hnx
        injection hnx with hnx; injection hnx with h1 h2
        injection h1 with h1
        subst h1; subst h2
        exact ⟨t2 :: os, x, bmid, .cons ht2 hrest, by simp [tvs, hty2, hty1, hv2, hv1], htx, hx, rfl⟩
  obtain ⟨w7, c7, dox, ev, hi7, hsig, hst7, hev7, hk7, hid7, hpar7, hdox7, hdl7, han7, hmu7, hnx7, hmt7⟩ :=
    declarator_field_array_pre env F (D + 1) _ (.tok tok.sidx) doxygen pre ops' x' ob content cb semi d1 w2 bmid' bx bo bc b' blk rest
      (by rw [hsl2.stack]; exact hstack) hk acc hacc (by rw [hsl2.muted]; exact hmu) (by rw [hsl2.delivered]; exact hfa) hpre hfn hnr hy'
      (by rw [hmapeq]; exact hops) htx' hx' (by rw [hxv']; exact hxv) hto hob hn hcb hyc hsemi (.inl hs) hF
  refine ⟨w7, dox, ev, ?_, hsig, hst7, by rw [hev7, hsl2.events], ?_, hid7, hpar7, hdox7, by rw [hdl7, hsl2.delivered],
    by rw [han7, hsl2.anon], hmu7, by rw [hnx7, hsl2.nextId], by rw [hmt7, hsl2.mainTok]⟩
  · unfold parseDeclarations
    simp only [bind, interp_bind, core_parseType, hi1, Option.bind, typenameOf, strTruthy, PQName.classkey, Bool.false_eq_true, ↓reduceIte, pure, interp, Bool.not_false,
      P.tokenIfVal, hi2, htop2, validate_empty]
    rw [loopN]
    simp only [bind, interp_bind, hi7, afterDeclarator, hs, ↓reduceIte, pure, interp]
  · rw [hk7]
    simp only [plainField, hxv']


/-- **`S ptr-ops x ;` outside a class, through `parse()`'s loop**, `S` any type specifier -/
theorem toplevel_variable_array_pre (env : Env) (hp : RulesProgress env.cfg = true) (F D : Nat) (w : World)
    (toks : List Tok) (first : Tok) (trest : List Tok) (segs : List PQSeg) (cst vol : Bool)
    (pre : List (String × String)) (ops : List Tok) (x ob : Tok) (content : List Tok) (cb semi : Tok) (d1 : DType) (b1 b0 bmid bx bo bc b' : Buf)
    (blk : Block) (rest : List Block) (hstack : w.stack = blk :: rest) (hk : blk.hdr.kind ≠ .cls)
    (hmu : w.muted = false) (hfa : ¬ env.faultAt = some w.delivered)
    (hspec : TypeSpecR env (F + 1) D toks segs cst vol) (htoks : toks = first :: trest) (hfirst : specFirst first.type = true)
    (htok : tokenEofOk env.cfg w.buf = .ok (some first, b1))
    (hy0 : Yields env.cfg b1 trest b0)
    (hhead : ∀ p ∈ pre.head?, declStart p.1 = true ∧ p.2 ≠ "auto")
    (hy : Yields env.cfg b0 ops bmid)
    (hpre : PrefixSpec env (F + 1) (D + 1) (.type (.mk segs none false) cst vol) pre d1) (hfn : isFnType d1 = false) (hnr : isRefLike d1 = false) (hops : tvs ops = pre)
    (htx : tokenEofOk env.cfg bmid = .ok (some x, bx)) (hx : x.type = "NAME") (hxv : identVal x.value = true)
    (hto : tokenEofOk env.cfg bx = .ok (some ob, bo)) (hob : ob.type = "[")
    (hn : Nested (content.map (·.type))) (hcb : cb.type = "]") (hyc : Yields env.cfg bo (content ++ [cb]) bc)
    (hsemi : tokenEofOk env.cfg bc = .ok (some semi, b')) (hs : semi.type = ";")
    (hF : content.length + 1 ≤ F) :
    ∃ (d : Option String) (bD : Buf) (w7 : World) (ct : CTok) (dox : Option String) (ev : Event),
      getDoxygen env.cfg env.mcRe w.buf = .ok (d, bD) ∧
      interp env (mainBody (F + 1) (core (F + 1) (D + 1 + 1)) none) w = (w7, .ok (.inl none)) ∧
      SigEq b' w7.buf ∧ ct.value = first.value ∧ w7.stack = { blk with loc := .tok ct.sidx } :: rest ∧
      w7.events = w.events ++ [ev] ∧ ev.kind = .item (.variable (plainVariable x (DType.array d1 (if content.isEmpty then none else some (valueOf content))) dox)) ∧
      ev.stateId = blk.id ∧ ev.parentId = rest.head?.map (·.id) ∧ (∀ dd, d = some dd → dox = some dd) ∧
      w7.delivered = w.delivered + 1 ∧ w7.anon = w.anon ∧ w7.muted = false ∧ w7.nextId = w.nextId := by
  obtain ⟨d, bD, wA, ct, hd, hsA, hbA, htyc, hv, hi⟩ := mainBody_item env hp (F + 1) (core (F + 1) (D + 1 + 1)) w first b1 htok
  obtain ⟨w7, dox, ev, hi7, hsig, hst7, hev7, hk7, hid7, hpar7, hdox7, hdl7, han7, hmu7, hnx7, _⟩ :=
    parseDeclarations_variable_array_pre env F D ct d toks first trest segs cst vol pre ops x ob content cb semi d1 { wA with mainTok := some ct } b0 bmid bx bo bc b' blk rest
      (by show wA.stack = _; rw [hsA.stack]; exact hstack) hk (by show wA.muted = _; rw [hsA.muted]; exact hmu)
      (by show ¬ env.faultAt = some wA.delivered; rw [hsA.delivered]; exact hfa) hspec htoks htyc hv
      (by show Yields env.cfg wA.buf _ _; rw [hbA]; exact hy0) hhead hy hpre hfn hnr hops htx hx hxv hto hob hn hcb hyc hsemi hs hF
  refine ⟨d, bD, w7, ct, dox, ev, hd, ?_, hsig, hv, hst7, by rw [hev7]; show wA.events ++ _ = _; rw [hsA.events], hk7, hid7, hpar7,
    hdox7, by rw [hdl7]; show wA.delivered + 1 = _; rw [hsA.delivered], by rw [han7]; exact hsA.anon, hmu7,
    by rw [hnx7]; exact hsA.nextId⟩
  rw [hi]
  unfold specFirst at hfirst
  simp only [Bool.and_eq_true, Option.isNone_iff_eq_none, Bool.not_eq_true'] at hfirst
  have hti : topItem (F + 1) (core (F + 1) (D + 1 + 1)) ct d = parseDeclarations (F + 1) (core (F + 1) (D + 1 + 1)) ct d := by
    unfold topItem
    rw [htyc, hfirst.1]
  have hcar : carry ct d = none := by
    unfold carry
    rw [htyc, hfirst.2]
    rfl
  rw [hti, hi7, hcar]

/-- **`S ptr-ops x ;` in a class body, through `parse()`'s loop**, `S` any type specifier -/
theorem toplevel_field_array_pre (env : Env) (hp : RulesProgress env.cfg = true) (F D : Nat) (w : World)
    (toks : List Tok) (first : Tok) (trest : List Tok) (segs : List PQSeg) (cst vol : Bool)
    (pre : List (String × String)) (ops : List Tok) (x ob : Tok) (content : List Tok) (cb semi : Tok) (d1 : DType) (b1 b0 bmid bx bo bc b' : Buf)
    (blk : Block) (rest : List Block) (hstack : w.stack = blk :: rest) (hk : blk.hdr.kind = .cls) (acc : String) (hacc : blk.access = some acc)
    (hmu : w.muted = false) (hfa : ¬ env.faultAt = some w.delivered)
    (hspec : TypeSpecR env (F + 1) D toks segs cst vol) (htoks : toks = first :: trest) (hfirst : specFirst first.type = true)
    (htok : tokenEofOk env.cfg w.buf = .ok (some first, b1))
    (hy0 : Yields env.cfg b1 trest b0)
    (hhead : ∀ p ∈ pre.head?, declStart p.1 = true ∧ p.2 ≠ "auto")
    (hy : Yields env.cfg b0 ops bmid)
    (hpre : PrefixSpec env (F + 1) (D + 1) (.type (.mk segs none false) cst vol) pre d1) (hfn : isFnType d1 = false) (hnr : isRefLike d1 = false) (hops : tvs ops = pre)
    (htx : tokenEofOk env.cfg bmid = .ok (some x, bx)) (hx : x.type = "NAME") (hxv : identVal x.value = true)
    (hto : tokenEofOk env.cfg bx = .ok (some ob, bo)) (hob : ob.type = "[")
    (hn : Nested (content.map (·.type))) (hcb : cb.type = "]") (hyc : Yields env.cfg bo (content ++ [cb]) bc)
    (hsemi : tokenEofOk env.cfg bc = .ok (some semi, b')) (hs : semi.type = ";")
    (hF : content.length + 1 ≤ F) :
    ∃ (d : Option String) (bD : Buf) (w7 : World) (ct : CTok) (dox : Option String) (ev : Event),
      getDoxygen env.cfg env.mcRe w.buf = .ok (d, bD) ∧
      interp env (mainBody (F + 1) (core (F + 1) (D + 1 + 1)) none) w = (w7, .ok (.inl none)) ∧
      SigEq b' w7.buf ∧ ct.value = first.value ∧ w7.stack = { blk with loc := .tok ct.sidx } :: rest ∧
      w7.events = w.events ++ [ev] ∧ ev.kind = .item (.classField (plainField x (DType.array d1 (if content.isEmpty then none else some (valueOf content))) acc dox)) ∧
      ev.stateId = blk.id ∧ ev.parentId = rest.head?.map (·.id) ∧ (∀ dd, d = some dd → dox = some dd) ∧
      w7.delivered = w.delivered + 1 ∧ w7.anon = w.anon ∧ w7.muted = false ∧ w7.nextId = w.nextId := by
  obtain ⟨d, bD, wA, ct, hd, hsA, hbA, htyc, hv, hi⟩ := mainBody_item env hp (F + 1) (core (F + 1) (D + 1 + 1)) w first b1 htok
  obtain ⟨w7, dox, ev, hi7, hsig, hst7, hev7, hk7, hid7, hpar7, hdox7, hdl7, han7, hmu7, hnx7, _⟩ :=
    parseDeclarations_field_array_pre env F D ct d toks first trest segs cst vol pre ops x ob content cb semi d1 { wA with mainTok := some ct } b0 bmid bx bo bc b' blk rest
      (by show wA.stack = _; rw [hsA.stack]; exact hstack) hk acc hacc (by show wA.muted = _; rw [hsA.muted]; exact hmu)
      (by show ¬ env.faultAt = some wA.delivered; rw [hsA.delivered]; exact hfa) hspec htoks htyc hv
      (by show Yields env.cfg wA.buf _ _; rw [hbA]; exact hy0) hhead hy hpre hfn hnr hops htx hx hxv hto hob hn hcb hyc hsemi hs hF
  refine ⟨d, bD, w7, ct, dox, ev, hd, ?_, hsig, hv, hst7, by rw [hev7]; show wA.events ++ _ = _; rw [hsA.events], hk7, hid7, hpar7,
    hdox7, by rw [hdl7]; show wA.delivered + 1 = _; rw [hsA.delivered], by rw [han7]; exact hsA.anon, hmu7,
    by rw [hnx7]; exact hsA.nextId⟩
  rw [hi]
  unfold specFirst at hfirst
  simp only [Bool.and_eq_true, Option.isNone_iff_eq_none, Bool.not_eq_true'] at hfirst
  have hti : topItem (F + 1) (core (F + 1) (D + 1 + 1)) ct d = parseDeclarations (F + 1) (core (F + 1) (D + 1 + 1)) ct d := by
    unfold topItem
    rw [htyc, hfirst.1]
  have hcar : carry ct d = none := by
    unfold carry
    rw [htyc, hfirst.2]
    rfl
  rw [hti, hi7, hcar]


end Cxx
