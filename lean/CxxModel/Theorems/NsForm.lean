/-
  Theorems/NsForm.lean — a whole declaration form: `namespace n1 :: n2 :: … :: nk {` (C01,
  C12).  After `namespace` has been dispatched, `_parse_namespace` reads a name of any length
  and then does exactly what `nsFinish` does with the written names: it opens ONE block whose
  header carries `[n1, …, nk]` (so `namespace a::b {` and the nested blocks name the same
  chain), or raises the documented errors; the stream is right after the `{`.
-/
import CxxModel.Theorems.UsingDir
import CxxModel.Theorems.Steps
namespace Cxx
open P

/-- the name loop: `first (:: name)* {` -/
theorem nsNames (env : Env) (endtok : String) (hend : endtok ≠ "DBL_COLON") : ∀ (pairs : List (Tok × Tok)) (names : List String) (ct : CTok) (w : World)
    (ob : Tok) (b' : Buf) (n : Nat),
    (∀ p ∈ pairs, p.1.type = "DBL_COLON" ∧ p.2.type = "NAME") →
    Yields env.cfg w.buf (pairs.flatMap (fun p => [p.1, p.2]) ++ [ob]) b' → ob.type = endtok → pairs.length + 1 ≤ n →
    ∃ w', interp env (P.loopN n (names, ct) (nsNameBody endtok)) w =
        (w', .ok (names ++ ct.value :: pairs.map (·.2.value))) ∧ w'.buf = b' ∧ SameParse w w' := by
  intro pairs
  induction pairs with
  | nil =>
    intro names ct w ob b' n _ hy hob hn
    simp only [List.flatMap_nil, List.nil_append] at hy
    cases hy with
    | cons htok hrest =>
      rename_i b1
      have hb : b1 = b' := by cases hrest; rfl
      subst hb
      have hho := handOut_same ({ w with buf := b1 } : World) ob
      obtain ⟨hs1, hb1, hty1, _⟩ := hho
      obtain ⟨k, rfl⟩ : ∃ k, n = k + 1 := ⟨n - 1, by omega⟩
      refine ⟨(({ w with buf := b1 } : World).handOut ob).2, ?_, hb1, (SameParse.setBuf w b1).trans hs1⟩
      rw [P.loopN]
      unfold nsNameBody
      simp only [bind, interp_bind, interp_nextTokenMustBe_ok env ["DBL_COLON", endtok] w ob b1 htok (by simp [hob]),
        hty1, hob, ↓reduceIte, pure, interp, List.map_nil]
  | cons p rest ih =>
    intro names ct w ob b' n hall hy hob hn
    obtain ⟨hp1, hp2⟩ := hall p (by simp)
    simp only [List.flatMap_cons, List.cons_append, List.nil_append] at hy
    cases hy with
    | cons htok1 hrest =>
      rename_i b1
      cases hrest with
      | cons htok2 hrest2 =>
        rename_i b2
        have hho := handOut_same ({ w with buf := b1 } : World) p.1
        obtain ⟨hs1, hb1, hty1, _⟩ := hho
        generalize hwA : (({ w with buf := b1 } : World).handOut p.1).2 = wA at *
        generalize hcA : (({ w with buf := b1 } : World).handOut p.1).1 = cA at *
        have htok2' : tokenEofOk env.cfg wA.buf = .ok (some p.2, b2) := by rw [hb1]; exact htok2
        have hho2 := handOut_same ({ wA with buf := b2 } : World) p.2
        obtain ⟨hs2, hb2, _, hv2⟩ := hho2
        obtain ⟨k, rfl⟩ : ∃ k, n = k + 1 := ⟨n - 1, by omega⟩
        obtain ⟨w', hw, hb, hsp⟩ := ih (names ++ [ct.value]) (({ wA with buf := b2 } : World).handOut p.2).1 _ ob b' k
          (fun q hq => hall q (by simp [hq])) (by rw [hb2]; exact hrest2) hob (by simp at hn; omega)
        refine ⟨w', ?_, hb, ((((SameParse.setBuf w b1).trans hs1).trans (SameParse.setBuf wA b2)).trans hs2).trans hsp⟩
        rw [P.loopN]
        have hne : ¬ cA.type = endtok := by rw [hty1, hp1]; exact fun h => hend h.symm
        have hbody : interp env (nsNameBody endtok (names, ct)) w =
            ((({ wA with buf := b2 } : World).handOut p.2).2, .ok (.inl (names ++ [ct.value], (({ wA with buf := b2 } : World).handOut p.2).1))) := by
          unfold nsNameBody
          simp only [bind, interp_bind, interp_nextTokenMustBe_ok env ["DBL_COLON", endtok] w p.1 b1 htok1 (by simp [hp1]),
            hwA, hcA, hne, ↓reduceIte, interp_nextTokenMustBe_ok env ["NAME"] wA p.2 b2 htok2' (by rw [hp2]; decide), pure, interp]
        simp only [bind, interp_bind, hbody]
        rw [hw]
        simp [List.append_assoc, hv2]

/-- **`namespace n1 :: … :: nk {`**: the routine is "read the name and the brace, then
    `nsFinish` with the written names and no alias" -/
theorem namespace_form (env : Env) (F : Nat) (tok : CTok) (doxygen : Option String) (inline : Bool)
    (first : Tok) (pairs : List (Tok × Tok)) (ob : Tok) (w : World) (b' : Buf)
    (hf : first.type = "NAME") (hall : ∀ p ∈ pairs, p.1.type = "DBL_COLON" ∧ p.2.type = "NAME") (hob : ob.type = "{")
    (hy : Yields env.cfg w.buf (first :: (pairs.flatMap (fun p => [p.1, p.2]) ++ [ob])) b') (hF : pairs.length + 1 ≤ F) :
    ∃ w', w'.buf = b' ∧ SameParse w w' ∧
      interp env (parseNamespace F tok doxygen inline) w =
        interp env (nsFinish (.tok tok.sidx) doxygen inline (first.value :: pairs.map (·.2.value)) none) w' := by
  cases hy with
  | cons htok1 hrest =>
    rename_i b1
    have hho := handOut_same ({ w with buf := b1 } : World) first
    obtain ⟨hs1, hb1, hty1, hv1⟩ := hho
    generalize hwA : (({ w with buf := b1 } : World).handOut first).2 = wA at *
    generalize hcA : (({ w with buf := b1 } : World).handOut first).1 = cA at *
    have hcne : (cA.type != "{") = true := by rw [hty1, hf]; decide
    -- what comes after `first`: a `::` (more names) or the brace; it is looked at for `=`, pushed back, read again
    have key : ∀ (nx : Tok) (rest' : List Tok) (pairs' : Tok → List (Tok × Tok)) (ob' : Tok → Tok),
        nx.type ≠ "=" → Yields env.cfg b1 (nx :: rest') b' →
        (∀ nx' : Tok, nx'.type = nx.type →
          (∀ p ∈ pairs' nx', p.1.type = "DBL_COLON" ∧ p.2.type = "NAME") ∧ (ob' nx').type = "{" ∧
          (pairs' nx').flatMap (fun p => [p.1, p.2]) ++ [ob' nx'] = nx' :: rest' ∧
          (pairs' nx').map (·.2.value) = pairs.map (·.2.value) ∧ (pairs' nx').length = pairs.length) →
        ∃ w', w'.buf = b' ∧ SameParse w w' ∧
          interp env (parseNamespace F tok doxygen inline) w =
            interp env (nsFinish (.tok tok.sidx) doxygen inline (first.value :: pairs.map (·.2.value)) none) w' := by
      intro nx rest' pairs' ob' hnxty hyn hshape
      cases hyn with
      | cons htokn hrestn =>
        rename_i b2
        have htokn' : tokenEofOk env.cfg wA.buf = .ok (some nx, b2) := by rw [hb1]; exact htokn
        have hmiss := interp_tokenIf_miss env ["="] wA nx b2 htokn' (by simp [hnxty])
        have hho2 := handOut_same ({ wA with buf := b2 } : World) nx
        obtain ⟨hs2, hb2, hty2, hv2⟩ := hho2
        generalize hwB : (({ wA with buf := b2 } : World).handOut nx).2 = wB at *
        generalize hcB : (({ wA with buf := b2 } : World).handOut nx).1 = cB at *
        have hnd : isDiscard (wB.toTok cB).type = false := by
          have := tokenEofOk_not_discard htokn
          simpa [World.toTok, hty2] using this
        have hpeek : tokenEofOk env.cfg (Cxx.returnToken (wB.toTok cB) b2) = .ok (some (wB.toTok cB), b2) :=
          tokenEofOk_returnToken env.cfg _ _ hnd
        have hnty : (wB.toTok cB).type = nx.type := by simp [World.toTok, hty2]
        obtain ⟨hall', hob', hflat, hmap, hlen⟩ := hshape (wB.toTok cB) hnty
        have hyP : Yields env.cfg ({ wB with buf := Cxx.returnToken (wB.toTok cB) b2 } : World).buf
            ((pairs' (wB.toTok cB)).flatMap (fun p => [p.1, p.2]) ++ [ob' (wB.toTok cB)]) b' := by
          rw [hflat]; exact .cons hpeek hrestn
        obtain ⟨w', hw, hb, hsp⟩ := nsNames env "{" (by decide) _ [] cA _ _ b' F hall' hyP hob' (by rw [hlen]; exact hF)
        refine ⟨w', hb, ((((SameParse.setBuf w b1).trans hs1).trans (SameParse.setBuf wA b2)).trans hs2).trans
          ((SameParse.setBuf wB _).trans hsp), ?_⟩
        unfold parseNamespace
        simp only [bind, interp_bind, interp_nextTokenMustBe_ok env ["NAME", "{"] w first b1 htok1 (by rw [hf]; decide),
          hwA, hcA, hcne, ↓reduceIte, hmiss, pure, interp, hw, List.nil_append, hmap, hv1]
    cases pairs with
    | nil =>
      simp only [List.flatMap_nil, List.nil_append] at hrest
      exact key ob [] (fun _ => []) (fun x => x) (by rw [hob]; decide) hrest
        (by intro nx' hn; exact ⟨by simp, by rw [hn, hob], by simp, by simp, by simp⟩)
    | cons p r =>
      simp only [List.flatMap_cons, List.cons_append, List.nil_append] at hrest
      obtain ⟨hp1, hp2⟩ := hall p (by simp)
      exact key p.1 (p.2 :: (r.flatMap (fun q => [q.1, q.2]) ++ [ob])) (fun x => (x, p.2) :: r) (fun _ => ob)
        (by rw [hp1]; decide) hrest
        (by
          intro nx' hn
          refine ⟨?_, hob, by simp, by simp, by simp⟩
          intro q hq
          simp only [List.mem_cons] at hq
          rcases hq with rfl | hq
          · exact ⟨by simp [hn, hp1], hp2⟩
          · exact hall q (by simp [hq]))

/-- **`namespace A = [::] n1 :: … :: nk ;`**: the routine is "read the alias, then `nsFinish`
    with the written names (a leading `::` kept as a name) and the alias token" -/
theorem namespace_alias_form (env : Env) (F : Nat) (tok : CTok) (doxygen : Option String) (inline : Bool)
    (first eq : Tok) (lead : Option Tok) (n1 : Tok) (pairs : List (Tok × Tok)) (semi : Tok) (w : World) (b' : Buf)
    (hf : first.type = "NAME") (heq : eq.type = "=") (hlead : ∀ l, lead = some l → l.type = "DBL_COLON")
    (hn1 : n1.type = "NAME") (hall : ∀ p ∈ pairs, p.1.type = "DBL_COLON" ∧ p.2.type = "NAME") (hsemi : semi.type = ";")
    (hy : Yields env.cfg w.buf (first :: eq :: (lead.toList ++ n1 :: (pairs.flatMap (fun p => [p.1, p.2]) ++ [semi]))) b')
    (hF : pairs.length + 1 ≤ F) :
    ∃ (w' : World) (a : CTok), w'.buf = b' ∧ SameParse w w' ∧ a.value = first.value ∧
      interp env (parseNamespace F tok doxygen inline) w =
        interp env (nsFinish (.tok tok.sidx) doxygen inline
          (lead.toList.map (·.value) ++ n1.value :: pairs.map (·.2.value)) (some a)) w' := by
  cases hy with
  | cons htok1 hrest =>
    rename_i b1
    obtain ⟨w1, c1, hi1, hb1, hs1, hty1, hv1⟩ := step_mustBe env ["NAME", "{"] w first b1 htok1 (by rw [hf]; decide)
    have hcne : (c1.type != "{") = true := by rw [hty1, hf]; decide
    cases hrest with
    | cons htok2 hrest2 =>
      rename_i b2
      obtain ⟨w2, c2, hi2, hb2, hs2, _, _⟩ := step_tokenIf_hit env ["="] w1 eq b2 (by rw [hb1]; exact htok2) (by rw [heq]; decide)
      -- the optional leading `::`, then the first name
      have key : ∃ (w4 : World) (c4 : CTok) (b4 : Buf) (names0 : List String),
          interp env (nsAliasHead c1) w2 = (w4, .ok (names0, c4, ";", some c1)) ∧
          w4.buf = b4 ∧ SameParse w2 w4 ∧ c4.value = n1.value ∧ names0 = lead.toList.map (·.value) ∧
          Yields env.cfg b4 (pairs.flatMap (fun p => [p.1, p.2]) ++ [semi]) b' := by
        cases lead with
        | none =>
          simp only [Option.toList, List.nil_append] at hrest2
          cases hrest2 with
          | cons htok3 hrest3 =>
            rename_i b3
            obtain ⟨w3, t', hi3, hs3, htok3', hty3, hv3⟩ := step_tokenIf_miss env ["DBL_COLON"] w2 n1 b3 (by rw [hb2]; exact htok3) (by rw [hn1]; decide)
            obtain ⟨w4, c4, hi4, hb4, hs4, _, hv4⟩ := step_mustBe env ["NAME"] w3 t' b3 htok3' (by rw [hty3, hn1]; decide)
            refine ⟨w4, c4, b3, [], ?_, hb4, hs3.trans hs4, by rw [hv4, hv3], rfl, hrest3⟩
            unfold nsAliasHead
            simp only [bind, interp_bind, hi3, hi4, pure, interp]
        | some l =>
          simp only [Option.toList, List.cons_append, List.nil_append] at hrest2
          cases hrest2 with
          | cons htokl hrestl =>
            rename_i bl
            cases hrestl with
            | cons htok3 hrest3 =>
              rename_i b3
              obtain ⟨w3, cl, hi3, hb3, hs3, _, hvl⟩ := step_tokenIf_hit env ["DBL_COLON"] w2 l bl (by rw [hb2]; exact htokl) (by rw [hlead l rfl]; decide)
              obtain ⟨w4, c4, hi4, hb4, hs4, _, hv4⟩ := step_mustBe env ["NAME"] w3 n1 b3 (by rw [hb3]; exact htok3) (by rw [hn1]; decide)
              refine ⟨w4, c4, b3, [cl.value], ?_, hb4, hs3.trans hs4, hv4, by simp [hvl], hrest3⟩
              unfold nsAliasHead
              simp only [bind, interp_bind, hi3, hi4, pure, interp]
      obtain ⟨w4, c4, b4, names0, hi4, hb4, hs4, hv4, hn0, hy4⟩ := key
      subst hn0
      obtain ⟨w', hw, hb, hsp⟩ := nsNames env ";" (by decide) pairs (lead.toList.map (·.value)) c4 w4 semi b' F hall (by rw [hb4]; exact hy4) hsemi hF
      refine ⟨w', c1, hb, ((hs1.trans hs2).trans hs4).trans hsp, hv1, ?_⟩
      unfold parseNamespace
      simp only [bind, interp_bind, hi1, hcne, ↓reduceIte, hi2, hi4, hw, pure, interp, hv4]

end Cxx
