/-
  Theorems/TypeName.lean — `_parse_type` on a plain qualified type name (C02): for identifiers
  `n1 :: … :: nk` followed by a token that starts the declarator (a name, `*`, `&`, `&&`, `(`),
  `_parse_type` returns the type `n1::…::nk` (not const, not volatile, no specifiers) and leaves
  that token in the stream.
-/
import CxxModel.Theorems.PqName
namespace Cxx
open P

/-- everything of the parser state except the token stream, the ghost location table and the
    verbose-mode debug log -/
structure SameButLog (w w' : World) : Prop where
  stack : w'.stack = w.stack
  muted : w'.muted = w.muted
  anon : w'.anon = w.anon
  nextId : w'.nextId = w.nextId
  events : w'.events = w.events
  delivered : w'.delivered = w.delivered
  curLocs : w'.curLocs = w.curLocs
  startLoc : w'.startLoc = w.startLoc
  mainTok : w'.mainTok = w.mainTok

theorem SameButLog.refl (w : World) : SameButLog w w := ⟨rfl, rfl, rfl, rfl, rfl, rfl, rfl, rfl, rfl⟩

theorem SameButLog.trans {a b c : World} (h1 : SameButLog a b) (h2 : SameButLog b c) : SameButLog a c :=
  ⟨h2.stack.trans h1.stack, h2.muted.trans h1.muted, h2.anon.trans h1.anon, h2.nextId.trans h1.nextId,
   h2.events.trans h1.events, h2.delivered.trans h1.delivered, h2.curLocs.trans h1.curLocs,
   h2.startLoc.trans h1.startLoc, h2.mainTok.trans h1.mainTok⟩

theorem SameParse.butLog {w w' : World} (h : SameParse w w') : SameButLog w w' :=
  ⟨h.stack, h.muted, h.anon, h.nextId, h.events, h.delivered, h.curLocs, h.startLoc, h.mainTok⟩

theorem logged_butLog (env : Env) (w : World) (m : String) : SameButLog w (logged env w m) := by
  unfold logged; split <;> exact ⟨rfl, rfl, rfl, rfl, rfl, rfl, rfl, rfl, rfl⟩

theorem logged_buf' (env : Env) (w : World) (m : String) : (logged env w m).buf = w.buf := by
  unfold logged; split <;> rfl

/-- the tokens at which the type loop stops once it has a name -/
def typeStop (ty : String) : Bool := Gen.pqnameStartTokens.contains ty || Gen.parseTypePtrRefParen.contains ty

theorem typeBody_stop (env : Env) (F : Nat) (rec : Core) (operatorOk : Bool) (c : CTok) (pq : PQName) (cst vol : Bool)
    (mods : Mods) (o : Bool) (w : World) (hst : typeStop c.type = true) :
    interp env (typeBody F rec operatorOk (c, some pq, cst, vol, mods, o)) w = (w, .ok (.inr (c, some pq, cst, vol, mods, false))) := by
  unfold typeBody
  unfold typeStop at hst
  cases h1 : Gen.pqnameStartTokens.contains c.type with
  | true => simp only [h1, ↓reduceIte, Option.isSome_some, bind, interp_bind, pure, interp]
  | false =>
    have h2 : Gen.parseTypePtrRefParen.contains c.type = true := by rw [h1, Bool.false_or] at hst; exact hst
    simp only [h1, h2, Bool.false_eq_true, ↓reduceIte, Option.isNone_some, bind, interp_bind, pure, interp]

/-- on `;` the type loop stops (it is none of the tokens the loop knows) -/
theorem typeBody_semi (env : Env) (F : Nat) (rec : Core) (operatorOk : Bool) (c : CTok) (pqn : Option PQName) (cst vol : Bool)
    (mods : Mods) (o : Bool) (w : World) (hc : c.type = ";") :
    interp env (typeBody F rec operatorOk (c, pqn, cst, vol, mods, o)) w = (w, .ok (.inr (c, pqn, cst, vol, mods, false))) := by
  unfold typeBody
  simp only [hc, (by decide : Gen.pqnameStartTokens.contains ";" = false), (by decide : Gen.parseTypePtrRefParen.contains ";" = false),
    (by decide : Gen.typeKwdBoth.contains ";" = false), (by decide : Gen.typeKwdMeth.contains ";" = false),
    (by decide : Gen.attributeStartTokens.contains ";" = false),
    (by decide : (";" = "const") = False), (by decide : (";" = "mutable") = False), (by decide : (";" = "volatile") = False),
    (by decide : (";" = "__inline") = False), (by decide : (";" = "__forceinline") = False),
    Bool.false_eq_true, ↓reduceIte, decide_false, Bool.or_self, bind, interp_bind, pure, interp]

/-- on `{` the type loop stops (it is none of the tokens the loop knows) -/
theorem typeBody_brace (env : Env) (F : Nat) (rec : Core) (operatorOk : Bool) (c : CTok) (pqn : Option PQName) (cst vol : Bool)
    (mods : Mods) (o : Bool) (w : World) (hc : c.type = "{") :
    interp env (typeBody F rec operatorOk (c, pqn, cst, vol, mods, o)) w = (w, .ok (.inr (c, pqn, cst, vol, mods, false))) := by
  unfold typeBody
  simp only [hc, (by decide : Gen.pqnameStartTokens.contains "{" = false), (by decide : Gen.parseTypePtrRefParen.contains "{" = false),
    (by decide : Gen.typeKwdBoth.contains "{" = false), (by decide : Gen.typeKwdMeth.contains "{" = false),
    (by decide : Gen.attributeStartTokens.contains "{" = false),
    (by decide : ("{" = "const") = False), (by decide : ("{" = "mutable") = False), (by decide : ("{" = "volatile") = False),
    (by decide : ("{" = "__inline") = False), (by decide : ("{" = "__forceinline") = False),
    Bool.false_eq_true, ↓reduceIte, decide_false, Bool.or_self, bind, interp_bind, pure, interp]

/-- the tokens that end a type: a declarator start, or `;` -/
def typeEnd (ty : String) : Bool := typeStop ty || ty == ";"

theorem typeBody_end (env : Env) (F : Nat) (rec : Core) (operatorOk : Bool) (c : CTok) (pq : PQName) (cst vol : Bool)
    (mods : Mods) (o : Bool) (w : World) (hst : typeEnd c.type = true) :
    interp env (typeBody F rec operatorOk (c, some pq, cst, vol, mods, o)) w = (w, .ok (.inr (c, some pq, cst, vol, mods, false))) := by
  unfold typeEnd at hst
  cases h : typeStop c.type with
  | true => exact typeBody_stop env F rec operatorOk c pq cst vol mods o w h
  | false =>
    rw [h, Bool.false_or] at hst
    exact typeBody_semi env F rec operatorOk c (some pq) cst vol mods o w (by simpa using hst)

theorem parseType_plain (env : Env) (F D : Nat) (operatorOk : Bool) (ct : CTok) (pairs : List (Tok × Tok))
    (w : World) (bmid b' : Buf) (term : Tok)
    (hty : ct.type = "NAME") (hpv : plainVal ct.value = true) (hnc : Gen.nameCompoundStart.contains ct.value = false)
    (hall : ∀ p ∈ pairs, p.1.type = "DBL_COLON" ∧ p.2.type = "NAME" ∧ plainVal p.2.value = true)
    (hy : Yields env.cfg w.buf (pairs.flatMap (fun p => [p.1, p.2])) bmid)
    (htok : tokenEofOk env.cfg bmid = .ok (some term, b')) (hstop : typeEnd term.type = true)
    (hlt : term.type ≠ "<") (hdc : term.type ≠ "DBL_COLON") (hF : pairs.length + 2 ≤ F) :
    ∃ (w' : World) (t' : Tok),
      interp env (parseTypeStep F (core F (D + 1)) (some ct) operatorOk) w =
        (w', .ok (some (.type (.mk (.name ct.value none :: pairs.map (fun p => .name p.2.value none)) none false) false false), {})) ∧
      SameButLog w w' ∧ tokenEofOk env.cfg w'.buf = .ok (some t', b') ∧ t'.type = term.type ∧ t'.value = term.value := by
  obtain ⟨w1, t1, hpq, hs1, ht1, hty1, hv1⟩ := plain_pqname env F (core F D) false true true ct pairs w bmid b' term
    hty hpv hnc hall hy htok hlt hdc (by omega)
  obtain ⟨w2, c2, hi2, hb2, hs2, hty2, hv2⟩ := step_token env (logged env w1 "parse_pqname") t1 b'
    (by rw [logged_buf']; exact ht1)
  have hnd : isDiscard c2.type = false := by rw [hty2]; exact tokenEofOk_not_discard ht1
  obtain ⟨w3, t3, hi3, hs3, ht3, hty3, hv3⟩ := step_returnToken env w2 c2 hnd
  refine ⟨w3, t3, ?_, ((hs1.butLog.trans (logged_butLog env w1 _)).trans hs2.butLog).trans hs3.butLog,
    by rw [← hb2]; exact ht3, by rw [hty3, hty2, hty1], by rw [hv3, hv2, hv1]⟩
  obtain ⟨k, rfl⟩ : ∃ k, F = k + 2 := ⟨F - 2, by omega⟩
  have hstart : Gen.pqnameStartTokens.contains "NAME" = true := by decide
  have hbody1 : interp env (typeBody (k + 2) (core (k + 2) (D + 1)) operatorOk (ct, none, false, false, {}, false)) w =
      (w2, .ok (.inl (c2, some (.mk (.name ct.value none :: pairs.map (fun p => .name p.2.value none)) none false), false, false, {}, false))) := by
    unfold typeBody
    simp only [hty, hstart, ↓reduceIte, Option.isSome_none, Bool.false_eq_true, (by decide : ("NAME" = "operator") = False),
      decide_false, Bool.and_false, bind, interp_bind, core, coreStep, hpq, pure, interp, hi2]
  have hbody2 := typeBody_end env (k + 2) (core (k + 2) (D + 1)) operatorOk c2
    (.mk (.name ct.value none :: pairs.map (fun p => .name p.2.value none)) none false) false false {} false w2
    (by rw [hty2, hty1]; exact hstop)
  unfold parseTypeStep
  simp only [pure, interp, bind, interp_bind]
  rw [loopN]
  simp only [bind, interp_bind, hbody1]
  rw [loopN]
  simp only [bind, interp_bind, hbody2, pure, interp, hi3]

theorem typeStop_end {ty : String} (h : typeStop ty = true) : typeEnd ty = true := by
  unfold typeEnd; rw [h]; rfl

/-- `_parse_type(None, …)` reads its first token itself -/
theorem parseTypeStep_none (env : Env) (F : Nat) (rec : Core) (operatorOk : Bool) (w : World) :
    interp env (parseTypeStep F rec none operatorOk) w =
      match interp env P.token w with
      | (w1, .ok c) => interp env (parseTypeStep F rec (some c) operatorOk) w1
      | (w1, .error e) => (w1, .error e) := by
  unfold parseTypeStep
  simp only [bind, interp_bind, pure, interp]
  cases interp env P.token w with
  | mk w1 r => cases r <;> rfl

end Cxx
