/-
  Theorems/SkipMain.lean — the simulation theorem behind C05, by induction on the client.
-/
import CxxModel.Theorems.Skip
import CxxModel.Theorems.Events
namespace Cxx

/-- closes `SkipSim` goals for steps that change only fields the two runs share -/
macro "sim_shared" h:ident : tactic =>
  `(tactic| (constructor <;>
      first
      | (simp [($h).buf, ($h).anon, ($h).nextId, ($h).sigLocs, ($h).curLocs, ($h).startLoc, ($h).mainTok, ($h).debugLog, ($h).unmuted]; done)
      | exact ($h).stack
      | exact ($h).chain
      | (simpa [skipDepth] using ($h).events)))

/-- relation between the outcomes of the skipping run and of the run that skips nothing -/
def SimOut (skip : Nat → BlockHdr → Bool) {α : Type} (o o' : World × Except Err α) : Prop :=
  o.2 = o'.2 ∧ prune skip o'.1.events = o.1.events ∧ (keepsGoing o.2 → SkipSim skip o.1 o'.1)

theorem SimOut.of_sim {skip : Nat → BlockHdr → Bool} {α : Type} {w w' : World} (h : SkipSim skip w w')
    (r : Except Err α) : SimOut skip (w, r) (w', r) :=
  ⟨rfl, by simp [prune, h.events], fun _ => h⟩

theorem handOut_sim {skip : Nat → BlockHdr → Bool} {w w' : World} (h : SkipSim skip w w') (t : Tok) :
    (w.handOut t).1 = (w'.handOut t).1 ∧ SkipSim skip (w.handOut t).2 (w'.handOut t).2 := by
  simp only [World.handOut, ← h.sigLocs]
  split
  · refine ⟨rfl, ?_⟩; sim_shared h
  · exact ⟨rfl, h⟩

theorem chainOK_false_count {s : List Block} (h : chainOK false s) : countPrior s = 0 := by
  induction s with
  | nil => rfl
  | cons b r ih =>
    obtain ⟨h1, h2⟩ := h
    have hb : b.priorMuted = false := by
      cases hp : b.priorMuted with
      | false => rfl
      | true => exact absurd (h1 hp) (by simp)
    rw [hb] at h2
    simp [countPrior, hb, ih h2]

theorem deliver_eq (env : Env) (hf : env.faultAt = none) (w : World) (e : Event) :
    deliver env w e =
      (if w.muted then w else { w with events := w.events ++ [e], delivered := w.delivered + 1 }, none) := by
  simp only [deliver]; split <;> simp [hf]

theorem pruneStep_start_muted (skip : Nat → BlockHdr → Bool) (d : Nat) (acc : List Event) (e : Event)
    (hk : e.kind = .blockStart) : pruneStep skip (d + 1, acc) e = (d + 2, acc) := by
  simp [pruneStep, hk]

theorem pruneStep_start_live (skip : Nat → BlockHdr → Bool) (acc : List Event) (e : Event)
    (hk : e.kind = .blockStart) :
    pruneStep skip (0, acc) e = (if skip e.stateId e.hdr then 1 else 0, acc ++ [e]) := by
  simp only [pruneStep, hk]; split <;> rfl

theorem pruneStep_end_muted (skip : Nat → BlockHdr → Bool) (d : Nat) (acc : List Event) (e : Event)
    (hk : e.kind = .blockEnd) : pruneStep skip (d + 1, acc) e = (d, acc) := by
  simp [pruneStep, hk]

theorem pruneStep_end_live (skip : Nat → BlockHdr → Bool) (acc : List Event) (e : Event)
    (hk : e.kind = .blockEnd) : pruneStep skip (0, acc) e = (0, acc ++ [e]) := by
  simp [pruneStep, hk]

theorem skip_sim (env : Env) (hf : env.faultAt = none) {α : Type} (p : Prog α) :
    ∀ w w', SkipSim env.skip w w' → SimOut env.skip (interp env p w) (interp env.noSkip p w') := by
  induction p with
  | pure a => intro w w' h; exact SimOut.of_sim h _
  | next nl k ih =>
    intro w w' h
    simp only [interp, noSkip_cfg, ← h.buf]
    split
    · exact SimOut.of_sim h _
    · apply ih; sim_shared h
    · rename_i t b _
      have h' : SkipSim env.skip { w with buf := b } { w' with buf := b } := by sim_shared h
      rw [(handOut_sim h' t).1]
      exact ih _ _ _ (handOut_sim h' t).2
  | unread ts k ih =>
    intro w w' h
    simp only [interp]
    apply ih
    have : ts.map w.toTok = ts.map w'.toTok := by
      apply List.map_congr_left; intro c _; exact toTok_eq h c
    rw [this]
    sim_shared h
  | curLoc k ih =>
    intro w w' h
    simp only [interp, ← h.buf, ← h.curLocs]
    split
    · exact SimOut.of_sim h _
    · apply ih; sim_shared h
  | dox after k ih =>
    intro w w' h
    simp only [interp, noSkip_cfg, noSkip_mcRe, ← h.buf]
    split
    · apply ih; sim_shared h
    · split
      · exact SimOut.of_sim h _
      · apply ih; sim_shared h
  | top k ih =>
    intro w w' h
    simp only [interp]
    cases hs : w.stack with
    | nil =>
      have := stackSim_nil_inv (hs ▸ h.stack)
      simp only [this]
      exact SimOut.of_sim h _
    | cons b r =>
      obtain ⟨b', r', e, hb, _⟩ := stackSim_cons_inv (hs ▸ h.stack)
      simp only [e, blockSim_view hb]
      exact ih _ _ _ h
  | fresh k ih =>
    intro w w' h
    simp only [interp, ← h.anon]
    apply ih; sim_shared h
  | opt k ih =>
    intro w w' h
    simp only [interp, noSkip_opts]
    exact ih _ _ _ h
  | debug m k ih =>
    intro w w' h
    simp only [interp, noSkip_opts, ← h.debugLog]
    apply ih
    split
    · sim_shared h
    · exact h
  | note t k ih =>
    intro w w' h
    simp only [interp]
    apply ih; sim_shared h
  | fail e => intro w w' h; exact SimOut.of_sim h _
  | setAccess a k ih =>
    intro w w' h
    simp only [interp]
    cases hs : w.stack with
    | nil =>
      have := stackSim_nil_inv (hs ▸ h.stack)
      simp only [this]
      exact SimOut.of_sim h _
    | cons b r =>
      obtain ⟨b', r', e, hb, hr⟩ := stackSim_cons_inv (hs ▸ h.stack)
      simp only [e]
      apply ih
      have hc := h.chain
      have hev := h.events
      rw [hs] at hc
      obtain ⟨h1, h2, h3, h4, h5, h6⟩ := hb
      constructor <;> simp [h.buf, h.anon, h.nextId, h.sigLocs, h.curLocs, h.startLoc, h.mainTok, h.debugLog, h.unmuted]
      · exact ⟨⟨h1, h2, h3, rfl, h5, h6⟩, hr⟩
      · exact hc
      · simpa [skipDepth, hs, countPrior] using hev
  | setLoc l k ih =>
    intro w w' h
    simp only [interp]
    cases hs : w.stack with
    | nil =>
      have := stackSim_nil_inv (hs ▸ h.stack)
      simp only [this]
      exact SimOut.of_sim h _
    | cons b r =>
      obtain ⟨b', r', e, hb, hr⟩ := stackSim_cons_inv (hs ▸ h.stack)
      simp only [e]
      apply ih
      have hc := h.chain
      have hev := h.events
      rw [hs] at hc
      obtain ⟨h1, h2, h3, h4, h5, h6⟩ := hb
      constructor <;> simp [h.buf, h.anon, h.nextId, h.sigLocs, h.curLocs, h.startLoc, h.mainTok, h.debugLog, h.unmuted]
      · exact ⟨⟨h1, h2, rfl, h4, h5, h6⟩, hr⟩
      · exact hc
      · simpa [skipDepth, hs, countPrior] using hev
  | emit p k ih =>
    intro w w' h
    simp only [interp]
    cases hs : w.stack with
    | nil =>
      have := stackSim_nil_inv (hs ▸ h.stack)
      simp only [this]
      exact SimOut.of_sim h _
    | cons b r =>
      obtain ⟨b', r', e, hb, hr⟩ := stackSim_cons_inv (hs ▸ h.stack)
      simp only [e]
      have hev : mkEvent w (.item p) b (r.head?.map (·.id)) = mkEvent w' (.item p) b' (r'.head?.map (·.id)) := by
        rw [stackSim_head hr]; exact mkEvent_eq h hb _ _
      rw [← hev]
      obtain ⟨hs1, hn, hn'⟩ := sim_deliver_item hf h (mkEvent w (.item p) b (r.head?.map (·.id)))
        (by intro d acc; simp [pruneStep, mkEvent]) (by intro acc; simp [pruneStep, mkEvent])
      rcases hd : deliver env w (mkEvent w (.item p) b (r.head?.map (·.id))) with ⟨w1, r1⟩
      rcases hd' : deliver env.noSkip w' (mkEvent w (.item p) b (r.head?.map (·.id))) with ⟨w1', r1'⟩
      simp only [hd, hd'] at hs1 hn hn' ⊢
      subst hn hn'
      exact ih _ _ hs1
  | push hdr k ih =>
    intro w w' h
    simp only [interp]
    rw [deliver_eq env hf, deliver_eq env.noSkip hf]
    simp only [h.unmuted, ← h.nextId, stackSim_head h.stack]
    have hev := h.events
    cases hm : w.muted with
    | true =>
      simp only [Bool.false_eq_true, ↓reduceIte, Bool.not_true, Bool.false_and, noSkip_skip, Bool.not_false, Bool.and_false]
      apply ih
      have hd : skipDepth w = countPrior w.stack + 1 := by simp [skipDepth, hm]
      constructor <;> simp [h.buf, h.anon, h.nextId, h.sigLocs, h.curLocs, h.startLoc, h.mainTok, h.debugLog, h.unmuted, hm]
      · exact ⟨⟨rfl, rfl, rfl, rfl, rfl, rfl⟩, h.stack⟩
      · have := h.chain; rw [hm] at this; exact ⟨by simp, this⟩
      · rw [pruneState_snoc, hev, hd, pruneStep_start_muted _ _ _ _ (by simp [mkEvent])]
        simp [skipDepth, hm, countPrior]; omega
    | false =>
      simp only [Bool.false_eq_true, ↓reduceIte, Bool.not_false, Bool.true_and, noSkip_skip, Bool.and_false]
      apply ih
      have hd : skipDepth w = 0 := by simp [skipDepth, hm]
      have hc0 : countPrior w.stack = 0 := chainOK_false_count (by have := h.chain; rwa [hm] at this)
      split
      · rename_i hsk
        constructor <;> simp [h.buf, h.anon, h.nextId, h.sigLocs, h.curLocs, h.startLoc, h.mainTok, h.debugLog, h.unmuted, hm]
        · exact ⟨⟨rfl, rfl, rfl, rfl, rfl, rfl⟩, h.stack⟩
        · have := h.chain; rw [hm] at this; exact ⟨by simp, this⟩
        · rw [pruneState_snoc, hev, hd, pruneStep_start_live _ _ _ (by simp [mkEvent])]
          simp [skipDepth, countPrior, hc0, mkEvent, hsk]
          refine ⟨by simp [← h.nextId, hsk], ?_⟩
          cases hdr.loc <;> simp [World.resolve]
      · rename_i hsk
        constructor <;> simp [h.buf, h.anon, h.nextId, h.sigLocs, h.curLocs, h.startLoc, h.mainTok, h.debugLog, h.unmuted, hm]
        · exact ⟨⟨rfl, rfl, rfl, rfl, rfl, rfl⟩, h.stack⟩
        · have := h.chain; rw [hm] at this; exact ⟨by simp, this⟩
        · rw [pruneState_snoc, hev, hd, pruneStep_start_live _ _ _ (by simp [mkEvent])]
          simp [skipDepth, hm, countPrior, mkEvent, hsk]
          refine ⟨by simp [← h.nextId, hsk], ?_⟩
          cases hdr.loc <;> simp [World.resolve]
  | pop k ih =>
    intro w w' h
    simp only [interp]
    cases hs : w.stack with
    | nil =>
      have := stackSim_nil_inv (hs ▸ h.stack)
      simp only [this]
      exact SimOut.of_sim h _
    | cons b r =>
      obtain ⟨b', r', e, hb, hr⟩ := stackSim_cons_inv (hs ▸ h.stack)
      simp only [e]
      have hg : b'.isGlobal = b.isGlobal := hb.2.2.2.2.1.symm
      rw [hg]
      split
      · exact SimOut.of_sim h _
      · have hevt : mkEvent w' .blockEnd b' (r'.head?.map (·.id)) = mkEvent w .blockEnd b (r.head?.map (·.id)) := by
          rw [stackSim_head hr]; exact (mkEvent_eq h hb _ _).symm
        rw [hevt, deliver_eq env hf, deliver_eq env.noSkip hf]
        simp only [h.unmuted, Bool.false_eq_true, ↓reduceIte]
        have hev := h.events
        have hc := h.chain
        rw [hs] at hc
        obtain ⟨hc1, hc2⟩ := hc
        have hpm' : b'.priorMuted = false := hb.2.2.2.2.2
        cases hm : w.muted with
        | true =>
          have hd : skipDepth w = countPrior w.stack + 1 := by simp [skipDepth, hm]
          have hpr : pruneState env.skip (w'.events ++ [mkEvent w .blockEnd b (r.head?.map (·.id))]) =
              (countPrior w.stack, w.events) := by
            rw [pruneState_snoc, hev, hd, pruneStep_end_muted _ _ _ _ (by simp [mkEvent])]
          simp only [↓reduceIte]
          rw [blockSim_view hb]
          apply ih
          constructor <;> simp [h.buf, h.anon, h.nextId, h.sigLocs, h.curLocs, h.startLoc, h.mainTok, h.debugLog, h.unmuted, hpm']
          · exact hr
          · exact hc2
          · rw [hpr, hs]
            cases hp : b.priorMuted with
            | true => simp [skipDepth, countPrior, hp]; omega
            | false =>
              have : countPrior r = 0 := chainOK_false_count (by rwa [hp] at hc2)
              simp [skipDepth, countPrior, hp, this]
        | false =>
          have hd : skipDepth w = 0 := by simp [skipDepth, hm]
          have hp : b.priorMuted = false := by
            cases hp : b.priorMuted with
            | false => rfl
            | true => have := hc1 hp; rw [hm] at this; exact absurd this (by simp)
          have hpr : pruneState env.skip (w'.events ++ [mkEvent w .blockEnd b (r.head?.map (·.id))]) =
              (0, w.events ++ [mkEvent w .blockEnd b (r.head?.map (·.id))]) := by
            rw [pruneState_snoc, hev, hd, pruneStep_end_live _ _ _ (by simp [mkEvent])]
          simp only [Bool.false_eq_true, ↓reduceIte]
          rw [blockSim_view hb]
          apply ih
          constructor <;> simp [h.buf, h.anon, h.nextId, h.sigLocs, h.curLocs, h.startLoc, h.mainTok, h.debugLog, h.unmuted, hpm', hp]
          · exact hr
          · rw [hp] at hc2; exact hc2
          · rw [hpr]; simp [skipDepth, hp]
  | bounded ts body k ihb ihk =>
    intro w w' h
    simp only [interp]
    have hin : SkipSim env.skip
        { w with buf := { tokbuf := ts.map w.toTok, lex := { rest := [] }, bounded := true } }
        { w' with buf := { tokbuf := ts.map w'.toTok, lex := { rest := [] }, bounded := true } } := by
      have : ts.map w.toTok = ts.map w'.toTok := by
        apply List.map_congr_left; intro c _; exact toTok_eq h c
      rw [this]
      sim_shared h
    obtain ⟨hr, hp, hsim⟩ := ihb _ _ hin
    rcases h1 : interp env body { w with buf := { tokbuf := ts.map w.toTok, lex := { rest := [] }, bounded := true } } with ⟨w1, r1⟩
    rcases h2 : interp env.noSkip body { w' with buf := { tokbuf := ts.map w'.toTok, lex := { rest := [] }, bounded := true } } with ⟨w1', r1'⟩
    simp only [h1, h2] at hr hp hsim ⊢
    subst hr
    cases r1 with
    | ok g =>
      have hs1 := hsim trivial
      simp only [← hs1.buf]
      apply ihk
      constructor <;>
      first
      | exact h.buf
      | (simp [hs1.anon, hs1.nextId, hs1.sigLocs, hs1.curLocs, hs1.startLoc, hs1.mainTok, hs1.debugLog, hs1.unmuted]; done)
      | exact hs1.stack
      | exact hs1.chain
      | (simpa [skipDepth] using hs1.events)
    | error e =>
      simp only
      cases hc : catchable e with
      | true =>
        have hs1 := hsim (by simpa [keepsGoing] using hc)
        simp only [↓reduceIte, ← hs1.buf]
        apply ihk
        constructor <;>
        first
        | exact h.buf
        | (simp [hs1.anon, hs1.nextId, hs1.sigLocs, hs1.curLocs, hs1.startLoc, hs1.mainTok, hs1.debugLog, hs1.unmuted]; done)
        | exact hs1.stack
        | exact hs1.chain
        | (simpa [skipDepth] using hs1.events)
      | false =>
        simp only [Bool.false_eq_true, ↓reduceIte]
        refine ⟨rfl, ?_, ?_⟩
        · simpa using hp
        · intro hk; simp [keepsGoing, hc] at hk

end Cxx
