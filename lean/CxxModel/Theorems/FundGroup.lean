/-
  Theorems/FundGroup.lean — fundamental-type keyword groups (C02): after a first keyword of the
  compound set (`unsigned`, `long`, `short`, `int`, … as regenerated from the code),
  `_parse_pqname_fundamental` collects EVERY following keyword of the set, in order, whatever
  their number, stops at the first other token without consuming it, and names the type by the
  keywords joined with single blanks.
-/
import CxxModel.Theorems.Steps
namespace Cxx
open P

theorem fund_loop (env : Env) : ∀ (ks : List Tok) (names : List String) (w : World) (bmid b' : Buf) (term : Tok) (n : Nat),
    (∀ k ∈ ks, Gen.compoundFundamentals.contains k.type = true) →
    Yields env.cfg w.buf ks bmid → tokenEofOk env.cfg bmid = .ok (some term, b') →
    Gen.compoundFundamentals.contains term.type = false → ks.length + 1 ≤ n →
    ∃ (w' : World) (t' : Tok), interp env (loopN n names fundBody) w = (w', .ok (names ++ ks.map (·.value))) ∧
      SameParse w w' ∧ tokenEofOk env.cfg w'.buf = .ok (some t', b') ∧ t'.type = term.type ∧ t'.value = term.value := by
  intro ks
  induction ks with
  | nil =>
    intro names w bmid b' term n _ hy htok hterm hn
    cases hy
    obtain ⟨k, rfl⟩ : ∃ k, n = k + 1 := ⟨n - 1, by omega⟩
    obtain ⟨w1, t', hi, hs, ht, hty, hv⟩ := step_tokenIf_miss env Gen.compoundFundamentals w term b' htok hterm
    refine ⟨w1, t', ?_, hs, ht, hty, hv⟩
    rw [loopN]
    have hbody : interp env (fundBody names) w = (w1, .ok (.inr names)) := by
      unfold fundBody
      show interp env (P.tokenIf Gen.compoundFundamentals >>= _) w = _
      simp only [bind, interp_bind, hi, pure, interp]
    simp only [bind, interp_bind, hbody, pure, interp, List.map_nil, List.append_nil]
  | cons k ks ih =>
    intro names w bmid b' term n hall hy htok hterm hn
    cases hy with
    | cons htok1 hrest =>
      rename_i b1
      obtain ⟨m, rfl⟩ : ∃ m, n = m + 1 := ⟨n - 1, by omega⟩
      obtain ⟨w1, c1, hi, hb1, hs1, _, hv1⟩ := step_tokenIf_hit env Gen.compoundFundamentals w k b1 htok1 (hall k (by simp))
      obtain ⟨w', t', hw, hs, ht, hty, hv⟩ := ih (names ++ [c1.value]) w1 bmid b' term m
        (fun q hq => hall q (by simp [hq])) (by rw [hb1]; exact hrest) htok hterm (by simp at hn; omega)
      refine ⟨w', t', ?_, hs1.trans hs, ht, hty, hv⟩
      rw [loopN]
      have hbody : interp env (fundBody names) w = (w1, .ok (.inl (names ++ [c1.value]))) := by
        unfold fundBody
        show interp env (P.tokenIf Gen.compoundFundamentals >>= _) w = _
        simp only [bind, interp_bind, hi, pure, interp]
      rw [hv1] at hw hbody
      simp only [bind, interp_bind, hbody, hw, List.map_cons, List.append_assoc, List.singleton_append]

/-- the whole routine on a compound first keyword -/
theorem fundamental_group (env : Env) (F : Nat) (first : String) (ks : List Tok) (w : World) (bmid b' : Buf) (term : Tok)
    (hfirst : Gen.compoundFundamentals.contains first = true)
    (hall : ∀ k ∈ ks, Gen.compoundFundamentals.contains k.type = true)
    (hy : Yields env.cfg w.buf ks bmid) (htok : tokenEofOk env.cfg bmid = .ok (some term, b'))
    (hterm : Gen.compoundFundamentals.contains term.type = false) (hF : ks.length + 1 ≤ F) :
    ∃ (w' : World) (t' : Tok),
      interp env (parsePqnameFundamental F first) w = (w', .ok (.fund (joinWith " " (first :: ks.map (·.value))))) ∧
      SameParse w w' ∧ tokenEofOk env.cfg w'.buf = .ok (some t', b') ∧ t'.type = term.type ∧ t'.value = term.value := by
  obtain ⟨w', t', hw, hs, ht, hty, hv⟩ := fund_loop env ks [first] w bmid b' term F hall hy htok hterm hF
  refine ⟨w', t', ?_, hs, ht, hty, hv⟩
  unfold parsePqnameFundamental
  simp only [hfirst, ↓reduceIte, bind, interp_bind, hw, pure, interp, List.singleton_append]

/-- a fundamental keyword outside the compound set (`void`, `bool`, `float`, …) stands alone -/
theorem fundamental_single (env : Env) (F : Nat) (first : String) (w : World)
    (hfirst : Gen.compoundFundamentals.contains first = false) :
    interp env (parsePqnameFundamental F first) w = (w, .ok (.fund first)) := by
  unfold parsePqnameFundamental
  simp only [hfirst, Bool.false_eq_true, ↓reduceIte, pure, interp]

end Cxx
