/-
  Theorems/ClassForm.lean — class definitions (C03, C01): the head `key n1 :: … :: nk {` (no base
  clause) opens ONE class block whose access level is the class-key default (`private` for
  `class`, `public` for `struct` / `union`), carrying the written key and name, the doc text and
  the access level in force in the enclosing class; the end `} ;` of a named class ends and pops
  exactly that block and delivers nothing else.  With `toplevel_access_specifier`,
  `toplevel_field` and `C03_access_tracks` this covers simple class bodies member by member.
-/
import CxxModel.Theorems.FwdDecl
import CxxModel.Theorems.BlockEnd
namespace Cxx
open P

/-- `private` for `class`, `public` otherwise -/
def defaultAccess (key : String) : String := if key = "class" then "private" else "public"

/-- the header of the block a class head opens -/
def classHdr (ck : CTok) (first : Tok) (pairs : List (Tok × Tok)) (blk : Block) (dox : Option String) : BlockHdr :=
  { kind := .cls, loc := .tok ck.sidx,
    cls := { typename := .mk (.name first.value none :: pairs.map (fun p => .name p.2.value none)) (some ck.value) false,
             bases := [], template := .none, explicit := false, final := false, doxygen := dox,
             access := if blk.hdr.kind = .cls then blk.access else none },
    access := some (defaultAccess ck.value), typedef := false, mods := {} }

/-- **`key n1 :: … :: nk {`** from `_parse_declarations` -/
theorem parseDeclarations_class_head (env : Env) (F D : Nat) (ck : CTok) (doxygen : Option String)
    (first : Tok) (pairs : List (Tok × Tok)) (ob : Tok) (w : World) (b1 bmid b' : Buf)
    (blk : Block) (rest : List Block) (hstack : w.stack = blk :: rest)
    (hmu : w.muted = false) (hfa : ¬ env.faultAt = some w.delivered)
    (hck : isClassKey ck.value = true) (hckt : ck.type = ck.value)
    (htf : tokenEofOk env.cfg w.buf = .ok (some first, b1)) (hf : first.type = "NAME") (hfv : plainVal first.value = true)
    (hall : ∀ p ∈ pairs, p.1.type = "DBL_COLON" ∧ p.2.type = "NAME" ∧ plainVal p.2.value = true)
    (hy : Yields env.cfg b1 (pairs.flatMap (fun p => [p.1, p.2])) bmid)
    (htok : tokenEofOk env.cfg bmid = .ok (some ob, b')) (hob : ob.type = "{") (hF : pairs.length + 2 ≤ F) :
    ∃ (w' : World), w'.buf = b' ∧ SameButLog w w' ∧
      interp env (parseDeclarations F (core F (D + 1 + 1)) ck doxygen) w =
        (pushedWorld env (classHdr ck first pairs blk doxygen) w', .ok ()) := by
  obtain ⟨w1, t1, hi1, hs1, ht1, hty1, _⟩ := parseType_compound env F D ck first pairs w b1 bmid b' ob hck hckt htf hf hfv hall hy
    htok (.inr hob) hF
  obtain ⟨w2, t2, hi2, hs2, ht2, hty2, _⟩ := step_tokenIf_miss env [";"] w1 t1 b' ht1 (by rw [hty1, hob]; decide)
  obtain ⟨w3, c3, hi3, hb3, hs3, hty3, _⟩ := step_tokenIfP_hit env (fun t => Gen.classEnumStage2.contains t.type) w2 t2 b' ht2
    (by intro c hct _; show Gen.classEnumStage2.contains c.type = true; rw [hct, hty2, hty1, hob]; decide)
  have hc3 : c3.type = "{" := by rw [hty3, hty2, hty1, hob]
  have hsl : SameButLog w w3 := (hs1.trans hs2.butLog).trans hs3.butLog
  have hst3 : w3.stack = blk :: rest := by rw [hsl.stack]; exact hstack
  have htop3 := interp_getTop env w3 blk rest hst3
  have hpush := interp_push_passing env (classHdr ck first pairs blk doxygen) w3 (by rw [hsl.muted]; exact hmu)
    (by rw [hsl.delivered]; exact hfa)
  refine ⟨w3, hb3, hsl, ?_⟩
  obtain ⟨k, rfl⟩ : ∃ k, F = k + 1 := ⟨F - 1, by omega⟩
  simp only [isClassKey, Bool.or_eq_true, beq_iff_eq] at hck
  unfold parseDeclarations
  simp only [bind, interp_bind, core_parseType, hi1, Option.bind, typenameOf, PQName.classkey]
  unfold maybeParseClassEnumDecl parseClassDecl
  rcases hck with (hv1 | hv1) | hv1
  all_goals
    simp only [hv1, classHdr, defaultAccess] at hpush ⊢
    simp only [interp, ↓reduceIte, (by decide : ("struct" = "class") = False), (by decide : ("union" = "class") = False)] at hpush
    simp only [loopN, classSpecBody, strTruthy, PQName.classkey, bind, interp_bind, hi2, Option.isSome_none, ↓reduceIte, Bool.false_eq_true, Option.getD_some,
      P.tokenIfInSet, hi3, validate_empty, Bool.not_false, hc3,
      (by decide : "class".isEmpty = false), (by decide : "struct".isEmpty = false), (by decide : "union".isEmpty = false),
      (by decide : ("{" = "final") = False), (by decide : ("{" = "explicit") = False), (by decide : ("{" = ":") = False),
      (by decide : ("struct" = "class") = False), (by decide : ("union" = "class") = False), (by decide : ("union" = "struct") = False),
      decide_true, decide_false, Bool.or_true, Bool.true_or, Bool.or_false, bne_self_eq_false, pure, interp, currentAccess, htop3,
      Block.view, Option.some.injEq, hpush]

/-- `deliver` does not touch the token stream -/
theorem deliver_buf' (env : Env) (w : World) (ev : Event) : (deliver env w ev).1.buf = w.buf := by
  unfold deliver
  by_cases hm : w.muted = true
  · simp [hm]
  · by_cases hf : env.faultAt = some w.delivered <;> simp [hm, hf]

/-- **`} ;` closing a named class** (not a `typedef struct`): `_on_block_end` delivers the end
    callback of the class block (to whoever received its start); if that raises, the parse fails
    there; otherwise exactly that block is popped, the visitor in force before it is restored,
    the `;` is consumed and nothing else happens (no field is synthesised for a named class) -/
theorem class_end_named (env : Env) (F : Nat) (c : Core) (w : World) (cb blk : Block) (rest : List Block)
    (semi : Tok) (b' : Buf) (n : String) (sp : Option TemplateSpec)
    (hstack : w.stack = cb :: blk :: rest) (hg : cb.isGlobal = false) (hk : cb.hdr.kind = .cls)
    (htd : cb.hdr.typedef = false) (hname : cb.hdr.cls.typename.segments.getLast? = some (.name n sp))
    (hacc : blk.hdr.kind = .cls → ∃ a, blk.access = some a)
    (htok : tokenEofOk env.cfg w.buf = .ok (some semi, b')) (hs : semi.type = ";") :
    (∀ w1 e, deliver env w (mkEvent w .blockEnd cb (some blk.id)) = (w1, some e) →
      interp env (onBlockEnd F c) w = (w1, .error e)) ∧
    (∀ w1, deliver env w (mkEvent w .blockEnd cb (some blk.id)) = (w1, none) →
      ∃ w3, interp env (onBlockEnd F c) w = (w3, .ok ()) ∧ w3.buf = b' ∧
        SameParse { w1 with muted := cb.priorMuted, stack := blk :: rest } w3) := by
  constructor
  · intro w1 e hd
    unfold onBlockEnd
    simp only [bind, interp_bind, interp, hstack, hg, Bool.false_eq_true, ↓reduceIte, List.head?_cons, Option.map_some, hd]
  · intro w1 hd
    have hb1 : w1.buf = w.buf := by have := deliver_buf' env w (mkEvent w .blockEnd cb (some blk.id)); rw [hd] at this; exact this
    have htok1 : tokenEofOk env.cfg ({ w1 with muted := cb.priorMuted, stack := blk :: rest } : World).buf = .ok (some semi, b') := by
      show tokenEofOk env.cfg w1.buf = _; rw [hb1]; exact htok
    obtain ⟨wa, ta, hia, hsa, hta, htya, _⟩ := step_tokenIf_miss env ["__attribute__"] { w1 with muted := cb.priorMuted, stack := blk :: rest }
      semi b' htok1 (by rw [hs]; decide)
    obtain ⟨wb, cb2, hib, hbb, hsb, _, _⟩ := step_tokenIf_hit env [";"] wa ta b' hta (by rw [htya, hs]; decide)
    have htopb := interp_getTop env wb blk rest (by rw [hsb.stack, hsa.stack])
    refine ⟨wb, ?_, hbb, hsa.trans hsb⟩
    unfold onBlockEnd
    simp only [bind, interp_bind, interp, hstack, hg, Bool.false_eq_true, ↓reduceIte, List.head?_cons, Option.map_some, hd,
      Block.view, hk, finishClassOrEnum, hia, pure, htd, Bool.not_false, hib, Option.isSome_some, htopb]
    by_cases hbk : blk.hdr.kind = .cls
    · obtain ⟨a, ha⟩ := hacc hbk
      simp only [hbk, ↓reduceIte, ha, hname, Bool.and_false, Bool.false_eq_true, interp, pure]
    · simp only [hbk, ↓reduceIte, interp, pure]

end Cxx
