/-
  Theorems/FwdDecl.lean — forward declarations `struct N ;`, `class a::b::N ;`, `union N ;` (C01, C03):
  through `_parse_declarations` the declaration is exactly ONE `on_forward_decl` carrying the
  written class key and qualified name, the access level in force (none outside a class) and the
  doc text given.
-/
import CxxModel.Theorems.TypeName
import CxxModel.Theorems.VarDecl
import CxxModel.Theorems.Verbose
namespace Cxx
open P

/-- `class` / `struct` / `union` -/
def isClassKey (v : String) : Bool := v == "class" || v == "struct" || v == "union"

/-- **`key n1 :: … :: nk`** starting at the already read class key `ck` -/
theorem compound_pqname (env : Env) (F : Nat) (rec : Core) (fnOk fundOk : Bool) (ck : CTok)
    (first : Tok) (pairs : List (Tok × Tok)) (w : World) (b1 bmid b' : Buf) (term : Tok)
    (hck : isClassKey ck.value = true) (hckt : ck.type = ck.value)
    (htf : tokenEofOk env.cfg w.buf = .ok (some first, b1)) (hf : first.type = "NAME") (hfv : plainVal first.value = true)
    (hall : ∀ p ∈ pairs, p.1.type = "DBL_COLON" ∧ p.2.type = "NAME" ∧ plainVal p.2.value = true)
    (hy : Yields env.cfg b1 (pairs.flatMap (fun p => [p.1, p.2])) bmid)
    (htok : tokenEofOk env.cfg bmid = .ok (some term, b')) (hlt : term.type ≠ "<") (hdc : term.type ≠ "DBL_COLON")
    (hF : pairs.length + 1 ≤ F) :
    ∃ (w' : World) (t' : Tok),
      interp env (parsePqnameStep F rec (some ck) fnOk true fundOk) w =
        (logged env w' "parse_pqname",
          .ok (.mk (.name first.value none :: pairs.map (fun p => .name p.2.value none)) (some ck.value) false, none)) ∧
      SameParse w w' ∧ tokenEofOk env.cfg w'.buf = .ok (some t', b') ∧ t'.type = term.type ∧ t'.value = term.value := by
  obtain ⟨wa, ta, hia, hsa, hta, htya, hva⟩ := step_tokenIf_miss env Gen.attributeStartTokens w first b1 htf (by rw [hf]; decide)
  obtain ⟨wb, cb, hib, hbb, hsb, htyb, hvb⟩ := step_tokenIf_hit env ["NAME", "DBL_COLON"] wa ta b1 hta (by rw [htya, hf]; decide)
  obtain ⟨w', t', hw, hs, ht, hty', hv⟩ := pqname_loop env F rec fnOk fundOk pairs [] cb wb bmid b' term F
    (by rw [hvb, hva]; exact hfv) hall (by rw [hbb]; exact hy) htok hlt hdc hF
  refine ⟨w', t', ?_, (hsa.trans hsb).trans hs, ht, hty', hv⟩
  have hcbt : cb.type = "NAME" := by rw [htyb, htya, hf]
  have hcbv : cb.value = first.value := by rw [hvb, hva]
  simp only [isClassKey, Bool.or_eq_true, beq_iff_eq] at hck
  unfold parsePqnameStep
  rcases hck with (hv1 | hv1) | hv1
  all_goals
    have ht1 := hckt
    rw [hv1] at ht1
    simp only [pure, interp, bind, interp_bind, ht1, hv1, Bool.not_true, Bool.false_eq_true, ↓reduceIte,
      (by decide : Gen.pqnameStartTokens.contains "class" = true), (by decide : Gen.pqnameStartTokens.contains "struct" = true),
      (by decide : Gen.pqnameStartTokens.contains "union" = true),
      (by decide : Gen.nameCompoundStart.contains "class" = true), (by decide : Gen.nameCompoundStart.contains "struct" = true),
      (by decide : Gen.nameCompoundStart.contains "union" = true),
      (by decide : ("class" = "auto") = False), (by decide : ("struct" = "auto") = False), (by decide : ("union" = "auto") = False),
      (by decide : ("class" = "enum") = False), (by decide : ("struct" = "enum") = False), (by decide : ("union" = "enum") = False),
      hia, hib, hcbt, (by decide : ("NAME" = "DBL_COLON") = False), hw, List.nil_append, P.debugPrint, logged, hcbv]

/-- `_parse_type` on `key n1 :: … :: nk` followed by `;` -/
theorem parseType_compound (env : Env) (F D : Nat) (ck : CTok) (first : Tok) (pairs : List (Tok × Tok))
    (w : World) (b1 bmid b' : Buf) (semi : Tok)
    (hck : isClassKey ck.value = true) (hckt : ck.type = ck.value)
    (htf : tokenEofOk env.cfg w.buf = .ok (some first, b1)) (hf : first.type = "NAME") (hfv : plainVal first.value = true)
    (hall : ∀ p ∈ pairs, p.1.type = "DBL_COLON" ∧ p.2.type = "NAME" ∧ plainVal p.2.value = true)
    (hy : Yields env.cfg b1 (pairs.flatMap (fun p => [p.1, p.2])) bmid)
    (htok : tokenEofOk env.cfg bmid = .ok (some semi, b')) (hs : semi.type = ";" ∨ semi.type = "{") (hF : pairs.length + 2 ≤ F) :
    ∃ (w' : World) (t' : Tok),
      interp env (parseTypeStep F (core F (D + 1)) (some ck) true) w =
        (w', .ok (some (.type (.mk (.name first.value none :: pairs.map (fun p => .name p.2.value none)) (some ck.value) false) false false), {})) ∧
      SameButLog w w' ∧ tokenEofOk env.cfg w'.buf = .ok (some t', b') ∧ t'.type = semi.type ∧ t'.value = semi.value := by
  obtain ⟨w1, t1, hpq, hs1, ht1, hty1, hv1⟩ := compound_pqname env F (core F D) false true ck first pairs w b1 bmid b' semi
    hck hckt htf hf hfv hall hy htok (by rcases hs with h | h <;> (rw [h]; decide)) (by rcases hs with h | h <;> (rw [h]; decide)) (by omega)
  obtain ⟨w2, c2, hi2, hb2, hs2, hty2, hv2⟩ := step_token env (logged env w1 "parse_pqname") t1 b'
    (by rw [logged_buf']; exact ht1)
  have hnd : isDiscard c2.type = false := by rw [hty2]; exact tokenEofOk_not_discard ht1
  obtain ⟨w3, t3, hi3, hs3, ht3, hty3, hv3⟩ := step_returnToken env w2 c2 hnd
  refine ⟨w3, t3, ?_, ((hs1.butLog.trans (logged_butLog env w1 _)).trans hs2.butLog).trans hs3.butLog,
    by rw [← hb2]; exact ht3, by rw [hty3, hty2, hty1], by rw [hv3, hv2, hv1]⟩
  obtain ⟨k, rfl⟩ : ∃ k, F = k + 2 := ⟨F - 2, by omega⟩
  have hstart : Gen.pqnameStartTokens.contains ck.type = true := by
    simp only [isClassKey, Bool.or_eq_true, beq_iff_eq] at hck
    rw [hckt]
    rcases hck with (h | h) | h <;> (rw [h]; decide)
  have hnop : (ck.type = "operator") = False := by
    simp only [isClassKey, Bool.or_eq_true, beq_iff_eq] at hck
    rw [hckt]
    rcases hck with (h | h) | h <;> (rw [h]; decide)
  have hbody1 : interp env (typeBody (k + 2) (core (k + 2) (D + 1)) true (ck, none, false, false, {}, false)) w =
      (w2, .ok (.inl (c2, some (.mk (.name first.value none :: pairs.map (fun p => .name p.2.value none)) (some ck.value) false), false, false, {}, false))) := by
    unfold typeBody
    simp only [hstart, ↓reduceIte, Option.isSome_none, Bool.false_eq_true, hnop, decide_false, Bool.and_false, bind, interp_bind,
      core, coreStep, hpq, pure, interp, hi2]
  have hbody2 : interp env (typeBody (k + 2) (core (k + 2) (D + 1)) true (c2,
      some (.mk (.name first.value none :: pairs.map (fun p => .name p.2.value none)) (some ck.value) false), false, false, {}, false)) w2 =
      (w2, .ok (.inr (c2, some (.mk (.name first.value none :: pairs.map (fun p => .name p.2.value none)) (some ck.value) false),
        false, false, {}, false))) := by
    rcases hs with h | h
    · exact typeBody_semi env _ _ true c2 _ false false {} false w2 (by rw [hty2, hty1, h])
    · exact typeBody_brace env _ _ true c2 _ false false {} false w2 (by rw [hty2, hty1, h])
  unfold parseTypeStep
  simp only [pure, interp, bind, interp_bind]
  rw [loopN]
  simp only [bind, interp_bind, hbody1]
  rw [loopN]
  simp only [bind, interp_bind, hbody2, pure, interp, hi3]

/-- the forward declaration written -/
def plainFwd (key : String) (first : Tok) (pairs : List (Tok × Tok)) (blk : Block) (dox : Option String) : ForwardDecl :=
  { typename := .mk (.name first.value none :: pairs.map (fun p => .name p.2.value none)) (some key) false,
    template := .none, doxygen := dox, access := if blk.hdr.kind = .cls then blk.access else none }

/-- **`key n1 :: … :: nk ;`** from `_parse_declarations`, in any block, with an active visitor that
    does not raise here: exactly ONE `on_forward_decl` -/
theorem parseDeclarations_fwd (env : Env) (F D : Nat) (ck : CTok) (doxygen : Option String)
    (first : Tok) (pairs : List (Tok × Tok)) (semi : Tok) (w : World) (b1 bmid b' : Buf)
    (blk : Block) (rest : List Block) (hstack : w.stack = blk :: rest)
    (hmu : w.muted = false) (hfa : ¬ env.faultAt = some w.delivered)
    (hck : isClassKey ck.value = true) (hckt : ck.type = ck.value)
    (htf : tokenEofOk env.cfg w.buf = .ok (some first, b1)) (hf : first.type = "NAME") (hfv : plainVal first.value = true)
    (hall : ∀ p ∈ pairs, p.1.type = "DBL_COLON" ∧ p.2.type = "NAME" ∧ plainVal p.2.value = true)
    (hy : Yields env.cfg b1 (pairs.flatMap (fun p => [p.1, p.2])) bmid)
    (htok : tokenEofOk env.cfg bmid = .ok (some semi, b')) (hs : semi.type = ";") (hF : pairs.length + 2 ≤ F) :
    ∃ (w7 : World) (ev : Event),
      interp env (parseDeclarations F (core F (D + 1 + 1)) ck doxygen) w = (w7, .ok ()) ∧
      w7.buf = b' ∧ w7.stack = { blk with loc := .tok ck.sidx } :: rest ∧
      w7.events = w.events ++ [ev] ∧ ev.kind = .item (.forwardDecl (plainFwd ck.value first pairs blk doxygen)) ∧
      ev.stateId = blk.id ∧ ev.parentId = rest.head?.map (·.id) ∧
      w7.delivered = w.delivered + 1 ∧ w7.anon = w.anon ∧ w7.muted = false ∧ w7.nextId = w.nextId ∧
      w7.mainTok = w.mainTok := by
  obtain ⟨w1, t1, hi1, hs1, ht1, hty1, _⟩ := parseType_compound env F D ck first pairs w b1 bmid b' semi hck hckt htf hf hfv hall hy
    htok (.inl hs) hF
  obtain ⟨w2, c2, hi2, hb2, hs2, _, _⟩ := step_tokenIf_hit env [";"] w1 t1 b' ht1 (by rw [hty1, hs]; decide)
  have hsl : SameButLog w w2 := hs1.trans hs2.butLog
  have hst2 : w2.stack = blk :: rest := by rw [hsl.stack]; exact hstack
  have htop2 := interp_getTop env w2 blk rest hst2
  have hmu2 : ({ w2 with stack := { blk with loc := LocRef.tok ck.sidx } :: rest } : World).muted = false := by
    show w2.muted = _; rw [hsl.muted]; exact hmu
  have hdel := deliver_passing env { w2 with stack := { blk with loc := LocRef.tok ck.sidx } :: rest }
    (mkEvent { w2 with stack := { blk with loc := LocRef.tok ck.sidx } :: rest }
      (.item (.forwardDecl (plainFwd ck.value first pairs blk doxygen))) { blk with loc := LocRef.tok ck.sidx } (rest.head?.map (·.id)))
    hmu2 (by show ¬ env.faultAt = some w2.delivered; rw [hsl.delivered]; exact hfa)
  refine ⟨{ ({ w2 with stack := { blk with loc := LocRef.tok ck.sidx } :: rest } : World) with
      events := w2.events ++ [mkEvent { w2 with stack := { blk with loc := LocRef.tok ck.sidx } :: rest }
        (.item (.forwardDecl (plainFwd ck.value first pairs blk doxygen))) { blk with loc := LocRef.tok ck.sidx } (rest.head?.map (·.id))],
      delivered := w2.delivered + 1 },
    mkEvent { w2 with stack := { blk with loc := LocRef.tok ck.sidx } :: rest }
      (.item (.forwardDecl (plainFwd ck.value first pairs blk doxygen))) { blk with loc := LocRef.tok ck.sidx } (rest.head?.map (·.id)),
    ?_, hb2, rfl, by show w2.events ++ _ = _; rw [hsl.events], rfl, rfl, rfl,
    by show w2.delivered + 1 = _; rw [hsl.delivered], hsl.anon, hmu2, hsl.nextId, hsl.mainTok⟩
  simp only [isClassKey, Bool.or_eq_true, beq_iff_eq] at hck
  unfold parseDeclarations
  simp only [bind, interp_bind, core_parseType, hi1, Option.bind, typenameOf, PQName.classkey]
  unfold maybeParseClassEnumDecl
  rcases hck with (hv1 | hv1) | hv1
  all_goals
    simp only [hv1, plainFwd] at hdel ⊢
    simp only [strTruthy, PQName.classkey, bind, interp_bind, hi2, Option.isSome_some, ↓reduceIte, Bool.false_eq_true, Option.getD_some,
      validate_empty, TemplateVar.isSome, Bool.false_and, Bool.not_false, Bool.and_true, currentAccess, htop2,
      (by decide : "class".isEmpty = false), (by decide : "struct".isEmpty = false), (by decide : "union".isEmpty = false),
      (by decide : ("class" = "enum") = False), (by decide : ("struct" = "enum") = False), (by decide : ("union" = "enum") = False),
      decide_false, pure, interp, P.setLoc, hst2, P.emit, Block.view, hdel]

end Cxx
