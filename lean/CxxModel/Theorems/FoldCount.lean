/-
  Theorems/FoldCount.lean — the fold of `SimpleCxxVisitor` stores every payload exactly once:
  the number of objects held in the scope tree grows by one for each item callback and by
  nothing for block callbacks (C01, C04).
-/
import CxxModel.SimpleFold
namespace Cxx

def NsItems.count (it : NsItems) : Nat :=
  it.enums.length + it.functions.length + it.methodImpls.length + it.typedefs.length + it.variables.length +
  it.forwardDecls.length + it.usingDecls.length + it.usingNs.length + it.usingAlias.length + it.nsAlias.length +
  it.concepts.length + it.templateInsts.length + it.deductionGuides.length

def ClsItems.count (it : ClsItems) : Nat :=
  it.enums.length + it.fields.length + it.friends.length + it.methods.length + it.typedefs.length +
  it.forwardDecls.length + it.usingDecls.length + it.usingAlias.length

mutual
/-- number of objects stored in a scope and everything below it -/
def Scope.count : Scope → Nat
  | .ns _ _ _ items classes nss => items.count + countL classes + countA nss
  | .cls _ items classes => items.count + countL classes
def countL : List Scope → Nat
  | [] => 0
  | s :: r => s.count + countL r
def countA : List (String × Scope) → Nat
  | [] => 0
  | (_, s) :: r => s.count + countA r
end


theorem countL_append (a b : List Scope) : countL (a ++ b) = countL a + countL b := by
  induction a with
  | nil => simp [countL]
  | cons x xs ih => simp only [List.cons_append, countL, ih]; omega

theorem countA_append (a b : List (String × Scope)) : countA (a ++ b) = countA a + countA b := by
  induction a with
  | nil => simp [countA]
  | cons x xs ih => obtain ⟨k, v⟩ := x; simp only [List.cons_append, countA, ih]; omega

theorem countL_set : ∀ (l : List Scope) (idx : Nat) (c c' : Scope), l[idx]? = some c →
    countL (l.set idx c') + c.count = countL l + c'.count := by
  intro l
  induction l with
  | nil => intro idx c c' h; simp at h
  | cons x xs ih =>
    intro idx c c' h
    cases idx with
    | zero => simp only [List.getElem?_cons_zero, Option.some.injEq] at h; subst h; simp only [List.set_cons_zero, countL]; omega
    | succ i =>
      simp only [List.getElem?_cons_succ] at h
      have := ih i c c' h
      simp only [List.set_cons_succ, countL]; omega

theorem countA_replace : ∀ (nss : List (String × Scope)) (k : String) (c c' : Scope), nss.lookup k = some c →
    countA (replaceAssoc k c' nss) + c.count = countA nss + c'.count := by
  intro nss
  induction nss with
  | nil => intro k c c' h; simp [List.lookup] at h
  | cons p r ih =>
    intro k c c' h
    obtain ⟨k', v'⟩ := p
    simp only [replaceAssoc]
    by_cases hk : k' = k
    · subst hk
      simp only [List.lookup, beq_self_eq_true, Option.some.injEq] at h
      subst h
      simp only [↓reduceIte, countA]; omega
    · have hk' : (k == k') = false := by simp [Ne.symm hk]
      simp only [List.lookup, hk'] at h
      have := ih k c c' h
      simp only [hk, ↓reduceIte, countA]; omega

theorem count_setClasses (s : Scope) (cl : List Scope) : (s.setClasses cl).count + countL s.classes = s.count + countL cl := by
  cases s <;> simp only [Scope.setClasses, Scope.classes, Scope.count] <;> omega

theorem count_setChild (s : Scope) (st : Step) (c c' : Scope) (h : s.child? st = some c) :
    (s.setChild st c').count + c.count = s.count + c'.count := by
  cases st with
  | nsChild name =>
    cases s with
    | cls d it cl => simp [Scope.child?] at h
    | ns n i d it cl nss =>
      simp only [Scope.child?] at h
      have := countA_replace nss name c c' h
      simp only [Scope.setChild, Scope.count]; omega
  | clsChild idx =>
    simp only [Scope.child?] at h
    have h1 := countL_set s.classes idx c c' h
    have h2 := count_setClasses s (s.classes.set idx c')
    simp only [Scope.setChild]; omega

/-- a node transformation that changes the node's own count by `δ` changes the tree's count by `δ` -/
theorem count_modifyAt (f : Scope → Option Scope) (δ : Nat) (hf : ∀ s s', f s = some s' → s'.count = s.count + δ) :
    ∀ (path : Path) (root root' : Scope), root.modifyAt f path = some root' → root'.count = root.count + δ := by
  intro path
  induction path with
  | nil => intro root root' h; exact hf _ _ (by simpa [Scope.modifyAt] using h)
  | cons st rest ih =>
    intro root root' h
    simp only [Scope.modifyAt] at h
    cases hc : root.child? st with
    | none => simp [hc] at h
    | some c =>
      simp only [hc] at h
      cases hm : Scope.modifyAt f rest c with
      | none => simp [hm] at h
      | some c' =>
        simp only [hm, Option.some.injEq] at h
        subst h
        have h1 := ih c c' hm
        have h2 := count_setChild root st c c' hc
        omega

theorem count_emptyNs (n : String) : (Scope.emptyNs n).count = 0 := by
  simp [Scope.emptyNs, Scope.count, NsItems.count, countL, countA]

theorem openNamespaces_count : ∀ (names : List String) (path : Path) (root root' : Scope) (p' : Path),
    openNamespaces names path root = some (root', p') → root'.count = root.count := by
  intro names
  induction names with
  | nil => intro path root root' p' h; simp only [openNamespaces, Option.some.injEq, Prod.mk.injEq] at h; rw [h.1]
  | cons n rest ih =>
    intro path root root' p' h
    simp only [openNamespaces] at h
    split at h
    · cases h
    · rename_i r1 hm
      have h1 : r1.count = root.count + 0 := by
        refine count_modifyAt _ 0 ?_ path root r1 hm
        intro s s' hs
        cases s with
        | cls d it cl => simp at hs
        | ns nm i d it cl nss =>
          simp only at hs
          split at hs
          · simp only [Option.some.injEq] at hs; subst hs; rfl
          · simp only [Option.some.injEq] at hs; subst hs
            simp only [Scope.count, countA_append, countA, count_emptyNs]; omega
      have h2 := ih _ _ _ _ h
      omega

def FoldState.total (fs : FoldState) : Nat := fs.root.count + fs.pragmas.length + fs.includes.length

def Event.isItem (e : Event) : Bool :=
  match e.kind with
  | .item _ => true
  | _ => false

theorem modifyNs_total (fs fs' : FoldState) (path : Path) (what : String) (f : NsItems → NsItems)
    (hf : ∀ it, (f it).count = it.count + 1) (h : fs.modifyNs path what f = .ok fs') : fs'.total = fs.total + 1 := by
  unfold FoldState.modifyNs at h
  split at h
  · rename_i r hm
    injection h with h; subst h
    have := count_modifyAt _ 1 (by
      intro s s' hs
      cases s with
      | cls d it cl => simp at hs
      | ns n i d it cl nss =>
        simp only [Option.some.injEq] at hs; subst hs
        simp only [Scope.count, hf]; omega) path fs.root r hm
    simp only [FoldState.total, this]; omega
  · cases h

theorem modifyCls_total (fs fs' : FoldState) (path : Path) (what : String) (f : ClsItems → ClsItems)
    (hf : ∀ it, (f it).count = it.count + 1) (h : fs.modifyCls path what f = .ok fs') : fs'.total = fs.total + 1 := by
  unfold FoldState.modifyCls at h
  split at h
  · rename_i r hm
    injection h with h; subst h
    have := count_modifyAt _ 1 (by
      intro s s' hs
      cases s with
      | ns n i d it cl nss => simp at hs
      | cls d it cl =>
        simp only [Option.some.injEq] at hs; subst hs
        simp only [Scope.count, hf]; omega) path fs.root r hm
    simp only [FoldState.total, this]; omega
  · cases h

theorem modifyAny_total (fs fs' : FoldState) (path : Path) (what : String) (fn : NsItems → NsItems) (fc : ClsItems → ClsItems)
    (hn : ∀ it, (fn it).count = it.count + 1) (hc : ∀ it, (fc it).count = it.count + 1)
    (h : fs.modifyAny path what fn fc = .ok fs') : fs'.total = fs.total + 1 := by
  unfold FoldState.modifyAny at h
  split at h
  · rename_i r hm
    injection h with h; subst h
    have := count_modifyAt _ 1 (by
      intro s s' hs
      cases s with
      | ns n i d it cl nss =>
        simp only [Option.some.injEq] at hs; subst hs
        simp only [Scope.count, hn]; omega
      | cls d it cl =>
        simp only [Option.some.injEq] at hs; subst hs
        simp only [Scope.count, hc]; omega) path fs.root r hm
    simp only [FoldState.total, this]; omega
  · cases h


/-- **one callback**: `on_parse_start` starts from nothing; a block callback stores nothing;
    every item callback that succeeds stores exactly one object -/
theorem foldStep_total (fs fs' : FoldState) (e : Event) (h : foldStep fs e = .ok fs') :
    fs'.total = (match e.kind with
      | .parseStart => 0
      | .item _ => fs.total + 1
      | _ => fs.total) := by
  unfold foldStep at h
  cases hk : e.kind with
  | parseStart =>
    simp only [hk] at h
    injection h with h; subst h
    simp [FoldState.total, count_emptyNs]
  | blockEnd =>
    simp only [hk] at h
    injection h with h; subst h; rfl
  | blockStart =>
    simp only [hk] at h
    split at h
    · cases h
    · split at h
      · cases h
      · rename_i ppath _
        split at h
        · -- extern block
          injection h with h; subst h; rfl
        · -- namespace
          split at h
          · cases h
          · rename_i root1 path1 hopen
            split at h
            · cases h
            · rename_i root2 hm
              injection h with h; subst h
              have h1 := openNamespaces_count _ _ _ _ _ hopen
              have h2 := count_modifyAt _ 0 (by
                intro s s' hs
                cases s with
                | cls d it cl => simp at hs
                | ns n i d it cl nss =>
                  simp only [Option.some.injEq] at hs; subst hs; rfl) path1 root1 root2 hm
              simp only [FoldState.total]; omega
        · -- class
          split at h
          · cases h
          · split at h
            · cases h
            · rename_i root2 hm
              injection h with h; subst h
              have h2 := count_modifyAt _ 0 (by
                intro s s' hs
                simp only [Option.some.injEq] at hs; subst hs
                have := count_setClasses s (s.classes ++ [.cls e.hdr.cls {} []])
                simp only [countL_append, countL, Scope.count, ClsItems.count, List.length_nil] at this
                omega) ppath fs.root root2 hm
              simp only [FoldState.total]; omega
  | item p =>
    simp only [hk] at h
    cases p with
    | pragma v => injection h with h; subst h; simp [FoldState.total]; omega
    | «include» f => injection h with h; subst h; simp [FoldState.total]; omega
    | concept c =>
      simp only at h; split at h
      · cases h
      · exact modifyNs_total _ _ _ _ _ (by intro it; simp [NsItems.count]; omega) h
    | namespaceAlias a =>
      simp only at h; split at h
      · cases h
      · exact modifyNs_total _ _ _ _ _ (by intro it; simp [NsItems.count]; omega) h
    | forwardDecl f =>
      simp only at h; split at h
      · cases h
      · exact modifyAny_total _ _ _ _ _ _ (by intro it; simp [NsItems.count]; omega) (by intro it; simp [ClsItems.count]; omega) h
    | templateInst t =>
      simp only at h; split at h
      · cases h
      · split at h
        · exact modifyNs_total _ _ _ _ _ (by intro it; simp [NsItems.count]; omega) h
        · cases h
    | «variable» v =>
      simp only at h; split at h
      · cases h
      · split at h
        · exact modifyNs_total _ _ _ _ _ (by intro it; simp [NsItems.count]; omega) h
        · cases h
    | function f =>
      simp only at h; split at h
      · cases h
      · exact modifyNs_total _ _ _ _ _ (by intro it; simp [NsItems.count]; omega) h
    | methodImpl m =>
      simp only at h; split at h
      · cases h
      · exact modifyNs_total _ _ _ _ _ (by intro it; simp [NsItems.count]; omega) h
    | typedef t =>
      simp only at h; split at h
      · cases h
      · exact modifyAny_total _ _ _ _ _ _ (by intro it; simp [NsItems.count]; omega) (by intro it; simp [ClsItems.count]; omega) h
    | usingNamespace ns =>
      simp only at h; split at h
      · cases h
      · exact modifyNs_total _ _ _ _ _ (by intro it; simp [NsItems.count]; omega) h
    | usingAlias u =>
      simp only at h; split at h
      · cases h
      · exact modifyAny_total _ _ _ _ _ _ (by intro it; simp [NsItems.count]; omega) (by intro it; simp [ClsItems.count]; omega) h
    | usingDeclaration u =>
      simp only at h; split at h
      · cases h
      · exact modifyAny_total _ _ _ _ _ _ (by intro it; simp [NsItems.count]; omega) (by intro it; simp [ClsItems.count]; omega) h
    | enum en =>
      simp only at h; split at h
      · cases h
      · exact modifyAny_total _ _ _ _ _ _ (by intro it; simp [NsItems.count]; omega) (by intro it; simp [ClsItems.count]; omega) h
    | classField f =>
      simp only at h; split at h
      · cases h
      · exact modifyCls_total _ _ _ _ _ (by intro it; simp [ClsItems.count]; omega) h
    | classMethod m =>
      simp only at h; split at h
      · cases h
      · exact modifyCls_total _ _ _ _ _ (by intro it; simp [ClsItems.count]; omega) h
    | classFriend f =>
      simp only at h; split at h
      · cases h
      · exact modifyCls_total _ _ _ _ _ (by intro it; simp [ClsItems.count]; omega) h
    | deductionGuide g =>
      simp only at h; split at h
      · cases h
      · exact modifyNs_total _ _ _ _ _ (by intro it; simp [NsItems.count]; omega) h

/-- number of item callbacks in a stream -/
def itemCount (evs : List Event) : Nat := (evs.filter Event.isItem).length

def noParseStart (evs : List Event) : Bool := evs.all (fun e => match e.kind with | .parseStart => false | _ => true)

/-- **the whole stream**: after `on_parse_start`, a stream without a second `on_parse_start`
    that folds without error leaves exactly one stored object per item callback -/
theorem foldEvents_total : ∀ (evs : List Event) (i : Nat) (fs fs' : FoldState), noParseStart evs = true →
    foldEvents evs i fs = .ok fs' → fs'.total = fs.total + itemCount evs := by
  intro evs
  induction evs with
  | nil => intro i fs fs' _ h; simp only [foldEvents] at h; injection h with h; subst h; simp [itemCount]
  | cons e rest ih =>
    intro i fs fs' hn h
    simp only [noParseStart, List.all_cons, Bool.and_eq_true] at hn
    simp only [foldEvents] at h
    cases hs : foldStep fs e with
    | error err => simp [hs] at h
    | ok fs1 =>
      simp only [hs] at h
      have h1 := foldStep_total fs fs1 e hs
      have h2 := ih (i + 1) fs1 fs' (by simpa [noParseStart] using hn.2) h
      cases hk : e.kind with
      | parseStart => simp [hk] at hn
      | blockStart => simp only [hk] at h1; simp [itemCount, List.filter_cons, Event.isItem, hk] at h2 ⊢; omega
      | blockEnd => simp only [hk] at h1; simp [itemCount, List.filter_cons, Event.isItem, hk] at h2 ⊢; omega
      | item p => simp only [hk] at h1; simp [itemCount, List.filter_cons, Event.isItem, hk] at h2 ⊢; omega

end Cxx
