/-
  Theorems/ArrayForm.lean — array declarators `[ size ]` (C02, C14): for properly nested size tokens
  followed by `]` and then a token that is not `[`, `_parse_array_type` returns the array of the
  element type whose size is EXACTLY the written tokens (none for `[]`), and leaves the following
  token in the stream.
-/
import CxxModel.Theorems.Steps
import CxxModel.Theorems.FieldForm
namespace Cxx
open P

theorem inner_tv_arr (res : List CTok) (o : String × String) (content : List (String × String)) (cl : String × String)
    (h : res.map CTok.tv = o :: (content ++ [cl])) : (inner res).map CTok.tv = content := by
  unfold inner
  cases res with
  | nil => simp at h
  | cons r rs =>
    simp only [List.map_cons, List.cons.injEq] at h
    simp only [List.drop_one, List.tail_cons]
    have h2 : rs.map CTok.tv = content ++ [cl] := h.2
    rw [List.map_dropLast, h2, List.dropLast_concat]

theorem parseArrayType_one (env : Env) (F : Nat) (ob : CTok) (dtype : DType) (content : List Tok) (cb nx : Tok)
    (w : World) (bmid b' : Buf) (hob : ob.type = "[") (hnr : isRefLike dtype = false)
    (hn : Nested (content.map (·.type))) (hcb : cb.type = "]")
    (hy : Yields env.cfg w.buf (content ++ [cb]) bmid) (htnx : tokenEofOk env.cfg bmid = .ok (some nx, b')) (hnx : nx.type ≠ "[")
    (hF : content.length + 1 ≤ F) :
    ∃ (w' : World) (t' : Tok),
      interp env (parseArrayType (F + 1) ob dtype) w =
        (w', .ok (.array dtype (if content.isEmpty then none else some (valueOf content)))) ∧
      SameParse w w' ∧ tokenEofOk env.cfg w'.buf = .ok (some t', b') ∧ t'.type = nx.type ∧ t'.value = nx.value := by
  have hl : Gen.balancedTokenMap.lookup ob.type = some "]" := by rw [hob]; decide
  obtain ⟨w1, res, hi1, hb1, hs1, hres⟩ := consumeBalanced_region env ob "]" hl content cb hn hcb w bmid F hy hF
  obtain ⟨w2, t2, hi2, hs2, ht2, hty2, hv2⟩ := step_tokenIf_miss env ["["] w1 nx b' (by rw [hb1]; exact htnx) (by simp [hnx])
  refine ⟨w2, t2, ?_, hs1.trans hs2, ht2, hty2, hv2⟩
  have hsl : Gen.arraySizeSliced = true := by decide
  have hin : (inner res).map CTok.tv = content.map Tok.tv := inner_tv_arr res ob.tv (content.map Tok.tv) cb.tv (by simpa using hres)
  have hcv : createValue (inner res) = valueOf content := createValue_eq _ _ hin
  have hemp : (inner res).isEmpty = content.isEmpty := by
    have := congrArg List.length hin
    simp only [List.length_map] at this
    cases h1 : inner res <;> cases h2 : content <;> simp_all
  unfold parseArrayType
  rw [loopN]
  simp only [bind, interp_bind, hnr, Bool.false_eq_true, ↓reduceIte, hi1, sliceIf, hsl, hi2, pure, interp, List.nil_append,
    List.reverse_singleton, List.foldl_cons, List.foldl_nil, hemp, hcv]

end Cxx
