/-
  Theorems/ParamGen.lean — parameters and parameter lists over ANY type specifier and ANY declarator prefix
  (C02): `S prefix name` with `S` a `TypeSpecR` and `prefix` a `PrefixSpec` decodes to the parameter `name` of
  the type the prefix denotes over the type `S` denotes; a list `p1 , … , pn )` of any length decodes to the
  parameters in order, each with its own name and its own type — no qualifier, pointer level or name leaks from
  one parameter into the next.
-/
import CxxModel.Theorems.TypeSpec
import CxxModel.Theorems.PrefixSpec
import CxxModel.Theorems.ParamForm
namespace Cxx
open P

/-- the written form `spec prefix name` of one parameter -/
structure PItemG where
  spec : List Tok
  segs : List PQSeg
  cst : Bool
  vol : Bool
  ops : List Tok
  name : Tok
  ty : DType

def PItemG.toks (p : PItemG) : List Tok := p.spec ++ (p.ops ++ [p.name])

def PItemG.param (p : PItemG) : Param := .mk p.ty (some p.name.value) none false

/-- the side conditions: the specifier is a type whose first token is not `auto`, the prefix denotes `ty` over it,
    the parameter does not have the lone `void` type -/
structure PItemG.OK (env : Env) (F D : Nat) (p : PItemG) : Prop where
  spec : TypeSpecR env F D p.spec p.segs p.cst p.vol
  first : ∃ f r, p.spec = f :: r ∧ f.type ≠ "auto" ∧ f.type ≠ "ELLIPSIS" ∧ f.type ≠ ")"
  head : ∀ q ∈ (tvs p.ops).head?, declStart q.1 = true
  pre : PrefixSpec env F (D + 1) (.type (.mk p.segs none false) p.cst p.vol) (tvs p.ops) p.ty
  notFn : isFnType p.ty = false
  nameTy : p.name.type = "NAME"
  notVoid : isLoneVoid p.ty = false

theorem declStart_not_auto {ty : String} (h : declStart ty = true) : ty ≠ "auto" := by
  rcases declStart_cases h with h | h
  · subst h; decide
  · intro he; subst he; exact absurd h (by decide)

/-- **one parameter `S prefix name`**, its first token arriving as a copy `f'` of the written one -/
theorem parameter_gen (env : Env) (F D : Nat) (p : PItemG) (hok : p.OK env F D)
    (f : Tok) (rest : List Tok) (hsp : p.spec = f :: rest) (f' : Tok) (hft : f'.type = f.type) (hfv : f'.value = f.value)
    (sep : Tok) (w : World) (b1 bmid b' : Buf)
    (hf : tokenEofOk env.cfg w.buf = .ok (some f', b1))
    (hy : Yields env.cfg b1 (rest ++ (p.ops ++ [p.name])) bmid) (htsep : tokenEofOk env.cfg bmid = .ok (some sep, b'))
    (hsep : sep.type = "," ∨ sep.type = ")") :
    ∃ (w' : World) (t' : Tok),
      interp env (parseParameterStep F (core F (D + 1 + 1)) none true ")") w =
        (w', .ok (p.param, none)) ∧
      SameButLog w w' ∧ tokenEofOk env.cfg w'.buf = .ok (some t', b') ∧ t'.type = sep.type ∧ t'.value = sep.value := by
  obtain ⟨hspec, ⟨f0, r0, hsp0, hnauto, _, _⟩, hhead, hpre, hfn, hnt, _⟩ := hok
  rw [hsp] at hsp0
  simp only [List.cons.injEq] at hsp0
  obtain ⟨rfl, rfl⟩ := hsp0
  obtain ⟨b0, hy0, hy1⟩ := Yields.split hy
  obtain ⟨bops, hyops, hyn⟩ := Yields.split hy1
  have htn := Yields.single_inv hyn
  obtain ⟨w1, c1, hi1, hb1, hs1, hty1, hv1⟩ := step_token env w f' b1 hf
  -- the token after the specifier: the first token of the prefix, or the parameter name
  obtain ⟨nx, bnx, hnx, hnxstart⟩ : ∃ (nx : Tok) (bnx : Buf), tokenEofOk env.cfg b0 = .ok (some nx, bnx) ∧ declStart nx.type = true := by
    cases hops : p.ops with
    | nil =>
      rw [hops] at hyops
      cases hyops
      exact ⟨p.name, bmid, htn, by rw [hnt]; decide⟩
    | cons o os =>
      rw [hops] at hyops
      obtain ⟨bo, hto, _⟩ := Yields.cons_inv hyops
      exact ⟨o, bo, hto, (hhead (o.type, o.value) (by simp [hops, tvs])) ⟩
  obtain ⟨w2, t2, hi2, hs2, ht2, hty2, hv2⟩ := hspec false c1 f rest w1 b0 bnx nx hsp (hty1.trans hft) (hv1.trans hfv)
    (by rw [hb1]; exact hy0) hnx hnxstart
  obtain ⟨w3, t3, hi3, hs3, ht3, hty3, hv3⟩ := step_tokenIf_miss env ["auto"] w2 t2 bnx ht2
    (by rw [hty2]; simp [declStart_not_auto hnxstart])
  -- the stream seen by the prefix: the pushed-back copy of `nx`, then as given
  obtain ⟨ops', nm', bops', hy', hmapeq, htn', hnt', hnv'⟩ : ∃ (ops' : List Tok) (nm' : Tok) (bops' : Buf),
      Yields env.cfg w3.buf ops' bops' ∧ tvs ops' = tvs p.ops ∧
      tokenEofOk env.cfg bops' = .ok (some nm', bmid) ∧ nm'.type = "NAME" ∧ nm'.value = p.name.value := by
    cases hops : p.ops with
    | nil =>
      rw [hops] at hyops
      cases hyops
      rw [htn] at hnx
      injection hnx with hnx; injection hnx with h1 h2
      injection h1 with h1
      subst h1; subst h2
      exact ⟨[], t3, w3.buf, .nil _, rfl, ht3, by rw [hty3, hty2, hnt], by rw [hv3, hv2]⟩
    | cons o os =>
      rw [hops] at hyops
      obtain ⟨bo, hto, hrest2⟩ := Yields.cons_inv hyops
      rw [hto] at hnx
      injection hnx with hnx; injection hnx with h1 h2
      injection h1 with h1
      subst h1; subst h2
      exact ⟨t3 :: os, p.name, bops, .cons ht3 hrest2, by simp [tvs, hty3, hty2, hv3, hv2], htn, hnt, rfl⟩
  obtain ⟨w4, t4, hi4, hs4, ht4, hty4, hv4⟩ := hpre w3 ops' bops' bmid nm' hmapeq hy' htn' (by rw [hnt']; decide)
  obtain ⟨w5, t5, hi5, hs5, ht5, hty5, hv5⟩ := step_tokenIf_miss env ["ELLIPSIS"] w4 t4 bmid ht4 (by rw [hty4, hnt']; decide)
  obtain ⟨w6, t6, hi6, hs6, ht6, hty6, hv6⟩ := step_tokenIf_miss env ["("] w5 t5 bmid ht5 (by rw [hty5, hty4, hnt']; decide)
  obtain ⟨w7, c7, hi7, hb7, hs7, _, hv7⟩ := step_tokenIf_hit env ["NAME", "final"] w6 t6 bmid ht6 (by rw [hty6, hty5, hty4, hnt']; decide)
  obtain ⟨w8, t8, hi8, hs8, ht8, hty8, hv8⟩ := step_tokenIf_miss env ["["] w7 sep b' (by rw [hb7]; exact htsep)
    (by rcases hsep with h | h <;> (rw [h]; decide))
  obtain ⟨w9, t9, hi9, hs9, ht9, hty9, hv9⟩ := step_tokenIf_miss env ["="] w8 t8 b' ht8
    (by rw [hty8]; rcases hsep with h | h <;> (rw [h]; decide))
  refine ⟨logged env w9 "parameter", t9, ?_, ?_, by rw [logged_buf']; exact ht9, by rw [hty9, hty8], by rw [hv9, hv8]⟩
  · have hc7v : c7.value = p.name.value := by rw [hv7, hv6, hv5, hv4, hnv']
    have hc1 : ¬ c1.type = "auto" := by rw [hty1, hft]; exact hnauto
    unfold parseParameterStep
    simp only [bind, interp_bind, pure, interp, hi1, hc1, ↓reduceIte, core_parseType, hi2, validate_empty]
    simp only [↓reduceIte, bind, interp_bind, hi3, pure, interp, parseCvPtr, core_parseCvPtrOrFn, hi4, hfn, Bool.false_eq_true,
      hi5, Option.isSome_none, hi6, hi7, Option.map_some, hi8, hi9, P.debugPrint, logged, hc7v, PItemG.param]
  · exact ((((((((hs1.butLog.trans hs2).trans hs3.butLog).trans hs4.butLog).trans hs5.butLog).trans hs6.butLog).trans hs7.butLog).trans
      hs8.butLog).trans hs9.butLog).trans (logged_butLog env w9 _)

/-- the tokens of a parameter list `p1 , … , pn )` -/
def plistToks (ps : List (PItemG × Tok)) (last : PItemG) (cp : Tok) : List Tok :=
  ps.flatMap (fun q => q.1.toks ++ [q.2]) ++ (last.toks ++ [cp])

/-- one iteration of the parameter loop on `p sep`, the first token of `p` arriving as a copy -/
theorem paramsBody_item_gen (env : Env) (F D : Nat) (p : PItemG) (hok : p.OK env F D) (sep : Tok)
    (f : Tok) (rest : List Tok) (hsp : p.spec = f :: rest) (f' : Tok) (hft : f'.type = f.type) (hfv : f'.value = f.value)
    (acc : List Param) (at0 : List TemplateParam) (w : World) (b1 b' : Buf)
    (hf : tokenEofOk env.cfg w.buf = .ok (some f', b1))
    (hy : Yields env.cfg b1 (rest ++ (p.ops ++ [p.name]) ++ [sep]) b') (hsep : sep.type = "," ∨ sep.type = ")") :
    ∃ (w' : World),
      interp env (paramsBody (core F (D + 1 + 1 + 1)) true (acc, at0)) w =
        (w', .ok (if sep.value = ")" then .inr (acc ++ [p.param], false, at0) else .inl (acc ++ [p.param], at0))) ∧
      SameButLog w w' ∧ w'.buf = b' := by
  obtain ⟨bmid, hy1, hy2⟩ := Yields.split hy
  have hts := Yields.single_inv hy2
  obtain ⟨f0, r0, hsp0, _, hnell, _⟩ := hok.first
  have hf0 : f0 = f := by rw [hsp] at hsp0; simp only [List.cons.injEq] at hsp0; exact hsp0.1.symm
  obtain ⟨w1, t1, hi1, hs1, ht1, hty1, hv1⟩ := step_tokenIf_miss env ["ELLIPSIS"] w f' b1 hf
    (by rw [hft, ← hf0]; simp [hnell])
  obtain ⟨w2, t2, hi2, hs2, ht2, hty2, hv2⟩ := parameter_gen env F D p hok f rest hsp t1 (hty1.trans hft) (hv1.trans hfv) sep w1 b1 bmid b'
    ht1 hy1 hts hsep
  obtain ⟨w3, c3, hi3, hb3, hs3, _, hv3⟩ := step_mustBe env [",", ")"] w2 t2 b' ht2
    (by rw [hty2]; rcases hsep with h | h <;> (rw [h]; decide))
  refine ⟨w3, ?_, (hs1.butLog.trans hs2).trans hs3.butLog, hb3⟩
  have hc3v : c3.value = sep.value := by rw [hv3, hv2]
  unfold paramsBody
  simp only [bind, interp_bind, hi1, core_parseParameter, hi2, hi3, hc3v, pure, interp]
  split <;> rfl

/-- the loop of `_parse_parameters` on `p1 , p2 , … , pn )`, the very first token arriving as a copy -/
theorem params_loop_gen (env : Env) (F D : Nat) :
    ∀ (ps : List (PItemG × Tok)) (last : PItemG) (cp : Tok) (acc : List Param) (at0 : List TemplateParam)
      (w : World) (b1 b' : Buf) (n : Nat) (f f' : Tok) (rest : List Tok),
    (∀ q ∈ ps, q.1.OK env F D ∧ q.2.type = "," ∧ q.2.value ≠ ")") →
    last.OK env F D → cp.type = ")" → cp.value = ")" →
    plistToks ps last cp = f :: rest → f'.type = f.type → f'.value = f.value →
    tokenEofOk env.cfg w.buf = .ok (some f', b1) → Yields env.cfg b1 rest b' → ps.length + 1 ≤ n →
    ∃ (w' : World),
      interp env (loopN n (acc, at0) (paramsBody (core F (D + 1 + 1 + 1)) true)) w =
        (w', .ok (acc ++ ps.map (fun q => q.1.param) ++ [last.param], false, at0)) ∧
      SameButLog w w' ∧ w'.buf = b' := by
  intro ps
  induction ps with
  | nil =>
    intro last cp acc at0 w b1 b' n f f' rest _ hlast hcp hcpv htoks hft hfv hf hy hn
    obtain ⟨f0, r0, hsp0, _⟩ := hlast.first
    simp only [plistToks, List.flatMap_nil, List.nil_append, PItemG.toks, hsp0, List.cons_append, List.cons.injEq] at htoks
    obtain ⟨rfl, rfl⟩ := htoks
    obtain ⟨k, rfl⟩ : ∃ k, n = k + 1 := ⟨n - 1, by omega⟩
    obtain ⟨w', hi, hs, hb⟩ := paramsBody_item_gen env F D last hlast cp f0 r0 hsp0 f' hft hfv acc at0 w b1 b' hf
      (by simpa [List.append_assoc] using hy) (.inr hcp)
    refine ⟨w', ?_, hs, hb⟩
    rw [loopN]
    simp only [bind, interp_bind, hi, hcpv, ↓reduceIte, pure, interp, List.map_nil, List.append_nil]
  | cons q qs ih =>
    intro last cp acc at0 w b1 b' n f f' rest hall hlast hcp hcpv htoks hft hfv hf hy hn
    obtain ⟨hqok, hqsep, hqv⟩ := hall q (by simp)
    obtain ⟨f0, r0, hsp0, _⟩ := hqok.first
    simp only [plistToks, List.flatMap_cons, PItemG.toks, hsp0, List.cons_append, List.append_assoc, List.cons.injEq] at htoks
    obtain ⟨rfl, rfl⟩ := htoks
    -- this parameter and its separator, then the rest of the list
    obtain ⟨bq, hy1, hy2⟩ := Yields.split (xs := r0 ++ (q.1.ops ++ [q.1.name]) ++ [q.2]) (by simpa [List.append_assoc] using hy)
    obtain ⟨k, rfl⟩ : ∃ k, n = k + 1 := ⟨n - 1, by omega⟩
    obtain ⟨w1, hi1, hs1, hb1⟩ := paramsBody_item_gen env F D q.1 hqok q.2 f0 r0 hsp0 f' hft hfv acc at0 w b1 bq hf hy1 (.inl hqsep)
    -- the next parameter's first token is read as written
    obtain ⟨g, grest, hg⟩ : ∃ g grest, plistToks qs last cp = g :: grest := by
      cases qs with
      | nil =>
        obtain ⟨g0, gr, hgs, _⟩ := hlast.first
        exact ⟨g0, gr ++ (last.ops ++ [last.name]) ++ [cp], by simp [plistToks, PItemG.toks, hgs]⟩
      | cons x xs =>
        obtain ⟨g0, gr, hgs, _⟩ := (hall x (by simp)).1.first
        exact ⟨g0, gr ++ (x.1.ops ++ [x.1.name]) ++ [x.2] ++ plistToks xs last cp, by simp [plistToks, PItemG.toks, hgs, List.append_assoc]⟩
    have hy2' : Yields env.cfg bq (g :: grest) b' := by
      rw [← hg]; simpa [plistToks, PItemG.toks, List.append_assoc] using hy2
    obtain ⟨bg, hgt, hyg⟩ := Yields.cons_inv hy2'
    obtain ⟨w', hi, hs, hb⟩ := ih last cp (acc ++ [q.1.param]) at0 w1 bg b' k g g grest (fun x hx => hall x (by simp [hx])) hlast hcp hcpv
      hg rfl rfl (by rw [hb1]; exact hgt) hyg (by simp at hn; omega)
    refine ⟨w', ?_, hs1.trans hs, hb⟩
    rw [loopN]
    simp only [bind, interp_bind, hi1, hqv, ↓reduceIte, hi, List.map_cons, List.append_assoc, List.singleton_append]

/-- **`_parse_parameters` on `p1 , p2 , … , pn )`** (after the `(`), n ≥ 1, every `pi` of the form
    `S prefix name`: the parameters, in order, each with its own name and the type ITS prefix denotes over the
    type ITS specifier denotes; no vararg; nothing dropped by the `void` rule; the stream is right after the `)` -/
theorem parseParameters_gen (env : Env) (F D : Nat) (ps : List (PItemG × Tok)) (last : PItemG) (cp : Tok)
    (w : World) (b' : Buf)
    (hall : ∀ q ∈ ps, q.1.OK env F D ∧ q.2.type = "," ∧ q.2.value ≠ ")")
    (hlast : last.OK env F D) (hcp : cp.type = ")") (hcpv : cp.value = ")")
    (hy : Yields env.cfg w.buf (plistToks ps last cp) b') (hF : ps.length + 1 ≤ F) :
    ∃ (w' : World),
      interp env (parseParametersStep F (core F (D + 1 + 1 + 1)) true) w =
        (w', .ok (ps.map (fun q => q.1.param) ++ [last.param], false, [])) ∧
      SameButLog w w' ∧ w'.buf = b' := by
  -- the first token of the list
  obtain ⟨f, rest, htoks, hnp⟩ : ∃ f rest, plistToks ps last cp = f :: rest ∧ f.type ≠ ")" := by
    cases ps with
    | nil =>
      obtain ⟨g0, gr, hgs, _, _, hnp⟩ := hlast.first
      exact ⟨g0, gr ++ (last.ops ++ [last.name]) ++ [cp], by simp [plistToks, PItemG.toks, hgs], hnp⟩
    | cons x xs =>
      obtain ⟨g0, gr, hgs, _, _, hnp⟩ := (hall x (by simp)).1.first
      exact ⟨g0, gr ++ (x.1.ops ++ [x.1.name]) ++ [x.2] ++ plistToks xs last cp, by simp [plistToks, PItemG.toks, hgs, List.append_assoc], hnp⟩
  rw [htoks] at hy
  obtain ⟨b1, hf, hyr⟩ := Yields.cons_inv hy
  -- the look-ahead for `)` pushes the first token back: the loop reads an equal one
  obtain ⟨w1, t1, hi1, hs1, ht1, hty1, hv1⟩ := step_tokenIf_miss env [")"] w f b1 hf (by simp [hnp])
  obtain ⟨w', hi, hs, hb⟩ := params_loop_gen env F D ps last cp [] [] w1 b1 b' F f t1 rest hall hlast hcp hcpv htoks hty1 hv1 ht1 hyr hF
  refine ⟨w', ?_, hs1.butLog.trans hs, hb⟩
  -- the `void` rule does not apply
  have hvoid : ∀ (convert : Bool), applyVoidOption convert (ps.map (fun q => q.1.param) ++ [last.param]) =
      ps.map (fun q => q.1.param) ++ [last.param] := by
    intro convert
    cases ps with
    | nil =>
      have := hlast.notVoid
      simp [applyVoidOption, PItemG.param, Param.type, this]
    | cons q qs =>
      cases hq : (qs.map (fun q => q.1.param) ++ [last.param]) with
      | nil => simp at hq
      | cons x xs => simp [applyVoidOption, hq]
  unfold parseParametersStep
  simp only [bind, interp_bind, hi1, hi, List.nil_append, P.getConvertVoid, interp, pure, hvoid]

end Cxx
