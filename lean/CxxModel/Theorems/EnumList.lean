/-
  Theorems/EnumList.lean — `_parse_enumerator_list` on enumerator lists of any length (C01,
  C14, C11): for every list `n1 [= v1] , n2 [= v2] , … }` whose values have no top-level `,`
  or `}`, read from any real stream state (comments, blank lines and doc blocks anywhere
  between the tokens), the routine returns one enumerator per item, in order, with the written
  name and with exactly the written value tokens (or no value), and leaves the stream right
  after the closing brace.
-/
import CxxModel.Theorems.SigEq
import CxxModel.Theorems.PtrChain
import CxxModel.Parser.Decl
namespace Cxx
open P

theorem interp_getDoxygen (env : Env) (w : World) :
    interp env P.getDoxygen w =
      match getDoxygen env.cfg env.mcRe w.buf with
      | .error e => (w, .error e)
      | .ok (d, b) => ({ w with buf := b }, .ok d) := by
  unfold P.getDoxygen
  simp only [interp, Bool.false_eq_true, ↓reduceIte]
  cases h : getDoxygen env.cfg env.mcRe w.buf with
  | error e => rfl
  | ok x => obtain ⟨d, b⟩ := x; rfl

theorem interp_getDoxygenAfter (env : Env) (w : World) :
    interp env P.getDoxygenAfter w =
      ({ w with buf := (getDoxygenAfter env.mcRe w.buf).2 }, .ok (getDoxygenAfter env.mcRe w.buf).1) := by
  unfold P.getDoxygenAfter
  simp only [interp, ↓reduceIte]

/-- what an enumerator says, without its documentation: name and value tokens -/
def Enumerator.nv (e : Enumerator) : String × Option (List (String × String)) :=
  (e.name, e.value.map (fun v => v.tokens.map (fun t => (t.type, t.value))))

/-- one written enumerator: its name token, `= value` if any, and the `,` or `}` after it -/
structure EItem where
  name : Tok
  val : Option (Tok × List Tok)
  sep : Tok

def EItem.rest (i : EItem) : List Tok :=
  (match i.val with
    | none => []
    | some (e, v) => e :: v) ++ [i.sep]

def EItem.toks (i : EItem) : List Tok := i.name :: i.rest

def EItem.nv (i : EItem) : String × Option (List (String × String)) :=
  (i.name.value, i.val.map (fun p => p.2.map Tok.tv))

structure EItem.OK (i : EItem) : Prop where
  nameTy : i.name.type = "NAME"
  nameVal : i.name.value ≠ "}"
  sepTy : i.sep.type = "," ∨ i.sep.type = "}"
  valOk : ∀ e v, i.val = some (e, v) → e.type = "=" ∧ TopLevel [",", "}"] (v.map (·.type))

/-- the head of an iteration: the doc block above is looked for (which never changes what is
    read next), then the name token is taken -/
theorem enumHead_ok (env : Env) (hp : RulesProgress env.cfg = true) (w : World) (nm : Tok) (rest : List Tok) (bEnd : Buf)
    (hy : Yields env.cfg w.buf (nm :: rest) bEnd) (hty : ["}", "NAME"].contains nm.type = true) :
    ∃ (w' : World) (d : Option String) (ct : CTok), interp env enumHead w = (w', .ok (d, ct)) ∧
      ct.value = nm.value ∧ ct.type = nm.type ∧ Yields env.cfg w'.buf rest bEnd ∧ SameParse w w' := by
  cases hy with
  | cons htok hrest =>
    rename_i b1
    obtain ⟨d, b0, hd⟩ := getDoxygen_ok env.cfg hp env.mcRe w.buf _ _ htok
    have hnext := getDoxygen_next env.cfg hp env.mcRe w.buf b0 d hd
    have htok0 : tokenEofOk env.cfg ({ w with buf := b0 } : World).buf = .ok (some nm, b1) := by
      simp only; rw [hnext]; exact htok
    have hho := handOut_same ({ ({ w with buf := b0 } : World) with buf := b1 } : World) nm
    obtain ⟨hs, hb, hty', hv'⟩ := hho
    refine ⟨_, d, _, ?_, hv', hty', by rw [hb]; exact hrest, ?_⟩
    · unfold enumHead
      simp only [bind, interp_bind, interp_getDoxygen, hd,
        interp_nextTokenMustBe_ok env ["}", "NAME"] ({ w with buf := b0 } : World) nm b1 htok0 hty, pure, interp]
    · exact ((SameParse.setBuf w b0).trans (SameParse.setBuf _ b1)).trans hs

/-- the trailing-comment decision leaves the token sequence alone -/
theorem enumDox_ok (env : Env) (dox : Option String) (w : World) (rest : List Tok) (bEnd : Buf)
    (hy : Yields env.cfg w.buf rest bEnd) :
    ∃ (w' : World) (d : Option String) (bEnd' : Buf), interp env (enumDox dox) w = (w', .ok d) ∧
      Yields env.cfg w'.buf rest bEnd' ∧ SigEq bEnd bEnd' ∧ SameParse w w' := by
  cases dox with
  | some d0 => exact ⟨w, some d0, bEnd, rfl, hy, SigEq.refl _, SameParse.refl w⟩
  | none =>
    obtain ⟨bEnd', hy', hs⟩ := Yields.sigEq hy (getDoxygenAfter_sigEq env.mcRe w.buf).symm
    exact ⟨{ w with buf := (getDoxygenAfter env.mcRe w.buf).2 }, (getDoxygenAfter env.mcRe w.buf).1, bEnd',
      by simp only [enumDox, interp_getDoxygenAfter], hy', hs, SameParse.setBuf w _⟩


/-- an enumerator without a value -/
theorem enumTail_plain (env : Env) (F : Nat) (values : List Enumerator) (name : String) (dox : Option String)
    (w : World) (sep : Tok) (more : List Tok) (bEnd : Buf)
    (hy : Yields env.cfg w.buf (sep :: more) bEnd) (hs : sep.type = "," ∨ sep.type = "}") :
    ∃ w', interp env (enumTail F values name dox) w =
        (w', .ok (if sep.type = "}" then .inr (values ++ [{ name := name, value := none, doxygen := dox }])
                  else .inl (values ++ [{ name := name, value := none, doxygen := dox }]))) ∧
      Yields env.cfg w'.buf more bEnd ∧ SameParse w w' := by
  cases hy with
  | cons htok hrest =>
    rename_i b1
    have hho := handOut_same ({ w with buf := b1 } : World) sep
    obtain ⟨hsp, hb, hty, _⟩ := hho
    have hin : ["}", ",", "=", "DBL_LBRACKET"].contains sep.type = true := by
      rcases hs with h | h <;> (rw [h]; decide)
    refine ⟨(({ w with buf := b1 } : World).handOut sep).2, ?_, by rw [hb]; exact hrest, (SameParse.setBuf w b1).trans hsp⟩
    unfold enumTail
    simp only [bind, interp_bind, interp_nextTokenMustBe_ok env _ w sep b1 htok hin, hty]
    rcases hs with h | h
    · simp [h, pure, interp]
    · simp [h, pure, interp]

/-- an enumerator with `= value` -/
theorem enumTail_value (env : Env) (F : Nat) (values : List Enumerator) (name : String) (dox : Option String)
    (w : World) (e : Tok) (v : List Tok) (sep : Tok) (more : List Tok) (bEnd : Buf)
    (hy : Yields env.cfg w.buf (e :: (v ++ sep :: more)) bEnd) (he : e.type = "=")
    (hv : TopLevel [",", "}"] (v.map (·.type))) (hs : sep.type = "," ∨ sep.type = "}") (hF : v.length + 2 ≤ F) :
    ∃ (w' : World) (val : Value), interp env (enumTail F values name dox) w =
        (w', .ok (if sep.type = "}" then .inr (values ++ [{ name := name, value := some val, doxygen := dox }])
                  else .inl (values ++ [{ name := name, value := some val, doxygen := dox }]))) ∧
      val.tokens.map (fun t => (t.type, t.value)) = v.map Tok.tv ∧
      Yields env.cfg w'.buf more bEnd ∧ SameParse w w' := by
  cases hy with
  | cons htok hrest =>
    rename_i b1
    have hho := handOut_same ({ w with buf := b1 } : World) e
    obtain ⟨hsp1, hb1, hty1, _⟩ := hho
    generalize hwA : (({ w with buf := b1 } : World).handOut e).2 = wA at *
    generalize hcA : (({ w with buf := b1 } : World).handOut e).1 = cA at *
    have hin1 : ["}", ",", "=", "DBL_LBRACKET"].contains e.type = true := by rw [he]; decide
    -- the value, then the separator
    have hrest' : Yields env.cfg wA.buf (v ++ sep :: more) bEnd := by rw [hb1]; exact hrest
    obtain ⟨bmid, hyv, hys⟩ := Yields.split hrest'
    cases hys with
    | cons htoks hmore =>
      rename_i b2
      have hterm : [",", "}"].contains sep.type = true := by rcases hs with h | h <;> (rw [h]; decide)
      obtain ⟨F', rfl⟩ : ∃ k, F = k + 1 := ⟨F - 1, by omega⟩
      obtain ⟨wB, res, t', hwB, hbB, ht', hspB, hres⟩ := consumeValueUntil_stops env [",", "}"] _ hv v rfl sep hterm F' F' []
        wA bmid b2 hyv htoks (by omega) (by omega)
      -- the separator was pushed back: it is read again
      have hnd : isDiscard t'.type = false := by
        have : t'.type = sep.type := by have := congrArg Prod.fst ht'; simpa [Tok.tv] using this
        rw [this]; rcases hs with h | h <;> (rw [h]; decide)
      have hpeek : tokenEofOk env.cfg wB.buf = .ok (some t', b2) := by
        rw [hbB]; exact tokenEofOk_returnToken env.cfg _ _ hnd
      have hho3 := handOut_same ({ wB with buf := b2 } : World) t'
      obtain ⟨hsp3, hb3, hty3, _⟩ := hho3
      have htty : t'.type = sep.type := by have := congrArg Prod.fst ht'; simpa [Tok.tv] using this
      have hin3 : ["}", ","].contains t'.type = true := by rw [htty]; rcases hs with h | h <;> (rw [h]; decide)
      refine ⟨(({ wB with buf := b2 } : World).handOut t').2, P.createValue res, ?_, ?_, by rw [hb3]; exact hmore, ?_⟩
      · unfold enumTail
        simp only [bind, interp_bind, interp_nextTokenMustBe_ok env _ w e b1 htok hin1, hwA, hcA]
        have hcty : cA.type = "=" := by rw [hty1, he]
        have hcv : interp env (P.consumeValueUntil (F' + 1) [] [",", "}"]) wA = (wB, .ok res) := hwB
        simp [hcty, interp_bind, hcv, interp_nextTokenMustBe_ok env _ wB t' b2 hpeek hin3, hty3, htty, pure, interp]
        rcases hs with h | h
        · simp [h, interp]
        · simp [h, interp]
      · simp only [P.createValue, List.map_map]
        simp only [List.map_nil, List.nil_append] at hres
        rw [← hres]
        simp [Function.comp_def, CTok.tv]
      · exact ((((SameParse.setBuf w b1).trans hsp1).trans hspB).trans (SameParse.setBuf wB b2)).trans hsp3


/-- **one enumerator**: from a stream that yields the item's tokens and then `more`, one
    iteration appends the enumerator; it ends the loop iff the separator was `}` -/
theorem enumBody_item (env : Env) (hp : RulesProgress env.cfg = true) (F : Nat) (values : List Enumerator) (i : EItem) (hi : i.OK)
    (more : List Tok) (w : World) (bEnd : Buf)
    (hy : Yields env.cfg w.buf (i.toks ++ more) bEnd) (hF : i.toks.length + 2 ≤ F) :
    ∃ (w' : World) (en : Enumerator) (bEnd' : Buf),
      interp env (enumBody F values) w =
        (w', .ok (if i.sep.type = "}" then .inr (values ++ [en]) else .inl (values ++ [en]))) ∧
      en.nv = i.nv ∧ Yields env.cfg w'.buf more bEnd' ∧ SigEq bEnd bEnd' ∧ SameParse w w' := by
  have hy' : Yields env.cfg w.buf (i.name :: (i.rest ++ more)) bEnd := by simpa [EItem.toks] using hy
  obtain ⟨w1, d, ct, h1, hcv, _, hy1, hs1⟩ := enumHead_ok env hp w i.name _ bEnd hy' (by rw [hi.nameTy]; decide)
  obtain ⟨w2, dox, bEnd', h2, hy2, hsig, hs2⟩ := enumDox_ok env d w1 _ bEnd hy1
  have hne : ¬ ct.value = "}" := by rw [hcv]; exact hi.nameVal
  cases hval : i.val with
  | none =>
    have hr : i.rest ++ more = i.sep :: more := by simp [EItem.rest, hval]
    rw [hr] at hy2
    obtain ⟨w3, h3, hy3, hs3⟩ := enumTail_plain env F values ct.value dox w2 i.sep more bEnd' hy2 hi.sepTy
    refine ⟨w3, { name := ct.value, value := none, doxygen := dox }, bEnd', ?_, ?_, hy3, hsig, (hs1.trans hs2).trans hs3⟩
    · unfold enumBody
      simp only [bind, interp_bind, h1, hne, ↓reduceIte, h2, h3]
    · simp [Enumerator.nv, EItem.nv, hval, hcv]
  | some p =>
    obtain ⟨e, v⟩ := p
    obtain ⟨he, hv⟩ := hi.valOk e v hval
    have hr : i.rest ++ more = e :: (v ++ i.sep :: more) := by simp [EItem.rest, hval]
    rw [hr] at hy2
    have hlen : v.length + 2 ≤ F := by
      have : i.toks.length = v.length + 3 := by simp [EItem.toks, EItem.rest, hval]
      omega
    obtain ⟨w3, val, h3, hvt, hy3, hs3⟩ := enumTail_value env F values ct.value dox w2 e v i.sep more bEnd' hy2 he hv hi.sepTy hlen
    refine ⟨w3, { name := ct.value, value := some val, doxygen := dox }, bEnd', ?_, ?_, hy3, hsig, (hs1.trans hs2).trans hs3⟩
    · unfold enumBody
      simp only [bind, interp_bind, h1, hne, ↓reduceIte, h2, h3]
    · simp [Enumerator.nv, EItem.nv, hval, hcv, hvt]

/-- the closing brace after a trailing comma (or of an empty list) -/
theorem enumBody_close (env : Env) (hp : RulesProgress env.cfg = true) (F : Nat) (values : List Enumerator) (cl : Tok)
    (more : List Tok) (w : World) (bEnd : Buf)
    (hy : Yields env.cfg w.buf (cl :: more) bEnd) (hty : cl.type = "}") (hv : cl.value = "}") :
    ∃ w', interp env (enumBody F values) w = (w', .ok (.inr values)) ∧ Yields env.cfg w'.buf more bEnd ∧ SameParse w w' := by
  obtain ⟨w1, d, ct, h1, hcv, _, hy1, hs1⟩ := enumHead_ok env hp w cl _ bEnd hy (by rw [hty]; decide)
  refine ⟨w1, ?_, hy1, hs1⟩
  unfold enumBody
  have : ct.value = "}" := by rw [hcv, hv]
  simp only [bind, interp_bind, h1, this, ↓reduceIte, pure, interp]

/-- the items before the last one: every separator is a comma -/
theorem enum_prefix (env : Env) (hp : RulesProgress env.cfg = true) (G : Nat) : ∀ (pre : List EItem) (values : List Enumerator)
    (more : List Tok) (w : World) (bEnd : Buf),
    (∀ i ∈ pre, i.OK ∧ i.sep.type = "," ∧ i.toks.length + 2 ≤ G) →
    Yields env.cfg w.buf (pre.flatMap EItem.toks ++ more) bEnd →
    ∃ (wmid : World) (vs : List Enumerator) (bEnd' : Buf), vs.map Enumerator.nv = pre.map EItem.nv ∧
      Yields env.cfg wmid.buf more bEnd' ∧ SigEq bEnd bEnd' ∧ SameParse w wmid ∧
      ∀ k, interp env (P.loopN (pre.length + k) values (enumBody G)) w =
           interp env (P.loopN k (values ++ vs) (enumBody G)) wmid := by
  intro pre
  induction pre with
  | nil =>
    intro values more w bEnd _ hy
    exact ⟨w, [], bEnd, rfl, by simpa using hy, SigEq.refl _, SameParse.refl w, by intro k; simp⟩
  | cons i rest ih =>
    intro values more w bEnd hall hy
    obtain ⟨hi, hsep, hG⟩ := hall i (by simp)
    have hy' : Yields env.cfg w.buf (i.toks ++ (rest.flatMap EItem.toks ++ more)) bEnd := by
      simpa [List.flatMap_cons, List.append_assoc] using hy
    obtain ⟨w1, en, bEnd1, h1, hnv, hy1, hsig1, hs1⟩ := enumBody_item env hp G values i hi _ w bEnd hy' hG
    have hnot : ¬ i.sep.type = "}" := by rw [hsep]; decide
    simp only [hnot, ↓reduceIte] at h1
    obtain ⟨wmid, vs, bEnd', hvs, hym, hsig2, hs2, hk⟩ := ih (values ++ [en]) more w1 bEnd1
      (fun j hj => hall j (by simp [hj])) hy1
    refine ⟨wmid, en :: vs, bEnd', by simp [hnv, hvs], hym, hsig1.trans hsig2, hs1.trans hs2, ?_⟩
    intro k
    have : (i :: rest).length + k = (rest.length + k) + 1 := by simp; omega
    rw [this, P.loopN]
    simp only [bind, interp_bind, h1]
    rw [hk k]
    simp [List.append_assoc]

/-- **enumerator lists ending `…, last }`** -/
theorem enumList_last (env : Env) (hp : RulesProgress env.cfg = true) (F : Nat) (pre : List EItem) (last : EItem)
    (more : List Tok) (w : World) (bEnd : Buf)
    (hall : ∀ i ∈ pre, i.OK ∧ i.sep.type = "," ∧ i.toks.length + 2 ≤ F)
    (hlast : last.OK ∧ last.sep.type = "}" ∧ last.toks.length + 2 ≤ F)
    (hy : Yields env.cfg w.buf ((pre ++ [last]).flatMap EItem.toks ++ more) bEnd) (hF : pre.length + 1 ≤ F) :
    ∃ (w' : World) (vs : List Enumerator) (bEnd' : Buf), interp env (parseEnumeratorList F) w = (w', .ok vs) ∧
      vs.map Enumerator.nv = (pre ++ [last]).map EItem.nv ∧
      Yields env.cfg w'.buf more bEnd' ∧ SigEq bEnd bEnd' ∧ SameParse w w' := by
  have hy' : Yields env.cfg w.buf (pre.flatMap EItem.toks ++ (last.toks ++ more)) bEnd := by
    simpa [List.flatMap_append, List.append_assoc] using hy
  obtain ⟨wmid, vs, bEnd1, hvs, hym, hsig1, hs1, hk⟩ := enum_prefix env hp F pre [] _ w bEnd hall hy'
  obtain ⟨w', en, bEnd', h2, hnv, hy2, hsig2, hs2⟩ := enumBody_item env hp F ([] ++ vs) last hlast.1 more wmid bEnd1 hym hlast.2.2
  simp only [hlast.2.1, ↓reduceIte] at h2
  refine ⟨w', [] ++ vs ++ [en], bEnd', ?_, by simp [hvs, hnv], hy2, hsig1.trans hsig2, hs1.trans hs2⟩
  unfold parseEnumeratorList
  obtain ⟨k, rfl⟩ : ∃ k, F = pre.length + (k + 1) := ⟨F - pre.length - 1, by omega⟩
  rw [hk (k + 1), P.loopN]
  simp only [bind, interp_bind, h2, pure, interp]

/-- **enumerator lists ending `…, }`** (trailing comma) and the empty list `}` -/
theorem enumList_trailing (env : Env) (hp : RulesProgress env.cfg = true) (F : Nat) (items : List EItem) (cl : Tok)
    (more : List Tok) (w : World) (bEnd : Buf)
    (hall : ∀ i ∈ items, i.OK ∧ i.sep.type = "," ∧ i.toks.length + 2 ≤ F)
    (hty : cl.type = "}") (hv : cl.value = "}")
    (hy : Yields env.cfg w.buf (items.flatMap EItem.toks ++ cl :: more) bEnd) (hF : items.length + 1 ≤ F) :
    ∃ (w' : World) (vs : List Enumerator) (bEnd' : Buf), interp env (parseEnumeratorList F) w = (w', .ok vs) ∧
      vs.map Enumerator.nv = items.map EItem.nv ∧
      Yields env.cfg w'.buf more bEnd' ∧ SigEq bEnd bEnd' ∧ SameParse w w' := by
  obtain ⟨wmid, vs, bEnd1, hvs, hym, hsig1, hs1, hk⟩ := enum_prefix env hp F items [] _ w bEnd hall hy
  obtain ⟨w', h2, hy2, hs2⟩ := enumBody_close env hp F ([] ++ vs) cl more wmid bEnd1 hym hty hv
  refine ⟨w', [] ++ vs, bEnd1, ?_, by simp [hvs], hy2, hsig1, hs1.trans hs2⟩
  unfold parseEnumeratorList
  obtain ⟨k, rfl⟩ : ∃ k, F = items.length + (k + 1) := ⟨F - items.length - 1, by omega⟩
  rw [hk (k + 1), P.loopN]
  simp only [bind, interp_bind, h2, pure, interp]

end Cxx
