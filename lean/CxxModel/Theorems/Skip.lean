/-
  Theorems/Skip.lean — helper lemmas for C05: a run in which some start callbacks return
  `False` is simulated by the run in which none does; the delivered stream of the former is
  `prune` of the latter.  Proved for every client program (`Prog`), by induction on it.
-/
import CxxModel.Interp
namespace Cxx

/-- One step of pruning the unskipped stream: `d` is the nesting depth inside a skipped
    block (0 = delivering). -/
def pruneStep (skip : Nat → BlockHdr → Bool) (st : Nat × List Event) (e : Event) : Nat × List Event :=
  match st with
  | (0, acc) =>
    match e.kind with
    | .blockStart => if skip e.stateId e.hdr then (1, acc ++ [e]) else (0, acc ++ [e])
    | _ => (0, acc ++ [e])
  | (d + 1, acc) =>
    match e.kind with
    | .blockStart => (d + 2, acc)
    | .blockEnd => (d, acc)
    | _ => (d + 1, acc)

def pruneState (skip : Nat → BlockHdr → Bool) (evs : List Event) : Nat × List Event :=
  evs.foldl (pruneStep skip) (0, [])

/-- The unskipped stream with, for every block whose start callback is in `skip`,
    everything after that start up to and including its end callback removed. -/
def prune (skip : Nat → BlockHdr → Bool) (evs : List Event) : List Event := (pruneState skip evs).2

theorem pruneState_snoc (skip : Nat → BlockHdr → Bool) (evs : List Event) (e : Event) :
    pruneState skip (evs ++ [e]) = pruneStep skip (pruneState skip evs) e := by
  simp [pruneState, List.foldl_append]

/-- monotone chain of saved visitors: outside muted implies inside muted -/
def chainOK : Bool → List Block → Prop
  | _, [] => True
  | m, b :: rest => (b.priorMuted = true → m = true) ∧ chainOK b.priorMuted rest

def countPrior : List Block → Nat
  | [] => 0
  | b :: rest => (if b.priorMuted then 1 else 0) + countPrior rest

/-- depth inside skipped blocks, read off the skip-run's world -/
def skipDepth (w : World) : Nat := if w.muted then countPrior w.stack + 1 else 0

/-- blocks agree except for the saved visitor -/
def blockSim (b b' : Block) : Prop :=
  b.id = b'.id ∧ b.hdr = b'.hdr ∧ b.loc = b'.loc ∧ b.access = b'.access ∧ b.isGlobal = b'.isGlobal ∧
  b'.priorMuted = false

def stackSim : List Block → List Block → Prop
  | [], [] => True
  | b :: r, b' :: r' => blockSim b b' ∧ stackSim r r'
  | _, _ => False

/-- simulation between the skipping run (`w`) and the run that skips nothing (`w'`) -/
structure SkipSim (skip : Nat → BlockHdr → Bool) (w w' : World) : Prop where
  buf : w.buf = w'.buf
  anon : w.anon = w'.anon
  nextId : w.nextId = w'.nextId
  sigLocs : w.sigLocs = w'.sigLocs
  curLocs : w.curLocs = w'.curLocs
  startLoc : w.startLoc = w'.startLoc
  mainTok : w.mainTok = w'.mainTok
  debugLog : w.debugLog = w'.debugLog
  stack : stackSim w.stack w'.stack
  unmuted : w'.muted = false
  chain : chainOK w.muted w.stack
  events : pruneState skip w'.events = (skipDepth w, w.events)

theorem stackSim_head {s s' : List Block} (h : stackSim s s') :
    s.head?.map (·.id) = s'.head?.map (·.id) := by
  cases s <;> cases s' <;> simp [stackSim] at h ⊢
  exact h.1.1

theorem blockSim_view {b b' : Block} (h : blockSim b b') : b.view = b'.view := by
  obtain ⟨h1, h2, _, h4, h5, _⟩ := h
  simp [Block.view, h1, h2, h4, h5]

theorem resolve_eq {skip : Nat → BlockHdr → Bool} {w w' : World} (h : SkipSim skip w w') (l : LocRef) :
    w.resolve l = w'.resolve l := by
  cases l <;> simp [World.resolve, h.sigLocs, h.curLocs, h.startLoc]

theorem toTok_eq {skip : Nat → BlockHdr → Bool} {w w' : World} (h : SkipSim skip w w') (c : CTok) :
    w.toTok c = w'.toTok c := by
  simp [World.toTok, resolve_eq h]

theorem mkEvent_eq {skip : Nat → BlockHdr → Bool} {w w' : World} (h : SkipSim skip w w')
    {b b' : Block} (hb : blockSim b b') (k : EventKind) (p : Option Nat) :
    mkEvent w k b p = mkEvent w' k b' p := by
  obtain ⟨h1, h2, h3, h4, _, _⟩ := hb
  simp [mkEvent, h1, h2, h3, h4, resolve_eq h]

end Cxx

namespace Cxx

def Env.noSkip (env : Env) : Env := { env with skip := fun _ _ => false }

end Cxx

namespace Cxx

theorem skipDepth_zero_iff (w : World) : skipDepth w = 0 ↔ w.muted = false := by
  unfold skipDepth; cases w.muted <;> simp

/-- delivering a non-block event preserves the simulation -/
theorem sim_deliver_item {skip : Nat → BlockHdr → Bool} {env : Env} (hf : env.faultAt = none)
    {w w' : World} (h : SkipSim skip w w') (e : Event)
    (hk : ∀ d acc, pruneStep skip (d + 1, acc) e = (d + 1, acc))
    (hk0 : ∀ acc, pruneStep skip (0, acc) e = (0, acc ++ [e])) :
    SkipSim skip (deliver env w e).1 (deliver env.noSkip w' e).1 ∧
    (deliver env w e).2 = none ∧ (deliver env.noSkip w' e).2 = none := by
  have hu := h.unmuted
  have hev := h.events
  refine ⟨?_, ?_, ?_⟩
  · cases hm : w.muted with
    | true =>
      have hd : skipDepth w = countPrior w.stack + 1 := by simp [skipDepth, hm]
      constructor <;> simp [deliver, hm, hu, Env.noSkip, hf, h.buf, h.anon, h.nextId, h.sigLocs, h.curLocs,
        h.startLoc, h.mainTok, h.debugLog, h.stack]
      · simpa [hm] using h.chain
      · rw [pruneState_snoc, hev, hd, hk]
    | false =>
      have hd : skipDepth w = 0 := by simp [skipDepth, hm]
      constructor <;> simp [deliver, hm, hu, Env.noSkip, hf, h.buf, h.anon, h.nextId, h.sigLocs, h.curLocs,
        h.startLoc, h.mainTok, h.debugLog, h.stack]
      · simpa [hm] using h.chain
      · rw [pruneState_snoc, hev, hd, hk0]; simp [skipDepth]
  · simp only [deliver]; split <;> simp [hf]
  · simp [deliver, hu, Env.noSkip, hf]

end Cxx

namespace Cxx

@[simp] theorem noSkip_cfg (env : Env) : env.noSkip.cfg = env.cfg := rfl
@[simp] theorem noSkip_mcRe (env : Env) : env.noSkip.mcRe = env.mcRe := rfl
@[simp] theorem noSkip_opts (env : Env) : env.noSkip.opts = env.opts := rfl
@[simp] theorem noSkip_faultAt (env : Env) : env.noSkip.faultAt = env.faultAt := rfl
@[simp] theorem noSkip_skip (env : Env) (i : Nat) (h : BlockHdr) : env.noSkip.skip i h = false := rfl

/-- updating only fields on which the two runs agree keeps them in simulation -/
theorem SkipSim.upd {skip : Nat → BlockHdr → Bool} {w w' : World} (h : SkipSim skip w w')
    (buf : Buf) (anon : Nat) (sigLocs curLocs : List Location) (mainTok : Option CTok) (debugLog : List String) :
    SkipSim skip
      { w with buf := buf, anon := anon, sigLocs := sigLocs, curLocs := curLocs, mainTok := mainTok, debugLog := debugLog }
      { w' with buf := buf, anon := anon, sigLocs := sigLocs, curLocs := curLocs, mainTok := mainTok, debugLog := debugLog } := by
  constructor <;> simp [h.nextId, h.startLoc, h.stack, h.unmuted]
  · exact h.chain
  · simpa [skipDepth] using h.events

theorem stackSim_cons_inv {b : Block} {r s' : List Block} (h : stackSim (b :: r) s') :
    ∃ b' r', s' = b' :: r' ∧ blockSim b b' ∧ stackSim r r' := by
  cases s' with
  | nil => simp [stackSim] at h
  | cons b' r' => exact ⟨b', r', rfl, h.1, h.2⟩

theorem stackSim_nil_inv {s' : List Block} (h : stackSim [] s') : s' = [] := by
  cases s' with
  | nil => rfl
  | cons b' r' => simp [stackSim] at h

end Cxx
