/-
  Theorems/UsingDeclForm.lean — the whole declaration `using n1 :: … :: nk ;` (C01, C03): after
  `using` has been dispatched, `_parse_using` on a plain qualified name followed by `;` is
  exactly: record the location of the `using` token on the innermost block, deliver ONE
  `on_using_declaration` carrying the written name, the access level of the innermost class
  (none outside a class) and the doc text, then require the `;` — for names of any length.
-/
import CxxModel.Theorems.PqName
import CxxModel.Theorems.ExternForm
namespace Cxx
open P

theorem logged_stack (env : Env) (w : World) (m : String) : (logged env w m).stack = w.stack := by
  unfold logged; split <;> rfl

theorem logged_buf (env : Env) (w : World) (m : String) : (logged env w m).buf = w.buf := by
  unfold logged; split <;> rfl

theorem using_declaration_decl (env : Env) (F D : Nat) (tok : CTok) (doxygen : Option String)
    (first : Tok) (pairs : List (Tok × Tok)) (semi : Tok) (w : World) (bmid b' : Buf)
    (blk : Block) (rest : List Block) (hstack : w.stack = blk :: rest)
    (hf : first.type = "NAME") (hfv : plainVal first.value = true) (hfc : Gen.nameCompoundStart.contains first.value = false)
    (hall : ∀ p ∈ pairs, p.1.type = "DBL_COLON" ∧ p.2.type = "NAME" ∧ plainVal p.2.value = true)
    (hsemi : semi.type = ";")
    (hy : Yields env.cfg w.buf (first :: pairs.flatMap (fun p => [p.1, p.2])) bmid)
    (htok : tokenEofOk env.cfg bmid = .ok (some semi, b')) (hF : pairs.length + 1 ≤ F) :
    ∃ (w' : World) (t' : Tok), SameParse { w with stack := { blk with loc := .tok tok.sidx } :: rest } w' ∧
      tokenEofOk env.cfg w'.buf = .ok (some t', b') ∧ t'.type = ";" ∧
      interp env (parseUsing F (core F (D + 1)) tok doxygen none) w =
        interp env (do
          P.emit (.usingDeclaration {
            typename := .mk (.name first.value none :: pairs.map (fun p => .name p.2.value none)) none false,
            access := if blk.hdr.kind = .cls then blk.access else none, doxygen := doxygen })
          let _ ← nextTokenMustBe [";"]
          pure ()) (logged env w' "parse_pqname") := by
  cases hy with
  | cons htok1 hrest =>
    rename_i b1
    obtain ⟨w1, c1, hi1, hb1, hs1, hty1, hv1⟩ := step_mustBe env ["NAME", "DBL_COLON", "namespace", "typename", "enum"]
      { w with stack := { blk with loc := .tok tok.sidx } :: rest } first b1 htok1 (by rw [hf]; decide)
    -- the look-ahead for `=` pushes the next token back; the name is then read from an equal stream
    have key : ∃ (w2 : World) (pairs' : List (Tok × Tok)) (bm2 : Buf) (semi' : Tok),
        interp env (P.tokenIf ["="]) w1 = (w2, .ok none) ∧ SameParse w1 w2 ∧
        (∀ p ∈ pairs', p.1.type = "DBL_COLON" ∧ p.2.type = "NAME" ∧ plainVal p.2.value = true) ∧
        Yields env.cfg w2.buf (pairs'.flatMap (fun p => [p.1, p.2])) bm2 ∧
        tokenEofOk env.cfg bm2 = .ok (some semi', b') ∧ semi'.type = ";" ∧
        pairs'.map (fun p => PQSeg.name p.2.value none) = pairs.map (fun p => PQSeg.name p.2.value none) ∧
        pairs'.length = pairs.length := by
      cases pairs with
      | nil =>
        simp only [List.flatMap_nil] at hrest
        cases hrest
        obtain ⟨w2, t2, hi2, hs2, ht2, hty2, _⟩ := step_tokenIf_miss env ["="] w1 semi b' (by rw [hb1]; exact htok) (by rw [hsemi]; decide)
        exact ⟨w2, [], w2.buf, t2, hi2, hs2, by simp, .nil _, ht2, by rw [hty2, hsemi], rfl, rfl⟩
      | cons p r =>
        obtain ⟨hp1, hp2, hp3⟩ := hall p (by simp)
        simp only [List.flatMap_cons, List.cons_append, List.nil_append] at hrest
        cases hrest with
        | cons htokA hrestA =>
          rename_i bA
          obtain ⟨w2, t2, hi2, hs2, ht2, hty2, _⟩ := step_tokenIf_miss env ["="] w1 p.1 bA (by rw [hb1]; exact htokA) (by rw [hp1]; decide)
          refine ⟨w2, (t2, p.2) :: r, bmid, semi, hi2, hs2, ?_, ?_, htok, hsemi, by simp, by simp⟩
          · intro q hq
            simp only [List.mem_cons] at hq
            rcases hq with rfl | hq
            · exact ⟨by rw [hty2, hp1], hp2, hp3⟩
            · exact hall q (by simp [hq])
          · simp only [List.flatMap_cons, List.cons_append, List.nil_append]
            exact .cons ht2 hrestA
    obtain ⟨w2, pairs', bm2, semi', hi2, hs2, hall', hy', htok', hsemi', hmap, hlen⟩ := key
    obtain ⟨w', t', hpq, hs', ht', hty', _⟩ := plain_pqname env F (core F D) true true true c1 pairs' w2 bm2 b' semi'
      (hty1.trans hf) (by rw [hv1]; exact hfv) (by rw [hv1]; exact hfc) hall' hy' htok' (by rw [hsemi']; decide)
      (by rw [hsemi']; decide) (by rw [hlen]; exact hF)
    refine ⟨w', t', (hs1.trans hs2).trans hs', ht', by rw [hty', hsemi'], ?_⟩
    have hst : (logged env w' "parse_pqname").stack = { blk with loc := .tok tok.sidx } :: rest := by
      rw [logged_stack, hs'.stack, hs2.stack, hs1.stack]
    have htop := interp_getTop env (logged env w' "parse_pqname") _ rest hst
    have hc1 : c1.type = "NAME" := hty1.trans hf
    unfold parseUsing P.setLoc
    simp only [bind, interp_bind, interp, hstack, hi1, hc1, (by decide : ("NAME" = "namespace") = False), ↓reduceIte,
      (by decide : ("NAME" = "DBL_COLON") = False), (by decide : ("NAME" = "typename") = False), Bool.or_self,
      decide_false, Bool.false_eq_true, hi2, Option.isNone_none, pure, Option.isSome_none,
      parseUsingDeclaration, core, coreStep, hpq, hmap, hv1, currentAccess, htop, Block.view]

end Cxx
