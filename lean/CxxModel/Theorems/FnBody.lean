/-
  Theorems/FnBody.lean — function DEFINITIONS (C01, C13): `T ptr-ops f ( parameters ) { body }` with ANY bracket-balanced
  body delivers exactly ONE `on_function` with `has_body` set; the body is skipped exactly (the stream resumes right after
  its closing brace) and no `;` is expected.
-/
import CxxModel.Theorems.FnDecl
import CxxModel.Props.C13
import CxxModel.Theorems.FnGen
import CxxModel.Theorems.MethodDecl
namespace Cxx
open P

/-- the end of a function declaration at a body: skipped exactly, `has_body` set -/
theorem parseFnEnd_body (env : Env) (F : Nat) (c : Core) (fn : Function) (w : World) (ob : Tok) (content : List Tok) (cb : Tok) (bb b' : Buf)
    (htok : tokenEofOk env.cfg w.buf = .ok (some ob, bb)) (hob : ob.type = "{")
    (hbal : Balanced "{" "}" content) (hcb : cb.type = "}") (hy : Yields env.cfg bb (content ++ [cb]) b') (hF : content.length + 1 ≤ F) :
    ∃ (w' : World), interp env (parseFnEnd (F + 1) c fn) w = (w', .ok { fn with hasBody := true }) ∧ SameParse w w' ∧ w'.buf = b' := by
  obtain ⟨w1, t1, hi1, hs1, ht1, hty1, _⟩ := step_tokenIf_miss env ["throw"] w ob bb htok (by rw [hob]; decide)
  obtain ⟨w2, t2, hi2, hs2, ht2, hty2, _⟩ := step_tokenIf_miss env ["noexcept"] w1 t1 bb ht1 (by rw [hty1, hob]; decide)
  obtain ⟨w3, t3, hi3, hs3, ht3, hty3, _⟩ := step_tokenIf_miss env ["requires"] w2 t2 bb ht2 (by rw [hty2, hty1, hob]; decide)
  obtain ⟨w4, t4, hi4, hs4, ht4, hty4, _⟩ := step_tokenIf_miss env ["ARROW"] w3 t3 bb ht3 (by rw [hty3, hty2, hty1, hob]; decide)
  obtain ⟨w5, c5, hi5, hb5, hs5, _, _⟩ := step_tokenIf_hit env ["{"] w4 t4 bb ht4 (by rw [hty4, hty3, hty2, hty1, hob]; decide)
  obtain ⟨w6, hi6, hb6, hs6⟩ := C13_discard_resumes env "{" "}" (by decide) content cb hbal hcb w5 b' F (by rw [hb5]; exact hy) hF
  refine ⟨w6, ?_, ((((hs1.trans hs2).trans hs3).trans hs4).trans hs5).trans hs6, hb6⟩
  unfold parseFnEnd
  simp only [bind, interp_bind, hi1, Option.isSome_none, Bool.false_eq_true, ↓reduceIte, hi2, hi3, pure, interp, hi4, hi5,
    Option.isSome_some, hi6]

/-- **one declarator `ptr-ops f ( parameters )` and the `;` after it, outside a class**, with an active
    visitor that does not raise here, for any parameter list `_parse_parameters` decodes to `plist`
    (hypothesis `hparams`; `parseParameters_plain` provides it for plain parameters): exactly ONE
    callback `on_function` for the innermost open block carrying exactly those parameters -/
theorem declarator_function_body (env : Env) (F D : Nat) (pt : DType) (location : LocRef) (doxygen : Option String)
    (ops : List Tok) (f op ob : Tok) (content : List Tok) (cb : Tok) (plist : List Param) (d1 : DType) (w : World) (bmid bf bo bc bb b' : Buf)
    (blk : Block) (rest : List Block) (hstack : w.stack = blk :: rest) (hk : blk.hdr.kind ≠ .cls)
    (hmu : w.muted = false) (hfa : ¬ env.faultAt = some w.delivered)
    (hpt : isFnType pt = false)
    (hy : Yields env.cfg w.buf ops bmid) (ha : applyPtrOps pt (ops.map (·.type)) = some d1)
    (htf : tokenEofOk env.cfg bmid = .ok (some f, bf)) (hf : f.type = "NAME") (hfv : identVal f.value = true)
    (hto : tokenEofOk env.cfg bf = .ok (some op, bo)) (hop : op.type = "(")
    (hparams : ∀ W : World, W.buf = bo → ∃ w7, interp env (parseParametersStep (F + 1) (core (F + 1) D) true) W = (w7, .ok (plist, false, [])) ∧
      SameButLog W w7 ∧ w7.buf = bc)
    (htb : tokenEofOk env.cfg bc = .ok (some ob, bb)) (hob : ob.type = "{")
    (hbal : Balanced "{" "}" content) (hcb : cb.type = "}") (hyb : Yields env.cfg bb (content ++ [cb]) b')
    (hF : ops.length + 1 ≤ F + 1) (hFb : content.length + 1 ≤ F) :
    ∃ (w7 : World) (ev : Event),
      interp env (declaratorBody (F + 1) (core (F + 1) (D + 1)) pt {} .none false false (location, doxygen)) w = (w7, .ok (.inr ())) ∧
      w7.buf = b' ∧ w7.stack = { blk with loc := location } :: rest ∧
      w7.events = w.events ++ [ev] ∧ ev.kind = .item (.function { plainFunction f d1 doxygen with parameters := plist, hasBody := true }) ∧
      ev.stateId = blk.id ∧ ev.parentId = rest.head?.map (·.id) ∧
      w7.delivered = w.delivered + 1 ∧ w7.anon = w.anon ∧ w7.muted = false ∧ w7.nextId = w.nextId ∧
      w7.mainTok = w.mainTok := by
  simp only [identVal, Bool.and_eq_true, Bool.not_eq_true', bne_iff_ne, ne_eq] at hfv
  obtain ⟨⟨⟨hpv, hnc⟩, hms⟩, _⟩ := hfv
  -- the pointer chain and the name
  obtain ⟨w1, t1, hi1, hb1, htv1, hs1⟩ := cvPtr_chain env (core (F + 1) D) false ops pt d1 (F + 1) w bmid bf f hy ha htf
    (by rw [hf]; decide) hF
  have hty1 : t1.type = f.type := congrArg Prod.fst htv1
  have hv1 : t1.value = f.value := congrArg Prod.snd htv1
  have ht1 : tokenEofOk env.cfg w1.buf = .ok (some t1, bf) := by
    rw [hb1]; exact tokenEofOk_returnToken env.cfg t1 bf (by rw [hty1]; exact tokenEofOk_not_discard htf)
  have hfn := applyPtrOps_notFn _ pt d1 hpt ha
  have htop1 := interp_getTop env w1 blk rest (by rw [hs1.stack]; exact hstack)
  obtain ⟨w2, t2, hi2, hs2, ht2, hty2, hv2⟩ := step_tokenIf_miss env ["("] w1 t1 bf ht1 (by rw [hty1, hf]; decide)
  obtain ⟨w3, t3, hi3, hs3, ht3, hty3, hv3⟩ := step_tokenIfP_miss env (fun t => Gen.msvcConventions.contains t.value) w2 t2 bf ht2
    (by intro c _ hcv; show Gen.msvcConventions.contains c.value = false; rw [hcv, hv2, hv1]; exact hms)
  obtain ⟨w4, c4, hi4, hb4, hs4, hty4, hv4⟩ := step_tokenIfP_hit env (fun t => Gen.pqnameStartTokens.contains t.type) w3 t3 bf ht3
    (by intro c hct _; show Gen.pqnameStartTokens.contains c.type = true; rw [hct, hty3, hty2, hty1, hf]; decide)
  have hc4v : c4.value = f.value := by rw [hv4, hv3, hv2, hv1]
  obtain ⟨w5, t5, hpq, hs5, ht5, hty5, _⟩ := plain_pqname env (F + 1) (core (F + 1) D) true false false c4 [] w4 bf bo op
    (by rw [hty4, hty3, hty2, hty1, hf]) (by rw [hc4v]; exact hpv) (by rw [hc4v]; exact hnc) (by simp)
    (by rw [hb4]; exact .nil _) hto (by rw [hop]; decide) (by rw [hop]; decide) (by simp)
  -- `(`, the parameters, the end
  obtain ⟨w6, c6, hi6, hb6, hs6, _, _⟩ := step_tokenIf_hit env ["("] (logged env w5 "parse_pqname") t5 bo
    (by rw [logged_buf']; exact ht5) (by rw [hty5, hop]; decide)
  have hsl6 : SameButLog w w6 := (((((hs1.trans hs2).trans hs3).trans hs4).trans hs5).butLog.trans (logged_butLog env w5 _)).trans hs6.butLog
  have hst6 : w6.stack = blk :: rest := by rw [hsl6.stack]; exact hstack
  have htop6 := interp_getTop env { w6 with stack := { blk with loc := location } :: rest } { blk with loc := location } rest rfl
  obtain ⟨w7, hi7, hs7, hb7⟩ := hparams { w6 with stack := { blk with loc := location } :: rest } hb6
  obtain ⟨w8, hi8, hs8, hb8⟩ := parseFnEnd_body env F (core (F + 1) (D + 1)) { plainFunction f d1 doxygen with parameters := plist } w7 ob content cb bb b'
    (by rw [hb7]; exact htb) hob hbal hcb hyb hFb
  have hst8 : w8.stack = { blk with loc := location } :: rest := by rw [hs8.stack, hs7.stack]
  have hmu8 : w8.muted = false := by rw [hs8.muted, hs7.muted]; show w6.muted = _; rw [hsl6.muted]; exact hmu
  have hdl8 : w8.delivered = w.delivered := by rw [hs8.delivered, hs7.delivered]; exact hsl6.delivered
  have hev8 : w8.events = w.events := by rw [hs8.events, hs7.events]; exact hsl6.events
  have hdel := deliver_passing env w8 (mkEvent w8 (.item (.function { plainFunction f d1 doxygen with parameters := plist, hasBody := true }))
    { blk with loc := location } (rest.head?.map (·.id))) hmu8 (by rw [hdl8]; exact hfa)
  refine ⟨{ w8 with events := w8.events ++ [(mkEvent w8 (.item (.function { plainFunction f d1 doxygen with parameters := plist, hasBody := true }))
    { blk with loc := location } (rest.head?.map (·.id)))], delivered := w8.delivered + 1 }, (mkEvent w8 (.item (.function { plainFunction f d1 doxygen with parameters := plist, hasBody := true }))
    { blk with loc := location } (rest.head?.map (·.id))), ?_, hb8, hst8, by show w8.events ++ _ = _; rw [hev8], rfl, rfl, rfl,
    by show w8.delivered + 1 = _; rw [hdl8], ?_, hmu8, ?_, ?_⟩
  · have hk' : ¬ blk.hdr.kind = .cls := hk
    have hi8' := hi8
    simp only [plainFunction] at hi8'
    unfold declaratorBody parseDecl parseCvPtr parseFunction
    simp only [bind, interp_bind, core_parseCvPtrOrFn, core_parsePqname, core_parseParameters, hi1, hfn, Bool.false_eq_true, ↓reduceIte,
      pure, interp, htop1, hi2, Option.isSome_some, Option.isSome_none, P.tokenIfVal, P.tokenIfInSet, hi3, hi4, hpq, List.map_nil, hc4v,
      hi6, PQName.segments, List.getLast?_singleton, Option.map_some, isNameSeg, Option.getD_some, Bool.not_true, P.setLoc, hst6, htop6,
      hi7, List.isEmpty_nil, Block.view, hk', decide_false, Bool.false_or, List.length_singleton,
      (by decide : ¬ (1 > 1)), Bool.false_and, hasKey, List.any_nil, Option.map_none, hi8', P.emit, hst8, plainFunction] at hdel ⊢
    simp only [hdel, Bool.true_or, Bool.or_true, ↓reduceIte, bind, interp_bind, pure, interp]
  · show w8.anon = _; rw [hs8.anon, hs7.anon]; exact hsl6.anon
  · show w8.nextId = _; rw [hs8.nextId, hs7.nextId]; exact hsl6.nextId
  · show w8.mainTok = _; rw [hs8.mainTok, hs7.mainTok]; exact hsl6.mainTok


/-! ### through `_parse_declarations` and `parse()`'s loop, over any return-type specifier and any decoded parameter list -/

theorem parseDeclarations_function_body_gen (env : Env) (F D : Nat) (tok : CTok) (doxygen : Option String)
    (toks : List Tok) (f : Tok) (trest : List Tok) (segs : List PQSeg) (cst vol : Bool) (ops : List Tok) (x op : Tok) (plist : List Param) (ob : Tok) (content : List Tok) (cb : Tok) (d1 : DType) (w : World) (b0 bmid bx bo bc bb b' : Buf)
    (blk : Block) (rest : List Block) (hstack : w.stack = blk :: rest) (hk : blk.hdr.kind ≠ .cls)
    (hmu : w.muted = false) (hfa : ¬ env.faultAt = some w.delivered)
    (hspec : TypeSpecR env (F + 1) (D + 1 + 1) toks segs cst vol) (htoks : toks = f :: trest)
    (hty : tok.type = f.type) (htv : tok.value = f.value)
    (hy0 : Yields env.cfg w.buf trest b0)
    (hops : opsHeadOk ops = true) (hopsv : ∀ o ∈ ops, o.value ≠ "auto")
    (hy : Yields env.cfg b0 ops bmid)
    (ha : applyPtrOps (.type (.mk segs none false) cst vol) (ops.map (·.type)) = some d1)
    (htx : tokenEofOk env.cfg bmid = .ok (some x, bx)) (hx : x.type = "NAME") (hxv : identVal x.value = true)
    (hto : tokenEofOk env.cfg bx = .ok (some op, bo)) (hop : op.type = "(")
    (hparams : ∀ W : World, W.buf = bo → ∃ w7, interp env (parseParametersStep (F + 1) (core (F + 1) (D + 1 + 1 + 1)) true) W = (w7, .ok (plist, false, [])) ∧
      SameButLog W w7 ∧ w7.buf = bc)
    (htb : tokenEofOk env.cfg bc = .ok (some ob, bb)) (hob : ob.type = "{")
    (hbal : Balanced "{" "}" content) (hcb : cb.type = "}") (hyb : Yields env.cfg bb (content ++ [cb]) b')
    (hF : ops.length + 2 ≤ F + 1) (hFb : content.length + 1 ≤ F) :
    ∃ (w7 : World) (ev : Event),
      interp env (parseDeclarations (F + 1) (core (F + 1) (D + 1 + 1 + 1 + 1)) tok doxygen) w = (w7, .ok ()) ∧
      w7.buf = b' ∧ w7.stack = { blk with loc := .tok tok.sidx } :: rest ∧
      w7.events = w.events ++ [ev] ∧ ev.kind = .item (.function { plainFunction x d1 doxygen with
        parameters := plist, hasBody := true }) ∧
      ev.stateId = blk.id ∧ ev.parentId = rest.head?.map (·.id) ∧
      w7.delivered = w.delivered + 1 ∧ w7.anon = w.anon ∧ w7.muted = false ∧ w7.nextId = w.nextId ∧
      w7.mainTok = w.mainTok := by
  have hxauto : x.value ≠ "auto" := by
    have := hxv
    simp only [identVal, Bool.and_eq_true, Bool.not_eq_true', bne_iff_ne, ne_eq] at this
    exact this.2
  -- the token after the type name: the first pointer operator, or the name
  obtain ⟨nx, bnx, hnx, hnxstop, hnxauto⟩ : ∃ (nx : Tok) (bnx : Buf), tokenEofOk env.cfg b0 = .ok (some nx, bnx) ∧
      declStart nx.type = true ∧ nx.value ≠ "auto" := by
    cases ops with
    | nil =>
      cases hy
      exact ⟨x, bx, htx, by rw [hx]; decide, hxauto⟩
    | cons o os =>
      cases hy with
      | cons hto _ =>
        have ho : o.type = "*" := by simpa [opsHeadOk] using hops
        exact ⟨o, _, hto, by rw [ho]; decide, hopsv o (by simp)⟩
  obtain ⟨w1, t1, hi1, hs1, ht1, hty1, hv1⟩ := hspec true tok f trest w b0 bnx nx htoks hty htv hy0 hnx hnxstop
  obtain ⟨w2, t2, hi2, hs2, ht2, hty2, hv2⟩ := step_tokenIfP_miss env (fun t => ["auto"].contains t.value) w1 t1 bnx ht1
    (by intro c _ hcv; show ["auto"].contains c.value = false; rw [hcv, hv1]; simp [hnxauto])
  have hsl2 : SameButLog w w2 := hs1.trans hs2.butLog
  have htop2 := interp_getTop env w2 blk rest (by rw [hsl2.stack]; exact hstack)
  -- the stream seen by the declarator loop: the pushed-back copy of `nx`, then as given
  obtain ⟨ops', x', bmid', hy', hmapeq, hlen, htx', hx', hxv'⟩ : ∃ (ops' : List Tok) (x' : Tok) (bmid' : Buf),
      Yields env.cfg w2.buf ops' bmid' ∧ ops'.map (·.type) = ops.map (·.type) ∧ ops'.length = ops.length ∧
      tokenEofOk env.cfg bmid' = .ok (some x', bx) ∧ x'.type = "NAME" ∧ x'.value = x.value := by
    cases ops with
    | nil =>
      cases hy
      rw [htx] at hnx
      injection hnx with hnx; injection hnx with h1 h2
      injection h1 with h1
      subst h1; subst h2
      exact ⟨[], t2, w2.buf, .nil _, rfl, rfl, ht2, by rw [hty2, hty1, hx], by rw [hv2, hv1]⟩
    | cons o os =>
      cases hy with
      | cons hto hrest =>
        rw [hto] at hnx
        injection hnx with hnx; injection hnx with h1 h2
        injection h1 with h1
        subst h1; subst h2
        exact ⟨t2 :: os, x, bmid, .cons ht2 hrest, by simp [hty2, hty1], by simp, htx, hx, rfl⟩
  obtain ⟨w7, ev, hi7, hsig, hst7, hev7, hk7, hid7, hpar7, hdl7, han7, hmu7, hnx7, hmt7⟩ :=
    declarator_function_body env F (D + 1 + 1 + 1) _ (.tok tok.sidx) doxygen ops' x' op ob content cb
      plist d1 w2 bmid' bx bo bc bb b' blk rest
      (by rw [hsl2.stack]; exact hstack) hk (by rw [hsl2.muted]; exact hmu) (by rw [hsl2.delivered]; exact hfa) rfl hy'
      (by rw [hmapeq]; exact ha) htx' hx' (by rw [hxv']; exact hxv) hto hop
      hparams
      htb hob hbal hcb hyb (by rw [hlen]; omega) hFb
  refine ⟨w7, ev, ?_, hsig, hst7, by rw [hev7, hsl2.events], ?_, hid7, hpar7, by rw [hdl7, hsl2.delivered],
    by rw [han7, hsl2.anon], hmu7, by rw [hnx7, hsl2.nextId], by rw [hmt7, hsl2.mainTok]⟩
  · unfold parseDeclarations
    simp only [bind, interp_bind, core_parseType, hi1, Option.bind, typenameOf, strTruthy, PQName.classkey, Bool.false_eq_true, ↓reduceIte, pure, interp, Bool.not_false,
      P.tokenIfVal, hi2, htop2, validate_empty]
    rw [loopN]
    simp only [bind, interp_bind, hi7, pure, interp]
  · rw [hk7]
    simp only [plainFunction, hxv']


theorem toplevel_function_body_gen (env : Env) (hp : RulesProgress env.cfg = true) (F D : Nat) (w : World)
    (toks : List Tok) (first : Tok) (trest : List Tok) (segs : List PQSeg) (cst vol : Bool) (ops : List Tok) (x op : Tok) (plist : List Param) (ob : Tok) (content : List Tok) (cb : Tok) (d1 : DType) (b1 b0 bmid bx bo bc bb b' : Buf)
    (blk : Block) (rest : List Block) (hstack : w.stack = blk :: rest) (hk : blk.hdr.kind ≠ .cls)
    (hmu : w.muted = false) (hfa : ¬ env.faultAt = some w.delivered)
    (hspec : TypeSpecR env (F + 1) (D + 1 + 1) toks segs cst vol) (htoks : toks = first :: trest) (hfirst : specFirst first.type = true)
    (htok : tokenEofOk env.cfg w.buf = .ok (some first, b1))
    (hy0 : Yields env.cfg b1 trest b0)
    (hops : opsHeadOk ops = true) (hopsv : ∀ o ∈ ops, o.value ≠ "auto")
    (hy : Yields env.cfg b0 ops bmid)
    (ha : applyPtrOps (.type (.mk segs none false) cst vol) (ops.map (·.type)) = some d1)
    (htx : tokenEofOk env.cfg bmid = .ok (some x, bx)) (hx : x.type = "NAME") (hxv : identVal x.value = true)
    (hto : tokenEofOk env.cfg bx = .ok (some op, bo)) (hop : op.type = "(")
    (hparams : ∀ W : World, W.buf = bo → ∃ w7, interp env (parseParametersStep (F + 1) (core (F + 1) (D + 1 + 1 + 1)) true) W = (w7, .ok (plist, false, [])) ∧
      SameButLog W w7 ∧ w7.buf = bc)
    (htb : tokenEofOk env.cfg bc = .ok (some ob, bb)) (hob : ob.type = "{")
    (hbal : Balanced "{" "}" content) (hcb : cb.type = "}") (hyb : Yields env.cfg bb (content ++ [cb]) b')
    (hF : ops.length + 2 ≤ F + 1) (hFb : content.length + 1 ≤ F) :
    ∃ (d : Option String) (bD : Buf) (w7 : World) (ct : CTok) (ev : Event),
      getDoxygen env.cfg env.mcRe w.buf = .ok (d, bD) ∧
      interp env (mainBody (F + 1) (core (F + 1) (D + 1 + 1 + 1 + 1)) none) w = (w7, .ok (.inl none)) ∧
      w7.buf = b' ∧ ct.value = first.value ∧ w7.stack = { blk with loc := .tok ct.sidx } :: rest ∧
      w7.events = w.events ++ [ev] ∧ ev.kind = .item (.function { plainFunction x d1 d with
        parameters := plist, hasBody := true }) ∧
      ev.stateId = blk.id ∧ ev.parentId = rest.head?.map (·.id) ∧
      w7.delivered = w.delivered + 1 ∧ w7.anon = w.anon ∧ w7.muted = false ∧ w7.nextId = w.nextId := by
  obtain ⟨d, bD, wA, ct, hd, hsA, hbA, htyc, hv, hi⟩ := mainBody_item env hp (F + 1) (core (F + 1) (D + 1 + 1 + 1 + 1)) w first b1 htok
  obtain ⟨w7, ev, hi7, hsig, hst7, hev7, hk7, hid7, hpar7, hdl7, han7, hmu7, hnx7, _⟩ :=
    parseDeclarations_function_body_gen env F D ct d toks first trest segs cst vol ops x op plist ob content cb d1 { wA with mainTok := some ct } b0 bmid bx bo bc bb b' blk rest
      (by show wA.stack = _; rw [hsA.stack]; exact hstack) hk (by show wA.muted = _; rw [hsA.muted]; exact hmu)
      (by show ¬ env.faultAt = some wA.delivered; rw [hsA.delivered]; exact hfa) hspec htoks htyc hv
      (by show Yields env.cfg wA.buf _ _; rw [hbA]; exact hy0) hops hopsv hy ha htx hx hxv hto hop hparams htb hob hbal hcb hyb hF hFb
  refine ⟨d, bD, w7, ct, ev, hd, ?_, hsig, hv, hst7, by rw [hev7]; show wA.events ++ _ = _; rw [hsA.events], hk7, hid7, hpar7,
    by rw [hdl7]; show wA.delivered + 1 = _; rw [hsA.delivered], by rw [han7]; exact hsA.anon, hmu7,
    by rw [hnx7]; exact hsA.nextId⟩
  rw [hi]
  unfold specFirst at hfirst
  simp only [Bool.and_eq_true, Option.isNone_iff_eq_none, Bool.not_eq_true'] at hfirst
  have hti : topItem (F + 1) (core (F + 1) (D + 1 + 1 + 1 + 1)) ct d = parseDeclarations (F + 1) (core (F + 1) (D + 1 + 1 + 1 + 1)) ct d := by
    unfold topItem
    rw [htyc, hfirst.1]
  have hcar : carry ct d = none := by
    unfold carry
    rw [htyc, hfirst.2]
    rfl
  rw [hti, hi7, hcar]



/-! ### member function definitions -/

/-- **one member function definition `ptr-ops f ( parameters ) qualifiers { body }`** in a class body: exactly ONE `on_class_method`
    with the written qualifier flags and `has_body`; the body is skipped exactly, no `;` is expected -/
theorem declarator_method_body (env : Env) (F D : Nat) (pt : DType) (location : LocRef) (doxygen : Option String)
    (ops : List Tok) (f op ob : Tok) (content : List Tok) (cb : Tok) (plist : List Param) (quals : List Tok) (d1 : DType) (m' : Function) (w : World)
    (bmid bf bo bc bq bb b' : Buf)
    (blk : Block) (rest : List Block) (hstack : w.stack = blk :: rest) (hk : blk.hdr.kind = .cls)
    (hmu : w.muted = false) (hfa : ¬ env.faultAt = some w.delivered)
    (hpt : isFnType pt = false)
    (hy : Yields env.cfg w.buf ops bmid) (ha : applyPtrOps pt (ops.map (·.type)) = some d1)
    (htf : tokenEofOk env.cfg bmid = .ok (some f, bf)) (hf : f.type = "NAME") (hfv : identVal f.value = true)
    (hto : tokenEofOk env.cfg bf = .ok (some op, bo)) (hop : op.type = "(")
    (hparams : ∀ W : World, W.buf = bo → ∃ w7, interp env (parseParametersStep (F + 1) (core (F + 1) D) true) W = (w7, .ok (plist, false, [])) ∧
      SameButLog W w7 ∧ w7.buf = bc)
    (hyq : Yields env.cfg bc quals bq)
    (haq : applyQuals { plainFunction f d1 doxygen with parameters := plist, isMethod := true, access := blk.access }
      (quals.map (·.value)) = some m')
    (htb : tokenEofOk env.cfg bq = .ok (some ob, bb)) (hob : ob.value = "{")
    (hbal : Balanced "{" "}" content) (hcb : cb.type = "}") (hyb : Yields env.cfg bb (content ++ [cb]) b')
    (hFq : quals.length + content.length + 2 ≤ F) (hF : ops.length + 1 ≤ F + 1) :
    ∃ (w7 : World) (ev : Event),
      interp env (declaratorBody (F + 1) (core (F + 1) (D + 1)) pt {} .none false false (location, doxygen)) w = (w7, .ok (.inr ())) ∧
      w7.buf = b' ∧ w7.stack = { blk with loc := location } :: rest ∧
      w7.events = w.events ++ [ev] ∧ ev.kind = .item (.classMethod { m' with hasBody := true }) ∧
      ev.stateId = blk.id ∧ ev.parentId = rest.head?.map (·.id) ∧
      w7.delivered = w.delivered + 1 ∧ w7.anon = w.anon ∧ w7.muted = false ∧ w7.nextId = w.nextId ∧
      w7.mainTok = w.mainTok := by
  simp only [identVal, Bool.and_eq_true, Bool.not_eq_true', bne_iff_ne, ne_eq] at hfv
  obtain ⟨⟨⟨hpv, hnc⟩, hms⟩, _⟩ := hfv
  -- the pointer chain and the name
  obtain ⟨w1, t1, hi1, hb1, htv1, hs1⟩ := cvPtr_chain env (core (F + 1) D) false ops pt d1 (F + 1) w bmid bf f hy ha htf
    (by rw [hf]; decide) hF
  have hty1 : t1.type = f.type := congrArg Prod.fst htv1
  have hv1 : t1.value = f.value := congrArg Prod.snd htv1
  have ht1 : tokenEofOk env.cfg w1.buf = .ok (some t1, bf) := by
    rw [hb1]; exact tokenEofOk_returnToken env.cfg t1 bf (by rw [hty1]; exact tokenEofOk_not_discard htf)
  have hfn := applyPtrOps_notFn _ pt d1 hpt ha
  have htop1 := interp_getTop env w1 blk rest (by rw [hs1.stack]; exact hstack)
  obtain ⟨w2, t2, hi2, hs2, ht2, hty2, hv2⟩ := step_tokenIf_miss env ["("] w1 t1 bf ht1 (by rw [hty1, hf]; decide)
  obtain ⟨w3, t3, hi3, hs3, ht3, hty3, hv3⟩ := step_tokenIfP_miss env (fun t => Gen.msvcConventions.contains t.value) w2 t2 bf ht2
    (by intro c _ hcv; show Gen.msvcConventions.contains c.value = false; rw [hcv, hv2, hv1]; exact hms)
  obtain ⟨w4, c4, hi4, hb4, hs4, hty4, hv4⟩ := step_tokenIfP_hit env (fun t => Gen.pqnameStartTokens.contains t.type) w3 t3 bf ht3
    (by intro c hct _; show Gen.pqnameStartTokens.contains c.type = true; rw [hct, hty3, hty2, hty1, hf]; decide)
  have hc4v : c4.value = f.value := by rw [hv4, hv3, hv2, hv1]
  obtain ⟨w5, t5, hpq, hs5, ht5, hty5, _⟩ := plain_pqname env (F + 1) (core (F + 1) D) true false false c4 [] w4 bf bo op
    (by rw [hty4, hty3, hty2, hty1, hf]) (by rw [hc4v]; exact hpv) (by rw [hc4v]; exact hnc) (by simp)
    (by rw [hb4]; exact .nil _) hto (by rw [hop]; decide) (by rw [hop]; decide) (by simp)
  -- `(`, the parameters, the end
  obtain ⟨w6, c6, hi6, hb6, hs6, _, _⟩ := step_tokenIf_hit env ["("] (logged env w5 "parse_pqname") t5 bo
    (by rw [logged_buf']; exact ht5) (by rw [hty5, hop]; decide)
  have hsl6 : SameButLog w w6 := (((((hs1.trans hs2).trans hs3).trans hs4).trans hs5).butLog.trans (logged_butLog env w5 _)).trans hs6.butLog
  have hst6 : w6.stack = blk :: rest := by rw [hsl6.stack]; exact hstack
  have htop6 := interp_getTop env { w6 with stack := { blk with loc := location } :: rest } { blk with loc := location } rest rfl
  obtain ⟨w7, hi7, hs7, hb7⟩ := hparams { w6 with stack := { blk with loc := location } :: rest } hb6
  have htop7 := interp_getTop env w7 { blk with loc := location } rest hs7.stack
  obtain ⟨w8, hi8, hb8, hs8⟩ := methodEnd_quals_body env (core (F + 1) (D + 1)) quals
    { plainFunction f d1 doxygen with parameters := plist, isMethod := true, access := blk.access } m' F w7 bq bb b' ob content cb
    (by rw [hb7]; exact hyq) haq htb hob hyb hbal hcb hFq
  obtain ⟨_, _, _, _, _, _, _, _, _, _, hbody⟩ := applyQuals_flags _ _ _ haq
  have htrail := applyQuals_trailing _ _ _ haq
  have hst8 : w8.stack = { blk with loc := location } :: rest := by rw [hs8.stack, hs7.stack]
  have hmu8 : w8.muted = false := by rw [hs8.muted, hs7.muted]; show w6.muted = _; rw [hsl6.muted]; exact hmu
  have hdl8 : w8.delivered = w.delivered := by rw [hs8.delivered, hs7.delivered]; exact hsl6.delivered
  have hev8 : w8.events = w.events := by rw [hs8.events, hs7.events]; exact hsl6.events
  have hdel := deliver_passing env w8 (mkEvent w8 (.item (.classMethod { m' with hasBody := true }))
    { blk with loc := location } (rest.head?.map (·.id))) hmu8 (by rw [hdl8]; exact hfa)
  refine ⟨{ w8 with events := w8.events ++ [(mkEvent w8 (.item (.classMethod { m' with hasBody := true }))
    { blk with loc := location } (rest.head?.map (·.id)))], delivered := w8.delivered + 1 }, (mkEvent w8 (.item (.classMethod { m' with hasBody := true }))
    { blk with loc := location } (rest.head?.map (·.id))), ?_, hb8, hst8, by show w8.events ++ _ = _; rw [hev8], rfl, rfl, rfl,
    by show w8.delivered + 1 = _; rw [hdl8], ?_, hmu8, ?_, ?_⟩
  · have hi8' := hi8
    simp only [plainFunction] at hi8' hbody htrail
    unfold declaratorBody parseDecl parseCvPtr parseFunction
    simp only [bind, interp_bind, core_parseCvPtrOrFn, core_parsePqname, core_parseParameters, hi1, hfn, Bool.false_eq_true, ↓reduceIte,
      pure, interp, htop1, hi2, Option.isSome_some, Option.isSome_none, P.tokenIfVal, P.tokenIfInSet, hi3, hi4, hpq, List.map_nil, hc4v,
      hi6, PQName.segments, List.getLast?_singleton, Option.map_some, isNameSeg, Option.getD_some, Bool.not_true, P.setLoc, hst6, htop6,
      hi7, List.isEmpty_nil, Block.view, hk, decide_true, Bool.true_or, Bool.not_false, Bool.and_true, List.length_singleton,
      (by decide : ¬ (1 > 1)), hasKey, List.any_nil, Option.map_none, currentAccess, htop7, hi8', P.emit, hst8] at hdel ⊢
    rw [hdel]
    simp only [htrail, Bool.true_or, Bool.or_true, ↓reduceIte, bind, interp_bind, pure, interp]
  · show w8.anon = _; rw [hs8.anon, hs7.anon]; exact hsl6.anon
  · show w8.nextId = _; rw [hs8.nextId, hs7.nextId]; exact hsl6.nextId
  · show w8.mainTok = _; rw [hs8.mainTok, hs7.mainTok]; exact hsl6.mainTok


theorem parseDeclarations_method_body_gen (env : Env) (F D : Nat) (tok : CTok) (doxygen : Option String)
    (toks : List Tok) (f : Tok) (trest : List Tok) (segs : List PQSeg) (cst vol : Bool) (ops : List Tok) (x op : Tok) (plist : List Param) (ob : Tok) (content : List Tok) (cb : Tok) (quals : List Tok) (m' : Function) (d1 : DType) (w : World) (b0 bmid bx bo bc bq bb b' : Buf)
    (blk : Block) (rest : List Block) (hstack : w.stack = blk :: rest) (hk : blk.hdr.kind = .cls)
    (hmu : w.muted = false) (hfa : ¬ env.faultAt = some w.delivered)
    (hspec : TypeSpecR env (F + 1) (D + 1 + 1) toks segs cst vol) (htoks : toks = f :: trest)
    (hty : tok.type = f.type) (htv : tok.value = f.value)
    (hy0 : Yields env.cfg w.buf trest b0)
    (hops : opsHeadOk ops = true) (hopsv : ∀ o ∈ ops, o.value ≠ "auto")
    (hy : Yields env.cfg b0 ops bmid)
    (ha : applyPtrOps (.type (.mk segs none false) cst vol) (ops.map (·.type)) = some d1)
    (htx : tokenEofOk env.cfg bmid = .ok (some x, bx)) (hx : x.type = "NAME") (hxv : identVal x.value = true)
    (hto : tokenEofOk env.cfg bx = .ok (some op, bo)) (hop : op.type = "(")
    (hparams : ∀ W : World, W.buf = bo → ∃ w7, interp env (parseParametersStep (F + 1) (core (F + 1) (D + 1 + 1 + 1)) true) W = (w7, .ok (plist, false, [])) ∧
      SameButLog W w7 ∧ w7.buf = bc)
    (hyq : Yields env.cfg bc quals bq)
    (haq : applyQuals { plainFunction x d1 doxygen with parameters := plist, isMethod := true, access := blk.access }
      (quals.map (·.value)) = some m')
    (htb : tokenEofOk env.cfg bq = .ok (some ob, bb)) (hob : ob.value = "{")
    (hbal : Balanced "{" "}" content) (hcb : cb.type = "}") (hyb : Yields env.cfg bb (content ++ [cb]) b')
    (hFq : quals.length + content.length + 2 ≤ F) (hF : ops.length + 2 ≤ F + 1) :
    ∃ (w7 : World) (ev : Event),
      interp env (parseDeclarations (F + 1) (core (F + 1) (D + 1 + 1 + 1 + 1)) tok doxygen) w = (w7, .ok ()) ∧
      w7.buf = b' ∧ w7.stack = { blk with loc := .tok tok.sidx } :: rest ∧
      w7.events = w.events ++ [ev] ∧ ev.kind = .item (.classMethod { m' with hasBody := true }) ∧
      ev.stateId = blk.id ∧ ev.parentId = rest.head?.map (·.id) ∧
      w7.delivered = w.delivered + 1 ∧ w7.anon = w.anon ∧ w7.muted = false ∧ w7.nextId = w.nextId ∧
      w7.mainTok = w.mainTok := by
  have hxauto : x.value ≠ "auto" := by
    have := hxv
    simp only [identVal, Bool.and_eq_true, Bool.not_eq_true', bne_iff_ne, ne_eq] at this
    exact this.2
  -- the token after the type name: the first pointer operator, or the name
  obtain ⟨nx, bnx, hnx, hnxstop, hnxauto⟩ : ∃ (nx : Tok) (bnx : Buf), tokenEofOk env.cfg b0 = .ok (some nx, bnx) ∧
      declStart nx.type = true ∧ nx.value ≠ "auto" := by
    cases ops with
    | nil =>
      cases hy
      exact ⟨x, bx, htx, by rw [hx]; decide, hxauto⟩
    | cons o os =>
      cases hy with
      | cons hto _ =>
        have ho : o.type = "*" := by simpa [opsHeadOk] using hops
        exact ⟨o, _, hto, by rw [ho]; decide, hopsv o (by simp)⟩
  obtain ⟨w1, t1, hi1, hs1, ht1, hty1, hv1⟩ := hspec true tok f trest w b0 bnx nx htoks hty htv hy0 hnx hnxstop
  obtain ⟨w2, t2, hi2, hs2, ht2, hty2, hv2⟩ := step_tokenIfP_miss env (fun t => ["auto"].contains t.value) w1 t1 bnx ht1
    (by intro c _ hcv; show ["auto"].contains c.value = false; rw [hcv, hv1]; simp [hnxauto])
  have hsl2 : SameButLog w w2 := hs1.trans hs2.butLog
  have htop2 := interp_getTop env w2 blk rest (by rw [hsl2.stack]; exact hstack)
  -- the stream seen by the declarator loop: the pushed-back copy of `nx`, then as given
  obtain ⟨ops', x', bmid', hy', hmapeq, hlen, htx', hx', hxv'⟩ : ∃ (ops' : List Tok) (x' : Tok) (bmid' : Buf),
      Yields env.cfg w2.buf ops' bmid' ∧ ops'.map (·.type) = ops.map (·.type) ∧ ops'.length = ops.length ∧
      tokenEofOk env.cfg bmid' = .ok (some x', bx) ∧ x'.type = "NAME" ∧ x'.value = x.value := by
    cases ops with
    | nil =>
      cases hy
      rw [htx] at hnx
      injection hnx with hnx; injection hnx with h1 h2
      injection h1 with h1
      subst h1; subst h2
      exact ⟨[], t2, w2.buf, .nil _, rfl, rfl, ht2, by rw [hty2, hty1, hx], by rw [hv2, hv1]⟩
    | cons o os =>
      cases hy with
      | cons hto hrest =>
        rw [hto] at hnx
        injection hnx with hnx; injection hnx with h1 h2
        injection h1 with h1
        subst h1; subst h2
        exact ⟨t2 :: os, x, bmid, .cons ht2 hrest, by simp [hty2, hty1], by simp, htx, hx, rfl⟩
  obtain ⟨w7, ev, hi7, hsig, hst7, hev7, hk7, hid7, hpar7, hdl7, han7, hmu7, hnx7, hmt7⟩ :=
    declarator_method_body env F (D + 1 + 1 + 1) _ (.tok tok.sidx) doxygen ops' x' op ob content cb
      (plist) quals d1 m' w2 bmid' bx bo bc bq bb b' blk rest
      (by rw [hsl2.stack]; exact hstack) hk (by rw [hsl2.muted]; exact hmu) (by rw [hsl2.delivered]; exact hfa) rfl hy'
      (by rw [hmapeq]; exact ha) htx' hx' (by rw [hxv']; exact hxv) hto hop
      hparams
      hyq (by simp only [plainFunction, hxv'] at haq ⊢; exact haq) htb hob hbal hcb hyb hFq (by rw [hlen]; omega)
  refine ⟨w7, ev, ?_, hsig, hst7, by rw [hev7, hsl2.events], ?_, hid7, hpar7, by rw [hdl7, hsl2.delivered],
    by rw [han7, hsl2.anon], hmu7, by rw [hnx7, hsl2.nextId], by rw [hmt7, hsl2.mainTok]⟩
  · unfold parseDeclarations
    simp only [bind, interp_bind, core_parseType, hi1, Option.bind, typenameOf, strTruthy, PQName.classkey, Bool.false_eq_true, ↓reduceIte, pure, interp, Bool.not_false,
      P.tokenIfVal, hi2, htop2, validate_empty]
    rw [loopN]
    simp only [bind, interp_bind, hi7, pure, interp]
  · rw [hk7]


theorem toplevel_method_body_gen (env : Env) (hp : RulesProgress env.cfg = true) (F D : Nat) (w : World)
    (toks : List Tok) (first : Tok) (trest : List Tok) (segs : List PQSeg) (cst vol : Bool) (ops : List Tok) (x op : Tok) (plist : List Param) (ob : Tok) (content : List Tok) (cb : Tok) (quals : List Tok) (m' : Function) (d1 : DType) (b1 b0 bmid bx bo bc bq bb b' : Buf)
    (blk : Block) (rest : List Block) (hstack : w.stack = blk :: rest) (hk : blk.hdr.kind = .cls)
    (hmu : w.muted = false) (hfa : ¬ env.faultAt = some w.delivered)
    (hspec : TypeSpecR env (F + 1) (D + 1 + 1) toks segs cst vol) (htoks : toks = first :: trest) (hfirst : specFirst first.type = true)
    (htok : tokenEofOk env.cfg w.buf = .ok (some first, b1))
    (hy0 : Yields env.cfg b1 trest b0)
    (hops : opsHeadOk ops = true) (hopsv : ∀ o ∈ ops, o.value ≠ "auto")
    (hy : Yields env.cfg b0 ops bmid)
    (ha : applyPtrOps (.type (.mk segs none false) cst vol) (ops.map (·.type)) = some d1)
    (htx : tokenEofOk env.cfg bmid = .ok (some x, bx)) (hx : x.type = "NAME") (hxv : identVal x.value = true)
    (hto : tokenEofOk env.cfg bx = .ok (some op, bo)) (hop : op.type = "(")
    (hparams : ∀ W : World, W.buf = bo → ∃ w7, interp env (parseParametersStep (F + 1) (core (F + 1) (D + 1 + 1 + 1)) true) W = (w7, .ok (plist, false, [])) ∧
      SameButLog W w7 ∧ w7.buf = bc)
    (hyq : Yields env.cfg bc quals bq)
    (htb : tokenEofOk env.cfg bq = .ok (some ob, bb)) (hob : ob.value = "{")
    (hbal : Balanced "{" "}" content) (hcb : cb.type = "}") (hyb : Yields env.cfg bb (content ++ [cb]) b')
    (hFq : quals.length + content.length + 2 ≤ F) (hF : ops.length + 2 ≤ F + 1) :
    ∀ (d : Option String) (bD : Buf), getDoxygen env.cfg env.mcRe w.buf = .ok (d, bD) →
    applyQuals { plainFunction x d1 d with parameters := plist, isMethod := true, access := blk.access }
      (quals.map (·.value)) = some m' →
    ∃ (w7 : World) (ct : CTok) (ev : Event),
      interp env (mainBody (F + 1) (core (F + 1) (D + 1 + 1 + 1 + 1)) none) w = (w7, .ok (.inl none)) ∧
      w7.buf = b' ∧ ct.value = first.value ∧ w7.stack = { blk with loc := .tok ct.sidx } :: rest ∧
      w7.events = w.events ++ [ev] ∧ ev.kind = .item (.classMethod { m' with hasBody := true }) ∧
      ev.stateId = blk.id ∧ ev.parentId = rest.head?.map (·.id) ∧
      w7.delivered = w.delivered + 1 ∧ w7.anon = w.anon ∧ w7.muted = false ∧ w7.nextId = w.nextId := by
  intro d bD hdx haq
  obtain ⟨d', bD', wA, ct, hd, hsA, hbA, htyc, hv, hi⟩ := mainBody_item env hp (F + 1) (core (F + 1) (D + 1 + 1 + 1 + 1)) w first b1 htok
  rw [hdx] at hd
  injection hd with hd; injection hd with hd1 hd2
  subst hd1; subst hd2
  obtain ⟨w7, ev, hi7, hsig, hst7, hev7, hk7, hid7, hpar7, hdl7, han7, hmu7, hnx7, _⟩ :=
    parseDeclarations_method_body_gen env F D ct d toks first trest segs cst vol ops x op plist ob content cb quals m' d1 { wA with mainTok := some ct } b0 bmid bx bo bc bq bb b' blk rest
      (by show wA.stack = _; rw [hsA.stack]; exact hstack) hk (by show wA.muted = _; rw [hsA.muted]; exact hmu)
      (by show ¬ env.faultAt = some wA.delivered; rw [hsA.delivered]; exact hfa) hspec htoks htyc hv
      (by show Yields env.cfg wA.buf _ _; rw [hbA]; exact hy0) hops hopsv hy ha htx hx hxv hto hop hparams hyq haq htb hob hbal hcb hyb hFq hF
  refine ⟨w7, ct, ev, ?_, hsig, hv, hst7, by rw [hev7]; show wA.events ++ _ = _; rw [hsA.events], hk7, hid7, hpar7,
    by rw [hdl7]; show wA.delivered + 1 = _; rw [hsA.delivered], by rw [han7]; exact hsA.anon, hmu7,
    by rw [hnx7]; exact hsA.nextId⟩
  rw [hi]
  unfold specFirst at hfirst
  simp only [Bool.and_eq_true, Option.isNone_iff_eq_none, Bool.not_eq_true'] at hfirst
  have hti : topItem (F + 1) (core (F + 1) (D + 1 + 1 + 1 + 1)) ct d = parseDeclarations (F + 1) (core (F + 1) (D + 1 + 1 + 1 + 1)) ct d := by
    unfold topItem
    rw [htyc, hfirst.1]
  have hcar : carry ct d = none := by
    unfold carry
    rw [htyc, hfirst.2]
    rfl
  rw [hti, hi7, hcar]

/-! ### from iterations to `parse()`: the loop is the sequence of its iterations -/



end Cxx
