/-
  Theorems/UsingAliasForm.lean — the alias declaration `using A = T ptr-ops ;` (C01, C02): after
  `using` has been dispatched, `_parse_using` is exactly: record the location, deliver ONE
  `on_using_alias` carrying the alias name `A`, the type the abstract declarator denotes
  (`applyPtrOps` over the qualified name `T`), the access level in force and the doc text, then
  require the `;`.
-/
import CxxModel.Theorems.VarDecl
namespace Cxx
open P

/-- the alias written -/
def plainAlias (a : Tok) (d1 : DType) (blk : Block) (dox : Option String) : UsingAlias :=
  { alias := a.value, type := d1, template := none, access := if blk.hdr.kind = .cls then blk.access else none, doxygen := dox }

theorem using_alias_decl (env : Env) (F D : Nat) (tok : CTok) (doxygen : Option String)
    (a eq first : Tok) (pairs : List (Tok × Tok)) (ops : List Tok) (semi : Tok) (d1 : DType) (w : World) (ba bq b1 b0 bmid b' : Buf)
    (blk : Block) (rest : List Block) (hstack : w.stack = blk :: rest)
    (hta : tokenEofOk env.cfg w.buf = .ok (some a, ba)) (ha : a.type = "NAME")
    (hte : tokenEofOk env.cfg ba = .ok (some eq, bq)) (heq : eq.type = "=")
    (htf : tokenEofOk env.cfg bq = .ok (some first, b1)) (hf : first.type = "NAME") (hfv : identVal first.value = true)
    (hall : ∀ p ∈ pairs, p.1.type = "DBL_COLON" ∧ p.2.type = "NAME" ∧ plainVal p.2.value = true)
    (hy0 : Yields env.cfg b1 (pairs.flatMap (fun p => [p.1, p.2])) b0)
    (hops : opsHeadOk ops = true)
    (hy : Yields env.cfg b0 ops bmid)
    (hap : applyPtrOps (.type (.mk (.name first.value none :: pairs.map (fun p => .name p.2.value none)) none false) false false)
      (ops.map (·.type)) = some d1)
    (hsemi : tokenEofOk env.cfg bmid = .ok (some semi, b')) (hs : semi.type = ";")
    (hF : pairs.length + ops.length + 2 ≤ F) :
    ∃ (w' : World) (t' : Tok), SameButLog { w with stack := { blk with loc := .tok tok.sidx } :: rest } w' ∧
      tokenEofOk env.cfg w'.buf = .ok (some t', b') ∧ t'.type = ";" ∧
      interp env (parseUsing F (core F (D + 1 + 1)) tok doxygen none) w =
        interp env (do
          P.emit (.usingAlias (plainAlias a d1 blk doxygen))
          let _ ← nextTokenMustBe [";"]
          pure ()) w' := by
  simp only [identVal, Bool.and_eq_true, Bool.not_eq_true', bne_iff_ne, ne_eq] at hfv
  obtain ⟨⟨⟨hpv, hnc⟩, _⟩, _⟩ := hfv
  obtain ⟨w1, c1, hi1, hb1, hs1, hty1, hv1⟩ := step_mustBe env ["NAME", "DBL_COLON", "namespace", "typename", "enum"]
    { w with stack := { blk with loc := .tok tok.sidx } :: rest } a ba hta (by rw [ha]; decide)
  obtain ⟨w2, c2, hi2, hb2, hs2, _, _⟩ := step_tokenIf_hit env ["="] w1 eq bq (by rw [hb1]; exact hte) (by rw [heq]; decide)
  obtain ⟨w3, c3, hi3, hb3, hs3, hty3, hv3⟩ := step_token env w2 first b1 (by rw [hb2]; exact htf)
  -- the token after the type name: the first pointer operator, or the `;`
  obtain ⟨nx, bnx, hnx, hnxend, hnxlt, hnxdc⟩ : ∃ (nx : Tok) (bnx : Buf), tokenEofOk env.cfg b0 = .ok (some nx, bnx) ∧
      typeEnd nx.type = true ∧ nx.type ≠ "<" ∧ nx.type ≠ "DBL_COLON" := by
    cases ops with
    | nil =>
      cases hy
      exact ⟨semi, b', hsemi, by rw [hs]; decide, by rw [hs]; decide, by rw [hs]; decide⟩
    | cons o os =>
      cases hy with
      | cons hto _ =>
        have ho : o.type = "*" := by simpa [opsHeadOk] using hops
        exact ⟨o, _, hto, by rw [ho]; decide, by rw [ho]; decide, by rw [ho]; decide⟩
  obtain ⟨w4, t4, hi4, hs4, ht4, hty4, hv4⟩ := parseType_plain env F D false c3 pairs w3 b0 bnx nx (hty3.trans hf)
    (by rw [hv3]; exact hpv) (by rw [hv3]; exact hnc) hall (by rw [hb3]; exact hy0) hnx hnxend hnxlt hnxdc (by omega)
  -- the stream seen by the pointer chain: the pushed-back copy of `nx`, then as given
  obtain ⟨ops', bmid', semi', hy', hmapeq, hlen, hsemi', hs'⟩ : ∃ (ops' : List Tok) (bmid' : Buf) (semi' : Tok),
      Yields env.cfg w4.buf ops' bmid' ∧ ops'.map (·.type) = ops.map (·.type) ∧ ops'.length = ops.length ∧
      tokenEofOk env.cfg bmid' = .ok (some semi', b') ∧ semi'.type = ";" := by
    cases ops with
    | nil =>
      cases hy
      rw [hsemi] at hnx
      injection hnx with hnx; injection hnx with h1 h2
      injection h1 with h1
      subst h1; subst h2
      exact ⟨[], w4.buf, t4, .nil _, rfl, rfl, ht4, by rw [hty4, hs]⟩
    | cons o os =>
      cases hy with
      | cons hto hrest =>
        rw [hto] at hnx
        injection hnx with hnx; injection hnx with h1 h2
        injection h1 with h1
        subst h1; subst h2
        exact ⟨t4 :: os, bmid, semi, .cons ht4 hrest, by simp [hty4], by simp, hsemi, hs⟩
  obtain ⟨w5, t5, hi5, hb5, htv5, hs5⟩ := cvPtr_chain env (core F (D + 1)) false ops'
    (.type (.mk (.name c3.value none :: pairs.map (fun p => .name p.2.value none)) none false) false false) d1 F w4 bmid' b' semi' hy'
    (by rw [hmapeq, hv3]; exact hap) hsemi' (by rw [hs']; decide) (by rw [hlen]; omega)
  have hty5 : t5.type = semi'.type := congrArg Prod.fst htv5
  have ht5 : tokenEofOk env.cfg w5.buf = .ok (some t5, b') := by
    rw [hb5]; exact tokenEofOk_returnToken env.cfg t5 b' (by rw [hty5]; exact tokenEofOk_not_discard hsemi')
  have hfn := applyPtrOps_notFn _ _ d1 rfl hap
  have hsl : SameButLog { w with stack := { blk with loc := .tok tok.sidx } :: rest } w5 :=
    ((((hs1.trans hs2).trans hs3).butLog.trans hs4).trans hs5.butLog)
  have htop5 := interp_getTop env w5 { blk with loc := .tok tok.sidx } rest hsl.stack
  refine ⟨w5, t5, hsl, ht5, by rw [hty5, hs'], ?_⟩
  have hc1 : c1.type = "NAME" := hty1.trans ha
  rw [hv3] at hi5
  unfold parseUsing P.setLoc
  simp only [bind, interp_bind, interp, hstack, hi1, hc1, (by decide : ("NAME" = "namespace") = False), ↓reduceIte,
    (by decide : ("NAME" = "DBL_COLON") = False), (by decide : ("NAME" = "typename") = False), Bool.or_self,
    decide_false, Bool.false_eq_true, hi2, Option.isNone_some, pure, parseUsingTypealias, core_parseType, parseTypeStep_none, hi3, hi4,
    validate_empty, parseCvPtr, core_parseCvPtrOrFn, hv3, hi5, hfn, currentAccess, htop5, Block.view, plainAlias, hv1]

end Cxx
