/-
  Theorems/LeadCv.lean — cv-qualifiers written after a class or enum body (C02): `key S { … } const volatile a , * b ;`.
  In the implementation every declarator of such a statement is parsed from THE SAME `Type` object and
  `_parse_cv_ptr_or_fn` sets leading `const` / `volatile` on it in place, so the qualifiers written before the first declarator
  are still there for every later one.  The model threads the type through the declarator loop of `finishClassOrEnum`; the
  loop that reads the leading qualifiers is `leadCvBody`.
-/
import CxxModel.Theorems.Steps
import CxxModel.Theorems.Stream
namespace Cxx
open P

/-- what a run of leading qualifiers leaves on a named type -/
def cvOn (n : PQName) (c v : Bool) (cvs : List Tok) : DType :=
  .type n (c || cvs.any (·.type == "const")) (v || cvs.any (·.type == "volatile"))

theorem leadCv_step_miss (env : Env) (pt : DType) (w w1 : World)
    (h : interp env (P.tokenIf ["const", "volatile"]) w = (w1, .ok none)) :
    interp env (leadCvBody pt) w = (w1, .ok (.inr pt)) := by
  unfold leadCvBody
  simp only [bind, interp_bind, h, pure, interp]

theorem leadCv_step_const (env : Env) (n : PQName) (c v : Bool) (w w1 : World) (c1 : CTok)
    (h : interp env (P.tokenIf ["const", "volatile"]) w = (w1, .ok (some c1))) (hc : c1.type = "const") :
    interp env (leadCvBody (.type n c v)) w = (w1, .ok (.inl (.type n true v))) := by
  unfold leadCvBody
  simp only [bind, interp_bind, h, hc, ↓reduceIte, setConst, pure, interp]

theorem leadCv_step_volatile (env : Env) (n : PQName) (c v : Bool) (w w1 : World) (c1 : CTok)
    (h : interp env (P.tokenIf ["const", "volatile"]) w = (w1, .ok (some c1))) (hc : c1.type = "volatile") :
    interp env (leadCvBody (.type n c v)) w = (w1, .ok (.inl (.type n c true))) := by
  unfold leadCvBody
  simp only [bind, interp_bind, h, hc, (by decide : ("volatile" = "const") = False), ↓reduceIte, setVolatile, pure, interp]

/-- **the leading-qualifier loop**: any number of `const` / `volatile`, in any order, then a token that is neither: the type
    carries `const` iff it did or one was written, `volatile` likewise; the stream holds the ending token -/
theorem leadCv_loop (env : Env) : ∀ (cvs : List Tok) (n : PQName) (c v : Bool) (term : Tok) (k : Nat) (w : World) (bmid b' : Buf),
    (∀ q ∈ cvs, q.type = "const" ∨ q.type = "volatile") → term.type ≠ "const" → term.type ≠ "volatile" →
    Yields env.cfg w.buf cvs bmid → tokenEofOk env.cfg bmid = .ok (some term, b') → cvs.length + 1 ≤ k →
    ∃ (w' : World) (t' : Tok),
      interp env (loopN k (.type n c v) leadCvBody) w = (w', .ok (cvOn n c v cvs)) ∧ SameParse w w' ∧
      tokenEofOk env.cfg w'.buf = .ok (some t', b') ∧ t'.type = term.type ∧ t'.value = term.value := by
  intro cvs
  induction cvs with
  | nil =>
    intro n c v term k w bmid b' _ h1 h2 hy htok hk
    cases hy
    obtain ⟨m, rfl⟩ : ∃ m, k = m + 1 := ⟨k - 1, by omega⟩
    obtain ⟨w1, t1, hi1, hs1, ht1, hty1, hv1⟩ := step_tokenIf_miss env ["const", "volatile"] w term b' htok (by simp [h1, h2])
    refine ⟨w1, t1, ?_, hs1, ht1, hty1, hv1⟩
    rw [loopN]
    simp only [bind, interp_bind, leadCv_step_miss env _ w w1 hi1, pure, interp, cvOn, List.any_nil, Bool.or_false]
  | cons q qs ih =>
    intro n c v term k w bmid b' hall h1 h2 hy htok hk
    obtain ⟨b1, hq, hyr⟩ := Yields.cons_inv hy
    obtain ⟨m, rfl⟩ : ∃ m, k = m + 1 := ⟨k - 1, by omega⟩
    have hqt := hall q (by simp)
    obtain ⟨w1, c1, hi1, hb1, hs1, hty1, _⟩ := step_tokenIf_hit env ["const", "volatile"] w q b1 hq (by rcases hqt with h | h <;> simp [h])
    rcases hqt with hc | hvol
    · obtain ⟨w', t', hi, hs, ht, hty, hv'⟩ := ih n true v term m w1 bmid b' (fun x hx => hall x (by simp [hx])) h1 h2
        (by rw [hb1]; exact hyr) htok (by simp at hk; omega)
      refine ⟨w', t', ?_, hs1.trans hs, ht, hty, hv'⟩
      rw [loopN]
      simp only [bind, interp_bind, leadCv_step_const env n c v w w1 c1 hi1 (hty1.trans hc), hi]
      simp [cvOn, hc]
    · have hnc : ¬ q.type = "const" := by rw [hvol]; decide
      obtain ⟨w', t', hi, hs, ht, hty, hv'⟩ := ih n c true term m w1 bmid b' (fun x hx => hall x (by simp [hx])) h1 h2
        (by rw [hb1]; exact hyr) htok (by simp at hk; omega)
      refine ⟨w', t', ?_, hs1.trans hs, ht, hty, hv'⟩
      rw [loopN]
      simp only [bind, interp_bind, leadCv_step_volatile env n c v w w1 c1 hi1 (hty1.trans hvol), hi]
      simp [cvOn, hvol, hnc]

/-- qualifiers never leave the shared type: what was set before an earlier declarator is still set when the qualifiers
    before a later one have been read (and reading none changes nothing) -/
theorem cvOn_persists (n : PQName) (c v : Bool) (cvs1 cvs2 : List Tok) :
    (match cvOn n c v cvs1 with
     | .type n' c' v' => cvOn n' c' v' cvs2
     | d => d) = cvOn n c v (cvs1 ++ cvs2) := by
  simp [cvOn, List.any_append, Bool.or_assoc]

theorem cvOn_nil (n : PQName) (c v : Bool) : cvOn n c v [] = .type n c v := by simp [cvOn]

end Cxx
