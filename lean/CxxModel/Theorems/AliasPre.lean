/-
  Theorems/AliasPre.lean — alias declarations `using A = S prefix ;` over ANY type specifier and ANY (abstract)
  declarator prefix (C01, C02): exactly ONE `on_using_alias` with the type the prefix denotes over the type `S`
  denotes.  The type-id ends at `;`, so the specifier is given as a `TypeSpecS` (as `TypeSpecR`, the following token
  being a declarator start OR `;`); `typeSpecS_cv` provides it for cv-qualified names exactly as `typeSpecR_cv`.
-/
import CxxModel.Theorems.DeclPre
import CxxModel.Theorems.UsingAliasForm
namespace Cxx
open P

/-- as `TypeSpecR`, the token after the specifier being a declarator start or the `;` that ends a type-id -/
def TypeSpecS (env : Env) (F D : Nat) (toks : List Tok) (segs : List PQSeg) (cst vol : Bool) : Prop :=
  ∀ (operatorOk : Bool) (ct : CTok) (f : Tok) (rest : List Tok) (w : World) (bmid b' : Buf) (term : Tok),
    toks = f :: rest → ct.type = f.type → ct.value = f.value →
    Yields env.cfg w.buf rest bmid → tokenEofOk env.cfg bmid = .ok (some term, b') → (declStart term.type = true ∨ term.type = ";") →
    ∃ (w' : World) (t' : Tok),
      interp env (parseTypeStep F (core F (D + 1)) (some ct) operatorOk) w =
        (w', .ok (some (.type (.mk segs none false) cst vol), {})) ∧
      SameButLog w w' ∧ tokenEofOk env.cfg w'.buf = .ok (some t', b') ∧ t'.type = term.type ∧ t'.value = term.value

/-- any number of `const` / `volatile` before and after a name, as a type-id that may end at `;` -/
theorem typeSpecS_cv (env : Env) (F D : Nat) (pre ntoks post : List Tok) (segs : List PQSeg)
    (hname : NameSpecR env F D ntoks segs)
    (hpre : ∀ k ∈ pre, isCv k.type = true) (hpost : ∀ k ∈ post, isCv k.type = true)
    (hF : pre.length + post.length + 3 ≤ F) :
    TypeSpecS env F D (pre ++ ntoks ++ post) segs (cvConst pre || cvConst post) (cvVol pre || cvVol post) := by
  intro operatorOk ct f rest w bmid b' term hsplit hty hv hy htok hterm
  have hend : typeEnd term.type = true := by
    rcases hterm with h | h
    · exact declStart_typeEnd h
    · rw [h]; decide
  have hafter : afterName term.type = true := by
    rcases hterm with h | h
    · exact declStart_afterName h
    · rw [h]; decide
  obtain ⟨w1, c1, hi1, hs1, hb1, hty1, hv1⟩ := typeLoop_cv env F D operatorOk ntoks segs hname post hpost pre ct f rest false false false F
    w bmid b' term hpre hsplit hty hv hy htok hend hafter hF
  have hnd : isDiscard c1.type = false := by rw [hty1]; exact tokenEofOk_not_discard htok
  obtain ⟨w2, t2, hi2, hs2, ht2, hty2, hv2⟩ := step_returnToken env w1 c1 hnd
  refine ⟨w2, t2, ?_, hs1.trans hs2.butLog, by rw [← hb1]; exact ht2, by rw [hty2, hty1], by rw [hv2, hv1]⟩
  unfold parseTypeStep
  simp only [pure, interp, bind, interp_bind]
  simp only [Bool.false_or] at hi1
  simp only [hi1]
  simp only [interp_bind, hi2, interp]

theorem using_alias_pre (env : Env) (F D : Nat) (tok : CTok) (doxygen : Option String)
    (a eq : Tok) (toks : List Tok) (first : Tok) (trest : List Tok) (segs : List PQSeg) (cst vol : Bool) (pre : List (String × String)) (ops : List Tok) (semi : Tok) (d1 : DType) (w : World) (ba bq b1 b0 bmid b' : Buf)
    (blk : Block) (rest : List Block) (hstack : w.stack = blk :: rest)
    (hta : tokenEofOk env.cfg w.buf = .ok (some a, ba)) (ha : a.type = "NAME")
    (hte : tokenEofOk env.cfg ba = .ok (some eq, bq)) (heq : eq.type = "=")
    (htf : tokenEofOk env.cfg bq = .ok (some first, b1))
    (hspecS : TypeSpecS env F D toks segs cst vol) (htoks : toks = first :: trest)
    (hy0 : Yields env.cfg b1 trest b0)
    (hhead : ∀ p ∈ pre.head?, declStart p.1 = true)
    (hy : Yields env.cfg b0 ops bmid)
    (hpre : PrefixSpec env F (D + 1) (.type (.mk segs none false) cst vol) pre d1) (hfn : isFnType d1 = false) (hops : tvs ops = pre)
    (hsemi : tokenEofOk env.cfg bmid = .ok (some semi, b')) (hs : semi.type = ";")
    (hF : 2 ≤ F) :
    ∃ (w' : World) (t' : Tok), SameButLog { w with stack := { blk with loc := .tok tok.sidx } :: rest } w' ∧
      tokenEofOk env.cfg w'.buf = .ok (some t', b') ∧ t'.type = ";" ∧
      interp env (parseUsing F (core F (D + 1 + 1)) tok doxygen none) w =
        interp env (do
          P.emit (.usingAlias (plainAlias a d1 blk doxygen))
          let _ ← nextTokenMustBe [";"]
          pure ()) w' := by
  obtain ⟨w1, c1, hi1, hb1, hs1, hty1, hv1⟩ := step_mustBe env ["NAME", "DBL_COLON", "namespace", "typename", "enum"]
    { w with stack := { blk with loc := .tok tok.sidx } :: rest } a ba hta (by rw [ha]; decide)
  obtain ⟨w2, c2, hi2, hb2, hs2, _, _⟩ := step_tokenIf_hit env ["="] w1 eq bq (by rw [hb1]; exact hte) (by rw [heq]; decide)
  obtain ⟨w3, c3, hi3, hb3, hs3, hty3, hv3⟩ := step_token env w2 first b1 (by rw [hb2]; exact htf)
  -- the token after the type name: the first pointer operator, or the `;`
  obtain ⟨nx, bnx, hnx, hnxend⟩ : ∃ (nx : Tok) (bnx : Buf), tokenEofOk env.cfg b0 = .ok (some nx, bnx) ∧
      (declStart nx.type = true ∨ nx.type = ";") := by
    cases ops with
    | nil =>
      cases hy
      exact ⟨semi, b', hsemi, .inr hs⟩
    | cons o os =>
      cases hy with
      | cons hto _ =>
        exact ⟨o, _, hto, .inl (hhead (o.type, o.value) (by rw [← hops]; simp [tvs]))⟩
  obtain ⟨w4, t4, hi4, hs4, ht4, hty4, hv4⟩ := hspecS false c3 first trest w3 b0 bnx nx htoks hty3 hv3 (by rw [hb3]; exact hy0) hnx hnxend
  -- the stream seen by the pointer chain: the pushed-back copy of `nx`, then as given
  obtain ⟨ops', bmid', semi', hy', hmapeq, hsemi', hs'⟩ : ∃ (ops' : List Tok) (bmid' : Buf) (semi' : Tok),
      Yields env.cfg w4.buf ops' bmid' ∧ tvs ops' = tvs ops ∧
      tokenEofOk env.cfg bmid' = .ok (some semi', b') ∧ semi'.type = ";" := by
    cases ops with
    | nil =>
      cases hy
      rw [hsemi] at hnx
      injection hnx with hnx; injection hnx with h1 h2
      injection h1 with h1
      subst h1; subst h2
      exact ⟨[], w4.buf, t4, .nil _, rfl, ht4, by rw [hty4, hs]⟩
    | cons o os =>
      cases hy with
      | cons hto hrest =>
        rw [hto] at hnx
        injection hnx with hnx; injection hnx with h1 h2
        injection h1 with h1
        subst h1; subst h2
        exact ⟨t4 :: os, bmid, semi, .cons ht4 hrest, by simp [tvs, hty4, hv4], hsemi, hs⟩
  obtain ⟨w5, t5, hi5, hs5, ht5, hty5, _⟩ := hpre w4 ops' bmid' b' semi' (hmapeq.trans hops) hy' hsemi' (by rw [hs']; decide)
  have hsl : SameButLog { w with stack := { blk with loc := .tok tok.sidx } :: rest } w5 :=
    ((((hs1.trans hs2).trans hs3).butLog.trans hs4).trans hs5.butLog)
  have htop5 := interp_getTop env w5 { blk with loc := .tok tok.sidx } rest hsl.stack
  refine ⟨w5, t5, hsl, ht5, by rw [hty5, hs'], ?_⟩
  have hc1 : c1.type = "NAME" := hty1.trans ha
  unfold parseUsing P.setLoc
  simp only [bind, interp_bind, interp, hstack, hi1, hc1, (by decide : ("NAME" = "namespace") = False), ↓reduceIte,
    (by decide : ("NAME" = "DBL_COLON") = False), (by decide : ("NAME" = "typename") = False), Bool.or_self,
    decide_false, Bool.false_eq_true, hi2, Option.isNone_some, pure, parseUsingTypealias, core_parseType, parseTypeStep_none, hi3, hi4,
    validate_empty, parseCvPtr, core_parseCvPtrOrFn, hi5, hfn, currentAccess, htop5, Block.view, plainAlias, hv1]


theorem toplevel_using_alias_pre (env : Env) (hp : RulesProgress env.cfg = true) (F D : Nat) (w : World)
    (kw a eq : Tok) (toks : List Tok) (first : Tok) (trest : List Tok) (segs : List PQSeg) (cst vol : Bool) (pre : List (String × String)) (ops : List Tok) (semi : Tok) (d1 : DType) (bk ba bq b1 b0 bmid b' : Buf)
    (blk : Block) (rest : List Block) (hstack : w.stack = blk :: rest)
    (hmu : w.muted = false) (hfa : ¬ env.faultAt = some w.delivered)
    (htkw : tokenEofOk env.cfg w.buf = .ok (some kw, bk)) (hkw : kw.type = "using")
    (hta : tokenEofOk env.cfg bk = .ok (some a, ba)) (ha : a.type = "NAME")
    (hte : tokenEofOk env.cfg ba = .ok (some eq, bq)) (heq : eq.type = "=")
    (htf : tokenEofOk env.cfg bq = .ok (some first, b1))
    (hspecS : TypeSpecS env F D toks segs cst vol) (htoks : toks = first :: trest)
    (hy0 : Yields env.cfg b1 trest b0)
    (hhead : ∀ p ∈ pre.head?, declStart p.1 = true)
    (hy : Yields env.cfg b0 ops bmid)
    (hpre : PrefixSpec env F (D + 1) (.type (.mk segs none false) cst vol) pre d1) (hfn : isFnType d1 = false) (hops : tvs ops = pre)
    (hsemi : tokenEofOk env.cfg bmid = .ok (some semi, b')) (hs : semi.type = ";")
    (hF : 2 ≤ F) :
    ∃ (d : Option String) (bD : Buf) (w7 : World) (ct : CTok) (ev : Event),
      getDoxygen env.cfg env.mcRe w.buf = .ok (d, bD) ∧
      interp env (mainBody F (core F (D + 1 + 1)) none) w = (w7, .ok (.inl none)) ∧
      w7.buf = b' ∧ ct.value = kw.value ∧ w7.stack = { blk with loc := .tok ct.sidx } :: rest ∧
      w7.events = w.events ++ [ev] ∧ ev.kind = .item (.usingAlias (plainAlias a d1 blk d)) ∧
      ev.stateId = blk.id ∧ ev.parentId = rest.head?.map (·.id) ∧
      w7.delivered = w.delivered + 1 ∧ w7.anon = w.anon ∧ w7.muted = false ∧ w7.nextId = w.nextId := by
  obtain ⟨d, bD, wA, ct, hd, hsA, hbA, _, hv, hi⟩ := toplevel_dispatch env hp F (core F (D + 1 + 1)) w kw bk "_parse_using" htkw
    (by rw [hkw, dispatch_table_eq]; decide) (by rw [hkw, keep_doxygen_eq]; decide)
  obtain ⟨w', t', hs', htokT0, htyT, hx⟩ := using_alias_pre env F D ct d a eq toks first trest segs cst vol pre ops semi d1 { wA with mainTok := some ct }
    ba bq b1 b0 bmid b' blk rest (by show wA.stack = _; rw [hsA.stack]; exact hstack)
    (by show tokenEofOk env.cfg wA.buf = _; rw [hbA]; exact hta) ha hte heq htf hspecS htoks hy0 hhead hy hpre hfn hops hsemi hs hF
  have hst' : w'.stack = { blk with loc := .tok ct.sidx } :: rest := hs'.stack
  have hmu' : w'.muted = false := by rw [hs'.muted]; show wA.muted = _; rw [hsA.muted]; exact hmu
  have hdl' : w'.delivered = w.delivered := by rw [hs'.delivered]; show wA.delivered = _; exact hsA.delivered
  have hev' : w'.events = w.events := by rw [hs'.events]; show wA.events = _; exact hsA.events
  have han' : w'.anon = w.anon := by rw [hs'.anon]; show wA.anon = _; exact hsA.anon
  have hnx' : w'.nextId = w.nextId := by rw [hs'.nextId]; show wA.nextId = _; exact hsA.nextId
  have hdel := deliver_passing env w' (mkEvent w' (.item (.usingAlias (plainAlias a d1 blk d)))
    { blk with loc := .tok ct.sidx } (rest.head?.map (·.id))) hmu' (by rw [hdl']; exact hfa)
  have htokT : tokenEofOk env.cfg
      ({ w' with events := w'.events ++ [mkEvent w' (.item (.usingAlias (plainAlias a d1 blk d)))
          { blk with loc := .tok ct.sidx } (rest.head?.map (·.id))], delivered := w'.delivered + 1 } : World).buf =
      .ok (some t', b') := htokT0
  obtain ⟨w2, c2, hi2, hb2, hs2, _, _⟩ := step_mustBe env [";"] _ t' b' htokT (by rw [htyT]; decide)
  refine ⟨d, bD, w2, ct, _, hd, ?_, hb2, hv, by rw [hs2.stack]; exact hst', by rw [hs2.events, hev'], rfl, rfl, rfl,
    by rw [hs2.delivered, hdl'], by rw [hs2.anon]; exact han', by rw [hs2.muted]; exact hmu', by rw [hs2.nextId]; exact hnx'⟩
  rw [hi]
  have hi2' := hi2
  simp only [hst'] at hi2'
  simp only [dispatch, hx, bind, interp_bind, P.emit, interp, hst', hdel, hi2', pure]


end Cxx
