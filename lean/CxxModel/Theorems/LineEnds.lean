/-
  Theorems/LineEnds.lean — the trailing-comment scan keeps every line end (C09, C11; the statement that the repair
  9b2dc7f makes true).  `nlSigOf l` is the token list as a NEWLINE-SENSITIVE reader sees it (`token_newline_eof_ok`, used
  by `#pragma` / `#include` handling): everything but comments and blanks, NEWLINE tokens included.
  `doxAfterScan_nlSig`: `get_doxygen_after()` removes comment tokens only — the newline-sensitive view of the buffer is
  unchanged, so a directive line that an earlier comment merged into the same buffer still ends where it is written.
  Before the repair the scan dropped the NEWLINE it stopped at, and this statement was false (`int a, b; // c` followed
  by `#pragma once` lost the pragma's line end).
-/
import CxxModel.Theorems.SigEq
namespace Cxx

/-- what a newline-sensitive read can see of a buffer -/
def nlSigOf (l : List Tok) : List Tok := l.filter (fun t => !isDiscardExceptNl t.type)

theorem nlSigOf_append (a b : List Tok) : nlSigOf (a ++ b) = nlSigOf a ++ nlSigOf b := by simp [nlSigOf, List.filter_append]

theorem nlSigOf_cons (t : Tok) (ts : List Tok) : nlSigOf (t :: ts) = nlSigOf [t] ++ nlSigOf ts := by
  have : t :: ts = [t] ++ ts := rfl
  rw [this, nlSigOf_append]

/-- table facts: NEWLINE is visible to a newline-sensitive read, blanks and comments are not (regenerated sets) -/
theorem nl_table_facts : isDiscardExceptNl "NEWLINE" = false ∧ isDiscardExceptNl "WHITESPACE" = true ∧
    isDiscardExceptNl "COMMENT_SINGLELINE" = true ∧ isDiscardExceptNl "COMMENT_MULTILINE" = true := by decide

theorem doxAfterScan_nlSig : ∀ (l cs nb : List Tok),
    nlSigOf ((doxAfterScan cs nb l).2.1 ++ (doxAfterScan cs nb l).2.2) = nlSigOf nb ++ nlSigOf l := by
  intro l
  induction l with
  | nil => intro cs nb; simp [doxAfterScan, nlSigOf]
  | cons t ts ih =>
    intro cs nb
    simp only [doxAfterScan]
    split
    · rw [nlSigOf_append, nlSigOf_append, nlSigOf_cons t ts, List.append_assoc]
    · split
      · rename_i h
        have hd : isDiscardExceptNl t.type = true := by rw [h]; exact nl_table_facts.2.1
        rw [ih]; simp [nlSigOf, List.filter_cons, hd, List.filter_append]
      · split
        · rename_i h
          have hd : isDiscardExceptNl t.type = true := by
            simp only [isComment, Bool.or_eq_true, decide_eq_true_eq] at h
            rcases h with h | h
            · rw [h]; exact nl_table_facts.2.2.1
            · rw [h]; exact nl_table_facts.2.2.2
          rw [ih]; simp [nlSigOf, List.filter_cons, hd]
        · split
          · rw [nlSigOf_append, nlSigOf_append, nlSigOf_cons t ts, List.append_assoc]
          · rw [ih, nlSigOf_append, nlSigOf_cons t ts, List.append_assoc]

/-- **`get_doxygen_after()` is invisible to newline-sensitive reads**: it leaves the lexer state alone and removes
    nothing but comment tokens from the buffer — every NEWLINE token, hence every directive line's end, stays -/
theorem getDoxygenAfter_keeps_line_ends (mcRe : Re) (b : Buf) :
    (getDoxygenAfter mcRe b).2.lex = b.lex ∧ (getDoxygenAfter mcRe b).2.bounded = b.bounded ∧
      nlSigOf (getDoxygenAfter mcRe b).2.tokbuf = nlSigOf b.tokbuf := by
  unfold getDoxygenAfter
  split
  · exact ⟨rfl, rfl, rfl⟩
  · split
    · exact ⟨rfl, rfl, rfl⟩
    · refine ⟨rfl, rfl, ?_⟩
      have := doxAfterScan_nlSig b.tokbuf [] []
      simpa [nlSigOf] using this

/-! ### newline-sensitive reads cannot tell such buffers apart (the `SigEq` development for `token_newline_eof_ok`) -/

structure NlSigEq (b b' : Buf) : Prop where
  lex : b.lex = b'.lex
  bounded : b.bounded = b'.bounded
  sig : nlSigOf b.tokbuf = nlSigOf b'.tokbuf

theorem NlSigEq.refl (b : Buf) : NlSigEq b b := ⟨rfl, rfl, rfl⟩
theorem NlSigEq.symm {a b : Buf} (h : NlSigEq a b) : NlSigEq b a := ⟨h.lex.symm, h.bounded.symm, h.sig.symm⟩
theorem NlSigEq.trans {a b c : Buf} (h1 : NlSigEq a b) (h2 : NlSigEq b c) : NlSigEq a c :=
  ⟨h1.lex.trans h2.lex, h1.bounded.trans h2.bounded, h1.sig.trans h2.sig⟩

theorem popSignificant_nlSigOf : ∀ (l : List Tok),
    popSignificant isDiscardExceptNl l = (match nlSigOf l with
      | [] => none
      | t :: _ => some (t, (popSignificant isDiscardExceptNl l).map (·.2) |>.getD [])) ∧
    (∀ t r, popSignificant isDiscardExceptNl l = some (t, r) → nlSigOf l = t :: nlSigOf r) ∧
    (popSignificant isDiscardExceptNl l = none → nlSigOf l = []) := by
  intro l
  induction l with
  | nil => simp [popSignificant, nlSigOf]
  | cons x xs ih =>
    by_cases hd : isDiscardExceptNl x.type = true
    · obtain ⟨h1, h2, h3⟩ := ih
      have hs : nlSigOf (x :: xs) = nlSigOf xs := by simp [nlSigOf, List.filter_cons, hd]
      refine ⟨?_, ?_, ?_⟩
      · simp only [popSignificant, hd, ↓reduceIte, hs]; exact h1
      · intro t r h; simp only [popSignificant, hd, ↓reduceIte] at h; rw [hs]; exact h2 t r h
      · intro h; simp only [popSignificant, hd, ↓reduceIte] at h; rw [hs]; exact h3 h
    · have hs : nlSigOf (x :: xs) = x :: nlSigOf xs := by simp [nlSigOf, List.filter_cons, hd]
      refine ⟨?_, ?_, ?_⟩
      · simp [popSignificant, hd, hs]
      · intro t r h; simp only [popSignificant, hd, Bool.false_eq_true, ↓reduceIte, Option.some.injEq, Prod.mk.injEq] at h
        obtain ⟨rfl, rfl⟩ := h; exact hs
      · intro h; simp [popSignificant, hd] at h

/-- two line buffers with the same significant tokens pop the same token -/
theorem pop_nlSigEq {l l' : List Tok} (h : nlSigOf l = nlSigOf l') :
    (popSignificant isDiscardExceptNl l = none ∧ popSignificant isDiscardExceptNl l' = none) ∨
    (∃ t r r', popSignificant isDiscardExceptNl l = some (t, r) ∧ popSignificant isDiscardExceptNl l' = some (t, r') ∧ nlSigOf r = nlSigOf r') := by
  cases h1 : popSignificant isDiscardExceptNl l with
  | none =>
    have := (popSignificant_nlSigOf l).2.2 h1
    cases h2 : popSignificant isDiscardExceptNl l' with
    | none => exact .inl ⟨rfl, rfl⟩
    | some x =>
      obtain ⟨t, r⟩ := x
      have := (popSignificant_nlSigOf l').2.1 t r h2
      simp_all
  | some x =>
    obtain ⟨t, r⟩ := x
    have hs := (popSignificant_nlSigOf l).2.1 t r h1
    cases h2 : popSignificant isDiscardExceptNl l' with
    | none =>
      have := (popSignificant_nlSigOf l').2.2 h2
      simp_all
    | some x' =>
      obtain ⟨t', r'⟩ := x'
      have hs' := (popSignificant_nlSigOf l').2.1 t' r' h2
      rw [hs, hs'] at h
      injection h with ht hr
      subst ht
      exact .inr ⟨t, r, r', rfl, rfl, hr⟩

theorem nextTok_nlSigEq (cfg : LexCfg) (n : Nat) {b b' : Buf} (h : NlSigEq b b') :
    (∃ e, nextTok cfg isDiscardExceptNl (n + 1) b = .error e ∧ nextTok cfg isDiscardExceptNl (n + 1) b' = .error e) ∨
    (∃ o b1 b1', nextTok cfg isDiscardExceptNl (n + 1) b = .ok (o, b1) ∧ nextTok cfg isDiscardExceptNl (n + 1) b' = .ok (o, b1') ∧ NlSigEq b1 b1') := by
  obtain ⟨tb, lx, bd⟩ := b
  obtain ⟨tb', lx', bd'⟩ := b'
  obtain ⟨hl, hbd, hsig⟩ := h
  simp only at hl hbd hsig
  subst hl; subst hbd
  simp only [nextTok]
  rcases pop_nlSigEq hsig with ⟨h1, h2⟩ | ⟨t, r, r', h1, h2, hr⟩
  · simp only [h1, h2]
    cases hf : fill cfg { tokbuf := [], lex := lx, bounded := bd } with
    | error e => exact .inl ⟨e, rfl, rfl⟩
    | ok x =>
      obtain ⟨more, b2⟩ := x
      cases more with
      | false => exact .inr ⟨none, b2, b2, rfl, rfl, NlSigEq.refl _⟩
      | true =>
        simp only
        cases hn : nextTok cfg isDiscardExceptNl n b2 with
        | error e => exact .inl ⟨e, rfl, rfl⟩
        | ok y => obtain ⟨o, b3⟩ := y; exact .inr ⟨o, b3, b3, rfl, rfl, NlSigEq.refl _⟩
  · simp only [h1, h2]
    exact .inr ⟨some t, _, _, rfl, rfl, ⟨rfl, rfl, hr⟩⟩

/-- **`token_newline_eof_ok` cannot see blanks and comments waiting in the buffer**: from `NlSigEq` stream states it
    returns the same token (or end, or error) and `NlSigEq` states again -/
theorem tokenNewlineEofOk_nlSigEq (cfg : LexCfg) {b b' : Buf} (h : NlSigEq b b') :
    (∃ e, tokenNewlineEofOk cfg b = .error e ∧ tokenNewlineEofOk cfg b' = .error e) ∨
    (∃ o b1 b1', tokenNewlineEofOk cfg b = .ok (o, b1) ∧ tokenNewlineEofOk cfg b' = .ok (o, b1') ∧ NlSigEq b1 b1') := by
  simp only [tokenNewlineEofOk, fuelFor, ← h.lex]
  exact nextTok_nlSigEq cfg _ h


/-- **after the trailing scan a newline-sensitive read returns what it would have returned before it** (same token or end or
    error, and again indistinguishable states) -/
theorem tokenNewlineEofOk_after_getDoxygenAfter (cfg : LexCfg) (mcRe : Re) (b : Buf) :
    (∃ e, tokenNewlineEofOk cfg (getDoxygenAfter mcRe b).2 = .error e ∧ tokenNewlineEofOk cfg b = .error e) ∨
    (∃ o b1 b1', tokenNewlineEofOk cfg (getDoxygenAfter mcRe b).2 = .ok (o, b1) ∧ tokenNewlineEofOk cfg b = .ok (o, b1') ∧ NlSigEq b1 b1') := by
  obtain ⟨h1, h2, h3⟩ := getDoxygenAfter_keeps_line_ends mcRe b
  exact tokenNewlineEofOk_nlSigEq cfg ⟨h1, h2, h3⟩

private def wtk (ty : String) : Tok := { type := ty, value := ty, loc := default, sidx := 0 }
private def wbuf (lex : LexState) : Buf :=
  { tokbuf := [wtk ";", wtk "WHITESPACE", wtk "PRAGMA_DIRECTIVE", wtk "WHITESPACE", wtk "NAME", wtk "NEWLINE"], lex := lex, bounded := false }

/-- the witness of the repaired defect, on the model: after `b` of `int a , b ; #pragma once NEWLINE` (the comment
    between `;` and `#pragma` already removed by the scan for the first declarator) the scan keeps the NEWLINE -/
example (mcRe : Re) (lex : LexState) :
    (getDoxygenAfter mcRe (wbuf lex)).2.tokbuf.map (·.type) = [";", "WHITESPACE", "PRAGMA_DIRECTIVE", "WHITESPACE", "NAME", "NEWLINE"] := by
  simp [getDoxygenAfter, wbuf, wtk, doxAfterScan, isComment]

end Cxx
