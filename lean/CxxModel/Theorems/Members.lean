import CxxModel.Theorems.ItemKinds

/-!
# Class bodies as sequences of members

A `Member` is to a class body what an `Item` is to namespace scope; in addition it is told the
access level in force before it (`acc`) and says which one is in force after it (`accOut`).
`Item.cls` turns `key N { members };` into an `Item`, so classes take part in `parse_item`:
every field and method is reported with the access level set by the LATEST access specifier before
it in its own class, or the class key's default when there is none.
-/

namespace Cxx
open P

/-- only `state.location` and `state.access` differ -/
def Block.SameButLocAcc (a b : Block) : Prop :=
  a.id = b.id ∧ a.hdr = b.hdr ∧ a.priorMuted = b.priorMuted ∧ a.isGlobal = b.isGlobal

theorem Block.SameButLocAcc.refl (a : Block) : a.SameButLocAcc a := ⟨rfl, rfl, rfl, rfl⟩
theorem Block.SameButLocAcc.trans {a b c : Block} (h1 : a.SameButLocAcc b) (h2 : b.SameButLocAcc c) : a.SameButLocAcc c :=
  ⟨h1.1.trans h2.1, h1.2.1.trans h2.2.1, h1.2.2.1.trans h2.2.2.1, h1.2.2.2.trans h2.2.2.2⟩

/-- as `Ran`, in a class body: the access level in force afterwards is `acc'` -/
structure RanC (env : Env) (F : Nat) (c : Core) (w : World) (n : Nat) (b' : Buf) (blk : Block) (rest : List Block)
    (acc' : String) (evs : List Event) (w7 : World) : Prop where
  chain : ∃ ws, IterChain env F c w ws w7 ∧ ws.length = n
  buf : SigEq b' w7.buf
  stack : ∃ blk7, w7.stack = blk7 :: rest ∧ blk.SameButLocAcc blk7 ∧ blk7.access = some acc'
  events : w7.events = w.events ++ evs
  muted : w7.muted = false

structure Member (env : Env) (F : Nat) (c : Core) where
  At : Buf → Buf → Prop
  /-- the callbacks allowed inside class block `blk` when `acc` is the access level in force -/
  Ev : Block → List Block → String → List Event → Prop
  accOut : String → String
  size : Nat
  at_sigEq : ∀ {b b' k : Buf}, At b b' → SigEq b k → ∃ k', At k k' ∧ SigEq b' k'
  sound : ∀ (w : World) (b' : Buf) (blk : Block) (rest : List Block) (acc : String), w.stack = blk :: rest →
    blk.hdr.kind = .cls → blk.access = some acc → w.muted = false → At w.buf b' →
    ∃ (w7 : World) (evs : List Event), RanC env F c w size b' blk rest (accOut acc) evs w7 ∧ Ev blk rest acc evs

/-- the access level after a list of members -/
def accAfter {env : Env} {F : Nat} {c : Core} (ms : List (Member env F c)) (acc : String) : String :=
  ms.foldl (fun a m => m.accOut a) acc

inductive MSeqAt {env : Env} {F : Nat} {c : Core} : List (Member env F c) → Buf → Buf → Prop
  | nil (b : Buf) : MSeqAt [] b b
  | cons {m : Member env F c} {ms : List (Member env F c)} {b b1 b' : Buf} : m.At b b1 → MSeqAt ms b1 b' → MSeqAt (m :: ms) b b'

/-- one group of callbacks per member, each under the access level the members before it leave -/
inductive MSeqEv {env : Env} {F : Nat} {c : Core} (blk : Block) (rest : List Block) :
    List (Member env F c) → String → List Event → Prop
  | nil (acc : String) : MSeqEv blk rest [] acc []
  | cons {m : Member env F c} {ms : List (Member env F c)} {acc : String} {g evs : List Event} {blk' : Block} :
      blk.SameButLocAcc blk' → m.Ev blk' rest acc g → MSeqEv blk rest ms (m.accOut acc) evs → MSeqEv blk rest (m :: ms) acc (g ++ evs)

def mseqSize {env : Env} {F : Nat} {c : Core} (ms : List (Member env F c)) : Nat := (ms.map (·.size)).sum

theorem MSeqAt.sigEq {env : Env} {F : Nat} {c : Core} : ∀ {ms : List (Member env F c)} {b b' k : Buf},
    MSeqAt ms b b' → SigEq b k → ∃ k', MSeqAt ms k k' ∧ SigEq b' k' := by
  intro ms
  induction ms with
  | nil => intro b b' k h hs; cases h; exact ⟨k, .nil _, hs⟩
  | cons m ms ih =>
    intro b b' k h hs
    cases h with
    | cons h1 hrest =>
      obtain ⟨k1, hk1, hs1⟩ := m.at_sigEq h1 hs
      obtain ⟨k', hk', hs'⟩ := ih hrest hs1
      exact ⟨k', .cons hk1 hk', hs'⟩

theorem MSeqEv.reanchor {env : Env} {F : Nat} {c : Core} {blk blk1 : Block} {rest : List Block} (h1 : blk.SameButLocAcc blk1) :
    ∀ {ms : List (Member env F c)} {a : String} {evs : List Event}, MSeqEv blk1 rest ms a evs → MSeqEv blk rest ms a evs := by
  intro ms a evs h
  induction h with
  | nil a => exact .nil a
  | cons hsb hev _ ih2 => exact .cons (h1.trans hsb) hev ih2

theorem mseq_sound {env : Env} {F : Nat} {c : Core} : ∀ (ms : List (Member env F c)) (w : World) (b' : Buf) (blk : Block)
    (rest : List Block) (acc : String), w.stack = blk :: rest → blk.hdr.kind = .cls → blk.access = some acc →
    w.muted = false → MSeqAt ms w.buf b' →
    ∃ (w7 : World) (evs : List Event), RanC env F c w (mseqSize ms) b' blk rest (accAfter ms acc) evs w7 ∧
      MSeqEv blk rest ms acc evs := by
  intro ms
  induction ms with
  | nil =>
    intro w b' blk rest acc hst hk hacc hmu hat
    cases hat
    exact ⟨w, [], ⟨⟨[], .nil _, rfl⟩, SigEq.refl _, ⟨blk, hst, .refl _, hacc⟩, by simp, hmu⟩, .nil _⟩
  | cons m ms ih =>
    intro w b' blk rest acc hst hk hacc hmu hat
    cases hat with
    | cons h1 hrest =>
      rename_i b1
      obtain ⟨w1, g, ⟨⟨ws1, hc1, hl1⟩, hb1, ⟨blk1, hst1, hsb1, hacc1⟩, hev1, hmu1⟩, hg⟩ := m.sound w b1 blk rest acc hst hk hacc hmu h1
      obtain ⟨k', hrest', hs'⟩ := hrest.sigEq hb1
      obtain ⟨w7, evs, ⟨⟨ws2, hc2, hl2⟩, hb2, ⟨blk7, hst7, hsb7, hacc7⟩, hev2, hmu2⟩, hse⟩ :=
        ih w1 k' blk1 rest (m.accOut acc) hst1 (by rw [← hsb1.2.1]; exact hk) hacc1 hmu1 hrest'
      refine ⟨w7, g ++ evs, ⟨⟨ws1 ++ ws2, hc1.append hc2, by simp [hl1, hl2, mseqSize]⟩, hs'.trans hb2,
        ⟨blk7, hst7, hsb1.trans hsb7, hacc7⟩, by rw [hev2, hev1]; simp, hmu2⟩, ?_⟩
      exact .cons (.refl _) hg (hse.reanchor hsb1)

end Cxx
