/-
  Theorems/FieldDecls.lean — data member statements with ANY NUMBER of declarators (C03): in a
  class body `T d1 , d2 , … , dn ;` delivers exactly one `on_class_field` per declarator, in order,
  each with its own name, the type ITS chain denotes and the access level in force in that class.
-/
import CxxModel.Theorems.VarDecls
namespace Cxx
open P

/-- the callbacks expected for declarators `ps` (with the types they denote) and doc texts `doxs` -/
def fieldKinds (acc : String) (ps : List (Dtor × DType)) (doxs : List (Option String)) : List EventKind :=
  List.zipWith (fun p dox => EventKind.item (.classField (plainField p.1.x p.2 acc dox))) ps doxs

theorem declarators_fields (env : Env) (hnf : env.faultAt = none) (F D : Nat) (pt : DType) (hpt : isFnType pt = false)
    (blkId : Nat) (hdr : BlockHdr) (hk : hdr.kind = .cls) (acc : String) (rest : List Block) :
    ∀ (ds : List (Dtor × DType)) (last : Dtor × DType) (loc : LocRef) (dox : Option String) (w : World) (b' : Buf) (n : Nat)
      (blk : Block),
    blk.id = blkId → blk.hdr = hdr → blk.access = some acc → w.stack = blk :: rest → w.muted = false →
    (∀ p ∈ ds, p.1.OK pt p.2 ∧ p.1.sep.type = "," ∧ p.1.ops.length + 1 ≤ F) →
    last.1.OK pt last.2 → last.1.sep.type = ";" → last.1.ops.length + 1 ≤ F →
    Yields env.cfg w.buf (ds.flatMap (fun p => p.1.toks) ++ last.1.toks) b' → ds.length + 1 ≤ n →
    ∃ (wF : World) (evs : List Event) (doxs : List (Option String)) (l : LocRef) (blkF : Block),
      interp env (loopN n (loc, dox) (declaratorBody F (core F (D + 1)) pt {} .none false false)) w = (wF, .ok ()) ∧
      SigEq b' wF.buf ∧ wF.stack = blkF :: rest ∧ blkF.id = blkId ∧ blkF.hdr = hdr ∧ blkF.access = some acc ∧ blkF.loc = l ∧
      wF.events = w.events ++ evs ∧ doxs.length = ds.length + 1 ∧
      evs.map (·.kind) = fieldKinds acc (ds ++ [last]) doxs ∧ (∀ e ∈ evs, e.stateId = blkId ∧ e.parentId = rest.head?.map (·.id)) ∧
      (∀ d, dox = some d → doxs.head? = some (some d)) ∧
      wF.delivered = w.delivered + (ds.length + 1) ∧ wF.anon = w.anon ∧ wF.muted = false ∧ wF.nextId = w.nextId := by
  intro ds
  induction ds with
  | nil =>
    intro last loc dox w b' n blk hid hhdr hacc hstack hmu _ hok hsep hlen hy hn
    obtain ⟨ha, hx, hxv⟩ := hok
    simp only [List.flatMap_nil, List.nil_append, Dtor.toks] at hy
    obtain ⟨bmid, hy1, hy2⟩ := Yields.split hy
    cases hy2 with
    | cons htx hy3 =>
      rename_i bx
      cases hy3 with
      | cons hts hnil =>
        rename_i bs
        have hbs : bs = b' := by cases hnil; rfl
        subst hbs
        obtain ⟨k, rfl⟩ : ∃ k, n = k + 1 := ⟨n - 1, by omega⟩
        obtain ⟨w7, c7, dox7, ev, hi7, hsig, hst7, hev7, hk7, hid7, hpar7, hdox7, hdl7, han7, hmu7, hnx7, _⟩ :=
          declarator_field env F D pt loc dox last.1.ops last.1.x last.1.sep last.2 w bmid bx bs blk rest hstack
            (by rw [hhdr]; exact hk) acc hacc hmu (by rw [hnf]; simp) hpt hy1 ha htx hx hxv hts (.inl hsep) hlen
        refine ⟨w7, [ev], [dox7], loc, { blk with loc := loc }, ?_, hsig, hst7, hid, hhdr, hacc, rfl, hev7, rfl, ?_, ?_, ?_,
          by rw [hdl7]; rfl, han7, hmu7, hnx7⟩
        · rw [loopN]
          simp only [bind, interp_bind, hi7, afterDeclarator, hsep, ↓reduceIte, pure, interp]
        · simp [fieldKinds, hk7]
        · intro e he
          simp only [List.mem_singleton] at he
          subst he
          exact ⟨hid7.trans hid, hpar7⟩
        · intro d hd
          simp [hdox7 d hd]
  | cons p ps ih =>
    intro last loc dox w b' n blk hid hhdr hacc hstack hmu hall hok hsep hlen hy hn
    obtain ⟨⟨ha, hx, hxv⟩, hpsep, hplen⟩ := hall p (by simp)
    simp only [List.flatMap_cons, Dtor.toks, List.append_assoc] at hy
    obtain ⟨bmid, hy1, hy2⟩ := Yields.split hy
    cases hy2 with
    | cons htx hy3 =>
      rename_i bx
      cases hy3 with
      | cons hts hrest =>
        rename_i bs
        obtain ⟨k, rfl⟩ : ∃ k, n = k + 1 := ⟨n - 1, by omega⟩
        obtain ⟨w7, c7, dox7, ev, hi7, hsig, hst7, hev7, hk7, hid7, hpar7, hdox7, hdl7, han7, hmu7, hnx7, _⟩ :=
          declarator_field env F D pt loc dox p.1.ops p.1.x p.1.sep p.2 w bmid bx bs blk rest hstack
            (by rw [hhdr]; exact hk) acc hacc hmu (by rw [hnf]; simp) hpt hy1 ha htx hx hxv hts (.inr hpsep) hplen
        -- the rest of the statement, read from the stream as `_parse_field` left it
        obtain ⟨bE, hyE, hsigE⟩ := Yields.sigEq hrest hsig
        obtain ⟨wF, evs, doxs, l, blkF, hiF, hsigF, hstF, hidF, hhdrF, haccF, hlF, hevF, hdl, hkinds, hids, _, hdlF, hanF, hmuF, hnxF⟩ :=
          ih last (LocRef.tok c7.sidx) none w7 bE k { blk with loc := loc } hid hhdr hacc hst7 hmu7
            (fun q hq => hall q (by simp [hq])) hok hsep hlen
            (by simpa [Dtor.toks, List.append_assoc] using hyE) (by simp at hn; omega)
        refine ⟨wF, ev :: evs, dox7 :: doxs, l, blkF, ?_, hsigE.trans hsigF, hstF, hidF, hhdrF, haccF, hlF,
          by rw [hevF, hev7]; simp, by simp [hdl], ?_, ?_, ?_, by rw [hdlF, hdl7]; simp; omega, by rw [hanF, han7], hmuF,
          by rw [hnxF, hnx7]⟩
        · rw [loopN]
          have hne : ¬ p.1.sep.type = ";" := by rw [hpsep]; decide
          simp only [bind, interp_bind, hi7, afterDeclarator, hne, ↓reduceIte, hiF]
        · simp only [List.map_cons, hk7, hkinds, fieldKinds, List.cons_append, List.zipWith_cons_cons]
        · intro e he
          simp only [List.mem_cons] at he
          rcases he with rfl | he
          · exact ⟨hid7.trans hid, hpar7⟩
          · exact hids e he
        · intro d hd
          simp [hdox7 d hd]

end Cxx
