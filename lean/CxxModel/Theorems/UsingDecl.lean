/-
  Theorems/UsingDecl.lean — the whole declaration `using namespace n1 :: … :: nk ;` (C01).
  After `using` has been dispatched, outside a class, `_parse_using` on this form is exactly:
  record the location of the `using` token on the innermost block, deliver ONE
  `on_using_namespace [n1, …, nk]`, then require the `;`.
-/
import CxxModel.Theorems.UsingDir
import CxxModel.Theorems.ExternForm
namespace Cxx
open P

theorem using_namespace_decl (env : Env) (F : Nat) (c : Core) (tok : CTok) (doxygen : Option String)
    (kw first : Tok) (pairs : List (Tok × Tok)) (term : Tok) (w : World) (bmid b' : Buf)
    (blk : Block) (rest : List Block) (hstack : w.stack = blk :: rest) (hk : blk.view.kind ≠ .cls)
    (hkw : kw.type = "namespace") (hf : first.type = "NAME")
    (hall : ∀ p ∈ pairs, p.1.type = "DBL_COLON" ∧ p.2.type = "NAME")
    (hy : Yields env.cfg w.buf (kw :: first :: pairs.flatMap (fun p => [p.1, p.2])) bmid)
    (htok : tokenEofOk env.cfg bmid = .ok (some term, b')) (hterm : term.type ≠ "DBL_COLON") (hF : pairs.length + 1 ≤ F) :
    ∃ (w' : World) (t' : Tok), w'.buf = Cxx.returnToken t' b' ∧ t'.tv = term.tv ∧
      SameParse { w with stack := { blk with loc := .tok tok.sidx } :: rest } w' ∧
      interp env (parseUsing F c tok doxygen none) w =
        interp env (do
          P.emit (.usingNamespace (first.value :: pairs.map (·.2.value)))
          let _ ← nextTokenMustBe [";"]
          pure ()) w' := by
  cases hy with
  | cons htok1 hrest =>
    rename_i b1
    obtain ⟨w1, c1, hi1, hb1, hs1, hty1, _⟩ := step_mustBe env ["NAME", "DBL_COLON", "namespace", "typename", "enum"]
      { w with stack := { blk with loc := .tok tok.sidx } :: rest } kw b1 htok1 (by rw [hkw]; decide)
    have htop := interp_getTop env w1 { blk with loc := .tok tok.sidx } rest (by rw [hs1.stack])
    obtain ⟨w', t', hb, htv, hs, hi⟩ := usingDirective_plain env pairs first w1 bmid b' term F hf hall
      (by rw [hb1]; exact hrest) htok hterm hF
    refine ⟨w', t', hb, htv, hs1.trans hs, ?_⟩
    unfold parseUsing P.setLoc
    have hk' : ¬ ({ blk with loc := LocRef.tok tok.sidx } : Block).view.kind = .cls := hk
    simp only [bind, interp_bind, interp, hstack, hi1, hty1, hkw, ↓reduceIte, Option.isSome_none, Bool.false_eq_true, htop, hk', hi]

end Cxx
