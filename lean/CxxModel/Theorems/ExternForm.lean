/-
  Theorems/ExternForm.lean — a whole declaration form: `extern "<linkage>" {` (C01, C12).
  After `extern` has been dispatched, outside a class, `_parse_extern` on a string literal
  followed by `{` is exactly "open ONE extern block carrying the written linkage string";
  inside a class it raises at the `extern` token without opening anything.
-/
import CxxModel.Theorems.Steps
namespace Cxx
open P

theorem interp_getTop (env : Env) (w : World) (blk : Block) (rest : List Block) (h : w.stack = blk :: rest) :
    interp env P.getTop w = (w, .ok blk.view) := by
  unfold P.getTop
  simp only [interp, h]

theorem extern_block_form (env : Env) (F : Nat) (c : Core) (tok : CTok) (doxygen : Option String) (str ob : Tok)
    (w : World) (b' : Buf) (blk : Block) (rest : List Block) (hstack : w.stack = blk :: rest) (hk : blk.view.kind ≠ .cls)
    (hs : str.type = "STRING_LITERAL") (hob : ob.type = "{") (hy : Yields env.cfg w.buf [str, ob] b') :
    ∃ (w' : World) (e : CTok), w'.buf = b' ∧ SameParse w w' ∧ e.value = str.value ∧
      interp env (parseExtern F c tok doxygen) w =
        interp env (Prog.push { kind := .ext, loc := .tok tok.sidx, linkage := e.value } (Prog.pure ())) w' := by
  cases hy with
  | cons htok1 hrest =>
    rename_i b1
    cases hrest with
    | cons htok2 hrest2 =>
      rename_i b2
      have hb : b2 = b' := by cases hrest2; rfl
      subst hb
      obtain ⟨w1, c1, hi1, hb1, hs1, hty1, hv1⟩ := step_tokenIf_hit env ["STRING_LITERAL", "template"] w str b1 htok1 (by rw [hs]; decide)
      obtain ⟨w2, c2, hi2, hb2, hs2, _, _⟩ := step_tokenIf_hit env ["{"] w1 ob b2 (by rw [hb1]; exact htok2) (by rw [hob]; decide)
      have htop := interp_getTop env w1 blk rest (by rw [hs1.stack]; exact hstack)
      refine ⟨w2, c1, hb2, hs1.trans hs2, hv1, ?_⟩
      unfold parseExtern
      simp only [bind, interp_bind, hi1, htop, hk, ↓reduceIte, hty1, hs, hi2, Option.isSome_some]

/-- inside a class body the same tokens are rejected at the `extern` token -/
theorem extern_in_class_rejected (env : Env) (F : Nat) (c : Core) (tok : CTok) (doxygen : Option String) (str : Tok)
    (w : World) (b1 : Buf) (blk : Block) (rest : List Block) (hstack : w.stack = blk :: rest) (hk : blk.view.kind = .cls)
    (hs : str.type = "STRING_LITERAL") (htok : tokenEofOk env.cfg w.buf = .ok (some str, b1)) :
    ∃ (w' : World), w'.buf = b1 ∧ SameParse w w' ∧
      interp env (parseExtern F c tok doxygen) w = interp env (raiseParseError (some tok)) w' := by
  obtain ⟨w1, c1, hi1, hb1, hs1, hty1, hv1⟩ := step_tokenIf_hit env ["STRING_LITERAL", "template"] w str b1 htok (by rw [hs]; decide)
  have htop := interp_getTop env w1 blk rest (by rw [hs1.stack]; exact hstack)
  refine ⟨w1, hb1, hs1, ?_⟩
  unfold parseExtern
  simp only [bind, interp_bind, hi1, htop, hk, ↓reduceIte]

end Cxx
