/-
  Theorems/FnGen.lean — function declarations over ANY return-type specifier and ANY parameter list that
  `_parse_parameters` decodes (C01, C02): `S ptr-ops f ( parameters ) ;` delivers exactly ONE `on_function`
  whose return type is the type the pointer chain denotes over the type `S` denotes (`TypeSpecR`).
-/
import CxxModel.Theorems.DeclGen
import CxxModel.Theorems.FnDecl
import CxxModel.Theorems.MethodDecl
namespace Cxx
open P

theorem parseDeclarations_function_gen (env : Env) (F D : Nat) (tok : CTok) (doxygen : Option String)
    (toks : List Tok) (f : Tok) (trest : List Tok) (segs : List PQSeg) (cst vol : Bool) (ops : List Tok) (x op : Tok) (plist : List Param) (semi : Tok) (d1 : DType) (w : World) (b0 bmid bx bo bc b' : Buf)
    (blk : Block) (rest : List Block) (hstack : w.stack = blk :: rest) (hk : blk.hdr.kind ≠ .cls)
    (hmu : w.muted = false) (hfa : ¬ env.faultAt = some w.delivered)
    (hspec : TypeSpecR env F (D + 1 + 1) toks segs cst vol) (htoks : toks = f :: trest)
    (hty : tok.type = f.type) (htv : tok.value = f.value)
    (hy0 : Yields env.cfg w.buf trest b0)
    (hops : opsHeadOk ops = true) (hopsv : ∀ o ∈ ops, o.value ≠ "auto")
    (hy : Yields env.cfg b0 ops bmid)
    (ha : applyPtrOps (.type (.mk segs none false) cst vol) (ops.map (·.type)) = some d1)
    (htx : tokenEofOk env.cfg bmid = .ok (some x, bx)) (hx : x.type = "NAME") (hxv : identVal x.value = true)
    (hto : tokenEofOk env.cfg bx = .ok (some op, bo)) (hop : op.type = "(")
    (hparams : ∀ W : World, W.buf = bo → ∃ w7, interp env (parseParametersStep F (core F (D + 1 + 1 + 1)) true) W = (w7, .ok (plist, false, [])) ∧
      SameButLog W w7 ∧ w7.buf = bc)
    (hsemi : tokenEofOk env.cfg bc = .ok (some semi, b')) (hs : semi.type = ";")
    (hF : ops.length + 2 ≤ F) :
    ∃ (w7 : World) (ev : Event),
      interp env (parseDeclarations F (core F (D + 1 + 1 + 1 + 1)) tok doxygen) w = (w7, .ok ()) ∧
      w7.buf = b' ∧ w7.stack = { blk with loc := .tok tok.sidx } :: rest ∧
      w7.events = w.events ++ [ev] ∧ ev.kind = .item (.function { plainFunction x d1 doxygen with
        parameters := plist }) ∧
      ev.stateId = blk.id ∧ ev.parentId = rest.head?.map (·.id) ∧
      w7.delivered = w.delivered + 1 ∧ w7.anon = w.anon ∧ w7.muted = false ∧ w7.nextId = w.nextId ∧
      w7.mainTok = w.mainTok := by
  have hxauto : x.value ≠ "auto" := by
    have := hxv
    simp only [identVal, Bool.and_eq_true, Bool.not_eq_true', bne_iff_ne, ne_eq] at this
    exact this.2
  -- the token after the type name: the first pointer operator, or the name
  obtain ⟨nx, bnx, hnx, hnxstop, hnxauto⟩ : ∃ (nx : Tok) (bnx : Buf), tokenEofOk env.cfg b0 = .ok (some nx, bnx) ∧
      declStart nx.type = true ∧ nx.value ≠ "auto" := by
    cases ops with
    | nil =>
      cases hy
      exact ⟨x, bx, htx, by rw [hx]; decide, hxauto⟩
    | cons o os =>
      cases hy with
      | cons hto _ =>
        have ho : o.type = "*" := by simpa [opsHeadOk] using hops
        exact ⟨o, _, hto, by rw [ho]; decide, hopsv o (by simp)⟩
  obtain ⟨w1, t1, hi1, hs1, ht1, hty1, hv1⟩ := hspec true tok f trest w b0 bnx nx htoks hty htv hy0 hnx hnxstop
  obtain ⟨w2, t2, hi2, hs2, ht2, hty2, hv2⟩ := step_tokenIfP_miss env (fun t => ["auto"].contains t.value) w1 t1 bnx ht1
    (by intro c _ hcv; show ["auto"].contains c.value = false; rw [hcv, hv1]; simp [hnxauto])
  have hsl2 : SameButLog w w2 := hs1.trans hs2.butLog
  have htop2 := interp_getTop env w2 blk rest (by rw [hsl2.stack]; exact hstack)
  -- the stream seen by the declarator loop: the pushed-back copy of `nx`, then as given
  obtain ⟨ops', x', bmid', hy', hmapeq, hlen, htx', hx', hxv'⟩ : ∃ (ops' : List Tok) (x' : Tok) (bmid' : Buf),
      Yields env.cfg w2.buf ops' bmid' ∧ ops'.map (·.type) = ops.map (·.type) ∧ ops'.length = ops.length ∧
      tokenEofOk env.cfg bmid' = .ok (some x', bx) ∧ x'.type = "NAME" ∧ x'.value = x.value := by
    cases ops with
    | nil =>
      cases hy
      rw [htx] at hnx
      injection hnx with hnx; injection hnx with h1 h2
      injection h1 with h1
      subst h1; subst h2
      exact ⟨[], t2, w2.buf, .nil _, rfl, rfl, ht2, by rw [hty2, hty1, hx], by rw [hv2, hv1]⟩
    | cons o os =>
      cases hy with
      | cons hto hrest =>
        rw [hto] at hnx
        injection hnx with hnx; injection hnx with h1 h2
        injection h1 with h1
        subst h1; subst h2
        exact ⟨t2 :: os, x, bmid, .cons ht2 hrest, by simp [hty2, hty1], by simp, htx, hx, rfl⟩
  obtain ⟨w7, ev, hi7, hsig, hst7, hev7, hk7, hid7, hpar7, hdl7, han7, hmu7, hnx7, hmt7⟩ :=
    declarator_function env F (D + 1 + 1 + 1) _ (.tok tok.sidx) doxygen ops' x' op semi
      plist d1 w2 bmid' bx bo bc b' blk rest
      (by rw [hsl2.stack]; exact hstack) hk (by rw [hsl2.muted]; exact hmu) (by rw [hsl2.delivered]; exact hfa) rfl hy'
      (by rw [hmapeq]; exact ha) htx' hx' (by rw [hxv']; exact hxv) hto hop
      hparams
      hsemi hs (by rw [hlen]; omega)
  refine ⟨w7, ev, ?_, hsig, hst7, by rw [hev7, hsl2.events], ?_, hid7, hpar7, by rw [hdl7, hsl2.delivered],
    by rw [han7, hsl2.anon], hmu7, by rw [hnx7, hsl2.nextId], by rw [hmt7, hsl2.mainTok]⟩
  · obtain ⟨k, rfl⟩ : ∃ k, F = k + 1 := ⟨F - 1, by omega⟩
    unfold parseDeclarations
    simp only [bind, interp_bind, core_parseType, hi1, Option.bind, typenameOf, strTruthy, PQName.classkey, Bool.false_eq_true, ↓reduceIte, pure, interp, Bool.not_false,
      P.tokenIfVal, hi2, htop2, validate_empty]
    rw [loopN]
    simp only [bind, interp_bind, hi7, pure, interp]
  · rw [hk7]
    simp only [plainFunction, hxv']


theorem toplevel_function_gen (env : Env) (hp : RulesProgress env.cfg = true) (F D : Nat) (w : World)
    (toks : List Tok) (first : Tok) (trest : List Tok) (segs : List PQSeg) (cst vol : Bool) (ops : List Tok) (x op : Tok) (plist : List Param) (semi : Tok) (d1 : DType) (b1 b0 bmid bx bo bc b' : Buf)
    (blk : Block) (rest : List Block) (hstack : w.stack = blk :: rest) (hk : blk.hdr.kind ≠ .cls)
    (hmu : w.muted = false) (hfa : ¬ env.faultAt = some w.delivered)
    (hspec : TypeSpecR env F (D + 1 + 1) toks segs cst vol) (htoks : toks = first :: trest) (hfirst : specFirst first.type = true)
    (htok : tokenEofOk env.cfg w.buf = .ok (some first, b1))
    (hy0 : Yields env.cfg b1 trest b0)
    (hops : opsHeadOk ops = true) (hopsv : ∀ o ∈ ops, o.value ≠ "auto")
    (hy : Yields env.cfg b0 ops bmid)
    (ha : applyPtrOps (.type (.mk segs none false) cst vol) (ops.map (·.type)) = some d1)
    (htx : tokenEofOk env.cfg bmid = .ok (some x, bx)) (hx : x.type = "NAME") (hxv : identVal x.value = true)
    (hto : tokenEofOk env.cfg bx = .ok (some op, bo)) (hop : op.type = "(")
    (hparams : ∀ W : World, W.buf = bo → ∃ w7, interp env (parseParametersStep F (core F (D + 1 + 1 + 1)) true) W = (w7, .ok (plist, false, [])) ∧
      SameButLog W w7 ∧ w7.buf = bc)
    (hsemi : tokenEofOk env.cfg bc = .ok (some semi, b')) (hs : semi.type = ";")
    (hF : ops.length + 2 ≤ F) :
    ∃ (d : Option String) (bD : Buf) (w7 : World) (ct : CTok) (ev : Event),
      getDoxygen env.cfg env.mcRe w.buf = .ok (d, bD) ∧
      interp env (mainBody F (core F (D + 1 + 1 + 1 + 1)) none) w = (w7, .ok (.inl none)) ∧
      w7.buf = b' ∧ ct.value = first.value ∧ w7.stack = { blk with loc := .tok ct.sidx } :: rest ∧
      w7.events = w.events ++ [ev] ∧ ev.kind = .item (.function { plainFunction x d1 d with
        parameters := plist }) ∧
      ev.stateId = blk.id ∧ ev.parentId = rest.head?.map (·.id) ∧
      w7.delivered = w.delivered + 1 ∧ w7.anon = w.anon ∧ w7.muted = false ∧ w7.nextId = w.nextId := by
  obtain ⟨d, bD, wA, ct, hd, hsA, hbA, htyc, hv, hi⟩ := mainBody_item env hp F (core F (D + 1 + 1 + 1 + 1)) w first b1 htok
  obtain ⟨w7, ev, hi7, hsig, hst7, hev7, hk7, hid7, hpar7, hdl7, han7, hmu7, hnx7, _⟩ :=
    parseDeclarations_function_gen env F D ct d toks first trest segs cst vol ops x op plist semi d1 { wA with mainTok := some ct } b0 bmid bx bo bc b' blk rest
      (by show wA.stack = _; rw [hsA.stack]; exact hstack) hk (by show wA.muted = _; rw [hsA.muted]; exact hmu)
      (by show ¬ env.faultAt = some wA.delivered; rw [hsA.delivered]; exact hfa) hspec htoks htyc hv
      (by show Yields env.cfg wA.buf _ _; rw [hbA]; exact hy0) hops hopsv hy ha htx hx hxv hto hop hparams hsemi hs hF
  refine ⟨d, bD, w7, ct, ev, hd, ?_, hsig, hv, hst7, by rw [hev7]; show wA.events ++ _ = _; rw [hsA.events], hk7, hid7, hpar7,
    by rw [hdl7]; show wA.delivered + 1 = _; rw [hsA.delivered], by rw [han7]; exact hsA.anon, hmu7,
    by rw [hnx7]; exact hsA.nextId⟩
  rw [hi]
  unfold specFirst at hfirst
  simp only [Bool.and_eq_true, Option.isNone_iff_eq_none, Bool.not_eq_true'] at hfirst
  have hti : topItem F (core F (D + 1 + 1 + 1 + 1)) ct d = parseDeclarations F (core F (D + 1 + 1 + 1 + 1)) ct d := by
    unfold topItem
    rw [htyc, hfirst.1]
  have hcar : carry ct d = none := by
    unfold carry
    rw [htyc, hfirst.2]
    rfl
  rw [hti, hi7, hcar]


/-- member functions over any return-type specifier, any decoded parameter list and any qualifier sequence -/
theorem parseDeclarations_method_gen (env : Env) (F D : Nat) (tok : CTok) (doxygen : Option String)
    (toks : List Tok) (f : Tok) (trest : List Tok) (segs : List PQSeg) (cst vol : Bool) (ops : List Tok) (x op : Tok) (plist : List Param) (semi : Tok) (quals : List Tok) (m' : Function) (d1 : DType) (w : World) (b0 bmid bx bo bc bq b' : Buf)
    (blk : Block) (rest : List Block) (hstack : w.stack = blk :: rest) (hk : blk.hdr.kind = .cls)
    (hmu : w.muted = false) (hfa : ¬ env.faultAt = some w.delivered)
    (hspec : TypeSpecR env F (D + 1 + 1) toks segs cst vol) (htoks : toks = f :: trest)
    (hty : tok.type = f.type) (htv : tok.value = f.value)
    (hy0 : Yields env.cfg w.buf trest b0)
    (hops : opsHeadOk ops = true) (hopsv : ∀ o ∈ ops, o.value ≠ "auto")
    (hy : Yields env.cfg b0 ops bmid)
    (ha : applyPtrOps (.type (.mk segs none false) cst vol) (ops.map (·.type)) = some d1)
    (htx : tokenEofOk env.cfg bmid = .ok (some x, bx)) (hx : x.type = "NAME") (hxv : identVal x.value = true)
    (hto : tokenEofOk env.cfg bx = .ok (some op, bo)) (hop : op.type = "(")
    (hparams : ∀ W : World, W.buf = bo → ∃ w7, interp env (parseParametersStep F (core F (D + 1 + 1 + 1)) true) W = (w7, .ok (plist, false, [])) ∧
      SameButLog W w7 ∧ w7.buf = bc)
    (hyq : Yields env.cfg bc quals bq)
    (haq : applyQuals { plainFunction x d1 doxygen with parameters := plist, isMethod := true, access := blk.access }
      (quals.map (·.value)) = some m')
    (hsemi : tokenEofOk env.cfg bq = .ok (some semi, b')) (hs : semi.type = ";") (hsv : semi.value = ";") (hFq : quals.length + 1 ≤ F)
    (hF : ops.length + 2 ≤ F) :
    ∃ (w7 : World) (ev : Event),
      interp env (parseDeclarations F (core F (D + 1 + 1 + 1 + 1)) tok doxygen) w = (w7, .ok ()) ∧
      w7.buf = b' ∧ w7.stack = { blk with loc := .tok tok.sidx } :: rest ∧
      w7.events = w.events ++ [ev] ∧ ev.kind = .item (.classMethod m') ∧
      ev.stateId = blk.id ∧ ev.parentId = rest.head?.map (·.id) ∧
      w7.delivered = w.delivered + 1 ∧ w7.anon = w.anon ∧ w7.muted = false ∧ w7.nextId = w.nextId ∧
      w7.mainTok = w.mainTok := by
  have hxauto : x.value ≠ "auto" := by
    have := hxv
    simp only [identVal, Bool.and_eq_true, Bool.not_eq_true', bne_iff_ne, ne_eq] at this
    exact this.2
  -- the token after the type name: the first pointer operator, or the name
  obtain ⟨nx, bnx, hnx, hnxstop, hnxauto⟩ : ∃ (nx : Tok) (bnx : Buf), tokenEofOk env.cfg b0 = .ok (some nx, bnx) ∧
      declStart nx.type = true ∧ nx.value ≠ "auto" := by
    cases ops with
    | nil =>
      cases hy
      exact ⟨x, bx, htx, by rw [hx]; decide, hxauto⟩
    | cons o os =>
      cases hy with
      | cons hto _ =>
        have ho : o.type = "*" := by simpa [opsHeadOk] using hops
        exact ⟨o, _, hto, by rw [ho]; decide, hopsv o (by simp)⟩
  obtain ⟨w1, t1, hi1, hs1, ht1, hty1, hv1⟩ := hspec true tok f trest w b0 bnx nx htoks hty htv hy0 hnx hnxstop
  obtain ⟨w2, t2, hi2, hs2, ht2, hty2, hv2⟩ := step_tokenIfP_miss env (fun t => ["auto"].contains t.value) w1 t1 bnx ht1
    (by intro c _ hcv; show ["auto"].contains c.value = false; rw [hcv, hv1]; simp [hnxauto])
  have hsl2 : SameButLog w w2 := hs1.trans hs2.butLog
  have htop2 := interp_getTop env w2 blk rest (by rw [hsl2.stack]; exact hstack)
  -- the stream seen by the declarator loop: the pushed-back copy of `nx`, then as given
  obtain ⟨ops', x', bmid', hy', hmapeq, hlen, htx', hx', hxv'⟩ : ∃ (ops' : List Tok) (x' : Tok) (bmid' : Buf),
      Yields env.cfg w2.buf ops' bmid' ∧ ops'.map (·.type) = ops.map (·.type) ∧ ops'.length = ops.length ∧
      tokenEofOk env.cfg bmid' = .ok (some x', bx) ∧ x'.type = "NAME" ∧ x'.value = x.value := by
    cases ops with
    | nil =>
      cases hy
      rw [htx] at hnx
      injection hnx with hnx; injection hnx with h1 h2
      injection h1 with h1
      subst h1; subst h2
      exact ⟨[], t2, w2.buf, .nil _, rfl, rfl, ht2, by rw [hty2, hty1, hx], by rw [hv2, hv1]⟩
    | cons o os =>
      cases hy with
      | cons hto hrest =>
        rw [hto] at hnx
        injection hnx with hnx; injection hnx with h1 h2
        injection h1 with h1
        subst h1; subst h2
        exact ⟨t2 :: os, x, bmid, .cons ht2 hrest, by simp [hty2, hty1], by simp, htx, hx, rfl⟩
  obtain ⟨w7, ev, hi7, hsig, hst7, hev7, hk7, hid7, hpar7, hdl7, han7, hmu7, hnx7, hmt7⟩ :=
    declarator_method env F (D + 1 + 1 + 1) _ (.tok tok.sidx) doxygen ops' x' op semi
      (plist) quals d1 m' w2 bmid' bx bo bc bq b' blk rest
      (by rw [hsl2.stack]; exact hstack) hk (by rw [hsl2.muted]; exact hmu) (by rw [hsl2.delivered]; exact hfa) rfl hy'
      (by rw [hmapeq]; exact ha) htx' hx' (by rw [hxv']; exact hxv) hto hop
      hparams
      hyq (by simp only [plainFunction, hxv'] at haq ⊢; exact haq) hsemi hs hsv hFq (by rw [hlen]; omega)
  refine ⟨w7, ev, ?_, hsig, hst7, by rw [hev7, hsl2.events], ?_, hid7, hpar7, by rw [hdl7, hsl2.delivered],
    by rw [han7, hsl2.anon], hmu7, by rw [hnx7, hsl2.nextId], by rw [hmt7, hsl2.mainTok]⟩
  · obtain ⟨k, rfl⟩ : ∃ k, F = k + 1 := ⟨F - 1, by omega⟩
    unfold parseDeclarations
    simp only [bind, interp_bind, core_parseType, hi1, Option.bind, typenameOf, strTruthy, PQName.classkey, Bool.false_eq_true, ↓reduceIte, pure, interp, Bool.not_false,
      P.tokenIfVal, hi2, htop2, validate_empty]
    rw [loopN]
    simp only [bind, interp_bind, hi7, pure, interp]
  · rw [hk7]


theorem toplevel_method_gen (env : Env) (hp : RulesProgress env.cfg = true) (F D : Nat) (w : World)
    (toks : List Tok) (first : Tok) (trest : List Tok) (segs : List PQSeg) (cst vol : Bool) (ops : List Tok) (x op : Tok) (plist : List Param) (semi : Tok) (quals : List Tok) (m' : Function) (d1 : DType) (b1 b0 bmid bx bo bc bq b' : Buf)
    (blk : Block) (rest : List Block) (hstack : w.stack = blk :: rest) (hk : blk.hdr.kind = .cls)
    (hmu : w.muted = false) (hfa : ¬ env.faultAt = some w.delivered)
    (hspec : TypeSpecR env F (D + 1 + 1) toks segs cst vol) (htoks : toks = first :: trest) (hfirst : specFirst first.type = true)
    (htok : tokenEofOk env.cfg w.buf = .ok (some first, b1))
    (hy0 : Yields env.cfg b1 trest b0)
    (hops : opsHeadOk ops = true) (hopsv : ∀ o ∈ ops, o.value ≠ "auto")
    (hy : Yields env.cfg b0 ops bmid)
    (ha : applyPtrOps (.type (.mk segs none false) cst vol) (ops.map (·.type)) = some d1)
    (htx : tokenEofOk env.cfg bmid = .ok (some x, bx)) (hx : x.type = "NAME") (hxv : identVal x.value = true)
    (hto : tokenEofOk env.cfg bx = .ok (some op, bo)) (hop : op.type = "(")
    (hparams : ∀ W : World, W.buf = bo → ∃ w7, interp env (parseParametersStep F (core F (D + 1 + 1 + 1)) true) W = (w7, .ok (plist, false, [])) ∧
      SameButLog W w7 ∧ w7.buf = bc)
    (hyq : Yields env.cfg bc quals bq)
    (hsemi : tokenEofOk env.cfg bq = .ok (some semi, b')) (hs : semi.type = ";") (hsv : semi.value = ";") (hFq : quals.length + 1 ≤ F)
    (hF : ops.length + 2 ≤ F) :
    ∀ (d : Option String) (bD : Buf), getDoxygen env.cfg env.mcRe w.buf = .ok (d, bD) →
    applyQuals { plainFunction x d1 d with parameters := plist, isMethod := true, access := blk.access }
      (quals.map (·.value)) = some m' →
    ∃ (w7 : World) (ct : CTok) (ev : Event),
      interp env (mainBody F (core F (D + 1 + 1 + 1 + 1)) none) w = (w7, .ok (.inl none)) ∧
      w7.buf = b' ∧ ct.value = first.value ∧ w7.stack = { blk with loc := .tok ct.sidx } :: rest ∧
      w7.events = w.events ++ [ev] ∧ ev.kind = .item (.classMethod m') ∧
      ev.stateId = blk.id ∧ ev.parentId = rest.head?.map (·.id) ∧
      w7.delivered = w.delivered + 1 ∧ w7.anon = w.anon ∧ w7.muted = false ∧ w7.nextId = w.nextId := by
  intro d bD hdx haq
  obtain ⟨d', bD', wA, ct, hd, hsA, hbA, htyc, hv, hi⟩ := mainBody_item env hp F (core F (D + 1 + 1 + 1 + 1)) w first b1 htok
  rw [hdx] at hd
  injection hd with hd; injection hd with hd1 hd2
  subst hd1; subst hd2
  obtain ⟨w7, ev, hi7, hsig, hst7, hev7, hk7, hid7, hpar7, hdl7, han7, hmu7, hnx7, _⟩ :=
    parseDeclarations_method_gen env F D ct d toks first trest segs cst vol ops x op plist semi quals m' d1 { wA with mainTok := some ct } b0 bmid bx bo bc bq b' blk rest
      (by show wA.stack = _; rw [hsA.stack]; exact hstack) hk (by show wA.muted = _; rw [hsA.muted]; exact hmu)
      (by show ¬ env.faultAt = some wA.delivered; rw [hsA.delivered]; exact hfa) hspec htoks htyc hv
      (by show Yields env.cfg wA.buf _ _; rw [hbA]; exact hy0) hops hopsv hy ha htx hx hxv hto hop hparams hyq haq hsemi hs hsv hFq hF
  refine ⟨w7, ct, ev, ?_, hsig, hv, hst7, by rw [hev7]; show wA.events ++ _ = _; rw [hsA.events], hk7, hid7, hpar7,
    by rw [hdl7]; show wA.delivered + 1 = _; rw [hsA.delivered], by rw [han7]; exact hsA.anon, hmu7,
    by rw [hnx7]; exact hsA.nextId⟩
  rw [hi]
  unfold specFirst at hfirst
  simp only [Bool.and_eq_true, Option.isNone_iff_eq_none, Bool.not_eq_true'] at hfirst
  have hti : topItem F (core F (D + 1 + 1 + 1 + 1)) ct d = parseDeclarations F (core F (D + 1 + 1 + 1 + 1)) ct d := by
    unfold topItem
    rw [htyc, hfirst.1]
  have hcar : carry ct d = none := by
    unfold carry
    rw [htyc, hfirst.2]
    rfl
  rw [hti, hi7, hcar]

/-! ### from iterations to `parse()`: the loop is the sequence of its iterations -/


end Cxx
