/-
  Theorems/VarInit.lean — variable declarations with an initializer `T ptr-ops x = value ;`
  (C01, C14): the callback carries as value EXACTLY the tokens written between the `=` and the
  `,` / `;` that ends the declarator (`valueOf vals`), for every value of top-level shape
  (`TopLevel [",", ";"]`: brackets balanced, no `,` / `;` outside brackets), of any length.
-/
import CxxModel.Theorems.VarDecl
namespace Cxx
open P

/-- the variable a plain declarator with initializer declares -/
def initVariable (x : Tok) (d1 : DType) (vals : List Tok) (dox : Option String) : Variable :=
  { name := .mk [.name x.value none] none false, type := d1, value := some (valueOf vals), doxygen := dox, template := none,
    constexpr := false, extern := false, static := false, inline := false }

theorem declarator_variable_init (env : Env) (G D : Nat) (pt : DType) (location : LocRef) (doxygen : Option String)
    (ops : List Tok) (x eq : Tok) (vals : List Tok) (tm : Tok) (d1 : DType) (w : World) (bmid bx bq bv b' : Buf)
    (blk : Block) (rest : List Block) (hstack : w.stack = blk :: rest) (hk : blk.hdr.kind ≠ .cls)
    (hmu : w.muted = false) (hfa : ¬ env.faultAt = some w.delivered)
    (hpt : isFnType pt = false)
    (hy : Yields env.cfg w.buf ops bmid) (ha : applyPtrOps pt (ops.map (·.type)) = some d1)
    (htx : tokenEofOk env.cfg bmid = .ok (some x, bx)) (hx : x.type = "NAME") (hxv : identVal x.value = true)
    (hteq : tokenEofOk env.cfg bx = .ok (some eq, bq)) (heq : eq.type = "=")
    (hyv : Yields env.cfg bq vals bv) (htl : TopLevel [",", ";"] (vals.map (·.type)))
    (httm : tokenEofOk env.cfg bv = .ok (some tm, b')) (htm : tm.type = ";" ∨ tm.type = ",")
    (hF : ops.length + 1 ≤ G + 1) (hFv : vals.length + 1 ≤ G) :
    ∃ (w7 : World) (c : CTok) (dox : Option String) (ev : Event),
      interp env (declaratorBody (G + 1) (core (G + 1) (D + 1)) pt {} .none false false (location, doxygen)) w =
        (w7, .ok (afterDeclarator tm c)) ∧
      SigEq b' w7.buf ∧ w7.stack = { blk with loc := location } :: rest ∧
      w7.events = w.events ++ [ev] ∧ ev.kind = .item (.variable (initVariable x d1 vals dox)) ∧
      ev.stateId = blk.id ∧ ev.parentId = rest.head?.map (·.id) ∧ (∀ d, doxygen = some d → dox = some d) ∧
      w7.delivered = w.delivered + 1 ∧ w7.anon = w.anon ∧ w7.muted = false ∧ w7.nextId = w.nextId ∧
      w7.mainTok = w.mainTok := by
  obtain ⟨w1, t1, hs1, ht1, hty1, hv1, hi1⟩ := parseDecl_plain env (G + 1) D pt {} location doxygen false ops x eq d1 w bmid bx bq
    blk rest hstack hpt hy ha htx hx hxv hteq (.inr (.inr (.inl heq))) hF
  have hnm : fieldName (blk.hdr.kind = .cls) (.mk [.name x.value none] none false) = some none := by
    have hd : decide (blk.hdr.kind = .cls) = false := by simp [hk]
    rw [hd]; rfl
  obtain ⟨w5, t5, b5, dox, hs5, ht5, hsig5, hty5, hv5, hdox, hi5⟩ := parseField_init env G {} d1 (.mk [.name x.value none] none false)
    none doxygen location w1 t1 vals tm bq bv b' blk rest (by rw [hs1.stack]; exact hstack) none hnm ht1 (hty1.trans heq)
    hyv htl httm (by rcases htm with h | h <;> (rw [h]; decide)) hFv
  have hst5 : w5.stack = { blk with loc := location } :: rest := hs5.stack
  have hmu5 : w5.muted = false := by rw [hs5.muted]; show w1.muted = _; rw [hs1.muted]; exact hmu
  have hdl5 : w5.delivered = w.delivered := by rw [hs5.delivered]; show w1.delivered = _; exact hs1.delivered
  have hev5 : w5.events = w.events := by rw [hs5.events]; show w1.events = _; exact hs1.events
  have hdel := deliver_passing env w5 (mkEvent w5 (.item (.variable (initVariable x d1 vals dox)))
    { blk with loc := location } (rest.head?.map (·.id))) hmu5 (by rw [hdl5]; exact hfa)
  have htok6 : tokenEofOk env.cfg ({ w5 with events := w5.events ++ [mkEvent w5 (.item (.variable (initVariable x d1 vals dox)))
      { blk with loc := location } (rest.head?.map (·.id))], delivered := w5.delivered + 1 } : World).buf = .ok (some t5, b5) := ht5
  obtain ⟨w7, c7, hi7, hb7, hs7, hty7, _⟩ := step_mustBe env [",", ";"] _ t5 b5 htok6
    (by rw [hty5]; rcases htm with h | h <;> (rw [h]; decide))
  refine ⟨w7, c7, dox, _, ?_, by rw [hb7]; exact hsig5, by rw [hs7.stack]; exact hst5, by rw [hs7.events, hev5], rfl, rfl, rfl,
    hdox, by rw [hs7.delivered, hdl5], ?_, by rw [hs7.muted]; exact hmu5, ?_, ?_⟩
  · unfold declaratorBody
    have hk' : ¬ blk.hdr.kind = .cls := hk
    have hi7' := hi7
    simp only [hst5, initVariable] at hi7'
    simp only [bind, interp_bind, hi1, hi5, fieldEmit, Block.view, hk', decide_false, Bool.false_eq_true, ↓reduceIte, hasKey,
      List.any_nil, P.emit, interp, hst5, initVariable] at hdel ⊢
    simp only [hdel, Bool.false_eq_true, ↓reduceIte, bind, interp_bind, pure, interp, hi7', hty7, hty5, afterDeclarator]
    rcases htm with h | h <;> simp [h, interp]
  · rw [hs7.anon]; show w5.anon = _; rw [hs5.anon]; exact hs1.anon
  · rw [hs7.nextId]; show w5.nextId = _; rw [hs5.nextId]; exact hs1.nextId
  · rw [hs7.mainTok]; show w5.mainTok = _; rw [hs5.mainTok]; exact hs1.mainTok

/-- **`T ptr-ops x = value ;`** from `_parse_declarations`, outside a class, with an active visitor
    that does not raise here: exactly ONE `on_variable` callback, with the type the declarator
    denotes and exactly the written value tokens -/
theorem parseDeclarations_variable_init (env : Env) (G D : Nat) (tok : CTok) (doxygen : Option String)
    (pairs : List (Tok × Tok)) (ops : List Tok) (x eq : Tok) (vals : List Tok) (semi : Tok) (d1 : DType) (w : World) (b0 bmid bx bq bv b' : Buf)
    (blk : Block) (rest : List Block) (hstack : w.stack = blk :: rest) (hk : blk.hdr.kind ≠ .cls)
    (hmu : w.muted = false) (hfa : ¬ env.faultAt = some w.delivered)
    (hty : tok.type = "NAME") (htv : identVal tok.value = true)
    (hall : ∀ p ∈ pairs, p.1.type = "DBL_COLON" ∧ p.2.type = "NAME" ∧ plainVal p.2.value = true)
    (hy0 : Yields env.cfg w.buf (pairs.flatMap (fun p => [p.1, p.2])) b0)
    (hops : opsHeadOk ops = true) (hopsv : ∀ o ∈ ops, o.value ≠ "auto")
    (hy : Yields env.cfg b0 ops bmid)
    (ha : applyPtrOps (.type (.mk (.name tok.value none :: pairs.map (fun p => .name p.2.value none)) none false) false false)
      (ops.map (·.type)) = some d1)
    (htx : tokenEofOk env.cfg bmid = .ok (some x, bx)) (hx : x.type = "NAME") (hxv : identVal x.value = true)
    (hteq : tokenEofOk env.cfg bx = .ok (some eq, bq)) (heq : eq.type = "=")
    (hyv : Yields env.cfg bq vals bv) (htl : TopLevel [",", ";"] (vals.map (·.type)))
    (hsemi : tokenEofOk env.cfg bv = .ok (some semi, b')) (hs : semi.type = ";")
    (hF : pairs.length + ops.length + 2 ≤ G + 1) (hFv : vals.length + 1 ≤ G) :
    ∃ (w7 : World) (dox : Option String) (ev : Event),
      interp env (parseDeclarations (G + 1) (core (G + 1) (D + 1 + 1)) tok doxygen) w = (w7, .ok ()) ∧
      SigEq b' w7.buf ∧ w7.stack = { blk with loc := .tok tok.sidx } :: rest ∧
      w7.events = w.events ++ [ev] ∧ ev.kind = .item (.variable (initVariable x d1 vals dox)) ∧
      ev.stateId = blk.id ∧ ev.parentId = rest.head?.map (·.id) ∧ (∀ d, doxygen = some d → dox = some d) ∧
      w7.delivered = w.delivered + 1 ∧ w7.anon = w.anon ∧ w7.muted = false ∧ w7.nextId = w.nextId ∧
      w7.mainTok = w.mainTok := by
  have hidv := htv
  simp only [identVal, Bool.and_eq_true, Bool.not_eq_true', bne_iff_ne, ne_eq] at htv
  obtain ⟨⟨⟨hpv, hnc⟩, _⟩, _⟩ := htv
  have hxauto : x.value ≠ "auto" := by
    have := hxv
    simp only [identVal, Bool.and_eq_true, Bool.not_eq_true', bne_iff_ne, ne_eq] at this
    exact this.2
  -- the token after the type name: the first pointer operator, or the name
  obtain ⟨nx, bnx, hnx, hnxstop, hnxlt, hnxdc, hnxauto⟩ : ∃ (nx : Tok) (bnx : Buf), tokenEofOk env.cfg b0 = .ok (some nx, bnx) ∧
      typeStop nx.type = true ∧ nx.type ≠ "<" ∧ nx.type ≠ "DBL_COLON" ∧ nx.value ≠ "auto" := by
    cases ops with
    | nil =>
      cases hy
      exact ⟨x, bx, htx, by rw [hx]; decide, by rw [hx]; decide, by rw [hx]; decide, hxauto⟩
    | cons o os =>
      cases hy with
      | cons hto _ =>
        have ho : o.type = "*" := by simpa [opsHeadOk] using hops
        exact ⟨o, _, hto, by rw [ho]; decide, by rw [ho]; decide, by rw [ho]; decide, hopsv o (by simp)⟩
  obtain ⟨w1, t1, hi1, hs1, ht1, hty1, hv1⟩ := parseType_plain env (G + 1) D true tok pairs w b0 bnx nx hty hpv hnc hall hy0 hnx
    (typeStop_end hnxstop) hnxlt hnxdc (by omega)
  obtain ⟨w2, t2, hi2, hs2, ht2, hty2, hv2⟩ := step_tokenIfP_miss env (fun t => ["auto"].contains t.value) w1 t1 bnx ht1
    (by intro c _ hcv; show ["auto"].contains c.value = false; rw [hcv, hv1]; simp [hnxauto])
  have hsl2 : SameButLog w w2 := hs1.trans hs2.butLog
  have htop2 := interp_getTop env w2 blk rest (by rw [hsl2.stack]; exact hstack)
  -- the stream seen by the declarator loop: the pushed-back copy of `nx`, then as given
  obtain ⟨ops', x', bmid', hy', hmapeq, hlen, htx', hx', hxv'⟩ : ∃ (ops' : List Tok) (x' : Tok) (bmid' : Buf),
      Yields env.cfg w2.buf ops' bmid' ∧ ops'.map (·.type) = ops.map (·.type) ∧ ops'.length = ops.length ∧
      tokenEofOk env.cfg bmid' = .ok (some x', bx) ∧ x'.type = "NAME" ∧ x'.value = x.value := by
    cases ops with
    | nil =>
      cases hy
      rw [htx] at hnx
      injection hnx with hnx; injection hnx with h1 h2
      injection h1 with h1
      subst h1; subst h2
      exact ⟨[], t2, w2.buf, .nil _, rfl, rfl, ht2, by rw [hty2, hty1, hx], by rw [hv2, hv1]⟩
    | cons o os =>
      cases hy with
      | cons hto hrest =>
        rw [hto] at hnx
        injection hnx with hnx; injection hnx with h1 h2
        injection h1 with h1
        subst h1; subst h2
        exact ⟨t2 :: os, x, bmid, .cons ht2 hrest, by simp [hty2, hty1], by simp, htx, hx, rfl⟩
  obtain ⟨w7, c7, dox, ev, hi7, hsig, hst7, hev7, hk7, hid7, hpar7, hdox7, hdl7, han7, hmu7, hnx7, hmt7⟩ :=
    declarator_variable_init env G (D + 1) _ (.tok tok.sidx) doxygen ops' x' eq vals semi d1 w2 bmid' bx bq bv b' blk rest
      (by rw [hsl2.stack]; exact hstack) hk (by rw [hsl2.muted]; exact hmu) (by rw [hsl2.delivered]; exact hfa) rfl hy'
      (by rw [hmapeq]; exact ha) htx' hx' (by rw [hxv']; exact hxv) hteq heq hyv htl hsemi (.inl hs) (by rw [hlen]; omega) hFv
  refine ⟨w7, dox, ev, ?_, hsig, hst7, by rw [hev7, hsl2.events], ?_, hid7, hpar7, hdox7, by rw [hdl7, hsl2.delivered],
    by rw [han7, hsl2.anon], hmu7, by rw [hnx7, hsl2.nextId], by rw [hmt7, hsl2.mainTok]⟩
  · unfold parseDeclarations
    simp only [bind, interp_bind, core_parseType, hi1, Option.bind, typenameOf, strTruthy, PQName.classkey, Bool.false_eq_true, ↓reduceIte, pure, interp, Bool.not_false,
      P.tokenIfVal, hi2, htop2, validate_empty]
    rw [loopN]
    simp only [bind, interp_bind, hi7, afterDeclarator, hs, ↓reduceIte, pure, interp]
  · rw [hk7]
    simp only [initVariable, hxv']

end Cxx
