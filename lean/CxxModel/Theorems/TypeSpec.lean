/-
  Theorems/TypeSpec.lean — decl-specifier sequences as an abstract interface (C02).

  `NameSpecR env F D ntoks segs`: wherever the stream reads the tokens `ntoks` (the first of them
  already taken by the caller) and then a token that cannot continue a name, `_parse_pqname`
  returns the name `segs`, changes nothing else of the parser state but the verbose log, and
  leaves a copy of that token next.

  `TypeSpecR env F D toks segs cst vol`: wherever the stream reads `toks` and then a token that starts a
  declarator, `_parse_type` returns the type `segs` with the flags `cst` / `vol`, no
  specifiers, and leaves a copy of that token next.

  `typeSpecR_cv`: ANY NUMBER of `const` / `volatile` tokens BEFORE AND AFTER a name that satisfies
  `NameSpecR` is a `TypeSpecR` whose flags say whether `const` / `volatile` was written (induction
  over both lists through the token loop of `_parse_type`).
-/
import CxxModel.Theorems.VarDecl
import CxxModel.Theorems.FundGroup
namespace Cxx
open P

/-- the tokens a declarator starts with, as far as these theorems go: a name or `*`, `&`, `&&`, `(` -/
def declStart (ty : String) : Bool := ty == "NAME" || Gen.parseTypePtrRefParen.contains ty

/-- `const` / `volatile` -/
def isCv (ty : String) : Bool := ty == "const" || ty == "volatile"

/-- what may follow a name for the name to end there -/
def afterName (ty : String) : Bool :=
  ty != "<" && ty != "DBL_COLON" && !Gen.compoundFundamentals.contains ty

theorem declStart_cases {ty : String} (h : declStart ty = true) :
    ty = "NAME" ∨ Gen.parseTypePtrRefParen.contains ty = true := by
  unfold declStart at h
  simpa using h

/-- table facts, decided over the regenerated tables -/
theorem ptrRefParen_facts : ∀ ty ∈ Gen.parseTypePtrRefParen,
    (typeEnd ty && afterName ty && !isCv ty) = true := by decide

theorem declStart_typeEnd {ty : String} (h : declStart ty = true) : typeEnd ty = true := by
  rcases declStart_cases h with h | h
  · subst h; decide
  · have := ptrRefParen_facts ty (List.contains_iff_mem.mp h)
    simp only [Bool.and_eq_true] at this
    exact this.1.1

theorem declStart_afterName {ty : String} (h : declStart ty = true) : afterName ty = true := by
  rcases declStart_cases h with h | h
  · subst h; decide
  · have := ptrRefParen_facts ty (List.contains_iff_mem.mp h)
    simp only [Bool.and_eq_true] at this
    exact this.1.2

theorem isCv_afterName {ty : String} (h : isCv ty = true) : afterName ty = true := by
  unfold isCv at h
  simp only [Bool.or_eq_true, beq_iff_eq] at h
  rcases h with h | h <;> (subst h; decide)

theorem afterName_lt {ty : String} (h : afterName ty = true) : ty ≠ "<" := by
  unfold afterName at h; simp only [Bool.and_eq_true, bne_iff_ne, ne_eq] at h; exact h.1.1
theorem afterName_dc {ty : String} (h : afterName ty = true) : ty ≠ "DBL_COLON" := by
  unfold afterName at h; simp only [Bool.and_eq_true, bne_iff_ne, ne_eq] at h; exact h.1.2
theorem afterName_cf {ty : String} (h : afterName ty = true) : Gen.compoundFundamentals.contains ty = false := by
  unfold afterName at h; simp only [Bool.and_eq_true, Bool.not_eq_true'] at h; exact h.2

/-- **a name inside a type** -/
structure NameSpecR (env : Env) (F D : Nat) (ntoks : List Tok) (segs : List PQSeg) : Prop where
  start : ∀ f rest, ntoks = f :: rest → Gen.pqnameStartTokens.contains f.type = true ∧ f.type ≠ "operator"
  nonempty : ntoks ≠ []
  run : ∀ (ct : CTok) (f : Tok) (rest : List Tok) (w : World) (bmid b' : Buf) (term : Tok),
    ntoks = f :: rest → ct.type = f.type → ct.value = f.value →
    Yields env.cfg w.buf rest bmid → tokenEofOk env.cfg bmid = .ok (some term, b') → afterName term.type = true →
    ∃ (w' : World) (t' : Tok) (op : Option String),
      interp env ((core F (D + 1)).parsePqname (some ct) false true true) w = (w', .ok (.mk segs none false, op)) ∧
      SameButLog w w' ∧ tokenEofOk env.cfg w'.buf = .ok (some t', b') ∧ t'.type = term.type ∧ t'.value = term.value

/-- **a decl-specifier sequence that is a type** -/
def TypeSpecR (env : Env) (F D : Nat) (toks : List Tok) (segs : List PQSeg) (cst vol : Bool) : Prop :=
  ∀ (operatorOk : Bool) (ct : CTok) (f : Tok) (rest : List Tok) (w : World) (bmid b' : Buf) (term : Tok),
    toks = f :: rest → ct.type = f.type → ct.value = f.value →
    Yields env.cfg w.buf rest bmid → tokenEofOk env.cfg bmid = .ok (some term, b') → declStart term.type = true →
    ∃ (w' : World) (t' : Tok),
      interp env (parseTypeStep F (core F (D + 1)) (some ct) operatorOk) w =
        (w', .ok (some (.type (.mk segs none false) cst vol), {})) ∧
      SameButLog w w' ∧ tokenEofOk env.cfg w'.buf = .ok (some t', b') ∧ t'.type = term.type ∧ t'.value = term.value

/-! ### the token loop of `_parse_type` at `const` / `volatile` -/

def cvConst (l : List Tok) : Bool := l.any (fun t => t.type == "const")
def cvVol (l : List Tok) : Bool := l.any (fun t => t.type == "volatile")

theorem typeBody_cv (env : Env) (F : Nat) (rec : Core) (operatorOk : Bool) (c : CTok) (pqn : Option PQName) (cst vol : Bool)
    (mods : Mods) (o : Bool) (w : World) (hc : isCv c.type = true) :
    interp env (typeBody F rec operatorOk (c, pqn, cst, vol, mods, o)) w =
      match interp env P.token w with
      | (w1, .ok t) => (w1, .ok (.inl (t, pqn, cst || c.type == "const", vol || c.type == "volatile", mods, false)))
      | (w1, .error e) => (w1, .error e) := by
  unfold isCv at hc
  simp only [Bool.or_eq_true, beq_iff_eq] at hc
  unfold typeBody
  rcases hc with h | h
  · simp only [h, (by decide : Gen.pqnameStartTokens.contains "const" = false), (by decide : Gen.parseTypePtrRefParen.contains "const" = false),
      Bool.false_eq_true, ↓reduceIte, bind, interp_bind, pure, interp, beq_self_eq_true, Bool.or_true,
      (by decide : ("const" == "volatile") = false), Bool.or_false]
    cases interp env P.token w with
    | mk w1 r => cases r <;> rfl
  · simp only [h, (by decide : Gen.pqnameStartTokens.contains "volatile" = false), (by decide : Gen.parseTypePtrRefParen.contains "volatile" = false),
      (by decide : Gen.typeKwdBoth.contains "volatile" = false), (by decide : Gen.typeKwdMeth.contains "volatile" = false),
      (by decide : ("volatile" = "const") = False), (by decide : ("volatile" = "mutable") = False),
      Bool.false_eq_true, ↓reduceIte, bind, interp_bind, pure, interp, beq_self_eq_true, Bool.or_true,
      (by decide : ("volatile" == "const") = false), Bool.or_false]
    cases interp env P.token w with
    | mk w1 r => cases r <;> rfl

/-- the loop at a `const` / `volatile` token, after the name: the qualifiers that follow are collected, the
    loop ends at the declarator -/
theorem typeLoop_post (env : Env) (F : Nat) (rec : Core) (operatorOk : Bool) (pq : PQName) :
    ∀ (post : List Tok) (ct : CTok) (cst vol o : Bool) (n : Nat) (w : World) (bmid b' : Buf) (term : Tok),
    (∀ k ∈ post, isCv k.type = true) → isCv ct.type = true →
    Yields env.cfg w.buf post bmid → tokenEofOk env.cfg bmid = .ok (some term, b') → typeEnd term.type = true →
    post.length + 2 ≤ n →
    ∃ (w' : World) (c' : CTok),
      interp env (loopN n (ct, some pq, cst, vol, ({} : Mods), o) (typeBody F rec operatorOk)) w =
        (w', .ok (c', some pq, cst || ct.type == "const" || cvConst post, vol || ct.type == "volatile" || cvVol post, {}, false)) ∧
      SameParse w w' ∧ w'.buf = b' ∧ c'.type = term.type ∧ c'.value = term.value := by
  intro post
  induction post with
  | nil =>
    intro ct cst vol o n w bmid b' term _ hct hy htok hend hn
    cases hy
    obtain ⟨m, rfl⟩ : ∃ m, n = m + 2 := ⟨n - 2, by omega⟩
    obtain ⟨w1, c1, hi1, hb1, hs1, hty1, hv1⟩ := step_token env w term b' htok
    refine ⟨w1, c1, ?_, hs1, hb1, hty1, hv1⟩
    rw [loopN]
    simp only [bind, interp_bind, typeBody_cv env F rec operatorOk ct (some pq) cst vol {} o w hct, hi1]
    rw [loopN]
    simp only [bind, interp_bind, typeBody_end env F rec operatorOk c1 pq _ _ {} false w1 (by rw [hty1]; exact hend), pure, interp,
      cvConst, cvVol, List.any_nil, Bool.or_false]
  | cons k ks ih =>
    intro ct cst vol o n w bmid b' term hall hct hy htok hend hn
    obtain ⟨b1, hk1, hrest⟩ := Yields.cons_inv hy
    obtain ⟨m, rfl⟩ : ∃ m, n = m + 1 := ⟨n - 1, by omega⟩
    obtain ⟨w1, c1, hi1, hb1, hs1, hty1, hv1⟩ := step_token env w k b1 hk1
    obtain ⟨w', c', hi, hs, hb, hty, hv⟩ := ih c1 (cst || ct.type == "const") (vol || ct.type == "volatile") false m w1 bmid b' term
      (fun q hq => hall q (by simp [hq])) (by rw [hty1]; exact hall k (by simp)) (by rw [hb1]; exact hrest) htok hend
      (by simp at hn; omega)
    refine ⟨w', c', ?_, hs1.trans hs, hb, hty, hv⟩
    rw [loopN]
    simp only [bind, interp_bind, typeBody_cv env F rec operatorOk ct (some pq) cst vol {} o w hct, hi1, hi, hty1,
      cvConst, cvVol, List.any_cons, Bool.or_assoc]

/-- the loop right after the name: at the declarator, or at qualifiers and then the declarator -/
theorem typeLoop_afterName (env : Env) (F : Nat) (rec : Core) (operatorOk : Bool) (pq : PQName)
    (post : List Tok) (ct : CTok) (cur : Tok) (rest : List Tok) (cst vol : Bool) (n : Nat) (w : World) (bmid b' : Buf) (term : Tok)
    (hpost : ∀ k ∈ post, isCv k.type = true) (hsplit : post ++ [term] = cur :: rest)
    (hty : ct.type = cur.type) (hv : ct.value = cur.value)
    (hy : Yields env.cfg w.buf rest b') (hend : typeEnd term.type = true) (hn : post.length + 2 ≤ n) :
    ∃ (w' : World) (c' : CTok),
      interp env (loopN n (ct, some pq, cst, vol, ({} : Mods), false) (typeBody F rec operatorOk)) w =
        (w', .ok (c', some pq, cst || cvConst post, vol || cvVol post, {}, false)) ∧
      SameParse w w' ∧ w'.buf = b' ∧ c'.type = term.type ∧ c'.value = term.value := by
  cases post with
  | nil =>
    simp only [List.nil_append, List.cons.injEq] at hsplit
    obtain ⟨rfl, rfl⟩ := hsplit
    cases hy
    obtain ⟨m, rfl⟩ : ∃ m, n = m + 1 := ⟨n - 1, by omega⟩
    refine ⟨w, ct, ?_, SameParse.refl w, rfl, hty, hv⟩
    rw [loopN]
    simp only [bind, interp_bind, typeBody_end env F rec operatorOk ct pq cst vol {} false w (by rw [hty]; exact hend), pure, interp,
      cvConst, cvVol, List.any_nil, Bool.or_false]
  | cons k ks =>
    simp only [List.cons_append, List.cons.injEq] at hsplit
    obtain ⟨rfl, rfl⟩ := hsplit
    obtain ⟨bm, hy1, hy2⟩ := Yields.split hy
    have htok := Yields.single_inv hy2
    obtain ⟨w', c', hi, hs, hb, hty', hv'⟩ := typeLoop_post env F rec operatorOk pq ks ct cst vol false n w bm b' term
      (fun q hq => hpost q (by simp [hq])) (by rw [hty]; exact hpost _ (by simp)) hy1 htok hend (by simp at hn; omega)
    refine ⟨w', c', ?_, hs, hb, hty', hv'⟩
    rw [hi, hty]
    simp only [cvConst, cvVol, List.any_cons, Bool.or_assoc]


theorem typeBody_name (env : Env) (F : Nat) (rec : Core) (operatorOk : Bool) (ct : CTok) (cst vol o : Bool) (mods : Mods) (w : World)
    (hstart : Gen.pqnameStartTokens.contains ct.type = true) (hop : ct.type ≠ "operator") :
    interp env (typeBody F rec operatorOk (ct, none, cst, vol, mods, o)) w =
      match interp env (rec.parsePqname (some ct) false true true) w with
      | (w1, .ok (pq, _)) =>
        match interp env P.token w1 with
        | (w2, .ok t) => (w2, .ok (.inl (t, some pq, cst, vol, mods, false)))
        | (w2, .error e) => (w2, .error e)
      | (w1, .error e) => (w1, .error e) := by
  unfold typeBody
  simp only [hstart, ↓reduceIte, Option.isSome_none, Bool.false_eq_true, hop, decide_false, Bool.and_false, bind, interp_bind, pure, interp]
  cases interp env (rec.parsePqname (some ct) false true true) w with
  | mk w1 r =>
    cases r with
    | error e => rfl
    | ok v =>
      obtain ⟨pq, op⟩ := v
      cases hh : interp env P.token w1 with
      | mk w2 r2 => cases r2 <;> simp only [interp_bind, hh, interp]

/-- the whole token loop of `_parse_type` on `pre-qualifiers name post-qualifiers` -/
theorem typeLoop_cv (env : Env) (F D : Nat) (operatorOk : Bool) (ntoks : List Tok) (segs : List PQSeg)
    (hname : NameSpecR env F D ntoks segs) (post : List Tok) (hpost : ∀ k ∈ post, isCv k.type = true) :
    ∀ (pre : List Tok) (ct : CTok) (f : Tok) (rest : List Tok) (cst vol o : Bool) (n : Nat) (w : World) (bmid b' : Buf) (term : Tok),
    (∀ k ∈ pre, isCv k.type = true) → pre ++ ntoks ++ post = f :: rest → ct.type = f.type → ct.value = f.value →
    Yields env.cfg w.buf rest bmid → tokenEofOk env.cfg bmid = .ok (some term, b') → typeEnd term.type = true → afterName term.type = true →
    pre.length + post.length + 3 ≤ n →
    ∃ (w' : World) (c' : CTok),
      interp env (loopN n (ct, none, cst, vol, ({} : Mods), o) (typeBody F (core F (D + 1)) operatorOk)) w =
        (w', .ok (c', some (.mk segs none false), cst || cvConst pre || cvConst post, vol || cvVol pre || cvVol post, {}, false)) ∧
      SameButLog w w' ∧ w'.buf = b' ∧ c'.type = term.type ∧ c'.value = term.value := by
  intro pre
  induction pre with
  | nil =>
    intro ct f rest cst vol o n w bmid b' term _ hsplit hty hv hy htok hend hafter hn
    simp only [List.nil_append] at hsplit
    obtain ⟨nrest, hnt⟩ : ∃ nrest, ntoks = f :: nrest := by
      cases hnt : ntoks with
      | nil => exact absurd hnt hname.nonempty
      | cons a as => rw [hnt] at hsplit; simp only [List.cons_append, List.cons.injEq] at hsplit; exact ⟨as, by rw [hsplit.1]⟩
    have hrest : rest = nrest ++ post := by
      rw [hnt] at hsplit; simp only [List.cons_append, List.cons.injEq] at hsplit; exact hsplit.2.symm
    subst hrest
    obtain ⟨b1, hy1, hy2⟩ := Yields.split hy
    have hy3 : Yields env.cfg b1 (post ++ [term]) b' := hy2.snoc htok
    -- the token after the name: a qualifier or the declarator start
    obtain ⟨cur, crest, hcur⟩ : ∃ cur crest, post ++ [term] = cur :: crest := by
      cases post with
      | nil => exact ⟨term, [], rfl⟩
      | cons k ks => exact ⟨k, ks ++ [term], rfl⟩
    have hcurAfter : afterName cur.type = true := by
      cases post with
      | nil => simp only [List.nil_append, List.cons.injEq] at hcur; rw [← hcur.1]; exact hafter
      | cons k ks => simp only [List.cons_append, List.cons.injEq] at hcur; rw [← hcur.1]; exact isCv_afterName (hpost k (by simp))
    rw [hcur] at hy3
    obtain ⟨b2, hcurtok, hy4⟩ := Yields.cons_inv hy3
    obtain ⟨w1, t1, op, hi1, hs1, ht1, hty1, hv1⟩ := hname.run ct f nrest w b1 b2 cur hnt hty hv hy1 hcurtok hcurAfter
    obtain ⟨w2, c2, hi2, hb2, hs2, hty2, hv2⟩ := step_token env w1 t1 b2 ht1
    obtain ⟨m, rfl⟩ : ∃ m, n = m + 1 := ⟨n - 1, by omega⟩
    obtain ⟨w3, c3, hi3, hs3, hb3, hty3, hv3⟩ := typeLoop_afterName env F (core F (D + 1)) operatorOk (.mk segs none false) post c2 cur crest
      cst vol m w2 bmid b' term hpost hcur (by rw [hty2, hty1]) (by rw [hv2, hv1]) (by rw [hb2]; exact hy4)
      hend (by simp at hn; omega)
    refine ⟨w3, c3, ?_, (hs1.trans hs2.butLog).trans hs3.butLog, hb3, hty3, hv3⟩
    obtain ⟨hst, hnop⟩ := hname.start f nrest hnt
    rw [loopN]
    simp only [bind, interp_bind, typeBody_name env F (core F (D + 1)) operatorOk ct cst vol o {} w (by rw [hty]; exact hst) (by rw [hty]; exact hnop),
      hi1, hi2, hi3, cvConst, cvVol, List.any_nil, Bool.or_false]
  | cons k ks ih =>
    intro ct f rest cst vol o n w bmid b' term hpre hsplit hty hv hy htok hend hafter hn
    simp only [List.cons_append, List.cons.injEq] at hsplit
    obtain ⟨hkf, hrest⟩ := hsplit
    subst hkf
    have hct : isCv ct.type = true := by rw [hty]; exact hpre k (by simp)
    -- the next token exists because the name is not empty
    obtain ⟨g, grest, hg⟩ : ∃ g grest, ks ++ ntoks ++ post = g :: grest := by
      cases hks : ks with
      | cons a as => exact ⟨a, as ++ ntoks ++ post, rfl⟩
      | nil =>
        cases hnt : ntoks with
        | nil => exact absurd hnt hname.nonempty
        | cons a as => exact ⟨a, as ++ post, rfl⟩
    rw [hg] at hrest
    subst hrest
    obtain ⟨b1, hg1, hy1⟩ := Yields.cons_inv hy
    obtain ⟨w1, c1, hi1, hb1, hs1, hty1, hv1⟩ := step_token env w g b1 hg1
    obtain ⟨m, rfl⟩ : ∃ m, n = m + 1 := ⟨n - 1, by omega⟩
    obtain ⟨w', c', hi, hs, hb, hty', hv'⟩ := ih c1 g grest (cst || ct.type == "const") (vol || ct.type == "volatile") false m w1 bmid b' term
      (fun q hq => hpre q (by simp [hq])) hg hty1 hv1 (by rw [hb1]; exact hy1) htok hend hafter (by simp at hn; omega)
    refine ⟨w', c', ?_, hs1.butLog.trans hs, hb, hty', hv'⟩
    rw [loopN]
    simp only [bind, interp_bind, typeBody_cv env F (core F (D + 1)) operatorOk ct none cst vol {} o w hct, hi1]
    rw [hi]
    simp only [cvConst, cvVol, List.any_cons, Bool.or_assoc, hty]

/-- **any number of `const` / `volatile` before and after a name is a type with those flags** -/
theorem typeSpecR_cv (env : Env) (F D : Nat) (pre ntoks post : List Tok) (segs : List PQSeg)
    (hname : NameSpecR env F D ntoks segs)
    (hpre : ∀ k ∈ pre, isCv k.type = true) (hpost : ∀ k ∈ post, isCv k.type = true)
    (hF : pre.length + post.length + 3 ≤ F) :
    TypeSpecR env F D (pre ++ ntoks ++ post) segs (cvConst pre || cvConst post) (cvVol pre || cvVol post) := by
  intro operatorOk ct f rest w bmid b' term hsplit hty hv hy htok hterm
  obtain ⟨w1, c1, hi1, hs1, hb1, hty1, hv1⟩ := typeLoop_cv env F D operatorOk ntoks segs hname post hpost pre ct f rest false false false F
    w bmid b' term hpre hsplit hty hv hy htok (declStart_typeEnd hterm) (declStart_afterName hterm) hF
  have hnd : isDiscard c1.type = false := by rw [hty1]; exact tokenEofOk_not_discard htok
  obtain ⟨w2, t2, hi2, hs2, ht2, hty2, hv2⟩ := step_returnToken env w1 c1 hnd
  refine ⟨w2, t2, ?_, hs1.trans hs2.butLog, by rw [← hb1]; exact ht2, by rw [hty2, hty1], by rw [hv2, hv1]⟩
  unfold parseTypeStep
  simp only [pure, interp, bind, interp_bind]
  simp only [Bool.false_or] at hi1
  simp only [hi1]
  simp only [interp_bind, hi2, interp]


/-! ### instances of `NameSpecR` -/

/-- a qualified name of identifiers `n1 :: … :: nk` -/
theorem nameSpecR_plain (env : Env) (F D : Nat) (first : Tok) (pairs : List (Tok × Tok))
    (hty : first.type = "NAME") (hpv : plainVal first.value = true) (hnc : Gen.nameCompoundStart.contains first.value = false)
    (hall : ∀ p ∈ pairs, p.1.type = "DBL_COLON" ∧ p.2.type = "NAME" ∧ plainVal p.2.value = true)
    (hF : pairs.length + 1 ≤ F) :
    NameSpecR env F D (first :: pairs.flatMap (fun p => [p.1, p.2]))
      (.name first.value none :: pairs.map (fun p => .name p.2.value none)) where
  start := by
    intro f rest h
    simp only [List.cons.injEq] at h
    rw [← h.1, hty]
    exact ⟨by decide, by decide⟩
  nonempty := by simp
  run := by
    intro ct f rest w bmid b' term h hct hcv hy htok hafter
    simp only [List.cons.injEq] at h
    obtain ⟨rfl, rfl⟩ := h
    obtain ⟨w1, t1, hi, hs, ht, hty1, hv1⟩ := plain_pqname env F (core F D) false true true ct pairs w bmid b' term
      (hct.trans hty) (by rw [hcv]; exact hpv) (by rw [hcv]; exact hnc) hall hy htok (afterName_lt hafter) (afterName_dc hafter) hF
    refine ⟨logged env w1 "parse_pqname", t1, none, ?_, hs.butLog.trans (logged_butLog env w1 _), by rw [logged_buf']; exact ht, hty1, hv1⟩
    rw [core_parsePqname, hi, hcv]

/-- table facts about the fundamental-type keywords, decided over the regenerated tables -/
theorem fundamentals_facts : ∀ v ∈ Gen.fundamentals,
    (Gen.pqnameStartTokens.contains v && v != "auto" && v != "typename" && v != "DBL_COLON" && v != "operator" &&
      v != "decltype" && !Gen.nameCompoundStart.contains v) = true := by decide

/-- the name loop of `_parse_pqname` at a fundamental keyword: one segment, then the name ends -/
theorem pqnameBody_fund (env : Env) (F : Nat) (rec : Core) (ct : CTok) (ks : List Tok) (w : World) (bmid b' : Buf) (term : Tok)
    (hfund : Gen.fundamentals.contains ct.value = true)
    (hks : if Gen.compoundFundamentals.contains ct.value then ∀ k ∈ ks, Gen.compoundFundamentals.contains k.type = true else ks = [])
    (hy : Yields env.cfg w.buf ks bmid) (htok : tokenEofOk env.cfg bmid = .ok (some term, b'))
    (hterm : Gen.compoundFundamentals.contains term.type = false) (hF : ks.length + 1 ≤ F) :
    ∃ (w' : World) (t' : Tok),
      interp env (pqnameBody F rec false true ([], ct)) w =
        (w', .ok (.inr ([.fund (joinWith " " (ct.value :: ks.map (·.value)))], none))) ∧
      SameParse w w' ∧ tokenEofOk env.cfg w'.buf = .ok (some t', b') ∧ t'.type = term.type ∧ t'.value = term.value := by
  have hfacts := fundamentals_facts ct.value (List.contains_iff_mem.mp hfund)
  simp only [Bool.and_eq_true, bne_iff_ne, ne_eq, Bool.not_eq_true'] at hfacts
  obtain ⟨⟨⟨⟨⟨⟨_, _⟩, _⟩, _⟩, _⟩, hdt⟩, _⟩ := hfacts
  cases hc : Gen.compoundFundamentals.contains ct.value with
  | true =>
    simp only [hc, ↓reduceIte] at hks
    obtain ⟨w', t', hi, hs, ht, hty, hv⟩ := fundamental_group env F ct.value ks w bmid b' term hc hks hy htok hterm hF
    refine ⟨w', t', ?_, hs, ht, hty, hv⟩
    unfold pqnameBody pqnameSeg
    simp only [hdt, hfund, ↓reduceIte, Bool.not_true, Bool.false_eq_true, bind, interp_bind, hi, pure, interp, List.nil_append]
  | false =>
    simp only [hc, Bool.false_eq_true, ↓reduceIte] at hks
    subst hks
    cases hy
    have hi := fundamental_single env F ct.value w hc
    obtain ⟨t', ht, hty, hv⟩ : ∃ t', tokenEofOk env.cfg w.buf = .ok (some t', b') ∧ t'.type = term.type ∧ t'.value = term.value :=
      ⟨term, htok, rfl, rfl⟩
    refine ⟨w, t', ?_, SameParse.refl w, ht, hty, hv⟩
    unfold pqnameBody pqnameSeg
    simp only [hdt, hfund, ↓reduceIte, Bool.not_true, Bool.false_eq_true, bind, interp_bind, hi, pure, interp, List.nil_append,
      List.map_nil, joinWith]

/-- a fundamental type: one keyword (`void`, `bool`, …) or a group of the compound keywords (`unsigned long long`, …) -/
theorem nameSpecR_fund (env : Env) (F D : Nat) (first : Tok) (ks : List Tok)
    (hkw : first.type = first.value) (hfund : Gen.fundamentals.contains first.value = true)
    (hks : if Gen.compoundFundamentals.contains first.value then ∀ k ∈ ks, Gen.compoundFundamentals.contains k.type = true else ks = [])
    (hF : ks.length + 1 ≤ F) :
    NameSpecR env F D (first :: ks) [.fund (joinWith " " (first.value :: ks.map (·.value)))] where
  start := by
    intro f rest h
    simp only [List.cons.injEq] at h
    have hfacts := fundamentals_facts first.value (List.contains_iff_mem.mp hfund)
    simp only [Bool.and_eq_true, bne_iff_ne, ne_eq, Bool.not_eq_true'] at hfacts
    rw [← h.1, hkw]
    exact ⟨hfacts.1.1.1.1.1.1, hfacts.1.1.2⟩
  nonempty := by simp
  run := by
    intro ct f rest w bmid b' term h hct hcv hy htok hafter
    simp only [List.cons.injEq] at h
    obtain ⟨rfl, rfl⟩ := h
    have hfacts := fundamentals_facts first.value (List.contains_iff_mem.mp hfund)
    simp only [Bool.and_eq_true, bne_iff_ne, ne_eq, Bool.not_eq_true'] at hfacts
    obtain ⟨⟨⟨⟨⟨⟨hst, hauto⟩, htn⟩, hdc⟩, _⟩, _⟩, hnc⟩ := hfacts
    obtain ⟨w1, t1, hi, hs, ht, hty1, hv1⟩ := pqnameBody_fund env F (core F D) ct ks w bmid b' term (by rw [hcv]; exact hfund)
      (by rw [hcv]; exact hks) hy htok (afterName_cf hafter) hF
    refine ⟨logged env w1 "parse_pqname", t1, none, ?_, hs.butLog.trans (logged_butLog env w1 _), by rw [logged_buf']; exact ht, hty1, hv1⟩
    obtain ⟨k, rfl⟩ : ∃ k, F = k + 1 := ⟨F - 1, by omega⟩
    rw [core_parsePqname]
    unfold parsePqnameStep
    have hctt : ct.type = first.value := hct.trans hkw
    simp only [pure, interp, bind, interp_bind, hctt, hcv, hst, Bool.not_true, Bool.false_eq_true, ↓reduceIte, hnc, hauto, htn, hdc]
    rw [loopN]
    simp only [bind, interp_bind, hi, pure, interp, P.debugPrint, logged, hcv]

end Cxx
