/-
  Theorems/CtorDecl.lean — constructor declarations in a class body (C03): `N ( parameters ) qualifiers ;` where `N` is the name
  of the innermost open class.  `_parse_decl` sees the `(` after the type name, recognises the class name, pushes the `(` back and
  reports ONE `on_class_method` with `constructor = True`, no return type, the parameters and the access level in force.
-/
import CxxModel.Theorems.MethodDecl
import CxxModel.Theorems.RefChain
import CxxModel.Theorems.ParamGen
import CxxModel.Theorems.TopLevel
namespace Cxx
open P

/-- `T (` where the parenthesis is not a grouping parenthesis (`(*` / `(&`): `_parse_cv_ptr_or_fn` reads the `(`, looks at the
    token after it and pushes the `(` back; the type is unchanged and the stream shows the same two tokens again -/
theorem cvPtr_paren_stop (env : Env) (rec : Core) (d : DType) (F : Nat) (w : World) (op f : Tok) (bo b1 : Buf)
    (hto : tokenEofOk env.cfg w.buf = .ok (some op, bo)) (hop : op.type = "(")
    (htf : tokenEofOk env.cfg bo = .ok (some f, b1))
    (hfs : f.type ≠ "*") (hfa : f.type ≠ "&") (hms : Gen.msvcConventions.contains f.value = false) (hF : 1 ≤ F) :
    ∃ (w' : World) (op' f' : Tok) (bx : Buf), interp env (parseCvPtrOrFnStep F rec d false) w = (w', .ok d) ∧ SameParse w w' ∧
      tokenEofOk env.cfg w'.buf = .ok (some op', bx) ∧ op'.type = "(" ∧
      tokenEofOk env.cfg bx = .ok (some f', b1) ∧ f'.type = f.type ∧ f'.value = f.value := by
  obtain ⟨w1, c1, hi1, hb1, hs1, hty1, hv1⟩ := step_tokenIf_hit env ["*", "const", "volatile", "("] w op bo hto (by rw [hop]; decide)
  obtain ⟨w2, f2, hi2, hs2, ht2, hty2, hv2⟩ := step_tokenIfP_miss env (fun t => Gen.msvcConventions.contains t.value) w1 f b1
    (by rw [hb1]; exact htf) (by intro c _ hcv; show Gen.msvcConventions.contains c.value = false; rw [hcv]; exact hms)
  obtain ⟨w3, f3, hi3, hs3, ht3, hty3, hv3⟩ := step_tokenPeekIf env ["*", "&"] w2 f2 b1 ht2
  have hc1 : c1.type = "(" := by rw [hty1, hop]
  obtain ⟨w4, t4, hi4, hs4, ht4, hty4, hv4⟩ := step_returnToken env w3 c1 (by rw [hc1]; decide)
  obtain ⟨w5, t5, hi5, hs5, ht5, hty5, hv5⟩ := step_tokenIf_miss env ["&", "DBL_AMP"] w4 t4 w3.buf ht4 (by rw [hty4, hc1]; decide)
  have hpeek : ["*", "&"].contains f2.type = false := by
    rw [hty2]; simp [hfs, hfa]
  refine ⟨w5, t5, f3, w3.buf, ?_, (((hs1.trans hs2).trans hs3).trans hs4).trans hs5, ht5, by rw [hty5, hty4, hc1], ht3,
    by rw [hty3, hty2], by rw [hv3, hv2]⟩
  obtain ⟨k, rfl⟩ : ∃ k, F = k + 1 := ⟨F - 1, by omega⟩
  unfold parseCvPtrOrFnStep
  rw [loopN]
  unfold cvPtrBody
  simp only [bind, interp_bind, hi1, hc1, (by decide : ("(" = "*") = False), (by decide : ("(" = "const") = False),
    (by decide : ("(" = "volatile") = False), ↓reduceIte, Bool.false_eq_true, P.tokenIfVal, hi2, hi3, hpeek, Bool.not_false,
    hi4, pure, interp]
  unfold cvRefTail
  simp only [bind, interp_bind, hi5, pure, interp]

/-- the record a constructor declaration starts from -/
def ctorFunction (n : String) (dox : Option String) : Function :=
  { returnType := none, name := .mk [.name n none] none false, parameters := [], vararg := false, doxygen := dox,
    template := .none, operator := none, constexpr := false, extern := false, static := false, inline := false,
    msvcConvention := none }

/-- the type a constructor's name is first read as -/
def ctorType (n : String) : DType := .type (.mk [.name n none] none false) false false

/-- **one constructor declarator `( parameters ) qualifiers ;` after the class's own name, in a class body**, with an active
    visitor that does not raise here: exactly ONE callback `on_class_method` for the innermost open class, with
    `constructor = True`, NO return type, the class name, exactly the parameters `_parse_parameters` decodes, the access level
    in force in THAT class and exactly the written qualifier flags -/
theorem declarator_ctor (env : Env) (F D : Nat) (nm : String) (location : LocRef) (doxygen : Option String)
    (op f semi : Tok) (plist : List Param) (quals : List Tok) (m' : Function) (w : World)
    (bo b1 bc bq b' : Buf)
    (blk : Block) (rest : List Block) (hstack : w.stack = blk :: rest) (hk : blk.hdr.kind = .cls)
    (hcn : blk.hdr.cls.typename.segments.getLast?.bind PQSeg.nameAttr = some nm) (hne : nm.isEmpty = false)
    (hmu : w.muted = false) (hfa : ¬ env.faultAt = some w.delivered)
    (hto : tokenEofOk env.cfg w.buf = .ok (some op, bo)) (hop : op.type = "(")
    (htf : tokenEofOk env.cfg bo = .ok (some f, b1)) (hfs : f.type ≠ "*") (hfamp : f.type ≠ "&")
    (hms : Gen.msvcConventions.contains f.value = false)
    (hparams : ∀ (W : World) (f' : Tok), tokenEofOk env.cfg W.buf = .ok (some f', b1) → f'.type = f.type → f'.value = f.value →
      ∃ w7, interp env (parseParametersStep F (core F D) true) W = (w7, .ok (plist, false, [])) ∧ SameButLog W w7 ∧ w7.buf = bc)
    (hyq : Yields env.cfg bc quals bq)
    (haq : applyQuals { ctorFunction nm doxygen with parameters := plist, isMethod := true, constructor := true, access := blk.access }
      (quals.map (·.value)) = some m')
    (hts : tokenEofOk env.cfg bq = .ok (some semi, b')) (hs : semi.type = ";") (hsv : semi.value = ";") (hFq : quals.length + 1 ≤ F)
    (hF : 1 ≤ F) :
    ∃ (w7 : World) (ev : Event),
      interp env (declaratorBody F (core F (D + 1)) (ctorType nm) {} .none false false (location, doxygen)) w = (w7, .ok (.inr ())) ∧
      w7.buf = b' ∧ w7.stack = { blk with loc := location } :: rest ∧
      w7.events = w.events ++ [ev] ∧ ev.kind = .item (.classMethod m') ∧
      ev.stateId = blk.id ∧ ev.parentId = rest.head?.map (·.id) ∧
      w7.delivered = w.delivered + 1 ∧ w7.anon = w.anon ∧ w7.muted = false ∧ w7.nextId = w.nextId ∧
      w7.mainTok = w.mainTok := by
  obtain ⟨w1, op1, f1, bx, hi1, hs1, ht1, hop1, htf1, hfty1, hfv1⟩ :=
    cvPtr_paren_stop env (core F D) (ctorType nm) F w op f bo b1 hto hop htf hfs hfamp hms hF
  have htop1 := interp_getTop env w1 blk rest (by rw [hs1.stack]; exact hstack)
  obtain ⟨w2, c2, hi2, hb2, hs2, hty2, _⟩ := step_tokenIf_hit env ["("] w1 op1 bx ht1 (by rw [hop1]; decide)
  have hc2 : c2.type = "(" := by rw [hty2, hop1]
  obtain ⟨w3, t3, hi3, hs3, ht3, hty3, _⟩ := step_returnToken env w2 c2 (by rw [hc2]; decide)
  obtain ⟨w6, c4, hi4, hb4, hs4, _, _⟩ := step_tokenIf_hit env ["("] w3 t3 w2.buf ht3 (by rw [hty3, hc2]; decide)
  have hsl6 : SameParse w w6 := (((hs1.trans hs2).trans hs3).trans hs4)
  have hst6 : w6.stack = blk :: rest := by rw [hsl6.stack]; exact hstack
  have htop6 := interp_getTop env { w6 with stack := { blk with loc := location } :: rest } { blk with loc := location } rest rfl
  obtain ⟨w7, hi7, hs7, hb7⟩ := hparams { w6 with stack := { blk with loc := location } :: rest } f1
    (by show tokenEofOk env.cfg w6.buf = _; rw [hb4, hb2]; exact htf1) hfty1 hfv1
  have htop7 := interp_getTop env w7 { blk with loc := location } rest hs7.stack
  obtain ⟨w8, t8, hi8, hb8, htv8, hs8⟩ := methodEnd_quals env (core F (D + 1)) quals
    { ctorFunction nm doxygen with parameters := plist, isMethod := true, constructor := true, access := blk.access } m' F w7 bq b' semi
    (by rw [hb7]; exact hyq) haq hts (by rw [hsv]; decide) hFq
  have hty8 : t8.type = ";" := (congrArg Prod.fst htv8).trans hs
  have ht8 : tokenEofOk env.cfg w8.buf = .ok (some t8, b') := by
    rw [hb8]; exact tokenEofOk_returnToken env.cfg t8 b' (by rw [hty8]; decide)
  obtain ⟨_, _, _, _, _, _, _, _, _, _, hbody⟩ := applyQuals_flags _ _ _ haq
  have htrail := applyQuals_trailing _ _ _ haq
  have hst8 : w8.stack = { blk with loc := location } :: rest := by rw [hs8.stack, hs7.stack]
  have hmu8 : w8.muted = false := by rw [hs8.muted, hs7.muted]; show w6.muted = _; rw [hsl6.muted]; exact hmu
  have hdl8 : w8.delivered = w.delivered := by rw [hs8.delivered, hs7.delivered]; exact hsl6.delivered
  have hev8 : w8.events = w.events := by rw [hs8.events, hs7.events]; exact hsl6.events
  have hdel := deliver_passing env w8 (mkEvent w8 (.item (.classMethod m'))
    { blk with loc := location } (rest.head?.map (·.id))) hmu8 (by rw [hdl8]; exact hfa)
  have htok9 : tokenEofOk env.cfg ({ w8 with events := w8.events ++ [mkEvent w8 (.item (.classMethod m'))
      { blk with loc := location } (rest.head?.map (·.id))], delivered := w8.delivered + 1 } : World).buf = .ok (some t8, b') := ht8
  obtain ⟨w9, c9, hi9, hb9, hs9, hty9, _⟩ := step_mustBe env [",", ";"] _ t8 b' htok9 (by rw [hty8]; decide)
  refine ⟨w9, _, ?_, hb9, by rw [hs9.stack]; exact hst8, by rw [hs9.events, hev8], rfl, rfl, rfl,
    by rw [hs9.delivered, hdl8], ?_, by rw [hs9.muted]; exact hmu8, ?_, ?_⟩
  · have hi9' := hi9
    simp only [hst8] at hi9'
    have hi8' := hi8
    simp only [ctorFunction] at hi8' hbody htrail
    have hstr : strTruthy (some nm) = true := by simp [strTruthy, hne]
    unfold declaratorBody parseDecl parseCvPtr parseFunction
    simp only [ctorType] at hi1
    simp only [ctorType, bind, interp_bind, core_parseCvPtrOrFn, hi1, isFnType, Bool.false_eq_true, ↓reduceIte, pure, interp, htop1, hi2,
      Block.view, hcn, hstr, Option.isSome_some, typenameOf, hk, decide_true, Bool.true_or, Bool.true_and]
    simp only [ctorType, bind, interp_bind, core_parseCvPtrOrFn, core_parsePqname, core_parseParameters, hi1, isFnType, Bool.false_eq_true, ↓reduceIte,
      pure, interp, htop1, hi2, Option.isSome_some, Option.isSome_none, typenameOf, PQName.segments, Block.view, hk, decide_true, Bool.true_or,
      Bool.true_and, Bool.not_false, hcn, hstr, List.getLast?_singleton, Option.bind, PQSeg.nameAttr, hi3, hi4,
      Option.map_some, isNameSeg, Option.getD_some, Bool.not_true, P.setLoc, hst6, htop6,
      hi7, List.isEmpty_nil, Bool.and_true, List.length_singleton,
      (by decide : ¬ (1 > 1)), hasKey, List.any_nil, Option.map_none, currentAccess, htop7, hi8', P.emit, hst8] at hdel ⊢
    simp only [hdel, hbody, htrail, Bool.or_self, Bool.false_eq_true, ↓reduceIte, bind, interp_bind, hi9', hty9, hty8, pure, interp]
  · rw [hs9.anon]; show w8.anon = _; rw [hs8.anon, hs7.anon]; exact hsl6.anon
  · rw [hs9.nextId]; show w8.nextId = _; rw [hs8.nextId, hs7.nextId]; exact hsl6.nextId
  · rw [hs9.mainTok]; show w8.mainTok = _; rw [hs8.mainTok, hs7.mainTok]; exact hsl6.mainTok

/-- `_parse_parameters` on a parameter list whose first token is a pushed-back copy (same type and text) -/
theorem parseParameters_gen_flex (env : Env) (F D : Nat) (ps : List (PItemG × Tok)) (last : PItemG) (cp : Tok)
    (w : World) (b1 b' : Buf) (f f' : Tok) (rest : List Tok)
    (hall : ∀ q ∈ ps, q.1.OK env F D ∧ q.2.type = "," ∧ q.2.value ≠ ")")
    (hlast : last.OK env F D) (hcp : cp.type = ")") (hcpv : cp.value = ")")
    (htoks : plistToks ps last cp = f :: rest) (hf : tokenEofOk env.cfg w.buf = .ok (some f', b1)) (hft : f'.type = f.type) (hfv : f'.value = f.value)
    (hyr : Yields env.cfg b1 rest b') (hF : ps.length + 1 ≤ F) :
    ∃ (w' : World),
      interp env (parseParametersStep F (core F (D + 1 + 1 + 1)) true) w =
        (w', .ok (ps.map (fun q => q.1.param) ++ [last.param], false, [])) ∧
      SameButLog w w' ∧ w'.buf = b' := by
  have hnp : f.type ≠ ")" := by
    cases ps with
    | nil =>
      obtain ⟨g0, gr, hgs, _, _, hnp⟩ := hlast.first
      have : plistToks [] last cp = g0 :: (gr ++ (last.ops ++ [last.name]) ++ [cp]) := by simp [plistToks, PItemG.toks, hgs]
      rw [this] at htoks
      injection htoks with h1 _
      rw [← h1]; exact hnp
    | cons x xs =>
      obtain ⟨g0, gr, hgs, _, _, hnp⟩ := (hall x (by simp)).1.first
      have : plistToks (x :: xs) last cp = g0 :: (gr ++ (x.1.ops ++ [x.1.name]) ++ [x.2] ++ plistToks xs last cp) := by
        simp [plistToks, PItemG.toks, hgs, List.append_assoc]
      rw [this] at htoks
      injection htoks with h1 _
      rw [← h1]; exact hnp
  -- the look-ahead for `)` pushes the first token back: the loop reads an equal one
  obtain ⟨w1, t1, hi1, hs1, ht1, hty1, hv1⟩ := step_tokenIf_miss env [")"] w f' b1 hf (by simp [hft, hnp])
  obtain ⟨w', hi, hs, hb⟩ := params_loop_gen env F D ps last cp [] [] w1 b1 b' F f t1 rest hall hlast hcp hcpv htoks (hty1.trans hft) (hv1.trans hfv) ht1 hyr hF
  refine ⟨w', ?_, hs1.butLog.trans hs, hb⟩
  -- the `void` rule does not apply
  have hvoid : ∀ (convert : Bool), applyVoidOption convert (ps.map (fun q => q.1.param) ++ [last.param]) =
      ps.map (fun q => q.1.param) ++ [last.param] := by
    intro convert
    cases ps with
    | nil =>
      have := hlast.notVoid
      simp [applyVoidOption, PItemG.param, Param.type, this]
    | cons q qs =>
      cases hq : (qs.map (fun q => q.1.param) ++ [last.param]) with
      | nil => simp at hq
      | cons x xs => simp [applyVoidOption, hq]
  unfold parseParametersStep
  simp only [bind, interp_bind, hi1, hi, List.nil_append, P.getConvertVoid, interp, pure, hvoid]

/-- `_parse_parameters` on `)`: no parameters -/
theorem parseParameters_empty_flex (env : Env) (F : Nat) (c : Core) (w : World) (cp' : Tok) (bc : Buf)
    (hf : tokenEofOk env.cfg w.buf = .ok (some cp', bc)) (hcp : cp'.type = ")") :
    ∃ (w' : World), interp env (parseParametersStep F c true) w = (w', .ok ([], false, [])) ∧ SameButLog w w' ∧ w'.buf = bc := by
  obtain ⟨w1, c1, hi1, hb1, hs1, _, _⟩ := step_tokenIf_hit env [")"] w cp' bc hf (by rw [hcp]; decide)
  refine ⟨w1, ?_, hs1.butLog, hb1⟩
  unfold parseParametersStep
  simp only [bind, interp_bind, hi1, pure, interp]

/-- **`N ( parameters ) qualifiers ;`** from `_parse_declarations`, in the body of a class named `N`, with an active visitor
    that does not raise here: exactly ONE `on_class_method` callback, a constructor -/
theorem parseDeclarations_ctor (env : Env) (F D : Nat) (tok : CTok) (doxygen : Option String)
    (op f semi : Tok) (plist : List Param) (quals : List Tok) (m' : Function) (w : World) (bo b1 bc bq b' : Buf)
    (blk : Block) (rest : List Block) (hstack : w.stack = blk :: rest) (hk : blk.hdr.kind = .cls)
    (hcn : blk.hdr.cls.typename.segments.getLast?.bind PQSeg.nameAttr = some tok.value)
    (hmu : w.muted = false) (hfa : ¬ env.faultAt = some w.delivered)
    (hty : tok.type = "NAME") (htv : identVal tok.value = true) (hne : tok.value.isEmpty = false)
    (hto : tokenEofOk env.cfg w.buf = .ok (some op, bo)) (hop : op.type = "(") (hopv : op.value ≠ "auto")
    (htf : tokenEofOk env.cfg bo = .ok (some f, b1)) (hfs : f.type ≠ "*") (hfamp : f.type ≠ "&")
    (hms : Gen.msvcConventions.contains f.value = false)
    (hparams : ∀ (W : World) (f' : Tok), tokenEofOk env.cfg W.buf = .ok (some f', b1) → f'.type = f.type → f'.value = f.value →
      ∃ w7, interp env (parseParametersStep F (core F (D + 1 + 1 + 1)) true) W = (w7, .ok (plist, false, [])) ∧ SameButLog W w7 ∧ w7.buf = bc)
    (hyq : Yields env.cfg bc quals bq)
    (haq : applyQuals { ctorFunction tok.value doxygen with parameters := plist, isMethod := true, constructor := true, access := blk.access }
      (quals.map (·.value)) = some m')
    (hsemi : tokenEofOk env.cfg bq = .ok (some semi, b')) (hs : semi.type = ";") (hsv : semi.value = ";") (hFq : quals.length + 1 ≤ F)
    (hF : 2 ≤ F) :
    ∃ (w7 : World) (ev : Event),
      interp env (parseDeclarations F (core F (D + 1 + 1 + 1 + 1)) tok doxygen) w = (w7, .ok ()) ∧
      w7.buf = b' ∧ w7.stack = { blk with loc := .tok tok.sidx } :: rest ∧
      w7.events = w.events ++ [ev] ∧ ev.kind = .item (.classMethod m') ∧
      ev.stateId = blk.id ∧ ev.parentId = rest.head?.map (·.id) ∧
      w7.delivered = w.delivered + 1 ∧ w7.anon = w.anon ∧ w7.muted = false ∧ w7.nextId = w.nextId ∧
      w7.mainTok = w.mainTok := by
  simp only [identVal, Bool.and_eq_true, Bool.not_eq_true', bne_iff_ne, ne_eq] at htv
  obtain ⟨⟨⟨hpv, hnc⟩, _⟩, _⟩ := htv
  obtain ⟨w1, t1, hi1, hs1, ht1, hty1, hv1⟩ := parseType_plain env F (D + 1 + 1) true tok [] w w.buf bo op hty hpv hnc (by simp) (.nil _) hto
    (typeStop_end (by rw [hop]; decide)) (by rw [hop]; decide) (by rw [hop]; decide) (by simp; omega)
  obtain ⟨w2, t2, hi2, hs2, ht2, hty2, hv2⟩ := step_tokenIfP_miss env (fun t => ["auto"].contains t.value) w1 t1 bo ht1
    (by intro c _ hcv; show ["auto"].contains c.value = false; rw [hcv, hv1]; simp [hopv])
  have hsl2 : SameButLog w w2 := hs1.trans hs2.butLog
  have htop2 := interp_getTop env w2 blk rest (by rw [hsl2.stack]; exact hstack)
  obtain ⟨w7, ev, hi7, hsig, hst7, hev7, hk7, hid7, hpar7, hdl7, han7, hmu7, hnx7, hmt7⟩ :=
    declarator_ctor env F (D + 1 + 1 + 1) tok.value (.tok tok.sidx) doxygen t2 f semi plist quals m' w2 bo b1 bc bq b' blk rest
      (by rw [hsl2.stack]; exact hstack) hk hcn hne (by rw [hsl2.muted]; exact hmu) (by rw [hsl2.delivered]; exact hfa)
      ht2 (by rw [hty2, hty1, hop]) htf hfs hfamp hms hparams hyq haq hsemi hs hsv hFq (by omega)
  refine ⟨w7, ev, ?_, hsig, hst7, by rw [hev7, hsl2.events], hk7, hid7, hpar7, by rw [hdl7, hsl2.delivered],
    by rw [han7, hsl2.anon], hmu7, by rw [hnx7, hsl2.nextId], by rw [hmt7, hsl2.mainTok]⟩
  obtain ⟨k, rfl⟩ : ∃ k, F = k + 1 := ⟨F - 1, by omega⟩
  unfold parseDeclarations
  simp only [List.map_nil] at hi1
  simp only [ctorType] at hi7
  simp only [bind, interp_bind, core_parseType, hi1, Option.bind, typenameOf, strTruthy, PQName.classkey, Bool.false_eq_true, ↓reduceIte, pure, interp, Bool.not_false,
    P.tokenIfVal, hi2, htop2, validate_empty]
  rw [loopN]
  simp only [bind, interp_bind, hi7, pure, interp]

/-- **a constructor declaration through `parse()`'s loop** -/
theorem toplevel_ctor (env : Env) (hp : RulesProgress env.cfg = true) (F D : Nat) (w : World)
    (first op f semi : Tok) (plist : List Param) (quals : List Tok) (m' : Function) (bn bo b1 bc bq b' : Buf)
    (blk : Block) (rest : List Block) (hstack : w.stack = blk :: rest) (hk : blk.hdr.kind = .cls)
    (hcn : blk.hdr.cls.typename.segments.getLast?.bind PQSeg.nameAttr = some first.value)
    (hmu : w.muted = false) (hfa : ¬ env.faultAt = some w.delivered)
    (htok : tokenEofOk env.cfg w.buf = .ok (some first, bn))
    (hty : first.type = "NAME") (htv : identVal first.value = true) (hne : first.value.isEmpty = false)
    (hto : tokenEofOk env.cfg bn = .ok (some op, bo)) (hop : op.type = "(") (hopv : op.value ≠ "auto")
    (htf : tokenEofOk env.cfg bo = .ok (some f, b1)) (hfs : f.type ≠ "*") (hfamp : f.type ≠ "&")
    (hms : Gen.msvcConventions.contains f.value = false)
    (hparams : ∀ (W : World) (f' : Tok), tokenEofOk env.cfg W.buf = .ok (some f', b1) → f'.type = f.type → f'.value = f.value →
      ∃ w7, interp env (parseParametersStep F (core F (D + 1 + 1 + 1)) true) W = (w7, .ok (plist, false, [])) ∧ SameButLog W w7 ∧ w7.buf = bc)
    (hyq : Yields env.cfg bc quals bq)
    (hsemi : tokenEofOk env.cfg bq = .ok (some semi, b')) (hs : semi.type = ";") (hsv : semi.value = ";") (hFq : quals.length + 1 ≤ F)
    (hF : 2 ≤ F) :
    ∀ (d : Option String) (bD : Buf), getDoxygen env.cfg env.mcRe w.buf = .ok (d, bD) →
    applyQuals { ctorFunction first.value d with parameters := plist, isMethod := true, constructor := true, access := blk.access }
      (quals.map (·.value)) = some m' →
    ∃ (w7 : World) (ct : CTok) (ev : Event),
      interp env (mainBody F (core F (D + 1 + 1 + 1 + 1)) none) w = (w7, .ok (.inl none)) ∧
      w7.buf = b' ∧ ct.value = first.value ∧ w7.stack = { blk with loc := .tok ct.sidx } :: rest ∧
      w7.events = w.events ++ [ev] ∧ ev.kind = .item (.classMethod m') ∧
      ev.stateId = blk.id ∧ ev.parentId = rest.head?.map (·.id) ∧
      w7.delivered = w.delivered + 1 ∧ w7.anon = w.anon ∧ w7.muted = false ∧ w7.nextId = w.nextId := by
  intro d bD hdx haq
  obtain ⟨d', bD', wA, ct, hd, hsA, hbA, htyc, hv, hi⟩ := mainBody_item env hp F (core F (D + 1 + 1 + 1 + 1)) w first bn htok
  rw [hdx] at hd
  injection hd with hd; injection hd with hd1 hd2
  subst hd1; subst hd2
  obtain ⟨w7, ev, hi7, hsig, hst7, hev7, hk7, hid7, hpar7, hdl7, han7, hmu7, hnx7, _⟩ :=
    parseDeclarations_ctor env F D ct d op f semi plist quals m' { wA with mainTok := some ct } bo b1 bc bq b' blk rest
      (by show wA.stack = _; rw [hsA.stack]; exact hstack) hk (by rw [hv]; exact hcn) (by show wA.muted = _; rw [hsA.muted]; exact hmu)
      (by show ¬ env.faultAt = some wA.delivered; rw [hsA.delivered]; exact hfa) (htyc.trans hty) (by rw [hv]; exact htv) (by rw [hv]; exact hne)
      (by show tokenEofOk env.cfg wA.buf = _; rw [hbA]; exact hto) hop hopv htf hfs hfamp hms hparams hyq (by rw [hv]; exact haq) hsemi hs hsv hFq hF
  refine ⟨w7, ct, ev, ?_, hsig, hv, hst7, by rw [hev7]; show wA.events ++ _ = _; rw [hsA.events], hk7, hid7, hpar7,
    by rw [hdl7]; show wA.delivered + 1 = _; rw [hsA.delivered], by rw [han7]; exact hsA.anon, hmu7,
    by rw [hnx7]; exact hsA.nextId⟩
  rw [hi]
  have hti : topItem F (core F (D + 1 + 1 + 1 + 1)) ct d = parseDeclarations F (core F (D + 1 + 1 + 1 + 1)) ct d := by
    unfold topItem
    have : Gen.dispatchTable.lookup "NAME" = none := by rw [dispatch_table_eq]; decide
    rw [htyc, hty, this]
  have hcar : carry ct d = none := by
    unfold carry
    have : Gen.keepDoxygen.contains "NAME" = false := by rw [keep_doxygen_eq]; decide
    rw [htyc, hty, this]
    rfl
  rw [hti, hi7, hcar]

/-- a name is never its own destructor name -/
theorem tilde_ne (n : String) : (n = "~" ++ n) = False := by
  apply eq_false
  intro h
  have := congrArg String.length h
  simp [String.length_append] at this

/-- **one destructor declarator `( parameters ) qualifiers ;` after `~N` (ONE token for the lexer) where `N` is the class's own name, in a class body**, with an active
    visitor that does not raise here: exactly ONE callback `on_class_method` for the innermost open class, with
    `destructor = True`, NO return type, the class name, exactly the parameters `_parse_parameters` decodes, the access level
    in force in THAT class and exactly the written qualifier flags -/
theorem declarator_dtor (env : Env) (F D : Nat) (nm : String) (location : LocRef) (doxygen : Option String)
    (op f semi : Tok) (plist : List Param) (quals : List Tok) (m' : Function) (w : World)
    (bo b1 bc bq b' : Buf)
    (blk : Block) (rest : List Block) (hstack : w.stack = blk :: rest) (hk : blk.hdr.kind = .cls)
    (hcn : blk.hdr.cls.typename.segments.getLast?.bind PQSeg.nameAttr = some nm) (hne : nm.isEmpty = false)
    (hmu : w.muted = false) (hfa : ¬ env.faultAt = some w.delivered)
    (hto : tokenEofOk env.cfg w.buf = .ok (some op, bo)) (hop : op.type = "(")
    (htf : tokenEofOk env.cfg bo = .ok (some f, b1)) (hfs : f.type ≠ "*") (hfamp : f.type ≠ "&")
    (hms : Gen.msvcConventions.contains f.value = false)
    (hparams : ∀ (W : World) (f' : Tok), tokenEofOk env.cfg W.buf = .ok (some f', b1) → f'.type = f.type → f'.value = f.value →
      ∃ w7, interp env (parseParametersStep F (core F D) true) W = (w7, .ok (plist, false, [])) ∧ SameButLog W w7 ∧ w7.buf = bc)
    (hyq : Yields env.cfg bc quals bq)
    (haq : applyQuals { ctorFunction ("~" ++ nm) doxygen with parameters := plist, isMethod := true, destructor := true, access := blk.access }
      (quals.map (·.value)) = some m')
    (hts : tokenEofOk env.cfg bq = .ok (some semi, b')) (hs : semi.type = ";") (hsv : semi.value = ";") (hFq : quals.length + 1 ≤ F)
    (hF : 1 ≤ F) :
    ∃ (w7 : World) (ev : Event),
      interp env (declaratorBody F (core F (D + 1)) (ctorType ("~" ++ nm)) {} .none false false (location, doxygen)) w = (w7, .ok (.inr ())) ∧
      w7.buf = b' ∧ w7.stack = { blk with loc := location } :: rest ∧
      w7.events = w.events ++ [ev] ∧ ev.kind = .item (.classMethod m') ∧
      ev.stateId = blk.id ∧ ev.parentId = rest.head?.map (·.id) ∧
      w7.delivered = w.delivered + 1 ∧ w7.anon = w.anon ∧ w7.muted = false ∧ w7.nextId = w.nextId ∧
      w7.mainTok = w.mainTok := by
  obtain ⟨w1, op1, f1, bx, hi1, hs1, ht1, hop1, htf1, hfty1, hfv1⟩ :=
    cvPtr_paren_stop env (core F D) (ctorType ("~" ++ nm)) F w op f bo b1 hto hop htf hfs hfamp hms hF
  have htop1 := interp_getTop env w1 blk rest (by rw [hs1.stack]; exact hstack)
  obtain ⟨w2, c2, hi2, hb2, hs2, hty2, _⟩ := step_tokenIf_hit env ["("] w1 op1 bx ht1 (by rw [hop1]; decide)
  have hc2 : c2.type = "(" := by rw [hty2, hop1]
  obtain ⟨w3, t3, hi3, hs3, ht3, hty3, _⟩ := step_returnToken env w2 c2 (by rw [hc2]; decide)
  obtain ⟨w6, c4, hi4, hb4, hs4, _, _⟩ := step_tokenIf_hit env ["("] w3 t3 w2.buf ht3 (by rw [hty3, hc2]; decide)
  have hsl6 : SameParse w w6 := (((hs1.trans hs2).trans hs3).trans hs4)
  have hst6 : w6.stack = blk :: rest := by rw [hsl6.stack]; exact hstack
  have htop6 := interp_getTop env { w6 with stack := { blk with loc := location } :: rest } { blk with loc := location } rest rfl
  obtain ⟨w7, hi7, hs7, hb7⟩ := hparams { w6 with stack := { blk with loc := location } :: rest } f1
    (by show tokenEofOk env.cfg w6.buf = _; rw [hb4, hb2]; exact htf1) hfty1 hfv1
  have htop7 := interp_getTop env w7 { blk with loc := location } rest hs7.stack
  obtain ⟨w8, t8, hi8, hb8, htv8, hs8⟩ := methodEnd_quals env (core F (D + 1)) quals
    { ctorFunction ("~" ++ nm) doxygen with parameters := plist, isMethod := true, destructor := true, access := blk.access } m' F w7 bq b' semi
    (by rw [hb7]; exact hyq) haq hts (by rw [hsv]; decide) hFq
  have hty8 : t8.type = ";" := (congrArg Prod.fst htv8).trans hs
  have ht8 : tokenEofOk env.cfg w8.buf = .ok (some t8, b') := by
    rw [hb8]; exact tokenEofOk_returnToken env.cfg t8 b' (by rw [hty8]; decide)
  obtain ⟨_, _, _, _, _, _, _, _, _, _, hbody⟩ := applyQuals_flags _ _ _ haq
  have htrail := applyQuals_trailing _ _ _ haq
  have hst8 : w8.stack = { blk with loc := location } :: rest := by rw [hs8.stack, hs7.stack]
  have hmu8 : w8.muted = false := by rw [hs8.muted, hs7.muted]; show w6.muted = _; rw [hsl6.muted]; exact hmu
  have hdl8 : w8.delivered = w.delivered := by rw [hs8.delivered, hs7.delivered]; exact hsl6.delivered
  have hev8 : w8.events = w.events := by rw [hs8.events, hs7.events]; exact hsl6.events
  have hdel := deliver_passing env w8 (mkEvent w8 (.item (.classMethod m'))
    { blk with loc := location } (rest.head?.map (·.id))) hmu8 (by rw [hdl8]; exact hfa)
  have htok9 : tokenEofOk env.cfg ({ w8 with events := w8.events ++ [mkEvent w8 (.item (.classMethod m'))
      { blk with loc := location } (rest.head?.map (·.id))], delivered := w8.delivered + 1 } : World).buf = .ok (some t8, b') := ht8
  obtain ⟨w9, c9, hi9, hb9, hs9, hty9, _⟩ := step_mustBe env [",", ";"] _ t8 b' htok9 (by rw [hty8]; decide)
  refine ⟨w9, _, ?_, hb9, by rw [hs9.stack]; exact hst8, by rw [hs9.events, hev8], rfl, rfl, rfl,
    by rw [hs9.delivered, hdl8], ?_, by rw [hs9.muted]; exact hmu8, ?_, ?_⟩
  · have hi9' := hi9
    simp only [hst8] at hi9'
    have hi8' := hi8
    simp only [ctorFunction] at hi8' hbody htrail
    have hstr : strTruthy (some nm) = true := by simp [strTruthy, hne]
    have hcn' := hcn
    simp only [PQName.segments, Option.bind] at hcn'
    unfold declaratorBody parseDecl parseCvPtr parseFunction
    simp only [ctorType] at hi1
    simp only [ctorType, bind, interp_bind, core_parseCvPtrOrFn, hi1, isFnType, Bool.false_eq_true, ↓reduceIte, pure, interp, htop1, hi2,
      Block.view, hcn, hstr, Option.isSome_some, typenameOf, hk, decide_true, Bool.true_or, Bool.true_and]
    simp only [ctorType, bind, interp_bind, core_parseCvPtrOrFn, core_parsePqname, core_parseParameters, hi1, isFnType, Bool.false_eq_true, ↓reduceIte,
      pure, interp, htop1, hi2, Option.isSome_some, Option.isSome_none, typenameOf, PQName.segments, Block.view, hk, decide_true, Bool.true_or,
      Bool.true_and, Bool.not_false, hcn, hcn', hstr, List.getLast?_singleton, Option.bind, PQSeg.nameAttr, hi3, hi4, Option.some.injEq, tilde_ne nm,
      Option.map_some, isNameSeg, Option.getD_some, Bool.not_true, P.setLoc, hst6, htop6,
      hi7, List.isEmpty_nil, Bool.and_true, List.length_singleton,
      (by decide : ¬ (1 > 1)), hasKey, List.any_nil, Option.map_none, currentAccess, htop7, hi8', P.emit, hst8] at hdel ⊢
    simp only [hdel, hbody, htrail, Bool.or_self, Bool.false_eq_true, ↓reduceIte, bind, interp_bind, hi9', hty9, hty8, pure, interp]
  · rw [hs9.anon]; show w8.anon = _; rw [hs8.anon, hs7.anon]; exact hsl6.anon
  · rw [hs9.nextId]; show w8.nextId = _; rw [hs8.nextId, hs7.nextId]; exact hsl6.nextId
  · rw [hs9.mainTok]; show w8.mainTok = _; rw [hs8.mainTok, hs7.mainTok]; exact hsl6.mainTok


/-- **`N ( parameters ) qualifiers ;`** from `_parse_declarations`, for `~N` in the body of a class named `N`, with an active visitor
    that does not raise here: exactly ONE `on_class_method` callback, a destructor -/
theorem parseDeclarations_dtor (env : Env) (F D : Nat) (tok : CTok) (nm : String) (doxygen : Option String)
    (op f semi : Tok) (plist : List Param) (quals : List Tok) (m' : Function) (w : World) (bo b1 bc bq b' : Buf)
    (blk : Block) (rest : List Block) (hstack : w.stack = blk :: rest) (hk : blk.hdr.kind = .cls)
    (hcn : blk.hdr.cls.typename.segments.getLast?.bind PQSeg.nameAttr = some nm) (hval : tok.value = "~" ++ nm)
    (hmu : w.muted = false) (hfa : ¬ env.faultAt = some w.delivered)
    (hty : tok.type = "NAME") (htv : identVal tok.value = true) (hne : nm.isEmpty = false)
    (hto : tokenEofOk env.cfg w.buf = .ok (some op, bo)) (hop : op.type = "(") (hopv : op.value ≠ "auto")
    (htf : tokenEofOk env.cfg bo = .ok (some f, b1)) (hfs : f.type ≠ "*") (hfamp : f.type ≠ "&")
    (hms : Gen.msvcConventions.contains f.value = false)
    (hparams : ∀ (W : World) (f' : Tok), tokenEofOk env.cfg W.buf = .ok (some f', b1) → f'.type = f.type → f'.value = f.value →
      ∃ w7, interp env (parseParametersStep F (core F (D + 1 + 1 + 1)) true) W = (w7, .ok (plist, false, [])) ∧ SameButLog W w7 ∧ w7.buf = bc)
    (hyq : Yields env.cfg bc quals bq)
    (haq : applyQuals { ctorFunction tok.value doxygen with parameters := plist, isMethod := true, destructor := true, access := blk.access }
      (quals.map (·.value)) = some m')
    (hsemi : tokenEofOk env.cfg bq = .ok (some semi, b')) (hs : semi.type = ";") (hsv : semi.value = ";") (hFq : quals.length + 1 ≤ F)
    (hF : 2 ≤ F) :
    ∃ (w7 : World) (ev : Event),
      interp env (parseDeclarations F (core F (D + 1 + 1 + 1 + 1)) tok doxygen) w = (w7, .ok ()) ∧
      w7.buf = b' ∧ w7.stack = { blk with loc := .tok tok.sidx } :: rest ∧
      w7.events = w.events ++ [ev] ∧ ev.kind = .item (.classMethod m') ∧
      ev.stateId = blk.id ∧ ev.parentId = rest.head?.map (·.id) ∧
      w7.delivered = w.delivered + 1 ∧ w7.anon = w.anon ∧ w7.muted = false ∧ w7.nextId = w.nextId ∧
      w7.mainTok = w.mainTok := by
  simp only [identVal, Bool.and_eq_true, Bool.not_eq_true', bne_iff_ne, ne_eq] at htv
  obtain ⟨⟨⟨hpv, hnc⟩, _⟩, _⟩ := htv
  obtain ⟨w1, t1, hi1, hs1, ht1, hty1, hv1⟩ := parseType_plain env F (D + 1 + 1) true tok [] w w.buf bo op hty hpv hnc (by simp) (.nil _) hto
    (typeStop_end (by rw [hop]; decide)) (by rw [hop]; decide) (by rw [hop]; decide) (by simp; omega)
  obtain ⟨w2, t2, hi2, hs2, ht2, hty2, hv2⟩ := step_tokenIfP_miss env (fun t => ["auto"].contains t.value) w1 t1 bo ht1
    (by intro c _ hcv; show ["auto"].contains c.value = false; rw [hcv, hv1]; simp [hopv])
  have hsl2 : SameButLog w w2 := hs1.trans hs2.butLog
  have htop2 := interp_getTop env w2 blk rest (by rw [hsl2.stack]; exact hstack)
  obtain ⟨w7, ev, hi7, hsig, hst7, hev7, hk7, hid7, hpar7, hdl7, han7, hmu7, hnx7, hmt7⟩ :=
    declarator_dtor env F (D + 1 + 1 + 1) nm (.tok tok.sidx) doxygen t2 f semi plist quals m' w2 bo b1 bc bq b' blk rest
      (by rw [hsl2.stack]; exact hstack) hk hcn hne (by rw [hsl2.muted]; exact hmu) (by rw [hsl2.delivered]; exact hfa)
      ht2 (by rw [hty2, hty1, hop]) htf hfs hfamp hms hparams hyq (by rw [← hval]; exact haq) hsemi hs hsv hFq (by omega)
  refine ⟨w7, ev, ?_, hsig, hst7, by rw [hev7, hsl2.events], hk7, hid7, hpar7, by rw [hdl7, hsl2.delivered],
    by rw [han7, hsl2.anon], hmu7, by rw [hnx7, hsl2.nextId], by rw [hmt7, hsl2.mainTok]⟩
  obtain ⟨k, rfl⟩ : ∃ k, F = k + 1 := ⟨F - 1, by omega⟩
  unfold parseDeclarations
  simp only [List.map_nil] at hi1
  simp only [ctorType, ← hval] at hi7
  simp only [bind, interp_bind, core_parseType, hi1, Option.bind, typenameOf, strTruthy, PQName.classkey, Bool.false_eq_true, ↓reduceIte, pure, interp, Bool.not_false,
    P.tokenIfVal, hi2, htop2, validate_empty]
  rw [loopN]
  simp only [bind, interp_bind, hi7, pure, interp]

/-- **a destructor declaration through `parse()`'s loop** -/
theorem toplevel_dtor (env : Env) (hp : RulesProgress env.cfg = true) (F D : Nat) (w : World)
    (first : Tok) (nm : String) (op f semi : Tok) (plist : List Param) (quals : List Tok) (m' : Function) (bn bo b1 bc bq b' : Buf)
    (blk : Block) (rest : List Block) (hstack : w.stack = blk :: rest) (hk : blk.hdr.kind = .cls)
    (hcn : blk.hdr.cls.typename.segments.getLast?.bind PQSeg.nameAttr = some nm) (hval : first.value = "~" ++ nm)
    (hmu : w.muted = false) (hfa : ¬ env.faultAt = some w.delivered)
    (htok : tokenEofOk env.cfg w.buf = .ok (some first, bn))
    (hty : first.type = "NAME") (htv : identVal first.value = true) (hne : nm.isEmpty = false)
    (hto : tokenEofOk env.cfg bn = .ok (some op, bo)) (hop : op.type = "(") (hopv : op.value ≠ "auto")
    (htf : tokenEofOk env.cfg bo = .ok (some f, b1)) (hfs : f.type ≠ "*") (hfamp : f.type ≠ "&")
    (hms : Gen.msvcConventions.contains f.value = false)
    (hparams : ∀ (W : World) (f' : Tok), tokenEofOk env.cfg W.buf = .ok (some f', b1) → f'.type = f.type → f'.value = f.value →
      ∃ w7, interp env (parseParametersStep F (core F (D + 1 + 1 + 1)) true) W = (w7, .ok (plist, false, [])) ∧ SameButLog W w7 ∧ w7.buf = bc)
    (hyq : Yields env.cfg bc quals bq)
    (hsemi : tokenEofOk env.cfg bq = .ok (some semi, b')) (hs : semi.type = ";") (hsv : semi.value = ";") (hFq : quals.length + 1 ≤ F)
    (hF : 2 ≤ F) :
    ∀ (d : Option String) (bD : Buf), getDoxygen env.cfg env.mcRe w.buf = .ok (d, bD) →
    applyQuals { ctorFunction first.value d with parameters := plist, isMethod := true, destructor := true, access := blk.access }
      (quals.map (·.value)) = some m' →
    ∃ (w7 : World) (ct : CTok) (ev : Event),
      interp env (mainBody F (core F (D + 1 + 1 + 1 + 1)) none) w = (w7, .ok (.inl none)) ∧
      w7.buf = b' ∧ ct.value = first.value ∧ w7.stack = { blk with loc := .tok ct.sidx } :: rest ∧
      w7.events = w.events ++ [ev] ∧ ev.kind = .item (.classMethod m') ∧
      ev.stateId = blk.id ∧ ev.parentId = rest.head?.map (·.id) ∧
      w7.delivered = w.delivered + 1 ∧ w7.anon = w.anon ∧ w7.muted = false ∧ w7.nextId = w.nextId := by
  intro d bD hdx haq
  obtain ⟨d', bD', wA, ct, hd, hsA, hbA, htyc, hv, hi⟩ := mainBody_item env hp F (core F (D + 1 + 1 + 1 + 1)) w first bn htok
  rw [hdx] at hd
  injection hd with hd; injection hd with hd1 hd2
  subst hd1; subst hd2
  obtain ⟨w7, ev, hi7, hsig, hst7, hev7, hk7, hid7, hpar7, hdl7, han7, hmu7, hnx7, _⟩ :=
    parseDeclarations_dtor env F D ct nm d op f semi plist quals m' { wA with mainTok := some ct } bo b1 bc bq b' blk rest
      (by show wA.stack = _; rw [hsA.stack]; exact hstack) hk hcn (by rw [hv]; exact hval) (by show wA.muted = _; rw [hsA.muted]; exact hmu)
      (by show ¬ env.faultAt = some wA.delivered; rw [hsA.delivered]; exact hfa) (htyc.trans hty) (by rw [hv]; exact htv) hne
      (by show tokenEofOk env.cfg wA.buf = _; rw [hbA]; exact hto) hop hopv htf hfs hfamp hms hparams hyq (by rw [hv]; exact haq) hsemi hs hsv hFq hF
  refine ⟨w7, ct, ev, ?_, hsig, hv, hst7, by rw [hev7]; show wA.events ++ _ = _; rw [hsA.events], hk7, hid7, hpar7,
    by rw [hdl7]; show wA.delivered + 1 = _; rw [hsA.delivered], by rw [han7]; exact hsA.anon, hmu7,
    by rw [hnx7]; exact hsA.nextId⟩
  rw [hi]
  have hti : topItem F (core F (D + 1 + 1 + 1 + 1)) ct d = parseDeclarations F (core F (D + 1 + 1 + 1 + 1)) ct d := by
    unfold topItem
    have : Gen.dispatchTable.lookup "NAME" = none := by rw [dispatch_table_eq]; decide
    rw [htyc, hty, this]
  have hcar : carry ct d = none := by
    unfold carry
    have : Gen.keepDoxygen.contains "NAME" = false := by rw [keep_doxygen_eq]; decide
    rw [htyc, hty, this]
    rfl
  rw [hti, hi7, hcar]


end Cxx
