/-
  Theorems/FnDecl.lean — function declarations without parameters `T ptr-ops f ( ) ;` at namespace
  scope (C01, C02): `_parse_declarations` delivers exactly ONE `on_function` with the name `f`, the
  return type the declarator prefix denotes, an empty parameter list, no specifiers and no body.
-/
import CxxModel.Theorems.VarDecl
import CxxModel.Theorems.ParamForm
import CxxModel.Theorems.Verbose
namespace Cxx
open P

/-- the function a plain declarator with an empty parameter list declares -/
def plainFunction (f : Tok) (d1 : DType) (dox : Option String) : Function :=
  { returnType := some d1, name := .mk [.name f.value none] none false, parameters := [], vararg := false, doxygen := dox,
    template := .none, operator := none, constexpr := false, extern := false, static := false, inline := false,
    msvcConvention := none }

/-- the end of a function declaration that is just `;`: nothing is consumed, nothing is set -/
theorem parseFnEnd_semi (env : Env) (F : Nat) (c : Core) (fn : Function) (w : World) (semi : Tok) (b' : Buf)
    (htok : tokenEofOk env.cfg w.buf = .ok (some semi, b')) (hs : semi.type = ";") :
    ∃ (w' : World) (t' : Tok), interp env (parseFnEnd F c fn) w = (w', .ok fn) ∧ SameParse w w' ∧
      tokenEofOk env.cfg w'.buf = .ok (some t', b') ∧ t'.type = ";" := by
  obtain ⟨w1, t1, hi1, hs1, ht1, hty1, _⟩ := step_tokenIf_miss env ["throw"] w semi b' htok (by rw [hs]; decide)
  obtain ⟨w2, t2, hi2, hs2, ht2, hty2, _⟩ := step_tokenIf_miss env ["noexcept"] w1 t1 b' ht1 (by rw [hty1, hs]; decide)
  obtain ⟨w3, t3, hi3, hs3, ht3, hty3, _⟩ := step_tokenIf_miss env ["requires"] w2 t2 b' ht2 (by rw [hty2, hty1, hs]; decide)
  obtain ⟨w4, t4, hi4, hs4, ht4, hty4, _⟩ := step_tokenIf_miss env ["ARROW"] w3 t3 b' ht3 (by rw [hty3, hty2, hty1, hs]; decide)
  obtain ⟨w5, t5, hi5, hs5, ht5, hty5, _⟩ := step_tokenIf_miss env ["{"] w4 t4 b' ht4 (by rw [hty4, hty3, hty2, hty1, hs]; decide)
  obtain ⟨w6, t6, hi6, hs6, ht6, hty6, _⟩ := step_tokenIf_miss env ["="] w5 t5 b' ht5 (by rw [hty5, hty4, hty3, hty2, hty1, hs]; decide)
  refine ⟨w6, t6, ?_, ((((hs1.trans hs2).trans hs3).trans hs4).trans hs5).trans hs6, ht6, by rw [hty6, hty5, hty4, hty3, hty2, hty1, hs]⟩
  unfold parseFnEnd
  simp only [bind, interp_bind, hi1, Option.isSome_none, Bool.false_eq_true, ↓reduceIte, hi2, hi3, pure, interp, hi4, hi5, hi6]

theorem core_parseParameters (F n : Nat) : (core F (n + 1)).parseParameters = parseParametersStep F (core F n) := rfl

/-- **one declarator `ptr-ops f ( )` and the `;` after it, outside a class**, with an active visitor
    that does not raise here: exactly ONE callback `on_function` for the innermost open block -/
theorem declarator_function_noparams (env : Env) (F D : Nat) (pt : DType) (location : LocRef) (doxygen : Option String)
    (ops : List Tok) (f op cp semi : Tok) (d1 : DType) (w : World) (bmid bf bo bc b' : Buf)
    (blk : Block) (rest : List Block) (hstack : w.stack = blk :: rest) (hk : blk.hdr.kind ≠ .cls)
    (hmu : w.muted = false) (hfa : ¬ env.faultAt = some w.delivered)
    (hpt : isFnType pt = false)
    (hy : Yields env.cfg w.buf ops bmid) (ha : applyPtrOps pt (ops.map (·.type)) = some d1)
    (htf : tokenEofOk env.cfg bmid = .ok (some f, bf)) (hf : f.type = "NAME") (hfv : identVal f.value = true)
    (hto : tokenEofOk env.cfg bf = .ok (some op, bo)) (hop : op.type = "(")
    (htc : tokenEofOk env.cfg bo = .ok (some cp, bc)) (hcp : cp.type = ")")
    (hts : tokenEofOk env.cfg bc = .ok (some semi, b')) (hs : semi.type = ";")
    (hF : ops.length + 1 ≤ F) :
    ∃ (w7 : World) (ev : Event),
      interp env (declaratorBody F (core F (D + 1)) pt {} .none false false (location, doxygen)) w = (w7, .ok (.inr ())) ∧
      w7.buf = b' ∧ w7.stack = { blk with loc := location } :: rest ∧
      w7.events = w.events ++ [ev] ∧ ev.kind = .item (.function (plainFunction f d1 doxygen)) ∧
      ev.stateId = blk.id ∧ ev.parentId = rest.head?.map (·.id) ∧
      w7.delivered = w.delivered + 1 ∧ w7.anon = w.anon ∧ w7.muted = false ∧ w7.nextId = w.nextId ∧
      w7.mainTok = w.mainTok := by
  simp only [identVal, Bool.and_eq_true, Bool.not_eq_true', bne_iff_ne, ne_eq] at hfv
  obtain ⟨⟨⟨hpv, hnc⟩, hms⟩, _⟩ := hfv
  -- the pointer chain and the name
  obtain ⟨w1, t1, hi1, hb1, htv1, hs1⟩ := cvPtr_chain env (core F D) false ops pt d1 F w bmid bf f hy ha htf
    (by rw [hf]; decide) hF
  have hty1 : t1.type = f.type := congrArg Prod.fst htv1
  have hv1 : t1.value = f.value := congrArg Prod.snd htv1
  have ht1 : tokenEofOk env.cfg w1.buf = .ok (some t1, bf) := by
    rw [hb1]; exact tokenEofOk_returnToken env.cfg t1 bf (by rw [hty1]; exact tokenEofOk_not_discard htf)
  have hfn := applyPtrOps_notFn _ pt d1 hpt ha
  have htop1 := interp_getTop env w1 blk rest (by rw [hs1.stack]; exact hstack)
  obtain ⟨w2, t2, hi2, hs2, ht2, hty2, hv2⟩ := step_tokenIf_miss env ["("] w1 t1 bf ht1 (by rw [hty1, hf]; decide)
  obtain ⟨w3, t3, hi3, hs3, ht3, hty3, hv3⟩ := step_tokenIfP_miss env (fun t => Gen.msvcConventions.contains t.value) w2 t2 bf ht2
    (by intro c _ hcv; show Gen.msvcConventions.contains c.value = false; rw [hcv, hv2, hv1]; exact hms)
  obtain ⟨w4, c4, hi4, hb4, hs4, hty4, hv4⟩ := step_tokenIfP_hit env (fun t => Gen.pqnameStartTokens.contains t.type) w3 t3 bf ht3
    (by intro c hct _; show Gen.pqnameStartTokens.contains c.type = true; rw [hct, hty3, hty2, hty1, hf]; decide)
  have hc4v : c4.value = f.value := by rw [hv4, hv3, hv2, hv1]
  obtain ⟨w5, t5, hpq, hs5, ht5, hty5, _⟩ := plain_pqname env F (core F D) true false false c4 [] w4 bf bo op
    (by rw [hty4, hty3, hty2, hty1, hf]) (by rw [hc4v]; exact hpv) (by rw [hc4v]; exact hnc) (by simp)
    (by rw [hb4]; exact .nil _) hto (by rw [hop]; decide) (by rw [hop]; decide) (by simp; omega)
  -- `(`, the parameters, the end
  obtain ⟨w6, c6, hi6, hb6, hs6, _, _⟩ := step_tokenIf_hit env ["("] (logged env w5 "parse_pqname") t5 bo
    (by rw [logged_buf']; exact ht5) (by rw [hty5, hop]; decide)
  have hsl6 : SameButLog w w6 := (((((hs1.trans hs2).trans hs3).trans hs4).trans hs5).butLog.trans (logged_butLog env w5 _)).trans hs6.butLog
  have hst6 : w6.stack = blk :: rest := by rw [hsl6.stack]; exact hstack
  have htop6 := interp_getTop env { w6 with stack := { blk with loc := location } :: rest } { blk with loc := location } rest rfl
  obtain ⟨w7, c7, hi7, hb7, hs7, _, _⟩ := step_tokenIf_hit env [")"] { w6 with stack := { blk with loc := location } :: rest } cp bc
    (by show tokenEofOk env.cfg w6.buf = _; rw [hb6]; exact htc) (by rw [hcp]; decide)
  obtain ⟨w8, t8, hi8, hs8, ht8, hty8⟩ := parseFnEnd_semi env F (core F (D + 1)) (plainFunction f d1 doxygen) w7 semi b'
    (by rw [hb7]; exact hts) hs
  have hst8 : w8.stack = { blk with loc := location } :: rest := by rw [hs8.stack, hs7.stack]
  have hmu8 : w8.muted = false := by rw [hs8.muted, hs7.muted]; show w6.muted = _; rw [hsl6.muted]; exact hmu
  have hdl8 : w8.delivered = w.delivered := by rw [hs8.delivered, hs7.delivered]; exact hsl6.delivered
  have hev8 : w8.events = w.events := by rw [hs8.events, hs7.events]; exact hsl6.events
  have hdel := deliver_passing env w8 (mkEvent w8 (.item (.function (plainFunction f d1 doxygen)))
    { blk with loc := location } (rest.head?.map (·.id))) hmu8 (by rw [hdl8]; exact hfa)
  have htok9 : tokenEofOk env.cfg ({ w8 with events := w8.events ++ [mkEvent w8 (.item (.function (plainFunction f d1 doxygen)))
      { blk with loc := location } (rest.head?.map (·.id))], delivered := w8.delivered + 1 } : World).buf = .ok (some t8, b') := ht8
  obtain ⟨w9, c9, hi9, hb9, hs9, hty9, _⟩ := step_mustBe env [",", ";"] _ t8 b' htok9 (by rw [hty8]; decide)
  refine ⟨w9, _, ?_, hb9, by rw [hs9.stack]; exact hst8, by rw [hs9.events, hev8], rfl, rfl, rfl,
    by rw [hs9.delivered, hdl8], ?_, by rw [hs9.muted]; exact hmu8, ?_, ?_⟩
  · have hk' : ¬ blk.hdr.kind = .cls := hk
    have hi9' := hi9
    simp only [hst8, plainFunction] at hi9'
    have hi8' := hi8
    simp only [plainFunction] at hi8'
    unfold declaratorBody parseDecl parseCvPtr parseFunction
    simp only [bind, interp_bind, core_parseCvPtrOrFn, core_parsePqname, core_parseParameters, hi1, hfn, Bool.false_eq_true, ↓reduceIte,
      pure, interp, htop1, hi2, Option.isSome_some, Option.isSome_none, P.tokenIfVal, P.tokenIfInSet, hi3, hi4, hpq, List.map_nil, hc4v,
      hi6, PQName.segments, List.getLast?_singleton, Option.map_some, isNameSeg, Option.getD_some, Bool.not_true, P.setLoc, hst6, htop6,
      parseParametersStep, hi7, List.isEmpty_nil, Block.view, hk', decide_false, Bool.false_or, List.length_singleton,
      (by decide : ¬ (1 > 1)), Bool.false_and, hasKey, List.any_nil, Option.map_none, hi8', P.emit, hst8, plainFunction] at hdel ⊢
    simp only [hdel, Bool.or_self, Bool.false_eq_true, ↓reduceIte, bind, interp_bind, hi9', hty9, hty8, pure, interp]
  · rw [hs9.anon]; show w8.anon = _; rw [hs8.anon, hs7.anon]; exact hsl6.anon
  · rw [hs9.nextId]; show w8.nextId = _; rw [hs8.nextId, hs7.nextId]; exact hsl6.nextId
  · rw [hs9.mainTok]; show w8.mainTok = _; rw [hs8.mainTok, hs7.mainTok]; exact hsl6.mainTok

/-- **one declarator `ptr-ops f ( parameters )` and the `;` after it, outside a class**, with an active
    visitor that does not raise here, for any parameter list `_parse_parameters` decodes to `plist`
    (hypothesis `hparams`; `parseParameters_plain` provides it for plain parameters): exactly ONE
    callback `on_function` for the innermost open block carrying exactly those parameters -/
theorem declarator_function (env : Env) (F D : Nat) (pt : DType) (location : LocRef) (doxygen : Option String)
    (ops : List Tok) (f op semi : Tok) (plist : List Param) (d1 : DType) (w : World) (bmid bf bo bc b' : Buf)
    (blk : Block) (rest : List Block) (hstack : w.stack = blk :: rest) (hk : blk.hdr.kind ≠ .cls)
    (hmu : w.muted = false) (hfa : ¬ env.faultAt = some w.delivered)
    (hpt : isFnType pt = false)
    (hy : Yields env.cfg w.buf ops bmid) (ha : applyPtrOps pt (ops.map (·.type)) = some d1)
    (htf : tokenEofOk env.cfg bmid = .ok (some f, bf)) (hf : f.type = "NAME") (hfv : identVal f.value = true)
    (hto : tokenEofOk env.cfg bf = .ok (some op, bo)) (hop : op.type = "(")
    (hparams : ∀ W : World, W.buf = bo → ∃ w7, interp env (parseParametersStep F (core F D) true) W = (w7, .ok (plist, false, [])) ∧
      SameButLog W w7 ∧ w7.buf = bc)
    (hts : tokenEofOk env.cfg bc = .ok (some semi, b')) (hs : semi.type = ";")
    (hF : ops.length + 1 ≤ F) :
    ∃ (w7 : World) (ev : Event),
      interp env (declaratorBody F (core F (D + 1)) pt {} .none false false (location, doxygen)) w = (w7, .ok (.inr ())) ∧
      w7.buf = b' ∧ w7.stack = { blk with loc := location } :: rest ∧
      w7.events = w.events ++ [ev] ∧ ev.kind = .item (.function { plainFunction f d1 doxygen with parameters := plist }) ∧
      ev.stateId = blk.id ∧ ev.parentId = rest.head?.map (·.id) ∧
      w7.delivered = w.delivered + 1 ∧ w7.anon = w.anon ∧ w7.muted = false ∧ w7.nextId = w.nextId ∧
      w7.mainTok = w.mainTok := by
  simp only [identVal, Bool.and_eq_true, Bool.not_eq_true', bne_iff_ne, ne_eq] at hfv
  obtain ⟨⟨⟨hpv, hnc⟩, hms⟩, _⟩ := hfv
  -- the pointer chain and the name
  obtain ⟨w1, t1, hi1, hb1, htv1, hs1⟩ := cvPtr_chain env (core F D) false ops pt d1 F w bmid bf f hy ha htf
    (by rw [hf]; decide) hF
  have hty1 : t1.type = f.type := congrArg Prod.fst htv1
  have hv1 : t1.value = f.value := congrArg Prod.snd htv1
  have ht1 : tokenEofOk env.cfg w1.buf = .ok (some t1, bf) := by
    rw [hb1]; exact tokenEofOk_returnToken env.cfg t1 bf (by rw [hty1]; exact tokenEofOk_not_discard htf)
  have hfn := applyPtrOps_notFn _ pt d1 hpt ha
  have htop1 := interp_getTop env w1 blk rest (by rw [hs1.stack]; exact hstack)
  obtain ⟨w2, t2, hi2, hs2, ht2, hty2, hv2⟩ := step_tokenIf_miss env ["("] w1 t1 bf ht1 (by rw [hty1, hf]; decide)
  obtain ⟨w3, t3, hi3, hs3, ht3, hty3, hv3⟩ := step_tokenIfP_miss env (fun t => Gen.msvcConventions.contains t.value) w2 t2 bf ht2
    (by intro c _ hcv; show Gen.msvcConventions.contains c.value = false; rw [hcv, hv2, hv1]; exact hms)
  obtain ⟨w4, c4, hi4, hb4, hs4, hty4, hv4⟩ := step_tokenIfP_hit env (fun t => Gen.pqnameStartTokens.contains t.type) w3 t3 bf ht3
    (by intro c hct _; show Gen.pqnameStartTokens.contains c.type = true; rw [hct, hty3, hty2, hty1, hf]; decide)
  have hc4v : c4.value = f.value := by rw [hv4, hv3, hv2, hv1]
  obtain ⟨w5, t5, hpq, hs5, ht5, hty5, _⟩ := plain_pqname env F (core F D) true false false c4 [] w4 bf bo op
    (by rw [hty4, hty3, hty2, hty1, hf]) (by rw [hc4v]; exact hpv) (by rw [hc4v]; exact hnc) (by simp)
    (by rw [hb4]; exact .nil _) hto (by rw [hop]; decide) (by rw [hop]; decide) (by simp; omega)
  -- `(`, the parameters, the end
  obtain ⟨w6, c6, hi6, hb6, hs6, _, _⟩ := step_tokenIf_hit env ["("] (logged env w5 "parse_pqname") t5 bo
    (by rw [logged_buf']; exact ht5) (by rw [hty5, hop]; decide)
  have hsl6 : SameButLog w w6 := (((((hs1.trans hs2).trans hs3).trans hs4).trans hs5).butLog.trans (logged_butLog env w5 _)).trans hs6.butLog
  have hst6 : w6.stack = blk :: rest := by rw [hsl6.stack]; exact hstack
  have htop6 := interp_getTop env { w6 with stack := { blk with loc := location } :: rest } { blk with loc := location } rest rfl
  obtain ⟨w7, hi7, hs7, hb7⟩ := hparams { w6 with stack := { blk with loc := location } :: rest } hb6
  obtain ⟨w8, t8, hi8, hs8, ht8, hty8⟩ := parseFnEnd_semi env F (core F (D + 1)) { plainFunction f d1 doxygen with parameters := plist } w7 semi b'
    (by rw [hb7]; exact hts) hs
  have hst8 : w8.stack = { blk with loc := location } :: rest := by rw [hs8.stack, hs7.stack]
  have hmu8 : w8.muted = false := by rw [hs8.muted, hs7.muted]; show w6.muted = _; rw [hsl6.muted]; exact hmu
  have hdl8 : w8.delivered = w.delivered := by rw [hs8.delivered, hs7.delivered]; exact hsl6.delivered
  have hev8 : w8.events = w.events := by rw [hs8.events, hs7.events]; exact hsl6.events
  have hdel := deliver_passing env w8 (mkEvent w8 (.item (.function { plainFunction f d1 doxygen with parameters := plist }))
    { blk with loc := location } (rest.head?.map (·.id))) hmu8 (by rw [hdl8]; exact hfa)
  have htok9 : tokenEofOk env.cfg ({ w8 with events := w8.events ++ [mkEvent w8 (.item (.function { plainFunction f d1 doxygen with parameters := plist }))
      { blk with loc := location } (rest.head?.map (·.id))], delivered := w8.delivered + 1 } : World).buf = .ok (some t8, b') := ht8
  obtain ⟨w9, c9, hi9, hb9, hs9, hty9, _⟩ := step_mustBe env [",", ";"] _ t8 b' htok9 (by rw [hty8]; decide)
  refine ⟨w9, _, ?_, hb9, by rw [hs9.stack]; exact hst8, by rw [hs9.events, hev8], rfl, rfl, rfl,
    by rw [hs9.delivered, hdl8], ?_, by rw [hs9.muted]; exact hmu8, ?_, ?_⟩
  · have hk' : ¬ blk.hdr.kind = .cls := hk
    have hi9' := hi9
    simp only [hst8, plainFunction] at hi9'
    have hi8' := hi8
    simp only [plainFunction] at hi8'
    unfold declaratorBody parseDecl parseCvPtr parseFunction
    simp only [bind, interp_bind, core_parseCvPtrOrFn, core_parsePqname, core_parseParameters, hi1, hfn, Bool.false_eq_true, ↓reduceIte,
      pure, interp, htop1, hi2, Option.isSome_some, Option.isSome_none, P.tokenIfVal, P.tokenIfInSet, hi3, hi4, hpq, List.map_nil, hc4v,
      hi6, PQName.segments, List.getLast?_singleton, Option.map_some, isNameSeg, Option.getD_some, Bool.not_true, P.setLoc, hst6, htop6,
      hi7, List.isEmpty_nil, Block.view, hk', decide_false, Bool.false_or, List.length_singleton,
      (by decide : ¬ (1 > 1)), Bool.false_and, hasKey, List.any_nil, Option.map_none, hi8', P.emit, hst8, plainFunction] at hdel ⊢
    simp only [hdel, Bool.or_self, Bool.false_eq_true, ↓reduceIte, bind, interp_bind, hi9', hty9, hty8, pure, interp]
  · rw [hs9.anon]; show w8.anon = _; rw [hs8.anon, hs7.anon]; exact hsl6.anon
  · rw [hs9.nextId]; show w8.nextId = _; rw [hs8.nextId, hs7.nextId]; exact hsl6.nextId
  · rw [hs9.mainTok]; show w8.mainTok = _; rw [hs8.mainTok, hs7.mainTok]; exact hsl6.mainTok

/-- **`T ptr-ops f ( ) ;`** from `_parse_declarations`, outside a class, with an active visitor that
    does not raise here: exactly ONE `on_function` callback, with the return type the declarator
    prefix denotes and an empty parameter list -/
theorem parseDeclarations_function (env : Env) (F D : Nat) (tok : CTok) (doxygen : Option String)
    (pairs : List (Tok × Tok)) (ops : List Tok) (x op cp semi : Tok) (d1 : DType) (w : World) (b0 bmid bx bo bc b' : Buf)
    (blk : Block) (rest : List Block) (hstack : w.stack = blk :: rest) (hk : blk.hdr.kind ≠ .cls)
    (hmu : w.muted = false) (hfa : ¬ env.faultAt = some w.delivered)
    (hty : tok.type = "NAME") (htv : identVal tok.value = true)
    (hall : ∀ p ∈ pairs, p.1.type = "DBL_COLON" ∧ p.2.type = "NAME" ∧ plainVal p.2.value = true)
    (hy0 : Yields env.cfg w.buf (pairs.flatMap (fun p => [p.1, p.2])) b0)
    (hops : opsHeadOk ops = true) (hopsv : ∀ o ∈ ops, o.value ≠ "auto")
    (hy : Yields env.cfg b0 ops bmid)
    (ha : applyPtrOps (.type (.mk (.name tok.value none :: pairs.map (fun p => .name p.2.value none)) none false) false false)
      (ops.map (·.type)) = some d1)
    (htx : tokenEofOk env.cfg bmid = .ok (some x, bx)) (hx : x.type = "NAME") (hxv : identVal x.value = true)
    (hto : tokenEofOk env.cfg bx = .ok (some op, bo)) (hop : op.type = "(")
    (htc : tokenEofOk env.cfg bo = .ok (some cp, bc)) (hcp : cp.type = ")")
    (hsemi : tokenEofOk env.cfg bc = .ok (some semi, b')) (hs : semi.type = ";")
    (hF : pairs.length + ops.length + 2 ≤ F) :
    ∃ (w7 : World) (ev : Event),
      interp env (parseDeclarations F (core F (D + 1 + 1)) tok doxygen) w = (w7, .ok ()) ∧
      w7.buf = b' ∧ w7.stack = { blk with loc := .tok tok.sidx } :: rest ∧
      w7.events = w.events ++ [ev] ∧ ev.kind = .item (.function (plainFunction x d1 doxygen)) ∧
      ev.stateId = blk.id ∧ ev.parentId = rest.head?.map (·.id) ∧
      w7.delivered = w.delivered + 1 ∧ w7.anon = w.anon ∧ w7.muted = false ∧ w7.nextId = w.nextId ∧
      w7.mainTok = w.mainTok := by
  have hidv := htv
  simp only [identVal, Bool.and_eq_true, Bool.not_eq_true', bne_iff_ne, ne_eq] at htv
  obtain ⟨⟨⟨hpv, hnc⟩, _⟩, _⟩ := htv
  have hxauto : x.value ≠ "auto" := by
    have := hxv
    simp only [identVal, Bool.and_eq_true, Bool.not_eq_true', bne_iff_ne, ne_eq] at this
    exact this.2
  -- the token after the type name: the first pointer operator, or the name
  obtain ⟨nx, bnx, hnx, hnxstop, hnxlt, hnxdc, hnxauto⟩ : ∃ (nx : Tok) (bnx : Buf), tokenEofOk env.cfg b0 = .ok (some nx, bnx) ∧
      typeStop nx.type = true ∧ nx.type ≠ "<" ∧ nx.type ≠ "DBL_COLON" ∧ nx.value ≠ "auto" := by
    cases ops with
    | nil =>
      cases hy
      exact ⟨x, bx, htx, by rw [hx]; decide, by rw [hx]; decide, by rw [hx]; decide, hxauto⟩
    | cons o os =>
      cases hy with
      | cons hto _ =>
        have ho : o.type = "*" := by simpa [opsHeadOk] using hops
        exact ⟨o, _, hto, by rw [ho]; decide, by rw [ho]; decide, by rw [ho]; decide, hopsv o (by simp)⟩
  obtain ⟨w1, t1, hi1, hs1, ht1, hty1, hv1⟩ := parseType_plain env F D true tok pairs w b0 bnx nx hty hpv hnc hall hy0 hnx
    (typeStop_end hnxstop) hnxlt hnxdc (by omega)
  obtain ⟨w2, t2, hi2, hs2, ht2, hty2, hv2⟩ := step_tokenIfP_miss env (fun t => ["auto"].contains t.value) w1 t1 bnx ht1
    (by intro c _ hcv; show ["auto"].contains c.value = false; rw [hcv, hv1]; simp [hnxauto])
  have hsl2 : SameButLog w w2 := hs1.trans hs2.butLog
  have htop2 := interp_getTop env w2 blk rest (by rw [hsl2.stack]; exact hstack)
  -- the stream seen by the declarator loop: the pushed-back copy of `nx`, then as given
  obtain ⟨ops', x', bmid', hy', hmapeq, hlen, htx', hx', hxv'⟩ : ∃ (ops' : List Tok) (x' : Tok) (bmid' : Buf),
      Yields env.cfg w2.buf ops' bmid' ∧ ops'.map (·.type) = ops.map (·.type) ∧ ops'.length = ops.length ∧
      tokenEofOk env.cfg bmid' = .ok (some x', bx) ∧ x'.type = "NAME" ∧ x'.value = x.value := by
    cases ops with
    | nil =>
      cases hy
      rw [htx] at hnx
      injection hnx with hnx; injection hnx with h1 h2
      injection h1 with h1
      subst h1; subst h2
      exact ⟨[], t2, w2.buf, .nil _, rfl, rfl, ht2, by rw [hty2, hty1, hx], by rw [hv2, hv1]⟩
    | cons o os =>
      cases hy with
      | cons hto hrest =>
        rw [hto] at hnx
        injection hnx with hnx; injection hnx with h1 h2
        injection h1 with h1
        subst h1; subst h2
        exact ⟨t2 :: os, x, bmid, .cons ht2 hrest, by simp [hty2, hty1], by simp, htx, hx, rfl⟩
  obtain ⟨w7, ev, hi7, hsig, hst7, hev7, hk7, hid7, hpar7, hdl7, han7, hmu7, hnx7, hmt7⟩ :=
    declarator_function_noparams env F (D + 1) _ (.tok tok.sidx) doxygen ops' x' op cp semi d1 w2 bmid' bx bo bc b' blk rest
      (by rw [hsl2.stack]; exact hstack) hk (by rw [hsl2.muted]; exact hmu) (by rw [hsl2.delivered]; exact hfa) rfl hy'
      (by rw [hmapeq]; exact ha) htx' hx' (by rw [hxv']; exact hxv) hto hop htc hcp hsemi hs (by rw [hlen]; omega)
  refine ⟨w7, ev, ?_, hsig, hst7, by rw [hev7, hsl2.events], ?_, hid7, hpar7, by rw [hdl7, hsl2.delivered],
    by rw [han7, hsl2.anon], hmu7, by rw [hnx7, hsl2.nextId], by rw [hmt7, hsl2.mainTok]⟩
  · obtain ⟨k, rfl⟩ : ∃ k, F = k + 1 := ⟨F - 1, by omega⟩
    unfold parseDeclarations
    simp only [bind, interp_bind, core_parseType, hi1, Option.bind, typenameOf, strTruthy, PQName.classkey, Bool.false_eq_true, ↓reduceIte, pure, interp, Bool.not_false,
      P.tokenIfVal, hi2, htop2, validate_empty]
    rw [loopN]
    simp only [bind, interp_bind, hi7, pure, interp]
  · rw [hk7]
    simp only [plainFunction, hxv']

/-- **`T ptr-ops f ( p1 , … , pn ) ;`** from `_parse_declarations`, outside a class, with an active visitor
    that does not raise here, every `pi` a plain parameter `Ti ptr-ops name`: exactly ONE `on_function`
    callback, with the return type the declarator prefix denotes and one parameter per item, in
    order, each with its own name and the type ITS declarator denotes -/
theorem parseDeclarations_function_params (env : Env) (F D : Nat) (tok : CTok) (doxygen : Option String)
    (pairs : List (Tok × Tok)) (ops : List Tok) (x op : Tok) (ps : List (PItem × DType × Tok)) (last : PItem × DType) (cp semi : Tok) (d1 : DType) (w : World) (b0 bmid bx bo bc b' : Buf)
    (blk : Block) (rest : List Block) (hstack : w.stack = blk :: rest) (hk : blk.hdr.kind ≠ .cls)
    (hmu : w.muted = false) (hfa : ¬ env.faultAt = some w.delivered)
    (hty : tok.type = "NAME") (htv : identVal tok.value = true)
    (hall : ∀ p ∈ pairs, p.1.type = "DBL_COLON" ∧ p.2.type = "NAME" ∧ plainVal p.2.value = true)
    (hy0 : Yields env.cfg w.buf (pairs.flatMap (fun p => [p.1, p.2])) b0)
    (hops : opsHeadOk ops = true) (hopsv : ∀ o ∈ ops, o.value ≠ "auto")
    (hy : Yields env.cfg b0 ops bmid)
    (ha : applyPtrOps (.type (.mk (.name tok.value none :: pairs.map (fun p => .name p.2.value none)) none false) false false)
      (ops.map (·.type)) = some d1)
    (htx : tokenEofOk env.cfg bmid = .ok (some x, bx)) (hx : x.type = "NAME") (hxv : identVal x.value = true)
    (hto : tokenEofOk env.cfg bx = .ok (some op, bo)) (hop : op.type = "(")
    (hallp : ∀ q ∈ ps, q.1.OK q.2.1 ∧ q.2.2.type = "," ∧ q.2.2.value ≠ ")" ∧ q.1.pairs.length + q.1.ops.length + 2 ≤ F)
    (hlastp : last.1.OK last.2) (hlF : last.1.pairs.length + last.1.ops.length + 2 ≤ F) (hcp : cp.type = ")") (hcpv : cp.value = ")")
    (hyp : Yields env.cfg bo (ps.flatMap (fun q => q.1.toks ++ [q.2.2]) ++ (last.1.toks ++ [cp])) bc) (hFp : ps.length + 1 ≤ F)
    (hsemi : tokenEofOk env.cfg bc = .ok (some semi, b')) (hs : semi.type = ";")
    (hF : pairs.length + ops.length + 2 ≤ F) :
    ∃ (w7 : World) (ev : Event),
      interp env (parseDeclarations F (core F (D + 1 + 1 + 1 + 1)) tok doxygen) w = (w7, .ok ()) ∧
      w7.buf = b' ∧ w7.stack = { blk with loc := .tok tok.sidx } :: rest ∧
      w7.events = w.events ++ [ev] ∧ ev.kind = .item (.function { plainFunction x d1 doxygen with
        parameters := ps.map (fun q => q.1.param q.2.1) ++ [last.1.param last.2] }) ∧
      ev.stateId = blk.id ∧ ev.parentId = rest.head?.map (·.id) ∧
      w7.delivered = w.delivered + 1 ∧ w7.anon = w.anon ∧ w7.muted = false ∧ w7.nextId = w.nextId ∧
      w7.mainTok = w.mainTok := by
  have hidv := htv
  simp only [identVal, Bool.and_eq_true, Bool.not_eq_true', bne_iff_ne, ne_eq] at htv
  obtain ⟨⟨⟨hpv, hnc⟩, _⟩, _⟩ := htv
  have hxauto : x.value ≠ "auto" := by
    have := hxv
    simp only [identVal, Bool.and_eq_true, Bool.not_eq_true', bne_iff_ne, ne_eq] at this
    exact this.2
  -- the token after the type name: the first pointer operator, or the name
  obtain ⟨nx, bnx, hnx, hnxstop, hnxlt, hnxdc, hnxauto⟩ : ∃ (nx : Tok) (bnx : Buf), tokenEofOk env.cfg b0 = .ok (some nx, bnx) ∧
      typeStop nx.type = true ∧ nx.type ≠ "<" ∧ nx.type ≠ "DBL_COLON" ∧ nx.value ≠ "auto" := by
    cases ops with
    | nil =>
      cases hy
      exact ⟨x, bx, htx, by rw [hx]; decide, by rw [hx]; decide, by rw [hx]; decide, hxauto⟩
    | cons o os =>
      cases hy with
      | cons hto _ =>
        have ho : o.type = "*" := by simpa [opsHeadOk] using hops
        exact ⟨o, _, hto, by rw [ho]; decide, by rw [ho]; decide, by rw [ho]; decide, hopsv o (by simp)⟩
  obtain ⟨w1, t1, hi1, hs1, ht1, hty1, hv1⟩ := parseType_plain env F (D + 1 + 1) true tok pairs w b0 bnx nx hty hpv hnc hall hy0 hnx
    (typeStop_end hnxstop) hnxlt hnxdc (by omega)
  obtain ⟨w2, t2, hi2, hs2, ht2, hty2, hv2⟩ := step_tokenIfP_miss env (fun t => ["auto"].contains t.value) w1 t1 bnx ht1
    (by intro c _ hcv; show ["auto"].contains c.value = false; rw [hcv, hv1]; simp [hnxauto])
  have hsl2 : SameButLog w w2 := hs1.trans hs2.butLog
  have htop2 := interp_getTop env w2 blk rest (by rw [hsl2.stack]; exact hstack)
  -- the stream seen by the declarator loop: the pushed-back copy of `nx`, then as given
  obtain ⟨ops', x', bmid', hy', hmapeq, hlen, htx', hx', hxv'⟩ : ∃ (ops' : List Tok) (x' : Tok) (bmid' : Buf),
      Yields env.cfg w2.buf ops' bmid' ∧ ops'.map (·.type) = ops.map (·.type) ∧ ops'.length = ops.length ∧
      tokenEofOk env.cfg bmid' = .ok (some x', bx) ∧ x'.type = "NAME" ∧ x'.value = x.value := by
    cases ops with
    | nil =>
      cases hy
      rw [htx] at hnx
      injection hnx with hnx; injection hnx with h1 h2
      injection h1 with h1
      subst h1; subst h2
      exact ⟨[], t2, w2.buf, .nil _, rfl, rfl, ht2, by rw [hty2, hty1, hx], by rw [hv2, hv1]⟩
    | cons o os =>
      cases hy with
      | cons hto hrest =>
        rw [hto] at hnx
        injection hnx with hnx; injection hnx with h1 h2
        injection h1 with h1
        subst h1; subst h2
        exact ⟨t2 :: os, x, bmid, .cons ht2 hrest, by simp [hty2, hty1], by simp, htx, hx, rfl⟩
  obtain ⟨w7, ev, hi7, hsig, hst7, hev7, hk7, hid7, hpar7, hdl7, han7, hmu7, hnx7, hmt7⟩ :=
    declarator_function env F (D + 1 + 1 + 1) _ (.tok tok.sidx) doxygen ops' x' op semi
      (ps.map (fun q => q.1.param q.2.1) ++ [last.1.param last.2]) d1 w2 bmid' bx bo bc b' blk rest
      (by rw [hsl2.stack]; exact hstack) hk (by rw [hsl2.muted]; exact hmu) (by rw [hsl2.delivered]; exact hfa) rfl hy'
      (by rw [hmapeq]; exact ha) htx' hx' (by rw [hxv']; exact hxv) hto hop
      (fun W hW => parseParameters_plain env F D ps last cp W bc hallp hlastp hlF hcp hcpv (by rw [hW]; exact hyp) hFp)
      hsemi hs (by rw [hlen]; omega)
  refine ⟨w7, ev, ?_, hsig, hst7, by rw [hev7, hsl2.events], ?_, hid7, hpar7, by rw [hdl7, hsl2.delivered],
    by rw [han7, hsl2.anon], hmu7, by rw [hnx7, hsl2.nextId], by rw [hmt7, hsl2.mainTok]⟩
  · obtain ⟨k, rfl⟩ : ∃ k, F = k + 1 := ⟨F - 1, by omega⟩
    unfold parseDeclarations
    simp only [bind, interp_bind, core_parseType, hi1, Option.bind, typenameOf, strTruthy, PQName.classkey, Bool.false_eq_true, ↓reduceIte, pure, interp, Bool.not_false,
      P.tokenIfVal, hi2, htop2, validate_empty]
    rw [loopN]
    simp only [bind, interp_bind, hi7, pure, interp]
  · rw [hk7]
    simp only [plainFunction, hxv']

end Cxx
