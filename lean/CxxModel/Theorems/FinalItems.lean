import CxxModel.Theorems.BaseItems
import CxxModel.Theorems.ClassFinal

/-!
# `final` classes (with or without a base clause) through `parse()`'s loop, as `Item`s and `Member`s

Generated from the proofs of `toplevel_class_head(_bases)`, `Item.cls(B)`, `Member.cls(B)`.
-/

namespace Cxx
open P

theorem toplevel_class_head_final (env : Env) (hp : RulesProgress env.cfg = true) (F D : Nat) (w : World)
    (kw first : Tok) (pairs : List (Tok × Tok)) (fs : List Tok) (ob : Tok) (bk b1 bmid b' : Buf)
    (blk : Block) (rest : List Block) (hstack : w.stack = blk :: rest)
    (hmu : w.muted = false) (hfa : ¬ env.faultAt = some w.delivered)
    (htkw : tokenEofOk env.cfg w.buf = .ok (some kw, bk)) (hkw : isClassKey kw.value = true) (hkwt : kw.type = kw.value)
    (htf : tokenEofOk env.cfg bk = .ok (some first, b1)) (hf : first.type = "NAME") (hfv : plainVal first.value = true)
    (hall : ∀ p ∈ pairs, p.1.type = "DBL_COLON" ∧ p.2.type = "NAME" ∧ plainVal p.2.value = true)
    (hy : Yields env.cfg b1 (pairs.flatMap (fun p => [p.1, p.2])) bmid)
    (hfs : ∀ f ∈ fs, f.type = "final") (hyf : Yields env.cfg bmid (fs ++ [ob]) b') (hob : ob.type = "{") (hF : pairs.length + 2 ≤ F)
    (hFf : fs.length + 1 ≤ F) :
    ∃ (d : Option String) (bD : Buf) (w' : World) (ct : CTok),
      getDoxygen env.cfg env.mcRe w.buf = .ok (d, bD) ∧ w'.buf = b' ∧ ct.value = kw.value ∧
      w'.stack = w.stack ∧ w'.events = w.events ∧ w'.delivered = w.delivered ∧ w'.anon = w.anon ∧ w'.muted = w.muted ∧
      w'.nextId = w.nextId ∧
      interp env (mainBody F (core F (D + 1 + 1)) none) w =
        (pushedWorld env (classHdrF ct first pairs [] (!fs.isEmpty) blk d) w', .ok (.inl none)) := by
  obtain ⟨d, bD, wA, ct, hd, hsA, hbA, htyc, hv, hi⟩ := mainBody_item env hp F (core F (D + 1 + 1)) w kw bk htkw
  obtain ⟨w', hb, hsl, hi7⟩ :=
    parseDeclarations_class_head_final env F D ct d first pairs fs ob { wA with mainTok := some ct } b1 bmid b' blk rest
      (by show wA.stack = _; rw [hsA.stack]; exact hstack) (by show wA.muted = _; rw [hsA.muted]; exact hmu)
      (by show ¬ env.faultAt = some wA.delivered; rw [hsA.delivered]; exact hfa) (by rw [hv]; exact hkw)
      (by rw [htyc, hv]; exact hkwt) (by show tokenEofOk env.cfg wA.buf = _; rw [hbA]; exact htf) hf hfv hall hy hfs hyf hob hF hFf
  refine ⟨d, bD, w', ct, hd, hb, hv, by rw [hsl.stack]; exact hsA.stack, by rw [hsl.events]; exact hsA.events,
    by rw [hsl.delivered]; exact hsA.delivered, by rw [hsl.anon]; exact hsA.anon, by rw [hsl.muted]; exact hsA.muted,
    by rw [hsl.nextId]; exact hsA.nextId, ?_⟩
  rw [hi]
  have hkt : Gen.dispatchTable.lookup ct.type = none ∧ Gen.keepDoxygen.contains ct.type = false := by
    simp only [isClassKey, Bool.or_eq_true, beq_iff_eq] at hkw
    rw [htyc, hkwt, dispatch_table_eq, keep_doxygen_eq]
    rcases hkw with (h | h) | h <;> (rw [h]; decide)
  have hti : topItem F (core F (D + 1 + 1)) ct d = parseDeclarations F (core F (D + 1 + 1)) ct d := by
    unfold topItem
    rw [hkt.1]
  have hcar : carry ct d = none := by
    unfold carry
    rw [hkt.2]
    rfl
  rw [hti, hi7, hcar]


theorem toplevel_class_head_final_bases (env : Env) (hp : RulesProgress env.cfg = true) (F D : Nat) (w : World)
    (kw first : Tok) (pairs : List (Tok × Tok)) (fs : List Tok) (colon : Tok) (bs : List (BaseItem × Tok)) (last : BaseItem) (ob : Tok) (bk b1 bmid bc bb b' : Buf)
    (blk : Block) (rest : List Block) (hstack : w.stack = blk :: rest)
    (hmu : w.muted = false) (hfa : ¬ env.faultAt = some w.delivered)
    (htkw : tokenEofOk env.cfg w.buf = .ok (some kw, bk)) (hkw : isClassKey kw.value = true) (hkwt : kw.type = kw.value)
    (htf : tokenEofOk env.cfg bk = .ok (some first, b1)) (hf : first.type = "NAME") (hfv : plainVal first.value = true)
    (hall : ∀ p ∈ pairs, p.1.type = "DBL_COLON" ∧ p.2.type = "NAME" ∧ plainVal p.2.value = true)
    (hy : Yields env.cfg b1 (pairs.flatMap (fun p => [p.1, p.2])) bmid)
    (hfs : ∀ f ∈ fs, f.type = "final") (hyf : Yields env.cfg bmid (fs ++ [colon]) bc) (hcolon : colon.type = ":") (hFf : fs.length + 1 ≤ F)
    (hbs : ∀ q ∈ bs, q.1.OK ∧ q.2.type = "," ∧ q.1.specs.length + q.1.pairs.length + 2 ≤ F)
    (hlast : last.OK) (hlF : last.specs.length + last.pairs.length + 2 ≤ F)
    (hyb : Yields env.cfg bc (bs.flatMap (fun q => q.1.toks ++ [q.2]) ++ last.toks) bb)
    (htob : tokenEofOk env.cfg bb = .ok (some ob, b')) (hob : ob.type = "{") (hF : pairs.length + 2 ≤ F) (hFb : bs.length + 1 ≤ F) :
    ∃ (d : Option String) (bD : Buf) (w' : World) (ct : CTok),
      getDoxygen env.cfg env.mcRe w.buf = .ok (d, bD) ∧ w'.buf = b' ∧ ct.value = kw.value ∧
      w'.stack = w.stack ∧ w'.events = w.events ∧ w'.delivered = w.delivered ∧ w'.anon = w.anon ∧ w'.muted = w.muted ∧
      w'.nextId = w.nextId ∧
      interp env (mainBody F (core F (D + 1 + 1)) none) w =
        (pushedWorld env (classHdrF ct first pairs (bs.map (fun q => q.1.denotes (defaultAccess kw.value)) ++ [last.denotes (defaultAccess kw.value)]) (!fs.isEmpty) blk d) w', .ok (.inl none)) := by
  obtain ⟨d, bD, wA, ct, hd, hsA, hbA, htyc, hv, hi⟩ := mainBody_item env hp F (core F (D + 1 + 1)) w kw bk htkw
  obtain ⟨w', hb, hsl, hi7⟩ :=
    parseDeclarations_class_head_final_bases env F D ct d first pairs fs colon bs last ob { wA with mainTok := some ct } b1 bmid bc bb b' blk rest
      (by show wA.stack = _; rw [hsA.stack]; exact hstack) (by show wA.muted = _; rw [hsA.muted]; exact hmu)
      (by show ¬ env.faultAt = some wA.delivered; rw [hsA.delivered]; exact hfa) (by rw [hv]; exact hkw)
      (by rw [htyc, hv]; exact hkwt) (by show tokenEofOk env.cfg wA.buf = _; rw [hbA]; exact htf) hf hfv hall hy hfs hyf hcolon hFf hbs hlast hlF hyb htob hob hF hFb
  rw [hv] at hi7
  refine ⟨d, bD, w', ct, hd, hb, hv, by rw [hsl.stack]; exact hsA.stack, by rw [hsl.events]; exact hsA.events,
    by rw [hsl.delivered]; exact hsA.delivered, by rw [hsl.anon]; exact hsA.anon, by rw [hsl.muted]; exact hsA.muted,
    by rw [hsl.nextId]; exact hsA.nextId, ?_⟩
  rw [hi]
  have hkt : Gen.dispatchTable.lookup ct.type = none ∧ Gen.keepDoxygen.contains ct.type = false := by
    simp only [isClassKey, Bool.or_eq_true, beq_iff_eq] at hkw
    rw [htyc, hkwt, dispatch_table_eq, keep_doxygen_eq]
    rcases hkw with (h | h) | h <;> (rw [h]; decide)
  have hti : topItem F (core F (D + 1 + 1)) ct d = parseDeclarations F (core F (D + 1 + 1)) ct d := by
    unfold topItem
    rw [hkt.1]
  have hcar : carry ct d = none := by
    unfold carry
    rw [hkt.2]
    rfl
  rw [hti, hi7, hcar]



section kinds
variable (env : Env) (hp : RulesProgress env.cfg = true) (hnf : env.faultAt = none) (F D : Nat)
variable (hskip : ∀ i h, env.skip i h = false)

/-- **`class a::b { members };` is an item** (`struct` and `union` too): the class block's start
    and end callbacks around the members' callbacks, the members read under the access level the
    class key gives until an access specifier changes it -/
def Item.clsF (kw first : Tok) (pairs : List (Tok × Tok)) (fs : List Tok) (ms : List (Member env F (core F (D + 1 + 1 + 1 + 1)))) :
    Item env F (core F (D + 1 + 1 + 1 + 1)) where
  At := fun b b' => ∃ (ob cl semi : Tok) (b1 b2 : Buf),
    isClassKey kw.value = true ∧ kw.type = kw.value ∧ first.type = "NAME" ∧ plainVal first.value = true ∧
    (∀ p ∈ pairs, p.1.type = "DBL_COLON" ∧ p.2.type = "NAME" ∧ plainVal p.2.value = true) ∧ ob.type = "{" ∧
    cl.type = "}" ∧ semi.type = ";" ∧ pairs.length + 2 ≤ F ∧ ((∀ f ∈ fs, f.type = "final") ∧ fs.length + 1 ≤ F) ∧
    Yields env.cfg b (kw :: first :: (pairs.flatMap (fun p => [p.1, p.2]) ++ (fs ++ [ob]))) b1 ∧ MSeqAt ms b1 b2 ∧
    Yields env.cfg b2 [cl, semi] b'
  Ev := fun blk rest evs => BlockEvents blk
    (fun h => h.kind = .cls ∧ h.access = some (defaultAccess kw.value) ∧
      h.cls.final = !fs.isEmpty ∧
      h.cls.typename = .mk (.name first.value none :: pairs.map (fun p => .name p.2.value none)) (some kw.value) false)
    (fun nb mid => MSeqEv nb (blk :: rest) ms (defaultAccess kw.value) mid) evs
  size := mseqSize ms + 2
  at_sigEq := by
    intro b b' k ⟨ob, cl, semi, b1, b2, h1, h2, h3, h4, h5, h6, h7, h8, h9, hB, hy, hm, hy2⟩ hs
    obtain ⟨k1, hy', hs1⟩ := hy.sigEq hs
    obtain ⟨k2, hm', hs2⟩ := hm.sigEq hs1
    obtain ⟨k', hy2', hs'⟩ := hy2.sigEq hs2
    exact ⟨k', ⟨ob, cl, semi, k1, k2, h1, h2, h3, h4, h5, h6, h7, h8, h9, hB, hy', hm', hy2'⟩, hs'⟩
  sound := by
    intro w b' blk rest hst hk hmu ⟨ob, cl, semi, b1, b2, h1, h2, h3, h4, h5, h6, h7, h8, h9, hB, hy, hm, hy2⟩
    have hfa : ∀ n, ¬ env.faultAt = some n := by intro n; rw [hnf]; simp
    obtain ⟨bk, t0, hy⟩ := hy.cons_inv
    obtain ⟨bf, t1, hy⟩ := hy.cons_inv
    obtain ⟨bmid, hyp, hy⟩ := hy.split
    obtain ⟨d, bD, w', ct, _, hbuf', hctv, hst', hev', _, _, hmu', _, hi⟩ :=
      toplevel_class_head_final env hp F (D + 1 + 1) w kw first pairs fs ob bk bf bmid b1 blk rest hst hmu (hfa _) t0 h1 h2 t1 h3 h4 h5 hyp
        hB.1 hy h6 h9 hB.2
    generalize hhdr : classHdrF ct first pairs [] (!fs.isEmpty) blk d = hdr at hi
    have hPst : (pushedWorld env hdr w').stack = pushedBlock hdr w' :: blk :: rest := by
      show pushedBlock hdr w' :: w'.stack = _; rw [hst', hst]
    have hPmu : (pushedWorld env hdr w').muted = false := hskip _ _
    obtain ⟨w7, mid, ⟨⟨ws, hch, hl⟩, hb7, ⟨nb7, hst7, hsb7, _⟩, hev7, hmu7⟩, hE⟩ :=
      mseq_sound ms (pushedWorld env hdr w') b2 (pushedBlock hdr w') (blk :: rest) (defaultAccess kw.value) hPst
        (by show hdr.kind = .cls; rw [← hhdr]; rfl) (by show hdr.access = _; rw [← hhdr, ← hctv]; rfl) hPmu
        (by show MSeqAt ms w'.buf b2; rw [hbuf']; exact hm)
    obtain ⟨k', hy2', hs'⟩ := hy2.sigEq hb7
    obtain ⟨kc, tc, hy2'⟩ := hy2'.cons_inv
    obtain ⟨n, hn⟩ := segs_getLast pairs first.value
    obtain ⟨wA, cc, hsA, _, hend⟩ := toplevel_class_end env hp F (core F (D + 1 + 1 + 1 + 1)) w7 cl semi kc k' nb7 blk rest n none hst7
      (by rw [← hsb7.2.2.2]; rfl) (by rw [← hsb7.2.1]; show hdr.kind = .cls; rw [← hhdr]; rfl)
      (by rw [← hsb7.2.1]; show hdr.typedef = false; rw [← hhdr]; rfl)
      (by rw [← hsb7.2.1]; show hdr.cls.typename.segments.getLast? = _; rw [← hhdr]; exact hn)
      (fun hc => absurd hc hk) tc h7 hy2'.single_inv h8
    obtain ⟨w3, hi3, hb3, hs3⟩ := hend _ (deliver_passing env { wA with mainTok := some cc }
      (mkEvent { wA with mainTok := some cc } .blockEnd nb7 (some blk.id))
      (by show wA.muted = false; rw [hsA.muted]; exact hmu7) (hfa _))
    refine ⟨w3, pushEvent hdr w' :: (mid ++ [mkEvent { wA with mainTok := some cc } .blockEnd nb7 (some blk.id)]),
      ⟨⟨pushedWorld env hdr w' :: (ws ++ [w3]), .cons hi (hch.append (.one hi3)), by simp [hl]⟩, ?_, ⟨blk, hs3.stack, .refl _⟩, ?_, ?_⟩, ?_⟩
    · rw [hb3]; exact hs'
    · rw [hs3.events]
      show wA.events ++ _ = _
      rw [hsA.events, hev7]
      show (w'.events ++ [pushEvent hdr w']) ++ mid ++ _ = _
      rw [hev']; simp
    · rw [hs3.muted]
      show nb7.priorMuted = false
      rw [← hsb7.2.2.1]; show w'.muted = false; rw [hmu']; exact hmu
    · refine ⟨pushedBlock hdr w', _, _, mid, rfl, rfl, rfl, ?_, rfl, ?_, hE, rfl, hsb7.1.symm, rfl⟩
      · show w'.stack.head?.map (·.id) = _; rw [hst', hst]; rfl
      · show hdr.kind = .cls ∧ hdr.access = _ ∧ hdr.cls.final = _ ∧ hdr.cls.typename = _
        rw [← hhdr, ← hctv]; exact ⟨rfl, rfl, rfl, rfl⟩

/-- **a class nested in a class body is a member**: its own members are read under ITS key's default
    access level, whatever level is in force outside, and the outer level is in force again after it -/
def Member.clsF (kw first : Tok) (pairs : List (Tok × Tok)) (fs : List Tok) (ms : List (Member env F (core F (D + 1 + 1 + 1 + 1)))) :
    Member env F (core F (D + 1 + 1 + 1 + 1)) where
  At := fun b b' => ∃ (ob cl semi : Tok) (b1 b2 : Buf),
    isClassKey kw.value = true ∧ kw.type = kw.value ∧ first.type = "NAME" ∧ plainVal first.value = true ∧
    (∀ p ∈ pairs, p.1.type = "DBL_COLON" ∧ p.2.type = "NAME" ∧ plainVal p.2.value = true) ∧ ob.type = "{" ∧
    cl.type = "}" ∧ semi.type = ";" ∧ pairs.length + 2 ≤ F ∧ ((∀ f ∈ fs, f.type = "final") ∧ fs.length + 1 ≤ F) ∧
    Yields env.cfg b (kw :: first :: (pairs.flatMap (fun p => [p.1, p.2]) ++ (fs ++ [ob]))) b1 ∧ MSeqAt ms b1 b2 ∧
    Yields env.cfg b2 [cl, semi] b'
  Ev := fun blk rest acc evs => BlockEvents blk
    (fun h => h.kind = .cls ∧ h.access = some (defaultAccess kw.value) ∧ h.cls.access = some acc ∧
      h.cls.final = !fs.isEmpty ∧
      h.cls.typename = .mk (.name first.value none :: pairs.map (fun p => .name p.2.value none)) (some kw.value) false)
    (fun nb mid => MSeqEv nb (blk :: rest) ms (defaultAccess kw.value) mid) evs
  accOut := id
  size := mseqSize ms + 2
  at_sigEq := by
    intro b b' k ⟨ob, cl, semi, b1, b2, h1, h2, h3, h4, h5, h6, h7, h8, h9, hB, hy, hm, hy2⟩ hs
    obtain ⟨k1, hy', hs1⟩ := hy.sigEq hs
    obtain ⟨k2, hm', hs2⟩ := hm.sigEq hs1
    obtain ⟨k', hy2', hs'⟩ := hy2.sigEq hs2
    exact ⟨k', ⟨ob, cl, semi, k1, k2, h1, h2, h3, h4, h5, h6, h7, h8, h9, hB, hy', hm', hy2'⟩, hs'⟩
  sound := by
    intro w b' blk rest acc hst hk hacc hmu ⟨ob, cl, semi, b1, b2, h1, h2, h3, h4, h5, h6, h7, h8, h9, hB, hy, hm, hy2⟩
    have hfa : ∀ n, ¬ env.faultAt = some n := by intro n; rw [hnf]; simp
    obtain ⟨bk, t0, hy⟩ := hy.cons_inv
    obtain ⟨bf, t1, hy⟩ := hy.cons_inv
    obtain ⟨bmid, hyp, hy⟩ := hy.split
    obtain ⟨d, bD, w', ct, _, hbuf', hctv, hst', hev', _, _, hmu', _, hi⟩ :=
      toplevel_class_head_final env hp F (D + 1 + 1) w kw first pairs fs ob bk bf bmid b1 blk rest hst hmu (hfa _) t0 h1 h2 t1 h3 h4 h5 hyp
        hB.1 hy h6 h9 hB.2
    generalize hhdr : classHdrF ct first pairs [] (!fs.isEmpty) blk d = hdr at hi
    have hPst : (pushedWorld env hdr w').stack = pushedBlock hdr w' :: blk :: rest := by
      show pushedBlock hdr w' :: w'.stack = _; rw [hst', hst]
    have hPmu : (pushedWorld env hdr w').muted = false := hskip _ _
    obtain ⟨w7, mid, ⟨⟨ws, hch, hl⟩, hb7, ⟨nb7, hst7, hsb7, _⟩, hev7, hmu7⟩, hE⟩ :=
      mseq_sound ms (pushedWorld env hdr w') b2 (pushedBlock hdr w') (blk :: rest) (defaultAccess kw.value) hPst
        (by show hdr.kind = .cls; rw [← hhdr]; rfl) (by show hdr.access = _; rw [← hhdr, ← hctv]; rfl) hPmu
        (by show MSeqAt ms w'.buf b2; rw [hbuf']; exact hm)
    obtain ⟨k', hy2', hs'⟩ := hy2.sigEq hb7
    obtain ⟨kc, tc, hy2'⟩ := hy2'.cons_inv
    obtain ⟨n, hn⟩ := segs_getLast pairs first.value
    obtain ⟨wA, cc, hsA, _, hend⟩ := toplevel_class_end env hp F (core F (D + 1 + 1 + 1 + 1)) w7 cl semi kc k' nb7 blk rest n none hst7
      (by rw [← hsb7.2.2.2]; rfl) (by rw [← hsb7.2.1]; show hdr.kind = .cls; rw [← hhdr]; rfl)
      (by rw [← hsb7.2.1]; show hdr.typedef = false; rw [← hhdr]; rfl)
      (by rw [← hsb7.2.1]; show hdr.cls.typename.segments.getLast? = _; rw [← hhdr]; exact hn)
      (fun _ => ⟨acc, hacc⟩) tc h7 hy2'.single_inv h8
    obtain ⟨w3, hi3, hb3, hs3⟩ := hend _ (deliver_passing env { wA with mainTok := some cc }
      (mkEvent { wA with mainTok := some cc } .blockEnd nb7 (some blk.id))
      (by show wA.muted = false; rw [hsA.muted]; exact hmu7) (hfa _))
    refine ⟨w3, pushEvent hdr w' :: (mid ++ [mkEvent { wA with mainTok := some cc } .blockEnd nb7 (some blk.id)]),
      ⟨⟨pushedWorld env hdr w' :: (ws ++ [w3]), .cons hi (hch.append (.one hi3)), by simp [hl]⟩, ?_, ⟨blk, hs3.stack, .refl _, hacc⟩, ?_, ?_⟩, ?_⟩
    · rw [hb3]; exact hs'
    · rw [hs3.events]
      show wA.events ++ _ = _
      rw [hsA.events, hev7]
      show (w'.events ++ [pushEvent hdr w']) ++ mid ++ _ = _
      rw [hev']; simp
    · rw [hs3.muted]
      show nb7.priorMuted = false
      rw [← hsb7.2.2.1]; show w'.muted = false; rw [hmu']; exact hmu
    · refine ⟨pushedBlock hdr w', _, _, mid, rfl, rfl, rfl, ?_, rfl, ?_, hE, rfl, hsb7.1.symm, rfl⟩
      · show w'.stack.head?.map (·.id) = _; rw [hst', hst]; rfl
      · show hdr.kind = .cls ∧ hdr.access = _ ∧ hdr.cls.access = _ ∧ hdr.cls.final = _ ∧ hdr.cls.typename = _
        rw [← hhdr, ← hctv]
        refine ⟨rfl, rfl, ?_, rfl, rfl⟩
        show (if blk.hdr.kind = .cls then blk.access else none) = some acc
        rw [if_pos hk, hacc]


/-- **`class a::b { members };` is an item** (`struct` and `union` too): the class block's start
    and end callbacks around the members' callbacks, the members read under the access level the
    class key gives until an access specifier changes it -/
def Item.clsFB (kw first : Tok) (pairs : List (Tok × Tok)) (fs : List Tok) (bs : List (BaseItem × Tok)) (last : BaseItem) (ms : List (Member env F (core F (D + 1 + 1 + 1 + 1)))) :
    Item env F (core F (D + 1 + 1 + 1 + 1)) where
  At := fun b b' => ∃ (colon ob cl semi : Tok) (b1 b2 : Buf),
    isClassKey kw.value = true ∧ kw.type = kw.value ∧ first.type = "NAME" ∧ plainVal first.value = true ∧
    (∀ p ∈ pairs, p.1.type = "DBL_COLON" ∧ p.2.type = "NAME" ∧ plainVal p.2.value = true) ∧ ob.type = "{" ∧
    cl.type = "}" ∧ semi.type = ";" ∧ pairs.length + 2 ≤ F ∧
    (colon.type = ":" ∧ (∀ q ∈ bs, q.1.OK ∧ q.2.type = "," ∧ q.1.specs.length + q.1.pairs.length + 2 ≤ F) ∧
      last.OK ∧ last.specs.length + last.pairs.length + 2 ≤ F ∧ bs.length + 1 ≤ F ∧ (∀ f ∈ fs, f.type = "final") ∧ fs.length + 1 ≤ F) ∧
    Yields env.cfg b (kw :: first :: (pairs.flatMap (fun p => [p.1, p.2]) ++ (fs ++ [colon]) ++ ((bs.flatMap (fun q => q.1.toks ++ [q.2]) ++ last.toks) ++ [ob]))) b1 ∧ MSeqAt ms b1 b2 ∧
    Yields env.cfg b2 [cl, semi] b'
  Ev := fun blk rest evs => BlockEvents blk
    (fun h => h.kind = .cls ∧ h.access = some (defaultAccess kw.value) ∧
      h.cls.final = !fs.isEmpty ∧ h.cls.bases = (bs.map (fun q => q.1.denotes (defaultAccess kw.value)) ++ [last.denotes (defaultAccess kw.value)]) ∧
      h.cls.typename = .mk (.name first.value none :: pairs.map (fun p => .name p.2.value none)) (some kw.value) false)
    (fun nb mid => MSeqEv nb (blk :: rest) ms (defaultAccess kw.value) mid) evs
  size := mseqSize ms + 2
  at_sigEq := by
    intro b b' k ⟨colon, ob, cl, semi, b1, b2, h1, h2, h3, h4, h5, h6, h7, h8, h9, hB, hy, hm, hy2⟩ hs
    obtain ⟨k1, hy', hs1⟩ := hy.sigEq hs
    obtain ⟨k2, hm', hs2⟩ := hm.sigEq hs1
    obtain ⟨k', hy2', hs'⟩ := hy2.sigEq hs2
    exact ⟨k', ⟨colon, ob, cl, semi, k1, k2, h1, h2, h3, h4, h5, h6, h7, h8, h9, hB, hy', hm', hy2'⟩, hs'⟩
  sound := by
    intro w b' blk rest hst hk hmu ⟨colon, ob, cl, semi, b1, b2, h1, h2, h3, h4, h5, h6, h7, h8, h9, hB, hy, hm, hy2⟩
    have hfa : ∀ n, ¬ env.faultAt = some n := by intro n; rw [hnf]; simp
    obtain ⟨bk, t0, hy⟩ := hy.cons_inv
    obtain ⟨bf, t1, hy⟩ := hy.cons_inv
    rw [List.append_assoc] at hy
    obtain ⟨bmid, hyp, hy⟩ := hy.split
    obtain ⟨bc, hyf, hy⟩ := hy.split
    obtain ⟨bb, hyb, hy⟩ := hy.split
    obtain ⟨d, bD, w', ct, _, hbuf', hctv, hst', hev', _, _, hmu', _, hi⟩ :=
      toplevel_class_head_final_bases env hp F (D + 1 + 1) w kw first pairs fs colon bs last ob bk bf bmid bc bb b1 blk rest hst hmu (hfa _) t0 h1 h2 t1 h3 h4 h5 hyp
        hB.2.2.2.2.2.1 hyf hB.1 hB.2.2.2.2.2.2 hB.2.1 hB.2.2.1 hB.2.2.2.1 hyb hy.single_inv h6 h9 hB.2.2.2.2.1
    generalize hhdr : classHdrF ct first pairs (bs.map (fun q => q.1.denotes (defaultAccess kw.value)) ++ [last.denotes (defaultAccess kw.value)]) (!fs.isEmpty) blk d = hdr at hi
    have hPst : (pushedWorld env hdr w').stack = pushedBlock hdr w' :: blk :: rest := by
      show pushedBlock hdr w' :: w'.stack = _; rw [hst', hst]
    have hPmu : (pushedWorld env hdr w').muted = false := hskip _ _
    obtain ⟨w7, mid, ⟨⟨ws, hch, hl⟩, hb7, ⟨nb7, hst7, hsb7, _⟩, hev7, hmu7⟩, hE⟩ :=
      mseq_sound ms (pushedWorld env hdr w') b2 (pushedBlock hdr w') (blk :: rest) (defaultAccess kw.value) hPst
        (by show hdr.kind = .cls; rw [← hhdr]; rfl) (by show hdr.access = _; rw [← hhdr, ← hctv]; rfl) hPmu
        (by show MSeqAt ms w'.buf b2; rw [hbuf']; exact hm)
    obtain ⟨k', hy2', hs'⟩ := hy2.sigEq hb7
    obtain ⟨kc, tc, hy2'⟩ := hy2'.cons_inv
    obtain ⟨n, hn⟩ := segs_getLast pairs first.value
    obtain ⟨wA, cc, hsA, _, hend⟩ := toplevel_class_end env hp F (core F (D + 1 + 1 + 1 + 1)) w7 cl semi kc k' nb7 blk rest n none hst7
      (by rw [← hsb7.2.2.2]; rfl) (by rw [← hsb7.2.1]; show hdr.kind = .cls; rw [← hhdr]; rfl)
      (by rw [← hsb7.2.1]; show hdr.typedef = false; rw [← hhdr]; rfl)
      (by rw [← hsb7.2.1]; show hdr.cls.typename.segments.getLast? = _; rw [← hhdr]; exact hn)
      (fun hc => absurd hc hk) tc h7 hy2'.single_inv h8
    obtain ⟨w3, hi3, hb3, hs3⟩ := hend _ (deliver_passing env { wA with mainTok := some cc }
      (mkEvent { wA with mainTok := some cc } .blockEnd nb7 (some blk.id))
      (by show wA.muted = false; rw [hsA.muted]; exact hmu7) (hfa _))
    refine ⟨w3, pushEvent hdr w' :: (mid ++ [mkEvent { wA with mainTok := some cc } .blockEnd nb7 (some blk.id)]),
      ⟨⟨pushedWorld env hdr w' :: (ws ++ [w3]), .cons hi (hch.append (.one hi3)), by simp [hl]⟩, ?_, ⟨blk, hs3.stack, .refl _⟩, ?_, ?_⟩, ?_⟩
    · rw [hb3]; exact hs'
    · rw [hs3.events]
      show wA.events ++ _ = _
      rw [hsA.events, hev7]
      show (w'.events ++ [pushEvent hdr w']) ++ mid ++ _ = _
      rw [hev']; simp
    · rw [hs3.muted]
      show nb7.priorMuted = false
      rw [← hsb7.2.2.1]; show w'.muted = false; rw [hmu']; exact hmu
    · refine ⟨pushedBlock hdr w', _, _, mid, rfl, rfl, rfl, ?_, rfl, ?_, hE, rfl, hsb7.1.symm, rfl⟩
      · show w'.stack.head?.map (·.id) = _; rw [hst', hst]; rfl
      · show hdr.kind = .cls ∧ hdr.access = _ ∧ hdr.cls.final = _ ∧ hdr.cls.bases = _ ∧ hdr.cls.typename = _
        rw [← hhdr, ← hctv]; exact ⟨rfl, rfl, rfl, rfl, rfl⟩

/-- **a class nested in a class body is a member**: its own members are read under ITS key's default
    access level, whatever level is in force outside, and the outer level is in force again after it -/
def Member.clsFB (kw first : Tok) (pairs : List (Tok × Tok)) (fs : List Tok) (bs : List (BaseItem × Tok)) (last : BaseItem) (ms : List (Member env F (core F (D + 1 + 1 + 1 + 1)))) :
    Member env F (core F (D + 1 + 1 + 1 + 1)) where
  At := fun b b' => ∃ (colon ob cl semi : Tok) (b1 b2 : Buf),
    isClassKey kw.value = true ∧ kw.type = kw.value ∧ first.type = "NAME" ∧ plainVal first.value = true ∧
    (∀ p ∈ pairs, p.1.type = "DBL_COLON" ∧ p.2.type = "NAME" ∧ plainVal p.2.value = true) ∧ ob.type = "{" ∧
    cl.type = "}" ∧ semi.type = ";" ∧ pairs.length + 2 ≤ F ∧
    (colon.type = ":" ∧ (∀ q ∈ bs, q.1.OK ∧ q.2.type = "," ∧ q.1.specs.length + q.1.pairs.length + 2 ≤ F) ∧
      last.OK ∧ last.specs.length + last.pairs.length + 2 ≤ F ∧ bs.length + 1 ≤ F ∧ (∀ f ∈ fs, f.type = "final") ∧ fs.length + 1 ≤ F) ∧
    Yields env.cfg b (kw :: first :: (pairs.flatMap (fun p => [p.1, p.2]) ++ (fs ++ [colon]) ++ ((bs.flatMap (fun q => q.1.toks ++ [q.2]) ++ last.toks) ++ [ob]))) b1 ∧ MSeqAt ms b1 b2 ∧
    Yields env.cfg b2 [cl, semi] b'
  Ev := fun blk rest acc evs => BlockEvents blk
    (fun h => h.kind = .cls ∧ h.access = some (defaultAccess kw.value) ∧ h.cls.access = some acc ∧
      h.cls.final = !fs.isEmpty ∧ h.cls.bases = (bs.map (fun q => q.1.denotes (defaultAccess kw.value)) ++ [last.denotes (defaultAccess kw.value)]) ∧
      h.cls.typename = .mk (.name first.value none :: pairs.map (fun p => .name p.2.value none)) (some kw.value) false)
    (fun nb mid => MSeqEv nb (blk :: rest) ms (defaultAccess kw.value) mid) evs
  accOut := id
  size := mseqSize ms + 2
  at_sigEq := by
    intro b b' k ⟨colon, ob, cl, semi, b1, b2, h1, h2, h3, h4, h5, h6, h7, h8, h9, hB, hy, hm, hy2⟩ hs
    obtain ⟨k1, hy', hs1⟩ := hy.sigEq hs
    obtain ⟨k2, hm', hs2⟩ := hm.sigEq hs1
    obtain ⟨k', hy2', hs'⟩ := hy2.sigEq hs2
    exact ⟨k', ⟨colon, ob, cl, semi, k1, k2, h1, h2, h3, h4, h5, h6, h7, h8, h9, hB, hy', hm', hy2'⟩, hs'⟩
  sound := by
    intro w b' blk rest acc hst hk hacc hmu ⟨colon, ob, cl, semi, b1, b2, h1, h2, h3, h4, h5, h6, h7, h8, h9, hB, hy, hm, hy2⟩
    have hfa : ∀ n, ¬ env.faultAt = some n := by intro n; rw [hnf]; simp
    obtain ⟨bk, t0, hy⟩ := hy.cons_inv
    obtain ⟨bf, t1, hy⟩ := hy.cons_inv
    rw [List.append_assoc] at hy
    obtain ⟨bmid, hyp, hy⟩ := hy.split
    obtain ⟨bc, hyf, hy⟩ := hy.split
    obtain ⟨bb, hyb, hy⟩ := hy.split
    obtain ⟨d, bD, w', ct, _, hbuf', hctv, hst', hev', _, _, hmu', _, hi⟩ :=
      toplevel_class_head_final_bases env hp F (D + 1 + 1) w kw first pairs fs colon bs last ob bk bf bmid bc bb b1 blk rest hst hmu (hfa _) t0 h1 h2 t1 h3 h4 h5 hyp
        hB.2.2.2.2.2.1 hyf hB.1 hB.2.2.2.2.2.2 hB.2.1 hB.2.2.1 hB.2.2.2.1 hyb hy.single_inv h6 h9 hB.2.2.2.2.1
    generalize hhdr : classHdrF ct first pairs (bs.map (fun q => q.1.denotes (defaultAccess kw.value)) ++ [last.denotes (defaultAccess kw.value)]) (!fs.isEmpty) blk d = hdr at hi
    have hPst : (pushedWorld env hdr w').stack = pushedBlock hdr w' :: blk :: rest := by
      show pushedBlock hdr w' :: w'.stack = _; rw [hst', hst]
    have hPmu : (pushedWorld env hdr w').muted = false := hskip _ _
    obtain ⟨w7, mid, ⟨⟨ws, hch, hl⟩, hb7, ⟨nb7, hst7, hsb7, _⟩, hev7, hmu7⟩, hE⟩ :=
      mseq_sound ms (pushedWorld env hdr w') b2 (pushedBlock hdr w') (blk :: rest) (defaultAccess kw.value) hPst
        (by show hdr.kind = .cls; rw [← hhdr]; rfl) (by show hdr.access = _; rw [← hhdr, ← hctv]; rfl) hPmu
        (by show MSeqAt ms w'.buf b2; rw [hbuf']; exact hm)
    obtain ⟨k', hy2', hs'⟩ := hy2.sigEq hb7
    obtain ⟨kc, tc, hy2'⟩ := hy2'.cons_inv
    obtain ⟨n, hn⟩ := segs_getLast pairs first.value
    obtain ⟨wA, cc, hsA, _, hend⟩ := toplevel_class_end env hp F (core F (D + 1 + 1 + 1 + 1)) w7 cl semi kc k' nb7 blk rest n none hst7
      (by rw [← hsb7.2.2.2]; rfl) (by rw [← hsb7.2.1]; show hdr.kind = .cls; rw [← hhdr]; rfl)
      (by rw [← hsb7.2.1]; show hdr.typedef = false; rw [← hhdr]; rfl)
      (by rw [← hsb7.2.1]; show hdr.cls.typename.segments.getLast? = _; rw [← hhdr]; exact hn)
      (fun _ => ⟨acc, hacc⟩) tc h7 hy2'.single_inv h8
    obtain ⟨w3, hi3, hb3, hs3⟩ := hend _ (deliver_passing env { wA with mainTok := some cc }
      (mkEvent { wA with mainTok := some cc } .blockEnd nb7 (some blk.id))
      (by show wA.muted = false; rw [hsA.muted]; exact hmu7) (hfa _))
    refine ⟨w3, pushEvent hdr w' :: (mid ++ [mkEvent { wA with mainTok := some cc } .blockEnd nb7 (some blk.id)]),
      ⟨⟨pushedWorld env hdr w' :: (ws ++ [w3]), .cons hi (hch.append (.one hi3)), by simp [hl]⟩, ?_, ⟨blk, hs3.stack, .refl _, hacc⟩, ?_, ?_⟩, ?_⟩
    · rw [hb3]; exact hs'
    · rw [hs3.events]
      show wA.events ++ _ = _
      rw [hsA.events, hev7]
      show (w'.events ++ [pushEvent hdr w']) ++ mid ++ _ = _
      rw [hev']; simp
    · rw [hs3.muted]
      show nb7.priorMuted = false
      rw [← hsb7.2.2.1]; show w'.muted = false; rw [hmu']; exact hmu
    · refine ⟨pushedBlock hdr w', _, _, mid, rfl, rfl, rfl, ?_, rfl, ?_, hE, rfl, hsb7.1.symm, rfl⟩
      · show w'.stack.head?.map (·.id) = _; rw [hst', hst]; rfl
      · show hdr.kind = .cls ∧ hdr.access = _ ∧ hdr.cls.access = _ ∧ hdr.cls.final = _ ∧ hdr.cls.bases = _ ∧ hdr.cls.typename = _
        rw [← hhdr, ← hctv]
        refine ⟨rfl, rfl, ?_, rfl, rfl, rfl⟩
        show (if blk.hdr.kind = .cls then blk.access else none) = some acc
        rw [if_pos hk, hacc]

end kinds

end Cxx
