/-
  Theorems/VarDecl.lean — the variable / field declaration `T ptr-ops x` followed by `;` (C01, C02,
  C03, C11): `T` a plain qualified name, `ptr-ops` any sequence of `*`, `const`, `volatile`
  starting with `*` (or empty), `x` an identifier.  `_parse_declarations` is exactly: one
  `fieldEmit` of the name `x` with the type the declarator denotes (`applyPtrOps`), no bits, no
  value, and the doc text given or else the trailing documentation comment; then the `;`.
-/
import CxxModel.Theorems.TypeName
import CxxModel.Theorems.FieldForm
import CxxModel.Theorems.PtrChain
import CxxModel.Theorems.Verbose
namespace Cxx
open P

theorem core_parseType (F n : Nat) : (core F (n + 1)).parseType = parseTypeStep F (core F n) := rfl
theorem core_parsePqname (F n : Nat) : (core F (n + 1)).parsePqname = parsePqnameStep F (core F n) := rfl
theorem core_parseCvPtrOrFn (F n : Nat) : (core F (n + 1)).parseCvPtrOrFn = parseCvPtrOrFnStep F (core F n) := rfl

/-- an identifier: none of the words the declaration parser treats specially -/
def identVal (v : String) : Bool :=
  plainVal v && !Gen.nameCompoundStart.contains v && !Gen.msvcConventions.contains v && v != "auto"

theorem ptrStep_notFn (d d' : DType) (ty : String) (h : ptrStep d ty = some d') : isFnType d' = false := by
  unfold ptrStep at h
  split at h
  · split at h
    · cases h
    · cases h; rfl
  · split at h
    · cases d <;> simp [setConst] at h <;> (subst h; rfl)
    · split at h
      · cases d <;> simp [setVolatile] at h <;> (subst h; rfl)
      · cases h

theorem applyPtrOps_notFn : ∀ (ops : List String) (d d1 : DType), isFnType d = false → applyPtrOps d ops = some d1 →
    isFnType d1 = false := by
  intro ops
  induction ops with
  | nil => intro d d1 hd h; simp [applyPtrOps] at h; subst h; exact hd
  | cons t ts ih =>
    intro d d1 hd h
    simp only [applyPtrOps] at h
    cases hs : ptrStep d t with
    | none => simp [hs] at h
    | some d' =>
      simp only [hs] at h
      exact ih d' d1 (ptrStep_notFn d d' t hs) h

theorem validate_empty (env : Env) (varOk methOk : Bool) (msg : String) (w : World) :
    interp env (Mods.validate {} varOk methOk msg) w = (w, .ok ()) := by
  unfold Mods.validate
  cases varOk <;> cases methOk <;> simp [pure, interp]

/-- **the declarator `ptr-ops x`** after the type: `_parse_decl` ends in `_parse_field` with the
    type the pointer chain denotes and the name `x` -/
theorem parseDecl_plain (env : Env) (F D : Nat) (pt : DType) (mods : Mods) (location : LocRef) (doxygen : Option String) (isTypedef : Bool)
    (ops : List Tok) (x tm : Tok) (d1 : DType) (w : World) (bmid bx b' : Buf)
    (blk : Block) (rest : List Block) (hstack : w.stack = blk :: rest)
    (hpt : isFnType pt = false)
    (hy : Yields env.cfg w.buf ops bmid) (ha : applyPtrOps pt (ops.map (·.type)) = some d1)
    (htx : tokenEofOk env.cfg bmid = .ok (some x, bx)) (hx : x.type = "NAME") (hxv : identVal x.value = true)
    (httm : tokenEofOk env.cfg bx = .ok (some tm, b')) (htm : tm.type = ";" ∨ tm.type = "," ∨ tm.type = "=" ∨ tm.type = ":")
    (hF : ops.length + 1 ≤ F) :
    ∃ (w' : World) (t' : Tok), SameButLog w w' ∧ tokenEofOk env.cfg w'.buf = .ok (some t', b') ∧
      t'.type = tm.type ∧ t'.value = tm.value ∧
      interp env (parseDecl F (core F (D + 1)) pt mods location doxygen .none isTypedef false) w =
        interp env (do
          parseField F mods d1 (some (.mk [.name x.value none] none false)) none doxygen location isTypedef
          pure false) w' := by
  simp only [identVal, Bool.and_eq_true, Bool.not_eq_true', bne_iff_ne, ne_eq] at hxv
  obtain ⟨⟨⟨hpv, hnc⟩, hms⟩, hauto⟩ := hxv
  -- the pointer chain
  obtain ⟨w1, t1, hi1, hb1, htv1, hs1⟩ := cvPtr_chain env (core F D) false ops pt d1 F w bmid bx x hy ha htx
    (by rw [hx]; decide) hF
  have hty1 : t1.type = x.type := congrArg Prod.fst htv1
  have hv1 : t1.value = x.value := congrArg Prod.snd htv1
  have ht1 : tokenEofOk env.cfg w1.buf = .ok (some t1, bx) := by
    rw [hb1]; exact tokenEofOk_returnToken env.cfg t1 bx (by rw [hty1]; exact tokenEofOk_not_discard htx)
  have hfn := applyPtrOps_notFn _ pt d1 hpt ha
  have htop1 := interp_getTop env w1 blk rest (by rw [hs1.stack]; exact hstack)
  -- `(`? the calling convention? the name
  obtain ⟨w2, t2, hi2, hs2, ht2, hty2, hv2⟩ := step_tokenIf_miss env ["("] w1 t1 bx ht1 (by rw [hty1, hx]; decide)
  obtain ⟨w3, t3, hi3, hs3, ht3, hty3, hv3⟩ := step_tokenIfP_miss env (fun t => Gen.msvcConventions.contains t.value) w2 t2 bx ht2
    (by intro c _ hcv; show Gen.msvcConventions.contains c.value = false; rw [hcv, hv2, hv1]; exact hms)
  obtain ⟨w4, c4, hi4, hb4, hs4, hty4, hv4⟩ := step_tokenIfP_hit env (fun t => Gen.pqnameStartTokens.contains t.type) w3 t3 bx ht3
    (by intro c hct _; show Gen.pqnameStartTokens.contains c.type = true; rw [hct, hty3, hty2, hty1, hx]; decide)
  have hc4v : c4.value = x.value := by rw [hv4, hv3, hv2, hv1]
  obtain ⟨w5, t5, hpq, hs5, ht5, hty5, hv5⟩ := plain_pqname env F (core F D) true false false c4 [] w4 bx b' tm
    (by rw [hty4, hty3, hty2, hty1, hx]) (by rw [hc4v]; exact hpv) (by rw [hc4v]; exact hnc) (by simp)
    (by rw [hb4]; exact .nil _) httm (by rcases htm with h | h | h | h <;> (rw [h]; decide)) (by rcases htm with h | h | h | h <;> (rw [h]; decide))
    (by simp; omega)
  obtain ⟨w6, t6, hi6, hs6, ht6, hty6, hv6⟩ := step_tokenIf_miss env ["("] (logged env w5 "parse_pqname") t5 b'
    (by rw [logged_buf']; exact ht5) (by rw [hty5]; rcases htm with h | h | h | h <;> (rw [h]; decide))
  refine ⟨w6, t6, (((((hs1.trans hs2).trans hs3).trans hs4).trans hs5).butLog.trans (logged_butLog env w5 _)).trans hs6.butLog,
    ht6, by rw [hty6, hty5], by rw [hv6, hv5], ?_⟩
  unfold parseDecl parseCvPtr
  simp only [bind, interp_bind, core, coreStep, hi1, hfn, Bool.false_eq_true, ↓reduceIte, pure, interp, htop1, hi2,
    Option.isSome_some, P.tokenIfVal, P.tokenIfInSet, hi3, hi4, hpq, List.map_nil, hc4v, hi6, Option.isSome_none, opTruthy]

/-- what follows a declarator: the loop ends at `;` and goes on after `,` -/
def afterDeclarator (tm : Tok) (c : CTok) : (LocRef × Option String) ⊕ Unit :=
  if tm.type = ";" then .inr () else .inl (LocRef.tok c.sidx, none)

/-- the variable a plain declarator declares -/
def plainVariable (x : Tok) (d1 : DType) (dox : Option String) : Variable :=
  { name := .mk [.name x.value none] none false, type := d1, value := none, doxygen := dox, template := none,
    constexpr := false, extern := false, static := false, inline := false }

/-- **one declarator `ptr-ops x` and the `,` / `;` after it, outside a class**, with an active
    visitor that does not raise here: exactly ONE callback `on_variable` for the innermost open
    block, carrying the name `x`, the type the chain denotes, no value, and the doc text given
    or else the trailing documentation comment -/
theorem declarator_variable (env : Env) (F D : Nat) (pt : DType) (location : LocRef) (doxygen : Option String)
    (ops : List Tok) (x tm : Tok) (d1 : DType) (w : World) (bmid bx b' : Buf)
    (blk : Block) (rest : List Block) (hstack : w.stack = blk :: rest) (hk : blk.hdr.kind ≠ .cls)
    (hmu : w.muted = false) (hfa : ¬ env.faultAt = some w.delivered)
    (hpt : isFnType pt = false)
    (hy : Yields env.cfg w.buf ops bmid) (ha : applyPtrOps pt (ops.map (·.type)) = some d1)
    (htx : tokenEofOk env.cfg bmid = .ok (some x, bx)) (hx : x.type = "NAME") (hxv : identVal x.value = true)
    (httm : tokenEofOk env.cfg bx = .ok (some tm, b')) (htm : tm.type = ";" ∨ tm.type = ",")
    (hF : ops.length + 1 ≤ F) :
    ∃ (w7 : World) (c : CTok) (dox : Option String) (ev : Event),
      interp env (declaratorBody F (core F (D + 1)) pt {} .none false false (location, doxygen)) w =
        (w7, .ok (afterDeclarator tm c)) ∧
      SigEq b' w7.buf ∧ w7.stack = { blk with loc := location } :: rest ∧
      w7.events = w.events ++ [ev] ∧ ev.kind = .item (.variable (plainVariable x d1 dox)) ∧
      ev.stateId = blk.id ∧ ev.parentId = rest.head?.map (·.id) ∧ (∀ d, doxygen = some d → dox = some d) ∧
      w7.delivered = w.delivered + 1 ∧ w7.anon = w.anon ∧ w7.muted = false ∧ w7.nextId = w.nextId ∧
      w7.mainTok = w.mainTok := by
  obtain ⟨w1, t1, hs1, ht1, hty1, hv1, hi1⟩ := parseDecl_plain env F D pt {} location doxygen false ops x tm d1 w bmid bx b'
    blk rest hstack hpt hy ha htx hx hxv httm (htm.elim .inl (fun h => .inr (.inl h))) hF
  have hnm : fieldName (false || decide (blk.hdr.kind = .cls)) (.mk [.name x.value none] none false) = some none := by
    have hd : decide (blk.hdr.kind = .cls) = false := by simp [hk]
    rw [hd]; rfl
  obtain ⟨w5, t5, b5, dox, hs5, ht5, hsig5, hty5, hv5, hdox, hi5⟩ := parseField_plain env F {} d1 (.mk [.name x.value none] none false)
    none doxygen location false w1 t1 b' blk rest (by rw [hs1.stack]; exact hstack) none hnm ht1
    (by rw [hty1]; rcases htm with h | h <;> (rw [h]; decide))
  -- the callback
  have hst5 : w5.stack = { blk with loc := location } :: rest := hs5.stack
  have hmu5 : w5.muted = false := by rw [hs5.muted]; show w1.muted = _; rw [hs1.muted]; exact hmu
  have hdl5 : w5.delivered = w.delivered := by rw [hs5.delivered]; show w1.delivered = _; exact hs1.delivered
  have hev5 : w5.events = w.events := by rw [hs5.events]; show w1.events = _; exact hs1.events
  have hdel := deliver_passing env w5 (mkEvent w5 (.item (.variable (plainVariable x d1 dox)))
    { blk with loc := location } (rest.head?.map (·.id))) hmu5 (by rw [hdl5]; exact hfa)
  have htok6 : tokenEofOk env.cfg ({ w5 with events := w5.events ++ [mkEvent w5 (.item (.variable (plainVariable x d1 dox)))
      { blk with loc := location } (rest.head?.map (·.id))], delivered := w5.delivered + 1 } : World).buf = .ok (some t5, b5) := ht5
  obtain ⟨w7, c7, hi7, hb7, hs7, hty7, _⟩ := step_mustBe env [",", ";"] _ t5 b5 htok6
    (by rw [hty5, hty1]; rcases htm with h | h <;> (rw [h]; decide))
  refine ⟨w7, c7, dox, _, ?_, by rw [hb7]; exact hsig5, by rw [hs7.stack]; exact hst5, by rw [hs7.events, hev5], rfl, rfl, rfl,
    hdox, by rw [hs7.delivered, hdl5], ?_, by rw [hs7.muted]; exact hmu5, ?_, ?_⟩
  · unfold declaratorBody
    have hk' : ¬ blk.hdr.kind = .cls := hk
    have hi7' := hi7
    simp only [hst5, plainVariable] at hi7'
    simp only [bind, interp_bind, hi1, hi5, fieldEmit, Block.view, hk', decide_false, Bool.false_eq_true, ↓reduceIte, hasKey,
      List.any_nil, P.emit, interp, hst5, plainVariable] at hdel ⊢
    simp only [hdel, Bool.false_eq_true, ↓reduceIte, bind, interp_bind, pure, interp, hi7', hty7, hty5, hty1, afterDeclarator]
    rcases htm with h | h <;> simp [h, interp]
  · rw [hs7.anon]; show w5.anon = _; rw [hs5.anon]; exact hs1.anon
  · rw [hs7.nextId]; show w5.nextId = _; rw [hs5.nextId]; exact hs1.nextId
  · rw [hs7.mainTok]; show w5.mainTok = _; rw [hs5.mainTok]; exact hs1.mainTok

/-- the field a plain declarator declares -/
def plainField (x : Tok) (d1 : DType) (acc : String) (dox : Option String) : Field :=
  { name := some x.value, type := d1, access := acc, value := none, bits := none, doxygen := dox,
    constexpr := false, static := false, inline := false, mutable := false }

/-- **one declarator `ptr-ops x` and the `,` / `;` after it, in a class body**, with an active
    visitor that does not raise here: exactly ONE callback `on_class_field` for the innermost open
    class, carrying the name `x`, the type the chain denotes, the access level in force in THAT
    class, no bit width, no value, and the doc text given or else the trailing documentation
    comment -/
theorem declarator_field (env : Env) (F D : Nat) (pt : DType) (location : LocRef) (doxygen : Option String)
    (ops : List Tok) (x tm : Tok) (d1 : DType) (w : World) (bmid bx b' : Buf)
    (blk : Block) (rest : List Block) (hstack : w.stack = blk :: rest) (hk : blk.hdr.kind = .cls) (acc : String) (hacc : blk.access = some acc)
    (hmu : w.muted = false) (hfa : ¬ env.faultAt = some w.delivered)
    (hpt : isFnType pt = false)
    (hy : Yields env.cfg w.buf ops bmid) (ha : applyPtrOps pt (ops.map (·.type)) = some d1)
    (htx : tokenEofOk env.cfg bmid = .ok (some x, bx)) (hx : x.type = "NAME") (hxv : identVal x.value = true)
    (httm : tokenEofOk env.cfg bx = .ok (some tm, b')) (htm : tm.type = ";" ∨ tm.type = ",")
    (hF : ops.length + 1 ≤ F) :
    ∃ (w7 : World) (c : CTok) (dox : Option String) (ev : Event),
      interp env (declaratorBody F (core F (D + 1)) pt {} .none false false (location, doxygen)) w =
        (w7, .ok (afterDeclarator tm c)) ∧
      SigEq b' w7.buf ∧ w7.stack = { blk with loc := location } :: rest ∧
      w7.events = w.events ++ [ev] ∧ ev.kind = .item (.classField (plainField x d1 acc dox)) ∧
      ev.stateId = blk.id ∧ ev.parentId = rest.head?.map (·.id) ∧ (∀ d, doxygen = some d → dox = some d) ∧
      w7.delivered = w.delivered + 1 ∧ w7.anon = w.anon ∧ w7.muted = false ∧ w7.nextId = w.nextId ∧
      w7.mainTok = w.mainTok := by
  obtain ⟨w1, t1, hs1, ht1, hty1, hv1, hi1⟩ := parseDecl_plain env F D pt {} location doxygen false ops x tm d1 w bmid bx b'
    blk rest hstack hpt hy ha htx hx hxv httm (htm.elim .inl (fun h => .inr (.inl h))) hF
  have hnm : fieldName (false || decide (blk.hdr.kind = .cls)) (.mk [.name x.value none] none false) = some (some x.value) := by
    have hd : decide (blk.hdr.kind = .cls) = true := by simp [hk]
    rw [hd]; rfl
  obtain ⟨w5, t5, b5, dox, hs5, ht5, hsig5, hty5, hv5, hdox, hi5⟩ := parseField_plain env F {} d1 (.mk [.name x.value none] none false)
    none doxygen location false w1 t1 b' blk rest (by rw [hs1.stack]; exact hstack) (some x.value) hnm ht1
    (by rw [hty1]; rcases htm with h | h <;> (rw [h]; decide))
  -- the callback
  have hst5 : w5.stack = { blk with loc := location } :: rest := hs5.stack
  have hmu5 : w5.muted = false := by rw [hs5.muted]; show w1.muted = _; rw [hs1.muted]; exact hmu
  have hdl5 : w5.delivered = w.delivered := by rw [hs5.delivered]; show w1.delivered = _; exact hs1.delivered
  have hev5 : w5.events = w.events := by rw [hs5.events]; show w1.events = _; exact hs1.events
  have hdel := deliver_passing env w5 (mkEvent w5 (.item (.classField (plainField x d1 acc dox)))
    { blk with loc := location } (rest.head?.map (·.id))) hmu5 (by rw [hdl5]; exact hfa)
  have htok6 : tokenEofOk env.cfg ({ w5 with events := w5.events ++ [mkEvent w5 (.item (.classField (plainField x d1 acc dox)))
      { blk with loc := location } (rest.head?.map (·.id))], delivered := w5.delivered + 1 } : World).buf = .ok (some t5, b5) := ht5
  obtain ⟨w7, c7, hi7, hb7, hs7, hty7, _⟩ := step_mustBe env [",", ";"] _ t5 b5 htok6
    (by rw [hty5, hty1]; rcases htm with h | h <;> (rw [h]; decide))
  refine ⟨w7, c7, dox, _, ?_, by rw [hb7]; exact hsig5, by rw [hs7.stack]; exact hst5, by rw [hs7.events, hev5], rfl, rfl, rfl,
    hdox, by rw [hs7.delivered, hdl5], ?_, by rw [hs7.muted]; exact hmu5, ?_, ?_⟩
  · unfold declaratorBody
    have hi7' := hi7
    simp only [hst5, plainField, hacc] at hi7'
    simp only [bind, interp_bind, hi1, hi5, fieldEmit, Block.view, hk, hacc, decide_true, Bool.false_eq_true, ↓reduceIte, hasKey,
      List.any_nil, P.emit, interp, hst5, plainField] at hdel ⊢
    simp only [hdel, Bool.false_eq_true, ↓reduceIte, bind, interp_bind, pure, interp, hi7', hty7, hty5, hty1, afterDeclarator]
    rcases htm with h | h <;> simp [h, interp]
  · rw [hs7.anon]; show w5.anon = _; rw [hs5.anon]; exact hs1.anon
  · rw [hs7.nextId]; show w5.nextId = _; rw [hs5.nextId]; exact hs1.nextId
  · rw [hs7.mainTok]; show w5.mainTok = _; rw [hs5.mainTok]; exact hs1.mainTok

/-- **one bit-field declarator `ptr-ops x : width` and the `,` / `;` after it, in a class body**: exactly ONE
    `on_class_field` whose `bits` is the written decimal width -/
theorem declarator_field_bits (env : Env) (F D : Nat) (pt : DType) (location : LocRef) (doxygen : Option String)
    (ops : List Tok) (x colon num tm : Tok) (d1 : DType) (w : World) (bmid bx bc bn b' : Buf)
    (blk : Block) (rest : List Block) (hstack : w.stack = blk :: rest) (hk : blk.hdr.kind = .cls) (acc : String) (hacc : blk.access = some acc)
    (hmu : w.muted = false) (hfa : ¬ env.faultAt = some w.delivered)
    (hpt : isFnType pt = false)
    (hy : Yields env.cfg w.buf ops bmid) (ha : applyPtrOps pt (ops.map (·.type)) = some d1)
    (htx : tokenEofOk env.cfg bmid = .ok (some x, bx)) (hx : x.type = "NAME") (hxv : identVal x.value = true)
    (htc : tokenEofOk env.cfg bx = .ok (some colon, bc)) (hc : colon.type = ":")
    (htn : tokenEofOk env.cfg bc = .ok (some num, bn)) (hn : num.type = "INT_CONST_DEC") (hdig : allDigits num.value = true)
    (httm : tokenEofOk env.cfg bn = .ok (some tm, b')) (htm : tm.type = ";" ∨ tm.type = ",")
    (hF : ops.length + 1 ≤ F) :
    ∃ (w7 : World) (c : CTok) (dox : Option String) (ev : Event),
      interp env (declaratorBody F (core F (D + 1)) pt {} .none false false (location, doxygen)) w =
        (w7, .ok (afterDeclarator tm c)) ∧
      SigEq b' w7.buf ∧ w7.stack = { blk with loc := location } :: rest ∧
      w7.events = w.events ++ [ev] ∧ ev.kind = .item (.classField { plainField x d1 acc dox with bits := some num.value.toNat! }) ∧
      ev.stateId = blk.id ∧ ev.parentId = rest.head?.map (·.id) ∧ (∀ d, doxygen = some d → dox = some d) ∧
      w7.delivered = w.delivered + 1 ∧ w7.anon = w.anon ∧ w7.muted = false ∧ w7.nextId = w.nextId ∧
      w7.mainTok = w.mainTok := by
  obtain ⟨w1, t1, hs1, ht1, hty1, hv1, hi1⟩ := parseDecl_plain env F D pt {} location doxygen false ops x colon d1 w bmid bx bc
    blk rest hstack hpt hy ha htx hx hxv htc (.inr (.inr (.inr hc))) hF
  have hnm : fieldName true (.mk [.name x.value none] none false) = some (some x.value) := rfl
  obtain ⟨w5, t5, b5, dox, hs5, ht5, hsig5, hty5, hv5, hdox, hi5⟩ := parseField_bits env F {} d1 (.mk [.name x.value none] none false)
    none doxygen location w1 t1 num tm bc bn b' blk rest (by rw [hs1.stack]; exact hstack) hk (some x.value) hnm ht1 (hty1.trans hc)
    htn hn hdig httm (by rcases htm with h | h <;> (rw [h]; decide))
  -- the callback
  have hst5 : w5.stack = { blk with loc := location } :: rest := hs5.stack
  have hmu5 : w5.muted = false := by rw [hs5.muted]; show w1.muted = _; rw [hs1.muted]; exact hmu
  have hdl5 : w5.delivered = w.delivered := by rw [hs5.delivered]; show w1.delivered = _; exact hs1.delivered
  have hev5 : w5.events = w.events := by rw [hs5.events]; show w1.events = _; exact hs1.events
  have hdel := deliver_passing env w5 (mkEvent w5 (.item (.classField { plainField x d1 acc dox with bits := some num.value.toNat! }))
    { blk with loc := location } (rest.head?.map (·.id))) hmu5 (by rw [hdl5]; exact hfa)
  have htok6 : tokenEofOk env.cfg ({ w5 with events := w5.events ++ [mkEvent w5 (.item (.classField { plainField x d1 acc dox with bits := some num.value.toNat! }))
      { blk with loc := location } (rest.head?.map (·.id))], delivered := w5.delivered + 1 } : World).buf = .ok (some t5, b5) := ht5
  obtain ⟨w7, c7, hi7, hb7, hs7, hty7, _⟩ := step_mustBe env [",", ";"] _ t5 b5 htok6
    (by rw [hty5]; rcases htm with h | h <;> (rw [h]; decide))
  refine ⟨w7, c7, dox, _, ?_, by rw [hb7]; exact hsig5, by rw [hs7.stack]; exact hst5, by rw [hs7.events, hev5], rfl, rfl, rfl,
    hdox, by rw [hs7.delivered, hdl5], ?_, by rw [hs7.muted]; exact hmu5, ?_, ?_⟩
  · unfold declaratorBody
    have hi7' := hi7
    simp only [hst5, plainField, hacc] at hi7'
    simp only [bind, interp_bind, hi1, hi5, fieldEmit, Block.view, hk, hacc, decide_true, Bool.false_eq_true, ↓reduceIte, hasKey,
      List.any_nil, P.emit, interp, hst5, plainField] at hdel ⊢
    simp only [hdel, Bool.false_eq_true, ↓reduceIte, bind, interp_bind, pure, interp, hi7', hty7, hty5, afterDeclarator]
    rcases htm with h | h <;> simp [h, interp]
  · rw [hs7.anon]; show w5.anon = _; rw [hs5.anon]; exact hs1.anon
  · rw [hs7.nextId]; show w5.nextId = _; rw [hs5.nextId]; exact hs1.nextId
  · rw [hs7.mainTok]; show w5.mainTok = _; rw [hs5.mainTok]; exact hs1.mainTok

/-- the head of the declarator: nothing (the name follows directly) or a chain starting with `*` -/
def opsHeadOk (ops : List Tok) : Bool :=
  match ops with
  | [] => true
  | o :: _ => o.type == "*"

/-- **`T ptr-ops x ;`** from `_parse_declarations`, outside a class, with an active visitor that
    does not raise here: exactly ONE `on_variable` callback, with the type the declarator denotes -/
theorem parseDeclarations_variable (env : Env) (F D : Nat) (tok : CTok) (doxygen : Option String)
    (pairs : List (Tok × Tok)) (ops : List Tok) (x semi : Tok) (d1 : DType) (w : World) (b0 bmid bx b' : Buf)
    (blk : Block) (rest : List Block) (hstack : w.stack = blk :: rest) (hk : blk.hdr.kind ≠ .cls)
    (hmu : w.muted = false) (hfa : ¬ env.faultAt = some w.delivered)
    (hty : tok.type = "NAME") (htv : identVal tok.value = true)
    (hall : ∀ p ∈ pairs, p.1.type = "DBL_COLON" ∧ p.2.type = "NAME" ∧ plainVal p.2.value = true)
    (hy0 : Yields env.cfg w.buf (pairs.flatMap (fun p => [p.1, p.2])) b0)
    (hops : opsHeadOk ops = true) (hopsv : ∀ o ∈ ops, o.value ≠ "auto")
    (hy : Yields env.cfg b0 ops bmid)
    (ha : applyPtrOps (.type (.mk (.name tok.value none :: pairs.map (fun p => .name p.2.value none)) none false) false false)
      (ops.map (·.type)) = some d1)
    (htx : tokenEofOk env.cfg bmid = .ok (some x, bx)) (hx : x.type = "NAME") (hxv : identVal x.value = true)
    (hsemi : tokenEofOk env.cfg bx = .ok (some semi, b')) (hs : semi.type = ";")
    (hF : pairs.length + ops.length + 2 ≤ F) :
    ∃ (w7 : World) (dox : Option String) (ev : Event),
      interp env (parseDeclarations F (core F (D + 1 + 1)) tok doxygen) w = (w7, .ok ()) ∧
      SigEq b' w7.buf ∧ w7.stack = { blk with loc := .tok tok.sidx } :: rest ∧
      w7.events = w.events ++ [ev] ∧ ev.kind = .item (.variable (plainVariable x d1 dox)) ∧
      ev.stateId = blk.id ∧ ev.parentId = rest.head?.map (·.id) ∧ (∀ d, doxygen = some d → dox = some d) ∧
      w7.delivered = w.delivered + 1 ∧ w7.anon = w.anon ∧ w7.muted = false ∧ w7.nextId = w.nextId ∧
      w7.mainTok = w.mainTok := by
  have hidv := htv
  simp only [identVal, Bool.and_eq_true, Bool.not_eq_true', bne_iff_ne, ne_eq] at htv
  obtain ⟨⟨⟨hpv, hnc⟩, _⟩, _⟩ := htv
  have hxauto : x.value ≠ "auto" := by
    have := hxv
    simp only [identVal, Bool.and_eq_true, Bool.not_eq_true', bne_iff_ne, ne_eq] at this
    exact this.2
  -- the token after the type name: the first pointer operator, or the name
  obtain ⟨nx, bnx, hnx, hnxstop, hnxlt, hnxdc, hnxauto⟩ : ∃ (nx : Tok) (bnx : Buf), tokenEofOk env.cfg b0 = .ok (some nx, bnx) ∧
      typeStop nx.type = true ∧ nx.type ≠ "<" ∧ nx.type ≠ "DBL_COLON" ∧ nx.value ≠ "auto" := by
    cases ops with
    | nil =>
      cases hy
      exact ⟨x, bx, htx, by rw [hx]; decide, by rw [hx]; decide, by rw [hx]; decide, hxauto⟩
    | cons o os =>
      cases hy with
      | cons hto _ =>
        have ho : o.type = "*" := by simpa [opsHeadOk] using hops
        exact ⟨o, _, hto, by rw [ho]; decide, by rw [ho]; decide, by rw [ho]; decide, hopsv o (by simp)⟩
  obtain ⟨w1, t1, hi1, hs1, ht1, hty1, hv1⟩ := parseType_plain env F D true tok pairs w b0 bnx nx hty hpv hnc hall hy0 hnx
    (typeStop_end hnxstop) hnxlt hnxdc (by omega)
  obtain ⟨w2, t2, hi2, hs2, ht2, hty2, hv2⟩ := step_tokenIfP_miss env (fun t => ["auto"].contains t.value) w1 t1 bnx ht1
    (by intro c _ hcv; show ["auto"].contains c.value = false; rw [hcv, hv1]; simp [hnxauto])
  have hsl2 : SameButLog w w2 := hs1.trans hs2.butLog
  have htop2 := interp_getTop env w2 blk rest (by rw [hsl2.stack]; exact hstack)
  -- the stream seen by the declarator loop: the pushed-back copy of `nx`, then as given
  obtain ⟨ops', x', bmid', hy', hmapeq, hlen, htx', hx', hxv'⟩ : ∃ (ops' : List Tok) (x' : Tok) (bmid' : Buf),
      Yields env.cfg w2.buf ops' bmid' ∧ ops'.map (·.type) = ops.map (·.type) ∧ ops'.length = ops.length ∧
      tokenEofOk env.cfg bmid' = .ok (some x', bx) ∧ x'.type = "NAME" ∧ x'.value = x.value := by
    cases ops with
    | nil =>
      cases hy
      rw [htx] at hnx
      injection hnx with hnx; injection hnx with h1 h2
      injection h1 with h1
      subst h1; subst h2
      exact ⟨[], t2, w2.buf, .nil _, rfl, rfl, ht2, by rw [hty2, hty1, hx], by rw [hv2, hv1]⟩
    | cons o os =>
      cases hy with
      | cons hto hrest =>
        rw [hto] at hnx
        injection hnx with hnx; injection hnx with h1 h2
        injection h1 with h1
        subst h1; subst h2
        exact ⟨t2 :: os, x, bmid, .cons ht2 hrest, by simp [hty2, hty1], by simp, htx, hx, rfl⟩
  obtain ⟨w7, c7, dox, ev, hi7, hsig, hst7, hev7, hk7, hid7, hpar7, hdox7, hdl7, han7, hmu7, hnx7, hmt7⟩ :=
    declarator_variable env F (D + 1) _ (.tok tok.sidx) doxygen ops' x' semi d1 w2 bmid' bx b' blk rest
      (by rw [hsl2.stack]; exact hstack) hk (by rw [hsl2.muted]; exact hmu) (by rw [hsl2.delivered]; exact hfa) rfl hy'
      (by rw [hmapeq]; exact ha) htx' hx' (by rw [hxv']; exact hxv) hsemi (.inl hs) (by rw [hlen]; omega)
  refine ⟨w7, dox, ev, ?_, hsig, hst7, by rw [hev7, hsl2.events], ?_, hid7, hpar7, hdox7, by rw [hdl7, hsl2.delivered],
    by rw [han7, hsl2.anon], hmu7, by rw [hnx7, hsl2.nextId], by rw [hmt7, hsl2.mainTok]⟩
  · obtain ⟨k, rfl⟩ : ∃ k, F = k + 1 := ⟨F - 1, by omega⟩
    unfold parseDeclarations
    simp only [bind, interp_bind, core_parseType, hi1, Option.bind, typenameOf, strTruthy, PQName.classkey, Bool.false_eq_true, ↓reduceIte, pure, interp, Bool.not_false,
      P.tokenIfVal, hi2, htop2, validate_empty]
    rw [loopN]
    simp only [bind, interp_bind, hi7, afterDeclarator, hs, ↓reduceIte, pure, interp]
  · rw [hk7]
    simp only [plainVariable, hxv']

/-- **`T ptr-ops x ;`** from `_parse_declarations`, in a class body, with an active visitor that
    does not raise here: exactly ONE `on_class_field` callback, with the type the declarator denotes
    and the access level in force in the innermost class -/
theorem parseDeclarations_field (env : Env) (F D : Nat) (tok : CTok) (doxygen : Option String)
    (pairs : List (Tok × Tok)) (ops : List Tok) (x semi : Tok) (d1 : DType) (w : World) (b0 bmid bx b' : Buf)
    (blk : Block) (rest : List Block) (hstack : w.stack = blk :: rest) (hk : blk.hdr.kind = .cls) (acc : String) (hacc : blk.access = some acc)
    (hmu : w.muted = false) (hfa : ¬ env.faultAt = some w.delivered)
    (hty : tok.type = "NAME") (htv : identVal tok.value = true)
    (hall : ∀ p ∈ pairs, p.1.type = "DBL_COLON" ∧ p.2.type = "NAME" ∧ plainVal p.2.value = true)
    (hy0 : Yields env.cfg w.buf (pairs.flatMap (fun p => [p.1, p.2])) b0)
    (hops : opsHeadOk ops = true) (hopsv : ∀ o ∈ ops, o.value ≠ "auto")
    (hy : Yields env.cfg b0 ops bmid)
    (ha : applyPtrOps (.type (.mk (.name tok.value none :: pairs.map (fun p => .name p.2.value none)) none false) false false)
      (ops.map (·.type)) = some d1)
    (htx : tokenEofOk env.cfg bmid = .ok (some x, bx)) (hx : x.type = "NAME") (hxv : identVal x.value = true)
    (hsemi : tokenEofOk env.cfg bx = .ok (some semi, b')) (hs : semi.type = ";")
    (hF : pairs.length + ops.length + 2 ≤ F) :
    ∃ (w7 : World) (dox : Option String) (ev : Event),
      interp env (parseDeclarations F (core F (D + 1 + 1)) tok doxygen) w = (w7, .ok ()) ∧
      SigEq b' w7.buf ∧ w7.stack = { blk with loc := .tok tok.sidx } :: rest ∧
      w7.events = w.events ++ [ev] ∧ ev.kind = .item (.classField (plainField x d1 acc dox)) ∧
      ev.stateId = blk.id ∧ ev.parentId = rest.head?.map (·.id) ∧ (∀ d, doxygen = some d → dox = some d) ∧
      w7.delivered = w.delivered + 1 ∧ w7.anon = w.anon ∧ w7.muted = false ∧ w7.nextId = w.nextId ∧
      w7.mainTok = w.mainTok := by
  have hidv := htv
  simp only [identVal, Bool.and_eq_true, Bool.not_eq_true', bne_iff_ne, ne_eq] at htv
  obtain ⟨⟨⟨hpv, hnc⟩, _⟩, _⟩ := htv
  have hxauto : x.value ≠ "auto" := by
    have := hxv
    simp only [identVal, Bool.and_eq_true, Bool.not_eq_true', bne_iff_ne, ne_eq] at this
    exact this.2
  -- the token after the type name: the first pointer operator, or the name
  obtain ⟨nx, bnx, hnx, hnxstop, hnxlt, hnxdc, hnxauto⟩ : ∃ (nx : Tok) (bnx : Buf), tokenEofOk env.cfg b0 = .ok (some nx, bnx) ∧
      typeStop nx.type = true ∧ nx.type ≠ "<" ∧ nx.type ≠ "DBL_COLON" ∧ nx.value ≠ "auto" := by
    cases ops with
    | nil =>
      cases hy
      exact ⟨x, bx, htx, by rw [hx]; decide, by rw [hx]; decide, by rw [hx]; decide, hxauto⟩
    | cons o os =>
      cases hy with
      | cons hto _ =>
        have ho : o.type = "*" := by simpa [opsHeadOk] using hops
        exact ⟨o, _, hto, by rw [ho]; decide, by rw [ho]; decide, by rw [ho]; decide, hopsv o (by simp)⟩
  obtain ⟨w1, t1, hi1, hs1, ht1, hty1, hv1⟩ := parseType_plain env F D true tok pairs w b0 bnx nx hty hpv hnc hall hy0 hnx
    (typeStop_end hnxstop) hnxlt hnxdc (by omega)
  obtain ⟨w2, t2, hi2, hs2, ht2, hty2, hv2⟩ := step_tokenIfP_miss env (fun t => ["auto"].contains t.value) w1 t1 bnx ht1
    (by intro c _ hcv; show ["auto"].contains c.value = false; rw [hcv, hv1]; simp [hnxauto])
  have hsl2 : SameButLog w w2 := hs1.trans hs2.butLog
  have htop2 := interp_getTop env w2 blk rest (by rw [hsl2.stack]; exact hstack)
  -- the stream seen by the declarator loop: the pushed-back copy of `nx`, then as given
  obtain ⟨ops', x', bmid', hy', hmapeq, hlen, htx', hx', hxv'⟩ : ∃ (ops' : List Tok) (x' : Tok) (bmid' : Buf),
      Yields env.cfg w2.buf ops' bmid' ∧ ops'.map (·.type) = ops.map (·.type) ∧ ops'.length = ops.length ∧
      tokenEofOk env.cfg bmid' = .ok (some x', bx) ∧ x'.type = "NAME" ∧ x'.value = x.value := by
    cases ops with
    | nil =>
      cases hy
      rw [htx] at hnx
      injection hnx with hnx; injection hnx with h1 h2
      injection h1 with h1
      subst h1; subst h2
      exact ⟨[], t2, w2.buf, .nil _, rfl, rfl, ht2, by rw [hty2, hty1, hx], by rw [hv2, hv1]⟩
    | cons o os =>
      cases hy with
      | cons hto hrest =>
        rw [hto] at hnx
        injection hnx with hnx; injection hnx with h1 h2
        injection h1 with h1
        subst h1; subst h2
        exact ⟨t2 :: os, x, bmid, .cons ht2 hrest, by simp [hty2, hty1], by simp, htx, hx, rfl⟩
  obtain ⟨w7, c7, dox, ev, hi7, hsig, hst7, hev7, hk7, hid7, hpar7, hdox7, hdl7, han7, hmu7, hnx7, hmt7⟩ :=
    declarator_field env F (D + 1) _ (.tok tok.sidx) doxygen ops' x' semi d1 w2 bmid' bx b' blk rest
      (by rw [hsl2.stack]; exact hstack) hk acc hacc (by rw [hsl2.muted]; exact hmu) (by rw [hsl2.delivered]; exact hfa) rfl hy'
      (by rw [hmapeq]; exact ha) htx' hx' (by rw [hxv']; exact hxv) hsemi (.inl hs) (by rw [hlen]; omega)
  refine ⟨w7, dox, ev, ?_, hsig, hst7, by rw [hev7, hsl2.events], ?_, hid7, hpar7, hdox7, by rw [hdl7, hsl2.delivered],
    by rw [han7, hsl2.anon], hmu7, by rw [hnx7, hsl2.nextId], by rw [hmt7, hsl2.mainTok]⟩
  · obtain ⟨k, rfl⟩ : ∃ k, F = k + 1 := ⟨F - 1, by omega⟩
    unfold parseDeclarations
    simp only [bind, interp_bind, core_parseType, hi1, Option.bind, typenameOf, strTruthy, PQName.classkey, Bool.false_eq_true, ↓reduceIte, pure, interp, Bool.not_false,
      P.tokenIfVal, hi2, htop2, validate_empty]
    rw [loopN]
    simp only [bind, interp_bind, hi7, afterDeclarator, hs, ↓reduceIte, pure, interp]
  · rw [hk7]
    simp only [plainField, hxv']

end Cxx
