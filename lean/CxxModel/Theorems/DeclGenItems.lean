/-
  Theorems/DeclGenItems.lean — `S ptr-ops x ;` over any type specifier as a piece of whole sources:
  `Item.variableGen` (namespace scope) and `Member.fieldGen` (class scope).  With them `parse_source`
  covers declarations such as `const unsigned long * const p ;` or `volatile a::b c ;` in any
  nesting of namespaces, extern blocks and classes.
-/
import CxxModel.Theorems.DeclGen
import CxxModel.Theorems.FnGen
import CxxModel.Theorems.DeclPre
import CxxModel.Theorems.ParamGen
import CxxModel.Theorems.ArrayDecl
import CxxModel.Theorems.AliasPre
import CxxModel.Theorems.BitsDecl
import CxxModel.Theorems.InitPre
import CxxModel.Theorems.VarDeclsPre
import CxxModel.Theorems.FnBody
import CxxModel.Theorems.MemberKinds
namespace Cxx
open P

/-- the written form `spec ptr-ops x ;` -/
structure SpecDeclToks where
  spec : List Tok
  segs : List PQSeg
  cst : Bool
  vol : Bool
  ops : List Tok
  x : Tok
  semi : Tok
  d1 : DType

def SpecDeclToks.toks (v : SpecDeclToks) : List Tok := v.spec ++ (v.ops ++ [v.x, v.semi])

/-- the side conditions: the specifier is a type (`TypeSpecR`), its first token has no handler of its own, the
    declarator is a pointer chain that denotes `d1` over that type, the name is an identifier -/
def SpecDeclToks.OK (env : Env) (F D : Nat) (v : SpecDeclToks) : Prop :=
  TypeSpecR env F D v.spec v.segs v.cst v.vol ∧ (∃ f r, v.spec = f :: r ∧ specFirst f.type = true) ∧
    opsHeadOk v.ops = true ∧ (∀ o ∈ v.ops, o.value ≠ "auto") ∧
    applyPtrOps (.type (.mk v.segs none false) v.cst v.vol) (v.ops.map (·.type)) = some v.d1 ∧
    v.x.type = "NAME" ∧ identVal v.x.value = true ∧ v.semi.type = ";" ∧ v.ops.length + 2 ≤ F

/-- the written form `spec prefix x ;` -/
structure DeclToks where
  spec : List Tok
  segs : List PQSeg
  cst : Bool
  vol : Bool
  ops : List Tok
  x : Tok
  semi : Tok
  d1 : DType

def DeclToks.toks (v : DeclToks) : List Tok := v.spec ++ (v.ops ++ [v.x, v.semi])

/-- the side conditions: the specifier is a type (`TypeSpecR`), its first token has no handler of its own, the tokens
    `ops` are a declarator prefix that denotes `d1` over that type (`PrefixSpec`), the name is an identifier -/
def DeclToks.OK (env : Env) (F D : Nat) (v : DeclToks) : Prop :=
  TypeSpecR env F D v.spec v.segs v.cst v.vol ∧ (∃ f r, v.spec = f :: r ∧ specFirst f.type = true) ∧
    (∀ p ∈ (tvs v.ops).head?, declStart p.1 = true ∧ p.2 ≠ "auto") ∧
    PrefixSpec env F (D + 1) (.type (.mk v.segs none false) v.cst v.vol) (tvs v.ops) v.d1 ∧ isFnType v.d1 = false ∧
    v.x.type = "NAME" ∧ identVal v.x.value = true ∧ v.semi.type = ";" ∧ 2 ≤ F

/-- the written form `spec prefix x [ size ] ;` -/
structure ArrDeclToks where
  d : DeclToks
  ob : Tok
  content : List Tok
  cb : Tok

def ArrDeclToks.toks (v : ArrDeclToks) : List Tok := v.d.spec ++ (v.d.ops ++ (v.d.x :: v.ob :: (v.content ++ [v.cb, v.d.semi])))

/-- the array type declared: the size is EXACTLY the written tokens, or absent for `[]` -/
def ArrDeclToks.ty (v : ArrDeclToks) : DType := .array v.d.d1 (if v.content.isEmpty then none else some (valueOf v.content))

def ArrDeclToks.OK (env : Env) (F D : Nat) (v : ArrDeclToks) : Prop :=
  TypeSpecR env (F + 1) D v.d.spec v.d.segs v.d.cst v.d.vol ∧ (∃ f r, v.d.spec = f :: r ∧ specFirst f.type = true) ∧
    (∀ p ∈ (tvs v.d.ops).head?, declStart p.1 = true ∧ p.2 ≠ "auto") ∧
    PrefixSpec env (F + 1) (D + 1) (.type (.mk v.d.segs none false) v.d.cst v.d.vol) (tvs v.d.ops) v.d.d1 ∧ isFnType v.d.d1 = false ∧
    isRefLike v.d.d1 = false ∧ v.d.x.type = "NAME" ∧ identVal v.d.x.value = true ∧ v.ob.type = "[" ∧
    Nested (v.content.map (·.type)) ∧ v.cb.type = "]" ∧ v.d.semi.type = ";" ∧ v.content.length + 1 ≤ F

section kinds
variable (env : Env) (hp : RulesProgress env.cfg = true) (hnf : env.faultAt = none) (F D : Nat)

/-- `S ptr-ops x ;` at namespace scope, `S` any type specifier -/
def Item.variableGen (v : SpecDeclToks) : Item env F (core F (D + 1 + 1 + 1 + 1)) :=
  Item.ofToks env F v.toks (v.OK env F (D + 1 + 1))
    (fun blk rest ev => ∃ dox, ItemEvent blk rest ev (.variable (plainVariable v.x v.d1 dox)))
    (by
      intro w b' blk rest hst hk hmu hok hy
      obtain ⟨hspec, ⟨f, r, hfr, hfirst⟩, hops, hopsv, ha, hx, hxv, hs, hF⟩ := hok
      unfold SpecDeclToks.toks at hy
      rw [hfr] at hy
      obtain ⟨b1, h1, hy⟩ := Yields.cons_inv hy
      obtain ⟨b0, h5, hy⟩ := hy.split
      obtain ⟨bmid, h8, hy⟩ := hy.split
      obtain ⟨bx, h10, hy⟩ := hy.cons_inv
      obtain ⟨d, bD, w7, ct, dox, ev, _, hi7, hsig7, _, hst7, hev7, hk7, hid7, hpar7, _, _, _, hmu7, _⟩ :=
        toplevel_variable_gen env hp F (D + 1 + 1) w v.spec f r v.segs v.cst v.vol v.ops v.x v.semi v.d1 b1 b0 bmid bx b' blk rest hst hk hmu
          (by rw [hnf]; simp) hspec hfr hfirst h1 h5 hops hopsv h8 ha h10 hx hxv hy.single_inv hs hF
      exact ⟨w7, _, ev, hi7, hsig7, hst7, hev7, ⟨dox, hk7, hid7, hpar7⟩, hmu7⟩)

/-- `S ptr-ops x ;` in a class body, `S` any type specifier -/
def Member.fieldGen (v : SpecDeclToks) : Member env F (core F (D + 1 + 1 + 1 + 1)) :=
  Member.single (fun b b' => v.OK env F (D + 1 + 1) ∧ Yields env.cfg b v.toks b')
    (fun blk rest acc ev => ∃ dox, ItemEvent blk rest ev (.classField (plainField v.x v.d1 acc dox)))
    (by
      intro b b' k ⟨hok, hy⟩ hs
      obtain ⟨k', hy', hs'⟩ := hy.sigEq hs
      exact ⟨k', ⟨hok, hy'⟩, hs'⟩)
    (by
      intro w b' blk rest acc hst hk hacc hmu ⟨hok, hy⟩
      obtain ⟨hspec, ⟨f, r, hfr, hfirst⟩, hops, hopsv, ha, hx, hxv, hs, hF⟩ := hok
      unfold SpecDeclToks.toks at hy
      rw [hfr] at hy
      obtain ⟨b1, h1, hy⟩ := Yields.cons_inv hy
      obtain ⟨b0, h5, hy⟩ := hy.split
      obtain ⟨bmid, h8, hy⟩ := hy.split
      obtain ⟨bx, h10, hy⟩ := hy.cons_inv
      obtain ⟨d, bD, w7, ct, dox, ev, _, hi7, hsig7, _, hst7, hev7, hk7, hid7, hpar7, _, _, _, hmu7, _⟩ :=
        toplevel_field_gen env hp F (D + 1 + 1) w v.spec f r v.segs v.cst v.vol v.ops v.x v.semi v.d1 b1 b0 bmid bx b' blk rest hst hk acc hacc hmu
          (by rw [hnf]; simp) hspec hfr hfirst h1 h5 hops hopsv h8 ha h10 hx hxv hy.single_inv hs hF
      exact ⟨w7, _, ev, hi7, hsig7, hst7, hev7, ⟨dox, hk7, hid7, hpar7⟩, hmu7⟩)

/-- `S ptr-ops f(P₁, …, Pₙ);` at namespace scope, `S` any type specifier, n ≥ 1 parameters of the plain form -/
def Item.functionGen (spec : List Tok) (segs : List PQSeg) (cst vol : Bool) (ops : List Tok) (x op : Tok) (ps : List (PItem × DType × Tok))
    (last : PItem × DType) (cp semi : Tok) (d1 : DType) : Item env F (core F (D + 1 + 1 + 1 + 1)) :=
  Item.ofToks env F (spec ++ (ops ++ (x :: op :: ((ps.flatMap (fun q => q.1.toks ++ [q.2.2]) ++ (last.1.toks ++ [cp])) ++ [semi]))))
    ((TypeSpecR env F (D + 1 + 1) spec segs cst vol ∧ (∃ f r, spec = f :: r ∧ specFirst f.type = true) ∧
      opsHeadOk ops = true ∧ (∀ o ∈ ops, o.value ≠ "auto") ∧
      applyPtrOps (.type (.mk segs none false) cst vol) (ops.map (·.type)) = some d1 ∧
      x.type = "NAME" ∧ identVal x.value = true ∧ ops.length + 2 ≤ F) ∧ op.type = "(" ∧
      (∀ q ∈ ps, q.1.OK q.2.1 ∧ q.2.2.type = "," ∧ q.2.2.value ≠ ")" ∧ q.1.pairs.length + q.1.ops.length + 2 ≤ F) ∧
      last.1.OK last.2 ∧ last.1.pairs.length + last.1.ops.length + 2 ≤ F ∧ cp.type = ")" ∧ cp.value = ")" ∧ ps.length + 1 ≤ F ∧
      semi.type = ";")
    (fun blk rest ev => ∃ d, ItemEvent blk rest ev (.function { plainFunction x d1 d with
        parameters := ps.map (fun q => q.1.param q.2.1) ++ [last.1.param last.2] }))
    (by
      intro w b' blk rest hst hk hmu ⟨⟨hspec, ⟨f, r, hfr, hfirst⟩, h4, h5, h6, h7, h8, h9⟩, ho, hps, hl, hlF, hc, hcv, hFp, hs⟩ hy
      rw [hfr] at hy
      obtain ⟨b1, t0, hy⟩ := Yields.cons_inv hy
      obtain ⟨b0, hy0, hy⟩ := hy.split
      obtain ⟨bmid, hy1, hy⟩ := hy.split
      obtain ⟨bx, t1, hy⟩ := hy.cons_inv
      obtain ⟨bo, t2, hy⟩ := hy.cons_inv
      obtain ⟨bc, hyp, hy⟩ := hy.split
      obtain ⟨d, bD, w7, ct, ev, _, hi7, hb, _, hst7, hev7, hk7, hid7, hpar7, _, _, hmu7, _⟩ :=
        toplevel_function_gen env hp F D w spec f r segs cst vol ops x op (ps.map (fun q => q.1.param q.2.1) ++ [last.1.param last.2]) semi d1
          b1 b0 bmid bx bo bc b' blk rest hst hk hmu (by rw [hnf]; simp) hspec hfr hfirst t0 hy0 h4 h5 hy1 h6 t1 h7 h8 t2 ho
          (fun W hW => parseParameters_plain env F D ps last cp W bc hps hl hlF hc hcv (by rw [hW]; exact hyp) hFp)
          hy.single_inv hs h9
      exact ⟨w7, _, ev, hi7, by rw [hb]; exact .refl _, hst7, hev7, ⟨d, hk7, hid7, hpar7⟩, hmu7⟩)

/-- `S prefix x ;` at namespace scope: any type specifier, any declarator prefix -/
def Item.variablePre (v : DeclToks) : Item env F (core F (D + 1 + 1 + 1 + 1)) :=
  Item.ofToks env F v.toks (v.OK env F (D + 1 + 1))
    (fun blk rest ev => ∃ dox, ItemEvent blk rest ev (.variable (plainVariable v.x v.d1 dox)))
    (by
      intro w b' blk rest hst hk hmu hok hy
      obtain ⟨hspec, ⟨f, r, hfr, hfirst⟩, hhead, hpre, hfn, hx, hxv, hs, hF⟩ := hok
      unfold DeclToks.toks at hy
      rw [hfr] at hy
      obtain ⟨b1, h1, hy⟩ := Yields.cons_inv hy
      obtain ⟨b0, h5, hy⟩ := hy.split
      obtain ⟨bmid, h8, hy⟩ := hy.split
      obtain ⟨bx, h10, hy⟩ := hy.cons_inv
      obtain ⟨d, bD, w7, ct, dox, ev, _, hi7, hsig7, _, hst7, hev7, hk7, hid7, hpar7, _, _, _, hmu7, _⟩ :=
        toplevel_variable_pre env hp F (D + 1 + 1) w v.spec f r v.segs v.cst v.vol (tvs v.ops) v.ops v.x v.semi v.d1 b1 b0 bmid bx b' blk rest hst hk hmu
          (by rw [hnf]; simp) hspec hfr hfirst h1 h5 hhead h8 hpre hfn rfl h10 hx hxv hy.single_inv hs hF
      exact ⟨w7, _, ev, hi7, hsig7, hst7, hev7, ⟨dox, hk7, hid7, hpar7⟩, hmu7⟩)

/-- `S prefix x ;` in a class body: any type specifier, any declarator prefix -/
def Member.fieldPre (v : DeclToks) : Member env F (core F (D + 1 + 1 + 1 + 1)) :=
  Member.single (fun b b' => v.OK env F (D + 1 + 1) ∧ Yields env.cfg b v.toks b')
    (fun blk rest acc ev => ∃ dox, ItemEvent blk rest ev (.classField (plainField v.x v.d1 acc dox)))
    (by
      intro b b' k ⟨hok, hy⟩ hs
      obtain ⟨k', hy', hs'⟩ := hy.sigEq hs
      exact ⟨k', ⟨hok, hy'⟩, hs'⟩)
    (by
      intro w b' blk rest acc hst hk hacc hmu ⟨hok, hy⟩
      obtain ⟨hspec, ⟨f, r, hfr, hfirst⟩, hhead, hpre, hfn, hx, hxv, hs, hF⟩ := hok
      unfold DeclToks.toks at hy
      rw [hfr] at hy
      obtain ⟨b1, h1, hy⟩ := Yields.cons_inv hy
      obtain ⟨b0, h5, hy⟩ := hy.split
      obtain ⟨bmid, h8, hy⟩ := hy.split
      obtain ⟨bx, h10, hy⟩ := hy.cons_inv
      obtain ⟨d, bD, w7, ct, dox, ev, _, hi7, hsig7, _, hst7, hev7, hk7, hid7, hpar7, _, _, _, hmu7, _⟩ :=
        toplevel_field_pre env hp F (D + 1 + 1) w v.spec f r v.segs v.cst v.vol (tvs v.ops) v.ops v.x v.semi v.d1 b1 b0 bmid bx b' blk rest hst hk acc hacc hmu
          (by rw [hnf]; simp) hspec hfr hfirst h1 h5 hhead h8 hpre hfn rfl h10 hx hxv hy.single_inv hs hF
      exact ⟨w7, _, ev, hi7, hsig7, hst7, hev7, ⟨dox, hk7, hid7, hpar7⟩, hmu7⟩)

/-- `S ptr-ops f(P₁, …, Pₙ) quals ;` in a class body, `S` any type specifier -/
def Member.methodGen (spec : List Tok) (segs : List PQSeg) (cst vol : Bool) (ops : List Tok) (x op : Tok) (ps : List (PItem × DType × Tok))
    (last : PItem × DType) (cp : Tok) (quals : List Tok) (semi : Tok) (d1 : DType) : Member env F (core F (D + 1 + 1 + 1 + 1)) where
  At := fun b b' =>
    ((TypeSpecR env F (D + 1 + 1) spec segs cst vol ∧ (∃ f r, spec = f :: r ∧ specFirst f.type = true) ∧
      opsHeadOk ops = true ∧ (∀ o ∈ ops, o.value ≠ "auto") ∧
      applyPtrOps (.type (.mk segs none false) cst vol) (ops.map (·.type)) = some d1 ∧
      x.type = "NAME" ∧ identVal x.value = true ∧ ops.length + 2 ≤ F) ∧ op.type = "(" ∧
      (∀ q ∈ ps, q.1.OK q.2.1 ∧ q.2.2.type = "," ∧ q.2.2.value ≠ ")" ∧ q.1.pairs.length + q.1.ops.length + 2 ≤ F) ∧
      last.1.OK last.2 ∧ last.1.pairs.length + last.1.ops.length + 2 ≤ F ∧ cp.type = ")" ∧ cp.value = ")" ∧ ps.length + 1 ≤ F ∧
      semi.type = ";" ∧ semi.value = ";" ∧ quals.length + 1 ≤ F ∧
      (∀ d acc, ∃ m', applyQuals { plainFunction x d1 d with parameters := ps.map (fun q => q.1.param q.2.1) ++ [last.1.param last.2], isMethod := true, access := some acc } (quals.map (·.value)) = some m')) ∧
    Yields env.cfg b (spec ++ (ops ++ (x :: op ::
      ((ps.flatMap (fun q => q.1.toks ++ [q.2.2]) ++ (last.1.toks ++ [cp])) ++ (quals ++ [semi]))))) b'
  Ev := fun blk rest acc evs => ∃ ev d m',
    applyQuals { plainFunction x d1 d with parameters := ps.map (fun q => q.1.param q.2.1) ++ [last.1.param last.2], isMethod := true, access := some acc } (quals.map (·.value)) = some m' ∧
    evs = [ev] ∧ ItemEvent blk rest ev (.classMethod m')
  accOut := id
  size := 1
  at_sigEq := by
    intro b b' k ⟨hok, hy⟩ hs
    obtain ⟨k', hy', hs'⟩ := hy.sigEq hs
    exact ⟨k', ⟨hok, hy'⟩, hs'⟩
  sound := by
    intro w b' blk rest acc hst hk hacc hmu ⟨⟨⟨hspec, ⟨f, r, hfr, hfirst⟩, h4, h5, h6, h7, h8, h9⟩, ho, hps, hl, hlF, hc, hcv, hFp, hs, hsv, hFq, hq⟩, hy⟩
    rw [hfr] at hy
    obtain ⟨b1, t0, hy⟩ := Yields.cons_inv hy
    obtain ⟨b0, hy0, hy⟩ := hy.split
    obtain ⟨bmid, hy1, hy⟩ := hy.split
    obtain ⟨bx, t1, hy⟩ := hy.cons_inv
    obtain ⟨bo, t2, hy⟩ := hy.cons_inv
    obtain ⟨bc, hyp, hy⟩ := hy.split
    obtain ⟨bq, hyq, hy⟩ := hy.split
    obtain ⟨d, bD, hd⟩ := getDoxygen_ok env.cfg hp env.mcRe w.buf (some f) b1 t0
    obtain ⟨m', hm'⟩ := hq d acc
    obtain ⟨w7, ct, ev, hi7, hb, _, hst7, hev7, hk7, hid7, hpar7, _, _, hmu7, _⟩ :=
      toplevel_method_gen env hp F D w spec f r segs cst vol ops x op (ps.map (fun q => q.1.param q.2.1) ++ [last.1.param last.2]) semi quals m' d1
        b1 b0 bmid bx bo bc bq b' blk rest hst hk hmu (by rw [hnf]; simp) hspec hfr hfirst t0 hy0 h4 h5 hy1 h6 t1 h7 h8 t2 ho
        (fun W hW => parseParameters_plain env F D ps last cp W bc hps hl hlF hc hcv (by rw [hW]; exact hyp) hFp)
        hyq hy.single_inv hs hsv hFq h9 d bD hd (by rw [hacc]; exact hm')
    exact ⟨w7, [ev], ⟨⟨[w7], .one hi7, rfl⟩, by rw [hb]; exact .refl _, ⟨_, hst7, ⟨rfl, rfl, rfl, rfl⟩, hacc⟩, hev7, hmu7⟩,
      ev, d, m', hm', rfl, hk7, hid7, hpar7⟩

/-- `S ptr-ops f(P₁, …, Pₙ) quals ;` in a class body: any return-type specifier, every parameter `Sᵢ prefixᵢ nameᵢ` over any
    type specifier and declarator prefix, any qualifier sequence -/
def Member.methodFull (spec : List Tok) (segs : List PQSeg) (cst vol : Bool) (ops : List Tok) (x op : Tok) (ps : List (PItemG × Tok))
    (last : PItemG) (cp : Tok) (quals : List Tok) (semi : Tok) (d1 : DType) : Member env F (core F (D + 1 + 1 + 1 + 1)) where
  At := fun b b' =>
    ((TypeSpecR env F (D + 1 + 1) spec segs cst vol ∧ (∃ f r, spec = f :: r ∧ specFirst f.type = true) ∧
      opsHeadOk ops = true ∧ (∀ o ∈ ops, o.value ≠ "auto") ∧
      applyPtrOps (.type (.mk segs none false) cst vol) (ops.map (·.type)) = some d1 ∧
      x.type = "NAME" ∧ identVal x.value = true ∧ ops.length + 2 ≤ F) ∧ op.type = "(" ∧
      (∀ q ∈ ps, q.1.OK env F D ∧ q.2.type = "," ∧ q.2.value ≠ ")") ∧
      last.OK env F D ∧ cp.type = ")" ∧ cp.value = ")" ∧ ps.length + 1 ≤ F ∧
      semi.type = ";" ∧ semi.value = ";" ∧ quals.length + 1 ≤ F ∧
      (∀ d acc, ∃ m', applyQuals { plainFunction x d1 d with parameters := ps.map (fun q => q.1.param) ++ [last.param], isMethod := true, access := some acc } (quals.map (·.value)) = some m')) ∧
    Yields env.cfg b (spec ++ (ops ++ (x :: op ::
      (plistToks ps last cp ++ (quals ++ [semi]))))) b'
  Ev := fun blk rest acc evs => ∃ ev d m',
    applyQuals { plainFunction x d1 d with parameters := ps.map (fun q => q.1.param) ++ [last.param], isMethod := true, access := some acc } (quals.map (·.value)) = some m' ∧
    evs = [ev] ∧ ItemEvent blk rest ev (.classMethod m')
  accOut := id
  size := 1
  at_sigEq := by
    intro b b' k ⟨hok, hy⟩ hs
    obtain ⟨k', hy', hs'⟩ := hy.sigEq hs
    exact ⟨k', ⟨hok, hy'⟩, hs'⟩
  sound := by
    intro w b' blk rest acc hst hk hacc hmu ⟨⟨⟨hspec, ⟨f, r, hfr, hfirst⟩, h4, h5, h6, h7, h8, h9⟩, ho, hps, hl, hc, hcv, hFp, hs, hsv, hFq, hq⟩, hy⟩
    rw [hfr] at hy
    obtain ⟨b1, t0, hy⟩ := Yields.cons_inv hy
    obtain ⟨b0, hy0, hy⟩ := hy.split
    obtain ⟨bmid, hy1, hy⟩ := hy.split
    obtain ⟨bx, t1, hy⟩ := hy.cons_inv
    obtain ⟨bo, t2, hy⟩ := hy.cons_inv
    obtain ⟨bc, hyp, hy⟩ := hy.split
    obtain ⟨bq, hyq, hy⟩ := hy.split
    obtain ⟨d, bD, hd⟩ := getDoxygen_ok env.cfg hp env.mcRe w.buf (some f) b1 t0
    obtain ⟨m', hm'⟩ := hq d acc
    obtain ⟨w7, ct, ev, hi7, hb, _, hst7, hev7, hk7, hid7, hpar7, _, _, hmu7, _⟩ :=
      toplevel_method_gen env hp F D w spec f r segs cst vol ops x op (ps.map (fun q => q.1.param) ++ [last.param]) semi quals m' d1
        b1 b0 bmid bx bo bc bq b' blk rest hst hk hmu (by rw [hnf]; simp) hspec hfr hfirst t0 hy0 h4 h5 hy1 h6 t1 h7 h8 t2 ho
        (fun W hW => parseParameters_gen env F D ps last cp W bc hps hl hc hcv (by rw [hW]; exact hyp) hFp)
        hyq hy.single_inv hs hsv hFq h9 d bD hd (by rw [hacc]; exact hm')
    exact ⟨w7, [ev], ⟨⟨[w7], .one hi7, rfl⟩, by rw [hb]; exact .refl _, ⟨_, hst7, ⟨rfl, rfl, rfl, rfl⟩, hacc⟩, hev7, hmu7⟩,
      ev, d, m', hm', rfl, hk7, hid7, hpar7⟩

/-- a member function DEFINITION `S ptr-ops f(P₁, …, Pₙ) quals { body }` in a class body: ANY bracket-balanced body, skipped exactly -/
def Member.methodDef (spec : List Tok) (segs : List PQSeg) (cst vol : Bool) (ops : List Tok) (x op : Tok) (ps : List (PItemG × Tok))
    (last : PItemG) (cp : Tok) (quals : List Tok) (ob : Tok) (content : List Tok) (cb : Tok) (d1 : DType) : Member env (F + 1) (core (F + 1) (D + 1 + 1 + 1 + 1)) where
  At := fun b b' =>
    ((TypeSpecR env (F + 1) (D + 1 + 1) spec segs cst vol ∧ (∃ f r, spec = f :: r ∧ specFirst f.type = true) ∧
      opsHeadOk ops = true ∧ (∀ o ∈ ops, o.value ≠ "auto") ∧
      applyPtrOps (.type (.mk segs none false) cst vol) (ops.map (·.type)) = some d1 ∧
      x.type = "NAME" ∧ identVal x.value = true ∧ ops.length + 2 ≤ F + 1) ∧ op.type = "(" ∧
      (∀ q ∈ ps, q.1.OK env (F + 1) D ∧ q.2.type = "," ∧ q.2.value ≠ ")") ∧
      last.OK env (F + 1) D ∧ cp.type = ")" ∧ cp.value = ")" ∧ ps.length + 1 ≤ F + 1 ∧
      ob.value = "{" ∧ Balanced "{" "}" content ∧ cb.type = "}" ∧ quals.length + content.length + 2 ≤ F ∧
      (∀ d acc, ∃ m', applyQuals { plainFunction x d1 d with parameters := ps.map (fun q => q.1.param) ++ [last.param], isMethod := true, access := some acc } (quals.map (·.value)) = some m')) ∧
    Yields env.cfg b (spec ++ (ops ++ (x :: op ::
      (plistToks ps last cp ++ (quals ++ (ob :: (content ++ [cb]))))))) b'
  Ev := fun blk rest acc evs => ∃ ev d m',
    applyQuals { plainFunction x d1 d with parameters := ps.map (fun q => q.1.param) ++ [last.param], isMethod := true, access := some acc } (quals.map (·.value)) = some m' ∧
    evs = [ev] ∧ ItemEvent blk rest ev (.classMethod { m' with hasBody := true })
  accOut := id
  size := 1
  at_sigEq := by
    intro b b' k ⟨hok, hy⟩ hs
    obtain ⟨k', hy', hs'⟩ := hy.sigEq hs
    exact ⟨k', ⟨hok, hy'⟩, hs'⟩
  sound := by
    intro w b' blk rest acc hst hk hacc hmu ⟨⟨⟨hspec, ⟨f, r, hfr, hfirst⟩, h4, h5, h6, h7, h8, h9⟩, ho, hps, hl, hc, hcv, hFp, hob, hbal, hcb, hFq, hq⟩, hy⟩
    rw [hfr] at hy
    obtain ⟨b1, t0, hy⟩ := Yields.cons_inv hy
    obtain ⟨b0, hy0, hy⟩ := hy.split
    obtain ⟨bmid, hy1, hy⟩ := hy.split
    obtain ⟨bx, t1, hy⟩ := hy.cons_inv
    obtain ⟨bo, t2, hy⟩ := hy.cons_inv
    obtain ⟨bc, hyp, hy⟩ := hy.split
    obtain ⟨bq, hyq, hy⟩ := hy.split
    obtain ⟨bb, t3, hy⟩ := hy.cons_inv
    obtain ⟨d, bD, hd⟩ := getDoxygen_ok env.cfg hp env.mcRe w.buf (some f) b1 t0
    obtain ⟨m', hm'⟩ := hq d acc
    obtain ⟨w7, ct, ev, hi7, hb, _, hst7, hev7, hk7, hid7, hpar7, _, _, hmu7, _⟩ :=
      toplevel_method_body_gen env hp F D w spec f r segs cst vol ops x op (ps.map (fun q => q.1.param) ++ [last.param]) ob content cb quals m' d1
        b1 b0 bmid bx bo bc bq bb b' blk rest hst hk hmu (by rw [hnf]; simp) hspec hfr hfirst t0 hy0 h4 h5 hy1 h6 t1 h7 h8 t2 ho
        (fun W hW => parseParameters_gen env (F + 1) D ps last cp W bc hps hl hc hcv (by rw [hW]; exact hyp) hFp)
        hyq t3 hob hbal hcb hy hFq h9 d bD hd (by rw [hacc]; exact hm')
    exact ⟨w7, [ev], ⟨⟨[w7], .one hi7, rfl⟩, by rw [hb]; exact .refl _, ⟨_, hst7, ⟨rfl, rfl, rfl, rfl⟩, hacc⟩, hev7, hmu7⟩,
      ev, d, m', hm', rfl, hk7, hid7, hpar7⟩

/-- `S ptr-ops f(P₁, …, Pₙ);` at namespace scope: ANY return-type specifier, and n ≥ 1 parameters each of the form
    `Sᵢ prefixᵢ nameᵢ` over ANY type specifier and ANY declarator prefix -/
def Item.functionFull (spec : List Tok) (segs : List PQSeg) (cst vol : Bool) (ops : List Tok) (x op : Tok) (ps : List (PItemG × Tok))
    (last : PItemG) (cp semi : Tok) (d1 : DType) : Item env F (core F (D + 1 + 1 + 1 + 1)) :=
  Item.ofToks env F (spec ++ (ops ++ (x :: op :: (plistToks ps last cp ++ [semi]))))
    ((TypeSpecR env F (D + 1 + 1) spec segs cst vol ∧ (∃ f r, spec = f :: r ∧ specFirst f.type = true) ∧
      opsHeadOk ops = true ∧ (∀ o ∈ ops, o.value ≠ "auto") ∧
      applyPtrOps (.type (.mk segs none false) cst vol) (ops.map (·.type)) = some d1 ∧
      x.type = "NAME" ∧ identVal x.value = true ∧ ops.length + 2 ≤ F) ∧ op.type = "(" ∧
      (∀ q ∈ ps, q.1.OK env F D ∧ q.2.type = "," ∧ q.2.value ≠ ")") ∧
      last.OK env F D ∧ cp.type = ")" ∧ cp.value = ")" ∧ ps.length + 1 ≤ F ∧ semi.type = ";")
    (fun blk rest ev => ∃ d, ItemEvent blk rest ev (.function { plainFunction x d1 d with
        parameters := ps.map (fun q => q.1.param) ++ [last.param] }))
    (by
      intro w b' blk rest hst hk hmu ⟨⟨hspec, ⟨f, r, hfr, hfirst⟩, h4, h5, h6, h7, h8, h9⟩, ho, hps, hl, hc, hcv, hFp, hs⟩ hy
      rw [hfr] at hy
      obtain ⟨b1, t0, hy⟩ := Yields.cons_inv hy
      obtain ⟨b0, hy0, hy⟩ := hy.split
      obtain ⟨bmid, hy1, hy⟩ := hy.split
      obtain ⟨bx, t1, hy⟩ := hy.cons_inv
      obtain ⟨bo, t2, hy⟩ := hy.cons_inv
      obtain ⟨bc, hyp, hy⟩ := hy.split
      obtain ⟨d, bD, w7, ct, ev, _, hi7, hb, _, hst7, hev7, hk7, hid7, hpar7, _, _, hmu7, _⟩ :=
        toplevel_function_gen env hp F D w spec f r segs cst vol ops x op (ps.map (fun q => q.1.param) ++ [last.param]) semi d1
          b1 b0 bmid bx bo bc b' blk rest hst hk hmu (by rw [hnf]; simp) hspec hfr hfirst t0 hy0 h4 h5 hy1 h6 t1 h7 h8 t2 ho
          (fun W hW => parseParameters_gen env F D ps last cp W bc hps hl hc hcv (by rw [hW]; exact hyp) hFp)
          hy.single_inv hs h9
      exact ⟨w7, _, ev, hi7, by rw [hb]; exact .refl _, hst7, hev7, ⟨d, hk7, hid7, hpar7⟩, hmu7⟩)

/-- `S prefix x [ size ] ;` at namespace scope (the loop bound is `F + 1`: the size is collected by a loop of its own) -/
def Item.arrayVar (v : ArrDeclToks) : Item env (F + 1) (core (F + 1) (D + 1 + 1 + 1 + 1)) :=
  Item.ofToks env (F + 1) v.toks (v.OK env F (D + 1 + 1))
    (fun blk rest ev => ∃ dox, ItemEvent blk rest ev (.variable (plainVariable v.d.x v.ty dox)))
    (by
      intro w b' blk rest hst hk hmu hok hy
      obtain ⟨hspec, ⟨f, r, hfr, hfirst⟩, hhead, hpre, hfn, hnr, hx, hxv, hob, hn, hcb, hs, hF⟩ := hok
      unfold ArrDeclToks.toks at hy
      rw [hfr] at hy
      obtain ⟨b1, h1, hy⟩ := Yields.cons_inv hy
      obtain ⟨b0, h5, hy⟩ := hy.split
      obtain ⟨bmid, h8, hy⟩ := hy.split
      obtain ⟨bx, h10, hy⟩ := hy.cons_inv
      obtain ⟨bo, h11, hy⟩ := hy.cons_inv
      have hy' : Yields env.cfg bo ((v.content ++ [v.cb]) ++ [v.d.semi]) b' := by simpa [List.append_assoc] using hy
      obtain ⟨bc, hyc, hy⟩ := hy'.split
      obtain ⟨d, bD, w7, ct, dox, ev, _, hi7, hsig7, _, hst7, hev7, hk7, hid7, hpar7, _, _, _, hmu7, _⟩ :=
        toplevel_variable_array_pre env hp F (D + 1 + 1) w v.d.spec f r v.d.segs v.d.cst v.d.vol (tvs v.d.ops) v.d.ops v.d.x v.ob v.content v.cb v.d.semi v.d.d1
          b1 b0 bmid bx bo bc b' blk rest hst hk hmu (by rw [hnf]; simp) hspec hfr hfirst h1 h5 hhead h8 hpre hfn hnr rfl h10 hx hxv
          h11 hob hn hcb hyc hy.single_inv hs hF
      exact ⟨w7, _, ev, hi7, hsig7, hst7, hev7, ⟨dox, hk7, hid7, hpar7⟩, hmu7⟩)

/-- `S prefix x [ size ] ;` in a class body -/
def Member.arrayField (v : ArrDeclToks) : Member env (F + 1) (core (F + 1) (D + 1 + 1 + 1 + 1)) :=
  Member.single (fun b b' => v.OK env F (D + 1 + 1) ∧ Yields env.cfg b v.toks b')
    (fun blk rest acc ev => ∃ dox, ItemEvent blk rest ev (.classField (plainField v.d.x v.ty acc dox)))
    (by
      intro b b' k ⟨hok, hy⟩ hs
      obtain ⟨k', hy', hs'⟩ := hy.sigEq hs
      exact ⟨k', ⟨hok, hy'⟩, hs'⟩)
    (by
      intro w b' blk rest acc hst hk hacc hmu ⟨hok, hy⟩
      obtain ⟨hspec, ⟨f, r, hfr, hfirst⟩, hhead, hpre, hfn, hnr, hx, hxv, hob, hn, hcb, hs, hF⟩ := hok
      unfold ArrDeclToks.toks at hy
      rw [hfr] at hy
      obtain ⟨b1, h1, hy⟩ := Yields.cons_inv hy
      obtain ⟨b0, h5, hy⟩ := hy.split
      obtain ⟨bmid, h8, hy⟩ := hy.split
      obtain ⟨bx, h10, hy⟩ := hy.cons_inv
      obtain ⟨bo, h11, hy⟩ := hy.cons_inv
      have hy' : Yields env.cfg bo ((v.content ++ [v.cb]) ++ [v.d.semi]) b' := by simpa [List.append_assoc] using hy
      obtain ⟨bc, hyc, hy⟩ := hy'.split
      obtain ⟨d, bD, w7, ct, dox, ev, _, hi7, hsig7, _, hst7, hev7, hk7, hid7, hpar7, _, _, _, hmu7, _⟩ :=
        toplevel_field_array_pre env hp F (D + 1 + 1) w v.d.spec f r v.d.segs v.d.cst v.d.vol (tvs v.d.ops) v.d.ops v.d.x v.ob v.content v.cb v.d.semi v.d.d1
          b1 b0 bmid bx bo bc b' blk rest hst hk acc hacc hmu (by rw [hnf]; simp) hspec hfr hfirst h1 h5 hhead h8 hpre hfn hnr rfl h10 hx hxv
          h11 hob hn hcb hyc hy.single_inv hs hF
      exact ⟨w7, _, ev, hi7, hsig7, hst7, hev7, ⟨dox, hk7, hid7, hpar7⟩, hmu7⟩)

/-- `typedef S prefix x ;` at namespace scope: any type specifier, any declarator prefix -/
def Item.typedefPre (kw : Tok) (v : DeclToks) : Item env F (core F (D + 1 + 1 + 1 + 1)) :=
  Item.ofToks env F (kw :: v.toks) (kw.type = "typedef" ∧ v.x.value ≠ "" ∧ v.OK env F (D + 1 + 1))
    (fun blk rest ev => ItemEvent blk rest ev (.typedef (plainTypedef v.x v.d1 blk)))
    (by
      intro w b' blk rest hst hk hmu ⟨hkw, hxne, hok⟩ hy
      obtain ⟨hspec, ⟨f, r, hfr, _⟩, hhead, hpre, hfn, hx, hxv, hs, hF⟩ := hok
      obtain ⟨bk, h0, hy⟩ := hy.cons_inv
      unfold DeclToks.toks at hy
      rw [hfr] at hy
      obtain ⟨b1, h1, hy⟩ := Yields.cons_inv hy
      obtain ⟨b0, h5, hy⟩ := hy.split
      obtain ⟨bmid, h8, hy⟩ := hy.split
      obtain ⟨bx, h10, hy⟩ := hy.cons_inv
      obtain ⟨w7, ct, ev, hi7, hsig7, _, hst7, hev7, hk7, hid7, hpar7, _, _, hmu7, _⟩ :=
        toplevel_typedef_pre env hp F (D + 1 + 1) w kw v.spec f r v.segs v.cst v.vol (tvs v.ops) v.ops v.x v.semi v.d1 bk b1 b0 bmid bx b' blk rest hst hxne hmu
          (by rw [hnf]; simp) h0 hkw h1 hspec hfr h5 hhead h8 hpre hfn rfl h10 hx hxv hy.single_inv hs hF
      exact ⟨w7, _, ev, hi7, hsig7, hst7, hev7, ⟨hk7, hid7, hpar7⟩, hmu7⟩)

/-- `typedef S prefix x ;` in a class body -/
def Member.typedefPre (kw : Tok) (v : DeclToks) : Member env F (core F (D + 1 + 1 + 1 + 1)) :=
  Member.single (fun b b' => (kw.type = "typedef" ∧ v.x.value ≠ "" ∧ v.OK env F (D + 1 + 1)) ∧ Yields env.cfg b (kw :: v.toks) b')
    (fun blk rest _ ev => ItemEvent blk rest ev (.typedef (plainTypedef v.x v.d1 blk)))
    (by
      intro b b' k ⟨hok, hy⟩ hs
      obtain ⟨k', hy', hs'⟩ := hy.sigEq hs
      exact ⟨k', ⟨hok, hy'⟩, hs'⟩)
    (by
      intro w b' blk rest acc hst hk hacc hmu ⟨⟨hkw, hxne, hok⟩, hy⟩
      obtain ⟨hspec, ⟨f, r, hfr, _⟩, hhead, hpre, hfn, hx, hxv, hs, hF⟩ := hok
      obtain ⟨bk, h0, hy⟩ := hy.cons_inv
      unfold DeclToks.toks at hy
      rw [hfr] at hy
      obtain ⟨b1, h1, hy⟩ := Yields.cons_inv hy
      obtain ⟨b0, h5, hy⟩ := hy.split
      obtain ⟨bmid, h8, hy⟩ := hy.split
      obtain ⟨bx, h10, hy⟩ := hy.cons_inv
      obtain ⟨w7, ct, ev, hi7, hsig7, _, hst7, hev7, hk7, hid7, hpar7, _, _, hmu7, _⟩ :=
        toplevel_typedef_pre env hp F (D + 1 + 1) w kw v.spec f r v.segs v.cst v.vol (tvs v.ops) v.ops v.x v.semi v.d1 bk b1 b0 bmid bx b' blk rest hst hxne hmu
          (by rw [hnf]; simp) h0 hkw h1 hspec hfr h5 hhead h8 hpre hfn rfl h10 hx hxv hy.single_inv hs hF
      exact ⟨w7, _, ev, hi7, hsig7, hst7, hev7, ⟨hk7, hid7, hpar7⟩, hmu7⟩)

/-- `using A = S prefix ;` at namespace scope: any type specifier (a type-id may end at `;`: `TypeSpecS`), any abstract
    declarator prefix -/
def Item.aliasPre (kw a eq : Tok) (spec : List Tok) (segs : List PQSeg) (cst vol : Bool) (ops : List Tok) (semi : Tok) (d1 : DType) :
    Item env F (core F (D + 1 + 1 + 1 + 1)) :=
  Item.ofToks env F (kw :: a :: eq :: (spec ++ (ops ++ [semi])))
    (kw.type = "using" ∧ a.type = "NAME" ∧ eq.type = "=" ∧ TypeSpecS env F (D + 1 + 1) spec segs cst vol ∧ (∃ f r, spec = f :: r) ∧
      (∀ p ∈ (tvs ops).head?, declStart p.1 = true) ∧
      PrefixSpec env F (D + 1 + 1 + 1) (.type (.mk segs none false) cst vol) (tvs ops) d1 ∧ isFnType d1 = false ∧ semi.type = ";" ∧ 2 ≤ F)
    (fun blk rest ev => ∃ d, ItemEvent blk rest ev (.usingAlias (plainAlias a d1 blk d)))
    (by
      intro w b' blk rest hst hk hmu ⟨h1, h2, h3, hspec, ⟨f, r, hfr⟩, hhead, hpre, hfn, h9, h10⟩ hy
      obtain ⟨bk, t0, hy⟩ := hy.cons_inv
      obtain ⟨ba, t1, hy⟩ := hy.cons_inv
      obtain ⟨bq, t2, hy⟩ := hy.cons_inv
      rw [hfr] at hy
      obtain ⟨b1, t3, hy⟩ := Yields.cons_inv hy
      obtain ⟨b0, hy0, hy⟩ := hy.split
      obtain ⟨bmid, hy1, hy⟩ := hy.split
      obtain ⟨d, bD, w7, ct, ev, _, hi7, hb, _, hst7, hev7, hk7, hid7, hpar7, _, _, hmu7, _⟩ :=
        toplevel_using_alias_pre env hp F (D + 1 + 1) w kw a eq spec f r segs cst vol (tvs ops) ops semi d1 bk ba bq b1 b0 bmid b' blk rest hst hmu
          (by rw [hnf]; simp) t0 h1 t1 h2 t2 h3 t3 hspec hfr hy0 hhead hy1 hpre hfn rfl hy.single_inv h9 h10
      exact ⟨w7, _, ev, hi7, by rw [hb]; exact .refl _, hst7, hev7, ⟨d, hk7, hid7, hpar7⟩, hmu7⟩)

/-- `S prefix x : width ;` in a class body: a bit-field member over any type specifier and declarator prefix -/
def Member.bitFieldPre (v : DeclToks) (colon num : Tok) : Member env F (core F (D + 1 + 1 + 1 + 1)) :=
  Member.single (fun b b' => (v.OK env F (D + 1 + 1) ∧ colon.type = ":" ∧ num.type = "INT_CONST_DEC" ∧ allDigits num.value = true) ∧
      Yields env.cfg b (v.spec ++ (v.ops ++ [v.x, colon, num, v.semi])) b')
    (fun blk rest acc ev => ∃ dox, ItemEvent blk rest ev (.classField { plainField v.x v.d1 acc dox with bits := some num.value.toNat! }))
    (by
      intro b b' k ⟨hok, hy⟩ hs
      obtain ⟨k', hy', hs'⟩ := hy.sigEq hs
      exact ⟨k', ⟨hok, hy'⟩, hs'⟩)
    (by
      intro w b' blk rest acc hst hk hacc hmu ⟨⟨hok, hc, hn, hdig⟩, hy⟩
      obtain ⟨hspec, ⟨f, r, hfr, hfirst⟩, hhead, hpre, hfn, hx, hxv, hs, hF⟩ := hok
      rw [hfr] at hy
      obtain ⟨b1, h1, hy⟩ := Yields.cons_inv hy
      obtain ⟨b0, h5, hy⟩ := hy.split
      obtain ⟨bmid, h8, hy⟩ := hy.split
      obtain ⟨bx, h10, hy⟩ := hy.cons_inv
      obtain ⟨bc, h11, hy⟩ := hy.cons_inv
      obtain ⟨bn, h12, hy⟩ := hy.cons_inv
      obtain ⟨d, bD, w7, ct, dox, ev, _, hi7, hsig7, _, hst7, hev7, hk7, hid7, hpar7, _, _, _, hmu7, _⟩ :=
        toplevel_field_bits_pre env hp F (D + 1 + 1) w v.spec f r v.segs v.cst v.vol (tvs v.ops) v.ops v.x colon num v.semi v.d1 b1 b0 bmid bx bc bn b' blk rest hst hk acc hacc hmu
          (by rw [hnf]; simp) hspec hfr hfirst h1 h5 hhead h8 hpre hfn rfl h10 hx hxv h11 hc h12 hn hdig hy.single_inv hs hF
      exact ⟨w7, _, ev, hi7, hsig7, hst7, hev7, ⟨dox, hk7, hid7, hpar7⟩, hmu7⟩)

/-- `S prefix x = value ;` at namespace scope (loop bound `G + 1`: the value is collected by a loop of its own): the value is
    EXACTLY the written tokens -/
def Item.variableInitPre (G : Nat) (v : DeclToks) (eq : Tok) (vals : List Tok) : Item env (G + 1) (core (G + 1) (D + 1 + 1 + 1 + 1)) :=
  Item.ofToks env (G + 1) (v.spec ++ (v.ops ++ (v.x :: eq :: (vals ++ [v.semi]))))
    (v.OK env (G + 1) (D + 1 + 1) ∧ eq.type = "=" ∧ TopLevel [",", ";"] (vals.map (·.type)) ∧ vals.length + 1 ≤ G)
    (fun blk rest ev => ∃ dox, ItemEvent blk rest ev (.variable (initVariable v.x v.d1 vals dox)))
    (by
      intro w b' blk rest hst hk hmu ⟨hok, he, htl, hFv⟩ hy
      obtain ⟨hspec, ⟨f, r, hfr, hfirst⟩, hhead, hpre, hfn, hx, hxv, hs, _⟩ := hok
      rw [hfr] at hy
      obtain ⟨b1, h1, hy⟩ := Yields.cons_inv hy
      obtain ⟨b0, h5, hy⟩ := hy.split
      obtain ⟨bmid, h8, hy⟩ := hy.split
      obtain ⟨bx, h10, hy⟩ := hy.cons_inv
      obtain ⟨bq, h11, hy⟩ := hy.cons_inv
      obtain ⟨bv, hyv, hy⟩ := hy.split
      obtain ⟨d, bD, w7, ct, dox, ev, _, hi7, hsig, _, hst7, hev7, hk7, hid7, hpar7, _, _, _, hmu7, _⟩ :=
        toplevel_variable_init_pre env hp G (D + 1 + 1) w v.spec f r v.segs v.cst v.vol (tvs v.ops) v.ops v.x eq vals v.semi v.d1 b1 b0 bmid bx bq bv b' blk rest hst hk hmu
          (by rw [hnf]; simp) hspec hfr hfirst h1 h5 hhead h8 hpre hfn rfl h10 hx hxv h11 he hyv htl hy.single_inv hs hFv
      exact ⟨w7, _, ev, hi7, hsig, hst7, hev7, ⟨dox, hk7, hid7, hpar7⟩, hmu7⟩)

/-- `S d1 , … , dn ;` at namespace scope: any type specifier, every declarator `prefixᵢ xᵢ` with its own prefix -/
def Item.variablesPre (spec : List Tok) (segs : List PQSeg) (cst vol : Bool) (ds : List (Dtor × DType)) (last : Dtor × DType) :
    Item env F (core F (D + 1 + 1 + 1 + 1)) where
  At := fun b b' =>
    (TypeSpecR env F (D + 1 + 1) spec segs cst vol ∧ (∃ f r, spec = f :: r ∧ specFirst f.type = true) ∧
      (∀ o ∈ (firstDtor ds last).ops.head?, declStart o.type = true ∧ o.value ≠ "auto") ∧
      (∀ p ∈ ds, p.1.OKp env F (D + 1 + 1 + 1) (.type (.mk segs none false) cst vol) p.2 ∧ p.1.sep.type = ",") ∧
      last.1.OKp env F (D + 1 + 1 + 1) (.type (.mk segs none false) cst vol) last.2 ∧
      last.1.sep.type = ";" ∧ 2 ≤ F ∧ ds.length + 1 ≤ F) ∧
    Yields env.cfg b (spec ++ (ds.flatMap (fun p => p.1.toks) ++ last.1.toks)) b'
  Ev := fun blk rest evs => ∃ doxs : List (Option String), doxs.length = ds.length + 1 ∧
    evs.map (·.kind) = varKinds (ds ++ [last]) doxs ∧ (∀ e ∈ evs, e.stateId = blk.id ∧ e.parentId = rest.head?.map (·.id))
  size := 1
  at_sigEq := by
    intro b b' k ⟨hok, hy⟩ hs
    obtain ⟨k', hy', hs'⟩ := hy.sigEq hs
    exact ⟨k', ⟨hok, hy'⟩, hs'⟩
  sound := by
    intro w b' blk rest hst hk hmu ⟨⟨hspec, ⟨f, r, hfr, hfirst⟩, hhead, hds, hlast, hsep, h10, h11⟩, hy⟩
    rw [hfr] at hy
    obtain ⟨b1, t0, hy⟩ := Yields.cons_inv hy
    obtain ⟨b0, hy0, hy⟩ := hy.split
    obtain ⟨d, bD, wF, evs, doxs, blkF, _, hi, hsig, hstF, _, _, hev, hdl, hkinds, hall, _, _, _, hmuF, _, l, hl⟩ :=
      toplevel_variables_pre env hp hnf F (D + 1 + 1) w spec f r segs cst vol ds last b1 b0 b' blk rest hst hk hmu hspec hfr hfirst t0 hy0
        hhead hds hlast hsep hy h10 h11
    exact ⟨wF, evs, ⟨⟨[wF], .one hi, rfl⟩, hsig, ⟨blkF, hstF, by rw [hl]; exact Block.sameButLoc_setLoc blk l⟩, hev, hmuF⟩,
      doxs, hdl, hkinds, hall⟩

/-- a function DEFINITION `S ptr-ops f(P₁, …, Pₙ) { body }` at namespace scope: any return-type specifier, parameters over any
    type specifier and declarator prefix, ANY bracket-balanced body (skipped exactly; no `;` follows) -/
def Item.functionDef (spec : List Tok) (segs : List PQSeg) (cst vol : Bool) (ops : List Tok) (x op : Tok) (ps : List (PItemG × Tok))
    (last : PItemG) (cp ob : Tok) (content : List Tok) (cb : Tok) (d1 : DType) : Item env (F + 1) (core (F + 1) (D + 1 + 1 + 1 + 1)) :=
  Item.ofToks env (F + 1) (spec ++ (ops ++ (x :: op :: (plistToks ps last cp ++ (ob :: (content ++ [cb]))))))
    ((TypeSpecR env (F + 1) (D + 1 + 1) spec segs cst vol ∧ (∃ f r, spec = f :: r ∧ specFirst f.type = true) ∧
      opsHeadOk ops = true ∧ (∀ o ∈ ops, o.value ≠ "auto") ∧
      applyPtrOps (.type (.mk segs none false) cst vol) (ops.map (·.type)) = some d1 ∧
      x.type = "NAME" ∧ identVal x.value = true ∧ ops.length + 2 ≤ F + 1) ∧ op.type = "(" ∧
      (∀ q ∈ ps, q.1.OK env (F + 1) D ∧ q.2.type = "," ∧ q.2.value ≠ ")") ∧
      last.OK env (F + 1) D ∧ cp.type = ")" ∧ cp.value = ")" ∧ ps.length + 1 ≤ F + 1 ∧
      ob.type = "{" ∧ Balanced "{" "}" content ∧ cb.type = "}" ∧ content.length + 1 ≤ F)
    (fun blk rest ev => ∃ d, ItemEvent blk rest ev (.function { plainFunction x d1 d with
        parameters := ps.map (fun q => q.1.param) ++ [last.param], hasBody := true }))
    (by
      intro w b' blk rest hst hk hmu ⟨⟨hspec, ⟨f, r, hfr, hfirst⟩, h4, h5, h6, h7, h8, h9⟩, ho, hps, hl, hc, hcv, hFp, hob, hbal, hcb, hFb⟩ hy
      rw [hfr] at hy
      obtain ⟨b1, t0, hy⟩ := Yields.cons_inv hy
      obtain ⟨b0, hy0, hy⟩ := hy.split
      obtain ⟨bmid, hy1, hy⟩ := hy.split
      obtain ⟨bx, t1, hy⟩ := hy.cons_inv
      obtain ⟨bo, t2, hy⟩ := hy.cons_inv
      obtain ⟨bc, hyp, hy⟩ := hy.split
      obtain ⟨bb, t3, hy⟩ := hy.cons_inv
      obtain ⟨d, bD, w7, ct, ev, _, hi7, hb, _, hst7, hev7, hk7, hid7, hpar7, _, _, hmu7, _⟩ :=
        toplevel_function_body_gen env hp F D w spec f r segs cst vol ops x op (ps.map (fun q => q.1.param) ++ [last.param]) ob content cb d1
          b1 b0 bmid bx bo bc bb b' blk rest hst hk hmu (by rw [hnf]; simp) hspec hfr hfirst t0 hy0 h4 h5 hy1 h6 t1 h7 h8 t2 ho
          (fun W hW => parseParameters_gen env (F + 1) D ps last cp W bc hps hl hc hcv (by rw [hW]; exact hyp) hFp)
          t3 hob hbal hcb hy h9 hFb
      exact ⟨w7, _, ev, hi7, by rw [hb]; exact .refl _, hst7, hev7, ⟨d, hk7, hid7, hpar7⟩, hmu7⟩)

end kinds

end Cxx
