import CxxModel.Theorems.Members

/-!
# Fields, methods, access specifiers as `Member`s; `key N { members };` as an `Item`
-/

namespace Cxx
open P

theorem segs_getLast : ∀ (pairs : List (Tok × Tok)) (a : String),
    ∃ n, (PQSeg.name a none :: pairs.map (fun p => PQSeg.name p.2.value none)).getLast? = some (.name n none) := by
  intro pairs
  induction pairs with
  | nil => intro a; exact ⟨a, rfl⟩
  | cons p ps ih =>
    intro a
    obtain ⟨n, hn⟩ := ih p.2.value
    exact ⟨n, by simpa [List.getLast?_cons_cons] using hn⟩

section kinds
variable (env : Env) (hp : RulesProgress env.cfg = true) (hnf : env.faultAt = none) (F D : Nat)

/-- `T ptr-ops x ;` in a class body -/
def Member.field (v : VarDeclToks) : Member env F (core F (D + 1 + 1 + 1 + 1)) where
  At := fun b b' => v.OK F ∧ Yields env.cfg b v.toks b'
  Ev := fun blk rest acc evs => ∃ ev dox, evs = [ev] ∧ ItemEvent blk rest ev (.classField (plainField v.x v.d1 acc dox))
  accOut := id
  size := 1
  at_sigEq := by
    intro b b' k ⟨hok, hy⟩ hs
    obtain ⟨k', hy', hs'⟩ := hy.sigEq hs
    exact ⟨k', ⟨hok, hy'⟩, hs'⟩
  sound := by
    intro w b' blk rest acc hst hk hacc hmu ⟨hok, hy⟩
    obtain ⟨b1, b0, bmid, bx, h1, h2, h3, h4, h5, h6, h7, h8, h9, h10, h11, h12, h13, h14⟩ := VarDeclToks.at_of_yields hok hy
    obtain ⟨d, bD, w7, ct, dox, ev, _, hi7, hsig7, _, hst7, hev7, hk7, hid7, hpar7, _, _, _, hmu7, _⟩ :=
      toplevel_field env hp F (D + 1 + 1) w v.first v.pairs v.ops v.x v.semi v.d1 b1 b0 bmid bx b' blk rest hst hk acc hacc hmu
        (by rw [hnf]; simp) h1 h2 h3 h4 h5 h6 h7 h8 h9 h10 h11 h12 h13 h14 hok.2.2.2.2.2.2.2.2.2
    exact ⟨w7, [ev], ⟨⟨[w7], .one hi7, rfl⟩, hsig7, ⟨_, hst7, ⟨rfl, rfl, rfl, rfl⟩, hacc⟩, hev7, hmu7⟩, ev, dox, rfl, hk7, hid7, hpar7⟩

/-- `public:` / `protected:` / `private:` -/
def Member.accessSpec (kw colon : Tok) : Member env F (core F (D + 1 + 1 + 1 + 1)) where
  At := fun b b' => (kw.type = "public" ∨ kw.type = "protected" ∨ kw.type = "private") ∧ colon.type = ":" ∧
    Yields env.cfg b [kw, colon] b'
  Ev := fun _ _ _ evs => evs = []
  accOut := fun _ => kw.value
  size := 1
  at_sigEq := by
    intro b b' k ⟨h1, h2, hy⟩ hs
    obtain ⟨k', hy', hs'⟩ := hy.sigEq hs
    exact ⟨k', ⟨h1, h2, hy'⟩, hs'⟩
  sound := by
    intro w b' blk rest acc hst hk hacc hmu ⟨h1, h2, hy⟩
    obtain ⟨w', hi, hb, hst', hev, _, _, hmu'⟩ :=
      toplevel_access_specifier env hp F (core F (D + 1 + 1 + 1 + 1)) w kw colon b' blk rest hst hk h1 h2 hy
    exact ⟨w', [], ⟨⟨[w'], .one hi, rfl⟩, by rw [hb]; exact .refl _, ⟨_, hst', ⟨rfl, rfl, rfl, rfl⟩, rfl⟩, by simp [hev],
      by rw [hmu']; exact hmu⟩, rfl⟩

/-- `T ptr-ops f(P₁, …, Pₙ) quals ;` in a class body -/
def Member.method (first : Tok) (pairs : List (Tok × Tok)) (ops : List Tok) (x op : Tok) (ps : List (PItem × DType × Tok))
    (last : PItem × DType) (cp : Tok) (quals : List Tok) (semi : Tok) (d1 : DType) : Member env F (core F (D + 1 + 1 + 1 + 1)) where
  At := fun b b' =>
    (FnHeadOK first pairs ops x d1 F ∧ op.type = "(" ∧
      (∀ q ∈ ps, q.1.OK q.2.1 ∧ q.2.2.type = "," ∧ q.2.2.value ≠ ")" ∧ q.1.pairs.length + q.1.ops.length + 2 ≤ F) ∧
      last.1.OK last.2 ∧ last.1.pairs.length + last.1.ops.length + 2 ≤ F ∧ cp.type = ")" ∧ cp.value = ")" ∧ ps.length + 1 ≤ F ∧
      semi.type = ";" ∧ semi.value = ";" ∧ quals.length + 1 ≤ F ∧
      (∀ d acc, ∃ m', applyQuals { plainFunction x d1 d with parameters := ps.map (fun q => q.1.param q.2.1) ++ [last.1.param last.2], isMethod := true, access := some acc } (quals.map (·.value)) = some m')) ∧
    Yields env.cfg b (first :: (pairs.flatMap (fun p => [p.1, p.2]) ++ (ops ++ (x :: op ::
      ((ps.flatMap (fun q => q.1.toks ++ [q.2.2]) ++ (last.1.toks ++ [cp])) ++ (quals ++ [semi])))))) b'
  Ev := fun blk rest acc evs => ∃ ev d m',
    applyQuals { plainFunction x d1 d with parameters := ps.map (fun q => q.1.param q.2.1) ++ [last.1.param last.2], isMethod := true, access := some acc } (quals.map (·.value)) = some m' ∧
    evs = [ev] ∧ ItemEvent blk rest ev (.classMethod m')
  accOut := id
  size := 1
  at_sigEq := by
    intro b b' k ⟨hok, hy⟩ hs
    obtain ⟨k', hy', hs'⟩ := hy.sigEq hs
    exact ⟨k', ⟨hok, hy'⟩, hs'⟩
  sound := by
    intro w b' blk rest acc hst hk hacc hmu ⟨⟨⟨h1, h2, h3, h4, h5, h6, h7, h8, h9⟩, ho, hps, hl, hlF, hc, hcv, hFp, hs, hsv, hFq, hq⟩, hy⟩
    obtain ⟨b1, t0, hy⟩ := hy.cons_inv
    obtain ⟨b0, hy0, hy⟩ := hy.split
    obtain ⟨bmid, hy1, hy⟩ := hy.split
    obtain ⟨bx, t1, hy⟩ := hy.cons_inv
    obtain ⟨bo, t2, hy⟩ := hy.cons_inv
    obtain ⟨bc, hyp, hy⟩ := hy.split
    obtain ⟨bq, hyq, hy⟩ := hy.split
    obtain ⟨d, bD, hd⟩ := getDoxygen_ok env.cfg hp env.mcRe w.buf (some first) b1 t0
    obtain ⟨m', hm'⟩ := hq d acc
    obtain ⟨w7, ct, ev, hi7, hb, _, hst7, hev7, hk7, hid7, hpar7, _, _, hmu7, _⟩ :=
      toplevel_method env hp F D w first pairs ops x op ps last cp semi quals m' d1 b1 b0 bmid bx bo bc bq b' blk rest hst hk hmu
        (by rw [hnf]; simp) t0 h1 h2 h3 hy0 h4 h5 hy1 h6 t1 h7 h8 t2 ho hps hl hlF hc hcv hyp hFp hyq hy.single_inv hs hsv hFq h9
        d bD hd (by rw [hacc]; exact hm')
    exact ⟨w7, [ev], ⟨⟨[w7], .one hi7, rfl⟩, by rw [hb]; exact .refl _, ⟨_, hst7, ⟨rfl, rfl, rfl, rfl⟩, hacc⟩, hev7, hmu7⟩,
      ev, d, m', hm', rfl, hk7, hid7, hpar7⟩

/-- a member that is ONE iteration delivering ONE callback, leaving the access level alone -/
def Member.single {env : Env} {F : Nat} {c : Core} (At : Buf → Buf → Prop) (E : Block → List Block → String → Event → Prop)
    (at_sigEq : ∀ {b b' k : Buf}, At b b' → SigEq b k → ∃ k', At k k' ∧ SigEq b' k')
    (sound : ∀ (w : World) (b' : Buf) (blk : Block) (rest : List Block) (acc : String), w.stack = blk :: rest →
      blk.hdr.kind = .cls → blk.access = some acc → w.muted = false → At w.buf b' → ∃ (w7 : World) (l : LocRef) (ev : Event),
        interp env (mainBody F c none) w = (w7, .ok (.inl none)) ∧ SigEq b' w7.buf ∧ w7.stack = { blk with loc := l } :: rest ∧
        w7.events = w.events ++ [ev] ∧ E blk rest acc ev ∧ w7.muted = false) : Member env F c where
  At := At
  Ev := fun blk rest acc evs => ∃ ev, evs = [ev] ∧ E blk rest acc ev
  accOut := id
  size := 1
  at_sigEq := at_sigEq
  sound := by
    intro w b' blk rest acc hst hk hacc hmu hat
    obtain ⟨w7, l, ev, hi, hb, hst7, hev, hE, hmu7⟩ := sound w b' blk rest acc hst hk hacc hmu hat
    exact ⟨w7, [ev], ⟨⟨[w7], .one hi, rfl⟩, hb, ⟨_, hst7, ⟨rfl, rfl, rfl, rfl⟩, hacc⟩, hev, hmu7⟩, ev, rfl, hE⟩

/-- `typedef T ptr-ops x;` in a class body -/
def Member.typedef (kw : Tok) (v : VarDeclToks) : Member env F (core F (D + 1 + 1 + 1 + 1)) :=
  Member.single (fun b b' => (kw.type = "typedef" ∧ v.x.value ≠ "" ∧ v.OK F) ∧ Yields env.cfg b (kw :: v.toks) b')
    (fun blk rest _ ev => ItemEvent blk rest ev (.typedef (plainTypedef v.x v.d1 blk)))
    (by
      intro b b' k ⟨hok, hy⟩ hs
      obtain ⟨k', hy', hs'⟩ := hy.sigEq hs
      exact ⟨k', ⟨hok, hy'⟩, hs'⟩)
    (by
      intro w b' blk rest acc hst hk hacc hmu ⟨⟨hkw, hxne, hok⟩, hy⟩
      obtain ⟨bk, h0, hy⟩ := hy.cons_inv
      obtain ⟨b1, b0, bmid, bx, h1, h2, h3, h4, h5, h6, h7, h8, h9, h10, h11, h12, h13, h14⟩ := VarDeclToks.at_of_yields hok hy
      obtain ⟨w7, ct, ev, hi7, hsig7, _, hst7, hev7, hk7, hid7, hpar7, _, _, hmu7, _⟩ :=
        toplevel_typedef env hp F (D + 1 + 1) w kw v.first v.pairs v.ops v.x v.semi v.d1 bk b1 b0 bmid bx b' blk rest hst hxne hmu
          (by rw [hnf]; simp) h0 hkw h1 h2 h3 h4 h5 h6 h7 h8 h9 h10 h11 h12 h13 h14 hok.2.2.2.2.2.2.2.2.2
      exact ⟨w7, _, ev, hi7, hsig7, hst7, hev7, ⟨hk7, hid7, hpar7⟩, hmu7⟩)

/-- `class a::b;` in a class body -/
def Member.forwardDecl (kw first : Tok) (pairs : List (Tok × Tok)) (semi : Tok) : Member env F (core F (D + 1 + 1 + 1 + 1)) :=
  Member.single (fun b b' => (isClassKey kw.value = true ∧ kw.type = kw.value ∧ first.type = "NAME" ∧ plainVal first.value = true ∧
      (∀ p ∈ pairs, p.1.type = "DBL_COLON" ∧ p.2.type = "NAME" ∧ plainVal p.2.value = true) ∧ semi.type = ";" ∧ pairs.length + 2 ≤ F) ∧
      Yields env.cfg b (kw :: first :: (pairs.flatMap (fun p => [p.1, p.2]) ++ [semi])) b')
    (fun blk rest _ ev => ∃ d, ItemEvent blk rest ev (.forwardDecl (plainFwd kw.value first pairs blk d)))
    (by
      intro b b' k ⟨hok, hy⟩ hs
      obtain ⟨k', hy', hs'⟩ := hy.sigEq hs
      exact ⟨k', ⟨hok, hy'⟩, hs'⟩)
    (by
      intro w b' blk rest acc hst hk hacc hmu ⟨⟨h1, h2, h3, h4, h5, h6, h7⟩, hy⟩
      obtain ⟨bk, t0, hy⟩ := hy.cons_inv
      obtain ⟨b1, t1, hy⟩ := hy.cons_inv
      obtain ⟨bmid, hy1, hy⟩ := hy.split
      obtain ⟨d, bD, w7, ct, ev, _, hi7, hb, hst7, hev7, hk7, hid7, hpar7, _, _, hmu7, _⟩ :=
        toplevel_forward_decl env hp F (D + 1 + 1) w kw first pairs semi bk b1 bmid b' blk rest hst hmu (by rw [hnf]; simp)
          t0 h1 h2 t1 h3 h4 h5 hy1 hy.single_inv h6 h7
      exact ⟨w7, _, ev, hi7, by rw [hb]; exact .refl _, hst7, hev7, ⟨d, hk7, hid7, hpar7⟩, hmu7⟩)

/-- `using A = T ptr-ops;` in a class body -/
def Member.usingAlias (kw a eq first : Tok) (pairs : List (Tok × Tok)) (ops : List Tok) (semi : Tok) (d1 : DType) :
    Member env F (core F (D + 1 + 1 + 1 + 1)) :=
  Member.single (fun b b' => (kw.type = "using" ∧ a.type = "NAME" ∧ eq.type = "=" ∧ first.type = "NAME" ∧ identVal first.value = true ∧
      (∀ p ∈ pairs, p.1.type = "DBL_COLON" ∧ p.2.type = "NAME" ∧ plainVal p.2.value = true) ∧ opsHeadOk ops = true ∧
      applyPtrOps (.type (.mk (.name first.value none :: pairs.map (fun p => .name p.2.value none)) none false) false false)
        (ops.map (·.type)) = some d1 ∧ semi.type = ";" ∧ pairs.length + ops.length + 2 ≤ F) ∧
      Yields env.cfg b (kw :: a :: eq :: first :: (pairs.flatMap (fun p => [p.1, p.2]) ++ (ops ++ [semi]))) b')
    (fun blk rest _ ev => ∃ d, ItemEvent blk rest ev (.usingAlias (plainAlias a d1 blk d)))
    (by
      intro b b' k ⟨hok, hy⟩ hs
      obtain ⟨k', hy', hs'⟩ := hy.sigEq hs
      exact ⟨k', ⟨hok, hy'⟩, hs'⟩)
    (by
      intro w b' blk rest acc hst hk hacc hmu ⟨⟨h1, h2, h3, h4, h5, h6, h7, h8, h9, h10⟩, hy⟩
      obtain ⟨bk, t0, hy⟩ := hy.cons_inv
      obtain ⟨ba, t1, hy⟩ := hy.cons_inv
      obtain ⟨bq, t2, hy⟩ := hy.cons_inv
      obtain ⟨b1, t3, hy⟩ := hy.cons_inv
      obtain ⟨b0, hy0, hy⟩ := hy.split
      obtain ⟨bmid, hy1, hy⟩ := hy.split
      obtain ⟨d, bD, w7, ct, ev, _, hi7, hb, _, hst7, hev7, hk7, hid7, hpar7, _, _, hmu7, _⟩ :=
        toplevel_using_alias env hp F (D + 1 + 1) w kw a eq first pairs ops semi d1 bk ba bq b1 b0 bmid b' blk rest hst hmu
          (by rw [hnf]; simp) t0 h1 t1 h2 t2 h3 t3 h4 h5 h6 hy0 h7 hy1 h8 hy.single_inv h9 h10
      exact ⟨w7, _, ev, hi7, by rw [hb]; exact .refl _, hst7, hev7, ⟨d, hk7, hid7, hpar7⟩, hmu7⟩)

/-- `enum [class|struct] N { … };` in a class body -/
def Member.enum (kw : Tok) (cs : Option Tok) (first : Tok) (pairs : List (Tok × Tok)) (ob : Tok) (pre : List EItem) (last : EItem)
    (semi : Tok) : Member env F (core F (D + 1 + 1 + 1 + 1)) :=
  Member.single (fun b b' => (kw.value = "enum" ∧ kw.type = "enum" ∧ (∀ c, cs = some c → (c.type = "class" ∨ c.type = "struct") ∧ c.value = c.type) ∧
      first.type = "NAME" ∧ plainVal first.value = true ∧
      (∀ p ∈ pairs, p.1.type = "DBL_COLON" ∧ p.2.type = "NAME" ∧ plainVal p.2.value = true) ∧ ob.type = "{" ∧
      (∀ i ∈ pre, i.OK ∧ i.sep.type = "," ∧ i.toks.length + 2 ≤ F) ∧ (last.OK ∧ last.sep.type = "}" ∧ last.toks.length + 2 ≤ F) ∧
      semi.type = ";" ∧ pairs.length + 2 ≤ F ∧ pre.length + 1 ≤ F) ∧
      Yields env.cfg b (kw :: (cs.toList ++ (first :: (pairs.flatMap (fun p => [p.1, p.2]) ++
        (ob :: ((pre ++ [last]).flatMap EItem.toks ++ [semi])))))) b')
    (fun blk rest _ ev => ∃ d vs, vs.map Enumerator.nv = (pre ++ [last]).map EItem.nv ∧
      ItemEvent blk rest ev (.enum (plainEnum cs first pairs vs blk d)))
    (by
      intro b b' k ⟨hok, hy⟩ hs
      obtain ⟨k', hy', hs'⟩ := hy.sigEq hs
      exact ⟨k', ⟨hok, hy'⟩, hs'⟩)
    (by
      intro w b' blk rest acc hst hk hacc hmu ⟨⟨h1, h2, h3, h4, h5, h6, h7, h8, h9, h10, h11, h12⟩, hy⟩
      obtain ⟨bk, t0, hy⟩ := hy.cons_inv
      obtain ⟨b0, hcs, hy⟩ := hy.split
      obtain ⟨b1, t1, hy⟩ := hy.cons_inv
      obtain ⟨bmid, hy1, hy⟩ := hy.split
      obtain ⟨bl, t2, hy⟩ := hy.cons_inv
      have hcs' := enum_cs_hyp env.cfg cs bk b0 hcs (fun c hc => (h3 c hc).1)
      obtain ⟨d, bD, w7, ct, vs, ev, _, hi7, hvs, hsig, hst7, hev7, hk7, hid7, hpar7, _, _, hmu7, _⟩ :=
        toplevel_enum env hp F (D + 1 + 1) w kw cs first pairs ob pre last semi bk b0 b1 bmid bl b' blk rest hst
          (fun _ => ⟨acc, hacc⟩) hmu (by rw [hnf]; simp) t0 h1 h2 hcs' (fun c hc => (h3 c hc).2) t1 h4 h5 h6 hy1 t2 h7 h8 h9 hy h10 h11 h12
      exact ⟨w7, _, ev, hi7, hsig, hst7, hev7, ⟨d, vs, hvs, hk7, hid7, hpar7⟩, hmu7⟩)

/-! ### `key N { members };` -/

variable (hskip : ∀ i h, env.skip i h = false)

/-- **`class a::b { members };` is an item** (`struct` and `union` too): the class block's start
    and end callbacks around the members' callbacks, the members read under the access level the
    class key gives until an access specifier changes it -/
def Item.cls (kw first : Tok) (pairs : List (Tok × Tok)) (ms : List (Member env F (core F (D + 1 + 1 + 1 + 1)))) :
    Item env F (core F (D + 1 + 1 + 1 + 1)) where
  At := fun b b' => ∃ (ob cl semi : Tok) (b1 b2 : Buf),
    isClassKey kw.value = true ∧ kw.type = kw.value ∧ first.type = "NAME" ∧ plainVal first.value = true ∧
    (∀ p ∈ pairs, p.1.type = "DBL_COLON" ∧ p.2.type = "NAME" ∧ plainVal p.2.value = true) ∧ ob.type = "{" ∧
    cl.type = "}" ∧ semi.type = ";" ∧ pairs.length + 2 ≤ F ∧
    Yields env.cfg b (kw :: first :: (pairs.flatMap (fun p => [p.1, p.2]) ++ [ob])) b1 ∧ MSeqAt ms b1 b2 ∧
    Yields env.cfg b2 [cl, semi] b'
  Ev := fun blk rest evs => BlockEvents blk
    (fun h => h.kind = .cls ∧ h.access = some (defaultAccess kw.value) ∧
      h.cls.typename = .mk (.name first.value none :: pairs.map (fun p => .name p.2.value none)) (some kw.value) false)
    (fun nb mid => MSeqEv nb (blk :: rest) ms (defaultAccess kw.value) mid) evs
  size := mseqSize ms + 2
  at_sigEq := by
    intro b b' k ⟨ob, cl, semi, b1, b2, h1, h2, h3, h4, h5, h6, h7, h8, h9, hy, hm, hy2⟩ hs
    obtain ⟨k1, hy', hs1⟩ := hy.sigEq hs
    obtain ⟨k2, hm', hs2⟩ := hm.sigEq hs1
    obtain ⟨k', hy2', hs'⟩ := hy2.sigEq hs2
    exact ⟨k', ⟨ob, cl, semi, k1, k2, h1, h2, h3, h4, h5, h6, h7, h8, h9, hy', hm', hy2'⟩, hs'⟩
  sound := by
    intro w b' blk rest hst hk hmu ⟨ob, cl, semi, b1, b2, h1, h2, h3, h4, h5, h6, h7, h8, h9, hy, hm, hy2⟩
    have hfa : ∀ n, ¬ env.faultAt = some n := by intro n; rw [hnf]; simp
    obtain ⟨bk, t0, hy⟩ := hy.cons_inv
    obtain ⟨bf, t1, hy⟩ := hy.cons_inv
    obtain ⟨bmid, hyp, hy⟩ := hy.split
    obtain ⟨d, bD, w', ct, _, hbuf', hctv, hst', hev', _, _, hmu', _, hi⟩ :=
      toplevel_class_head env hp F (D + 1 + 1) w kw first pairs ob bk bf bmid b1 blk rest hst hmu (hfa _) t0 h1 h2 t1 h3 h4 h5 hyp
        hy.single_inv h6 h9
    generalize hhdr : classHdr ct first pairs blk d = hdr at hi
    have hPst : (pushedWorld env hdr w').stack = pushedBlock hdr w' :: blk :: rest := by
      show pushedBlock hdr w' :: w'.stack = _; rw [hst', hst]
    have hPmu : (pushedWorld env hdr w').muted = false := hskip _ _
    obtain ⟨w7, mid, ⟨⟨ws, hch, hl⟩, hb7, ⟨nb7, hst7, hsb7, _⟩, hev7, hmu7⟩, hE⟩ :=
      mseq_sound ms (pushedWorld env hdr w') b2 (pushedBlock hdr w') (blk :: rest) (defaultAccess kw.value) hPst
        (by show hdr.kind = .cls; rw [← hhdr]; rfl) (by show hdr.access = _; rw [← hhdr, ← hctv]; rfl) hPmu
        (by show MSeqAt ms w'.buf b2; rw [hbuf']; exact hm)
    obtain ⟨k', hy2', hs'⟩ := hy2.sigEq hb7
    obtain ⟨kc, tc, hy2'⟩ := hy2'.cons_inv
    obtain ⟨n, hn⟩ := segs_getLast pairs first.value
    obtain ⟨wA, cc, hsA, _, hend⟩ := toplevel_class_end env hp F (core F (D + 1 + 1 + 1 + 1)) w7 cl semi kc k' nb7 blk rest n none hst7
      (by rw [← hsb7.2.2.2]; rfl) (by rw [← hsb7.2.1]; show hdr.kind = .cls; rw [← hhdr]; rfl)
      (by rw [← hsb7.2.1]; show hdr.typedef = false; rw [← hhdr]; rfl)
      (by rw [← hsb7.2.1]; show hdr.cls.typename.segments.getLast? = _; rw [← hhdr]; exact hn)
      (fun hc => absurd hc hk) tc h7 hy2'.single_inv h8
    obtain ⟨w3, hi3, hb3, hs3⟩ := hend _ (deliver_passing env { wA with mainTok := some cc }
      (mkEvent { wA with mainTok := some cc } .blockEnd nb7 (some blk.id))
      (by show wA.muted = false; rw [hsA.muted]; exact hmu7) (hfa _))
    refine ⟨w3, pushEvent hdr w' :: (mid ++ [mkEvent { wA with mainTok := some cc } .blockEnd nb7 (some blk.id)]),
      ⟨⟨pushedWorld env hdr w' :: (ws ++ [w3]), .cons hi (hch.append (.one hi3)), by simp [hl]⟩, ?_, ⟨blk, hs3.stack, .refl _⟩, ?_, ?_⟩, ?_⟩
    · rw [hb3]; exact hs'
    · rw [hs3.events]
      show wA.events ++ _ = _
      rw [hsA.events, hev7]
      show (w'.events ++ [pushEvent hdr w']) ++ mid ++ _ = _
      rw [hev']; simp
    · rw [hs3.muted]
      show nb7.priorMuted = false
      rw [← hsb7.2.2.1]; show w'.muted = false; rw [hmu']; exact hmu
    · refine ⟨pushedBlock hdr w', _, _, mid, rfl, rfl, rfl, ?_, rfl, ?_, hE, rfl, hsb7.1.symm, rfl⟩
      · show w'.stack.head?.map (·.id) = _; rw [hst', hst]; rfl
      · show hdr.kind = .cls ∧ hdr.access = _ ∧ hdr.cls.typename = _
        rw [← hhdr, ← hctv]; exact ⟨rfl, rfl, rfl⟩

/-- **a class nested in a class body is a member**: its own members are read under ITS key's default
    access level, whatever level is in force outside, and the outer level is in force again after it -/
def Member.cls (kw first : Tok) (pairs : List (Tok × Tok)) (ms : List (Member env F (core F (D + 1 + 1 + 1 + 1)))) :
    Member env F (core F (D + 1 + 1 + 1 + 1)) where
  At := fun b b' => ∃ (ob cl semi : Tok) (b1 b2 : Buf),
    isClassKey kw.value = true ∧ kw.type = kw.value ∧ first.type = "NAME" ∧ plainVal first.value = true ∧
    (∀ p ∈ pairs, p.1.type = "DBL_COLON" ∧ p.2.type = "NAME" ∧ plainVal p.2.value = true) ∧ ob.type = "{" ∧
    cl.type = "}" ∧ semi.type = ";" ∧ pairs.length + 2 ≤ F ∧
    Yields env.cfg b (kw :: first :: (pairs.flatMap (fun p => [p.1, p.2]) ++ [ob])) b1 ∧ MSeqAt ms b1 b2 ∧
    Yields env.cfg b2 [cl, semi] b'
  Ev := fun blk rest acc evs => BlockEvents blk
    (fun h => h.kind = .cls ∧ h.access = some (defaultAccess kw.value) ∧ h.cls.access = some acc ∧
      h.cls.typename = .mk (.name first.value none :: pairs.map (fun p => .name p.2.value none)) (some kw.value) false)
    (fun nb mid => MSeqEv nb (blk :: rest) ms (defaultAccess kw.value) mid) evs
  accOut := id
  size := mseqSize ms + 2
  at_sigEq := by
    intro b b' k ⟨ob, cl, semi, b1, b2, h1, h2, h3, h4, h5, h6, h7, h8, h9, hy, hm, hy2⟩ hs
    obtain ⟨k1, hy', hs1⟩ := hy.sigEq hs
    obtain ⟨k2, hm', hs2⟩ := hm.sigEq hs1
    obtain ⟨k', hy2', hs'⟩ := hy2.sigEq hs2
    exact ⟨k', ⟨ob, cl, semi, k1, k2, h1, h2, h3, h4, h5, h6, h7, h8, h9, hy', hm', hy2'⟩, hs'⟩
  sound := by
    intro w b' blk rest acc hst hk hacc hmu ⟨ob, cl, semi, b1, b2, h1, h2, h3, h4, h5, h6, h7, h8, h9, hy, hm, hy2⟩
    have hfa : ∀ n, ¬ env.faultAt = some n := by intro n; rw [hnf]; simp
    obtain ⟨bk, t0, hy⟩ := hy.cons_inv
    obtain ⟨bf, t1, hy⟩ := hy.cons_inv
    obtain ⟨bmid, hyp, hy⟩ := hy.split
    obtain ⟨d, bD, w', ct, _, hbuf', hctv, hst', hev', _, _, hmu', _, hi⟩ :=
      toplevel_class_head env hp F (D + 1 + 1) w kw first pairs ob bk bf bmid b1 blk rest hst hmu (hfa _) t0 h1 h2 t1 h3 h4 h5 hyp
        hy.single_inv h6 h9
    generalize hhdr : classHdr ct first pairs blk d = hdr at hi
    have hPst : (pushedWorld env hdr w').stack = pushedBlock hdr w' :: blk :: rest := by
      show pushedBlock hdr w' :: w'.stack = _; rw [hst', hst]
    have hPmu : (pushedWorld env hdr w').muted = false := hskip _ _
    obtain ⟨w7, mid, ⟨⟨ws, hch, hl⟩, hb7, ⟨nb7, hst7, hsb7, _⟩, hev7, hmu7⟩, hE⟩ :=
      mseq_sound ms (pushedWorld env hdr w') b2 (pushedBlock hdr w') (blk :: rest) (defaultAccess kw.value) hPst
        (by show hdr.kind = .cls; rw [← hhdr]; rfl) (by show hdr.access = _; rw [← hhdr, ← hctv]; rfl) hPmu
        (by show MSeqAt ms w'.buf b2; rw [hbuf']; exact hm)
    obtain ⟨k', hy2', hs'⟩ := hy2.sigEq hb7
    obtain ⟨kc, tc, hy2'⟩ := hy2'.cons_inv
    obtain ⟨n, hn⟩ := segs_getLast pairs first.value
    obtain ⟨wA, cc, hsA, _, hend⟩ := toplevel_class_end env hp F (core F (D + 1 + 1 + 1 + 1)) w7 cl semi kc k' nb7 blk rest n none hst7
      (by rw [← hsb7.2.2.2]; rfl) (by rw [← hsb7.2.1]; show hdr.kind = .cls; rw [← hhdr]; rfl)
      (by rw [← hsb7.2.1]; show hdr.typedef = false; rw [← hhdr]; rfl)
      (by rw [← hsb7.2.1]; show hdr.cls.typename.segments.getLast? = _; rw [← hhdr]; exact hn)
      (fun _ => ⟨acc, hacc⟩) tc h7 hy2'.single_inv h8
    obtain ⟨w3, hi3, hb3, hs3⟩ := hend _ (deliver_passing env { wA with mainTok := some cc }
      (mkEvent { wA with mainTok := some cc } .blockEnd nb7 (some blk.id))
      (by show wA.muted = false; rw [hsA.muted]; exact hmu7) (hfa _))
    refine ⟨w3, pushEvent hdr w' :: (mid ++ [mkEvent { wA with mainTok := some cc } .blockEnd nb7 (some blk.id)]),
      ⟨⟨pushedWorld env hdr w' :: (ws ++ [w3]), .cons hi (hch.append (.one hi3)), by simp [hl]⟩, ?_, ⟨blk, hs3.stack, .refl _, hacc⟩, ?_, ?_⟩, ?_⟩
    · rw [hb3]; exact hs'
    · rw [hs3.events]
      show wA.events ++ _ = _
      rw [hsA.events, hev7]
      show (w'.events ++ [pushEvent hdr w']) ++ mid ++ _ = _
      rw [hev']; simp
    · rw [hs3.muted]
      show nb7.priorMuted = false
      rw [← hsb7.2.2.1]; show w'.muted = false; rw [hmu']; exact hmu
    · refine ⟨pushedBlock hdr w', _, _, mid, rfl, rfl, rfl, ?_, rfl, ?_, hE, rfl, hsb7.1.symm, rfl⟩
      · show w'.stack.head?.map (·.id) = _; rw [hst', hst]; rfl
      · show hdr.kind = .cls ∧ hdr.access = _ ∧ hdr.cls.access = _ ∧ hdr.cls.typename = _
        rw [← hhdr, ← hctv]
        refine ⟨rfl, rfl, ?_, rfl⟩
        show (if blk.hdr.kind = .cls then blk.access else none) = some acc
        rw [if_pos hk, hacc]

end kinds

end Cxx
