/-
  Theorems/BaseClause.lean — base-specifier lists (C03): `[virtual|public|protected|private]* a::…::z [...]`, any number of them
  separated by `,`: `_parse_class_decl_base_clause` returns one `BaseClass` per written base, in order, each with the access
  level of ITS latest access specifier (or the class-key default), `virtual` iff ITS specifiers contain `virtual`, the pack flag
  iff `...` follows ITS name — nothing leaks from one base to the next.
-/
import CxxModel.Theorems.VarDecl
import CxxModel.Theorems.ClassForm
namespace Cxx
open P

/-- the written form of one base class -/
structure BaseItem where
  specs : List Tok
  first : Tok
  pairs : List (Tok × Tok)
  pack : Option Tok

def BaseItem.toks (b : BaseItem) : List Tok := b.specs ++ (b.first :: (b.pairs.flatMap (fun p => [p.1, p.2]) ++ b.pack.toList))

/-- the access level the specifiers leave: the latest access specifier, else the default -/
def specAccess (acc : String) : List Tok → String
  | [] => acc
  | s :: ss => specAccess (if s.type = "virtual" then acc else s.type) ss

def specVirtual (v : Bool) : List Tok → Bool
  | [] => v
  | s :: ss => specVirtual (v || s.type == "virtual") ss

/-- what the written base denotes -/
def BaseItem.denotes (b : BaseItem) (defaultAccess : String) : BaseClass :=
  { access := specAccess defaultAccess b.specs,
    typename := .mk (.name b.first.value none :: b.pairs.map (fun p => .name p.2.value none)) none false,
    virtual := specVirtual false b.specs, paramPack := b.pack.isSome }

structure BaseItem.OK (b : BaseItem) : Prop where
  specs : ∀ s ∈ b.specs, Gen.baseAccessVirtual.contains s.type = true
  firstTy : b.first.type = "NAME"
  firstVal : plainVal b.first.value = true
  firstNc : Gen.nameCompoundStart.contains b.first.value = false
  pairsOk : ∀ q ∈ b.pairs, q.1.type = "DBL_COLON" ∧ q.2.type = "NAME" ∧ plainVal q.2.value = true
  packTy : ∀ t, b.pack = some t → t.type = "ELLIPSIS"

theorem baseSpecBody_spec (env : Env) (ct : CTok) (access : String) (virtual : Bool) (w : World)
    (h : Gen.baseAccessVirtual.contains ct.type = true) :
    interp env (baseSpecBody (ct, access, virtual)) w =
      match interp env P.token w with
      | (w1, .ok t) => (w1, .ok (.inl (t, if ct.type = "virtual" then access else ct.type, virtual || ct.type == "virtual")))
      | (w1, .error e) => (w1, .error e) := by
  unfold baseSpecBody
  simp only [h, ↓reduceIte, bind, interp_bind]
  cases interp env P.token w with
  | mk w1 r =>
    cases r with
    | error e => rfl
    | ok t =>
      by_cases hv : ct.type = "virtual"
      · simp [hv, pure, interp]
      · simp [hv, pure, interp]

theorem baseSpecBody_end (env : Env) (ct : CTok) (access : String) (virtual : Bool) (w : World)
    (h : Gen.baseAccessVirtual.contains ct.type = false) :
    interp env (baseSpecBody (ct, access, virtual)) w = (w, .ok (.inr (ct, access, virtual))) := by
  unfold baseSpecBody
  simp only [h, Bool.false_eq_true, ↓reduceIte, pure, interp]

/-- the specifier loop: from the (already read) first token of the base through its specifiers to the name -/
theorem baseSpec_loop (env : Env) : ∀ (specs : List Tok) (ct : CTok) (cur : Tok) (rest : List Tok) (first : Tok) (access : String) (virtual : Bool)
    (n : Nat) (w : World) (b' : Buf),
    (∀ s ∈ specs, Gen.baseAccessVirtual.contains s.type = true) → Gen.baseAccessVirtual.contains first.type = false →
    specs ++ [first] = cur :: rest → ct.type = cur.type → ct.value = cur.value →
    Yields env.cfg w.buf rest b' → specs.length + 1 ≤ n →
    ∃ (w' : World) (c' : CTok),
      interp env (loopN n (ct, access, virtual) baseSpecBody) w = (w', .ok (c', specAccess access specs, specVirtual virtual specs)) ∧
      SameParse w w' ∧ w'.buf = b' ∧ c'.type = first.type ∧ c'.value = first.value := by
  intro specs
  induction specs with
  | nil =>
    intro ct cur rest first access virtual n w b' _ hfirst hsplit hty hv hy hn
    simp only [List.nil_append, List.cons.injEq] at hsplit
    obtain ⟨rfl, rfl⟩ := hsplit
    cases hy
    obtain ⟨m, rfl⟩ : ∃ m, n = m + 1 := ⟨n - 1, by omega⟩
    refine ⟨w, ct, ?_, SameParse.refl w, rfl, hty, hv⟩
    rw [loopN]
    simp only [bind, interp_bind, baseSpecBody_end env ct access virtual w (by rw [hty]; exact hfirst), pure, interp, specAccess, specVirtual]
  | cons s ss ih =>
    intro ct cur rest first access virtual n w b' hall hfirst hsplit hty hv hy hn
    simp only [List.cons_append, List.cons.injEq] at hsplit
    obtain ⟨rfl, rfl⟩ := hsplit
    obtain ⟨g, grest, hg⟩ : ∃ g grest, ss ++ [first] = g :: grest := by
      cases ss with
      | nil => exact ⟨first, [], rfl⟩
      | cons a as => exact ⟨a, as ++ [first], rfl⟩
    rw [hg] at hy
    obtain ⟨b1, hgt, hyr⟩ := Yields.cons_inv hy
    obtain ⟨w1, c1, hi1, hb1, hs1, hty1, hv1⟩ := step_token env w g b1 hgt
    obtain ⟨m, rfl⟩ : ∃ m, n = m + 1 := ⟨n - 1, by omega⟩
    obtain ⟨w', c', hi, hs, hb, hty', hv'⟩ := ih c1 g grest first (if ct.type = "virtual" then access else ct.type) (virtual || ct.type == "virtual")
      m w1 b' (fun q hq => hall q (by simp [hq])) hfirst hg hty1 hv1 (by rw [hb1]; exact hyr) (by simp at hn; omega)
    refine ⟨w', c', ?_, hs1.trans hs, hb, hty', hv'⟩
    rw [loopN]
    simp only [bind, interp_bind, baseSpecBody_spec env ct access virtual w (by rw [hty]; exact hall s (by simp)), hi1]
    rw [hi]
    simp only [hty, specAccess, specVirtual]

/-- table facts about the tokens of a base clause, decided over the regenerated tables -/
theorem base_table_facts :
    (∀ ty ∈ "NAME" :: Gen.baseAccessVirtual, Gen.attributeSpecifierSeqStartTypes.contains ty = false) ∧
    Gen.baseAccessVirtual.contains "NAME" = false := by decide

/-- **one base** `specs name [...]` followed by `,` (another base follows) or another token (the list ends), the whole item
    read from the stream -/
theorem baseBody_item (env : Env) (F D : Nat) (defaultAccess : String) (b : BaseItem) (hok : b.OK) (bases : List BaseClass)
    (sep : Tok) (w : World) (bmid b' : Buf)
    (hy : Yields env.cfg w.buf b.toks bmid) (htsep : tokenEofOk env.cfg bmid = .ok (some sep, b'))
    (hsepE : sep.type ≠ "ELLIPSIS") (hsepLt : sep.type ≠ "<") (hsepDc : sep.type ≠ "DBL_COLON")
    (hF : b.specs.length + b.pairs.length + 2 ≤ F) :
    ∃ (w' : World) (t' : Tok),
      interp env (baseBody F (core F (D + 1)) defaultAccess bases) w =
        (if sep.type = "," then (w', .ok (.inl (bases ++ [b.denotes defaultAccess])))
         else (w', .ok (.inr (bases ++ [b.denotes defaultAccess])))) ∧
      SameButLog w w' ∧
      (if sep.type = "," then w'.buf = b' else tokenEofOk env.cfg w'.buf = .ok (some t', b') ∧ t'.type = sep.type ∧ t'.value = sep.value) := by
  obtain ⟨hspecs, hft, hfv, hfnc, hpairs, hpack⟩ := hok
  -- the first token of the item
  obtain ⟨cur, crest, hcur⟩ : ∃ cur crest, b.specs ++ [b.first] = cur :: crest := by
    cases hs : b.specs with
    | nil => exact ⟨b.first, [], rfl⟩
    | cons a as => exact ⟨a, as ++ [b.first], rfl⟩
  have htoks : b.toks = cur :: (crest ++ (b.pairs.flatMap (fun p => [p.1, p.2]) ++ b.pack.toList)) := by
    unfold BaseItem.toks
    have : b.specs ++ (b.first :: (b.pairs.flatMap (fun p => [p.1, p.2]) ++ b.pack.toList)) =
        (b.specs ++ [b.first]) ++ (b.pairs.flatMap (fun p => [p.1, p.2]) ++ b.pack.toList) := by simp
    rw [this, hcur]; rfl
  rw [htoks] at hy
  obtain ⟨b1, hct, hy⟩ := Yields.cons_inv hy
  obtain ⟨bn, hyspec, hy⟩ := Yields.split hy
  obtain ⟨bq, hyq, hyp⟩ := Yields.split hy
  obtain ⟨w1, c1, hi1, hb1, hs1, hty1, hv1⟩ := step_token env w cur b1 hct
  have hcurTy : cur.type = "NAME" ∨ Gen.baseAccessVirtual.contains cur.type = true := by
    cases hs : b.specs with
    | nil => rw [hs] at hcur; simp only [List.nil_append, List.cons.injEq] at hcur; rw [← hcur.1]; exact .inl hft
    | cons a as => rw [hs] at hcur; simp only [List.cons_append, List.cons.injEq] at hcur; rw [← hcur.1]; exact .inr (hspecs a (by simp [hs]))
  have hnattr : Gen.attributeSpecifierSeqStartTypes.contains c1.type = false := by
    rw [hty1]
    rcases hcurTy with h | h
    · rw [h]; exact base_table_facts.1 "NAME" (by simp)
    · exact base_table_facts.1 cur.type (by simp [List.contains_iff_mem.mp h])
  obtain ⟨w2, c2, hi2, hs2, hb2, hty2, hv2⟩ := baseSpec_loop env b.specs c1 cur crest b.first defaultAccess false F w1 bn
    hspecs (by rw [hft]; exact base_table_facts.2) hcur hty1 hv1 (by rw [hb1]; exact hyspec) (by omega)
  -- the name, then `...`?
  obtain ⟨nx, bnx, hnx, hnxlt, hnxdc⟩ : ∃ (nx : Tok) (bnx : Buf), tokenEofOk env.cfg bq = .ok (some nx, bnx) ∧ nx.type ≠ "<" ∧ nx.type ≠ "DBL_COLON" := by
    cases hp : b.pack with
    | none => rw [hp] at hyp; cases hyp; exact ⟨sep, b', htsep, hsepLt, hsepDc⟩
    | some e =>
      rw [hp] at hyp
      have := Yields.single_inv (by simpa using hyp)
      exact ⟨e, bmid, this, by rw [hpack e hp]; decide, by rw [hpack e hp]; decide⟩
  obtain ⟨w3, t3, hi3, hs3, ht3, hty3, hv3⟩ := plain_pqname env F (core F D) false false false c2 b.pairs w2 bq bnx nx
    (hty2.trans hft) (by rw [hv2]; exact hfv) (by rw [hv2]; exact hfnc) hpairs (by rw [hb2]; exact hyq) hnx hnxlt hnxdc (by omega)
  have hlog := logged_butLog env w3 "parse_pqname"
  cases hp : b.pack with
  | some e =>
    rw [hp] at hyp
    have hte : tokenEofOk env.cfg bq = .ok (some e, bmid) := Yields.single_inv (by simpa using hyp)
    rw [hte] at hnx
    injection hnx with hnx; injection hnx with h1 h2
    injection h1 with h1
    subst h1; subst h2
    obtain ⟨w4, c4, hi4, hb4, hs4, _, _⟩ := step_tokenIf_hit env ["ELLIPSIS"] (logged env w3 "parse_pqname") t3 bmid
      (by rw [logged_buf']; exact ht3) (by rw [hty3, hpack e hp]; decide)
    by_cases hcomma : sep.type = ","
    · obtain ⟨w5, c5, hi5, hb5, hs5, _, _⟩ := step_tokenIf_hit env [","] w4 sep b' (by rw [hb4]; exact htsep) (by rw [hcomma]; decide)
      refine ⟨w5, sep, ?_, ((((hs1.trans hs2).trans hs3).butLog.trans hlog).trans hs4.butLog).trans hs5.butLog, by simp [hcomma, hb5]⟩
      unfold baseBody
      simp only [bind, interp_bind, hi1, hnattr, Bool.false_eq_true, ↓reduceIte, pure, interp, hi2, core_parsePqname, hi3, hv2, hi4,
        Option.isSome_some, hi5, Option.isNone_some, hcomma, BaseItem.denotes, hp]
    · obtain ⟨w5, t5, hi5, hs5, ht5, hty5, hv5⟩ := step_tokenIf_miss env [","] w4 sep b' (by rw [hb4]; exact htsep) (by simp [hcomma])
      refine ⟨w5, t5, ?_, ((((hs1.trans hs2).trans hs3).butLog.trans hlog).trans hs4.butLog).trans hs5.butLog, by simp [hcomma, ht5, hty5, hv5]⟩
      unfold baseBody
      simp only [bind, interp_bind, hi1, hnattr, Bool.false_eq_true, ↓reduceIte, pure, interp, hi2, core_parsePqname, hi3, hv2, hi4,
        Option.isSome_some, hi5, Option.isNone_none, hcomma, BaseItem.denotes, hp]
  | none =>
    rw [hp] at hyp
    have hbq : bq = bmid := by cases hyp; rfl
    subst hbq
    rw [htsep] at hnx
    injection hnx with hnx; injection hnx with h1 h2
    injection h1 with h1
    subst h1; subst h2
    obtain ⟨w4, t4, hi4, hs4, ht4, hty4, hv4⟩ := step_tokenIf_miss env ["ELLIPSIS"] (logged env w3 "parse_pqname") t3 b'
      (by rw [logged_buf']; exact ht3) (by rw [hty3]; simp [hsepE])
    by_cases hcomma : sep.type = ","
    · obtain ⟨w5, c5, hi5, hb5, hs5, _, _⟩ := step_tokenIf_hit env [","] w4 t4 b' ht4 (by rw [hty4, hty3, hcomma]; decide)
      refine ⟨w5, sep, ?_, ((((hs1.trans hs2).trans hs3).butLog.trans hlog).trans hs4.butLog).trans hs5.butLog, by simp [hcomma, hb5]⟩
      unfold baseBody
      simp only [bind, interp_bind, hi1, hnattr, Bool.false_eq_true, ↓reduceIte, pure, interp, hi2, core_parsePqname, hi3, hv2, hi4,
        Option.isSome_none, hi5, Option.isNone_some, hcomma, BaseItem.denotes, hp]
    · obtain ⟨w5, t5, hi5, hs5, ht5, hty5, hv5⟩ := step_tokenIf_miss env [","] w4 t4 b' ht4 (by rw [hty4, hty3]; simp [hcomma])
      refine ⟨w5, t5, ?_, ((((hs1.trans hs2).trans hs3).butLog.trans hlog).trans hs4.butLog).trans hs5.butLog,
        by simp [hcomma, ht5, hty5, hty4, hty3, hv5, hv4, hv3]⟩
      unfold baseBody
      simp only [bind, interp_bind, hi1, hnattr, Bool.false_eq_true, ↓reduceIte, pure, interp, hi2, core_parsePqname, hi3, hv2, hi4,
        Option.isSome_none, hi5, Option.isNone_none, hcomma, BaseItem.denotes, hp]


/-- **the whole base clause** `b1 , b2 , … , bn` followed by a token that ends it (`{`): one `BaseClass` per written base, in
    order, each with ITS OWN access level, `virtual` flag and pack flag -/
theorem baseClause_list (env : Env) (F D : Nat) (defaultAccess : String) :
    ∀ (bs : List (BaseItem × Tok)) (last : BaseItem) (acc : List BaseClass) (term : Tok) (w : World) (bmid b' : Buf) (n : Nat),
    (∀ q ∈ bs, q.1.OK ∧ q.2.type = "," ∧ q.1.specs.length + q.1.pairs.length + 2 ≤ F) →
    last.OK → last.specs.length + last.pairs.length + 2 ≤ F →
    Yields env.cfg w.buf (bs.flatMap (fun q => q.1.toks ++ [q.2]) ++ last.toks) bmid →
    tokenEofOk env.cfg bmid = .ok (some term, b') →
    term.type ≠ "," → term.type ≠ "ELLIPSIS" → term.type ≠ "<" → term.type ≠ "DBL_COLON" → bs.length + 1 ≤ n →
    ∃ (w' : World) (t' : Tok),
      interp env (loopN n acc (baseBody F (core F (D + 1)) defaultAccess)) w =
        (w', .ok (acc ++ bs.map (fun q => q.1.denotes defaultAccess) ++ [last.denotes defaultAccess])) ∧
      SameButLog w w' ∧ tokenEofOk env.cfg w'.buf = .ok (some t', b') ∧ t'.type = term.type ∧ t'.value = term.value := by
  intro bs
  induction bs with
  | nil =>
    intro last acc term w bmid b' n _ hlast hlF hy htok hc he hlt hdc hn
    simp only [List.flatMap_nil, List.nil_append] at hy
    obtain ⟨m, rfl⟩ : ∃ m, n = m + 1 := ⟨n - 1, by omega⟩
    obtain ⟨w', t', hi, hs, hrest⟩ := baseBody_item env F D defaultAccess last hlast acc term w bmid b' hy htok he hlt hdc hlF
    simp only [hc, ↓reduceIte] at hi hrest
    refine ⟨w', t', ?_, hs, hrest.1, hrest.2.1, hrest.2.2⟩
    rw [loopN]
    simp only [bind, interp_bind, hi, pure, interp, List.map_nil, List.append_nil]
  | cons q qs ih =>
    intro last acc term w bmid b' n hall hlast hlF hy htok hc he hlt hdc hn
    obtain ⟨hqok, hqsep, hqF⟩ := hall q (by simp)
    simp only [List.flatMap_cons, List.append_assoc] at hy
    obtain ⟨bq, hy1, hy2⟩ := Yields.split hy
    obtain ⟨bs1, hsep, hy3⟩ := Yields.cons_inv (by simpa using hy2)
    obtain ⟨m, rfl⟩ : ∃ m, n = m + 1 := ⟨n - 1, by omega⟩
    obtain ⟨w1, t1, hi1, hs1, hrest1⟩ := baseBody_item env F D defaultAccess q.1 hqok acc q.2 w bq bs1 hy1 hsep
      (by rw [hqsep]; decide) (by rw [hqsep]; decide) (by rw [hqsep]; decide) hqF
    simp only [hqsep, ↓reduceIte] at hi1 hrest1
    obtain ⟨w', t', hi, hs, ht, hty, hv⟩ := ih last (acc ++ [q.1.denotes defaultAccess]) term w1 bmid b' m (fun x hx => hall x (by simp [hx]))
      hlast hlF (by rw [hrest1]; exact hy3) htok hc he hlt hdc (by simp at hn; omega)
    refine ⟨w', t', ?_, hs1.trans hs, ht, hty, hv⟩
    rw [loopN]
    simp only [bind, interp_bind, hi1, hi, List.map_cons, List.append_assoc, List.singleton_append]

/-! ### the class head with a base clause -/

/-- on `:` the type loop stops (it is none of the tokens the loop knows) -/
theorem typeBody_colon (env : Env) (F : Nat) (rec : Core) (operatorOk : Bool) (c : CTok) (pqn : Option PQName) (cst vol : Bool)
    (mods : Mods) (o : Bool) (w : World) (hc : c.type = ":") :
    interp env (typeBody F rec operatorOk (c, pqn, cst, vol, mods, o)) w = (w, .ok (.inr (c, pqn, cst, vol, mods, false))) := by
  unfold typeBody
  simp only [hc, (by decide : Gen.pqnameStartTokens.contains ":" = false), (by decide : Gen.parseTypePtrRefParen.contains ":" = false),
    (by decide : Gen.typeKwdBoth.contains ":" = false), (by decide : Gen.typeKwdMeth.contains ":" = false),
    (by decide : Gen.attributeStartTokens.contains ":" = false),
    (by decide : (":" = "const") = False), (by decide : (":" = "mutable") = False), (by decide : (":" = "volatile") = False),
    (by decide : (":" = "__inline") = False), (by decide : (":" = "__forceinline") = False),
    Bool.false_eq_true, ↓reduceIte, decide_false, Bool.or_self, bind, interp_bind, pure, interp]


theorem parseType_compound_colon (env : Env) (F D : Nat) (ck : CTok) (first : Tok) (pairs : List (Tok × Tok))
    (w : World) (b1 bmid b' : Buf) (semi : Tok)
    (hck : isClassKey ck.value = true) (hckt : ck.type = ck.value)
    (htf : tokenEofOk env.cfg w.buf = .ok (some first, b1)) (hf : first.type = "NAME") (hfv : plainVal first.value = true)
    (hall : ∀ p ∈ pairs, p.1.type = "DBL_COLON" ∧ p.2.type = "NAME" ∧ plainVal p.2.value = true)
    (hy : Yields env.cfg b1 (pairs.flatMap (fun p => [p.1, p.2])) bmid)
    (htok : tokenEofOk env.cfg bmid = .ok (some semi, b')) (hs : semi.type = ":") (hF : pairs.length + 2 ≤ F) :
    ∃ (w' : World) (t' : Tok),
      interp env (parseTypeStep F (core F (D + 1)) (some ck) true) w =
        (w', .ok (some (.type (.mk (.name first.value none :: pairs.map (fun p => .name p.2.value none)) (some ck.value) false) false false), {})) ∧
      SameButLog w w' ∧ tokenEofOk env.cfg w'.buf = .ok (some t', b') ∧ t'.type = semi.type ∧ t'.value = semi.value := by
  obtain ⟨w1, t1, hpq, hs1, ht1, hty1, hv1⟩ := compound_pqname env F (core F D) false true ck first pairs w b1 bmid b' semi
    hck hckt htf hf hfv hall hy htok (by rw [hs]; decide) (by rw [hs]; decide) (by omega)
  obtain ⟨w2, c2, hi2, hb2, hs2, hty2, hv2⟩ := step_token env (logged env w1 "parse_pqname") t1 b'
    (by rw [logged_buf']; exact ht1)
  have hnd : isDiscard c2.type = false := by rw [hty2]; exact tokenEofOk_not_discard ht1
  obtain ⟨w3, t3, hi3, hs3, ht3, hty3, hv3⟩ := step_returnToken env w2 c2 hnd
  refine ⟨w3, t3, ?_, ((hs1.butLog.trans (logged_butLog env w1 _)).trans hs2.butLog).trans hs3.butLog,
    by rw [← hb2]; exact ht3, by rw [hty3, hty2, hty1], by rw [hv3, hv2, hv1]⟩
  obtain ⟨k, rfl⟩ : ∃ k, F = k + 2 := ⟨F - 2, by omega⟩
  have hstart : Gen.pqnameStartTokens.contains ck.type = true := by
    simp only [isClassKey, Bool.or_eq_true, beq_iff_eq] at hck
    rw [hckt]
    rcases hck with (h | h) | h <;> (rw [h]; decide)
  have hnop : (ck.type = "operator") = False := by
    simp only [isClassKey, Bool.or_eq_true, beq_iff_eq] at hck
    rw [hckt]
    rcases hck with (h | h) | h <;> (rw [h]; decide)
  have hbody1 : interp env (typeBody (k + 2) (core (k + 2) (D + 1)) true (ck, none, false, false, {}, false)) w =
      (w2, .ok (.inl (c2, some (.mk (.name first.value none :: pairs.map (fun p => .name p.2.value none)) (some ck.value) false), false, false, {}, false))) := by
    unfold typeBody
    simp only [hstart, ↓reduceIte, Option.isSome_none, Bool.false_eq_true, hnop, decide_false, Bool.and_false, bind, interp_bind,
      core, coreStep, hpq, pure, interp, hi2]
  have hbody2 : interp env (typeBody (k + 2) (core (k + 2) (D + 1)) true (c2,
      some (.mk (.name first.value none :: pairs.map (fun p => .name p.2.value none)) (some ck.value) false), false, false, {}, false)) w2 =
      (w2, .ok (.inr (c2, some (.mk (.name first.value none :: pairs.map (fun p => .name p.2.value none)) (some ck.value) false),
        false, false, {}, false))) := by
    exact typeBody_colon env _ _ true c2 _ false false {} false w2 (by rw [hty2, hty1, hs])
  unfold parseTypeStep
  simp only [pure, interp, bind, interp_bind]
  rw [loopN]
  simp only [bind, interp_bind, hbody1]
  rw [loopN]
  simp only [bind, interp_bind, hbody2, pure, interp, hi3]


/-- the header of the block a class head with base classes opens -/
def classHdrB (ck : CTok) (first : Tok) (pairs : List (Tok × Tok)) (bases : List BaseClass) (blk : Block) (dox : Option String) : BlockHdr :=
  { kind := .cls, loc := .tok ck.sidx,
    cls := { typename := .mk (.name first.value none :: pairs.map (fun p => .name p.2.value none)) (some ck.value) false,
             bases := bases, template := .none, explicit := false, final := false, doxygen := dox,
             access := if blk.hdr.kind = .cls then blk.access else none },
    access := some (defaultAccess ck.value), typedef := false, mods := {} }

/-- **`key n1 :: … :: nk : base-clause {`** from `_parse_declarations`: ONE class block whose header carries one `BaseClass` per
    written base, in order, each with its own access level / `virtual` / pack flag -/
theorem parseDeclarations_class_head_bases (env : Env) (F D : Nat) (ck : CTok) (doxygen : Option String)
    (first : Tok) (pairs : List (Tok × Tok)) (colon : Tok) (bs : List (BaseItem × Tok)) (last : BaseItem) (ob : Tok) (w : World) (b1 bmid bc bb b' : Buf)
    (blk : Block) (rest : List Block) (hstack : w.stack = blk :: rest)
    (hmu : w.muted = false) (hfa : ¬ env.faultAt = some w.delivered)
    (hck : isClassKey ck.value = true) (hckt : ck.type = ck.value)
    (htf : tokenEofOk env.cfg w.buf = .ok (some first, b1)) (hf : first.type = "NAME") (hfv : plainVal first.value = true)
    (hall : ∀ p ∈ pairs, p.1.type = "DBL_COLON" ∧ p.2.type = "NAME" ∧ plainVal p.2.value = true)
    (hy : Yields env.cfg b1 (pairs.flatMap (fun p => [p.1, p.2])) bmid)
    (htok : tokenEofOk env.cfg bmid = .ok (some colon, bc)) (hcolon : colon.type = ":")
    (hbs : ∀ q ∈ bs, q.1.OK ∧ q.2.type = "," ∧ q.1.specs.length + q.1.pairs.length + 2 ≤ F)
    (hlast : last.OK) (hlF : last.specs.length + last.pairs.length + 2 ≤ F)
    (hyb : Yields env.cfg bc (bs.flatMap (fun q => q.1.toks ++ [q.2]) ++ last.toks) bb)
    (htob : tokenEofOk env.cfg bb = .ok (some ob, b')) (hob : ob.type = "{") (hF : pairs.length + 2 ≤ F) (hFb : bs.length + 1 ≤ F) :
    ∃ (w' : World), w'.buf = b' ∧ SameButLog w w' ∧
      interp env (parseDeclarations F (core F (D + 1 + 1)) ck doxygen) w =
        (pushedWorld env (classHdrB ck first pairs (bs.map (fun q => q.1.denotes (defaultAccess ck.value)) ++ [last.denotes (defaultAccess ck.value)]) blk doxygen) w', .ok ()) := by
  obtain ⟨w1, t1, hi1, hs1, ht1, hty1, _⟩ := parseType_compound_colon env F D ck first pairs w b1 bmid bc colon hck hckt htf hf hfv hall hy
    htok hcolon hF
  obtain ⟨w2, t2, hi2, hs2, ht2, hty2, _⟩ := step_tokenIf_miss env [";"] w1 t1 bc ht1 (by rw [hty1, hcolon]; decide)
  obtain ⟨w3, c3, hi3, hb3, hs3, hty3, _⟩ := step_tokenIfP_hit env (fun t => Gen.classEnumStage2.contains t.type) w2 t2 bc ht2
    (by intro c hct _; show Gen.classEnumStage2.contains c.type = true; rw [hct, hty2, hty1, hcolon]; decide)
  have hc3 : c3.type = ":" := by rw [hty3, hty2, hty1, hcolon]
  obtain ⟨w4, t4, hi4, hs4, ht4, hty4, _⟩ := baseClause_list env F (D + 1) (defaultAccess ck.value) bs last [] ob w3 bb b' F hbs hlast hlF
    (by rw [hb3]; exact hyb) htob (by rw [hob]; decide) (by rw [hob]; decide) (by rw [hob]; decide) (by rw [hob]; decide) hFb
  have hi4' : interp env (parseClassDeclBaseClause F (core F (D + 1 + 1)) (defaultAccess ck.value)) w3 = _ := hi4
  obtain ⟨w5, c5, hi5, hb5, hs5, hty5, _⟩ := step_token env w4 t4 b' ht4
  have hc5 : c5.type = "{" := by rw [hty5, hty4, hob]
  have hsl : SameButLog w w5 := (((hs1.trans hs2.butLog).trans hs3.butLog).trans hs4).trans hs5.butLog
  have hst3 : w5.stack = blk :: rest := by rw [hsl.stack]; exact hstack
  have htop3 := interp_getTop env w5 blk rest hst3
  have hpush := interp_push_passing env (classHdrB ck first pairs (bs.map (fun q => q.1.denotes (defaultAccess ck.value)) ++ [last.denotes (defaultAccess ck.value)]) blk doxygen) w5 (by rw [hsl.muted]; exact hmu)
    (by rw [hsl.delivered]; exact hfa)
  refine ⟨w5, hb5, hsl, ?_⟩
  obtain ⟨k, rfl⟩ : ∃ k, F = k + 1 := ⟨F - 1, by omega⟩
  simp only [isClassKey, Bool.or_eq_true, beq_iff_eq] at hck
  unfold parseDeclarations
  simp only [bind, interp_bind, core_parseType, hi1, Option.bind, typenameOf, PQName.classkey]
  unfold maybeParseClassEnumDecl parseClassDecl
  rcases hck with (hv1 | hv1) | hv1
  all_goals
    simp only [hv1, classHdrB, defaultAccess] at hpush hi4' ⊢
    simp only [interp, ↓reduceIte, (by decide : ("struct" = "class") = False), (by decide : ("union" = "class") = False)] at hpush
    simp only [↓reduceIte, List.nil_append, (by decide : ("struct" = "class") = False), (by decide : ("union" = "class") = False)] at hi4'
    simp only [loopN, classSpecBody, strTruthy, PQName.classkey, bind, interp_bind, hi2, Option.isSome_none, ↓reduceIte, Bool.false_eq_true, Option.getD_some,
      P.tokenIfInSet, hi3, validate_empty, Bool.not_false, hc3, hc5, hi4', hi5, List.nil_append,
      (by decide : (":" = "final") = False), (by decide : (":" = "explicit") = False),
      (by decide : "class".isEmpty = false), (by decide : "struct".isEmpty = false), (by decide : "union".isEmpty = false),
      (by decide : ("{" = "final") = False), (by decide : ("{" = "explicit") = False), (by decide : ("{" = ":") = False),
      (by decide : ("struct" = "class") = False), (by decide : ("union" = "class") = False), (by decide : ("union" = "struct") = False),
      decide_true, decide_false, Bool.or_true, Bool.true_or, Bool.or_false, bne_self_eq_false, pure, interp, currentAccess, htop3,
      Block.view, Option.some.injEq, hpush]


end Cxx
