/-
  Theorems/TopLevel.lean — one iteration of the `while True:` of `parse()` (C01, C12).

  * `mainBody_item`: with no doc text pending, an iteration whose next significant token is `t`
    is exactly: find the doc text `d` (`get_doxygen`, which leaves the stream's tokens as they
    were), read `t`, record it as the token being evaluated, run `topItem` on it with `d`,
    and hand `carry t d` to the next iteration;
  * `toplevel_namespace`: at `namespace n1 :: … :: nk {` that iteration opens ONE block with
    exactly the written names and the doc text found, and hands NO doc text on — on the
    dispatch table and the keep set regenerated from `parse()`.
-/
import CxxModel.Theorems.NsForm
import CxxModel.Theorems.UsingDecl
import CxxModel.Theorems.UsingDeclForm
import CxxModel.Theorems.VarDecl
import CxxModel.Theorems.VarDecls
import CxxModel.Theorems.VarInit
import CxxModel.Theorems.TypedefForm
import CxxModel.Theorems.FwdDecl
import CxxModel.Theorems.UsingAliasForm
import CxxModel.Theorems.ClassForm
import CxxModel.Theorems.EnumDecl
import CxxModel.Theorems.FnDecl
import CxxModel.Theorems.MethodDecl
import CxxModel.Theorems.AccessForm
import CxxModel.Theorems.BlockEnd
import CxxModel.Theorems.Verbose
import CxxModel.Theorems.DoxNeutral
import CxxModel.Theorems.EnumList
import CxxModel.Tables
namespace Cxx
open P

theorem interp_tokenEofOk_some (env : Env) (w : World) (t : Tok) (b1 : Buf)
    (h : tokenEofOk env.cfg w.buf = .ok (some t, b1)) :
    interp env P.tokenEofOk w =
      ((({ w with buf := b1 } : World).handOut t).2, .ok (some (({ w with buf := b1 } : World).handOut t).1)) := by
  unfold P.tokenEofOk
  simp only [interp, Bool.false_eq_true, ↓reduceIte, h]

theorem mainBody_item (env : Env) (hp : RulesProgress env.cfg = true) (F : Nat) (c : Core) (w : World) (t : Tok) (b1 : Buf)
    (ht : tokenEofOk env.cfg w.buf = .ok (some t, b1)) :
    ∃ (d : Option String) (bD : Buf) (wA : World) (ct : CTok),
      getDoxygen env.cfg env.mcRe w.buf = .ok (d, bD) ∧ SameParse w wA ∧ wA.buf = b1 ∧
      ct.type = t.type ∧ ct.value = t.value ∧
      interp env (mainBody F c none) w =
        match interp env (topItem F c ct d) { wA with mainTok := some ct } with
        | (w3, .ok ()) => (w3, .ok (.inl (carry ct d)))
        | (w3, .error e) => (w3, .error e) := by
  obtain ⟨d, bD, hd⟩ := getDoxygen_ok env.cfg hp env.mcRe w.buf (some t) b1 ht
  have hnext := getDoxygen_next env.cfg hp env.mcRe w.buf bD d hd
  have ht' : tokenEofOk env.cfg ({ w with buf := bD } : World).buf = .ok (some t, b1) := by
    show tokenEofOk env.cfg bD = _
    rw [hnext]; exact ht
  have hi := interp_tokenEofOk_some env ({ w with buf := bD } : World) t b1 ht'
  obtain ⟨hs, hb, hty, hv⟩ := handOut_same ({ ({ w with buf := bD } : World) with buf := b1 } : World) t
  generalize hwA : (({ ({ w with buf := bD } : World) with buf := b1 } : World).handOut t).2 = wA at *
  generalize hcA : (({ ({ w with buf := bD } : World) with buf := b1 } : World).handOut t).1 = cA at *
  refine ⟨d, bD, wA, cA, hd, ((SameParse.setBuf w bD).trans (SameParse.setBuf _ b1)).trans hs, hb, hty, hv, ?_⟩
  unfold mainBody
  simp only [bind, interp_bind, interp_getDoxygen, hd, hi, interp, pure]
  cases interp env (topItem F c cA d) { wA with mainTok := some cA } with
  | mk w3 r =>
    cases r with
    | error e => rfl
    | ok u => rfl

theorem dispatch_namespace : Gen.dispatchTable.lookup "namespace" = some "_parse_namespace" := by
  rw [dispatch_table_eq]; decide

theorem keep_not_namespace : Gen.keepDoxygen.contains "namespace" = false := by
  rw [keep_doxygen_eq]; decide

/-- a top-level iteration at `namespace n1 :: … :: nk {` -/
theorem toplevel_namespace (env : Env) (hp : RulesProgress env.cfg = true) (F : Nat) (c : Core) (w : World)
    (kw first : Tok) (pairs : List (Tok × Tok)) (ob : Tok) (b' : Buf)
    (hkw : kw.type = "namespace") (hf : first.type = "NAME")
    (hall : ∀ p ∈ pairs, p.1.type = "DBL_COLON" ∧ p.2.type = "NAME") (hob : ob.type = "{")
    (hy : Yields env.cfg w.buf (kw :: first :: (pairs.flatMap (fun p => [p.1, p.2]) ++ [ob])) b')
    (hF : pairs.length + 1 ≤ F) :
    ∃ (d : Option String) (bD : Buf) (w' : World) (ct : CTok),
      getDoxygen env.cfg env.mcRe w.buf = .ok (d, bD) ∧ w'.buf = b' ∧
      w'.stack = w.stack ∧ w'.events = w.events ∧ w'.delivered = w.delivered ∧ w'.anon = w.anon ∧ w'.muted = w.muted ∧
      w'.nextId = w.nextId ∧ w'.mainTok = some ct ∧ ct.value = kw.value ∧
      interp env (mainBody F c none) w =
        match interp env (nsFinish (.tok ct.sidx) d false (first.value :: pairs.map (·.2.value)) none) w' with
        | (w3, .ok ()) => (w3, .ok (.inl none))
        | (w3, .error e) => (w3, .error e) := by
  cases hy with
  | cons htok hrest =>
    rename_i b1
    obtain ⟨d, bD, wA, ct, hd, hsA, hbA, hty, hv, hi⟩ := mainBody_item env hp F c w kw b1 htok
    obtain ⟨w', hb, hs, hns⟩ := namespace_form env F ct d false first pairs ob { wA with mainTok := some ct } b' hf hall hob
      (by show Yields env.cfg wA.buf _ _; rw [hbA]; exact hrest) hF
    refine ⟨d, bD, w', ct, hd, hb, ?_, ?_, ?_, ?_, ?_, ?_, ?_, hv, ?_⟩
    · rw [hs.stack]; exact hsA.stack
    · rw [hs.events]; exact hsA.events
    · rw [hs.delivered]; exact hsA.delivered
    · rw [hs.anon]; exact hsA.anon
    · rw [hs.muted]; exact hsA.muted
    · rw [hs.nextId]; exact hsA.nextId
    · rw [hs.mainTok]
    · rw [hi]
      have hti : topItem F c ct d = parseNamespace F ct d false := by
        unfold topItem
        rw [hty, hkw, dispatch_namespace]
        rfl
      have hcar : carry ct d = none := by
        unfold carry
        rw [hty, hkw, keep_not_namespace]
        rfl
      rw [hti, hns, hcar]

/-- generic shape of an iteration whose first token's type is dispatched to `handler`, for a type
    outside the keep set: the handler runs with the doc text found and NO doc text is handed on -/
theorem toplevel_dispatch (env : Env) (hp : RulesProgress env.cfg = true) (F : Nat) (c : Core) (w : World) (t : Tok) (b1 : Buf)
    (handler : String) (ht : tokenEofOk env.cfg w.buf = .ok (some t, b1))
    (hd : Gen.dispatchTable.lookup t.type = some handler) (hk : Gen.keepDoxygen.contains t.type = false) :
    ∃ (d : Option String) (bD : Buf) (wA : World) (ct : CTok),
      getDoxygen env.cfg env.mcRe w.buf = .ok (d, bD) ∧ SameParse w wA ∧ wA.buf = b1 ∧
      ct.type = t.type ∧ ct.value = t.value ∧
      interp env (mainBody F c none) w =
        match interp env (dispatch F c handler ct d) { wA with mainTok := some ct } with
        | (w3, .ok ()) => (w3, .ok (.inl none))
        | (w3, .error e) => (w3, .error e) := by
  obtain ⟨d, bD, wA, ct, hdx, hs, hb, hty, hv, hi⟩ := mainBody_item env hp F c w t b1 ht
  refine ⟨d, bD, wA, ct, hdx, hs, hb, hty, hv, ?_⟩
  have hti : topItem F c ct d = dispatch F c handler ct d := by
    unfold topItem
    rw [hty, hd]
  have hcar : carry ct d = none := by
    unfold carry
    rw [hty, hk]
    rfl
  rw [hi, hti, hcar]

/-- `;` alone (an empty declaration): nothing happens -/
theorem toplevel_semicolon (env : Env) (hp : RulesProgress env.cfg = true) (F : Nat) (c : Core) (w : World) (t : Tok) (b1 : Buf)
    (ht : tokenEofOk env.cfg w.buf = .ok (some t, b1)) (hty : t.type = ";") :
    ∃ (wA : World) (ct : CTok), SameParse w wA ∧ wA.buf = b1 ∧ ct.value = t.value ∧
      interp env (mainBody F c none) w = ({ wA with mainTok := some ct }, .ok (.inl none)) := by
  obtain ⟨d, bD, wA, ct, _, hs, hb, _, hv, hi⟩ := toplevel_dispatch env hp F c w t b1 "<lambda:Constant(None)>" ht
    (by rw [hty, dispatch_table_eq]; decide) (by rw [hty, keep_doxygen_eq]; decide)
  refine ⟨wA, ct, hs, hb, hv, ?_⟩
  rw [hi]
  simp [dispatch, pure, interp]

/-- `}` closing a namespace or extern block -/
theorem toplevel_block_end (env : Env) (hp : RulesProgress env.cfg = true) (F : Nat) (c : Core) (w : World) (t : Tok) (b1 : Buf)
    (blk : Block) (rest : List Block) (hstack : w.stack = blk :: rest) (hg : blk.isGlobal = false) (hk : blk.hdr.kind ≠ .cls)
    (ht : tokenEofOk env.cfg w.buf = .ok (some t, b1)) (hty : t.type = "}") :
    ∃ (wA : World) (ct : CTok), SameParse w wA ∧ wA.buf = b1 ∧ ct.value = t.value ∧
      interp env (mainBody F c none) w =
        match deliver env { wA with mainTok := some ct }
            (mkEvent { wA with mainTok := some ct } .blockEnd blk (rest.head?.map (·.id))) with
        | (w1, some e) => (w1, .error e)
        | (w1, none) => ({ w1 with muted := blk.priorMuted, stack := rest }, .ok (.inl none)) := by
  obtain ⟨d, bD, wA, ct, _, hs, hb, _, hv, hi⟩ := toplevel_dispatch env hp F c w t b1 "_on_block_end" ht
    (by rw [hty, dispatch_table_eq]; decide) (by rw [hty, keep_doxygen_eq]; decide)
  refine ⟨wA, ct, hs, hb, hv, ?_⟩
  rw [hi]
  have hst : ({ wA with mainTok := some ct } : World).stack = blk :: rest := by
    show wA.stack = _
    rw [hs.stack]; exact hstack
  have := block_end_nonclass env F c { wA with mainTok := some ct } blk rest hst hg hk
  simp only [dispatch, this]
  cases deliver env { wA with mainTok := some ct } (mkEvent { wA with mainTok := some ct } .blockEnd blk (rest.head?.map (·.id))) with
  | mk w1 o => cases o <;> rfl

/-- `extern "L" {` outside a class -/
theorem toplevel_extern_block (env : Env) (hp : RulesProgress env.cfg = true) (F : Nat) (c : Core) (w : World)
    (kw str ob : Tok) (b' : Buf) (blk : Block) (rest : List Block) (hstack : w.stack = blk :: rest) (hk : blk.view.kind ≠ .cls)
    (hkw : kw.type = "extern") (hs : str.type = "STRING_LITERAL") (hob : ob.type = "{")
    (hy : Yields env.cfg w.buf [kw, str, ob] b') :
    ∃ (w' : World) (ct e : CTok), w'.buf = b' ∧ w'.stack = w.stack ∧ w'.events = w.events ∧ w'.anon = w.anon ∧
      w'.muted = w.muted ∧ ct.value = kw.value ∧ e.value = str.value ∧
      interp env (mainBody F c none) w =
        match interp env (Prog.push { kind := .ext, loc := .tok ct.sidx, linkage := e.value } (Prog.pure ())) w' with
        | (w3, .ok ()) => (w3, .ok (.inl none))
        | (w3, .error e) => (w3, .error e) := by
  cases hy with
  | cons htok hrest =>
    rename_i b1
    obtain ⟨d, bD, wA, ct, _, hsA, hbA, _, hv, hi⟩ := toplevel_dispatch env hp F c w kw b1 "_parse_extern" htok
      (by rw [hkw, dispatch_table_eq]; decide) (by rw [hkw, keep_doxygen_eq]; decide)
    obtain ⟨w', e, hb, hs', hev, hx⟩ := extern_block_form env F c ct d str ob { wA with mainTok := some ct } b' blk rest
      (by show wA.stack = _; rw [hsA.stack]; exact hstack) hk hs hob (by show Yields env.cfg wA.buf _ _; rw [hbA]; exact hrest)
    refine ⟨w', ct, e, hb, ?_, ?_, ?_, ?_, hv, hev, ?_⟩
    · rw [hs'.stack]; exact hsA.stack
    · rw [hs'.events]; exact hsA.events
    · rw [hs'.anon]; exact hsA.anon
    · rw [hs'.muted]; exact hsA.muted
    · rw [hi]
      simp only [dispatch, hx]

/-- `public:` / `protected:` / `private:` in a class body -/
theorem toplevel_access_specifier (env : Env) (hp : RulesProgress env.cfg = true) (F : Nat) (c : Core) (w : World)
    (kw colon : Tok) (b' : Buf) (blk : Block) (rest : List Block) (hstack : w.stack = blk :: rest) (hk : blk.view.kind = .cls)
    (hkw : kw.type = "public" ∨ kw.type = "protected" ∨ kw.type = "private") (hc : colon.type = ":")
    (hy : Yields env.cfg w.buf [kw, colon] b') :
    ∃ (w' : World), interp env (mainBody F c none) w = (w', .ok (.inl none)) ∧ w'.buf = b' ∧
      w'.stack = { blk with access := some kw.value } :: rest ∧
      w'.events = w.events ∧ w'.delivered = w.delivered ∧ w'.anon = w.anon ∧ w'.muted = w.muted := by
  cases hy with
  | cons htok hrest =>
    rename_i b1
    cases hrest with
    | cons htok2 hrest2 =>
      rename_i b2
      have hbb : b2 = b' := by cases hrest2; rfl
      subst hbb
      obtain ⟨d, bD, wA, ct, _, hsA, hbA, _, hv, hi⟩ := toplevel_dispatch env hp F c w kw b1 "_process_access_specifier" htok
        (by rcases hkw with h | h | h <;> (rw [h, dispatch_table_eq]; decide))
        (by rcases hkw with h | h | h <;> (rw [h, keep_doxygen_eq]; decide))
      obtain ⟨w', hi2, hb, hst, hev, hdl, han, hmu⟩ := access_specifier_form env ct colon { wA with mainTok := some ct } b2 blk rest
        (by show wA.stack = _; rw [hsA.stack]; exact hstack) hk hc (by show tokenEofOk env.cfg wA.buf = _; rw [hbA]; exact htok2)
      refine ⟨w', ?_, hb, by rw [hst, hv], ?_, ?_, ?_, ?_⟩
      · rw [hi]
        simp only [dispatch, hi2]
      · rw [hev]; exact hsA.events
      · rw [hdl]; exact hsA.delivered
      · rw [han]; exact hsA.anon
      · rw [hmu]; exact hsA.muted

/-- **`using namespace n1 :: … :: nk ;`, the whole declaration through `parse()`'s loop**: with an
    active visitor that does not raise here, the iteration delivers exactly ONE callback —
    `on_using_namespace [n1, …, nk]` for the innermost open block — consumes exactly the
    declaration, records the `using` token's location on that block and changes nothing else. -/
theorem toplevel_using_namespace (env : Env) (hp : RulesProgress env.cfg = true) (F : Nat) (c : Core) (w : World)
    (kwU kwN first : Tok) (pairs : List (Tok × Tok)) (semi : Tok) (b' : Buf)
    (blk : Block) (rest : List Block) (hstack : w.stack = blk :: rest) (hk : blk.view.kind ≠ .cls)
    (hmu : w.muted = false) (hfa : ¬ env.faultAt = some w.delivered)
    (hU : kwU.type = "using") (hN : kwN.type = "namespace") (hf : first.type = "NAME")
    (hall : ∀ p ∈ pairs, p.1.type = "DBL_COLON" ∧ p.2.type = "NAME") (hsemi : semi.type = ";")
    (hy : Yields env.cfg w.buf (kwU :: ((kwN :: first :: pairs.flatMap (fun p => [p.1, p.2])) ++ [semi])) b')
    (hF : pairs.length + 1 ≤ F) :
    ∃ (w2 : World) (ct : CTok) (ev : Event), interp env (mainBody F c none) w = (w2, .ok (.inl none)) ∧ w2.buf = b' ∧
      ct.value = kwU.value ∧
      w2.stack = { blk with loc := .tok ct.sidx } :: rest ∧ w2.events = w.events ++ [ev] ∧
      ev.kind = .item (.usingNamespace (first.value :: pairs.map (·.2.value))) ∧ ev.stateId = blk.id ∧
      ev.parentId = rest.head?.map (·.id) ∧
      w2.delivered = w.delivered + 1 ∧ w2.anon = w.anon ∧ w2.muted = false := by
  cases hy with
  | cons htok hrest =>
    rename_i b1
    obtain ⟨bmid, hy1, hy2⟩ := Yields.split hrest
    cases hy2 with
    | cons htokS hnil =>
      rename_i bS
      have hbS : bS = b' := by cases hnil; rfl
      subst hbS
      obtain ⟨d, bD, wA, ct, _, hsA, hbA, _, hv, hi⟩ := toplevel_dispatch env hp F c w kwU b1 "_parse_using" htok
        (by rw [hU, dispatch_table_eq]; decide) (by rw [hU, keep_doxygen_eq]; decide)
      obtain ⟨w', t', hb, htv, hs', hx⟩ := using_namespace_decl env F c ct d kwN first pairs semi { wA with mainTok := some ct } bmid bS
        blk rest (by show wA.stack = _; rw [hsA.stack]; exact hstack) hk hN hf hall
        (by show Yields env.cfg wA.buf _ _; rw [hbA]; exact hy1) htokS (by rw [hsemi]; decide) hF
      -- the callback
      have hst' : w'.stack = { blk with loc := .tok ct.sidx } :: rest := hs'.stack
      have hmu' : w'.muted = false := by rw [hs'.muted]; show wA.muted = _; rw [hsA.muted]; exact hmu
      have hdl' : w'.delivered = w.delivered := by rw [hs'.delivered]; show wA.delivered = _; exact hsA.delivered
      have hev' : w'.events = w.events := by rw [hs'.events]; show wA.events = _; exact hsA.events
      have han' : w'.anon = w.anon := by rw [hs'.anon]; show wA.anon = _; exact hsA.anon
      have hdel := deliver_passing env w' (mkEvent w' (.item (.usingNamespace (first.value :: pairs.map (·.2.value))))
        { blk with loc := .tok ct.sidx } (rest.head?.map (·.id))) hmu' (by rw [hdl']; exact hfa)
      -- the `;`
      have hnd : isDiscard t'.type = false := by
        have h1 := tokenEofOk_not_discard htokS
        have h2 : t'.type = semi.type := congrArg Prod.fst htv
        rw [h2]; exact h1
      have htokT : tokenEofOk env.cfg
          ({ w' with events := w'.events ++ [mkEvent w' (.item (.usingNamespace (first.value :: pairs.map (·.2.value))))
              { blk with loc := .tok ct.sidx } (rest.head?.map (·.id))], delivered := w'.delivered + 1 } : World).buf =
          .ok (some t', bS) := by
        show tokenEofOk env.cfg w'.buf = _
        rw [hb]; exact tokenEofOk_returnToken env.cfg t' bS hnd
      obtain ⟨w2, c2, hi2, hb2, hs2, _, _⟩ := step_mustBe env [";"] _ t' bS htokT
        (by have h2 : t'.type = semi.type := congrArg Prod.fst htv; rw [h2, hsemi]; decide)
      refine ⟨w2, ct, _, ?_, hb2, hv, by rw [hs2.stack]; exact hst', by rw [hs2.events, hev'], rfl, rfl, rfl,
        by rw [hs2.delivered, hdl'], by rw [hs2.anon]; exact han', by rw [hs2.muted]; exact hmu'⟩
      rw [hi]
      have hi2' := hi2
      simp only [hst'] at hi2'
      simp only [dispatch, hx, bind, interp_bind, P.emit, interp, hst', hdel, hi2', pure]

/-- **`namespace n1 :: … :: nk {` through `parse()`'s loop, to the callback**: outside a class,
    with an active visitor that does not raise here, the iteration delivers exactly ONE
    callback — the start of a new namespace block carrying exactly the written names and the
    doc text `get_doxygen` found, child of the innermost open block — pushes exactly that block,
    and mutes the visitor iff the callback asked to skip it (`pushedWorld`). -/
theorem toplevel_namespace_opens (env : Env) (hp : RulesProgress env.cfg = true) (F : Nat) (c : Core) (w : World)
    (kw first : Tok) (pairs : List (Tok × Tok)) (ob : Tok) (b' : Buf)
    (blk : Block) (rest : List Block) (hstack : w.stack = blk :: rest) (hk : blk.view.kind ≠ .cls)
    (hmu : w.muted = false) (hfa : ¬ env.faultAt = some w.delivered)
    (hkw : kw.type = "namespace") (hf : first.type = "NAME")
    (hall : ∀ p ∈ pairs, p.1.type = "DBL_COLON" ∧ p.2.type = "NAME") (hob : ob.type = "{")
    (hy : Yields env.cfg w.buf (kw :: first :: (pairs.flatMap (fun p => [p.1, p.2]) ++ [ob])) b')
    (hF : pairs.length + 1 ≤ F) :
    ∃ (d : Option String) (bD : Buf) (w' : World) (ct : CTok),
      getDoxygen env.cfg env.mcRe w.buf = .ok (d, bD) ∧ w'.buf = b' ∧
      w'.stack = w.stack ∧ w'.events = w.events ∧ w'.delivered = w.delivered ∧ w'.anon = w.anon ∧ w'.muted = w.muted ∧
      w'.nextId = w.nextId ∧ ct.value = kw.value ∧
      interp env (mainBody F c none) w =
        (pushedWorld env { kind := .ns, loc := .tok ct.sidx, ns := { names := first.value :: pairs.map (·.2.value), inline := false, doxygen := d } } w',
          .ok (.inl none)) := by
  obtain ⟨d, bD, w', ct, hd, hb, hst, hev, hdl, han, hmu', hnx, _, hv, hi⟩ :=
    toplevel_namespace env hp F c w kw first pairs ob b' hkw hf hall hob hy hF
  have htop := interp_getTop env w' blk rest (by rw [hst]; exact hstack)
  have hk' : ¬ blk.view.kind = .cls := hk
  have hpush := interp_push_passing env { kind := .ns, loc := .tok ct.sidx, ns := { names := first.value :: pairs.map (·.2.value), inline := false, doxygen := d } } w'
    (by rw [hmu']; exact hmu) (by rw [hdl]; exact hfa)
  refine ⟨d, bD, w', ct, hd, hb, hst, hev, hdl, han, hmu', hnx, hv, ?_⟩
  rw [hi]
  unfold nsFinish
  simp only [Bool.false_and, Bool.false_eq_true, ↓reduceIte, bind, interp_bind, htop, hk', hpush]

/-- **`extern "L" {` through `parse()`'s loop, to the callback** -/
theorem toplevel_extern_opens (env : Env) (hp : RulesProgress env.cfg = true) (F : Nat) (c : Core) (w : World)
    (kw str ob : Tok) (b' : Buf) (blk : Block) (rest : List Block) (hstack : w.stack = blk :: rest) (hk : blk.view.kind ≠ .cls)
    (hmu : w.muted = false) (hfa : ¬ env.faultAt = some w.delivered)
    (hkw : kw.type = "extern") (hs : str.type = "STRING_LITERAL") (hob : ob.type = "{")
    (hy : Yields env.cfg w.buf [kw, str, ob] b') :
    ∃ (w' : World) (ct e : CTok), w'.buf = b' ∧ w'.stack = w.stack ∧ w'.events = w.events ∧ w'.anon = w.anon ∧
      w'.muted = w.muted ∧ w'.delivered = w.delivered ∧ w'.nextId = w.nextId ∧ ct.value = kw.value ∧ e.value = str.value ∧
      interp env (mainBody F c none) w =
        (pushedWorld env { kind := .ext, loc := .tok ct.sidx, linkage := e.value } w', .ok (.inl none)) := by
  cases hy with
  | cons htok hrest =>
    rename_i b1
    obtain ⟨d, bD, wA, ct, _, hsA, hbA, _, hv, hi⟩ := toplevel_dispatch env hp F c w kw b1 "_parse_extern" htok
      (by rw [hkw, dispatch_table_eq]; decide) (by rw [hkw, keep_doxygen_eq]; decide)
    obtain ⟨w', e, hb, hs', hev, hx⟩ := extern_block_form env F c ct d str ob { wA with mainTok := some ct } b' blk rest
      (by show wA.stack = _; rw [hsA.stack]; exact hstack) hk hs hob (by show Yields env.cfg wA.buf _ _; rw [hbA]; exact hrest)
    have hmu' : w'.muted = w.muted := by rw [hs'.muted]; exact hsA.muted
    have hdl' : w'.delivered = w.delivered := by rw [hs'.delivered]; exact hsA.delivered
    have hpush := interp_push_passing env { kind := .ext, loc := .tok ct.sidx, linkage := e.value } w'
      (by rw [hmu']; exact hmu) (by rw [hdl']; exact hfa)
    refine ⟨w', ct, e, hb, ?_, ?_, ?_, hmu', hdl', ?_, hv, hev, ?_⟩
    · rw [hs'.stack]; exact hsA.stack
    · rw [hs'.events]; exact hsA.events
    · rw [hs'.anon]; exact hsA.anon
    · rw [hs'.nextId]; exact hsA.nextId
    · rw [hi]
      simp only [dispatch, hx, hpush]

theorem logged_same (env : Env) (w : World) (m : String) :
    (logged env w m).buf = w.buf ∧ (logged env w m).stack = w.stack ∧ (logged env w m).muted = w.muted ∧
    (logged env w m).events = w.events ∧ (logged env w m).delivered = w.delivered ∧ (logged env w m).anon = w.anon ∧
    (logged env w m).nextId = w.nextId := by
  unfold logged; split <;> exact ⟨rfl, rfl, rfl, rfl, rfl, rfl, rfl⟩

/-- **`using n1 :: … :: nk ;`, the whole declaration through `parse()`'s loop**: with an active
    visitor that does not raise here, the iteration delivers exactly ONE callback —
    `on_using_declaration` with the written name, the access level in force (the innermost
    class's; none outside a class) and the doc text `get_doxygen` found — consumes exactly the
    declaration and changes nothing else but the block's recorded location (and the debug log
    in verbose mode). -/
theorem toplevel_using_declaration (env : Env) (hp : RulesProgress env.cfg = true) (F D : Nat) (w : World)
    (kwU first : Tok) (pairs : List (Tok × Tok)) (semi : Tok) (b' : Buf)
    (blk : Block) (rest : List Block) (hstack : w.stack = blk :: rest)
    (hmu : w.muted = false) (hfa : ¬ env.faultAt = some w.delivered)
    (hU : kwU.type = "using") (hf : first.type = "NAME") (hfv : plainVal first.value = true)
    (hfc : Gen.nameCompoundStart.contains first.value = false)
    (hall : ∀ p ∈ pairs, p.1.type = "DBL_COLON" ∧ p.2.type = "NAME" ∧ plainVal p.2.value = true) (hsemi : semi.type = ";")
    (hy : Yields env.cfg w.buf (kwU :: ((first :: pairs.flatMap (fun p => [p.1, p.2])) ++ [semi])) b')
    (hF : pairs.length + 1 ≤ F) :
    ∃ (d : Option String) (bD : Buf) (w2 : World) (ct : CTok) (ev : Event),
      getDoxygen env.cfg env.mcRe w.buf = .ok (d, bD) ∧
      interp env (mainBody F (core F (D + 1)) none) w = (w2, .ok (.inl none)) ∧ w2.buf = b' ∧
      ct.value = kwU.value ∧
      w2.stack = { blk with loc := .tok ct.sidx } :: rest ∧ w2.events = w.events ++ [ev] ∧
      ev.kind = .item (.usingDeclaration {
        typename := .mk (.name first.value none :: pairs.map (fun p => .name p.2.value none)) none false,
        access := if blk.hdr.kind = .cls then blk.access else none, doxygen := d }) ∧
      ev.stateId = blk.id ∧ ev.parentId = rest.head?.map (·.id) ∧
      w2.delivered = w.delivered + 1 ∧ w2.anon = w.anon ∧ w2.muted = false ∧ w2.nextId = w.nextId := by
  cases hy with
  | cons htok hrest =>
    rename_i b1
    obtain ⟨bmid, hy1, hy2⟩ := Yields.split hrest
    cases hy2 with
    | cons htokS hnil =>
      rename_i bS
      have hbS : bS = b' := by cases hnil; rfl
      subst hbS
      obtain ⟨d, bD, wA, ct, hd, hsA, hbA, _, hv, hi⟩ := toplevel_dispatch env hp F (core F (D + 1)) w kwU b1 "_parse_using" htok
        (by rw [hU, dispatch_table_eq]; decide) (by rw [hU, keep_doxygen_eq]; decide)
      obtain ⟨w', t', hs', htokT0, htyT, hx⟩ := using_declaration_decl env F D ct d first pairs semi { wA with mainTok := some ct } bmid bS
        blk rest (by show wA.stack = _; rw [hsA.stack]; exact hstack) hf hfv hfc hall hsemi
        (by show Yields env.cfg wA.buf _ _; rw [hbA]; exact hy1) htokS hF
      obtain ⟨lb, ls, lm, le, ld, la, ln⟩ := logged_same env w' "parse_pqname"
      generalize hwL : logged env w' "parse_pqname" = wL at *
      have hst' : wL.stack = { blk with loc := .tok ct.sidx } :: rest := by rw [ls]; exact hs'.stack
      have hmu' : wL.muted = false := by rw [lm, hs'.muted]; show wA.muted = _; rw [hsA.muted]; exact hmu
      have hdl' : wL.delivered = w.delivered := by rw [ld, hs'.delivered]; show wA.delivered = _; exact hsA.delivered
      have hev' : wL.events = w.events := by rw [le, hs'.events]; show wA.events = _; exact hsA.events
      have han' : wL.anon = w.anon := by rw [la, hs'.anon]; show wA.anon = _; exact hsA.anon
      have hnx' : wL.nextId = w.nextId := by rw [ln, hs'.nextId]; show wA.nextId = _; exact hsA.nextId
      have hdel := deliver_passing env wL (mkEvent wL (.item (.usingDeclaration {
          typename := .mk (.name first.value none :: pairs.map (fun p => .name p.2.value none)) none false,
          access := if blk.hdr.kind = .cls then blk.access else none, doxygen := d }))
        { blk with loc := .tok ct.sidx } (rest.head?.map (·.id))) hmu' (by rw [hdl']; exact hfa)
      have htokT : tokenEofOk env.cfg
          ({ wL with events := wL.events ++ [mkEvent wL (.item (.usingDeclaration {
              typename := .mk (.name first.value none :: pairs.map (fun p => .name p.2.value none)) none false,
              access := if blk.hdr.kind = .cls then blk.access else none, doxygen := d }))
              { blk with loc := .tok ct.sidx } (rest.head?.map (·.id))], delivered := wL.delivered + 1 } : World).buf =
          .ok (some t', bS) := by
        show tokenEofOk env.cfg wL.buf = _
        rw [lb]; exact htokT0
      obtain ⟨w2, c2, hi2, hb2, hs2, _, _⟩ := step_mustBe env [";"] _ t' bS htokT (by rw [htyT]; decide)
      refine ⟨d, bD, w2, ct, _, hd, ?_, hb2, hv, by rw [hs2.stack]; exact hst', by rw [hs2.events, hev'], rfl, rfl, rfl,
        by rw [hs2.delivered, hdl'], by rw [hs2.anon]; exact han', by rw [hs2.muted]; exact hmu', by rw [hs2.nextId]; exact hnx'⟩
      rw [hi]
      have hi2' := hi2
      simp only [hst'] at hi2'
      simp only [dispatch, hx, bind, interp_bind, P.emit, interp, hst', hdel, hi2', pure]

/-- **`T ptr-ops x ;` — a variable declaration through `parse()`'s loop.**  `T` a qualified name of
    identifiers (any length), `ptr-ops` empty or any sequence of `*`, `const`, `volatile` starting
    with `*`, `x` an identifier; any comments and blank lines between the tokens.  Outside a class,
    with an active visitor that does not raise here, the iteration delivers exactly ONE callback —
    `on_variable` for the innermost open block with the name `x`, the type the declarator denotes
    (`applyPtrOps`: each `*` a pointer to the type so far, carrying the qualifiers written after
    it), no value, and the doc text: the block `get_doxygen` found before the declaration or, when
    there is none, what `get_doxygen_after` finds behind it — consumes exactly the declaration,
    records the first token's location on the block, and hands no doc text on. -/
theorem toplevel_variable (env : Env) (hp : RulesProgress env.cfg = true) (F D : Nat) (w : World)
    (first : Tok) (pairs : List (Tok × Tok)) (ops : List Tok) (x semi : Tok) (d1 : DType) (b1 b0 bmid bx b' : Buf)
    (blk : Block) (rest : List Block) (hstack : w.stack = blk :: rest) (hk : blk.hdr.kind ≠ .cls)
    (hmu : w.muted = false) (hfa : ¬ env.faultAt = some w.delivered)
    (htok : tokenEofOk env.cfg w.buf = .ok (some first, b1))
    (hty : first.type = "NAME") (htv : identVal first.value = true)
    (hall : ∀ p ∈ pairs, p.1.type = "DBL_COLON" ∧ p.2.type = "NAME" ∧ plainVal p.2.value = true)
    (hy0 : Yields env.cfg b1 (pairs.flatMap (fun p => [p.1, p.2])) b0)
    (hops : opsHeadOk ops = true) (hopsv : ∀ o ∈ ops, o.value ≠ "auto")
    (hy : Yields env.cfg b0 ops bmid)
    (ha : applyPtrOps (.type (.mk (.name first.value none :: pairs.map (fun p => .name p.2.value none)) none false) false false)
      (ops.map (·.type)) = some d1)
    (htx : tokenEofOk env.cfg bmid = .ok (some x, bx)) (hx : x.type = "NAME") (hxv : identVal x.value = true)
    (hsemi : tokenEofOk env.cfg bx = .ok (some semi, b')) (hs : semi.type = ";")
    (hF : pairs.length + ops.length + 2 ≤ F) :
    ∃ (d : Option String) (bD : Buf) (w7 : World) (ct : CTok) (dox : Option String) (ev : Event),
      getDoxygen env.cfg env.mcRe w.buf = .ok (d, bD) ∧
      interp env (mainBody F (core F (D + 1 + 1)) none) w = (w7, .ok (.inl none)) ∧
      SigEq b' w7.buf ∧ ct.value = first.value ∧ w7.stack = { blk with loc := .tok ct.sidx } :: rest ∧
      w7.events = w.events ++ [ev] ∧ ev.kind = .item (.variable (plainVariable x d1 dox)) ∧
      ev.stateId = blk.id ∧ ev.parentId = rest.head?.map (·.id) ∧ (∀ dd, d = some dd → dox = some dd) ∧
      w7.delivered = w.delivered + 1 ∧ w7.anon = w.anon ∧ w7.muted = false ∧ w7.nextId = w.nextId := by
  obtain ⟨d, bD, wA, ct, hd, hsA, hbA, htyc, hv, hi⟩ := mainBody_item env hp F (core F (D + 1 + 1)) w first b1 htok
  obtain ⟨w7, dox, ev, hi7, hsig, hst7, hev7, hk7, hid7, hpar7, hdox7, hdl7, han7, hmu7, hnx7, _⟩ :=
    parseDeclarations_variable env F D ct d pairs ops x semi d1 { wA with mainTok := some ct } b0 bmid bx b' blk rest
      (by show wA.stack = _; rw [hsA.stack]; exact hstack) hk (by show wA.muted = _; rw [hsA.muted]; exact hmu)
      (by show ¬ env.faultAt = some wA.delivered; rw [hsA.delivered]; exact hfa) (htyc.trans hty) (by rw [hv]; exact htv) hall
      (by show Yields env.cfg wA.buf _ _; rw [hbA]; exact hy0) hops hopsv hy (by rw [hv]; exact ha) htx hx hxv hsemi hs hF
  refine ⟨d, bD, w7, ct, dox, ev, hd, ?_, hsig, hv, hst7, by rw [hev7]; show wA.events ++ _ = _; rw [hsA.events], hk7, hid7, hpar7,
    hdox7, by rw [hdl7]; show wA.delivered + 1 = _; rw [hsA.delivered], by rw [han7]; exact hsA.anon, hmu7,
    by rw [hnx7]; exact hsA.nextId⟩
  rw [hi]
  have hti : topItem F (core F (D + 1 + 1)) ct d = parseDeclarations F (core F (D + 1 + 1)) ct d := by
    unfold topItem
    have : Gen.dispatchTable.lookup "NAME" = none := by rw [dispatch_table_eq]; decide
    rw [htyc, hty, this]
  have hcar : carry ct d = none := by
    unfold carry
    have : Gen.keepDoxygen.contains "NAME" = false := by rw [keep_doxygen_eq]; decide
    rw [htyc, hty, this]
    rfl
  rw [hti, hi7, hcar]

/-- **`T ptr-ops x ;` in a class body — a data member through `parse()`'s loop**: as
    `toplevel_variable`, with exactly ONE `on_class_field` for the innermost open class carrying the
    name `x`, the type the declarator denotes, the access level in force in THAT class, no bit
    width, no value, and the doc text before or else behind the declaration. -/
theorem toplevel_field (env : Env) (hp : RulesProgress env.cfg = true) (F D : Nat) (w : World)
    (first : Tok) (pairs : List (Tok × Tok)) (ops : List Tok) (x semi : Tok) (d1 : DType) (b1 b0 bmid bx b' : Buf)
    (blk : Block) (rest : List Block) (hstack : w.stack = blk :: rest) (hk : blk.hdr.kind = .cls) (acc : String) (hacc : blk.access = some acc)
    (hmu : w.muted = false) (hfa : ¬ env.faultAt = some w.delivered)
    (htok : tokenEofOk env.cfg w.buf = .ok (some first, b1))
    (hty : first.type = "NAME") (htv : identVal first.value = true)
    (hall : ∀ p ∈ pairs, p.1.type = "DBL_COLON" ∧ p.2.type = "NAME" ∧ plainVal p.2.value = true)
    (hy0 : Yields env.cfg b1 (pairs.flatMap (fun p => [p.1, p.2])) b0)
    (hops : opsHeadOk ops = true) (hopsv : ∀ o ∈ ops, o.value ≠ "auto")
    (hy : Yields env.cfg b0 ops bmid)
    (ha : applyPtrOps (.type (.mk (.name first.value none :: pairs.map (fun p => .name p.2.value none)) none false) false false)
      (ops.map (·.type)) = some d1)
    (htx : tokenEofOk env.cfg bmid = .ok (some x, bx)) (hx : x.type = "NAME") (hxv : identVal x.value = true)
    (hsemi : tokenEofOk env.cfg bx = .ok (some semi, b')) (hs : semi.type = ";")
    (hF : pairs.length + ops.length + 2 ≤ F) :
    ∃ (d : Option String) (bD : Buf) (w7 : World) (ct : CTok) (dox : Option String) (ev : Event),
      getDoxygen env.cfg env.mcRe w.buf = .ok (d, bD) ∧
      interp env (mainBody F (core F (D + 1 + 1)) none) w = (w7, .ok (.inl none)) ∧
      SigEq b' w7.buf ∧ ct.value = first.value ∧ w7.stack = { blk with loc := .tok ct.sidx } :: rest ∧
      w7.events = w.events ++ [ev] ∧ ev.kind = .item (.classField (plainField x d1 acc dox)) ∧
      ev.stateId = blk.id ∧ ev.parentId = rest.head?.map (·.id) ∧ (∀ dd, d = some dd → dox = some dd) ∧
      w7.delivered = w.delivered + 1 ∧ w7.anon = w.anon ∧ w7.muted = false ∧ w7.nextId = w.nextId := by
  obtain ⟨d, bD, wA, ct, hd, hsA, hbA, htyc, hv, hi⟩ := mainBody_item env hp F (core F (D + 1 + 1)) w first b1 htok
  obtain ⟨w7, dox, ev, hi7, hsig, hst7, hev7, hk7, hid7, hpar7, hdox7, hdl7, han7, hmu7, hnx7, _⟩ :=
    parseDeclarations_field env F D ct d pairs ops x semi d1 { wA with mainTok := some ct } b0 bmid bx b' blk rest
      (by show wA.stack = _; rw [hsA.stack]; exact hstack) hk acc hacc (by show wA.muted = _; rw [hsA.muted]; exact hmu)
      (by show ¬ env.faultAt = some wA.delivered; rw [hsA.delivered]; exact hfa) (htyc.trans hty) (by rw [hv]; exact htv) hall
      (by show Yields env.cfg wA.buf _ _; rw [hbA]; exact hy0) hops hopsv hy (by rw [hv]; exact ha) htx hx hxv hsemi hs hF
  refine ⟨d, bD, w7, ct, dox, ev, hd, ?_, hsig, hv, hst7, by rw [hev7]; show wA.events ++ _ = _; rw [hsA.events], hk7, hid7, hpar7,
    hdox7, by rw [hdl7]; show wA.delivered + 1 = _; rw [hsA.delivered], by rw [han7]; exact hsA.anon, hmu7,
    by rw [hnx7]; exact hsA.nextId⟩
  rw [hi]
  have hti : topItem F (core F (D + 1 + 1)) ct d = parseDeclarations F (core F (D + 1 + 1)) ct d := by
    unfold topItem
    have : Gen.dispatchTable.lookup "NAME" = none := by rw [dispatch_table_eq]; decide
    rw [htyc, hty, this]
  have hcar : carry ct d = none := by
    unfold carry
    have : Gen.keepDoxygen.contains "NAME" = false := by rw [keep_doxygen_eq]; decide
    rw [htyc, hty, this]
    rfl
  rw [hti, hi7, hcar]

/-- as `toplevel_variables`, and the block on top is the same one with its location moved -/
theorem toplevel_variables_loc (env : Env) (hp : RulesProgress env.cfg = true) (hnf : env.faultAt = none) (F D : Nat) (w : World)
    (first : Tok) (pairs : List (Tok × Tok)) (ds : List (Dtor × DType)) (last : Dtor × DType) (b1 b0 b' : Buf)
    (blk : Block) (rest : List Block) (hstack : w.stack = blk :: rest) (hk : blk.hdr.kind ≠ .cls) (hmu : w.muted = false)
    (htok : tokenEofOk env.cfg w.buf = .ok (some first, b1))
    (hty : first.type = "NAME") (htv : identVal first.value = true)
    (hall : ∀ p ∈ pairs, p.1.type = "DBL_COLON" ∧ p.2.type = "NAME" ∧ plainVal p.2.value = true)
    (hy0 : Yields env.cfg b1 (pairs.flatMap (fun p => [p.1, p.2])) b0)
    (hops : opsHeadOk (firstDtor ds last).ops = true) (hopsv : ∀ o ∈ (firstDtor ds last).ops, o.value ≠ "auto")
    (hds : ∀ p ∈ ds, p.1.OK (.type (.mk (.name first.value none :: pairs.map (fun p => .name p.2.value none)) none false) false false) p.2 ∧
      p.1.sep.type = "," ∧ p.1.ops.length + 1 ≤ F)
    (hlast : last.1.OK (.type (.mk (.name first.value none :: pairs.map (fun p => .name p.2.value none)) none false) false false) last.2)
    (hsep : last.1.sep.type = ";") (hlen : last.1.ops.length + 1 ≤ F)
    (hy : Yields env.cfg b0 (ds.flatMap (fun p => p.1.toks) ++ last.1.toks) b')
    (hF : pairs.length + 2 ≤ F) (hF2 : ds.length + 1 ≤ F) :
    ∃ (d : Option String) (bD : Buf) (wF : World) (evs : List Event) (doxs : List (Option String)) (blkF : Block),
      getDoxygen env.cfg env.mcRe w.buf = .ok (d, bD) ∧
      interp env (mainBody F (core F (D + 1 + 1)) none) w = (wF, .ok (.inl none)) ∧
      SigEq b' wF.buf ∧ wF.stack = blkF :: rest ∧ blkF.id = blk.id ∧ blkF.hdr = blk.hdr ∧
      wF.events = w.events ++ evs ∧ doxs.length = ds.length + 1 ∧
      evs.map (·.kind) = varKinds (ds ++ [last]) doxs ∧ (∀ e ∈ evs, e.stateId = blk.id ∧ e.parentId = rest.head?.map (·.id)) ∧
      (∀ dd, d = some dd → doxs.head? = some (some dd)) ∧
      wF.delivered = w.delivered + (ds.length + 1) ∧ wF.anon = w.anon ∧ wF.muted = false ∧ wF.nextId = w.nextId ∧
      ∃ l, blkF = { blk with loc := l } := by
  obtain ⟨d, bD, wA, ct, hd, hsA, hbA, htyc, hv, hi⟩ := mainBody_item env hp F (core F (D + 1 + 1)) w first b1 htok
  obtain ⟨wF, evs, doxs, blkF, hiF, hsig, hstF, hidF, hhdrF, hevF, hdl, hkinds, hids, hdox, hdlF, hanF, hmuF, hnxF, hlF⟩ :=
    parseDeclarations_variables_loc env hnf F D ct d pairs ds last { wA with mainTok := some ct } b0 b' blk rest
      (by show wA.stack = _; rw [hsA.stack]; exact hstack) hk (by show wA.muted = _; rw [hsA.muted]; exact hmu)
      (htyc.trans hty) (by rw [hv]; exact htv) hall (by show Yields env.cfg wA.buf _ _; rw [hbA]; exact hy0) hops hopsv
      (by rw [hv]; exact hds) (by rw [hv]; exact hlast) hsep hlen hy hF hF2
  refine ⟨d, bD, wF, evs, doxs, blkF, hd, ?_, hsig, hstF, hidF, hhdrF, by rw [hevF]; show wA.events ++ _ = _; rw [hsA.events], hdl,
    hkinds, hids, hdox, by rw [hdlF]; show wA.delivered + _ = _; rw [hsA.delivered], by rw [hanF]; exact hsA.anon, hmuF,
    by rw [hnxF]; exact hsA.nextId, hlF⟩
  rw [hi]
  have hti : topItem F (core F (D + 1 + 1)) ct d = parseDeclarations F (core F (D + 1 + 1)) ct d := by
    unfold topItem
    have : Gen.dispatchTable.lookup "NAME" = none := by rw [dispatch_table_eq]; decide
    rw [htyc, hty, this]
  have hcar : carry ct d = none := by
    unfold carry
    have : Gen.keepDoxygen.contains "NAME" = false := by rw [keep_doxygen_eq]; decide
    rw [htyc, hty, this]
    rfl
  rw [hti, hiF, hcar]

/-- **`T d1 , d2 , … , dn ;` — a declaration statement with any number of declarators through
    `parse()`'s loop**: outside a class, with an active visitor that never raises, the iteration
    delivers exactly one `on_variable` per declarator, in order, each with its own name and the
    type ITS chain denotes over `T`, all for the innermost open block; the first carries the doc
    text found before the statement when there is one; the statement is consumed exactly and no
    doc text is handed on. -/
theorem toplevel_variables (env : Env) (hp : RulesProgress env.cfg = true) (hnf : env.faultAt = none) (F D : Nat) (w : World)
    (first : Tok) (pairs : List (Tok × Tok)) (ds : List (Dtor × DType)) (last : Dtor × DType) (b1 b0 b' : Buf)
    (blk : Block) (rest : List Block) (hstack : w.stack = blk :: rest) (hk : blk.hdr.kind ≠ .cls) (hmu : w.muted = false)
    (htok : tokenEofOk env.cfg w.buf = .ok (some first, b1))
    (hty : first.type = "NAME") (htv : identVal first.value = true)
    (hall : ∀ p ∈ pairs, p.1.type = "DBL_COLON" ∧ p.2.type = "NAME" ∧ plainVal p.2.value = true)
    (hy0 : Yields env.cfg b1 (pairs.flatMap (fun p => [p.1, p.2])) b0)
    (hops : opsHeadOk (firstDtor ds last).ops = true) (hopsv : ∀ o ∈ (firstDtor ds last).ops, o.value ≠ "auto")
    (hds : ∀ p ∈ ds, p.1.OK (.type (.mk (.name first.value none :: pairs.map (fun p => .name p.2.value none)) none false) false false) p.2 ∧
      p.1.sep.type = "," ∧ p.1.ops.length + 1 ≤ F)
    (hlast : last.1.OK (.type (.mk (.name first.value none :: pairs.map (fun p => .name p.2.value none)) none false) false false) last.2)
    (hsep : last.1.sep.type = ";") (hlen : last.1.ops.length + 1 ≤ F)
    (hy : Yields env.cfg b0 (ds.flatMap (fun p => p.1.toks) ++ last.1.toks) b')
    (hF : pairs.length + 2 ≤ F) (hF2 : ds.length + 1 ≤ F) :
    ∃ (d : Option String) (bD : Buf) (wF : World) (evs : List Event) (doxs : List (Option String)) (blkF : Block),
      getDoxygen env.cfg env.mcRe w.buf = .ok (d, bD) ∧
      interp env (mainBody F (core F (D + 1 + 1)) none) w = (wF, .ok (.inl none)) ∧
      SigEq b' wF.buf ∧ wF.stack = blkF :: rest ∧ blkF.id = blk.id ∧ blkF.hdr = blk.hdr ∧
      wF.events = w.events ++ evs ∧ doxs.length = ds.length + 1 ∧
      evs.map (·.kind) = varKinds (ds ++ [last]) doxs ∧ (∀ e ∈ evs, e.stateId = blk.id ∧ e.parentId = rest.head?.map (·.id)) ∧
      (∀ dd, d = some dd → doxs.head? = some (some dd)) ∧
      wF.delivered = w.delivered + (ds.length + 1) ∧ wF.anon = w.anon ∧ wF.muted = false ∧ wF.nextId = w.nextId := by
  obtain ⟨d, bD, wF, evs, doxs, blkF, h0, h1, h2, h3, h4, h5, h6, h7, h8, h9, h10, h11, h12, h13, h14, _⟩ :=
    toplevel_variables_loc env hp hnf F D w first pairs ds last b1 b0 b' blk rest hstack hk hmu htok hty htv hall hy0 hops hopsv hds hlast hsep hlen hy hF hF2
  exact ⟨d, bD, wF, evs, doxs, blkF, h0, h1, h2, h3, h4, h5, h6, h7, h8, h9, h10, h11, h12, h13, h14⟩

/-- **`T ptr-ops x = value ;` through `parse()`'s loop**: as `toplevel_variable_init`, and the one
    `on_variable` carries as value EXACTLY the tokens written between the `=` and the `;`, for
    every value of top-level shape (brackets balanced, no `,` / `;` outside brackets) of any length. -/
theorem toplevel_variable_init (env : Env) (hp : RulesProgress env.cfg = true) (G D : Nat) (w : World)
    (first : Tok) (pairs : List (Tok × Tok)) (ops : List Tok) (x eq : Tok) (vals : List Tok) (semi : Tok) (d1 : DType) (b1 b0 bmid bx bq bv b' : Buf)
    (blk : Block) (rest : List Block) (hstack : w.stack = blk :: rest) (hk : blk.hdr.kind ≠ .cls)
    (hmu : w.muted = false) (hfa : ¬ env.faultAt = some w.delivered)
    (htok : tokenEofOk env.cfg w.buf = .ok (some first, b1))
    (hty : first.type = "NAME") (htv : identVal first.value = true)
    (hall : ∀ p ∈ pairs, p.1.type = "DBL_COLON" ∧ p.2.type = "NAME" ∧ plainVal p.2.value = true)
    (hy0 : Yields env.cfg b1 (pairs.flatMap (fun p => [p.1, p.2])) b0)
    (hops : opsHeadOk ops = true) (hopsv : ∀ o ∈ ops, o.value ≠ "auto")
    (hy : Yields env.cfg b0 ops bmid)
    (ha : applyPtrOps (.type (.mk (.name first.value none :: pairs.map (fun p => .name p.2.value none)) none false) false false)
      (ops.map (·.type)) = some d1)
    (htx : tokenEofOk env.cfg bmid = .ok (some x, bx)) (hx : x.type = "NAME") (hxv : identVal x.value = true)
    (hteq : tokenEofOk env.cfg bx = .ok (some eq, bq)) (heq : eq.type = "=")
    (hyv : Yields env.cfg bq vals bv) (htl : TopLevel [",", ";"] (vals.map (·.type)))
    (hsemi : tokenEofOk env.cfg bv = .ok (some semi, b')) (hs : semi.type = ";")
    (hF : pairs.length + ops.length + 2 ≤ G + 1) (hFv : vals.length + 1 ≤ G) :
    ∃ (d : Option String) (bD : Buf) (w7 : World) (ct : CTok) (dox : Option String) (ev : Event),
      getDoxygen env.cfg env.mcRe w.buf = .ok (d, bD) ∧
      interp env (mainBody (G + 1) (core (G + 1) (D + 1 + 1)) none) w = (w7, .ok (.inl none)) ∧
      SigEq b' w7.buf ∧ ct.value = first.value ∧ w7.stack = { blk with loc := .tok ct.sidx } :: rest ∧
      w7.events = w.events ++ [ev] ∧ ev.kind = .item (.variable (initVariable x d1 vals dox)) ∧
      ev.stateId = blk.id ∧ ev.parentId = rest.head?.map (·.id) ∧ (∀ dd, d = some dd → dox = some dd) ∧
      w7.delivered = w.delivered + 1 ∧ w7.anon = w.anon ∧ w7.muted = false ∧ w7.nextId = w.nextId := by
  obtain ⟨d, bD, wA, ct, hd, hsA, hbA, htyc, hv, hi⟩ := mainBody_item env hp (G + 1) (core (G + 1) (D + 1 + 1)) w first b1 htok
  obtain ⟨w7, dox, ev, hi7, hsig, hst7, hev7, hk7, hid7, hpar7, hdox7, hdl7, han7, hmu7, hnx7, _⟩ :=
    parseDeclarations_variable_init env G D ct d pairs ops x eq vals semi d1 { wA with mainTok := some ct } b0 bmid bx bq bv b' blk rest
      (by show wA.stack = _; rw [hsA.stack]; exact hstack) hk (by show wA.muted = _; rw [hsA.muted]; exact hmu)
      (by show ¬ env.faultAt = some wA.delivered; rw [hsA.delivered]; exact hfa) (htyc.trans hty) (by rw [hv]; exact htv) hall
      (by show Yields env.cfg wA.buf _ _; rw [hbA]; exact hy0) hops hopsv hy (by rw [hv]; exact ha) htx hx hxv hteq heq hyv htl hsemi hs hF hFv
  refine ⟨d, bD, w7, ct, dox, ev, hd, ?_, hsig, hv, hst7, by rw [hev7]; show wA.events ++ _ = _; rw [hsA.events], hk7, hid7, hpar7,
    hdox7, by rw [hdl7]; show wA.delivered + 1 = _; rw [hsA.delivered], by rw [han7]; exact hsA.anon, hmu7,
    by rw [hnx7]; exact hsA.nextId⟩
  rw [hi]
  have hti : topItem (G + 1) (core (G + 1) (D + 1 + 1)) ct d = parseDeclarations (G + 1) (core (G + 1) (D + 1 + 1)) ct d := by
    unfold topItem
    have : Gen.dispatchTable.lookup "NAME" = none := by rw [dispatch_table_eq]; decide
    rw [htyc, hty, this]
  have hcar : carry ct d = none := by
    unfold carry
    have : Gen.keepDoxygen.contains "NAME" = false := by rw [keep_doxygen_eq]; decide
    rw [htyc, hty, this]
    rfl
  rw [hti, hi7, hcar]

/-- **`typedef T ptr-ops x ;` through `parse()`'s loop**, in any block, with an active visitor that
    does not raise here: exactly ONE `on_typedef` for the innermost open block with the name `x`,
    the type the declarator denotes and, in a class body, the access level in force; the
    declaration is consumed exactly and no doc text is handed on. -/
theorem toplevel_typedef (env : Env) (hp : RulesProgress env.cfg = true) (F D : Nat) (w : World)
    (kw first : Tok) (pairs : List (Tok × Tok)) (ops : List Tok) (x semi : Tok) (d1 : DType) (bk b1 b0 bmid bx b' : Buf)
    (blk : Block) (rest : List Block) (hstack : w.stack = blk :: rest) (hxne : x.value ≠ "")
    (hmu : w.muted = false) (hfa : ¬ env.faultAt = some w.delivered)
    (htkw : tokenEofOk env.cfg w.buf = .ok (some kw, bk)) (hkw : kw.type = "typedef")
    (htok : tokenEofOk env.cfg bk = .ok (some first, b1))
    (hty : first.type = "NAME") (htv : identVal first.value = true)
    (hall : ∀ p ∈ pairs, p.1.type = "DBL_COLON" ∧ p.2.type = "NAME" ∧ plainVal p.2.value = true)
    (hy0 : Yields env.cfg b1 (pairs.flatMap (fun p => [p.1, p.2])) b0)
    (hops : opsHeadOk ops = true) (hopsv : ∀ o ∈ ops, o.value ≠ "auto")
    (hy : Yields env.cfg b0 ops bmid)
    (ha : applyPtrOps (.type (.mk (.name first.value none :: pairs.map (fun p => .name p.2.value none)) none false) false false)
      (ops.map (·.type)) = some d1)
    (htx : tokenEofOk env.cfg bmid = .ok (some x, bx)) (hx : x.type = "NAME") (hxv : identVal x.value = true)
    (hsemi : tokenEofOk env.cfg bx = .ok (some semi, b')) (hs : semi.type = ";")
    (hF : pairs.length + ops.length + 2 ≤ F) :
    ∃ (w7 : World) (ct : CTok) (ev : Event),
      interp env (mainBody F (core F (D + 1 + 1)) none) w = (w7, .ok (.inl none)) ∧
      SigEq b' w7.buf ∧ ct.value = first.value ∧ w7.stack = { blk with loc := .tok ct.sidx } :: rest ∧
      w7.events = w.events ++ [ev] ∧ ev.kind = .item (.typedef (plainTypedef x d1 blk)) ∧
      ev.stateId = blk.id ∧ ev.parentId = rest.head?.map (·.id) ∧
      w7.delivered = w.delivered + 1 ∧ w7.anon = w.anon ∧ w7.muted = false ∧ w7.nextId = w.nextId := by
  obtain ⟨d, bD, wA, ck, _, hsA, hbA, _, _, hi⟩ := toplevel_dispatch env hp F (core F (D + 1 + 1)) w kw bk "_parse_typedef" htkw
    (by rw [hkw, dispatch_table_eq]; decide) (by rw [hkw, keep_doxygen_eq]; decide)
  obtain ⟨wB, ct, hiB, hbB, hsB, htyc, hv⟩ := step_token env { wA with mainTok := some ck } first b1
    (by show tokenEofOk env.cfg wA.buf = _; rw [hbA]; exact htok)
  obtain ⟨w7, ev, hi7, hsig, hst7, hev7, hk7, hid7, hpar7, hdl7, han7, hmu7, hnx7, _⟩ :=
    parseDeclarations_typedef env F D ct d pairs ops x semi d1 wB b0 bmid bx b' blk rest
      (by rw [hsB.stack]; show wA.stack = _; rw [hsA.stack]; exact hstack) hxne
      (by rw [hsB.muted]; show wA.muted = _; rw [hsA.muted]; exact hmu)
      (by rw [hsB.delivered]; show ¬ env.faultAt = some wA.delivered; rw [hsA.delivered]; exact hfa)
      (htyc.trans hty) (by rw [hv]; exact htv) hall (by rw [hbB]; exact hy0) hops hopsv hy (by rw [hv]; exact ha) htx hx hxv hsemi hs hF
  refine ⟨w7, ct, ev, ?_, hsig, hv, hst7, by rw [hev7, hsB.events]; show wA.events ++ _ = _; rw [hsA.events], hk7, hid7, hpar7,
    by rw [hdl7, hsB.delivered]; show wA.delivered + 1 = _; rw [hsA.delivered],
    by rw [han7, hsB.anon]; exact hsA.anon, hmu7, by rw [hnx7, hsB.nextId]; exact hsA.nextId⟩
  rw [hi]
  simp only [dispatch, parseTypedef, bind, interp_bind, hiB, hi7]

/-- **`class N ;` / `struct a::b::N ;` / `union N ;` through `parse()`'s loop**, in any block, with an
    active visitor that does not raise here: exactly ONE `on_forward_decl` for the innermost open
    block with the written class key and qualified name, the access level in force (none outside a
    class) and the doc text `get_doxygen` found; consumed exactly, no doc text handed on. -/
theorem toplevel_forward_decl (env : Env) (hp : RulesProgress env.cfg = true) (F D : Nat) (w : World)
    (kw first : Tok) (pairs : List (Tok × Tok)) (semi : Tok) (bk b1 bmid b' : Buf)
    (blk : Block) (rest : List Block) (hstack : w.stack = blk :: rest)
    (hmu : w.muted = false) (hfa : ¬ env.faultAt = some w.delivered)
    (htkw : tokenEofOk env.cfg w.buf = .ok (some kw, bk)) (hkw : isClassKey kw.value = true) (hkwt : kw.type = kw.value)
    (htf : tokenEofOk env.cfg bk = .ok (some first, b1)) (hf : first.type = "NAME") (hfv : plainVal first.value = true)
    (hall : ∀ p ∈ pairs, p.1.type = "DBL_COLON" ∧ p.2.type = "NAME" ∧ plainVal p.2.value = true)
    (hy : Yields env.cfg b1 (pairs.flatMap (fun p => [p.1, p.2])) bmid)
    (htok : tokenEofOk env.cfg bmid = .ok (some semi, b')) (hs : semi.type = ";") (hF : pairs.length + 2 ≤ F) :
    ∃ (d : Option String) (bD : Buf) (w7 : World) (ct : CTok) (ev : Event),
      getDoxygen env.cfg env.mcRe w.buf = .ok (d, bD) ∧
      interp env (mainBody F (core F (D + 1 + 1)) none) w = (w7, .ok (.inl none)) ∧
      w7.buf = b' ∧ w7.stack = { blk with loc := .tok ct.sidx } :: rest ∧
      w7.events = w.events ++ [ev] ∧ ev.kind = .item (.forwardDecl (plainFwd kw.value first pairs blk d)) ∧
      ev.stateId = blk.id ∧ ev.parentId = rest.head?.map (·.id) ∧
      w7.delivered = w.delivered + 1 ∧ w7.anon = w.anon ∧ w7.muted = false ∧ w7.nextId = w.nextId := by
  obtain ⟨d, bD, wA, ct, hd, hsA, hbA, htyc, hv, hi⟩ := mainBody_item env hp F (core F (D + 1 + 1)) w kw bk htkw
  obtain ⟨w7, ev, hi7, hb7, hst7, hev7, hk7, hid7, hpar7, hdl7, han7, hmu7, hnx7, _⟩ :=
    parseDeclarations_fwd env F D ct d first pairs semi { wA with mainTok := some ct } b1 bmid b' blk rest
      (by show wA.stack = _; rw [hsA.stack]; exact hstack) (by show wA.muted = _; rw [hsA.muted]; exact hmu)
      (by show ¬ env.faultAt = some wA.delivered; rw [hsA.delivered]; exact hfa) (by rw [hv]; exact hkw)
      (by rw [htyc, hv]; exact hkwt) (by show tokenEofOk env.cfg wA.buf = _; rw [hbA]; exact htf) hf hfv hall hy htok hs hF
  refine ⟨d, bD, w7, ct, ev, hd, ?_, hb7, hst7, by rw [hev7]; show wA.events ++ _ = _; rw [hsA.events], by rw [hk7, hv], hid7, hpar7,
    by rw [hdl7]; show wA.delivered + 1 = _; rw [hsA.delivered], by rw [han7]; exact hsA.anon, hmu7, by rw [hnx7]; exact hsA.nextId⟩
  rw [hi]
  have hkt : Gen.dispatchTable.lookup ct.type = none ∧ Gen.keepDoxygen.contains ct.type = false := by
    simp only [isClassKey, Bool.or_eq_true, beq_iff_eq] at hkw
    rw [htyc, hkwt, dispatch_table_eq, keep_doxygen_eq]
    rcases hkw with (h | h) | h <;> (rw [h]; decide)
  have hti : topItem F (core F (D + 1 + 1)) ct d = parseDeclarations F (core F (D + 1 + 1)) ct d := by
    unfold topItem
    rw [hkt.1]
  have hcar : carry ct d = none := by
    unfold carry
    rw [hkt.2]
    rfl
  rw [hti, hi7, hcar]

/-- **`using A = T ptr-ops ;` through `parse()`'s loop**, in any block, with an active visitor that
    does not raise here: exactly ONE `on_using_alias` for the innermost open block with the alias
    name, the type the abstract declarator denotes, the access level in force and the doc text
    found; consumed exactly, no doc text handed on. -/
theorem toplevel_using_alias (env : Env) (hp : RulesProgress env.cfg = true) (F D : Nat) (w : World)
    (kw a eq first : Tok) (pairs : List (Tok × Tok)) (ops : List Tok) (semi : Tok) (d1 : DType) (bk ba bq b1 b0 bmid b' : Buf)
    (blk : Block) (rest : List Block) (hstack : w.stack = blk :: rest)
    (hmu : w.muted = false) (hfa : ¬ env.faultAt = some w.delivered)
    (htkw : tokenEofOk env.cfg w.buf = .ok (some kw, bk)) (hkw : kw.type = "using")
    (hta : tokenEofOk env.cfg bk = .ok (some a, ba)) (ha : a.type = "NAME")
    (hte : tokenEofOk env.cfg ba = .ok (some eq, bq)) (heq : eq.type = "=")
    (htf : tokenEofOk env.cfg bq = .ok (some first, b1)) (hf : first.type = "NAME") (hfv : identVal first.value = true)
    (hall : ∀ p ∈ pairs, p.1.type = "DBL_COLON" ∧ p.2.type = "NAME" ∧ plainVal p.2.value = true)
    (hy0 : Yields env.cfg b1 (pairs.flatMap (fun p => [p.1, p.2])) b0)
    (hops : opsHeadOk ops = true)
    (hy : Yields env.cfg b0 ops bmid)
    (hap : applyPtrOps (.type (.mk (.name first.value none :: pairs.map (fun p => .name p.2.value none)) none false) false false)
      (ops.map (·.type)) = some d1)
    (hsemi : tokenEofOk env.cfg bmid = .ok (some semi, b')) (hs : semi.type = ";")
    (hF : pairs.length + ops.length + 2 ≤ F) :
    ∃ (d : Option String) (bD : Buf) (w7 : World) (ct : CTok) (ev : Event),
      getDoxygen env.cfg env.mcRe w.buf = .ok (d, bD) ∧
      interp env (mainBody F (core F (D + 1 + 1)) none) w = (w7, .ok (.inl none)) ∧
      w7.buf = b' ∧ ct.value = kw.value ∧ w7.stack = { blk with loc := .tok ct.sidx } :: rest ∧
      w7.events = w.events ++ [ev] ∧ ev.kind = .item (.usingAlias (plainAlias a d1 blk d)) ∧
      ev.stateId = blk.id ∧ ev.parentId = rest.head?.map (·.id) ∧
      w7.delivered = w.delivered + 1 ∧ w7.anon = w.anon ∧ w7.muted = false ∧ w7.nextId = w.nextId := by
  obtain ⟨d, bD, wA, ct, hd, hsA, hbA, _, hv, hi⟩ := toplevel_dispatch env hp F (core F (D + 1 + 1)) w kw bk "_parse_using" htkw
    (by rw [hkw, dispatch_table_eq]; decide) (by rw [hkw, keep_doxygen_eq]; decide)
  obtain ⟨w', t', hs', htokT0, htyT, hx⟩ := using_alias_decl env F D ct d a eq first pairs ops semi d1 { wA with mainTok := some ct }
    ba bq b1 b0 bmid b' blk rest (by show wA.stack = _; rw [hsA.stack]; exact hstack)
    (by show tokenEofOk env.cfg wA.buf = _; rw [hbA]; exact hta) ha hte heq htf hf hfv hall hy0 hops hy hap hsemi hs hF
  have hst' : w'.stack = { blk with loc := .tok ct.sidx } :: rest := hs'.stack
  have hmu' : w'.muted = false := by rw [hs'.muted]; show wA.muted = _; rw [hsA.muted]; exact hmu
  have hdl' : w'.delivered = w.delivered := by rw [hs'.delivered]; show wA.delivered = _; exact hsA.delivered
  have hev' : w'.events = w.events := by rw [hs'.events]; show wA.events = _; exact hsA.events
  have han' : w'.anon = w.anon := by rw [hs'.anon]; show wA.anon = _; exact hsA.anon
  have hnx' : w'.nextId = w.nextId := by rw [hs'.nextId]; show wA.nextId = _; exact hsA.nextId
  have hdel := deliver_passing env w' (mkEvent w' (.item (.usingAlias (plainAlias a d1 blk d)))
    { blk with loc := .tok ct.sidx } (rest.head?.map (·.id))) hmu' (by rw [hdl']; exact hfa)
  have htokT : tokenEofOk env.cfg
      ({ w' with events := w'.events ++ [mkEvent w' (.item (.usingAlias (plainAlias a d1 blk d)))
          { blk with loc := .tok ct.sidx } (rest.head?.map (·.id))], delivered := w'.delivered + 1 } : World).buf =
      .ok (some t', b') := htokT0
  obtain ⟨w2, c2, hi2, hb2, hs2, _, _⟩ := step_mustBe env [";"] _ t' b' htokT (by rw [htyT]; decide)
  refine ⟨d, bD, w2, ct, _, hd, ?_, hb2, hv, by rw [hs2.stack]; exact hst', by rw [hs2.events, hev'], rfl, rfl, rfl,
    by rw [hs2.delivered, hdl'], by rw [hs2.anon]; exact han', by rw [hs2.muted]; exact hmu', by rw [hs2.nextId]; exact hnx'⟩
  rw [hi]
  have hi2' := hi2
  simp only [hst'] at hi2'
  simp only [dispatch, hx, bind, interp_bind, P.emit, interp, hst', hdel, hi2', pure]

/-- **`class N {` / `struct a::b::N {` / `union N {` through `parse()`'s loop**, in any block, with an
    active visitor that does not raise here: exactly ONE start callback for a new class block
    (`pushedWorld`) whose access level is the class-key default — `private` for `class`, `public`
    for `struct` and `union` — carrying the written key and name, the doc text found before it and
    the access level in force in the enclosing class; the header is consumed exactly and no doc
    text is handed on. -/
theorem toplevel_class_head (env : Env) (hp : RulesProgress env.cfg = true) (F D : Nat) (w : World)
    (kw first : Tok) (pairs : List (Tok × Tok)) (ob : Tok) (bk b1 bmid b' : Buf)
    (blk : Block) (rest : List Block) (hstack : w.stack = blk :: rest)
    (hmu : w.muted = false) (hfa : ¬ env.faultAt = some w.delivered)
    (htkw : tokenEofOk env.cfg w.buf = .ok (some kw, bk)) (hkw : isClassKey kw.value = true) (hkwt : kw.type = kw.value)
    (htf : tokenEofOk env.cfg bk = .ok (some first, b1)) (hf : first.type = "NAME") (hfv : plainVal first.value = true)
    (hall : ∀ p ∈ pairs, p.1.type = "DBL_COLON" ∧ p.2.type = "NAME" ∧ plainVal p.2.value = true)
    (hy : Yields env.cfg b1 (pairs.flatMap (fun p => [p.1, p.2])) bmid)
    (htok : tokenEofOk env.cfg bmid = .ok (some ob, b')) (hob : ob.type = "{") (hF : pairs.length + 2 ≤ F) :
    ∃ (d : Option String) (bD : Buf) (w' : World) (ct : CTok),
      getDoxygen env.cfg env.mcRe w.buf = .ok (d, bD) ∧ w'.buf = b' ∧ ct.value = kw.value ∧
      w'.stack = w.stack ∧ w'.events = w.events ∧ w'.delivered = w.delivered ∧ w'.anon = w.anon ∧ w'.muted = w.muted ∧
      w'.nextId = w.nextId ∧
      interp env (mainBody F (core F (D + 1 + 1)) none) w =
        (pushedWorld env (classHdr ct first pairs blk d) w', .ok (.inl none)) := by
  obtain ⟨d, bD, wA, ct, hd, hsA, hbA, htyc, hv, hi⟩ := mainBody_item env hp F (core F (D + 1 + 1)) w kw bk htkw
  obtain ⟨w', hb, hsl, hi7⟩ :=
    parseDeclarations_class_head env F D ct d first pairs ob { wA with mainTok := some ct } b1 bmid b' blk rest
      (by show wA.stack = _; rw [hsA.stack]; exact hstack) (by show wA.muted = _; rw [hsA.muted]; exact hmu)
      (by show ¬ env.faultAt = some wA.delivered; rw [hsA.delivered]; exact hfa) (by rw [hv]; exact hkw)
      (by rw [htyc, hv]; exact hkwt) (by show tokenEofOk env.cfg wA.buf = _; rw [hbA]; exact htf) hf hfv hall hy htok hob hF
  refine ⟨d, bD, w', ct, hd, hb, hv, by rw [hsl.stack]; exact hsA.stack, by rw [hsl.events]; exact hsA.events,
    by rw [hsl.delivered]; exact hsA.delivered, by rw [hsl.anon]; exact hsA.anon, by rw [hsl.muted]; exact hsA.muted,
    by rw [hsl.nextId]; exact hsA.nextId, ?_⟩
  rw [hi]
  have hkt : Gen.dispatchTable.lookup ct.type = none ∧ Gen.keepDoxygen.contains ct.type = false := by
    simp only [isClassKey, Bool.or_eq_true, beq_iff_eq] at hkw
    rw [htyc, hkwt, dispatch_table_eq, keep_doxygen_eq]
    rcases hkw with (h | h) | h <;> (rw [h]; decide)
  have hti : topItem F (core F (D + 1 + 1)) ct d = parseDeclarations F (core F (D + 1 + 1)) ct d := by
    unfold topItem
    rw [hkt.1]
  have hcar : carry ct d = none := by
    unfold carry
    rw [hkt.2]
    rfl
  rw [hti, hi7, hcar]

/-- **`} ;` closing a named class through `parse()`'s loop** (visitor active or not): the end callback
    of the class block is delivered (`deliver`); unless it raises, exactly that block is popped, the
    visitor in force before it restored, the `;` consumed, nothing else delivered, no doc text
    handed on. -/
theorem toplevel_class_end (env : Env) (hp : RulesProgress env.cfg = true) (F : Nat) (c : Core) (w : World)
    (cl semi : Tok) (b1 b' : Buf) (cb blk : Block) (rest : List Block) (n : String) (sp : Option TemplateSpec)
    (hstack : w.stack = cb :: blk :: rest) (hg : cb.isGlobal = false) (hk : cb.hdr.kind = .cls)
    (htd : cb.hdr.typedef = false) (hname : cb.hdr.cls.typename.segments.getLast? = some (.name n sp))
    (hacc : blk.hdr.kind = .cls → ∃ a, blk.access = some a)
    (htcl : tokenEofOk env.cfg w.buf = .ok (some cl, b1)) (hcl : cl.type = "}")
    (htok : tokenEofOk env.cfg b1 = .ok (some semi, b')) (hs : semi.type = ";") :
    ∃ (wA : World) (ct : CTok), SameParse w wA ∧ ct.value = cl.value ∧
      ∀ w1, deliver env { wA with mainTok := some ct } (mkEvent { wA with mainTok := some ct } .blockEnd cb (some blk.id)) = (w1, none) →
        ∃ w3, interp env (mainBody F c none) w = (w3, .ok (.inl none)) ∧ w3.buf = b' ∧
          SameParse { w1 with muted := cb.priorMuted, stack := blk :: rest } w3 := by
  obtain ⟨d, bD, wA, ct, _, hsA, hbA, _, hv, hi⟩ := toplevel_dispatch env hp F c w cl b1 "_on_block_end" htcl
    (by rw [hcl, dispatch_table_eq]; decide) (by rw [hcl, keep_doxygen_eq]; decide)
  refine ⟨wA, ct, hsA, hv, ?_⟩
  intro w1 hd
  obtain ⟨_, h2⟩ := class_end_named env F c { wA with mainTok := some ct } cb blk rest semi b' n sp
    (by show wA.stack = _; rw [hsA.stack]; exact hstack) hg hk htd hname hacc
    (by show tokenEofOk env.cfg wA.buf = _; rw [hbA]; exact htok) hs
  obtain ⟨w3, hi3, hb3, hs3⟩ := h2 w1 hd
  refine ⟨w3, ?_, hb3, hs3⟩
  rw [hi]
  simp only [dispatch, hi3]

/-- **`enum [class|struct] N { e1 [= v1] , … , en [= vn] } ;` through `parse()`'s loop**, in any block, with
    an active visitor that does not raise here: exactly ONE `on_enum` for the innermost open block
    with the written key and qualified name, one enumerator per item, in order, with the written
    names and exactly the written value tokens (none where no `=` is written), the access level
    in force and the doc text found before it; consumed exactly, no doc text handed on. -/
theorem toplevel_enum (env : Env) (hp : RulesProgress env.cfg = true) (F D : Nat) (w : World)
    (kw : Tok) (cs : Option Tok) (first : Tok) (pairs : List (Tok × Tok)) (ob : Tok) (pre : List EItem) (last : EItem) (semi : Tok)
    (bk b0 b1 bmid bl bEnd : Buf)
    (blk : Block) (rest : List Block) (hstack : w.stack = blk :: rest)
    (hacc : blk.hdr.kind = .cls → ∃ a, blk.access = some a)
    (hmu : w.muted = false) (hfa : ¬ env.faultAt = some w.delivered)
    (htkw : tokenEofOk env.cfg w.buf = .ok (some kw, bk)) (hkw : kw.value = "enum") (hkwt : kw.type = "enum")
    (hcs : match cs with
      | none => b0 = bk
      | some c => tokenEofOk env.cfg bk = .ok (some c, b0) ∧ (c.type = "class" ∨ c.type = "struct"))
    (hcsv : ∀ c, cs = some c → c.value = c.type)
    (htf : tokenEofOk env.cfg b0 = .ok (some first, b1)) (hf : first.type = "NAME") (hfv : plainVal first.value = true)
    (hall : ∀ p ∈ pairs, p.1.type = "DBL_COLON" ∧ p.2.type = "NAME" ∧ plainVal p.2.value = true)
    (hy : Yields env.cfg b1 (pairs.flatMap (fun p => [p.1, p.2])) bmid)
    (htob : tokenEofOk env.cfg bmid = .ok (some ob, bl)) (hob : ob.type = "{")
    (hpre : ∀ i ∈ pre, i.OK ∧ i.sep.type = "," ∧ i.toks.length + 2 ≤ F)
    (hlast : last.OK ∧ last.sep.type = "}" ∧ last.toks.length + 2 ≤ F)
    (hyl : Yields env.cfg bl ((pre ++ [last]).flatMap EItem.toks ++ [semi]) bEnd) (hs : semi.type = ";")
    (hF : pairs.length + 2 ≤ F) (hF2 : pre.length + 1 ≤ F) :
    ∃ (d : Option String) (bD : Buf) (w7 : World) (ct : CTok) (vs : List Enumerator) (ev : Event),
      getDoxygen env.cfg env.mcRe w.buf = .ok (d, bD) ∧
      interp env (mainBody F (core F (D + 1 + 1)) none) w = (w7, .ok (.inl none)) ∧
      vs.map Enumerator.nv = (pre ++ [last]).map EItem.nv ∧
      SigEq bEnd w7.buf ∧ w7.stack = { blk with loc := .tok ct.sidx } :: rest ∧
      w7.events = w.events ++ [ev] ∧ ev.kind = .item (.enum (plainEnum cs first pairs vs blk d)) ∧
      ev.stateId = blk.id ∧ ev.parentId = rest.head?.map (·.id) ∧
      w7.delivered = w.delivered + 1 ∧ w7.anon = w.anon ∧ w7.muted = false ∧ w7.nextId = w.nextId := by
  obtain ⟨d, bD, wA, ct, hd, hsA, hbA, htyc, hv, hi⟩ := mainBody_item env hp F (core F (D + 1 + 1)) w kw bk htkw
  obtain ⟨w7, vs, ev, hi7, hvs, hsig, hst7, hev7, hk7, hid7, hpar7, hdl7, han7, hmu7, hnx7⟩ :=
    parseDeclarations_enum env hp F D ct d cs first pairs ob pre last semi { wA with mainTok := some ct } b0 b1 bmid bl bl bEnd blk rest
      (by show wA.stack = _; rw [hsA.stack]; exact hstack) hacc (by show wA.muted = _; rw [hsA.muted]; exact hmu)
      (by show ¬ env.faultAt = some wA.delivered; rw [hsA.delivered]; exact hfa) (by rw [hv]; exact hkw)
      (by rw [htyc]; exact hkwt)
      (by
        cases cs with
        | none => simp only at hcs ⊢; show b0 = wA.buf; rw [hbA]; exact hcs
        | some c => simp only at hcs ⊢; show tokenEofOk env.cfg wA.buf = _ ∧ _; rw [hbA]; exact hcs)
      hcsv htf hf hfv hall hy htob hob hpre hlast hyl hs hF hF2
  refine ⟨d, bD, w7, ct, vs, ev, hd, ?_, hvs, hsig, hst7, by rw [hev7]; show wA.events ++ _ = _; rw [hsA.events], hk7, hid7, hpar7,
    by rw [hdl7]; show wA.delivered + 1 = _; rw [hsA.delivered], by rw [han7]; exact hsA.anon, hmu7, by rw [hnx7]; exact hsA.nextId⟩
  rw [hi]
  have hkt : Gen.dispatchTable.lookup ct.type = none ∧ Gen.keepDoxygen.contains ct.type = false := by
    rw [htyc, hkwt, dispatch_table_eq, keep_doxygen_eq]
    exact ⟨by decide, by decide⟩
  have hti : topItem F (core F (D + 1 + 1)) ct d = parseDeclarations F (core F (D + 1 + 1)) ct d := by
    unfold topItem
    rw [hkt.1]
  have hcar : carry ct d = none := by
    unfold carry
    rw [hkt.2]
    rfl
  rw [hti, hi7, hcar]

/-- **`T ptr-ops f ( ) ;` — a function declaration without parameters through `parse()`'s loop**, outside a
    class, with an active visitor that does not raise here: exactly ONE `on_function` with the name
    `f`, the return type the declarator prefix denotes, an empty parameter list, no specifiers, no
    body, and the doc text found before it; consumed exactly, no doc text handed on. -/
theorem toplevel_function (env : Env) (hp : RulesProgress env.cfg = true) (F D : Nat) (w : World)
    (first : Tok) (pairs : List (Tok × Tok)) (ops : List Tok) (x op cp semi : Tok) (d1 : DType) (b1 b0 bmid bx bo bc b' : Buf)
    (blk : Block) (rest : List Block) (hstack : w.stack = blk :: rest) (hk : blk.hdr.kind ≠ .cls)
    (hmu : w.muted = false) (hfa : ¬ env.faultAt = some w.delivered)
    (htok : tokenEofOk env.cfg w.buf = .ok (some first, b1))
    (hty : first.type = "NAME") (htv : identVal first.value = true)
    (hall : ∀ p ∈ pairs, p.1.type = "DBL_COLON" ∧ p.2.type = "NAME" ∧ plainVal p.2.value = true)
    (hy0 : Yields env.cfg b1 (pairs.flatMap (fun p => [p.1, p.2])) b0)
    (hops : opsHeadOk ops = true) (hopsv : ∀ o ∈ ops, o.value ≠ "auto")
    (hy : Yields env.cfg b0 ops bmid)
    (ha : applyPtrOps (.type (.mk (.name first.value none :: pairs.map (fun p => .name p.2.value none)) none false) false false)
      (ops.map (·.type)) = some d1)
    (htx : tokenEofOk env.cfg bmid = .ok (some x, bx)) (hx : x.type = "NAME") (hxv : identVal x.value = true)
    (hto : tokenEofOk env.cfg bx = .ok (some op, bo)) (hop : op.type = "(")
    (htc : tokenEofOk env.cfg bo = .ok (some cp, bc)) (hcp : cp.type = ")")
    (hsemi : tokenEofOk env.cfg bc = .ok (some semi, b')) (hs : semi.type = ";")
    (hF : pairs.length + ops.length + 2 ≤ F) :
    ∃ (d : Option String) (bD : Buf) (w7 : World) (ct : CTok) (ev : Event),
      getDoxygen env.cfg env.mcRe w.buf = .ok (d, bD) ∧
      interp env (mainBody F (core F (D + 1 + 1)) none) w = (w7, .ok (.inl none)) ∧
      w7.buf = b' ∧ ct.value = first.value ∧ w7.stack = { blk with loc := .tok ct.sidx } :: rest ∧
      w7.events = w.events ++ [ev] ∧ ev.kind = .item (.function (plainFunction x d1 d)) ∧
      ev.stateId = blk.id ∧ ev.parentId = rest.head?.map (·.id) ∧
      w7.delivered = w.delivered + 1 ∧ w7.anon = w.anon ∧ w7.muted = false ∧ w7.nextId = w.nextId := by
  obtain ⟨d, bD, wA, ct, hd, hsA, hbA, htyc, hv, hi⟩ := mainBody_item env hp F (core F (D + 1 + 1)) w first b1 htok
  obtain ⟨w7, ev, hi7, hsig, hst7, hev7, hk7, hid7, hpar7, hdl7, han7, hmu7, hnx7, _⟩ :=
    parseDeclarations_function env F D ct d pairs ops x op cp semi d1 { wA with mainTok := some ct } b0 bmid bx bo bc b' blk rest
      (by show wA.stack = _; rw [hsA.stack]; exact hstack) hk (by show wA.muted = _; rw [hsA.muted]; exact hmu)
      (by show ¬ env.faultAt = some wA.delivered; rw [hsA.delivered]; exact hfa) (htyc.trans hty) (by rw [hv]; exact htv) hall
      (by show Yields env.cfg wA.buf _ _; rw [hbA]; exact hy0) hops hopsv hy (by rw [hv]; exact ha) htx hx hxv hto hop htc hcp hsemi hs hF
  refine ⟨d, bD, w7, ct, ev, hd, ?_, hsig, hv, hst7, by rw [hev7]; show wA.events ++ _ = _; rw [hsA.events], hk7, hid7, hpar7,
    by rw [hdl7]; show wA.delivered + 1 = _; rw [hsA.delivered], by rw [han7]; exact hsA.anon, hmu7,
    by rw [hnx7]; exact hsA.nextId⟩
  rw [hi]
  have hti : topItem F (core F (D + 1 + 1)) ct d = parseDeclarations F (core F (D + 1 + 1)) ct d := by
    unfold topItem
    have : Gen.dispatchTable.lookup "NAME" = none := by rw [dispatch_table_eq]; decide
    rw [htyc, hty, this]
  have hcar : carry ct d = none := by
    unfold carry
    have : Gen.keepDoxygen.contains "NAME" = false := by rw [keep_doxygen_eq]; decide
    rw [htyc, hty, this]
    rfl
  rw [hti, hi7, hcar]

/-- **`T ptr-ops f ( p1 , … , pn ) ;` — a function declaration through `parse()`'s loop**, outside a class, with
    an active visitor that does not raise here; every `pi` a plain parameter `Ti ptr-ops name`, any
    number of them: exactly ONE `on_function` with the name `f`, the return type the declarator
    prefix denotes, one parameter per item, in order, each with its own name and the type ITS
    declarator denotes (no default, no pack), no vararg, no specifiers, no body, and the doc text
    found before it; consumed exactly, no doc text handed on. -/
theorem toplevel_function_params (env : Env) (hp : RulesProgress env.cfg = true) (F D : Nat) (w : World)
    (first : Tok) (pairs : List (Tok × Tok)) (ops : List Tok) (x op : Tok) (ps : List (PItem × DType × Tok)) (last : PItem × DType) (cp semi : Tok) (d1 : DType) (b1 b0 bmid bx bo bc b' : Buf)
    (blk : Block) (rest : List Block) (hstack : w.stack = blk :: rest) (hk : blk.hdr.kind ≠ .cls)
    (hmu : w.muted = false) (hfa : ¬ env.faultAt = some w.delivered)
    (htok : tokenEofOk env.cfg w.buf = .ok (some first, b1))
    (hty : first.type = "NAME") (htv : identVal first.value = true)
    (hall : ∀ p ∈ pairs, p.1.type = "DBL_COLON" ∧ p.2.type = "NAME" ∧ plainVal p.2.value = true)
    (hy0 : Yields env.cfg b1 (pairs.flatMap (fun p => [p.1, p.2])) b0)
    (hops : opsHeadOk ops = true) (hopsv : ∀ o ∈ ops, o.value ≠ "auto")
    (hy : Yields env.cfg b0 ops bmid)
    (ha : applyPtrOps (.type (.mk (.name first.value none :: pairs.map (fun p => .name p.2.value none)) none false) false false)
      (ops.map (·.type)) = some d1)
    (htx : tokenEofOk env.cfg bmid = .ok (some x, bx)) (hx : x.type = "NAME") (hxv : identVal x.value = true)
    (hto : tokenEofOk env.cfg bx = .ok (some op, bo)) (hop : op.type = "(")
    (hallp : ∀ q ∈ ps, q.1.OK q.2.1 ∧ q.2.2.type = "," ∧ q.2.2.value ≠ ")" ∧ q.1.pairs.length + q.1.ops.length + 2 ≤ F)
    (hlastp : last.1.OK last.2) (hlF : last.1.pairs.length + last.1.ops.length + 2 ≤ F) (hcp : cp.type = ")") (hcpv : cp.value = ")")
    (hyp : Yields env.cfg bo (ps.flatMap (fun q => q.1.toks ++ [q.2.2]) ++ (last.1.toks ++ [cp])) bc) (hFp : ps.length + 1 ≤ F)
    (hsemi : tokenEofOk env.cfg bc = .ok (some semi, b')) (hs : semi.type = ";")
    (hF : pairs.length + ops.length + 2 ≤ F) :
    ∃ (d : Option String) (bD : Buf) (w7 : World) (ct : CTok) (ev : Event),
      getDoxygen env.cfg env.mcRe w.buf = .ok (d, bD) ∧
      interp env (mainBody F (core F (D + 1 + 1 + 1 + 1)) none) w = (w7, .ok (.inl none)) ∧
      w7.buf = b' ∧ ct.value = first.value ∧ w7.stack = { blk with loc := .tok ct.sidx } :: rest ∧
      w7.events = w.events ++ [ev] ∧ ev.kind = .item (.function { plainFunction x d1 d with
        parameters := ps.map (fun q => q.1.param q.2.1) ++ [last.1.param last.2] }) ∧
      ev.stateId = blk.id ∧ ev.parentId = rest.head?.map (·.id) ∧
      w7.delivered = w.delivered + 1 ∧ w7.anon = w.anon ∧ w7.muted = false ∧ w7.nextId = w.nextId := by
  obtain ⟨d, bD, wA, ct, hd, hsA, hbA, htyc, hv, hi⟩ := mainBody_item env hp F (core F (D + 1 + 1 + 1 + 1)) w first b1 htok
  obtain ⟨w7, ev, hi7, hsig, hst7, hev7, hk7, hid7, hpar7, hdl7, han7, hmu7, hnx7, _⟩ :=
    parseDeclarations_function_params env F D ct d pairs ops x op ps last cp semi d1 { wA with mainTok := some ct } b0 bmid bx bo bc b' blk rest
      (by show wA.stack = _; rw [hsA.stack]; exact hstack) hk (by show wA.muted = _; rw [hsA.muted]; exact hmu)
      (by show ¬ env.faultAt = some wA.delivered; rw [hsA.delivered]; exact hfa) (htyc.trans hty) (by rw [hv]; exact htv) hall
      (by show Yields env.cfg wA.buf _ _; rw [hbA]; exact hy0) hops hopsv hy (by rw [hv]; exact ha) htx hx hxv hto hop hallp hlastp hlF hcp hcpv hyp hFp hsemi hs hF
  refine ⟨d, bD, w7, ct, ev, hd, ?_, hsig, hv, hst7, by rw [hev7]; show wA.events ++ _ = _; rw [hsA.events], hk7, hid7, hpar7,
    by rw [hdl7]; show wA.delivered + 1 = _; rw [hsA.delivered], by rw [han7]; exact hsA.anon, hmu7,
    by rw [hnx7]; exact hsA.nextId⟩
  rw [hi]
  have hti : topItem F (core F (D + 1 + 1 + 1 + 1)) ct d = parseDeclarations F (core F (D + 1 + 1 + 1 + 1)) ct d := by
    unfold topItem
    have : Gen.dispatchTable.lookup "NAME" = none := by rw [dispatch_table_eq]; decide
    rw [htyc, hty, this]
  have hcar : carry ct d = none := by
    unfold carry
    have : Gen.keepDoxygen.contains "NAME" = false := by rw [keep_doxygen_eq]; decide
    rw [htyc, hty, this]
    rfl
  rw [hti, hi7, hcar]

/-- **`T ptr-ops f ( p1 , … , pn ) qualifiers ;` in a class body — a member function through `parse()`'s loop**,
    with an active visitor that does not raise here: exactly ONE `on_class_method` for the innermost
    open class with the name, the return type, one parameter per item (own name, own type), the
    access level in force in THAT class and exactly the written qualifier flags (`const`,
    `volatile`, `override`, `final`, `&`, `&&`, any number, any order); consumed exactly. -/
theorem toplevel_method (env : Env) (hp : RulesProgress env.cfg = true) (F D : Nat) (w : World)
    (first : Tok) (pairs : List (Tok × Tok)) (ops : List Tok) (x op : Tok) (ps : List (PItem × DType × Tok)) (last : PItem × DType) (cp semi : Tok) (quals : List Tok) (m' : Function) (d1 : DType) (b1 b0 bmid bx bo bc bq b' : Buf)
    (blk : Block) (rest : List Block) (hstack : w.stack = blk :: rest) (hk : blk.hdr.kind = .cls)
    (hmu : w.muted = false) (hfa : ¬ env.faultAt = some w.delivered)
    (htok : tokenEofOk env.cfg w.buf = .ok (some first, b1))
    (hty : first.type = "NAME") (htv : identVal first.value = true)
    (hall : ∀ p ∈ pairs, p.1.type = "DBL_COLON" ∧ p.2.type = "NAME" ∧ plainVal p.2.value = true)
    (hy0 : Yields env.cfg b1 (pairs.flatMap (fun p => [p.1, p.2])) b0)
    (hops : opsHeadOk ops = true) (hopsv : ∀ o ∈ ops, o.value ≠ "auto")
    (hy : Yields env.cfg b0 ops bmid)
    (ha : applyPtrOps (.type (.mk (.name first.value none :: pairs.map (fun p => .name p.2.value none)) none false) false false)
      (ops.map (·.type)) = some d1)
    (htx : tokenEofOk env.cfg bmid = .ok (some x, bx)) (hx : x.type = "NAME") (hxv : identVal x.value = true)
    (hto : tokenEofOk env.cfg bx = .ok (some op, bo)) (hop : op.type = "(")
    (hallp : ∀ q ∈ ps, q.1.OK q.2.1 ∧ q.2.2.type = "," ∧ q.2.2.value ≠ ")" ∧ q.1.pairs.length + q.1.ops.length + 2 ≤ F)
    (hlastp : last.1.OK last.2) (hlF : last.1.pairs.length + last.1.ops.length + 2 ≤ F) (hcp : cp.type = ")") (hcpv : cp.value = ")")
    (hyp : Yields env.cfg bo (ps.flatMap (fun q => q.1.toks ++ [q.2.2]) ++ (last.1.toks ++ [cp])) bc) (hFp : ps.length + 1 ≤ F)
    (hyq : Yields env.cfg bc quals bq)
    (hsemi : tokenEofOk env.cfg bq = .ok (some semi, b')) (hs : semi.type = ";") (hsv : semi.value = ";") (hFq : quals.length + 1 ≤ F)
    (hF : pairs.length + ops.length + 2 ≤ F) :
    ∀ (d : Option String) (bD : Buf), getDoxygen env.cfg env.mcRe w.buf = .ok (d, bD) →
    applyQuals { plainFunction x d1 d with parameters := ps.map (fun q => q.1.param q.2.1) ++ [last.1.param last.2], isMethod := true, access := blk.access }
      (quals.map (·.value)) = some m' →
    ∃ (w7 : World) (ct : CTok) (ev : Event),
      interp env (mainBody F (core F (D + 1 + 1 + 1 + 1)) none) w = (w7, .ok (.inl none)) ∧
      w7.buf = b' ∧ ct.value = first.value ∧ w7.stack = { blk with loc := .tok ct.sidx } :: rest ∧
      w7.events = w.events ++ [ev] ∧ ev.kind = .item (.classMethod m') ∧
      ev.stateId = blk.id ∧ ev.parentId = rest.head?.map (·.id) ∧
      w7.delivered = w.delivered + 1 ∧ w7.anon = w.anon ∧ w7.muted = false ∧ w7.nextId = w.nextId := by
  intro d bD hdx haq
  obtain ⟨d', bD', wA, ct, hd, hsA, hbA, htyc, hv, hi⟩ := mainBody_item env hp F (core F (D + 1 + 1 + 1 + 1)) w first b1 htok
  rw [hdx] at hd
  injection hd with hd; injection hd with hd1 hd2
  subst hd1; subst hd2
  obtain ⟨w7, ev, hi7, hsig, hst7, hev7, hk7, hid7, hpar7, hdl7, han7, hmu7, hnx7, _⟩ :=
    parseDeclarations_method env F D ct d pairs ops x op ps last cp semi quals m' d1 { wA with mainTok := some ct } b0 bmid bx bo bc bq b' blk rest
      (by show wA.stack = _; rw [hsA.stack]; exact hstack) hk (by show wA.muted = _; rw [hsA.muted]; exact hmu)
      (by show ¬ env.faultAt = some wA.delivered; rw [hsA.delivered]; exact hfa) (htyc.trans hty) (by rw [hv]; exact htv) hall
      (by show Yields env.cfg wA.buf _ _; rw [hbA]; exact hy0) hops hopsv hy (by rw [hv]; exact ha) htx hx hxv hto hop hallp hlastp hlF hcp hcpv hyp hFp hyq haq hsemi hs hsv hFq hF
  refine ⟨w7, ct, ev, ?_, hsig, hv, hst7, by rw [hev7]; show wA.events ++ _ = _; rw [hsA.events], hk7, hid7, hpar7,
    by rw [hdl7]; show wA.delivered + 1 = _; rw [hsA.delivered], by rw [han7]; exact hsA.anon, hmu7,
    by rw [hnx7]; exact hsA.nextId⟩
  rw [hi]
  have hti : topItem F (core F (D + 1 + 1 + 1 + 1)) ct d = parseDeclarations F (core F (D + 1 + 1 + 1 + 1)) ct d := by
    unfold topItem
    have : Gen.dispatchTable.lookup "NAME" = none := by rw [dispatch_table_eq]; decide
    rw [htyc, hty, this]
  have hcar : carry ct d = none := by
    unfold carry
    have : Gen.keepDoxygen.contains "NAME" = false := by rw [keep_doxygen_eq]; decide
    rw [htyc, hty, this]
    rfl
  rw [hti, hi7, hcar]

/-! ### from iterations to `parse()`: the loop is the sequence of its iterations -/

/-- a chain of iterations, each handing NO doc text on: `ws` are the parser states between them -/
inductive IterChain (env : Env) (F : Nat) (c : Core) : World → List World → World → Prop
  | nil (w : World) : IterChain env F c w [] w
  | cons {w w1 wE : World} {ws : List World} :
      interp env (mainBody F c none) w = (w1, .ok (.inl none)) → IterChain env F c w1 ws wE → IterChain env F c w (w1 :: ws) wE

/-- **the loop of `parse()` is the sequence of its iterations**: if from `w` the iterations lead through
    the states `ws` to `wE` (each handing no doc text on — what every `toplevel_*` theorem concludes)
    and the iteration at `wE` finds the end of the input, then the whole loop run from `w` ends
    normally in the state that last iteration leaves -/
theorem mainLoop_chain (env : Env) (F : Nat) (c : Core) : ∀ (ws : List World) (w wE wF : World) (n : Nat),
    IterChain env F c w ws wE → interp env (mainBody F c none) wE = (wF, .ok (.inr ())) → ws.length + 1 ≤ n →
    interp env (loopN n (none : Option String) (mainBody F c)) w = (wF, .ok ()) := by
  intro ws
  induction ws with
  | nil =>
    intro w wE wF n hc hend hn
    cases hc
    obtain ⟨k, rfl⟩ : ∃ k, n = k + 1 := ⟨n - 1, by omega⟩
    rw [loopN]
    simp only [bind, interp_bind, hend, pure, interp]
  | cons w1 ws ih =>
    intro w wE wF n hc hend hn
    cases hc with
    | cons h1 hrest =>
      obtain ⟨k, rfl⟩ : ∃ k, n = k + 1 := ⟨n - 1, by omega⟩
      rw [loopN]
      simp only [bind, interp_bind, h1]
      exact ih w1 wE wF k hrest hend (by simp at hn; omega)

/-- the iteration at the end of the input: the loop ends, nothing is delivered -/
theorem toplevel_eof (env : Env) (hp : RulesProgress env.cfg = true) (F : Nat) (c : Core) (w : World) (bE : Buf)
    (heof : tokenEofOk env.cfg w.buf = .ok (none, bE)) :
    ∃ (wF : World), interp env (mainBody F c none) w = (wF, .ok (.inr ())) ∧ wF.stack = w.stack ∧ wF.events = w.events ∧
      wF.delivered = w.delivered ∧ wF.anon = w.anon ∧ wF.muted = w.muted ∧ wF.nextId = w.nextId := by
  obtain ⟨d, bD, hd⟩ := getDoxygen_ok env.cfg hp env.mcRe w.buf none bE heof
  have hnext := getDoxygen_next env.cfg hp env.mcRe w.buf bD d hd
  refine ⟨{ ({ ({ w with buf := bD } : World) with buf := bE } : World) with mainTok := none }, ?_, rfl, rfl, rfl, rfl, rfl, rfl⟩
  unfold mainBody P.tokenEofOk
  have ht : tokenEofOk env.cfg ({ w with buf := bD } : World).buf = .ok (none, bE) := by
    show tokenEofOk env.cfg bD = _; rw [hnext]; exact heof
  simp only [bind, interp_bind, interp_getDoxygen, hd, interp, Bool.false_eq_true, ↓reduceIte, ht, pure]

/-- `mainLoop` itself -/
theorem mainLoop_of_chain (env : Env) (F : Nat) (c : Core) (ws : List World) (w wE wF : World)
    (hc : IterChain env F c w ws wE) (hend : interp env (mainBody F c none) wE = (wF, .ok (.inr ()))) (hF : ws.length + 1 ≤ F) :
    interp env (mainLoop F c) w = (wF, .ok ()) :=
  mainLoop_chain env F c ws w wE wF F hc hend hF

end Cxx
