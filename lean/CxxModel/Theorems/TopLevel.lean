/-
  Theorems/TopLevel.lean — one iteration of the `while True:` of `parse()` (C01, C12).

  * `mainBody_item`: with no doc text pending, an iteration whose next significant token is `t`
    is exactly: find the doc text `d` (`get_doxygen`, which leaves the stream's tokens as they
    were), read `t`, record it as the token being evaluated, run `topItem` on it with `d`,
    and hand `carry t d` to the next iteration;
  * `toplevel_namespace`: at `namespace n1 :: … :: nk {` that iteration opens ONE block with
    exactly the written names and the doc text found, and hands NO doc text on — on the
    dispatch table and the keep set regenerated from `parse()`.
-/
import CxxModel.Theorems.NsForm
import CxxModel.Theorems.DoxNeutral
import CxxModel.Theorems.EnumList
import CxxModel.Tables
namespace Cxx
open P

theorem interp_tokenEofOk_some (env : Env) (w : World) (t : Tok) (b1 : Buf)
    (h : tokenEofOk env.cfg w.buf = .ok (some t, b1)) :
    interp env P.tokenEofOk w =
      ((({ w with buf := b1 } : World).handOut t).2, .ok (some (({ w with buf := b1 } : World).handOut t).1)) := by
  unfold P.tokenEofOk
  simp only [interp, Bool.false_eq_true, ↓reduceIte, h]

theorem mainBody_item (env : Env) (hp : RulesProgress env.cfg = true) (F : Nat) (c : Core) (w : World) (t : Tok) (b1 : Buf)
    (ht : tokenEofOk env.cfg w.buf = .ok (some t, b1)) :
    ∃ (d : Option String) (bD : Buf) (wA : World) (ct : CTok),
      getDoxygen env.cfg env.mcRe w.buf = .ok (d, bD) ∧ SameParse w wA ∧ wA.buf = b1 ∧
      ct.type = t.type ∧ ct.value = t.value ∧
      interp env (mainBody F c none) w =
        match interp env (topItem F c ct d) { wA with mainTok := some ct } with
        | (w3, .ok ()) => (w3, .ok (.inl (carry ct d)))
        | (w3, .error e) => (w3, .error e) := by
  obtain ⟨d, bD, hd⟩ := getDoxygen_ok env.cfg hp env.mcRe w.buf (some t) b1 ht
  have hnext := getDoxygen_next env.cfg hp env.mcRe w.buf bD d hd
  have ht' : tokenEofOk env.cfg ({ w with buf := bD } : World).buf = .ok (some t, b1) := by
    show tokenEofOk env.cfg bD = _
    rw [hnext]; exact ht
  have hi := interp_tokenEofOk_some env ({ w with buf := bD } : World) t b1 ht'
  obtain ⟨hs, hb, hty, hv⟩ := handOut_same ({ ({ w with buf := bD } : World) with buf := b1 } : World) t
  generalize hwA : (({ ({ w with buf := bD } : World) with buf := b1 } : World).handOut t).2 = wA at *
  generalize hcA : (({ ({ w with buf := bD } : World) with buf := b1 } : World).handOut t).1 = cA at *
  refine ⟨d, bD, wA, cA, hd, ((SameParse.setBuf w bD).trans (SameParse.setBuf _ b1)).trans hs, hb, hty, hv, ?_⟩
  unfold mainBody
  simp only [bind, interp_bind, interp_getDoxygen, hd, hi, interp, pure]
  cases interp env (topItem F c cA d) { wA with mainTok := some cA } with
  | mk w3 r =>
    cases r with
    | error e => rfl
    | ok u => rfl

theorem dispatch_namespace : Gen.dispatchTable.lookup "namespace" = some "_parse_namespace" := by
  rw [dispatch_table_eq]; decide

theorem keep_not_namespace : Gen.keepDoxygen.contains "namespace" = false := by
  rw [keep_doxygen_eq]; decide

/-- a top-level iteration at `namespace n1 :: … :: nk {` -/
theorem toplevel_namespace (env : Env) (hp : RulesProgress env.cfg = true) (F : Nat) (c : Core) (w : World)
    (kw first : Tok) (pairs : List (Tok × Tok)) (ob : Tok) (b' : Buf)
    (hkw : kw.type = "namespace") (hf : first.type = "NAME")
    (hall : ∀ p ∈ pairs, p.1.type = "DBL_COLON" ∧ p.2.type = "NAME") (hob : ob.type = "{")
    (hy : Yields env.cfg w.buf (kw :: first :: (pairs.flatMap (fun p => [p.1, p.2]) ++ [ob])) b')
    (hF : pairs.length + 1 ≤ F) :
    ∃ (d : Option String) (bD : Buf) (w' : World) (ct : CTok),
      getDoxygen env.cfg env.mcRe w.buf = .ok (d, bD) ∧ w'.buf = b' ∧
      w'.stack = w.stack ∧ w'.events = w.events ∧ w'.delivered = w.delivered ∧ w'.anon = w.anon ∧ w'.muted = w.muted ∧
      w'.mainTok = some ct ∧ ct.value = kw.value ∧
      interp env (mainBody F c none) w =
        match interp env (nsFinish (.tok ct.sidx) d false (first.value :: pairs.map (·.2.value)) none) w' with
        | (w3, .ok ()) => (w3, .ok (.inl none))
        | (w3, .error e) => (w3, .error e) := by
  cases hy with
  | cons htok hrest =>
    rename_i b1
    obtain ⟨d, bD, wA, ct, hd, hsA, hbA, hty, hv, hi⟩ := mainBody_item env hp F c w kw b1 htok
    obtain ⟨w', hb, hs, hns⟩ := namespace_form env F ct d false first pairs ob { wA with mainTok := some ct } b' hf hall hob
      (by show Yields env.cfg wA.buf _ _; rw [hbA]; exact hrest) hF
    refine ⟨d, bD, w', ct, hd, hb, ?_, ?_, ?_, ?_, ?_, ?_, hv, ?_⟩
    · rw [hs.stack]; exact hsA.stack
    · rw [hs.events]; exact hsA.events
    · rw [hs.delivered]; exact hsA.delivered
    · rw [hs.anon]; exact hsA.anon
    · rw [hs.muted]; exact hsA.muted
    · rw [hs.mainTok]
    · rw [hi]
      have hti : topItem F c ct d = parseNamespace F ct d false := by
        unfold topItem
        rw [hty, hkw, dispatch_namespace]
        rfl
      have hcar : carry ct d = none := by
        unfold carry
        rw [hty, hkw, keep_not_namespace]
        rfl
      rw [hti, hns, hcar]

end Cxx
