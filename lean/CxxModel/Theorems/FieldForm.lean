/-
  Theorems/FieldForm.lean — `_parse_field` on a plain declarator (no array, bit-field or
  initializer): with the next token a `,` or `;`, the routine records the location, takes the
  doc text it was given or else the trailing documentation comment (`get_doxygen_after`), and
  ends in `fieldEmit` with no bits and no value; the terminator stays in the stream (up to
  layout tokens in the buffer, `SigEq`).
-/
import CxxModel.Theorems.Steps
import CxxModel.Theorems.SigEq
import CxxModel.Theorems.EnumList
import CxxModel.Theorems.ExternForm
namespace Cxx
open P

/-- the name `_parse_field` derives from the declarator name -/
def fieldName (isClass : Bool) (pq : PQName) : Option (Option String) :=
  match pq.segments.getLast? with
  | some (.name n _) => if isClass then (if pq.segments.length > 1 then none else some (some n)) else some none
  | _ => none

theorem fieldName_cases (isClass : Bool) (pq : PQName) (nm : Option String) (h : fieldName isClass pq = some nm) :
    ∃ n sp, pq.segments.getLast? = some (.name n sp) ∧
      ((isClass = true ∧ ¬ pq.segments.length > 1 ∧ nm = some n) ∨ (isClass = false ∧ nm = none)) := by
  unfold fieldName at h
  cases hg : pq.segments.getLast? with
  | none => simp [hg] at h
  | some sg =>
    cases sg with
    | name n sp =>
      refine ⟨n, sp, rfl, ?_⟩
      simp only [hg] at h
      cases isClass with
      | true =>
        by_cases hl : pq.segments.length > 1
        · simp [hl] at h
        · simp only [↓reduceIte, hl, Option.some.injEq] at h
          exact .inl ⟨rfl, hl, h.symm⟩
      | false =>
        simp only [Bool.false_eq_true, ↓reduceIte, Option.some.injEq] at h
        exact .inr ⟨rfl, h.symm⟩
    | _ => simp [hg] at h

theorem parseField_plain (env : Env) (F : Nat) (mods : Mods) (dtype : DType) (pq : PQName) (template : Option TemplateDecl)
    (doxygen : Option String) (location : LocRef) (isTypedef : Bool) (w : World) (tm : Tok) (b1 : Buf)
    (blk : Block) (rest : List Block) (hstack : w.stack = blk :: rest) (nm : Option String)
    (hname : fieldName (isTypedef || decide (blk.hdr.kind = .cls)) pq = some nm)
    (htok : tokenEofOk env.cfg w.buf = .ok (some tm, b1))
    (htm : ["[", ":", "=", "{"].contains tm.type = false) :
    ∃ (w5 : World) (t' : Tok) (bx : Buf) (dox : Option String),
      SameParse { w with stack := { blk with loc := location } :: rest } w5 ∧
      tokenEofOk env.cfg w5.buf = .ok (some t', bx) ∧ SigEq b1 bx ∧ t'.type = tm.type ∧ t'.value = tm.value ∧
      (∀ d, doxygen = some d → dox = some d) ∧
      interp env (parseField F mods dtype (some pq) template doxygen location isTypedef) w =
        interp env (fieldEmit mods ({ blk with loc := location } : Block).view dtype (some pq) template nm none none dox isTypedef) w5 := by
  simp only [List.contains_cons, List.contains_nil, Bool.or_false, Bool.or_eq_false_iff, beq_eq_false_iff_ne, ne_eq] at htm
  obtain ⟨h1, h2, h3, h4⟩ := htm
  have htop := interp_getTop env { w with stack := { blk with loc := location } :: rest } { blk with loc := location } rest rfl
  obtain ⟨wa, ta, hia, hsa, hta, htya, hva⟩ := step_tokenIf_miss env ["["] { w with stack := { blk with loc := location } :: rest } tm b1 htok (by simp [h1])
  obtain ⟨wb, tb, hib, hsb, htb, htyb, hvb⟩ := step_tokenIf_miss env [":"] wa ta b1 hta (by simp [htya, h2])
  obtain ⟨wc, tc, hic, hsc, htc, htyc, hvc⟩ := step_tokenIf_miss env ["="] wb tb b1 htb (by simp [htyb, htya, h3])
  obtain ⟨wd, td, hid, hsd, htd, htyd, hvd⟩ := step_tokenIf_miss env ["{"] wc tc b1 htc (by simp [htyc, htyb, htya, h4])
  have hsame := ((hsa.trans hsb).trans hsc).trans hsd
  have htyT : td.type = tm.type := by rw [htyd, htyc, htyb, htya]
  have hvT : td.value = tm.value := by rw [hvd, hvc, hvb, hva]
  obtain ⟨n, sp, hg, hcase⟩ := fieldName_cases _ pq nm hname
  cases doxygen with
  | some d =>
    refine ⟨wd, td, b1, some d, hsame, htd, SigEq.refl _, htyT, hvT, fun _ h => h, ?_⟩
    unfold parseField P.setLoc
    rcases hcase with ⟨hc, hl, rfl⟩ | ⟨hc, rfl⟩
    · simp only [bind, interp_bind, interp, hstack, htop, hg, Block.view, hc, ↓reduceIte, hl,
        hia, hib, hic, hid, pure]
    · simp only [bind, interp_bind, interp, hstack, htop, hg, Block.view, hc, Bool.false_eq_true,
        ↓reduceIte, hia, hib, hic, hid, pure]
  | none =>
    have hsig := getDoxygenAfter_sigEq env.mcRe wd.buf
    rcases tokenEofOk_sigEq env.cfg hsig.symm with ⟨e, he, _⟩ | ⟨o, bA, bB, hA, hB, hAB⟩
    · rw [htd] at he; cases he
    · rw [htd] at hA
      injection hA with hA; injection hA with ho hbA
      subst ho; subst hbA
      refine ⟨{ wd with buf := (getDoxygenAfter env.mcRe wd.buf).2 }, td, bB, (getDoxygenAfter env.mcRe wd.buf).1,
        hsame.trans (SameParse.setBuf wd _), hB, hAB, htyT, hvT, (fun _ h => by cases h), ?_⟩
      unfold parseField P.setLoc
      rcases hcase with ⟨hc, hl, rfl⟩ | ⟨hc, rfl⟩
      · simp only [bind, interp_bind, interp, hstack, htop, hg, Block.view, hc, ↓reduceIte, hl,
          hia, hib, hic, hid, pure, interp_getDoxygenAfter]
      · simp only [bind, interp_bind, interp, hstack, htop, hg, Block.view, hc, Bool.false_eq_true,
          ↓reduceIte, hia, hib, hic, hid, pure, interp_getDoxygenAfter]

/-- the value object of the written tokens -/
def valueOf (vals : List Tok) : Value := { tokens := vals.map (fun t => { value := t.value, type := t.type }) }

theorem createValue_eq : ∀ (res : List CTok) (vals : List Tok), res.map CTok.tv = vals.map Tok.tv → createValue res = valueOf vals := by
  intro res
  induction res with
  | nil => intro vals h; cases vals with
    | nil => rfl
    | cons v vs => simp at h
  | cons r rs ih =>
    intro vals h
    cases vals with
    | nil => simp at h
    | cons v vs =>
      simp only [List.map_cons, List.cons.injEq, CTok.tv, Tok.tv, Prod.mk.injEq] at h
      have := ih vs h.2
      simp only [createValue, valueOf, List.map_cons] at this ⊢
      rw [h.1.1, h.1.2]
      simp only [Value.mk.injEq] at this ⊢
      rw [this]

/-- `_parse_field` on a declarator with an initializer `= value` (no array, no bit-field): the
    value is EXACTLY the tokens written between the `=` and the `,` / `;` that ends it -/
theorem parseField_init (env : Env) (F : Nat) (mods : Mods) (dtype : DType) (pq : PQName) (template : Option TemplateDecl)
    (doxygen : Option String) (location : LocRef) (w : World) (eq : Tok) (vals : List Tok) (tm : Tok) (bq bv b1 : Buf)
    (blk : Block) (rest : List Block) (hstack : w.stack = blk :: rest) (nm : Option String)
    (hname : fieldName (blk.hdr.kind = .cls) pq = some nm)
    (hteq : tokenEofOk env.cfg w.buf = .ok (some eq, bq)) (heq : eq.type = "=")
    (hyv : Yields env.cfg bq vals bv) (htl : TopLevel [",", ";"] (vals.map (·.type)))
    (htok : tokenEofOk env.cfg bv = .ok (some tm, b1)) (htm : [",", ";"].contains tm.type = true)
    (hF : vals.length + 1 ≤ F) :
    ∃ (w5 : World) (t' : Tok) (bx : Buf) (dox : Option String),
      SameParse { w with stack := { blk with loc := location } :: rest } w5 ∧
      tokenEofOk env.cfg w5.buf = .ok (some t', bx) ∧ SigEq b1 bx ∧ t'.type = tm.type ∧ t'.value = tm.value ∧
      (∀ d, doxygen = some d → dox = some d) ∧
      interp env (parseField (F + 1) mods dtype (some pq) template doxygen location false) w =
        interp env (fieldEmit mods ({ blk with loc := location } : Block).view dtype (some pq) template nm none
          (some (valueOf vals)) dox false) w5 := by
  have htop := interp_getTop env { w with stack := { blk with loc := location } :: rest } { blk with loc := location } rest rfl
  obtain ⟨wa, ta, hia, hsa, hta, htya, hva⟩ := step_tokenIf_miss env ["["] { w with stack := { blk with loc := location } :: rest } eq bq hteq (by rw [heq]; decide)
  obtain ⟨wb, tb, hib, hsb, htb, htyb, hvb⟩ := step_tokenIf_miss env [":"] wa ta bq hta (by rw [htya, heq]; decide)
  obtain ⟨wc, cc, hic, hbc, hsc, _, _⟩ := step_tokenIf_hit env ["="] wb tb bq htb (by rw [htyb, htya, heq]; decide)
  obtain ⟨wd, res, td, hid, hbd, htvd, hsd, hres⟩ := consumeValueUntil_stops env [",", ";"] _ htl vals rfl tm htm F F [] wc bv b1
    (by rw [hbc]; exact hyv) htok hF hF
  have hcv : createValue res = valueOf vals := createValue_eq res vals (by simpa using hres)
  have htyT : td.type = tm.type := congrArg Prod.fst htvd
  have hvT : td.value = tm.value := congrArg Prod.snd htvd
  have htd : tokenEofOk env.cfg wd.buf = .ok (some td, b1) := by
    rw [hbd]; exact tokenEofOk_returnToken env.cfg td b1 (by rw [htyT]; exact tokenEofOk_not_discard htok)
  have hsame := ((hsa.trans hsb).trans hsc).trans hsd
  have hcvu : interp env (consumeValueUntil (F + 1) [] [",", ";"]) wc = (wd, .ok res) := hid
  obtain ⟨n, sp, hg, hcase⟩ := fieldName_cases _ pq nm hname
  cases doxygen with
  | some d =>
    refine ⟨wd, td, b1, some d, hsame, htd, SigEq.refl _, htyT, hvT, fun _ h => h, ?_⟩
    unfold parseField P.setLoc
    rcases hcase with ⟨hc, hl, rfl⟩ | ⟨hc, rfl⟩
    · have hc' : blk.hdr.kind = .cls := by simpa using hc
      simp only [bind, interp_bind, interp, hstack, htop, hg, Block.view, hc', Bool.false_or, decide_true, ↓reduceIte, hl,
        hia, hib, hic, Bool.false_eq_true, hcvu, hcv, pure]
    · have hc' : ¬ blk.hdr.kind = .cls := by simpa using hc
      simp only [bind, interp_bind, interp, hstack, htop, hg, Block.view, hc', Bool.false_or, decide_false, Bool.false_eq_true,
        ↓reduceIte, hia, hib, hic, hcvu, hcv, pure]
  | none =>
    have hsig := getDoxygenAfter_sigEq env.mcRe wd.buf
    rcases tokenEofOk_sigEq env.cfg hsig.symm with ⟨e, he, _⟩ | ⟨o, bA, bB, hA, hB, hAB⟩
    · rw [htd] at he; cases he
    · rw [htd] at hA
      injection hA with hA; injection hA with ho hbA
      subst ho; subst hbA
      refine ⟨{ wd with buf := (getDoxygenAfter env.mcRe wd.buf).2 }, td, bB, (getDoxygenAfter env.mcRe wd.buf).1,
        hsame.trans (SameParse.setBuf wd _), hB, hAB, htyT, hvT, (fun _ h => by cases h), ?_⟩
      unfold parseField P.setLoc
      rcases hcase with ⟨hc, hl, rfl⟩ | ⟨hc, rfl⟩
      · have hc' : blk.hdr.kind = .cls := by simpa using hc
        simp only [bind, interp_bind, interp, hstack, htop, hg, Block.view, hc', Bool.false_or, decide_true, ↓reduceIte, hl,
          hia, hib, hic, Bool.false_eq_true, hcvu, hcv, pure, interp_getDoxygenAfter]
      · have hc' : ¬ blk.hdr.kind = .cls := by simpa using hc
        simp only [bind, interp_bind, interp, hstack, htop, hg, Block.view, hc', Bool.false_or, decide_false, Bool.false_eq_true,
          ↓reduceIte, hia, hib, hic, hcvu, hcv, pure, interp_getDoxygenAfter]

/-- `_parse_field` on a bit-field `: width` in a class body (no array, no initializer): the width is
    the written decimal number -/
theorem parseField_bits (env : Env) (F : Nat) (mods : Mods) (dtype : DType) (pq : PQName) (template : Option TemplateDecl)
    (doxygen : Option String) (location : LocRef) (w : World) (colon num tm : Tok) (bc bn b1 : Buf)
    (blk : Block) (rest : List Block) (hstack : w.stack = blk :: rest) (hk : blk.hdr.kind = .cls) (nm : Option String)
    (hname : fieldName true pq = some nm)
    (htc : tokenEofOk env.cfg w.buf = .ok (some colon, bc)) (hc : colon.type = ":")
    (htn : tokenEofOk env.cfg bc = .ok (some num, bn)) (hn : num.type = "INT_CONST_DEC") (hdig : allDigits num.value = true)
    (htok : tokenEofOk env.cfg bn = .ok (some tm, b1)) (htm : [",", ";"].contains tm.type = true) :
    ∃ (w5 : World) (t' : Tok) (bx : Buf) (dox : Option String),
      SameParse { w with stack := { blk with loc := location } :: rest } w5 ∧
      tokenEofOk env.cfg w5.buf = .ok (some t', bx) ∧ SigEq b1 bx ∧ t'.type = tm.type ∧ t'.value = tm.value ∧
      (∀ d, doxygen = some d → dox = some d) ∧
      interp env (parseField F mods dtype (some pq) template doxygen location false) w =
        interp env (fieldEmit mods ({ blk with loc := location } : Block).view dtype (some pq) template nm
          (some num.value.toNat!) none dox false) w5 := by
  have htop := interp_getTop env { w with stack := { blk with loc := location } :: rest } { blk with loc := location } rest rfl
  obtain ⟨wa, ta, hia, hsa, hta, htya, _⟩ := step_tokenIf_miss env ["["] { w with stack := { blk with loc := location } :: rest } colon bc htc (by rw [hc]; decide)
  obtain ⟨wb, cb, hib, hbb, hsb, _, _⟩ := step_tokenIf_hit env [":"] wa ta bc hta (by rw [htya, hc]; decide)
  obtain ⟨wc, cc, hic, hbc, hsc, _, hvc⟩ := step_mustBe env ["INT_CONST_DEC"] wb num bn (by rw [hbb]; exact htn) (by rw [hn]; decide)
  have htm' : tm.type ≠ "=" ∧ tm.type ≠ "{" := by
    simp only [List.contains_cons, List.contains_nil, Bool.or_false, Bool.or_eq_true, beq_iff_eq] at htm
    rcases htm with h | h <;> (rw [h]; exact ⟨by decide, by decide⟩)
  obtain ⟨wd, td, hid, hsd, htd, htyd, hvd⟩ := step_tokenIf_miss env ["="] wc tm b1 (by rw [hbc]; exact htok) (by simp [htm'.1])
  obtain ⟨we, te, hie, hse, hte, htye, hve⟩ := step_tokenIf_miss env ["{"] wd td b1 htd (by simp [htyd, htm'.2])
  have hsame := (((hsa.trans hsb).trans hsc).trans hsd).trans hse
  have htyT : te.type = tm.type := by rw [htye, htyd]
  have hvT : te.value = tm.value := by rw [hve, hvd]
  obtain ⟨n, sp, hg, hcase⟩ := fieldName_cases _ pq nm hname
  have hdig' : allDigits cc.value = true := by rw [hvc]; exact hdig
  have hpb : interp env parseBitfield wb = (wc, .ok num.value.toNat!) := by
    unfold parseBitfield
    simp only [bind, interp_bind, hic, hvc, hdig, ↓reduceIte, pure, interp]
  obtain ⟨hl, rfl⟩ : ¬ pq.segments.length > 1 ∧ nm = some n := by
    rcases hcase with ⟨_, hl, h⟩ | ⟨hc', _⟩
    · exact ⟨hl, h⟩
    · cases hc'
  cases doxygen with
  | some d =>
    refine ⟨we, te, b1, some d, hsame, hte, SigEq.refl _, htyT, hvT, fun _ h => h, ?_⟩
    unfold parseField P.setLoc
    simp only [bind, interp_bind, interp, hstack, htop, hg, Block.view, hk, Bool.false_or, decide_true, ↓reduceIte, hl,
      hia, hib, Bool.not_true, Bool.false_eq_true, hpb, hid, hie, pure]
  | none =>
    have hsig := getDoxygenAfter_sigEq env.mcRe we.buf
    rcases tokenEofOk_sigEq env.cfg hsig.symm with ⟨e, he, _⟩ | ⟨o, bA, bB, hA, hB, hAB⟩
    · rw [hte] at he; cases he
    · rw [hte] at hA
      injection hA with hA; injection hA with ho hbA
      subst ho; subst hbA
      refine ⟨{ we with buf := (getDoxygenAfter env.mcRe we.buf).2 }, te, bB, (getDoxygenAfter env.mcRe we.buf).1,
        hsame.trans (SameParse.setBuf we _), hB, hAB, htyT, hvT, (fun _ h => by cases h), ?_⟩
      unfold parseField P.setLoc
      simp only [bind, interp_bind, interp, hstack, htop, hg, Block.view, hk, Bool.false_or, decide_true, ↓reduceIte, hl,
        hia, hib, Bool.not_true, Bool.false_eq_true, hpb, hid, hie, pure, interp_getDoxygenAfter]

end Cxx
