/-
  Theorems/AttrSeq.lean — `_consume_attribute_specifier_seq`: any sequence of `[[ … ]]` and
  `alignas( … )` groups with properly nested content is consumed whole, whatever it contains,
  and the token after the sequence is left in the stream (C13).
-/
import CxxModel.Theorems.Stream
import CxxModel.Theorems.PtrChain
import CxxModel.Parser.Basic
namespace Cxx
open P

/-- the tokens of one attribute group after its first token -/
inductive GroupBody (headTy : String) : List Tok → Prop
  | brackets (content : List Tok) (rb : Tok) : headTy = "DBL_LBRACKET" → Nested (content.map (·.type)) →
      rb.type = "DBL_RBRACKET" → GroupBody headTy (content ++ [rb])
  | alignas (op : Tok) (content : List Tok) (cp : Tok) : headTy = "alignas" → op.type = "(" →
      Nested (content.map (·.type)) → cp.type = ")" → GroupBody headTy (op :: (content ++ [cp]))

theorem GroupBody.start_type {ty : String} {body : List Tok} (h : GroupBody ty body) :
    Gen.attributeSpecifierSeqStartTypes.contains ty = true := by
  cases h with
  | brackets _ _ h _ _ => rw [h]; decide
  | alignas _ _ _ h _ _ _ => rw [h]; decide

/-- the group's own tokens are consumed; the iteration then looks at the next token -/
theorem attrGroup_consumed (env : Env) (G : Nat) (ct : CTok) (body : List Tok) (w : World) (bmid : Buf)
    (hg : GroupBody ct.type body) (hy : Yields env.cfg w.buf body bmid) (hG : body.length + 1 ≤ G) :
    ∃ wm, wm.buf = bmid ∧ SameParse w wm ∧
      ∀ (w2 : World) (o : Option CTok), interp env (P.tokenIf Gen.attributeSpecifierSeqStartTypes) wm = (w2, .ok o) →
        interp env (attrSeqBody (G + 1) ct) w =
          (w2, .ok (match o with
            | none => .inr ()
            | some t => .inl t)) := by
  cases hg with
  | brackets content rb hty hn hrb =>
    have hl : Gen.balancedTokenMap.lookup ct.type = some "DBL_RBRACKET" := by rw [hty]; decide
    obtain ⟨w', res, hw, hb, hsp, _⟩ := consumeBalanced_region env ct "DBL_RBRACKET" hl content rb hn hrb w bmid G hy
      (by simp at hG; omega)
    refine ⟨w', hb, hsp, ?_⟩
    intro w2 o hti
    unfold attrSeqBody
    simp only [hty, ↓reduceIte, bind, interp_bind, hw, hti]
    cases o <;> rfl
  | alignas op content cp hty hop hn hcp =>
    cases hy with
    | cons htok hrest =>
      rename_i b1
      have hho := handOut_same ({ w with buf := b1 } : World) op
      obtain ⟨hs1, hb1, hty1, _⟩ := hho
      have hl : Gen.balancedTokenMap.lookup (({ w with buf := b1 } : World).handOut op).1.type = some ")" := by
        rw [hty1, hop]; decide
      obtain ⟨w', res, hw, hb, hsp, _⟩ := consumeBalanced_region env _ ")" hl content cp hn hcp _ bmid G
        (by rw [hb1]; exact hrest) (by simp at hG; omega)
      refine ⟨w', hb, ((SameParse.setBuf w b1).trans hs1).trans hsp, ?_⟩
      intro w2 o hti
      unfold attrSeqBody
      simp only [hty, show ("alignas" = "DBL_LBRACKET") = False by decide, ↓reduceIte, bind, interp_bind,
        interp_nextTokenMustBe_ok env ["("] w op b1 htok (by rw [hop]; decide), hw, hti]
      cases o <;> rfl

/-- an attribute group: its first token and the rest -/
structure AGroup where
  head : Tok
  body : List Tok

def AGroup.toks (g : AGroup) : List Tok := g.head :: g.body

def AGroup.OK (g : AGroup) : Prop := GroupBody g.head.type g.body

/-- **attribute sequences**: the first group's first token has been read (`ct`); the stream
    yields the rest of that group, then any number of further groups, then a token that starts
    no group: everything up to that token is consumed and that token stays in the stream -/
theorem attrSeq_consumes (env : Env) (G : Nat) : ∀ (groups : List AGroup) (ct : CTok) (body : List Tok) (w : World)
    (bmid b' : Buf) (term : Tok) (n : Nat),
    GroupBody ct.type body → (∀ g ∈ groups, g.OK ∧ g.toks.length + 1 ≤ G) → body.length + 1 ≤ G →
    Yields env.cfg w.buf (body ++ groups.flatMap AGroup.toks) bmid →
    tokenEofOk env.cfg bmid = .ok (some term, b') → Gen.attributeSpecifierSeqStartTypes.contains term.type = false →
    groups.length + 1 ≤ n →
    ∃ (w' : World) (t' : Tok), interp env (P.loopN n ct (attrSeqBody (G + 1))) w = (w', .ok ()) ∧
      w'.buf = Cxx.returnToken t' b' ∧ t'.tv = term.tv ∧ SameParse w w' := by
  intro groups
  induction groups with
  | nil =>
    intro ct body w bmid b' term n hg _ hG hy htok hterm hn
    simp only [List.flatMap_nil, List.append_nil] at hy
    obtain ⟨wm, hbm, hsp, hbody⟩ := attrGroup_consumed env G ct body w bmid hg hy hG
    have htok' : tokenEofOk env.cfg wm.buf = .ok (some term, b') := by rw [hbm]; exact htok
    have hho := handOut_same ({ wm with buf := b' } : World) term
    obtain ⟨hs1, hb1, hty1, hv1⟩ := hho
    obtain ⟨k, rfl⟩ : ∃ k, n = k + 1 := ⟨n - 1, by omega⟩
    refine ⟨{ (({ wm with buf := b' } : World).handOut term).2 with
        buf := Cxx.returnToken ((({ wm with buf := b' } : World).handOut term).2.toTok (({ wm with buf := b' } : World).handOut term).1) b' },
      _, ?_, rfl, by simp [Tok.tv, World.toTok, hty1, hv1], ?_⟩
    · have hti : interp env (P.tokenIf Gen.attributeSpecifierSeqStartTypes) wm =
          ({ (({ wm with buf := b' } : World).handOut term).2 with
              buf := Cxx.returnToken ((({ wm with buf := b' } : World).handOut term).2.toTok (({ wm with buf := b' } : World).handOut term).1) b' },
            .ok none) := by
        unfold P.tokenIf
        simp only [interp_tokenIfP, htok', hty1, hterm, Bool.false_eq_true, ↓reduceIte,
          List.map_cons, List.map_nil, Cxx.returnTokens, List.singleton_append, hb1]
        rfl
      rw [P.loopN]
      simp only [bind, interp_bind, hbody _ _ hti, pure, interp]
    · exact ((hsp.trans (SameParse.setBuf wm b')).trans hs1).trans (SameParse.setBuf _ _)
  | cons g rest ih =>
    intro ct body w bmid b' term n hg hall hG hy htok hterm hn
    obtain ⟨hgok, hgG⟩ := hall g (by simp)
    have hy' : Yields env.cfg w.buf (body ++ (g.head :: (g.body ++ rest.flatMap AGroup.toks))) bmid := by
      simpa [List.flatMap_cons, AGroup.toks, List.append_assoc] using hy
    obtain ⟨bm1, hy1, hy2⟩ := Yields.split hy'
    obtain ⟨wm, hbm, hsp, hbody⟩ := attrGroup_consumed env G ct body w bm1 hg hy1 hG
    cases hy2 with
    | cons htokg hrestg =>
      rename_i b2
      have htokg' : tokenEofOk env.cfg wm.buf = .ok (some g.head, b2) := by rw [hbm]; exact htokg
      have hho := handOut_same ({ wm with buf := b2 } : World) g.head
      obtain ⟨hs1, hb1, hty1, _⟩ := hho
      -- the next group's head is one of the start types
      have hstart : Gen.attributeSpecifierSeqStartTypes.contains g.head.type = true := GroupBody.start_type hgok
      obtain ⟨k, rfl⟩ : ∃ k, n = k + 1 := ⟨n - 1, by omega⟩
      have hgok' : GroupBody (({ wm with buf := b2 } : World).handOut g.head).1.type g.body := by rw [hty1]; exact hgok
      obtain ⟨w', t', hw, hb, ht, hsp2⟩ := ih _ g.body _ bmid b' term k hgok' (fun x hx => hall x (by simp [hx]))
        (by simp [AGroup.toks] at hgG; omega) (by rw [hb1]; exact hrestg) htok hterm (by simp at hn; omega)
      refine ⟨w', t', ?_, hb, ht, ((hsp.trans (SameParse.setBuf wm b2)).trans hs1).trans hsp2⟩
      have hti : interp env (P.tokenIf Gen.attributeSpecifierSeqStartTypes) wm =
          ((({ wm with buf := b2 } : World).handOut g.head).2, .ok (some (({ wm with buf := b2 } : World).handOut g.head).1)) := by
        unfold P.tokenIf
        simp only [interp_tokenIfP, htokg', hty1, hstart, ↓reduceIte]
      rw [P.loopN]
      simp only [bind, interp_bind, hbody _ _ hti]
      exact hw

end Cxx
