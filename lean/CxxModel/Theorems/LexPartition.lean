/-
  Theorems/LexPartition.lean — the PLY token loop partitions the text: every token is the
  text at its position, what lies between two tokens was skipped (ignored characters and
  matches of rules whose action returns nothing), nothing else.  For every rule set.
-/
import CxxModel.Ply
namespace Cxx

theorem firstRule_suffix {rules : List Rule} {s rest : Str} {r : Rule}
    (h : firstRule rules s = some (r, rest)) : rest <:+ s := by
  induction rules with
  | nil => simp [firstRule] at h
  | cons x xs ih =>
    simp only [firstRule] at h
    split at h
    · rename_i rest' hm
      injection h with h; injection h with h1 h2
      subst h2
      rw [rmatchK_eq_rmatch] at hm
      exact rmatch_suffix hm
    · exact ih h

theorem firstRule_mem {rules : List Rule} {s rest : Str} {r : Rule}
    (h : firstRule rules s = some (r, rest)) : r ∈ rules := by
  induction rules with
  | nil => simp [firstRule] at h
  | cons x xs ih =>
    simp only [firstRule] at h
    split at h
    · injection h with h; injection h with h1 _; subst h1; simp
    · exact List.mem_cons_of_mem _ (ih h)

theorem take_drop_of_suffix {s rest : Str} (h : rest <:+ s) :
    s = s.take (s.length - rest.length) ++ rest := by
  obtain ⟨pre, hp⟩ := h
  subst hp
  simp

/-- a token returned by an action: its value is the matched text `v`, the state moves past it -/
theorem runAction_tok {kw : List String} {r : Rule} {v : Str} {st0 : LexState} {rest : Str} {t : RawTok} {st' : LexState}
    (h : runAction kw r v st0 rest = .tok t st') :
    t.value = v ∧ t.lexpos = st0.pos ∧ t.lineno = st0.lineno ∧ st'.rest = rest ∧ st'.pos = st0.pos + v.length := by
  unfold runAction at h
  cases ha : r.action <;> simp only [ha] at h
  case ret => injection h with h1 h2; subst h1 h2; simp
  case skip => cases h
  case countNl => injection h with h1 h2; subst h1 h2; simp
  case lenNl => injection h with h1 h2; subst h1 h2; simp
  case keyword => split at h <;> (injection h with h1 h2; subst h1 h2; simp)
  case ppDirective =>
    split at h
    · cases h
    · split at h
      · cases h
      · split at h <;> simp [mkErr] at h
  case error => simp [mkErr] at h
  case errorFmt => simp [mkErr] at h
  case «opaque» => cases h

theorem runAction_none {kw : List String} {r : Rule} {v : Str} {st0 : LexState} {rest : Str} {st' : LexState}
    (h : runAction kw r v st0 rest = .none st') : st'.rest = rest ∧ st'.pos = st0.pos + v.length := by
  unfold runAction at h
  cases ha : r.action <;> simp only [ha] at h
  case ret => cases h
  case skip => injection h with h; subst h; exact ⟨rfl, rfl⟩
  case countNl => cases h
  case lenNl => cases h
  case keyword => split at h <;> cases h
  case ppDirective =>
    split at h
    · injection h with h; subst h; exact ⟨rfl, rfl⟩
    · split at h
      · injection h with h; subst h; exact ⟨rfl, rfl⟩
      · split at h <;> simp [mkErr] at h
  case error => simp [mkErr] at h
  case errorFmt => simp [mkErr] at h
  case «opaque» => cases h

/-- **one token**: the remaining input is `gap ++ value ++ rest'`, positions in step -/
theorem plyToken_partition (cfg : LexCfg) : ∀ (fuel : Nat) (st : LexState) (t : RawTok) (st' : LexState),
    plyToken cfg fuel st = .tok t st' →
    ∃ gap, st.rest = gap ++ t.value ++ st'.rest ∧ t.lexpos = st.pos + gap.length ∧
      st'.pos = st.pos + gap.length + t.value.length := by
  intro fuel
  induction fuel with
  | zero => intro st t st' h; simp [plyToken] at h
  | succ fuel ih =>
    intro st t st' h
    simp only [plyToken] at h
    split at h
    · cases h
    · rename_i c tl hrest
      split at h
      · -- ignored character
        obtain ⟨gap, h1, h2, h3⟩ := ih _ _ _ h
        refine ⟨c :: gap, ?_, ?_, ?_⟩
        · rw [hrest]; simp only at h1; simp [h1]
        · simp only at h2; simp [h2]; omega
        · simp only at h3; simp [h3]; omega
      · split at h
        · rename_i r rest hfr
          have hsuf := firstRule_suffix hfr
          have hsplit := take_drop_of_suffix hsuf
          split at h
          · rename_i tk st1 hact
            injection h with h1 h2; subst h1 h2
            obtain ⟨hv, hp, _, hr, hpos⟩ := runAction_tok hact
            refine ⟨[], ?_, ?_, ?_⟩
            · simp only [List.nil_append, hv, hr]; exact hsplit
            · simp [hp]
            · simp [hpos, hv]
          · rename_i st1 hact
            split at h
            · obtain ⟨hr, hpos⟩ := runAction_none hact
              obtain ⟨gap, h1, h2, h3⟩ := ih _ _ _ h
              refine ⟨st.rest.take (st.rest.length - rest.length) ++ gap, ?_, ?_, ?_⟩
              · rw [hr] at h1
                conv => lhs; rw [hsplit]
                simp [h1]
              · rw [h2, hpos]; simp; omega
              · rw [h3, hpos]; simp; omega
            · cases h
          · cases h
          · cases h
        · split at h
          · injection h with h1 h2; subst h1 h2
            exact ⟨[], by simp [hrest], by simp, by simp⟩
          · cases h

/-- **the whole text**: the raw tokens in order, with the gaps between them, reproduce the input -/
def interleave : List (Str × RawTok) → Str
  | [] => []
  | (gap, t) :: rest => gap ++ t.value ++ interleave rest

theorem lexAll_partition (cfg : LexCfg) : ∀ (fuel : Nat) (st : LexState) (acc : List RawTok) (toks : List RawTok)
    (err : Option LexErr) (done : Bool),
    lexAll cfg fuel st acc = (toks, err, done) →
    ∃ (gaps : List (Str × RawTok)) (tail : Str),
      toks = acc.reverse ++ gaps.map (·.2) ∧ st.rest = interleave gaps ++ tail := by
  intro fuel
  induction fuel with
  | zero =>
    intro st acc toks err done h
    simp only [lexAll] at h
    injection h with h1 _; subst h1
    exact ⟨[], st.rest, by simp, by simp [interleave]⟩
  | succ fuel ih =>
    intro st acc toks err done h
    simp only [lexAll] at h
    split at h
    · rename_i t st' htok
      obtain ⟨gap, hg, _, _⟩ := plyToken_partition cfg _ _ _ _ htok
      obtain ⟨gaps, tail, h1, h2⟩ := ih _ _ _ _ _ h
      refine ⟨(gap, t) :: gaps, tail, ?_, ?_⟩
      · simp [h1]
      · simp only [interleave]; rw [hg, h2]; simp
    · injection h with h1 _; subst h1; exact ⟨[], st.rest, by simp, by simp [interleave]⟩
    · injection h with h1 _; subst h1; exact ⟨[], st.rest, by simp, by simp [interleave]⟩
    · injection h with h1 _; subst h1; exact ⟨[], st.rest, by simp, by simp [interleave]⟩

end Cxx
