/-
  Theorems/Structural.lean — the explicit structural checks of the parser reject (C06):
  for every parser state of the stated shape the routine ends in a parse error at the
  offending token, consuming nothing more and delivering nothing.
-/
import CxxModel.Theorems.ExternForm
namespace Cxx
open P

theorem interp_raise_some (env : Env) {α : Type} (tok : CTok) (w : World) :
    interp env (raiseParseError (α := α) (some tok)) w = (w, .error (.parse ("unexpected '" ++ tok.value ++ "'") (some tok))) := by
  unfold raiseParseError cxxError
  simp [bind, interp_bind, pure, interp]

/-- `friend` outside a class body -/
theorem friend_outside_class (env : Env) (F : Nat) (c : Core) (tok : CTok) (doxygen : Option String) (template : TemplateVar)
    (w : World) (blk : Block) (rest : List Block) (hstack : w.stack = blk :: rest) (hk : blk.view.kind ≠ .cls) :
    interp env (parseFriendDecl F c tok doxygen template) w =
      (w, .error (.parse ("unexpected '" ++ tok.value ++ "'") (some tok))) := by
  unfold parseFriendDecl
  simp only [bind, interp_bind, interp_getTop env w blk rest hstack, bne_iff_ne, ne_eq, hk, not_false_eq_true, ↓reduceIte,
    interp_raise_some]

/-- `public:` / `protected:` / `private:` outside a class body -/
theorem access_outside_class (env : Env) (tok : CTok) (w : World) (blk : Block) (rest : List Block)
    (hstack : w.stack = blk :: rest) (hk : blk.view.kind ≠ .cls) :
    interp env (processAccessSpecifier tok) w = (w, .error (.parse ("unexpected '" ++ tok.value ++ "'") (some tok))) := by
  unfold processAccessSpecifier
  simp only [bind, interp_bind, interp_getTop env w blk rest hstack, bne_iff_ne, ne_eq, hk, not_false_eq_true, ↓reduceIte,
    interp_raise_some]

/-- a namespace (or namespace alias) header inside a class body: always an error, nothing opened -/
theorem namespace_in_class (env : Env) (loc : LocRef) (doxygen : Option String) (inline : Bool) (names : List String)
    (a : Option CTok) (w : World) (blk : Block) (rest : List Block) (hstack : w.stack = blk :: rest) (hk : blk.view.kind = .cls) :
    ∃ msg, interp env (nsFinish loc doxygen inline names a) w = (w, .error (.parse msg none)) := by
  unfold nsFinish cxxError
  split
  · exact ⟨"a nested namespace definition cannot be inline", by simp [interp]⟩
  · refine ⟨"namespace cannot be defined in a class", ?_⟩
    simp only [bind, interp_bind, interp_getTop env w blk rest hstack, hk, ↓reduceIte, interp]

/-- a closer that does not match the innermost open bracket (neither being `>`) is an error -/
theorem mismatched_closer (st : List CTok × List String) (tok : CTok) (e : String) (stack : List String)
    (hend : isBalancedEnd tok.type = true) (hst : st.2 = e :: stack) (hne : tok.type ≠ e) (h1 : tok.type ≠ ">") (h2 : e ≠ ">")
    (hnf : fusedClosers tok.type e stack = false) :
    balStep st tok = .error (unexpectedErr tok e) := by
  have hsk : skipGt e stack = (e, stack) := by
    cases stack with
    | nil => simp [skipGt]
    | cons a as => simp [skipGt, h2]
  unfold balStep
  simp [hend, hst, hne, h1, h2, hnf, hsk]

/-- a closer with nothing open is an error as well -/
theorem closer_nothing_open (st : List CTok × List String) (tok : CTok)
    (hend : isBalancedEnd tok.type = true) (hst : st.2 = []) :
    ∃ e, balStep st tok = .error e := by
  unfold balStep
  simp [hend, hst]

theorem nextTokenMustBe_same (env : Env) (types : List String) (w w1 : World) (c : CTok)
    (h : interp env (nextTokenMustBe types) w = (w1, .ok c)) : SameParse w w1 := by
  unfold nextTokenMustBe at h
  simp only [bind, interp_bind, interp_token] at h
  cases ht : tokenEofOk env.cfg w.buf with
  | error e => simp [ht] at h
  | ok r =>
    obtain ⟨o, b⟩ := r
    cases o with
    | none => simp [ht] at h
    | some t =>
      simp only [ht] at h
      have hs := (handOut_same ({ w with buf := b } : World) t).1
      split at h
      · simp only [pure, interp, Prod.mk.injEq] at h
        rw [← h.1]
        exact (SameParse.setBuf w b).trans hs
      · unfold raiseParseError cxxError at h
        simp [bind, interp_bind, pure, interp] at h

/-- a concept definition inside a class body never succeeds -/
theorem concept_in_class (env : Env) (F : Nat) (ctok : CTok) (doxygen : Option String) (template : TemplateDecl)
    (w : World) (blk : Block) (rest : List Block) (hstack : w.stack = blk :: rest) (hk : blk.view.kind = .cls)
    (w' : World) (r : Except Err Unit) (h : interp env (parseConcept F ctok doxygen template) w = (w', r)) :
    ∃ e, r = .error e := by
  unfold parseConcept at h
  simp only [bind, interp_bind] at h
  cases h1 : interp env (nextTokenMustBe ["NAME"]) w with
  | mk w1 r1 =>
    cases r1 with
    | error e => simp only [h1, Prod.mk.injEq] at h; exact ⟨e, h.2.symm⟩
    | ok name =>
      have s1 := nextTokenMustBe_same env _ w w1 name h1
      simp only [h1] at h
      cases h2 : interp env (nextTokenMustBe ["="]) w1 with
      | mk w2 r2 =>
        cases r2 with
        | error e => simp only [h2, Prod.mk.injEq] at h; exact ⟨e, h.2.symm⟩
        | ok eq =>
          have s2 := nextTokenMustBe_same env _ w1 w2 eq h2
          simp only [h2] at h
          cases h3 : interp env (consumeValueUntil F [] [",", ";"]) w2 with
          | mk w3 r3 =>
            cases r3 with
            | error e => simp only [h3, Prod.mk.injEq] at h; exact ⟨e, h.2.symm⟩
            | ok toks =>
              obtain ⟨_, _, _, _, _, _, s3, _, _, _⟩ := consumeValueUntil_contiguous env _ F [] w2 w3 toks h3
              have hst : w3.stack = blk :: rest := by rw [s3.stack, s2.stack, s1.stack]; exact hstack
              simp only [h3, interp_getTop env w3 blk rest hst, hk, ↓reduceIte] at h
              unfold cxxError at h
              simp only [interp, Prod.mk.injEq] at h
              exact ⟨_, h.2.symm⟩

end Cxx
