/-
  Ply.lean — model of `_ply/lex.py: Lexer.token` as configured by `PlyLexer`.

  One master regular expression, alternatives in rule order: the first rule that matches
  any prefix wins (not the longest).  Then the rule's action runs; rules whose action
  returns nothing (`#line`, `#warning`) are skipped; ignored characters are skipped; a
  character matching no rule is a literal token if it is in `literals`, else `t_error`.
-/
import CxxModel.LexTypes
namespace Cxx

def countNl : Str → Nat
  | [] => 0
  | c :: t => (if c = 10 then 1 else 0) + countNl t

/-- First rule (in order) whose regex matches a prefix, with the remainder. -/
def firstRule : List Rule → Str → Option (Rule × Str)
  | [], _ => none
  | r :: rs, s =>
    match rmatchK r.re s with
    | some rest => some (r, rest)
    | none => firstRule rs s

/-! #### `#line` directives: `_line_re = ^\#[\t ]*(line)? (\d+) "(.*)"` -/

def isBlankTab (c : Nat) : Bool := c = 32 || c = 9

def dropBlankTab : Str → Str
  | [] => []
  | c :: t => if isBlankTab c then dropBlankTab t else c :: t

def isAsciiDigit (c : Nat) : Bool := decide (48 ≤ c) && decide (c ≤ 57)

def takeDigits : Str → Str × Str
  | [] => ([], [])
  | c :: t => if isAsciiDigit c then let (d, r) := takeDigits t; (c :: d, r) else ([], c :: t)

def digitsVal (d : Str) : Nat := d.foldl (fun acc c => acc * 10 + (c - 48)) 0

/-- index of the last `"` (34) in a string, if any -/
def lastQuote (s : Str) : Option Nat :=
  let idxs := (List.range s.length).filter (fun i => s[i]? = some 34)
  idxs.getLast?

def noNl (s : Str) : Bool := s.all (fun c => c != 10)

def blankRun : Str → Nat
  | [] => 0
  | c :: t => if isBlankTab c then blankRun t + 1 else 0

/-- after `#[\t ]*`: optional `line` (tried first), then ` digits "body"` up to the last quote -/
def lineAfterBlanks (t : Str) : Option (Nat × Str) :=
  let tryAfter (t : Str) : Option (Nat × Str) :=
    match t with
    | 32 :: t2 =>
      let (d, r) := takeDigits t2
      if d.isEmpty then none else
      match r with
      | 32 :: 34 :: body =>
        match lastQuote body with
        | some i => some (digitsVal d, body.take i)
        | none => none
      | _ => none
    | _ => none
  match t with
  | 108 :: 105 :: 110 :: 101 :: t' =>
    match tryAfter t' with
    | some x => some x
    | none => tryAfter t
  | _ => tryAfter t

/-- try `[\t ]*` greedily: the longest run first, then shorter ones -/
def lineTryRuns (t : Str) : Nat → Option (Nat × Str)
  | 0 => lineAfterBlanks t
  | k + 1 =>
    match lineAfterBlanks (t.drop (k + 1)) with
    | some x => some x
    | none => lineTryRuns t k

/-- `_line_re.match(value)` restricted to ASCII digits: returns `(int(group 2), group 3)`.
    The value of a `PP_DIRECTIVE` token never contains a newline (`\#(.*)`). -/
def lineDirective (v : Str) : Option (Nat × Str) :=
  match v with
  | 35 :: t => lineTryRuns t (blankRun t)
  | _ => none

def startsWith (s pre : Str) : Bool := pre.isPrefixOf s

def containsSub (s sub : Str) : Bool :=
  (List.range (s.length + 1)).any (fun i => sub.isPrefixOf (s.drop i))

/-- outcome of running a rule's action on a matched text -/
inductive ActOut where
  | tok (t : RawTok) (st : LexState)
  | none (st : LexState)          -- action returned nothing: go on with the next token
  | err (e : LexErr)
  | opaque
  deriving Repr

def mkErr (msg : String) (v : Str) (st : LexState) : ActOut :=
  .err { msg := msg, tokValue := v, loc := st.location }

def ppMsg (kind : String) : String :=
  "cxxheaderparser does not support " ++ kind ++ " directives, please use a C++ preprocessor first"

/-- Run a rule's action.  `st0` is the state before the match (its `lineno` is the token's
    `lineno`), `rest` the remainder after the match. -/
def runAction (keywords : List String) (r : Rule) (v : Str) (st0 : LexState) (rest : Str) : ActOut :=
  let st : LexState := { st0 with rest := rest, pos := st0.pos + v.length }
  let t : RawTok := { type := r.tokType, value := v, lineno := st0.lineno, lexpos := st0.pos }
  match r.action with
  | .ret => .tok t st
  | .skip => .none st
  | .countNl => .tok t { st with lineno := st.lineno + countNl v }
  | .lenNl => .tok t { st with lineno := st.lineno + v.length }
  | .keyword =>
    let sv := strOfStr v
    if keywords.contains sv then .tok { t with type := sv } st else .tok t st
  | .ppDirective =>
    match lineDirective v with
    | some (n, f) =>
      .none { st with filename := some (strOfStr f), lineOffset := 1 + (st.lineno : Int) - (n : Int) }
    | none =>
      if startsWith v (strToStr "#warning") then .none st
      else if containsSub v (strToStr "define") then mkErr (ppMsg "#define") v st
      else mkErr (ppMsg "preprocessor") v st
  | .error msg => mkErr msg v st
  | .errorFmt pre => mkErr (pre ++ strOfStr v) v st
  | .opaque => .opaque

/-- Python `repr()` of a str, for the characters the model handles exactly (ASCII). -/
def pyReprChar (q : Nat) (c : Nat) : String :=
  if c = 92 then "\\\\"
  else if c = q then "\\" ++ String.singleton (Char.ofNat c)
  else if c = 10 then "\\n"
  else if c = 13 then "\\r"
  else if c = 9 then "\\t"
  else if c < 32 || c = 127 then
    let hex := "0123456789abcdef".toList
    "\\x" ++ String.ofList [hex.getD (c / 16) '0', hex.getD (c % 16) '0']
  else String.singleton (Char.ofNat c)

def pyRepr (s : Str) : String :=
  let q : Nat := if s.contains 39 && !s.contains 34 then 34 else 39
  let qs := String.singleton (Char.ofNat q)
  qs ++ String.join (s.map (pyReprChar q)) ++ qs

structure LexCfg where
  rules : List Rule
  literals : List Nat
  ignore : List Nat
  keywords : List String

inductive TokOut where
  | tok (t : RawTok) (st : LexState)
  | eof (st : LexState)
  | err (e : LexErr) (st : LexState)
  | opaque
  deriving Repr

/-- `Lexer.token()`.  `fuel` bounds the number of skipped items; `|rest|+1` suffices
    because every iteration consumes at least one character. -/
def plyToken (cfg : LexCfg) : Nat → LexState → TokOut
  | 0, st => .eof st
  | fuel + 1, st =>
    match st.rest with
    | [] => .eof st
    | c :: t =>
      if cfg.ignore.contains c then
        plyToken cfg fuel { st with rest := t, pos := st.pos + 1 }
      else
        match firstRule cfg.rules st.rest with
        | some (r, rest) =>
          let v := st.rest.take (st.rest.length - rest.length)
          match runAction cfg.keywords r v st rest with
          | .tok tk st' => .tok tk st'
          | .none st' => if st'.rest.length < st.rest.length then plyToken cfg fuel st' else .opaque
          | .err e => .err e { st with rest := rest, pos := st.pos + v.length }
          | .opaque => .opaque
        | none =>
          if cfg.literals.contains c then
            let s1 := strOfStr [c]
            .tok { type := s1, value := [c], lineno := st.lineno, lexpos := st.pos }
                 { st with rest := t, pos := st.pos + 1 }
          else
            .err { msg := "Illegal character " ++ pyRepr st.rest, tokValue := st.rest, loc := st.location } st

def plyTokenF (cfg : LexCfg) (st : LexState) : TokOut := plyToken cfg (st.rest.length + 1) st

/-- Lex everything (for the correspondence check of the raw lexer). -/
def lexAll (cfg : LexCfg) : Nat → LexState → List RawTok → (List RawTok × Option LexErr × Bool)
  | 0, _, acc => (acc.reverse, none, false)
  | fuel + 1, st, acc =>
    match plyTokenF cfg st with
    | .tok t st' => lexAll cfg fuel st' (t :: acc)
    | .eof _ => (acc.reverse, none, true)
    | .err e _ => (acc.reverse, some e, true)
    | .opaque => (acc.reverse, none, false)

end Cxx
