/-
  Prog.lean — the interface between `parser.py` and the rest of the package, as a free
  monad.  The parser model (`Parser/*.lean`) is a *client program*: a `Prog` term.  The
  interpreter (`Interp.lean`) gives the primitives their meaning (token stream, block
  stack, visitor, options).  Theorems proved about the interpreter for every `Prog` hold
  for the parser model by instantiation.

  Clients never see a real `Location`: tokens carry an opaque index (`sidx`, the ordinal
  of the token among the significant tokens of the input) and `current_location()`
  returns an opaque handle.  Locations are resolved by the interpreter when a callback is
  delivered or an error is reported.  (In `parser.py` locations only ever flow from a
  token or `current_location()` into `state.location` / a state constructor / the error
  prefix — checked by the extractor, `Gen.Uses`.)
-/
import CxxModel.TokStream
import CxxModel.Types
namespace Cxx

/-- opaque location handle -/
inductive LocRef where
  | tok (sidx : Nat)       -- `tok.location`
  | cur (n : Nat)          -- n-th result of `current_location()`
  | start                  -- location of the global state (taken in `__init__`)
  deriving Repr, DecidableEq, Inhabited

/-- `ParsedTypeModifiers`: the three dicts, as (name, token) association lists in
    insertion order (a Python dict keeps the first position of a repeated key). -/
structure Mods where
  vars : List (String × CTok) := []
  both : List (String × CTok) := []
  meths : List (String × CTok) := []
  deriving Repr, Inhabited

inductive BlockKind where
  | ns | ext | cls
  deriving Repr, DecidableEq, Inhabited

/-- What a block state object is created with. -/
structure BlockHdr where
  kind : BlockKind
  loc : LocRef
  ns : NamespaceDecl := { names := [] }      -- NamespaceBlockState.namespace
  linkage : String := ""                      -- ExternBlockState.linkage
  cls : ClassDecl := default                  -- ClassBlockState.class_decl
  access : Option String := none              -- ClassBlockState.access (initial)
  typedef : Bool := false                     -- ClassBlockState.typedef
  mods : Mods := {}                           -- ClassBlockState.mods
  deriving Inhabited

/-- What the parser can read of a state object (`self.state`): no location. -/
structure BlockView where
  id : Nat
  kind : BlockKind
  hdr : BlockHdr
  access : Option String
  isGlobal : Bool
  deriving Inhabited

/-- payload of a non-block callback -/
inductive Payload where
  | pragma (v : Value)
  | «include» (filename : String)
  | concept (c : Concept)
  | namespaceAlias (a : NamespaceAlias)
  | forwardDecl (f : ForwardDecl)
  | templateInst (t : TemplateInst)
  | variable (v : Variable)
  | function (f : Function)
  | methodImpl (m : Function)
  | typedef (t : Typedef)
  | usingNamespace (names : List String)
  | usingAlias (u : UsingAlias)
  | usingDeclaration (u : UsingDecl)
  | enum (e : EnumDecl)
  | classField (f : Field)
  | classMethod (m : Function)
  | classFriend (f : FriendDecl)
  | deductionGuide (g : DeductionGuide)
  deriving Inhabited

def Payload.cbName : Payload → String
  | .pragma _ => "on_pragma"
  | .include _ => "on_include"
  | .concept _ => "on_concept"
  | .namespaceAlias _ => "on_namespace_alias"
  | .forwardDecl _ => "on_forward_decl"
  | .templateInst _ => "on_template_inst"
  | .variable _ => "on_variable"
  | .function _ => "on_function"
  | .methodImpl _ => "on_method_impl"
  | .typedef _ => "on_typedef"
  | .usingNamespace _ => "on_using_namespace"
  | .usingAlias _ => "on_using_alias"
  | .usingDeclaration _ => "on_using_declaration"
  | .enum _ => "on_enum"
  | .classField _ => "on_class_field"
  | .classMethod _ => "on_class_method"
  | .classFriend _ => "on_class_friend"
  | .deductionGuide _ => "on_deduction_guide"

structure Options where
  verbose : Bool := false
  convertVoidToZeroParams : Bool := true
  deriving Repr, DecidableEq, Inhabited

/-- The client language.  `α` is an index because `bounded` nests a program of another
    result type. -/
inductive Prog : Type → Type 1 where
  | pure {α : Type} : α → Prog α
  /-- `token_eof_ok()` (`nl = false`) / `token_newline_eof_ok()` (`nl = true`) -/
  | next {α : Type} (nl : Bool) (k : Option CTok → Prog α) : Prog α
  /-- `return_token` / `return_tokens` -/
  | unread {α : Type} (ts : List CTok) (k : Prog α) : Prog α
  /-- `current_location()` -/
  | curLoc {α : Type} (k : LocRef → Prog α) : Prog α
  /-- `get_doxygen()` (`after = false`) / `get_doxygen_after()` (`after = true`) -/
  | dox {α : Type} (after : Bool) (k : Option String → Prog α) : Prog α
  /-- `_setup_state(state)` + the block's start callback + the `is False` test -/
  | push {α : Type} (hdr : BlockHdr) (k : Prog α) : Prog α
  /-- `_pop_state()` -/
  | pop {α : Type} (k : BlockView → Prog α) : Prog α
  /-- `self.visitor.on_xxx(self.state, payload)` -/
  | emit {α : Type} (p : Payload) (k : Prog α) : Prog α
  /-- read `self.state` -/
  | top {α : Type} (k : BlockView → Prog α) : Prog α
  /-- `state._set_access(a)` -/
  | setAccess {α : Type} (a : String) (k : Prog α) : Prog α
  /-- `self.state.location = loc` -/
  | setLoc {α : Type} (l : LocRef) (k : Prog α) : Prog α
  /-- `self.anon_id += 1` -/
  | fresh {α : Type} (k : Nat → Prog α) : Prog α
  /-- swap `self.lex` for a `BoundedTokenStream(toks)`, run `body`, restore; `CxxParseError`
      inside `body` is caught.  The continuation gets the result (if any) and `has_tokens()`. -/
  | bounded {α γ : Type} (toks : List CTok) (body : Prog γ) (k : Option γ × Bool → Prog α) : Prog α
  /-- read `self.options.convert_void_to_zero_params` (the only option the parser consults;
      `verbose` is handled by the interpreter: debug output and the error wrapper) -/
  | opt {α : Type} (k : Bool → Prog α) : Prog α
  | debug {α : Type} (msg : String) (k : Prog α) : Prog α
  /-- ghost: the main loop's `tok` variable (used by `parse()`'s error wrapper) -/
  | note {α : Type} (t : Option CTok) (k : Prog α) : Prog α
  | fail {α : Type} (e : Err) : Prog α

namespace Prog

def bind {α β : Type} : Prog α → (α → Prog β) → Prog β
  | .pure a, f => f a
  | .next nl k, f => .next nl (fun r => bind (k r) f)
  | .unread ts k, f => .unread ts (bind k f)
  | .curLoc k, f => .curLoc (fun r => bind (k r) f)
  | .dox a k, f => .dox a (fun r => bind (k r) f)
  | .push h k, f => .push h (bind k f)
  | .pop k, f => .pop (fun r => bind (k r) f)
  | .emit p k, f => .emit p (bind k f)
  | .top k, f => .top (fun r => bind (k r) f)
  | .setAccess a k, f => .setAccess a (bind k f)
  | .setLoc l k, f => .setLoc l (bind k f)
  | .fresh k, f => .fresh (fun r => bind (k r) f)
  | .bounded ts body k, f => .bounded ts body (fun r => bind (k r) f)
  | .opt k, f => .opt (fun r => bind (k r) f)
  | .debug m k, f => .debug m (bind k f)
  | .note t k, f => .note t (bind k f)
  | .fail e, _ => .fail e

instance : Monad Prog where
  pure := Prog.pure
  bind := Prog.bind

end Prog

end Cxx
