/-
  Interp.lean — meaning of the `Prog` primitives: the token stream (`TokStream`), the block
  stack with the visitor swap (`_setup_state` / `_pop_state`), callback delivery with
  fault injection, the anonymous-id counter, the `BoundedTokenStream` trial parse.

  `Env` holds what a run is parameterised by: lexer tables, options, which start
  callbacks return `False` (`skip`, by state id and content) and which delivered callback raises
  (`faultAt`).  Both are ordinary universally quantified variables in the theorems.
-/
import CxxModel.Prog
namespace Cxx

/-- a state object of `parserstate.py` on the parser's stack -/
structure Block where
  id : Nat
  hdr : BlockHdr
  loc : LocRef                 -- state.location (mutable)
  access : Option String       -- ClassBlockState.access (mutable)
  priorMuted : Bool            -- state._prior_visitor is null_visitor
  isGlobal : Bool := false
  deriving Inhabited

def Block.view (b : Block) : BlockView :=
  { id := b.id, kind := b.hdr.kind, hdr := b.hdr, access := b.access, isGlobal := b.isGlobal }

inductive EventKind where
  | parseStart
  | blockStart     -- on_namespace_start / on_extern_block_start / on_class_start (by state kind)
  | blockEnd
  | item (p : Payload)
  deriving Inhabited

/-- one delivered callback -/
structure Event where
  kind : EventKind
  stateId : Nat
  stateKind : BlockKind
  parentId : Option Nat        -- `state.parent` (identity), for every event
  loc : Location               -- `state.location` at delivery
  access : Option String       -- `state.access` at delivery (class states)
  hdr : BlockHdr               -- the state's immutable content
  deriving Inhabited

structure Env where
  cfg : LexCfg
  mcRe : Re
  opts : Options := {}
  skip : Nat → BlockHdr → Bool := fun _ _ => false
  faultAt : Option Nat := none

structure World where
  buf : Buf
  stack : List Block
  muted : Bool := false
  anon : Nat := 0
  nextId : Nat := 1
  events : List Event := []
  delivered : Nat := 0
  /-- locations of the tokens handed out so far; entry 0 belongs to `PhonyEnding` -/
  sigLocs : List Location := [{ filename := none, lineno := 0 }]
  curLocs : List Location := []
  startLoc : Location := default
  debugLog : List String := []
  mainTok : Option CTok := none
  deriving Inhabited

def World.resolve (w : World) : LocRef → Location
  | .tok sidx => (w.sigLocs[sidx - 1]?).getD { filename := none, lineno := 0 }
  | .cur n => (w.curLocs[n]?).getD { filename := none, lineno := 0 }
  | .start => w.startLoc

def World.toTok (w : World) (c : CTok) : Tok :=
  { type := c.type, value := c.value, loc := w.resolve (.tok c.sidx), sidx := c.sidx }

/-- hand a buffer token to the client: assign an index on first delivery -/
def World.handOut (w : World) (t : Tok) : CTok × World :=
  if t.sidx = 0 then
    let sidx := w.sigLocs.length + 1
    ({ type := t.type, value := t.value, sidx := sidx }, { w with sigLocs := w.sigLocs ++ [t.loc] })
  else ({ type := t.type, value := t.value, sidx := t.sidx }, w)

def parentIdOf : List Block → Option Nat
  | _ :: p :: _ => some p.id
  | _ => none

def mkEvent (w : World) (kind : EventKind) (blk : Block) (parent : Option Nat) : Event :=
  { kind := kind, stateId := blk.id, stateKind := blk.hdr.kind, parentId := parent,
    loc := w.resolve blk.loc, access := blk.access, hdr := blk.hdr }

/-- deliver a callback to `self.visitor`: nothing when the visitor is `null_visitor`;
    otherwise the event is recorded and, if this is the `faultAt`-th delivery, it raises. -/
def deliver (env : Env) (w : World) (ev : Event) : World × Option Err :=
  if w.muted then (w, none)
  else
    let idx := w.delivered
    let w' := { w with events := w.events ++ [ev], delivered := idx + 1 }
    if env.faultAt = some idx then (w', some (.visitor idx)) else (w', none)

def catchable : Err → Bool
  | .parse _ _ => true
  | .lex _ => true
  | _ => false

def interp (env : Env) {α : Type} : Prog α → World → World × Except Err α
  | .pure a, w => (w, .ok a)
  | .next nl k, w =>
    match (if nl then tokenNewlineEofOk env.cfg w.buf else tokenEofOk env.cfg w.buf) with
    | .error e => (w, .error e)
    | .ok (none, b) => interp env (k none) { w with buf := b }
    | .ok (some t, b) =>
      let (ct, w') := ({ w with buf := b } : World).handOut t
      interp env (k (some ct)) w'
  | .unread ts k, w => interp env k { w with buf := returnTokens (ts.map w.toTok) w.buf }
  | .curLoc k, w =>
    match currentLocation w.buf with
    | .error e => (w, .error e)
    | .ok l => interp env (k (.cur w.curLocs.length)) { w with curLocs := w.curLocs ++ [l] }
  | .dox after k, w =>
    if after then
      let (d, b) := getDoxygenAfter env.mcRe w.buf
      interp env (k d) { w with buf := b }
    else
      match getDoxygen env.cfg env.mcRe w.buf with
      | .error e => (w, .error e)
      | .ok (d, b) => interp env (k d) { w with buf := b }
  | .push hdr k, w =>
    let id := w.nextId
    let blk : Block := { id := id, hdr := hdr, loc := hdr.loc, access := hdr.access, priorMuted := w.muted }
    let parent := w.stack.head?.map (·.id)
    let w1 := { w with stack := blk :: w.stack, nextId := id + 1 }
    match deliver env w1 (mkEvent w1 .blockStart blk parent) with
    | (w2, some e) => (w2, .error e)
    | (w2, none) =>
      let w3 := if !w2.muted && env.skip id hdr then { w2 with muted := true } else w2
      interp env k w3
  | .pop k, w =>
    match w.stack with
    | [] => (w, .error (.py "RuntimeError" "empty state stack"))
    | blk :: rest =>
      -- `state = prev_state.parent; if state is None: raise CxxParseError(...)`
      if blk.isGlobal then (w, .error (.parse "INTERNAL ERROR: unbalanced state" none))
      else
        match deliver env w (mkEvent w .blockEnd blk (rest.head?.map (·.id))) with
        | (w1, some e) => (w1, .error e)
        | (w1, none) => interp env (k blk.view) { w1 with muted := blk.priorMuted, stack := rest }
  | .emit p k, w =>
    match w.stack with
    | [] => (w, .error (.py "RuntimeError" "empty state stack"))
    | blk :: rest =>
      match deliver env w (mkEvent w (.item p) blk (rest.head?.map (·.id))) with
      | (w1, some e) => (w1, .error e)
      | (w1, none) => interp env k w1
  | .top k, w =>
    match w.stack with
    | [] => (w, .error (.py "RuntimeError" "empty state stack"))
    | blk :: _ => interp env (k blk.view) w
  | .setAccess a k, w =>
    match w.stack with
    | [] => (w, .error (.py "RuntimeError" "empty state stack"))
    | blk :: rest => interp env k { w with stack := { blk with access := some a } :: rest }
  | .setLoc l k, w =>
    match w.stack with
    | [] => (w, .error (.py "RuntimeError" "empty state stack"))
    | blk :: rest => interp env k { w with stack := { blk with loc := l } :: rest }
  | .fresh k, w => interp env (k (w.anon + 1)) { w with anon := w.anon + 1 }
  | .bounded ts body k, w =>
    let inner : Buf := { tokbuf := ts.map w.toTok, lex := { rest := [] }, bounded := true }
    let (w1, r) := interp env body { w with buf := inner }
    let has := !w1.buf.tokbuf.isEmpty
    let w2 := { w1 with buf := w.buf }
    match r with
    | .ok g => interp env (k (some g, has)) w2
    | .error e => if catchable e then interp env (k (none, has)) w2 else (w2, .error e)
  | .opt k, w => interp env (k env.opts.convertVoidToZeroParams) w
  | .debug m k, w => interp env k (if env.opts.verbose then { w with debugLog := w.debugLog ++ [m] } else w)
  | .note t k, w => interp env k { w with mainTok := t }
  | .fail e, w => (w, .error e)

/-! ### `CxxParser.__init__` and the `try/except` of `parse()` -/

/-- `CxxParser.__init__` after the content is known: token stream, global state,
    `on_parse_start`.  A raising `on_parse_start` propagates unwrapped. -/
def initWorld (env : Env) (filename : String) (content : Str) : World × Option Err :=
  let lex : LexState := { rest := content, filename := some filename }
  let glob : Block :=
    { id := 0, hdr := { kind := .ns, loc := .start, ns := { names := [], inline := false } },
      loc := .start, access := none, priorMuted := false, isGlobal := true }
  let w : World := { buf := { tokbuf := [], lex := lex }, stack := [glob], startLoc := lex.location }
  deliver env w (mkEvent w .parseStart glob none)

inductive ParseResult where
  | ok
  | ctorRaised (e : Err)                   -- exception out of `CxxParser(...)`
  | parseError (msg : String) (cause : Err) -- `CxxParseError(msg) from cause`
  | raw (e : Err)                          -- verbose mode: re-raised as is
  deriving Inhabited

def intToString (i : Int) : String := toString i

def optStr : Option String → String
  | none => "None"
  | some s => s

/-- the `except Exception as e:` block of `parse()` -/
def wrapError (w : World) (filename : String) (e : Err) : String :=
  let context : String :=
    match e with
    | .parse msg _ => ": " ++ msg
    | .lex le => ": " ++ le.msg
    | _ => ""
  let tok : Option (String × Location) :=
    match e with
    | .parse _ (some t) => some (t.value, w.resolve (.tok t.sidx))
    | .lex le => some (strOfStr le.tokValue, le.loc)
    | _ => w.mainTok.map (fun t => (t.value, w.resolve (.tok t.sidx)))
  match tok with
  | some (v, loc) =>
    optStr loc.filename ++ ":" ++ intToString loc.lineno ++ ": parse error evaluating '" ++ v ++ "'" ++ context
  | none => filename ++ ": parse error" ++ context

/-- `CxxParser(filename, content, visitor, options).parse()` for the client `p` -/
def runParse (env : Env) (filename : String) (content : Str) (p : Prog Unit) : World × ParseResult :=
  match initWorld env filename content with
  | (w0, some e) => (w0, .ctorRaised e)
  | (w0, none) =>
    match interp env p w0 with
    | (w1, .ok _) => (w1, .ok)
    | (w1, .error e) =>
      if env.opts.verbose then (w1, .raw e) else (w1, .parseError (wrapError w1 filename e) e)

end Cxx
