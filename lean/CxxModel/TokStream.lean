/-
  TokStream.lean — model of `lexer.py: TokenStream / LexerTokenStream / BoundedTokenStream`.

  `Buf` is the pair (tokbuf, lexer state).  `fill` is `_fill_tokbuf`; the stream operations
  are transcribed one by one.  Errors are values.
-/
import CxxModel.Ply
import CxxModel.Gen.StreamSets
namespace Cxx

/-- A token as seen by the parser: `LexToken` after `_fill_tokbuf` stamped `location`. -/
structure Tok where
  type : String
  value : String
  loc : Location
  lineno : Nat := 0
  lexpos : Nat := 0
  /-- ghost field: index handed to the parser model instead of the location (0 = not yet
      handed out, 1 = `PhonyEnding`) -/
  sidx : Nat := 0
  deriving Repr, DecidableEq, Inhabited

/-- Token as seen by the parser model: no location, an index instead. -/
structure CTok where
  type : String
  value : String
  sidx : Nat := 0
  deriving Repr, DecidableEq, Inhabited

def Tok.ofRaw (r : RawTok) (loc : Location) : Tok :=
  { type := r.type, value := strOfStr r.value, loc := loc, lineno := r.lineno, lexpos := r.lexpos }

/-- `PhonyEnding` -/
def phonyTok : Tok :=
  { type := Gen.phonyType, value := Gen.phonyValue, loc := { filename := none, lineno := 0 }, sidx := 1 }

def phonyCTok : CTok := { type := Gen.phonyType, value := Gen.phonyValue, sidx := 1 }

/-- Everything the parser can raise, as a value. -/
inductive Err where
  | lex (e : LexErr)                               -- LexError(msg, tok)
  | parse (msg : String) (tok : Option CTok)       -- CxxParseError(msg, tok)
  | eof                                            -- EOFError("unexpected end of file")
  | py (cls : String) (msg : String)               -- any other Python exception (assert, ValueError…)
  | visitor (idx : Nat)                            -- the `idx`-th delivered callback raised
  | fuel                                           -- model ran out of fuel (never compared)
  | unsupported (what : String)                    -- model does not cover this path (never compared)
  deriving Repr, DecidableEq, Inhabited

structure Buf where
  tokbuf : List Tok
  lex : LexState
  /-- `none` for a `LexerTokenStream`; `some` marks a `BoundedTokenStream` (no lexer behind it) -/
  bounded : Bool := false
  deriving Repr, DecidableEq, Inhabited

def isUdlStart (ty : String) : Bool := Gen.udlStart.contains ty
def isDiscard (ty : String) : Bool := Gen.discardTypes.contains ty
def isDiscardExceptNl (ty : String) : Bool := Gen.discardTypesExceptNewline.contains ty

def firstCharIsUnderscore (v : Str) : Bool :=
  match v with
  | 95 :: _ => true
  | _ => false

/-- remove the last two elements when the buffer ends `\` NEWLINE and is longer than two -/
def spliceContinuation (line : List Tok) : Option (List Tok) :=
  if line.length > 2 then
    match line.reverse with
    | _nl :: bs :: restRev => if bs.type = "\\" then some restRev.reverse else none
    | _ => none
  else none

/-- The body of `_fill_tokbuf`'s `while True`, entered with the token `tok` just read
    (lexer state `st` is the state after reading it).  `line` is the buffer being filled
    (always starts empty: `_fill_tokbuf` is only ever called on an empty deque). -/
def fillLoop (cfg : LexCfg) : Nat → List Tok → RawTok → LexState → Except LexErr (List Tok × LexState)
  | 0, line, _, st => .ok (line, st)
  | fuel + 1, line, raw, st =>
    let tok := Tok.ofRaw raw st.location
    let line := line ++ [tok]
    -- NEWLINE: line continuation (spliced) or end of fill
    match (if raw.type = "NEWLINE" then spliceContinuation line else some line) with
    | none => .ok (line, st)          -- plain NEWLINE: `break`
    | some line =>
      if isUdlStart raw.type then
        match plyTokenF cfg st with
        | .eof st' => .ok (line, st')
        | .err e _ => .error e
        | .opaque => .ok (line, st)
        | .tok raw2 st2 =>
          if raw2.type != "NAME" || !firstCharIsUnderscore raw2.value then
            fillLoop cfg fuel line raw2 st2
          else
            -- fuse: the token already appended is mutated in place
            let fused : Tok := { tok with value := tok.value ++ strOfStr raw2.value, type := "UD_" ++ tok.type }
            let line := line.dropLast ++ [fused]
            match plyTokenF cfg st2 with
            | .eof st' => .ok (line, st')
            | .err e _ => .error e
            | .opaque => .ok (line, st2)
            | .tok raw3 st3 => fillLoop cfg fuel line raw3 st3
      else
        match plyTokenF cfg st with
        | .eof st' => .ok (line, st')
        | .err e _ => .error e
        | .opaque => .ok (line, st)
        | .tok raw2 st2 => fillLoop cfg fuel line raw2 st2

/-- `_fill_tokbuf`: returns `false` at end of input.  The new tokens are appended to the
    (empty) buffer. -/
def fill (cfg : LexCfg) (b : Buf) : Except Err (Bool × Buf) :=
  if b.bounded then .error (.parse "no more tokens left in this group" none) else
  match plyTokenF cfg b.lex with
  | .eof st => .ok (false, { b with lex := st })
  | .err e _ => .error (.lex e)
  | .opaque => .error (.unsupported "opaque lexer action")
  | .tok raw st =>
    match fillLoop cfg (st.rest.length + 2) [] raw st with
    | .error e => .error (.lex e)
    | .ok (line, st') => .ok (true, { b with tokbuf := b.tokbuf ++ line, lex := st' })

/-- drop leading tokens whose type satisfies `disc`; return the first other token -/
def popSignificant (disc : String → Bool) : List Tok → Option (Tok × List Tok)
  | [] => none
  | t :: ts => if disc t.type then popSignificant disc ts else some (t, ts)

/-- `token_eof_ok` / `token_newline_eof_ok` (by `disc`).  `fuel` bounds the number of fills. -/
def nextTok (cfg : LexCfg) (disc : String → Bool) : Nat → Buf → Except Err (Option Tok × Buf)
  | 0, _ => .error .fuel
  | fuel + 1, b =>
    match popSignificant disc b.tokbuf with
    | some (t, rest) => .ok (some t, { b with tokbuf := rest })
    | none =>
      match fill cfg { b with tokbuf := [] } with
      | .error e => .error e
      | .ok (false, b') => .ok (none, b')
      | .ok (true, b') => nextTok cfg disc fuel b'

def fuelFor (b : Buf) : Nat := b.lex.rest.length + 2

def tokenEofOk (cfg : LexCfg) (b : Buf) : Except Err (Option Tok × Buf) :=
  nextTok cfg isDiscard (fuelFor b) b

def tokenNewlineEofOk (cfg : LexCfg) (b : Buf) : Except Err (Option Tok × Buf) :=
  nextTok cfg isDiscardExceptNl (fuelFor b) b

/-- `token()`: like `token_eof_ok` but end of input raises `EOFError`. -/
def token (cfg : LexCfg) (b : Buf) : Except Err (Tok × Buf) :=
  match tokenEofOk cfg b with
  | .error e => .error e
  | .ok (none, _) => .error .eof
  | .ok (some t, b') => .ok (t, b')

def returnToken (t : Tok) (b : Buf) : Buf := { b with tokbuf := t :: b.tokbuf }
def returnTokens (ts : List Tok) (b : Buf) : Buf := { b with tokbuf := ts ++ b.tokbuf }

/-- `token_if(*types)` and friends: take the next token if `p` holds, else push it back. -/
def tokenIfP (cfg : LexCfg) (p : Tok → Bool) (b : Buf) : Except Err (Option Tok × Buf) :=
  match tokenEofOk cfg b with
  | .error e => .error e
  | .ok (none, b') => .ok (none, b')
  | .ok (some t, b') => if p t then .ok (some t, b') else .ok (none, returnToken t b')

def tokenIf (cfg : LexCfg) (types : List String) := tokenIfP cfg (fun t => types.contains t.type)
def tokenIfVal (cfg : LexCfg) (vals : List String) := tokenIfP cfg (fun t => vals.contains t.value)
def tokenIfNot (cfg : LexCfg) (types : List String) := tokenIfP cfg (fun t => !types.contains t.type)

def tokenPeekIf (cfg : LexCfg) (types : List String) (b : Buf) : Except Err (Bool × Buf) :=
  match tokenEofOk cfg b with
  | .error e => .error e
  | .ok (none, b') => .ok (false, b')
  | .ok (some t, b') => .ok (types.contains t.type, returnToken t b')

/-- `current_location()` -/
def currentLocation (b : Buf) : Except Err Location :=
  match b.tokbuf with
  | t :: _ => .ok t.loc
  | [] => if b.bounded then .error (.py "ValueError" "internal error") else .ok b.lex.location

/-! ### Documentation comments -/

def isComment (ty : String) : Bool := ty = "COMMENT_SINGLELINE" || ty = "COMMENT_MULTILINE"

/-- Python `str.rstrip("\n")` -/
def rstripNl (s : Str) : Str := (s.reverse.dropWhile (· = 10)).reverse

/-- `text.replace("\n\n", "\n")`: non-overlapping, left to right -/
def replaceDblNl : Str → Str
  | 10 :: 10 :: t => 10 :: replaceDblNl t
  | c :: t => c :: replaceDblNl t
  | [] => []

/-- `_multicomment_re.sub("\n*", text)` with `_multicomment_re = "\n[\s]+\*"`: at each
    newline, if the greedy run of whitespace after it (at least one, backtracking allowed)
    is followed by `*`, the whole match is replaced by `\n*`. -/
def subMulticomment (re : Re) : Nat → Str → Str
  | 0, s => s
  | fuel + 1, s =>
    match s with
    | [] => []
    | c :: t =>
      match rmatchK re (c :: t) with
      | some rest =>
        if rest.length < (c :: t).length then 10 :: 42 :: subMulticomment re fuel rest
        else c :: subMulticomment re fuel t
      | none => c :: subMulticomment re fuel t

/-- Python `str.splitlines()` line boundaries -/
def isLineBreak (c : Nat) : Bool :=
  c = 10 || c = 13 || c = 11 || c = 12 || c = 28 || c = 29 || c = 30 || c = 133 || c = 8232 || c = 8233

def splitLinesAux : Str → Str → List Str
  | [], cur => if cur.isEmpty then [] else [cur.reverse]
  | 13 :: 10 :: t, cur => cur.reverse :: splitLinesAux t []
  | c :: t, cur => if isLineBreak c then cur.reverse :: splitLinesAux t [] else splitLinesAux t (c :: cur)

def splitLines (s : Str) : List Str := splitLinesAux s []

def joinNl : List Str → Str
  | [] => []
  | [a] => a
  | a :: rest => a ++ (10 :: joinNl rest)

/-- the documentation lines one comment token contributes (`_extract_comments` loop body) -/
def docLinesOf (mcRe : Re) (c : Tok) : List Str :=
  let text := strToStr c.value
  if c.type = "COMMENT_SINGLELINE" then
    if startsWith text [47, 47, 47] || startsWith text [47, 47, 33] then [rstripNl text] else []
  else
    if startsWith text [47, 42, 42] || startsWith text [47, 42, 33] then
      let text := replaceDblNl text
      let text := subMulticomment mcRe (text.length + 1) text
      splitLines text
    else []

/-- `_extract_comments`: every comment appends its lines, in order -/
def extractComments (mcRe : Re) (comments : List Tok) : Option String :=
  let lines := comments.flatMap (docLinesOf mcRe)
  let s := joinNl lines
  if s.isEmpty then none else some (strOfStr s)

/-- inner loop of `get_doxygen` over the current buffer: returns (comments, rest, stop) -/
def doxScan : List Tok → List Tok → (List Tok × List Tok × Bool)
  | comments, [] => (comments, [], false)
  | comments, t :: ts =>
    if t.type = "NEWLINE" then doxScan [] ts
    else if t.type = "WHITESPACE" then doxScan comments ts
    else if isComment t.type then doxScan (comments ++ [t]) ts
    else (comments, t :: ts, true)

def getDoxygenLoop (cfg : LexCfg) (mcRe : Re) : Nat → List Tok → Buf → Except Err (Option String × Buf)
  | 0, _, _ => .error .fuel
  | fuel + 1, comments, b =>
    let (comments, rest, stop) := doxScan comments b.tokbuf
    let b := { b with tokbuf := rest }
    if stop then .ok (if comments.isEmpty then none else extractComments mcRe comments, b)
    else
      match fill cfg b with
      | .error e => .error e
      | .ok (false, b') => .ok (if comments.isEmpty then none else extractComments mcRe comments, b')
      | .ok (true, b') => getDoxygenLoop cfg mcRe fuel comments b'

/-- `get_doxygen()` -/
def getDoxygen (cfg : LexCfg) (mcRe : Re) (b : Buf) : Except Err (Option String × Buf) :=
  if b.bounded then .ok (none, b) else
  if b.tokbuf.isEmpty then
    match fill cfg b with
    | .error e => .error e
    | .ok (false, b') => .ok (none, b')
    | .ok (true, b') => getDoxygenLoop cfg mcRe (fuelFor b') [] b'
  else getDoxygenLoop cfg mcRe (fuelFor b) [] b

/-- loop of `get_doxygen_after`: returns (comments, new_tokbuf prefix, remaining old tokbuf) -/
def doxAfterScan : List Tok → List Tok → List Tok → (List Tok × List Tok × List Tok)
  | comments, newbuf, [] => (comments, newbuf, [])
  | comments, newbuf, t :: ts =>
    if t.type = "NEWLINE" then (comments, newbuf ++ [t], ts)  -- kept: it may end a directive line that follows in this buffer
    else if t.type = "WHITESPACE" then doxAfterScan comments (newbuf ++ [t]) ts
    else if isComment t.type then doxAfterScan (comments ++ [t]) newbuf ts
    else
      let newbuf := newbuf ++ [t]
      if !comments.isEmpty then (comments, newbuf, ts) else doxAfterScan comments newbuf ts

/-- `get_doxygen_after()` -/
def getDoxygenAfter (mcRe : Re) (b : Buf) : Option String × Buf :=
  if b.bounded then (none, b) else
  if b.tokbuf.isEmpty then (none, b) else
  let (comments, newbuf, rest) := doxAfterScan [] [] b.tokbuf
  let b := { b with tokbuf := newbuf ++ rest }
  (if comments.isEmpty then none else extractComments mcRe comments, b)

end Cxx
