/-
  Regex.lean — the fragment of Python `re` that cxxheaderparser's lexer uses, with
  Python's *backtracking priority* semantics.

  `paths r s` lists every way `r` can match a prefix of `s`, as the list of remainders,
  in the order in which CPython's `sre` would try them (alternatives left to right,
  repetitions greedy: one more iteration first).  `rmatch r s` is the first of them: what
  `re.match` returns.  `matchK` is the executable continuation-passing matcher used by
  the driver; `matchK_eq_findSome` proves it equal to the `paths` semantics.

  Characters are code points (`Nat`), strings are `List Nat`.
-/
namespace Cxx

abbrev Str := List Nat

inductive Re where
  | chars (neg : Bool) (rs : List (Nat × Nat))   -- character class, negated or not
  | eps
  | seq (a b : Re)
  | alt (a b : Re)
  | rep (a : Re) (mn : Nat) (mx : Option Nat)    -- greedy repetition
  | nla (a : Re)                                 -- negative look-ahead
  | eos                                          -- `$` without MULTILINE
  | unsupported                                  -- extractor met a construct outside the fragment
  deriving Repr, DecidableEq, Inhabited

def inRanges (c : Nat) : List (Nat × Nat) → Bool
  | [] => false
  | (lo, hi) :: rs => (decide (lo ≤ c) && decide (c ≤ hi)) || inRanges c rs

def charOk (neg : Bool) (rs : List (Nat × Nat)) (c : Nat) : Bool :=
  inRanges c rs != neg

def stepChar (neg : Bool) (rs : List (Nat × Nat)) : Str → List Str
  | [] => []
  | c :: t => if charOk neg rs c then [t] else []

def underMax : Option Nat → Nat → Bool
  | none, _ => true
  | some m, n => decide (n < m)

/-- `$`: end of string, or just before a final newline. -/
def atEnd : Str → Bool
  | [] => true
  | [10] => true
  | _ => false

/-- Greedy iteration of a body whose path function is `pa`.  `n` counts completed
    iterations; an iteration that consumes nothing is cut (CPython's empty-match guard;
    never triggered when no repetition body is nullable).  `fuel` bounds the number of
    iterations; `|s|+1` always suffices because every kept iteration consumes a character. -/
def iterPaths (pa : Str → List Str) (mn : Nat) (mx : Option Nat) : Nat → Nat → Str → List Str
  | 0, n, s => if mn ≤ n then [s] else []
  | fuel + 1, n, s =>
    (if underMax mx n then
        (pa s).flatMap (fun s' =>
          if s'.length < s.length then iterPaths pa mn mx fuel (n + 1) s' else [])
      else []) ++ (if mn ≤ n then [s] else [])

def paths : Re → Str → List Str
  | .chars neg rs, s => stepChar neg rs s
  | .eps, s => [s]
  | .seq a b, s => (paths a s).flatMap (fun s' => paths b s')
  | .alt a b, s => paths a s ++ paths b s
  | .rep a mn mx, s => iterPaths (paths a) mn mx (s.length + 1) 0 s
  | .nla a, s => if (paths a s).isEmpty then [s] else []
  | .eos, s => if atEnd s then [s] else []
  | .unsupported, _ => []

/-- What `re.match` returns: the remainder after the highest-priority match. -/
def rmatch (r : Re) (s : Str) : Option Str := (paths r s).head?

/-! ### Executable CPS matcher -/

def iterK {α : Type} (ma : Str → (Str → Option α) → Option α) (mn : Nat) (mx : Option Nat) :
    Nat → Nat → Str → (Str → Option α) → Option α
  | 0, n, s, k => if mn ≤ n then k s else none
  | fuel + 1, n, s, k =>
    let more : Option α :=
      if underMax mx n then
        ma s (fun s' => if s'.length < s.length then iterK ma mn mx fuel (n + 1) s' k else none)
      else none
    match more with
    | some x => some x
    | none => if mn ≤ n then k s else none

def matchK {α : Type} : Re → Str → (Str → Option α) → Option α
  | .chars neg rs, s, k =>
    match s with
    | [] => none
    | c :: t => if charOk neg rs c then k t else none
  | .eps, s, k => k s
  | .seq a b, s, k => matchK a s (fun s' => matchK b s' k)
  | .alt a b, s, k =>
    match matchK a s k with
    | some x => some x
    | none => matchK b s k
  | .rep a mn mx, s, k => iterK (fun s k => matchK a s k) mn mx (s.length + 1) 0 s k
  | .nla a, s, k =>
    match matchK a s (fun _ => some ()) with
    | some _ => none
    | none => k s
  | .eos, s, k => if atEnd s then k s else none
  | .unsupported, _, _ => none

/-- Fast `re.match`: remainder after the first match. -/
def rmatchK (r : Re) (s : Str) : Option Str := matchK r s some

/-! ### `matchK` agrees with `paths` -/

theorem findSome?_flatMap' {α β γ : Type} (l : List α) (f : α → List β) (k : β → Option γ) :
    (l.flatMap f).findSome? k = l.findSome? (fun a => (f a).findSome? k) := by
  induction l with
  | nil => rfl
  | cons a l ih => simp [List.flatMap_cons, List.findSome?_append, List.findSome?_cons, ih]; cases (f a).findSome? k <;> rfl

theorem iterK_eq {α : Type} (pa : Str → List Str) (ma : Str → (Str → Option α) → Option α)
    (h : ∀ s k, ma s k = (pa s).findSome? k) (mn : Nat) (mx : Option Nat) :
    ∀ fuel n s (k : Str → Option α),
      iterK ma mn mx fuel n s k = (iterPaths pa mn mx fuel n s).findSome? k := by
  intro fuel
  induction fuel with
  | zero => intro n s k; simp only [iterK, iterPaths]; split <;> simp
  | succ fuel ih =>
    intro n s k
    simp only [iterK, iterPaths, List.findSome?_append]
    have hmore : (if underMax mx n then
          ma s (fun s' => if s'.length < s.length then iterK ma mn mx fuel (n + 1) s' k else none)
        else none) =
        ((if underMax mx n then
          (pa s).flatMap (fun s' =>
            if s'.length < s.length then iterPaths pa mn mx fuel (n + 1) s' else [])
          else []) : List Str).findSome? k := by
      split
      · rw [h, findSome?_flatMap']
        congr 1; funext s'
        split
        · exact ih _ _ _
        · rfl
      · rfl
    rw [hmore]
    cases hm : List.findSome? k _ with
    | some x => simp
    | none => simp; split <;> simp

theorem matchK_eq_findSome (r : Re) :
    ∀ {α : Type} (s : Str) (k : Str → Option α), matchK r s k = (paths r s).findSome? k := by
  induction r with
  | chars neg rs =>
    intro α s k; cases s with
    | nil => simp [matchK, paths, stepChar]
    | cons c t => simp only [matchK, paths, stepChar]; split <;> simp
  | eps => intro α s k; simp [matchK, paths]
  | seq a b iha ihb =>
    intro α s k
    simp only [matchK, paths]
    rw [iha, findSome?_flatMap']
    congr 1; funext s'; exact ihb _ _
  | alt a b iha ihb =>
    intro α s k
    simp only [matchK, paths, List.findSome?_append, iha, ihb]
    cases (paths a s).findSome? k <;> simp
  | rep a mn mx iha =>
    intro α s k
    simp only [matchK, paths]
    exact iterK_eq (paths a) (fun s k => matchK a s k) (fun s k => iha s k) mn mx _ _ _ _
  | nla a iha =>
    intro α s k
    simp only [matchK, paths]
    rw [iha]
    cases hp : paths a s with
    | nil => simp
    | cons x xs => simp
  | eos => intro α s k; simp only [matchK, paths]; split <;> simp
  | unsupported => intro α s k; simp [matchK, paths]

theorem rmatchK_eq_rmatch (r : Re) (s : Str) : rmatchK r s = rmatch r s := by
  unfold rmatchK rmatch
  rw [matchK_eq_findSome]
  cases paths r s <;> simp

/-! ### Every path is a suffix of the input -/

theorem iterPaths_suffix (pa : Str → List Str) (hpa : ∀ s p, p ∈ pa s → p <:+ s)
    (mn : Nat) (mx : Option Nat) :
    ∀ fuel n s p, p ∈ iterPaths pa mn mx fuel n s → p <:+ s := by
  intro fuel
  induction fuel with
  | zero =>
    intro n s p hp
    simp only [iterPaths] at hp
    split at hp <;> simp at hp
    subst hp; exact List.suffix_refl _
  | succ fuel ih =>
    intro n s p hp
    simp only [iterPaths, List.mem_append] at hp
    rcases hp with hp | hp
    · split at hp
      · rw [List.mem_flatMap] at hp
        obtain ⟨s', hs', hp⟩ := hp
        split at hp
        · exact (ih _ _ _ hp).trans (hpa _ _ hs')
        · simp at hp
      · simp at hp
    · split at hp <;> simp at hp
      subst hp; exact List.suffix_refl _

theorem paths_suffix (r : Re) : ∀ s p, p ∈ paths r s → p <:+ s := by
  induction r with
  | chars neg rs =>
    intro s p hp
    cases s with
    | nil => simp [paths, stepChar] at hp
    | cons c t =>
      simp only [paths, stepChar] at hp
      split at hp <;> simp at hp
      subst hp; exact List.suffix_cons _ _
  | eps => intro s p hp; simp [paths] at hp; subst hp; exact List.suffix_refl _
  | seq a b iha ihb =>
    intro s p hp
    simp only [paths, List.mem_flatMap] at hp
    obtain ⟨s', hs', hp⟩ := hp
    exact (ihb _ _ hp).trans (iha _ _ hs')
  | alt a b iha ihb =>
    intro s p hp
    simp only [paths, List.mem_append] at hp
    rcases hp with hp | hp
    · exact iha _ _ hp
    · exact ihb _ _ hp
  | rep a mn mx iha =>
    intro s p hp
    exact iterPaths_suffix (paths a) iha mn mx _ _ _ _ hp
  | nla a _ =>
    intro s p hp
    simp only [paths] at hp
    split at hp <;> simp at hp
    subst hp; exact List.suffix_refl _
  | eos =>
    intro s p hp
    simp only [paths] at hp
    split at hp <;> simp at hp
    subst hp; exact List.suffix_refl _
  | unsupported => intro s p hp; simp [paths] at hp

theorem rmatch_suffix {r : Re} {s rest : Str} (h : rmatch r s = some rest) : rest <:+ s := by
  unfold rmatch at h
  exact paths_suffix r s rest (List.mem_of_head? h)

end Cxx
