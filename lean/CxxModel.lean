import CxxModel.Regex
import CxxModel.LexTypes
import CxxModel.Ply
import CxxModel.Gen.LexRules
import CxxModel.Gen.StreamSets
import CxxModel.Gen.TokFmt
import CxxModel.Gen.ParserTables
