/-
  Main.lean — line-protocol driver: one JSON operation per input line, one canonical JSON
  result per output line.  Runs the executable definitions of the model so that the
  correspondence harness (vlib/) can diff them against the real implementation.
-/
import Lean.Data.Json
import CxxModel.Driver
open Lean

partial def loop (h : IO.FS.Stream) (out : IO.FS.Stream) : IO Unit := do
  let line ← h.getLine
  if line.isEmpty then return ()
  let res : Json :=
    match Json.parse line with
    | .error e => Json.mkObj [("error", Json.str s!"bad json: {e}")]
    | .ok j => Cxx.Driver.handle j
  out.putStrLn res.compress
  loop h out

def main : IO Unit := do
  let stdin ← IO.getStdin
  let stdout ← IO.getStdout
  loop stdin stdout
  stdout.flush
