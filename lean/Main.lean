/-
  Main.lean — line-protocol driver: one JSON operation per input line, one canonical JSON
  result per output line.  Runs the executable definitions of the model so that the
  correspondence harness (vlib/) can diff them against the real implementation.
-/
import Lean.Data.Json
import CxxModel.Driver
open Lean

/-- at most `fuel` lines (structural recursion: no `partial`) -/
def loop (h : IO.FS.Stream) (out : IO.FS.Stream) : Nat → IO Unit
  | 0 => return ()
  | fuel + 1 => do
    let line ← h.getLine
    if line.isEmpty then return ()
    let res : Json :=
      match Json.parse line with
      | .error e => Json.mkObj [("error", Json.str s!"bad json: {e}")]
      | .ok j => Cxx.Driver.handle j
    out.putStrLn res.compress
    loop h out fuel

def main : IO Unit := do
  let stdin ← IO.getStdin
  let stdout ← IO.getStdout
  loop stdin stdout 4000000000
  stdout.flush
