"""
gen_blocks.py — block trees (namespaces, extern blocks, classes/structs/unions with
members, trailing declarators, typedef-of-class) with uniquely named blocks, as source
text.  Exhaustive enumeration of small shapes and random larger ones.
"""
import itertools


class Node:
    def __init__(self, kind, name, children=None, pre=0, post=0, trailing=False, typedef=False, anon=False):
        self.kind = kind  # ns | ext | class | struct | union
        self.name = name
        self.children = children or []
        self.pre = pre  # leaf items before the children
        self.post = post  # leaf items after the children
        self.trailing = trailing
        self.typedef = typedef
        self.anon = anon  # an unnamed struct/union/class: the visitor knows it as "<anon>"

    def names(self):
        out = ["<anon>" if self.anon else self.name]
        for c in self.children:
            out.extend(c.names())
        return out


NS_LEAVES = [
    "int v_%(t)s_%(i)d;", "void g_%(t)s_%(i)d();", "typedef int t_%(t)s_%(i)d;",
    "namespace a_%(t)s_%(i)d = std;", "using namespace u_%(t)s_%(i)d;", "using std::x_%(t)s_%(i)d;", "using A_%(t)s_%(i)d = int;",
    "enum E_%(t)s_%(i)d { e_%(t)s_%(i)d_1, e_%(t)s_%(i)d_2 };", "class F_%(t)s_%(i)d;",
    "void b_%(t)s_%(i)d() { if (1) { } }", "int i_%(t)s_%(i)d[] = { 1, 2 };",
    "template <typename T> T tf_%(t)s_%(i)d(T x) { return x; }", "static_assert(sizeof(int) == 4, \"x\");",
    "extern \"C\" int ec_%(t)s_%(i)d();", "inline int il_%(t)s_%(i)d() { return 0; }", ";",
    "namespace a2_%(t)s_%(i)d = ::a::b;", "enum class EC_%(t)s_%(i)d : int;", "extern template class X_%(t)s_%(i)d<int>;",
]
CLASS_LEAVES = [
    "int f_%(t)s_%(i)d;", "void m_%(t)s_%(i)d();", "public:", "private:", "typedef int ct_%(t)s_%(i)d;", "using CA_%(t)s_%(i)d = int;",
    "enum CE_%(t)s_%(i)d { ce_%(t)s_%(i)d };", "%(t)s() : z(1) { }", "~%(t)s();", "void mb_%(t)s_%(i)d() const { { } }",
    "friend class FR_%(t)s_%(i)d;", "static int sf_%(t)s_%(i)d;", "int bf_%(t)s_%(i)d : 3;", "operator int() const;",
    "template <typename Q> void tm_%(t)s_%(i)d(Q q);", "static_assert(true, \"s\");", "protected:", "using B_%(t)s_%(i)d::bm;",
]
# None: the three / two classic leaves by position; an int: every leaf is that kind (leaf sweeps); "mix": by a stable hash
LEAF_MODE = None


def _leaf(in_class, tag, i):
    if LEAF_MODE is None:
        if in_class:
            return ["int f_%s_%d;" % (tag, i), "void m_%s_%d();" % (tag, i)][i % 2]
        return ["int v_%s_%d;" % (tag, i), "void g_%s_%d();" % (tag, i), "typedef int t_%s_%d;" % (tag, i)][i % 3]
    pool = CLASS_LEAVES if in_class else NS_LEAVES
    if LEAF_MODE == "mix":
        k = (sum(ord(c) for c in tag) * 31 + i * 7) % len(pool)
    else:
        k = LEAF_MODE % len(pool)
    return pool[k] % {"t": tag, "i": i}


def leaf_sweeps():
    """for every leaf kind: forests in which every leaf is of that kind (each kind before, between, after and inside
    nested blocks of every kind)"""
    global LEAF_MODE
    out = []
    cnt = [500]

    def mk(k, children=()):
        cnt[0] += 1
        name = {"ns": "N%d", "ext": "L%d", "struct": "S%d", "class": "C%d"}[k] % cnt[0]
        return Node(k, name, list(children), pre=1, post=1)

    try:
        for mode in range(max(len(NS_LEAVES), len(CLASS_LEAVES))):
            LEAF_MODE = mode
            for roots in ([mk("ns", [mk("ns")])], [mk("ns", [mk("ext", [mk("struct")])])], [mk("ext", [mk("ns"), mk("class", [mk("struct")])])],
                          [mk("struct", [mk("class")]), mk("ns")]):
                out.append((program(roots), [n for r in roots for n in r.names()]))
    finally:
        LEAF_MODE = None
    return out


def render(node, in_class=False, indent=0):
    pad = "  " * indent
    lines = []
    k = node.kind
    if k == "ns":
        lines.append("%snamespace %s {" % (pad, node.name))
        inner_class = False
    elif k == "ext":
        lines.append('%sextern "%s" {' % (pad, node.name))
        inner_class = False
    else:
        head = ("typedef " if node.typedef else "") + ("%s {" % k if node.anon else "%s %s {" % (k, node.name))
        lines.append(pad + head)
        inner_class = True
    for i in range(node.pre):
        lines.append(pad + "  " + _leaf(inner_class, node.name, i))
    for j, c in enumerate(node.children):
        lines.extend(render(c, inner_class, indent + 1))
        if j + 1 < len(node.children):
            lines.append(pad + "  " + _leaf(inner_class, node.name, 10 + j))
    for i in range(node.post):
        lines.append(pad + "  " + _leaf(inner_class, node.name, 20 + i))
    if k in ("ns", "ext"):
        lines.append(pad + "}")
    else:
        if node.typedef:
            lines.append(pad + "} T_%s;" % node.name)
        elif node.trailing or (node.anon and not in_class):
            lines.append(pad + "} d_%s, *p_%s;" % (node.name, node.name))
        else:
            lines.append(pad + "};")
    return lines


def program(roots):
    lines = ["int first;"]
    for j, r in enumerate(roots):
        lines.extend(render(r))
        lines.append("int between_%d;" % j)
    return "\n".join(lines) + "\n"


def random_tree(rng, budget, counter, in_class=False, depth=0):
    """a forest of at most `budget` blocks"""
    roots = []
    while budget > 0 and (not roots or rng.random() < 0.6):
        kinds = ["class", "struct", "union"] if in_class else ["ns", "ns", "ext", "class", "struct", "union"]
        k = rng.choice(kinds)
        counter[0] += 1
        name = {"ns": "N%d", "ext": "L%d", "class": "C%d", "struct": "S%d", "union": "U%d"}[k] % counter[0]
        budget -= 1
        sub = rng.randint(0, budget) if depth < 5 else 0
        children = random_tree(rng, sub, counter, in_class=(k in ("class", "struct", "union")), depth=depth + 1) if sub else []
        budget -= sum(len(c.names()) for c in children)
        is_cls = k in ("class", "struct", "union")
        node = Node(k, name, children, pre=rng.randint(0, 2), post=rng.randint(0, 2),
                    trailing=is_cls and rng.random() < 0.3, typedef=is_cls and rng.random() < 0.15,
                    anon=is_cls and rng.random() < 0.15)
        roots.append(node)
    return roots


def small_shapes():
    """all forests of up to 3 blocks over the shape alphabet (nesting / sequence), a few kinds"""
    out = []
    kinds = ["ns", "ext", "struct"]
    cnt = [0]

    def mk(k, children=(), trailing=False):
        cnt[0] += 1
        name = {"ns": "N%d", "ext": "L%d", "struct": "S%d"}[k] % cnt[0]
        return Node(k, name, list(children), pre=1, post=1, trailing=trailing)

    for k1 in kinds:
        out.append([mk(k1)])
        for k2 in kinds:
            if k1 == "struct" and k2 != "struct":
                pass
            else:
                out.append([mk(k1, [mk(k2)])])
            out.append([mk(k1), mk(k2)])
            for k3 in kinds:
                if not (k1 == "struct" and k2 != "struct") and not (k2 == "struct" and k3 != "struct"):
                    out.append([mk(k1, [mk(k2, [mk(k3)])])])
                if not (k1 == "struct" and (k2 != "struct" or k3 != "struct")):
                    out.append([mk(k1, [mk(k2), mk(k3)])])
                if not (k1 == "struct" and k2 != "struct"):
                    out.append([mk(k1, [mk(k2)]), mk(k3, trailing=(k3 == "struct"))])
    return out


def all_subsets(names, limit=None):
    n = len(names)
    subs = []
    for r in range(n + 1):
        for c in itertools.combinations(names, r):
            subs.append(list(c))
            if limit and len(subs) >= limit:
                return subs
    return subs
