"""
pcommon.py — helpers shared by the property plugins: the parse correspondence (model vs
implementation) with per-property projections, corpus mutations, replay plumbing.
"""
import json

import canon
import common
import impl

_corpus_cache = None


def corpus():
    global _corpus_cache
    if _corpus_cache is None:
        _corpus_cache = [c for _, c in common.load_corpus()]
    return _corpus_cache


def strip_keys(j, keys):
    if isinstance(j, dict):
        return {k: strip_keys(v, keys) for k, v in j.items() if k not in keys}
    if isinstance(j, list):
        return [strip_keys(x, keys) for x in j]
    return j


def collect(j, pred, out=None):
    """all sub-objects satisfying pred, in document order"""
    if out is None:
        out = []
    if isinstance(j, dict):
        if pred(j):
            out.append(j)
        for k in sorted(j):
            collect(j[k], pred, out)
    elif isinstance(j, list):
        for x in j:
            collect(x, pred, out)
    return out


def collect_key(j, key, out=None):
    """all values stored under `key`, in document order (with the owning class)"""
    if out is None:
        out = []
    if isinstance(j, dict):
        for k in sorted(j):
            if k == key:
                out.append([j.get("_"), j[k]])
            collect_key(j[k], key, out)
    elif isinstance(j, list):
        for x in j:
            collect_key(x, key, out)
    return out


# ---- projections of a canonical parse result ------------------------------------------

def proj_structure(r):
    """everything except line numbers and doc comments"""
    evs = [strip_keys({k: e[k] for k in ("cb", "state", "kind", "parent", "access", "hdr", "payload")}, {"doxygen"}) for e in r["events"]]
    res = dict(r["result"])
    res.pop("msg", None)
    c = res.get("cause")
    if isinstance(c, dict):
        c = dict(c)
        c.pop("loc", None)
        res["cause"] = c
    return {"events": evs, "result": res, "anon": r.get("anon")}


def proj_class(r):
    evs = [strip_keys({k: e[k] for k in ("cb", "kind", "access", "hdr", "payload")}, {"doxygen"}) for e in r["events"] if e["kind"] == "cls" or e["cb"] == "on_class_start"]
    return {"events": evs, "ok": r["result"].get("k")}


def proj_stream(r):
    """protocol view: callback names, state identities, parents, result"""
    return {"events": [[e["cb"], e["state"], e["parent"], e["kind"]] for e in r["events"]], "result": r["result"]}


def proj_locations(r):
    return {"locs": [[e["cb"], e["loc"]] for e in r["events"]], "result": r["result"]}


def proj_doxygen(r):
    return {"dox": [[e["cb"], collect_key(e["payload"], "doxygen") + collect_key(e["hdr"], "doxygen")] for e in r["events"]]}


def proj_values(r):
    is_val = lambda d: d.get("_") in ("Value", "DecltypeSpecifier")
    return {"values": [[e["cb"], collect(e["payload"], is_val) + collect(e["hdr"], is_val)] for e in r["events"]], "ok": r["result"].get("k")}


def proj_outcome(r):
    return {"result": r["result"], "n_events": len(r["events"])}


def proj_full(r):
    return r


def parse_corr(ctx, name, texts, opts=None, proj=proj_full, extra_ops=None, note=""):
    """model vs implementation on `texts` (list of str or of (text, per-case op dict))"""
    if ctx.driver is None:
        return
    ops = []
    cases = []
    for t in texts:
        per = {}
        if isinstance(t, tuple):
            t, per = t
        op = {"op": "parse", "text": t, "filename": "f.h"}
        if opts:
            op["opts"] = opts
        op.update(per)
        ops.append(op)
        cases.append((t, per))
    res = ctx.driver.run(ops)
    mism = []
    skipped = 0
    for (t, per), r in zip(cases, res):
        if "error" in r and "events" not in r:
            mism.append({"input": t, "diff": "driver error: %s" % r["error"]})
            continue
        if canon.is_model_limit(r):
            skipped += 1
            continue
        o = dict(opts or {})
        o.update(per.get("opts", {}))
        e = canon.canon_parse(impl.impl_parse(t, "f.h", opts=o, skip=per.get("skip", ()), fault=per.get("fault")), t)
        m = canon.canon_parse(r, t)
        pe, pm = proj(e), proj(m)
        if pe != pm:
            mism.append({"input": t, "op": per, "diff": canon.first_diff(pe, pm)})
    ctx.corr(name, len(cases), mism, skipped, note)
    return mism


# ---- mutations ------------------------------------------------------------------------

INSERTS = ["(", ")", "{", "}", "<", ">", ";", "::", "template", "class", " const ", "*", "&", "[", "]", "=", "...", ",",
           "/*", "//", "'", '"', "\\\n", "#", "@", "]]", "[[", "public:", "friend ", "namespace n {", "}", "typedef ",
           "#if 1\n", "#define X\n", "0x", "'\\", "\"\\q\"", "operator", "~", "->", "static_assert(", "extern \"C\" {",
           "concept C = ", "using ", "enum ", "virtual ", "explicit ", "mutable ", "08", "$", "`", "\x00", "\x7f", "é"]


def mutate(rng, t):
    k = rng.random()
    if k < 0.3:
        return t[: rng.randint(0, len(t))]
    if k < 0.55 and len(t) > 1:
        i = rng.randint(0, len(t) - 1)
        j = min(len(t), i + rng.randint(1, 6))
        return t[:i] + t[j:]
    if k < 0.9:
        i = rng.randint(0, len(t))
        return t[:i] + rng.choice(INSERTS) + t[i:]
    # swap two chunks
    if len(t) > 8:
        i = rng.randint(0, len(t) - 4)
        j = rng.randint(i + 1, min(len(t), i + 12))
        return t[:i] + t[j:] + t[i:j]
    return t


def mutated_corpus(ctx, n, tag="mut"):
    rng = ctx.rng(tag)
    cs = corpus()
    return [mutate(rng, rng.choice(cs)) for _ in range(n)]


def generic_replay(path, recheck):
    d = json.load(open(path))
    v = d.get("violation")
    if not v:
        print("no concrete failing input in this replay file; it names what no longer checks:")
        print(json.dumps({k: d[k] for k in d if k not in ("searched",)}, indent=1)[:4000])
        return 1
    ok, msg = recheck(v)
    print(msg)
    return 0 if ok else 1
