"""
impl.py — thin wrappers around the *real* cxxheaderparser (imported from the working tree
given by VERIF_REPO, default /repo) producing canonical, JSON-able results that the
correspondence harness diffs against the Lean driver's output.
"""
import dataclasses
import os
import sys
import typing

REPO = os.environ.get("VERIF_REPO", "/repo")
if REPO not in sys.path:
    sys.path.insert(0, REPO)
sys.dont_write_bytecode = True

from cxxheaderparser import lexer as L  # noqa: E402
from cxxheaderparser.errors import CxxParseError  # noqa: E402


def loc_json(loc):
    if loc is None:
        return None
    return [loc[0], loc[1]]


def impl_lex(text: str, filename=None) -> dict:
    """raw PLY lexer run: tokens (type, value, lineno, lexpos) until EOF or LexError"""
    pl = L.PlyLexer(filename)
    pl.input(text)
    toks = []
    err = None
    while True:
        try:
            t = pl.token()
        except L.LexError as e:
            tok = e.tok
            err = {"msg": e.args[0], "value": tok.value, "loc": loc_json(tok.location)}
            break
        if t is None:
            break
        toks.append([t.type, t.value, t.lineno, t.lexpos])
    return {"toks": toks, "err": err, "done": True}


def tok_json(t):
    return [t.type, t.value, loc_json(t.location)]


def err_json(e: BaseException) -> dict:
    """canonical form of an exception, mirroring `Driver.jerr`"""
    if isinstance(e, L.LexError):
        tok = e.tok
        return {"k": "lex", "msg": e.args[0], "value": tok.value, "loc": loc_json(tok.location)}
    if isinstance(e, CxxParseError):
        tok = e.tok
        return {"k": "parse", "msg": e.args[0], "tok": tok_json(tok) if tok is not None else None}
    if isinstance(e, EOFError):
        return {"k": "eof"}
    return {"k": "py", "cls": type(e).__name__, "msg": str(e)}


def impl_stream(text: str, ops, filename=None) -> dict:
    """run a sequence of TokenStream operations on a LexerTokenStream over `text`"""
    outs = []
    err = None
    got = []
    try:
        s = L.LexerTokenStream(filename, text)
        for op in ops:
            name, args = op[0], op[1:]
            if name == "token":
                t = s.token()
                got.append(t)
                outs.append(tok_json(t))
            elif name in ("token_eof_ok", "token_newline_eof_ok"):
                t = getattr(s, name)()
                if t is not None:
                    got.append(t)
                outs.append(tok_json(t) if t is not None else None)
            elif name in ("token_if", "token_if_val", "token_if_not"):
                t = getattr(s, name)(*args)
                if t is not None:
                    got.append(t)
                outs.append(tok_json(t) if t is not None else None)
            elif name == "token_peek_if":
                outs.append(bool(s.token_peek_if(*args)))
            elif name == "return_last":
                k = min(int(args[0]) if args else 1, len(got))
                back = got[len(got) - k :]
                del got[len(got) - k :]
                if k == 1:
                    s.return_token(back[0])
                else:
                    s.return_tokens(back)
                outs.append(k)
            elif name == "current_location":
                outs.append(loc_json(s.current_location()))
            elif name == "get_doxygen":
                outs.append(s.get_doxygen())
            elif name == "get_doxygen_after":
                outs.append(s.get_doxygen_after())
            else:
                raise ValueError("bad op " + name)
    except Exception as e:  # noqa
        err = err_json(e)
    return {"outs": outs, "err": err}
