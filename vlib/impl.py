"""
impl.py — thin wrappers around the *real* cxxheaderparser (imported from the working tree
given by VERIF_REPO, default /repo) producing canonical, JSON-able results that the
correspondence harness diffs against the Lean driver's output.
"""
import dataclasses
import os
import sys
import typing

REPO = os.environ.get("VERIF_REPO", "/repo")
if REPO not in sys.path:
    sys.path.insert(0, REPO)
sys.dont_write_bytecode = True

from cxxheaderparser import lexer as L  # noqa: E402
from cxxheaderparser.errors import CxxParseError  # noqa: E402


def loc_json(loc):
    if loc is None:
        return None
    return [loc[0], loc[1]]


def impl_lex(text: str, filename=None) -> dict:
    """raw PLY lexer run: tokens (type, value, lineno, lexpos) until EOF or LexError"""
    pl = L.PlyLexer(filename)
    pl.input(text)
    toks = []
    err = None
    while True:
        try:
            t = pl.token()
        except L.LexError as e:
            tok = e.tok
            err = {"msg": e.args[0], "value": tok.value, "loc": loc_json(tok.location)}
            break
        if t is None:
            break
        toks.append([t.type, t.value, t.lineno, t.lexpos])
    return {"toks": toks, "err": err, "done": True}
