"""
impl.py — thin wrappers around the *real* cxxheaderparser (imported from the working tree
given by VERIF_REPO, default /repo) producing canonical, JSON-able results that the
correspondence harness diffs against the Lean driver's output.
"""
import dataclasses
import os
import sys
import typing

REPO = os.environ.get("VERIF_REPO", "/repo")
if REPO not in sys.path:
    sys.path.insert(0, REPO)
sys.dont_write_bytecode = True

from cxxheaderparser import lexer as L  # noqa: E402
from cxxheaderparser.errors import CxxParseError  # noqa: E402


def loc_json(loc):
    if loc is None:
        return None
    return [loc[0], loc[1]]


def impl_lex(text: str, filename=None) -> dict:
    """raw PLY lexer run: tokens (type, value, lineno, lexpos) until EOF or LexError"""
    pl = L.PlyLexer(filename)
    pl.input(text)
    toks = []
    err = None
    while True:
        try:
            t = pl.token()
        except L.LexError as e:
            tok = e.tok
            err = {"msg": e.args[0], "value": tok.value, "loc": loc_json(tok.location)}
            break
        if t is None:
            break
        toks.append([t.type, t.value, t.lineno, t.lexpos])
    return {"toks": toks, "err": err, "done": True}


def tok_json(t):
    return [t.type, t.value, loc_json(t.location)]


def err_json(e: BaseException) -> dict:
    """canonical form of an exception, mirroring `Driver.jerr`"""
    if isinstance(e, L.LexError):
        tok = e.tok
        return {"k": "lex", "msg": e.args[0], "value": tok.value, "loc": loc_json(tok.location)}
    if isinstance(e, CxxParseError):
        tok = e.tok
        return {"k": "parse", "msg": e.args[0], "tok": tok_json(tok) if tok is not None else None}
    if isinstance(e, EOFError):
        return {"k": "eof"}
    return {"k": "py", "cls": type(e).__name__, "msg": str(e)}


def impl_stream(text: str, ops, filename=None) -> dict:
    """run a sequence of TokenStream operations on a LexerTokenStream over `text`"""
    outs = []
    err = None
    got = []
    try:
        s = L.LexerTokenStream(filename, text)
        for op in ops:
            name, args = op[0], op[1:]
            if name == "token":
                t = s.token()
                got.append(t)
                outs.append(tok_json(t))
            elif name in ("token_eof_ok", "token_newline_eof_ok"):
                t = getattr(s, name)()
                if t is not None:
                    got.append(t)
                outs.append(tok_json(t) if t is not None else None)
            elif name in ("token_if", "token_if_val", "token_if_not"):
                t = getattr(s, name)(*args)
                if t is not None:
                    got.append(t)
                outs.append(tok_json(t) if t is not None else None)
            elif name == "token_peek_if":
                outs.append(bool(s.token_peek_if(*args)))
            elif name == "return_last":
                k = min(int(args[0]) if args else 1, len(got))
                back = got[len(got) - k :]
                del got[len(got) - k :]
                if k == 1:
                    s.return_token(back[0])
                else:
                    s.return_tokens(back)
                outs.append(k)
            elif name == "current_location":
                outs.append(loc_json(s.current_location()))
            elif name == "get_doxygen":
                outs.append(s.get_doxygen())
            elif name == "get_doxygen_after":
                outs.append(s.get_doxygen_after())
            else:
                raise ValueError("bad op " + name)
    except Exception as e:  # noqa
        err = err_json(e)
    return {"outs": outs, "err": err}


# --------------------------------------------------------------------------------------
# parsing with a recording visitor
# --------------------------------------------------------------------------------------

from cxxheaderparser.parser import CxxParser  # noqa: E402
from cxxheaderparser.options import ParserOptions  # noqa: E402
from cxxheaderparser import parserstate as PS  # noqa: E402
from cxxheaderparser import simple as S  # noqa: E402


def to_json(o):
    """generic walker: dataclass -> {"_": class name, field: value}; mirrors CxxModel/ToJ.lean"""
    if dataclasses.is_dataclass(o) and not isinstance(o, type):
        d = {"_": type(o).__name__}
        for f in dataclasses.fields(o):
            d[f.name] = to_json(getattr(o, f.name))
        return d
    if isinstance(o, (list, tuple)):
        return [to_json(x) for x in o]
    if isinstance(o, dict):
        return {str(k): to_json(v) for k, v in o.items()}
    return o


class Fault(Exception):
    def __init__(self, idx):
        Exception.__init__(self, "fault %d" % idx)
        self.idx = idx


def block_name(state) -> str:
    if isinstance(state, PS.NamespaceBlockState):
        return "::".join(state.namespace.names)
    if isinstance(state, PS.ExternBlockState):
        return state.linkage
    seg = state.class_decl.typename.segments[-1]
    return getattr(seg, "name", None) or "<anon>"


def state_kind(state) -> str:
    if isinstance(state, PS.NamespaceBlockState):
        return "ns"
    if isinstance(state, PS.ExternBlockState):
        return "ext"
    if isinstance(state, PS.ClassBlockState):
        return "cls"
    return "?"


def state_hdr(state):
    if isinstance(state, PS.NamespaceBlockState):
        return {"namespace": to_json(state.namespace)}
    if isinstance(state, PS.ExternBlockState):
        return {"linkage": state.linkage}
    m = state.mods
    return {
        "class_decl": to_json(state.class_decl),
        "typedef": bool(state.typedef),
        "mods": {"vars": list(m.vars.keys()), "both": list(m.both.keys()), "meths": list(m.meths.keys())},
    }


_CALLBACKS = [
    "on_parse_start", "on_pragma", "on_include", "on_extern_block_start", "on_extern_block_end",
    "on_namespace_start", "on_namespace_end", "on_concept", "on_namespace_alias", "on_forward_decl",
    "on_template_inst", "on_variable", "on_function", "on_method_impl", "on_typedef",
    "on_using_namespace", "on_using_alias", "on_using_declaration", "on_enum", "on_class_start",
    "on_class_field", "on_class_method", "on_class_friend", "on_class_end", "on_deduction_guide",
]
_STARTS = {"on_extern_block_start", "on_namespace_start", "on_class_start"}


class Recorder:
    """A CxxVisitor that records every callback it receives; optionally forwards to a
    SimpleCxxVisitor so that the fold can be compared; optionally skips blocks by name and
    raises at a chosen delivery index."""

    def __init__(self, skip=(), fault=None, inner=None):
        self.events = []
        self.ids = {}
        self.states = []  # keep alive (id() reuse)
        self.skip = set(skip)
        self.fault = fault
        self.inner = inner

    def sid(self, state):
        if state is None:
            return None
        k = id(state)
        if k not in self.ids:
            self.ids[k] = len(self.ids)
            self.states.append(state)
        return self.ids[k]

    def _record(self, name, state, payload):
        idx = len(self.events)
        ev = {
            "cb": name,
            "state": self.sid(state),
            "kind": state_kind(state),
            "parent": self.sid(state.parent),
            "loc": loc_json(state.location),
            "access": getattr(state, "access", None),
            "hdr": state_hdr(state),
            "payload": to_json(payload) if payload is not None else None,
        }
        self.events.append(ev)
        if self.fault is not None and idx == self.fault:
            raise Fault(idx)
        ret = None
        if self.inner is not None:
            args = (state,) if payload is None else (state, payload)
            ret = getattr(self.inner, name)(*args)
        if name in _STARTS and block_name(state) in self.skip:
            return False
        return ret


def _mk_cb(name):
    def cb(self, state, *payload):
        return self._record(name, state, payload[0] if payload else None)

    cb.__name__ = name
    return cb


for _n in _CALLBACKS:
    setattr(Recorder, _n, _mk_cb(_n))


def cause_json(e):
    if e is None:
        return None
    if isinstance(e, Fault):
        return {"k": "visitor", "idx": e.idx}
    if isinstance(e, L.LexError):
        tok = e.tok
        return {"k": "lex", "msg": e.args[0], "value": tok.value, "loc": loc_json(getattr(tok, "location", None))}
    if isinstance(e, CxxParseError):
        tok = e.tok
        return {"k": "parse", "msg": e.args[0], "tok": [tok.type, tok.value] if tok is not None else None}
    if isinstance(e, EOFError):
        return {"k": "eof"}
    return {"k": "py", "cls": type(e).__name__, "msg": str(e)}


def impl_parse(text, filename="<str>", opts=None, skip=(), fault=None, with_simple=False):
    opts = opts or {}
    options = ParserOptions(
        verbose=bool(opts.get("verbose", False)),
        convert_void_to_zero_params=bool(opts.get("void", True)),
    )
    inner = S.SimpleCxxVisitor() if with_simple else None
    rec = Recorder(skip=skip, fault=fault, inner=inner)
    out = {}
    parser = None
    try:
        if options.verbose:
            import contextlib, io

            with contextlib.redirect_stdout(io.StringIO()):
                parser = CxxParser(filename, text, rec, options)
        else:
            parser = CxxParser(filename, text, rec, options)
    except Exception as e:  # noqa
        out["result"] = {"k": "ctor", "cause": cause_json(e)}
    if parser is not None:
        try:
            if options.verbose:
                import contextlib, io

                with contextlib.redirect_stdout(io.StringIO()):
                    parser.parse()
            else:
                parser.parse()
            out["result"] = {"k": "ok"}
        except CxxParseError as e:
            if options.verbose:
                out["result"] = {"k": "raw", "cause": cause_json(e)}
            else:
                out["result"] = {"k": "error", "msg": e.args[0], "cause": cause_json(e.__cause__)}
        except Exception as e:  # noqa
            out["result"] = {"k": "raw", "cause": cause_json(e)}
        out["anon"] = parser.anon_id
    out["events"] = rec.events
    if with_simple and inner is not None and hasattr(inner, "data"):
        out["data"] = inner.data
    return out
