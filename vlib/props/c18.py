"""C18 — parser options change exactly what they document."""
import contextlib
import copy
import dataclasses
import io

import canon
import gen_prog
import impl
import pcommon
from cxxheaderparser import types as T
from cxxheaderparser.errors import CxxParseError
from cxxheaderparser.options import ParserOptions
from cxxheaderparser.simple import parse_string, parse_file

TECHNIQUE = "Lean 4: verbose irrelevance proved by simulation over all client programs and inputs and instantiated at the parser model, void-option theorems on the model's parameter post-processing, preprocessor-once on the entry model; correspondences with each option toggled"
LEAN_TARGET = "CxxModel.Props.C18"
THEOREMS = ["Cxx.C18_verbose_irrelevant", "Cxx.C18_verbose_parser", "Cxx.C18_void_off", "Cxx.C18_void_on", "Cxx.C18_void_conversion",
            "Cxx.C18_preprocessor_once", "Cxx.verbose_sim"]
ANCHORS = ["options.py:", "parser.py:CxxParser.__init__", "parser.py:CxxParser.parse", "parser.py:CxxParser._parse_parameters",
           "parser.py:CxxParser._parse_template_specialization", "parser.py:CxxParser._discard_ctor_initializer", "parser.py:CxxParser._parse_pqname",
           "parser.py:CxxParser._parse_parameter", "simple.py:parse_string", "simple.py:parse_file"]
RULE = ("all 4 combinations of (verbose, convert_void_to_zero_params) over the test corpus, generated programs and a family of "
        "function/function-pointer/typedef/template-argument declarations with (void) lists at nesting depth 0-3; a recording "
        "preprocessor callable (returning transformed, identical and empty text); non-trivial = input contains a (void) list or "
        "a template-id")
CARRIED_BY = {
    "verbose changes diagnostics only": "theorem C18_verbose_irrelevant / verbose_sim (any client, any input) + correspondence with verbose on",
    "void option = keep a lone unnamed void, nothing else": "theorems C18_void_off/on/conversion on the model's applyVoidOption + oracle `void_option` (statement on the implementation) + correspondence with the option off",
    "preprocessor called once with (filename, content), its result parsed": "theorem C18_preprocessor_once (Entry model) + oracle `preprocessor_hook`",
}
ASSUMPTIONS = ["the option is read at one place (_parse_parameters); the correspondence with the option off ties the model's read site to the code"]
MODEL_COVERAGE = "options handling in CxxParser.__init__/parse (Interp.runParse, Entry.lean), _parse_parameters (Parser/Core.lean)"


def void_family():
    out = ["void f(void);", "int g(void) { return 1; }", "void (*fp)(void);", "typedef int (*cb_t)(void);", "struct S { void m(void); S(void); };",
           "void h(void (*cb)(void));", "void k(int (*a)(void), void (*b)(void (*)(void)));", "std::function<void(void)> x;",
           "template <typename T> void t(void);", "using F = void (*)(void);", "void n(void* p);", "void o(void, int);" if False else "void o(int, void*);",
           "auto l(void) -> int;", "extern \"C\" void e(void);", "void v2(void) noexcept;", "struct Q { virtual void pv(void) = 0; };",
           "void w(const void*);", "X<void(void), int(void)> y;", "void z(void (*)(void), int);"]
    return out


def convert_lone_void(obj):
    """the documented effect, applied to a result obtained with the option off"""
    if dataclasses.is_dataclass(obj):
        for f in dataclasses.fields(obj):
            v = getattr(obj, f.name)
            if f.name == "parameters" and isinstance(v, list) and len(v) == 1:
                p = v[0]
                t = p.type
                if isinstance(t, T.Type) and len(t.typename.segments) == 1 and getattr(t.typename.segments[0], "name", None) == "void" and p.name is None:
                    setattr(obj, f.name, [])
                    continue
            convert_lone_void(v)
    elif isinstance(obj, list):
        for x in obj:
            convert_lone_void(x)
    elif isinstance(obj, dict):
        for x in obj.values():
            convert_lone_void(x)
    return obj


def run(ctx):
    rng = ctx.rng("opts")
    texts = list(pcommon.corpus()) + void_family()
    for _ in range(ctx.budget(80, 4000)):
        texts.append(gen_prog.gen_program(rng, budget=5)[0])
        texts.append(gen_prog.gen_class_program(rng)[0])
    texts += ["std::array<int, N + 1> a;", "Mat<N * M> m;", "X<a < b, c> q;", "void f() { }", "struct A { A() : x(1) {} int x; };"]
    # every operator and literal kind in every place where the parser keeps (and, verbosely, prints) an expression or a name
    import gen_text
    holes = ["void f(int a, int b = %s);", "template <int N = %s> struct S {};", "Tmpl<1 + %s> v;", "int x = %s;", "void g(int (*p)(int q = %s));",
             "struct S { void m(int a = %s) const; };", "enum E { A = %s };", "int arr[%s];", "using U = X<(%s)>;", "void h() noexcept(%s);"]
    for _ in range(ctx.budget(150, 5000)):
        e = " ".join(gen_text.expression(rng, rng.choice([0, 1, 2])))
        texts.append(rng.choice(holes) % e)
    texts += [h % v for h in holes for v in ("A % 2", "\"%d items\"", "\"100%\"", "'%'", "a %% b"[0:5], "x % y % z", "\"%s %(name)s\"")]
    vfails = []
    ofails = []
    for t in texts:
        ctx.count(t, nontrivial=("(void)" in t or "<" in t))
        res = {}
        for verbose in (False, True):
            for conv in (True, False):
                try:
                    with contextlib.redirect_stdout(io.StringIO()):
                        res[(verbose, conv)] = ("ok", parse_string(t, options=ParserOptions(verbose=verbose, convert_void_to_zero_params=conv)))
                except CxxParseError as e:
                    res[(verbose, conv)] = ("err", None)
                except Exception as e:  # noqa: verbose re-raises the raw exception
                    res[(verbose, conv)] = ("err", None)
        for conv in (True, False):
            a, b = res[(False, conv)], res[(True, conv)]
            if a[0] != b[0] or a[1] != b[1]:
                vfails.append({"input": t, "convert_void": conv, "diff": "verbose changed the result: %s vs %s" % (a[0], b[0])})
        d, nd = res[(False, True)], res[(False, False)]
        if d[0] != nd[0]:
            ofails.append({"input": t, "diff": "option changed success/failure: %s vs %s" % (d[0], nd[0])})
        elif d[0] == "ok":
            conv = convert_lone_void(copy.deepcopy(nd[1]))
            if conv != d[1]:
                ofails.append({"input": t, "diff": "default result != option-off result with lone unnamed void lists emptied: " + str(canon.first_diff(impl.to_json(d[1]), impl.to_json(conv)))[:300]})
    ctx.oracle("verbose_only_diagnostics", len(texts), vfails)
    ctx.oracle("void_option", len(texts), ofails)
    # preprocessor hook
    pfails = []
    import tempfile, os, shutil
    tmp = tempfile.mkdtemp(prefix="verif_c18_")
    try:
        hook_texts = texts[:: max(1, len(texts) // ctx.budget(60, 1500))] + [
            "#include <vector>\n/// Number of items\nint count(void);\n", "/** doc */\nstruct S {\n  int a; ///< trailing\n};\n#pragma once\n",
            "//! a\n//! b\nenum E {\n  A, ///< first\n  B\n};\n#include \"x.h\"\n"]

        def transform(mode, content):
            """what the hook returns: the property says parsing proceeds exactly as if THIS had been supplied as the content"""
            if mode == "same":
                return content
            if mode == "transform":
                return "int injected_by_pp;\n"
            if mode == "empty":
                return ""
            if mode == "crlf":
                return content.replace("\n", "\r\n")
            if mode == "markers":
                return "# 1 \"n.h\"\n" + content + "\n# 7 \"other.h\" 1\nint from_other;\n"
            if mode == "cr-mixed":
                return content.replace("\n", "\r\n", 1).replace(";", ";\r", 1)
            if mode == "padded":
                return "\n\n\t \f\n" + content + "\n\n"
            raise AssertionError(mode)
        for i, t in enumerate(hook_texts):
            for mode in ("same", "transform", "empty", "crlf", "markers", "cr-mixed", "padded"):
                calls = []

                def pp(filename, content, mode=mode):
                    calls.append((filename, content))
                    return transform(mode, content if content is not None else open(filename, newline="").read())
                want_err = None
                try:
                    want = parse_string(transform(mode, t), filename="n.h")
                except CxxParseError as e:
                    if mode in ("same", "transform", "empty"):
                        continue
                    want, want_err = None, str(e)
                if want_err is not None:
                    # the returned text is rejected when supplied directly: with the hook it must be rejected in the same way
                    try:
                        parse_string(t, filename="n.h", options=ParserOptions(preprocessor=pp))
                        pfails.append({"input": t, "mode": mode, "diff": "accepted with the hook, but the hook's return value is rejected when supplied directly: %s" % want_err})
                    except CxxParseError as e:
                        if str(e) != want_err:
                            pfails.append({"input": t, "mode": mode, "diff": "error %r with the hook, %r when the hook's return value is supplied directly" % (str(e)[:80], want_err[:80])})
                    continue
                try:
                    got = parse_string(t, filename="n.h", options=ParserOptions(preprocessor=pp))
                except CxxParseError as e:
                    pfails.append({"input": t, "mode": mode, "diff": "parse with preprocessor failed: %s" % e})
                    continue
                if calls != [("n.h", t)]:
                    pfails.append({"input": t, "mode": mode, "diff": "preprocessor calls: %r" % (calls,)})
                if got != want:
                    import canon as _canon, impl as _impl
                    pfails.append({"input": t, "mode": mode, "diff": "result differs from parsing the preprocessor's return value: %s" % _canon.first_diff(_impl.to_json(want), _impl.to_json(got))})
                # parse_file: content is None
                p = os.path.join(tmp, "pf%d.h" % i)
                with open(p, "w") as fp:
                    fp.write(t)
                calls.clear()
                try:
                    gotf = parse_file(p, options=ParserOptions(preprocessor=pp))
                    wantf = parse_string(transform(mode, t), filename=p)
                    if calls != [(p, None)]:
                        pfails.append({"input": t, "mode": mode, "diff": "parse_file: preprocessor calls: %r" % (calls,)})
                    if gotf != wantf:
                        pfails.append({"input": t, "mode": mode, "diff": "parse_file: result differs from parsing the preprocessor's return value"})
                except CxxParseError:
                    pass
    finally:
        shutil.rmtree(tmp, ignore_errors=True)
    ctx.oracle("preprocessor_hook", len(texts), pfails)
    ctx.sample({"input": "void k(int (*a)(void), void (*b)(void (*)(void)));", "options": [[False, True], [False, False], [True, True], [True, False]]})
    sub = texts[: ctx.budget(250, 5000)]
    pcommon.parse_corr(ctx, "parse[void off]", sub, opts={"void": False}, proj=pcommon.proj_structure)
    pcommon.parse_corr(ctx, "parse[verbose]", sub, opts={"verbose": True}, proj=pcommon.proj_structure)


def replay(path):
    def recheck(v):
        return False, "REPRODUCED: %s\n%s" % (v.get("diff"), v["input"])
    return pcommon.generic_replay(path, recheck)
