"""C10 — reported line numbers and file names are the real ones."""
import re

import impl
import pcommon
from cxxheaderparser.errors import CxxParseError
from cxxheaderparser.simple import parse_string

TECHNIQUE = 'Lean 4: theorems on the line counter, #line re-basing and error locations of the lexer/stream model; bisimulation proof that line numbers and file names are opaque to every client program (instantiated at the parser model); per-declaration locations decided by correspondence on locations and line oracles (not a theorem)'
LEAN_TARGET = "CxxModel.Props.C10"
THEOREMS = ["Cxx.C10_location_is_lexer_line", "Cxx.C10_line_directive_rebases", "Cxx.C10_error_location", "Cxx.C10_countNl_append", "Cxx.C10_action_lineno",
            "Cxx.lexer_helpers_standard", "Cxx.C10_locations_opaque", "Cxx.C10_filename_only_in_locations", "Cxx.rloc_bisim", "Cxx.layout_sim"]
ANCHORS = ["lexer.py:", "parser.py:", "parserstate.py:", "lex.py:Lexer.token"]
RULE = ("programs of one-line and multi-line declarations placed on known lines, separated by arbitrary material (blank lines, "
        "multi-line comments, line comments, continuations), with #line directives at arbitrary positions, k lines prepended, and "
        "lexical errors at known lines; non-trivial = at least one declaration after a multi-line comment, continuation or #line")
CARRIED_BY = {
    "line numbers and file names are opaque to the parser: lexer states over the same text that differ in line counter, offset or file name give the same callbacks, payloads and final state; only locations differ": "theorems C10_locations_opaque, C10_filename_only_in_locations (rloc_bisim: a bisimulation on the real lexer-backed stream; layout_sim: every client program)",
    "a token's location is the lexer's line after it (its own line for a token without newline), re-based by #line": "theorems C10_location_is_lexer_line, C10_line_directive_rebases, C10_error_location",
    "which token a declaration's location comes from; every reported line is a token's line": "correspondence `parse[locations]` + oracle `known_lines`, `line_directive`, `prepend`, `lex_error_line` (not proof)",
}
ASSUMPTIONS = ["physical-line counting through comments/continuations: C08(c) (correspondence `lex`)"]
MODEL_COVERAGE = "line counter, #line handling (Ply.lean), location stamping in _fill_tokbuf (TokStream.lean), location flow (Interp/Parser)"

ONE_LINERS = [
    ("int v%d;", "on_variable"), ("void f%d(int a);", "on_function"), ("typedef int t%d;", "on_typedef"), ("using A%d = int;", "on_using_alias"),
    ("enum E%d { k%d };", "on_enum"), ("struct F%d;", "on_forward_decl"), ("struct S%d { int m%d; };", "on_class_start"),
    ("namespace N%d { }", "on_namespace_start"), ("using namespace u%d;", "on_using_namespace"), ("using x::y%d;", "on_using_declaration"),
    ("extern \"C\" int g%d();", "on_function"), ("#include <i%d.h>", "on_include"), ("template <typename T> void h%d(T t);", "on_function"),
    ("static int s%d = %d, s2_%d;", "on_variable"),
    # rarely used declaration kinds: each takes its own path to the callback
    ("enum class O%d : int;", "on_forward_decl"), ("enum P%d : unsigned char;", "on_forward_decl"), ("enum class Q%d;", "on_forward_decl"),
    ("#pragma pr%d", "on_pragma"), ("template class TI%d<int>;", "on_template_inst"), ("namespace A%d = x::y;", "on_namespace_alias"), ("template <typename T> concept C%d = true;", "on_concept"),
    ("template <typename T> struct TF%d;", "on_forward_decl"), ("extern int e%d;", "on_variable"), ("inline namespace IN%d { }", "on_namespace_start"),
    ("template <typename T> using TA%d = T*;", "on_using_alias"), ("auto af%d() -> int;", "on_function"), ("union UF%d;", "on_forward_decl"),
    ("template <typename T> D%d(T) -> D%d<T>;", "on_deduction_guide"), ("extern \"C\" { int ec%d; }", "on_variable"),
    ("enum class EC%d : short { ek%d };", "on_enum"), ("typedef struct TS%d { int tm%d; } tsn%d;", "on_typedef"), ("struct SV%d { int sm%d; } sv%d;", "on_variable"),
    ("void X::mi%d() {}", "on_method_impl"), ("template <> struct SP%d<int>;", "on_forward_decl"), ("extern template class ET%d<int>;", "on_template_inst"),
]
FILLER = ["", "", "\n", "// comment\n", "/* multi\n line\n comment */\n", "\n\n\n", "/* one */\n", "   \n", "// a\n// b\n",
          # code on the closing line of a multi-line comment, the comment starting after indentation, a line comment or code
          "  /* x\n y */ ", "// h\n/* m\n m */ ", "int qq; /* a\n b\n c */ ", "\t/* i\n j\n k\n l */", "int rr; /* p\n q */\n  /* s\n t */ "]


def build(rng, n):
    """returns text and [(callback, name fragment, first line, last line)]"""
    lines_out = []
    items = []
    cur = 1
    for i in range(n):
        fill = rng.choice(FILLER)
        lines_out.append(fill)
        cur += fill.count("\n")
        tmpl, cb = rng.choice(ONE_LINERS)
        src = tmpl % tuple([i] * tmpl.count("%d"))
        kind = rng.random()
        if kind < 0.25 and not src.startswith("#"):
            # spread over several physical lines
            src2 = src.replace(" ", "\n", 2)
            first, last = cur, cur + src2.count("\n")
            src = src2
        elif kind < 0.35 and not src.startswith("#"):
            src2 = src.replace(" ", " \\\n ", 1)
            first, last = cur, cur + src2.count("\n")
            src = src2
        else:
            first = last = cur
        items.append((cb, str(i), first, last, src))
        lines_out.append(src + "\n")
        cur += src.count("\n") + 1
    return "".join(lines_out), items


MEMBERS = [
    ("int m%d;", "on_class_field"), ("void f%d();", "on_class_method"), ("operator T%d() const;", "on_class_method"),
    ("explicit operator P%d*();", "on_class_method"), ("K%d();", "on_class_method"), ("~K%d();", "on_class_method"),
    ("using U%d = int;", "on_using_alias"), ("typedef int t%d;", "on_typedef"), ("enum E%d { k%d };", "on_enum"),
    ("friend class G%d;", "on_class_friend"), ("template <typename Q> void tm%d(Q q);", "on_class_method"),
    ("bool operator==(const O%d& o) const;", "on_class_method"), ("int b%d : 2;", "on_class_field"), ("struct I%d;", "on_forward_decl"),
    ("using B::z%d;", "on_using_declaration"), ("int g%d() { return 1; }", "on_class_method"), ("static int s%d;", "on_class_field"),
    ("virtual operator V%d&() = 0;", "on_class_method"), ("template <typename Q> operator W%d<Q>();", "on_class_method"),
    ("enum class O%d : int;", "on_forward_decl"), ("enum P%d : unsigned char;", "on_forward_decl"), ("enum class Q%d;", "on_forward_decl"),
    ("union UF%d;", "on_forward_decl"), ("template <typename T> struct TF%d;", "on_forward_decl"), ("friend void ff%d();", "on_class_friend"),
    ("template <typename T> using TA%d = T*;", "on_using_alias"), ("enum class EC%d : short { ek%d };", "on_enum"), ("mutable int mu%d;", "on_class_field"),
    ("struct SV%d { int sm%d; } sv%d;", "on_class_field"), ("auto af%d() -> int;", "on_class_method"), ("K%d(const K%d&) = delete;", "on_class_method"),
]
MEMBER_FILLER = ["", "", "\n", "// c\n", "/* a\n b */\n", "\n\n", "public:\n", "private:\n", "/* one */\n"]


def build_class(rng, n, tag):
    """a class whose members each stand on a line of their own; returns text and [(callback, name fragment, line, src)]"""
    out = ["int before%d;\n" % tag, rng.choice(["", "\n", "// x\n"]), rng.choice(["struct", "class"]) + " K%d : B {\n" % tag, "public:\n"]
    cur = 1 + sum(x.count("\n") for x in out)
    items = []
    for i in range(n):
        fill = rng.choice(MEMBER_FILLER)
        out.append(fill)
        cur += fill.count("\n")
        tmpl, cb = rng.choice(MEMBERS)
        num = tag if tmpl.startswith(("K%d", "~K%d")) else tag * 100 + i
        src = tmpl % tuple([num] * tmpl.count("%d"))
        items.append((cb, str(num), cur, src))
        out.append("  " + src + "\n")
        cur += 1
    out.append("};\n")
    return "".join(out), items


def locs_of(text, filename="f.h"):
    r = impl.impl_parse(text, filename)
    return r, [(e["cb"], e["loc"], e) for e in r["events"]]


def name_in(ev, frag):
    import json
    s = json.dumps(ev["payload"]) + json.dumps(ev["hdr"])
    return re.search(r"[a-zA-Z_]%s\b" % frag, s) is not None


def run(ctx):
    rng = ctx.rng("lines")
    fails = []
    n = ctx.budget(200, 8000)
    corr_texts = []
    for _ in range(n):
        text, items = build(rng, rng.randint(2, 7))
        if rng.random() < 0.3 and "#include" not in text and "\\\n" not in text:
            # CRLF line ends (directive lines and continuations under CRLF are C09's listed findings)
            text = text.replace("\n", "\r\n")
        ctx.count(text, nontrivial=("/*" in text or "\\\n" in text))
        r, locs = locs_of(text)
        if r["result"]["k"] != "ok":
            fails.append({"input": text, "diff": "generated program rejected: %s" % r["result"].get("msg")})
            continue
        if len(corr_texts) < ctx.budget(150, 3000):
            corr_texts.append(text)
        for cb, frag, first, last, src in items:
            hits = [(c, l) for c, l, e in locs if c == cb and name_in(e, frag)]
            if not hits:
                fails.append({"input": text, "diff": "no %s callback for item %r" % (cb, src)})
                continue
            for c, l in hits[:1]:
                if l[0] != "f.h" or not (first <= l[1] <= last):
                    fails.append({"input": text, "diff": "%s for %r reported at %s:%s, written on lines %d-%d" % (cb, src, l[0], l[1], first, last)})
    ctx.oracle("known_lines", n, fails)
    # class members, each on a line of its own: the callback of every member kind names that line
    mfails = []
    nm = ctx.budget(150, 6000)
    for j in range(nm):
        text, items = build_class(rng, rng.randint(2, 8), j + 1)
        ctx.count(text, nontrivial=True)
        r, locs = locs_of(text)
        if r["result"]["k"] != "ok":
            mfails.append({"input": text, "diff": "generated class rejected: %s" % r["result"].get("msg")})
            continue
        if j < ctx.budget(60, 1500):
            corr_texts.append(text)
        for cb, frag, line, src in items:
            hits = [(c, l) for c, l, e in locs if c == cb and (name_in(e, frag) or src.startswith(("K", "~K")))]
            if src.startswith(("K", "~K")):
                hits = [(c, l) for c, l, e in locs if c == cb and e["payload"].get("constructor" if src.startswith("K") else "destructor")]
            if not hits:
                mfails.append({"input": text, "diff": "no %s callback for member %r" % (cb, src)})
                continue
            if not any(l[0] == "f.h" and l[1] == line for c, l in hits):
                mfails.append({"input": text, "diff": "%s for member %r reported at %s, written on line %d" % (cb, src, sorted(set(l[1] for c, l in hits)), line)})
    ctx.oracle("member_lines", nm, mfails)
    # prepend k lines: every location shifts by exactly k
    pfails = []
    for _ in range(ctx.budget(60, 2000)):
        text, items = build(rng, rng.randint(2, 5))
        k = rng.randint(1, 9)
        pre = rng.choice(["\n" * k, "// x\n" * k, "/*" + "\n" * k + "*/", "int pre; \\\n" * (k - 1) + "\n" if k > 1 else "\n"])
        k = pre.count("\n")
        r1, l1 = locs_of(text)
        r2, l2 = locs_of(pre + text)
        a = [(c, l[1] + k) for c, l, e in l1]
        skip = len(l2) - len(l1)
        b = [(c, l[1]) for c, l, e in l2][skip:]
        # the global state's location is taken before anything is read: compare the others
        if a[1:] != b[1:] and skip >= 0:
            pfails.append({"input": pre + text, "diff": "prepending %d lines did not shift every location by %d: %s vs %s" % (k, k, a[1:4], b[1:4])})
    ctx.oracle("prepend", ctx.budget(60, 2000), pfails)
    # #line directives
    dfails = []
    for _ in range(ctx.budget(100, 4000)):
        nseg = rng.randint(1, 4)
        text = ""
        expect = []
        cur_file, cur_line = "f.h", 1
        idx = 0
        for sgi in range(nseg):
            if sgi > 0 or rng.random() < 0.5:
                # line numbers far from and AT / next to the line the directive itself stands on (a re-basing that happens to
                # leave the number unchanged must still change the file name), always to a different file name
                N = rng.randint(1, 500) if rng.random() < 0.5 else max(1, cur_line + rng.choice([-1, 0, 0, 0, 1, 2]))
                fn = rng.choice([f for f in ["other.h", "dir/x.h", "a b.h", "C:\\\\p\\\\q.h"] if f != cur_file])
                form = rng.choice(['#line %d "%s"\n', '# %d "%s"\n', '#  line %d "%s"\n', '# %d "%s" 1\n'])
                text += form % (N, fn)
                cur_file, cur_line = fn, N
            for _ in range(rng.randint(1, 3)):
                fill = rng.choice(["", "\n", "/* a\n b */\n", "// c\n", "  /* a\n b */ ", "int qq; /* a\n b\n c */ "])
                text += fill
                cur_line += fill.count("\n")
                text += "int d%d;\n" % idx
                expect.append(("d%d" % idx, cur_file, cur_line))
                idx += 1
                cur_line += 1
        r, locs = locs_of(text)
        got = [(e["payload"]["name"]["segments"][0]["name"], l[0], l[1]) for c, l, e in locs if c == "on_variable"]
        got = [g for g in got if g[0].startswith("d")]   # (the fillers declare `qq` themselves)
        if got != expect:
            dfails.append({"input": text, "diff": "locations after #line: got %s expected %s" % (got[:4], expect[:4])})
        elif len(corr_texts) < ctx.budget(300, 5000):
            corr_texts.append(text)
    ctx.oracle("line_directive", ctx.budget(100, 4000), dfails)
    # lexical errors at known lines
    efails = []
    for _ in range(ctx.budget(100, 3000)):
        k = rng.randint(0, 12)
        pre = "".join(rng.choice(["int a%d;\n" % i, "/* m\n m */\n", "\n", "// c\n", "int qq; /* m\n m */ ", "  /* m\n m\n m */ "]) for i in range(k))
        bad = rng.choice(["int $x;", "int y = 08;", "char c = 'abcdef';", "int `z;", "const char* s = \"a\\%b\";", "#if 1", "#define Q 2", "int w = @;"])
        text = pre + bad + "\nint after;\n"
        want = pre.count("\n") + 1
        try:
            parse_string(text, filename="e.h")
            efails.append({"input": text, "diff": "lexical error not reported"})
        except CxxParseError as e:
            m = re.match(r"^e\.h:(\d+): ", e.args[0])
            if not m or int(m.group(1)) != want:
                efails.append({"input": text, "diff": "error reported as %r, offending character is on line %d" % (e.args[0][:40], want)})
    ctx.oracle("lex_error_line", ctx.budget(100, 3000), efails)
    ctx.sample({"program": build(ctx.rng("sample"), 3)[0]})
    pcommon.parse_corr(ctx, "parse[locations]", corr_texts + pcommon.corpus()[:: 3], proj=pcommon.proj_locations)


def replay(path):
    def recheck(v):
        return False, "REPRODUCED: %s\n%s" % (v.get("diff"), v["input"])
    return pcommon.generic_replay(path, recheck)
