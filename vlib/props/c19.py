"""C19 — preprocessor integration yields the main file's declarations only."""
import io
import os
import shutil
import subprocess
import tempfile

import pcommon
from cxxheaderparser import preprocessor as PP
from cxxheaderparser.options import ParserOptions
from cxxheaderparser.simple import parse_file, parse_string

TECHNIQUE = "Lean 4: specification theorems for the gcc/pcpp line-marker filters over every segmentation (keep exactly the main file's segments; exact quoted-name match); correspondence on synthetic and real preprocessor output; end-to-end include-graph oracle"
LEAN_TARGET = "CxxModel.Props.C19"
THEOREMS = ["Cxx.C19_gcc_filter_spec", "Cxx.C19_pcpp_filter_spec", "Cxx.C19_gcc_marker_exact", "Cxx.C19_pcpp_marker_exact",
            "Cxx.C19_msvc_filter_spec", "Cxx.C19_msvc_marker_exact", "Cxx.segFilter_spec", "Cxx.C19_gcc_filter_top_spec", "Cxx.C19_gcc_escape_injective", "Cxx.C19_gcc_marker_exact_escaped"]
ANCHORS = ["preprocessor.py:", "dump.py:", "lexer.py:PlyLexer.t_PP_DIRECTIVE"]
RULE = ("include graphs over generated file names (names that are suffixes/prefixes of one another, sub-directories, blanks), "
        "depth <= 3, macro-only includes, both back ends present in the sandbox (pcpp, g++), retain_all_content on/off, "
        "depfile; plus synthetic marker-segmented outputs for the filter correspondence; non-trivial = main file includes "
        "at least one file whose name is related to its own")
CARRIED_BY = {
    "the gcc filter recognises the main file by its name with every backslash doubled (as gcc writes names in line markers); the escaping identifies no two different names, so a marker of another file is never taken for the main file's, whatever the files are called": "theorems C19_gcc_filter_top_spec, C19_gcc_escape_injective, C19_gcc_marker_exact_escaped",
    "filter keeps exactly the main file's segments, in order": "theorems C19_gcc_filter_spec, C19_pcpp_filter_spec, C19_msvc_filter_spec (every segmentation)",
    "main-file test is equality of the quoted name, whatever files are called": "theorems C19_gcc_marker_exact, C19_pcpp_marker_exact, C19_msvc_marker_exact",
    "model filters = _gcc_filter/_pcpp_filter/_msvc_filter": "correspondence `ppfilter` on synthetic and real preprocessor outputs, `ppfilter[msvc]` on synthetic MSVC-format output",
    "end to end with real pcpp / g++ (declarations, line numbers, retain_all_content, depfile)": "oracle `include_graphs` (not proof)",
    "a preprocessor function carries nothing from one file to the next": "oracle `preprocessor_history` (not proof)",
}
ASSUMPTIONS = ["g++/pcpp output is marker-segmented (recorded assumption)", "cl.exe absent: MSVC filter exercised on synthetic MSVC-format output only"]
MODEL_COVERAGE = "_gcc_filter, _pcpp_filter, _msvc_filter (PPFilter.lean)"
NAMES = ["a.h", "xa.h", "a.hpp", "a.h.in", "sub/a.h", "sub/xa.h", "b.h", "my a.h", "dir x/a.h", "aa.h", "a.hh", "sub/sub2/a.h", "main.h", "amain.h"]


# names built from the words the lexer's directive rule looks for, characters a line marker escapes, and other oddities:
# "whatever the files and directories are called"
EXOTIC = ["warning.h", "no-warnings/core.h", "define_x.h", "xdefine/a.h", "line.h", "pragma once.h", "include.h", "win\\core.h",
          "C:\\proj/a.h", "m\\\\x.h", "m\\x.h", "\u00e4.h", "a#b.h", "a%sb.h", "it's.h", "1.h", "a..h", "undef.h", "x warning y.h", "error.h", "endif/a.h"]


def make_graph(rng, root):
    """write an include graph; returns (main, files dict name -> decl name, includes dict)"""
    names = rng.sample(NAMES, rng.randint(2, 6))
    r = rng.random()
    if r < 0.45:
        # an exotic main file, sometimes next to an exotic sibling whose name is related to it
        names[0] = rng.choice(EXOTIC)
        if r < 0.2:
            names.insert(1, rng.choice([e for e in EXOTIC if e != names[0]]))
    elif r < 0.6:
        names.append(rng.choice(EXOTIC))
    tail_run = rng.random() < 0.6
    if names[0].endswith(".in"):
        names.reverse()  # g++ does not preprocess a main file with an unknown suffix
    main = names[0]
    decl = {}
    inc = {n: [] for n in names}
    order = names[:]
    for i, n in enumerate(order):
        decl[n] = "v_" + "".join(ch if (ch.isascii() and ch.isalnum()) else "_" for ch in n) + "_%d" % i
        # includes only later files (acyclic)
        later = order[i + 1:]
        if later:
            k = rng.randint(1 if i == 0 else 0, min(2, len(later)))
            inc[n] = rng.sample(later, k)
    for n in names:
        p = os.path.join(root, n)
        os.makedirs(os.path.dirname(p), exist_ok=True)
        lines = ["#pragma once" if rng.random() < 0.3 else "// %s" % n]
        for j, m in enumerate(inc[n]):
            rel = os.path.relpath(os.path.join(root, m), os.path.dirname(p))
            lines.append('#include "%s"' % rel)
        if rng.random() < 0.3:
            lines.append("#define M_%s 7" % decl[n])
        lines.append("int %s;" % decl[n])
        if n == main and tail_run:
            # a long run of lines that produce no output (pcpp re-synchronises with a `#line` for the SAME file after such a
            # run), then a second declaration of the main file
            kind = rng.choice(["defines", "if0", "blank", "comments"])
            k = rng.randint(7, 14)
            if kind == "defines":
                lines.extend("#define P%d %d" % (q, q) for q in range(k))
            elif kind == "if0":
                lines.extend(["#if 0"] + ["junk %d" % q for q in range(k)] + ["#endif"])
            elif kind == "blank":
                lines.extend([""] * k)
            else:
                lines.extend("// c%d" % q for q in range(k))
            lines.append("int w_tail;")
        lines.append("")
        with open(p, "w") as fp:
            fp.write("\n".join(lines))
    decl["__tail__"] = "w_tail" if tail_run else None
    return main, decl, inc


def reach(inc, main):
    seen = []
    todo = [main]
    while todo:
        n = todo.pop()
        for m in inc[n]:
            if m not in seen:
                seen.append(m)
                todo.append(m)
    return seen


def history_oracle(ctx, rng, have_gcc):
    """one preprocessor function used for a sequence of main files gives, for each, the result a fresh one gives:
    nothing (macros, include-once sets, search paths) is carried from one file to the next"""
    fails = []
    n = ctx.budget(12, 300)
    tmp = tempfile.mkdtemp(prefix="c19h")
    cwd = os.getcwd()
    try:
        for hi in range(n):
            root = os.path.join(tmp, "h%d" % hi)
            os.makedirs(root)
            os.chdir(root)
            k = rng.randint(2, 4)
            mains = []
            for i in range(k):
                d = "p%d" % i
                os.makedirs(d)
                lim = rng.randint(2, 99)
                style = rng.choice(["define", "ifndef", "plain", "once"])
                with open(os.path.join(d, "defaults.h"), "w") as fp:
                    if style == "define":
                        fp.write("#define LIMIT %d\n" % lim)
                    elif style == "ifndef":
                        fp.write("#ifndef LIMIT\n#define LIMIT %d\n#endif\n" % lim)
                    elif style == "once":
                        fp.write("#pragma once\n#define LIMIT %d\n" % lim)
                    else:
                        fp.write("// nothing\n")
                with open(os.path.join(d, "m%d.h" % i), "w") as fp:
                    fp.write("#pragma once\n" if rng.random() < 0.5 else "")
                    fp.write('#include "defaults.h"\n')
                    fp.write(rng.choice(["int LIMIT;\n", "int b%d = LIMIT;\n" % i, "#ifdef LIMIT\nint has_limit%d;\n#else\nint no_limit%d;\n#endif\n" % (i, i)]))
                mains.append(os.path.join(d, "m%d.h" % i))
            seq = mains + [rng.choice(mains)]
            for backend in (["pcpp", "gcc"] if have_gcc else ["pcpp"]):
                mk = (lambda: PP.make_pcpp_preprocessor()) if backend == "pcpp" else (lambda: PP.make_gcc_preprocessor(print_cmd=False))
                shared = mk()
                for m in seq:
                    ctx.count((hi, backend, m), nontrivial=True)
                    try:
                        want = parse_file(m, options=ParserOptions(preprocessor=mk()))
                    except Exception as e:  # noqa
                        want = "error %s" % type(e).__name__
                    try:
                        got = parse_file(m, options=ParserOptions(preprocessor=shared))
                    except Exception as e:  # noqa
                        got = "error %s" % type(e).__name__
                    if got != want:
                        fails.append({"input": {"sequence": seq, "file": m, "backend": backend, "files": {x: open(x).read() for x in mains}},
                                      "diff": "with a preprocessor function already used for earlier files the result differs from a fresh one"})
                        break
            os.chdir(cwd)
            shutil.rmtree(root, ignore_errors=True)
    finally:
        os.chdir(cwd)
        shutil.rmtree(tmp, ignore_errors=True)
    ctx.oracle("preprocessor_history", n, fails)


def run(ctx):
    rng = ctx.rng("graphs")
    fails = []
    n = ctx.budget(40, 1500)
    outputs = []  # (kind, fname, text) real preprocessor outputs for the filter correspondence
    have_gcc = shutil.which("g++") is not None
    tmp = tempfile.mkdtemp(prefix="verif_c19_")
    cwd = os.getcwd()
    try:
        for gi in range(n):
            root = os.path.join(tmp, "g%d" % gi)
            os.makedirs(root)
            main, decl, inc = make_graph(rng, root)
            included = reach(inc, main)
            related = any(m.endswith(os.path.basename(main)) or os.path.basename(main) in m for m in included)
            ctx.count((main, tuple(sorted(included))), nontrivial=related)
            os.chdir(root)
            for backend in (["pcpp", "gcc"] if have_gcc else ["pcpp"]):
                for use_abs in (False, True):
                    mpath = os.path.join(root, main) if use_abs else main
                    try:
                        if backend == "pcpp":
                            pp = PP.make_pcpp_preprocessor()
                            ppall = PP.make_pcpp_preprocessor(retain_all_content=True)
                        else:
                            pp = PP.make_gcc_preprocessor(print_cmd=False)
                            ppall = PP.make_gcc_preprocessor(print_cmd=False, retain_all_content=True)
                        d = parse_file(mpath, options=ParserOptions(preprocessor=pp))
                        got = [v.name.segments[-1].name for v in d.namespace.variables]
                        want_decls = [decl[main]] + ([decl["__tail__"]] if decl.get("__tail__") else [])
                        if got != want_decls:
                            fails.append({"input": {"main": mpath, "includes": inc, "backend": backend}, "diff": "declarations seen: %s, expected only %s" % (got, want_decls)})
                        # line numbers still refer to the main file
                        src_lines = open(os.path.join(root, main)).read().split("\n")
                        want_line = 1 + next(i for i, l in enumerate(src_lines) if l.startswith("int "))
                        locs = []

                        class V:
                            def __getattr__(self, name):
                                def cb(state, *a):
                                    if name == "on_variable":
                                        locs.append(tuple(state.location))
                                    return None
                                return cb
                        from cxxheaderparser.parser import CxxParser
                        CxxParser(mpath, None, V(), ParserOptions(preprocessor=pp)).parse()
                        if not locs:
                            fails.append({"input": {"main": mpath, "includes": inc, "backend": backend}, "diff": "second use of the same preprocessor function on the same file reports no declaration"})
                        elif locs[0][1] != want_line:
                            fails.append({"input": {"main": mpath, "includes": inc, "backend": backend}, "diff": "main declaration reported at line %s, written on line %s" % (locs[0][1], want_line)})
                        elif decl.get("__tail__"):
                            want2 = 1 + next(i for i, l in enumerate(src_lines) if l.startswith("int w_tail"))
                            if len(locs) < 2 or locs[1][1] != want2:
                                fails.append({"input": {"main": mpath, "includes": inc, "backend": backend, "main_text": "\n".join(src_lines)},
                                              "diff": "second main declaration (after a run of lines without output) reported at line %s, written on line %s" % (locs[1][1] if len(locs) > 1 else None, want2)})
                        dall = parse_file(mpath, options=ParserOptions(preprocessor=ppall))
                        # a file reached twice without an include guard appears twice: compare as sets
                        gotall = sorted(set(v.name.segments[-1].name for v in dall.namespace.variables))
                        wantall = sorted(set(want_decls + [decl[m] for m in included]))
                        if gotall != wantall:
                            fails.append({"input": {"main": mpath, "includes": inc, "backend": backend, "retain_all_content": True}, "diff": "declarations seen: %s, expected %s" % (gotall, wantall)})
                        # raw output for the filter correspondence
                        if len(outputs) < 400:
                            raw = ppall(mpath, None) if backend == "gcc" else None
                            if backend == "gcc":
                                outputs.append(("gcc", mpath, raw))
                    except Exception as e:  # noqa
                        fails.append({"input": {"main": mpath, "includes": inc, "backend": backend}, "diff": "exception %r" % e})
            # depfile (pcpp)
            try:
                dep = os.path.join(root, "out.d")
                pp = PP.make_pcpp_preprocessor(depfile=__import__("pathlib").Path(dep), deptarget=["tgt"])
                parse_file(main, options=ParserOptions(preprocessor=pp))
                txt = open(dep).read()
                # make-style escaping as the writer documents it: `\\` is a backslash, `\ ` a blank, backslash-newline a break
                names = txt.replace("\\\n", " ").replace("\\\\", "\x01").replace("\\ ", "\x00").split()
                names = [x.replace("\x00", " ").replace("\x01", "\\") for x in names]
                if names[0] != "tgt:":
                    fails.append({"input": {"main": main, "includes": inc}, "diff": "depfile target %r" % names[0]})
                want = set(os.path.normpath(x) for x in [main] + included)
                got = set(os.path.normpath(x) for x in names[1:])
                if got != want:
                    fails.append({"input": {"main": main, "includes": inc, "depfile": True}, "diff": "depfile names %s, files read %s" % (sorted(got), sorted(want))})
            except Exception as e:  # noqa
                fails.append({"input": {"main": main, "includes": inc, "depfile": True}, "diff": "exception %r" % e})
            os.chdir(cwd)
            shutil.rmtree(root, ignore_errors=True)
    finally:
        os.chdir(cwd)
        shutil.rmtree(tmp, ignore_errors=True)
    ctx.oracle("include_graphs", n, fails)
    history_oracle(ctx, rng, have_gcc)
    ctx.sample({"names_pool": NAMES[:6], "backends": ["pcpp"] + (["gcc"] if have_gcc else [])})
    # filter correspondence on synthetic segmented outputs + real gcc outputs
    synth = []
    for _ in range(ctx.budget(300, 5000)):
        main = rng.choice(NAMES)
        segs = []
        for _ in range(rng.randint(1, 6)):
            f = rng.choice(NAMES + [main, main])
            body = ["int x%d;\n" % rng.randint(0, 99) for _ in range(rng.randint(0, 3))]
            if rng.random() < 0.1:
                body.append('const char* s = "a.h";\n')
            segs.append((f, body))
        gcc_lines = []
        pcpp_lines = []
        for f, body in segs:
            gcc_lines.append('# %d "%s"%s\n' % (rng.randint(1, 50), f, rng.choice(["", " 1", " 2", " 1 3 4"])))
            pcpp_lines.append('#line %d "%s"\n' % (rng.randint(1, 50), f))
            gcc_lines.extend(body)
            pcpp_lines.extend(body)
        synth.append(("gcc", main, gcc_lines))
        synth.append(("pcpp", main, pcpp_lines))
    for kind, fname, raw in outputs:
        synth.append((kind, fname, raw.splitlines(True)))
    if ctx.driver is not None:
        res = ctx.driver.run([{"op": "ppfilter", "kind": k, "fname": f, "lines": ls} for k, f, ls in synth])
        mism = []
        for (k, f, ls), r in zip(synth, res):
            if k == "gcc":
                e = PP._gcc_filter(f, io.StringIO("".join(ls)))
            else:
                e = PP._pcpp_filter(f, io.StringIO("".join(ls)), None)
            m = "".join(r["out"])
            if e != m:
                mism.append({"input": {"kind": k, "fname": f, "lines": ls}, "diff": "impl kept %r, model kept %r" % (e[:200], m[:200])})
        ctx.corr("ppfilter", len(synth), mism)
    # MSVC filter: model vs implementation on synthetic MSVC-format output (cl.exe is not available)
    msynth = []
    for _ in range(ctx.budget(150, 3000)):
        pool = ["c:\\\\p\\\\a.h", "a.h", "d:\\\\x y\\\\a.h", "c:\\\\p\\\\xa.h", "c:\\\\p\\\\sub\\\\a.h", "b.h", "xa.h", "sub/a.h"]
        main = rng.choice(pool)
        lines = ['#line 1 "%s"\n' % main]
        expect = []
        keep = True
        for _ in range(rng.randint(0, 6)):
            if rng.random() < 0.5:
                f = rng.choice(pool + [main, main])
                l = '#line %d "%s"\n' % (rng.randint(1, 40), f)
                keep = (f == main)
            else:
                l = rng.choice(["int x%d;\n" % rng.randint(0, 99), 'const char *s = "a.h";\n', "\n", "#pragma once\n"])
            lines.append(l)
            if keep:
                expect.append(l)
        msynth.append((lines, "".join(expect)))
    mfails = []
    for lines, expect in msynth:
        out = PP._msvc_filter(io.StringIO("".join(lines)))
        if out != expect:
            mfails.append({"input": "".join(lines), "diff": "msvc filter kept %r, expected %r (segments of the file named by the first #line)" % (out, expect)})
    ctx.oracle("msvc_synthetic", len(msynth), mfails)
    if ctx.driver is not None:
        res = ctx.driver.run([{"op": "ppfilter", "kind": "msvc", "fname": "", "lines": ls} for ls, _ in msynth])
        mism = []
        for (ls, _), r in zip(msynth, res):
            e = PP._msvc_filter(io.StringIO("".join(ls)))
            m = "".join(r.get("out", ["<assert>"]))
            if e != m:
                mism.append({"input": {"kind": "msvc", "lines": ls}, "diff": "impl kept %r, model kept %r" % (e[:200], m[:200])})
        ctx.corr("ppfilter[msvc]", len(msynth), mism)


def replay(path):
    def recheck(v):
        return False, "REPRODUCED (include graph / filter): %s\n%s" % (v.get("diff"), v["input"])
    return pcommon.generic_replay(path, recheck)
