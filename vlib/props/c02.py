"""C02 — declarators decode to the C++ type they denote."""
import canon
import gen_cpp as G
from gen_cpp import T
import impl
import pcommon
from cxxheaderparser.simple import parse_string
from cxxheaderparser.errors import CxxParseError

TECHNIQUE = 'Lean 4: interpreter theorems for the bounded trial parse (restores the outer stream, catches its errors) for every client, kernel-decided token sets; declarator round trip decided by correspondence of the parser model and an independent inside-out printer oracle (not a theorem)'
LEAN_TARGET = "CxxModel.Props.C02"
THEOREMS = ["Cxx.C02_bounded_restores", "Cxx.C02_trial_error_caught", "Cxx.C02_type_token_sets", "Cxx.rules_supported", "Cxx.C02_pointer_chain", "Cxx.C02_pointer_level", "Cxx.C02_pointer_ops_compose", "Cxx.cvPtr_chain", "Cxx.C02_fundamental_group", "Cxx.C02_fundamental_single", "Cxx.C02_compound_keywords", "Cxx.C02_plain_qualified_name", "Cxx.C02_type_name", "Cxx.C02_declarator_variable", "Cxx.C02_reference_chain", "Cxx.C02_parameters", "Cxx.C02_array_declarator", "Cxx.C02_cv_type", "Cxx.C02_name_plain", "Cxx.C02_name_fundamental", "Cxx.C02_cv_variable", "Cxx.C02_spec_first_tokens", "Cxx.typeSpecR_cv", "Cxx.toplevel_variable_gen", "Cxx.toplevel_function_gen", "Cxx.C02_prefix_ptr", "Cxx.C02_prefix_ref", "Cxx.C02_declaration_general", "Cxx.toplevel_variable_pre", "Cxx.C02_parameters_general", "Cxx.parameter_gen", "Cxx.C02_array_declaration", "Cxx.toplevel_variable_array_pre", "Cxx.parseField_array", "Cxx.C02_class_cv_loop", "Cxx.C02_class_cv_persists", "Cxx.leadCv_loop"]
ANCHORS = ["parser.py:CxxParser._parse_type", "parser.py:CxxParser._parse_cv_ptr", "parser.py:CxxParser._parse_cv_ptr_or_fn",
           "parser.py:CxxParser._parse_array_type", "parser.py:CxxParser._parse_parameter", "parser.py:CxxParser._parse_parameters",
           "parser.py:CxxParser._parse_pqname", "parser.py:CxxParser._parse_template_specialization", "parser.py:CxxParser._parse_decl",
           "parser.py:CxxParser._parse_field", "parser.py:CxxParser._parse_trailing_return_type", "parser.py:CxxParser._parse_using_typealias",
           "parser.py:CxxParser._consume_balanced_tokens", "parser.py:CxxParser._parse_function", "parser.py:CxxParser._parse_fn_end",
           "parser.py:CxxParser.<attrs>", "types.py:", "lexer.py:"]
RULE = ("type trees: all decorator chains up to depth 3 (quick) / 4 (thorough) over pointer, const pointer, array, function "
        "pointer, lvalue/rvalue reference on two bases, plus random trees to depth 6 with templated/qualified names; each "
        "printed by the independent inside-out printer in 8 contexts; case = (type, context); non-trivial = depth >= 1")
CARRIED_BY = {
    "cv-qualifiers written after a class / enum body (`key S { … } const volatile a , * b ;`): the declarator loop sets exactly the written qualifiers (any number, any order) on the type, and what was set before an earlier declarator is still there for every later one (the implementation qualifies ONE shared Type object in place)": "theorems C02_class_cv_loop, C02_class_cv_persists (Props/C02.lean) over leadCv_loop (Theorems/LeadCv.lean, induction over the qualifiers); the whole statement per declarator: oracle `class_declarators` + correspondence `parse`",
    "array declarators inside FULL declarations: `S prefix x [ size ] ;` (any type specifier, any declarator prefix not ending in a reference) through parse()'s loop is exactly one on_variable whose type is the array of what the prefix denotes, with EXACTLY the written size tokens (absent for `[]`)": "theorems C02_array_declaration (toplevel_variable_array_pre), parseField_array (Theorems/ArrayDecl.lean); Item.arrayVar / Member.arrayField make them pieces of whole sources; non-vacuity: the example `unsigned long * x [ N + 1 ] ;` at the end of Props/C02.lean",
    "parameter lists over ANY type specifier x ANY declarator prefix: `p1 , ... , pn )` with every pi of the form `S prefix name` decodes to the parameters in order, each with its own name and the type ITS prefix denotes over the type ITS specifier denotes (e.g. `const unsigned long * p , volatile a::b & r )`); with toplevel_function_gen this gives whole function declarations (Item.functionFull)": "theorems C02_parameters_general (parseParameters_gen), parameter_gen (Theorems/ParamGen.lean); non-vacuity: the last example of Props/C02.lean",
    "declarator prefixes as a second, independent interface (PrefixSpec, quantified over token copies): pointer chains of any length and pointer chains ending in & / && are instances; `S prefix x ;` for ANY TypeSpecR x ANY PrefixSpec through parse()'s loop is exactly one on_variable with the type the prefix denotes over the type S denotes — e.g. `const unsigned long * const & r ;`": "theorems C02_prefix_ptr, C02_prefix_ref, C02_declaration_general (toplevel_variable_pre) (Theorems/PrefixSpec.lean, DeclPre.lean; Item.variablePre / Member.fieldPre in DeclGenItems.lean); non-vacuity: the second example at the end of Props/C02.lean",
    "decl-specifier sequences as an interface (NameSpecR / TypeSpecR): ANY number of `const` / `volatile` before and after a qualified name of identifiers or a fundamental keyword group is read by _parse_type as that name with exactly the written cv flags (induction over both qualifier lists through the token loop); a declaration `S ptr-ops x ;` (and `S ptr-ops f ( params ) ;`) over ANY such specifier, through _parse_declarations, the recursive core and parse()'s loop, delivers exactly one on_variable (on_function) whose type is the chain over THAT type — e.g. `const unsigned long volatile * const p ;` in any layout": "theorems C02_cv_type (typeSpecR_cv), C02_name_plain, C02_name_fundamental, C02_cv_variable (toplevel_variable_gen), toplevel_function_gen, C02_spec_first_tokens (dispatch facts decided over the regenerated tables) (Theorems/TypeSpec.lean, DeclGen.lean, FnGen.lean, DeclGenItems.lean: Item.variableGen / Item.functionGen / Member.fieldGen make them pieces of whole sources); non-vacuity: the example at the end of Props/C02.lean",
    "reference declarators: any chain of * / const / volatile followed by & or && decodes to the lvalue / rvalue reference to the chain; parameter lists of any length of plain parameters decode to the parameters in order, each with its own name and the type its declarator denotes": "theorems C02_reference_chain (Theorems/RefChain.lean), C02_parameters (Theorems/ParamForm.lean), C02_array_declarator (Theorems/ArrayForm.lean: `[ size ]` gives the array whose size is exactly the written tokens)",
    "fundamental-type keyword groups: after a first keyword of the compound set every following keyword of the set is collected, in order, whatever their number; the type is named by the keywords joined with single blanks": "theorems C02_fundamental_group, C02_fundamental_single, C02_compound_keywords (regenerated set)",
    "qualified names of identifiers of any length decode to exactly the written segments (parse_pqname), and as a type name to that type (parse_type); a declarator `ptr-ops x` after any non-function base type declares x with the chain it denotes": "theorems C02_plain_qualified_name, C02_type_name, C02_declarator_variable",
    "pointer chains: every sequence of `*`, `const`, `volatile` after a type decodes to the chain it denotes, each cv flag on the level it is written after": "theorems C02_pointer_chain (the routine, every stream and parser state), C02_pointer_level, C02_pointer_ops_compose (what the chain denotes)",
    "parse(printDeclarator t n) = (t, n) in every context (full statement)": "NOT a theorem yet: correspondence `parse` + oracle `declarator_roundtrip` (implementation vs independent printer)",
    "type-id-or-value decision never disturbs the outer stream": "theorems C02_bounded_restores, C02_trial_error_caught (interpreter, any trial program)",
    "branching token sets": "theorem C02_type_token_sets on regenerated tables",
}
ASSUMPTIONS = ["supported range WFTy: no member pointers, no arrays in alias position, no `T (&&r)(...)` grouping, no doubled grouping parens (documented parser limits)"]
MODEL_COVERAGE = "_parse_type, _parse_pqname*, _parse_cv_ptr_or_fn, _parse_array_type, _parse_parameter(s), _parse_template_specialization (Parser/Core.lean)"

CONTEXTS = ["variable", "param", "abstract_param", "field", "typedef", "alias", "return", "targ"]


def in_context(t, ctxname):
    """(source, extractor) for type t in a context; None if the context does not apply"""
    is_fn = isinstance(t, T.FunctionType)
    if ctxname == "variable":
        return G.print_declarator(t, "x") + ";", lambda d: (d.namespace.variables[0].type, d.namespace.variables[0].name.segments[-1].name)
    if ctxname == "param":
        if isinstance(t, T.Array) and False:
            return None
        return "void f(" + G.print_declarator(t, "x") + ");", lambda d: (d.namespace.functions[0].parameters[0].type, d.namespace.functions[0].parameters[0].name)
    if ctxname == "abstract_param":
        return "void f(" + G.print_declarator(t, "") + ", int);", lambda d: (d.namespace.functions[0].parameters[0].type, "x")
    if ctxname == "field":
        return "struct S { " + G.print_declarator(t, "x") + "; };", lambda d: (d.namespace.classes[0].fields[0].type, d.namespace.classes[0].fields[0].name)
    if ctxname == "typedef":
        return "typedef " + G.print_declarator(t, "x") + ";", lambda d: (d.namespace.typedefs[0].type, d.namespace.typedefs[0].name)
    if ctxname == "alias":
        if G.contains(t, lambda u: isinstance(u, T.Array)) and isinstance(t, T.Array):
            return None  # arrays in alias position: documented limit
        return "using x = " + G.print_declarator(t, "") + ";", lambda d: (d.namespace.using_alias[0].type, d.namespace.using_alias[0].alias)
    if ctxname == "return":
        if isinstance(t, T.Array):
            return None
        return G.print_declarator(t, "x()") + ";", lambda d: (d.namespace.functions[0].return_type, d.namespace.functions[0].name.segments[-1].name)
    if ctxname == "targ":
        if isinstance(t, T.Array):
            return None
        return "Tmpl<" + G.print_declarator(t, "") + " > x;", lambda d: (d.namespace.variables[0].type.typename.segments[0].specialization.args[0].arg, "x")
    return None


def needs_grouping(t):
    """the type-id needs a grouping parenthesis: pointer/reference directly over function/array"""
    return G.contains(t, lambda u: (isinstance(u, T.Pointer) and isinstance(u.ptr_to, (T.Array, T.FunctionType)))
                      or (isinstance(u, T.Reference) and isinstance(u.ref_to, (T.Array, T.FunctionType)))
                      or (isinstance(u, T.MoveReference) and isinstance(u.moveref_to, (T.Array, T.FunctionType))))


CLASS_DECLS = [("a", []), ("*b", ["ptr"]), ("c[2]", ["arr"]), ("&d", ["ref"]), ("*const e", ["cptr"]), ("**f", ["ptr", "ptr"]),
               ("*g[3]", ["arr", "ptr"]), ("&&h", ["rref"]), ("*volatile *i", ["ptr", "vptr"])]


def class_declarator_cases(rng, n):
    """`key S { body } [cv] d1, d2, …;` — a cv-qualifier written after the closing brace belongs to the type of EVERY declarator
    of the statement (C++ [dcl.type.cv]); variable, typedef and field contexts; the expected chains come from the written text"""
    out = []
    for k in range(n):
        key, body = rng.choice([("struct", "int m;"), ("class", "int m;"), ("union", "int m; char n;"), ("enum", "A, B"), ("enum class", "A, B")])
        cv = rng.choice(["", "const", "volatile", "const volatile", "volatile const"])
        decls = rng.sample(CLASS_DECLS, rng.randint(1, 4))
        c = rng.choice(["variable", "typedef", "field"])
        stmt = "%s S%d { %s } %s %s;" % (key, k, body, cv, ", ".join(d for d, _ in decls))
        if c == "typedef":
            src = "typedef " + stmt
        elif c == "field":
            src = "struct Outer { " + stmt + " };"
        else:
            src = stmt
        out.append((src, c, "S%d" % k, cv, decls))
    return out


def check_class_declarators(src, c, sname, cv, decls):
    d = parse_string(src)
    if c == "variable":
        got = {v.name.segments[-1].name: v.type for v in d.namespace.variables}
    elif c == "typedef":
        got = {t.name: t.type for t in d.namespace.typedefs}
    else:
        got = {f.name: f.type for f in d.namespace.classes[0].fields}
    for text, chain in decls:
        name = text.strip("*&[]0123456789 ").replace("const", "").replace("volatile", "").strip("* ")
        if name not in got:
            return "declarator %r: no entity named %r reported (got %s)" % (text, name, sorted(got))
        t = got[name]
        for step in chain:
            want = {"ptr": T.Pointer, "cptr": T.Pointer, "vptr": T.Pointer, "arr": T.Array, "ref": T.Reference, "rref": T.MoveReference}[step]
            if not isinstance(t, want):
                return "declarator %r: expected %s at this level, got %s" % (text, want.__name__, type(t).__name__)
            if step == "cptr" and not t.const:
                return "declarator %r: `* const` lost its const" % text
            if step == "vptr" and not t.volatile:
                return "declarator %r: `* volatile` lost its volatile" % text
            t = t.ptr_to if want is T.Pointer else t.array_of if want is T.Array else t.ref_to if want is T.Reference else t.moveref_to
        if not isinstance(t, T.Type):
            return "declarator %r: innermost type is %s" % (text, type(t).__name__)
        if getattr(t.typename.segments[-1], "name", None) != sname:
            return "declarator %r: names %r, not %s" % (text, t.typename.segments[-1], sname)
        if t.const != ("const" in cv) or t.volatile != ("volatile" in cv):
            return "declarator %r: base type has const=%s volatile=%s, the text says %r after the closing brace" % (text, t.const, t.volatile, cv)
    return None


def run(ctx):
    rng = ctx.rng("types")
    types = []
    maxd = 3 if ctx.tier == "quick" and not ctx.escalated else 4
    for d in range(0, maxd + 1):
        types += G.exhaustive_types(d)
    tg = G.TypeGen(rng)
    for _ in range(ctx.budget(400, 12000)):
        types.append(tg.gen(rng.randint(0, 6)))
    fails = []
    n = 0
    srcs = []
    per_ctx = {}
    for t in types:
        for c in CONTEXTS:
            ic = in_context(t, c)
            if ic is None:
                continue
            src, ext = ic
            if "()" in src and rng.random() < 0.35:
                # an empty parameter list may be spelled `(void)`; it denotes the same type
                src = src.replace("()", "(void)")
            n += 1
            per_ctx[c] = per_ctx.get(c, 0) + 1
            ctx.count((c, src), nontrivial=G.type_depth(t) >= 1)
            if len(srcs) < 4000:
                srcs.append(src)
            try:
                got_t, got_n = ext(parse_string(src))
            except CxxParseError as e:
                fails.append({"input": src, "context": c, "error": str(e)})
                continue
            except Exception as e:  # noqa
                fails.append({"input": src, "context": c, "error": "extractor: %r" % e})
                continue
            if got_t != t or got_n != "x":
                f = {"input": src, "context": c, "diff": canon.first_diff(impl.to_json(t), impl.to_json(got_t)), "name": got_n}
                if c == "targ" and needs_grouping(t) and isinstance(got_t, T.Value):
                    f["finding"] = "C02-targ-grouping"
                fails.append(f)
    ctx.oracle("declarator_roundtrip", n, fails)
    # flags: vararg, trailing return, pack, msvc convention
    flag_cases = [
        ("void (*x)(int, ...);", lambda d: d.namespace.variables[0].type.ptr_to.vararg is True),
        ("void f(int, ...);", lambda d: d.namespace.functions[0].vararg is True and len(d.namespace.functions[0].parameters) == 1),
        ("auto f(int) -> int*;", lambda d: d.namespace.functions[0].has_trailing_return and isinstance(d.namespace.functions[0].return_type, T.Pointer)),
        ("template <typename... A> void f(A... a);", lambda d: d.namespace.functions[0].parameters[0].param_pack is True),
        ("X<A..., int> v;", lambda d: [a.param_pack for a in d.namespace.variables[0].type.typename.segments[0].specialization.args] == [True, False]),
        ("X<int, A...> v;", lambda d: [a.param_pack for a in d.namespace.variables[0].type.typename.segments[0].specialization.args] == [False, True]),
        ("void (__stdcall *x)(int);", lambda d: d.namespace.variables[0].type.ptr_to.msvc_convention == "__stdcall"),
        ("int __cdecl f(int);", lambda d: d.namespace.functions[0].msvc_convention == "__cdecl"),
        ("X<int&(int)> v;", lambda d: isinstance(d.namespace.variables[0].type.typename.segments[0].specialization.args[0].arg, T.FunctionType)),
        ("X<int*, 3 + 4, sizeof...(T)> v;", lambda d: [type(a.arg).__name__ for a in d.namespace.variables[0].type.typename.segments[0].specialization.args] == ["Pointer", "Value", "Value"]),
        ("std::function<auto(int) -> T&> v;", lambda d: d.namespace.variables[0].type.typename.segments[1].specialization.args[0].arg.has_trailing_return),
    ]
    ffails = []
    for src, pred in flag_cases:
        try:
            if not pred(parse_string(src)):
                ffails.append({"input": src, "diff": "flag on the wrong node / missing"})
        except Exception as e:  # noqa
            ffails.append({"input": src, "error": repr(e)})
    ctx.oracle("flags", len(flag_cases), ffails)
    cfails = []
    ccases = class_declarator_cases(ctx.rng("classdecl"), ctx.budget(150, 3000))
    for src, c, sname, cv, decls in ccases:
        try:
            msg = check_class_declarators(src, c, sname, cv, decls)
        except CxxParseError as e:
            msg = "rejected: %s" % e
        except Exception as e:  # noqa
            msg = "extractor: %r" % e
        if msg:
            cfails.append({"input": src, "context": c, "diff": msg})
    ctx.oracle("class_declarators", len(ccases), cfails)
    srcs += [c[0] for c in ccases[:60]]
    ctx.extra["per_context"] = per_ctx
    ctx.sample({"type": srcs[len(srcs) // 2] if srcs else None})
    pcommon.parse_corr(ctx, "parse", srcs[:: max(1, len(srcs) // ctx.budget(600, 4000))] + [f[0] for f in flag_cases], proj=pcommon.proj_structure)


def replay(path):
    def recheck(v):
        return False, "REPRODUCED: declarator `%s` (%s) does not decode to the printed type: %s" % (v["input"], v.get("context"), v.get("diff") or v.get("error"))
    return pcommon.generic_replay(path, recheck)
