"""C01 — namespace-scope declarations are extracted faithfully."""
import canon
import gen_prog
import impl
import pcommon
from cxxheaderparser import types as T
from cxxheaderparser.simple import parse_string
from cxxheaderparser.errors import CxxParseError

TECHNIQUE = 'Lean 4: generic stream well-formedness theorem instantiated at the parser model, fold laws, kernel-decided dispatch tables regenerated from parse(); the per-form round trip is decided by the differential correspondence of the full parser model and an AST-first oracle (not a theorem)'
LEAN_TARGET = "CxxModel.Props.C01"
THEOREMS = ["Cxx.C01_dispatch", "Cxx.C01_keep_doxygen", "Cxx.C01_stream_well_formed", "Cxx.C01_fold_cons",
            "Cxx.C01_fold_append", "Cxx.dispatch_table_eq", "Cxx.rules_supported", "Cxx.C01_each_payload_stored_once", "Cxx.C01_one_callback", "Cxx.foldEvents_total", "Cxx.C01_enumerator_list", "Cxx.C01_enumerator_list_trailing_comma", "Cxx.enumList_last", "Cxx.enum_prefix", "Cxx.C01_using_namespace", "Cxx.C01_namespace_alias", "Cxx.C01_using_namespace_decl", "Cxx.C01_toplevel_using_namespace", "Cxx.C01_toplevel_using_declaration", "Cxx.C01_toplevel_variable", "Cxx.C01_declaration_statement", "Cxx.C01_toplevel_variables", "Cxx.C01_toplevel_typedef", "Cxx.C01_toplevel_forward_decl", "Cxx.C01_toplevel_using_alias", "Cxx.C01_toplevel_enum", "Cxx.C01_toplevel_function", "Cxx.C01_toplevel_function_params",
    "Cxx.C01_function_general", "Cxx.toplevel_function_gen", "Cxx.C01_typedef_general", "Cxx.C01_using_alias_general", "Cxx.typeSpecS_cv", "Cxx.C01_declaration_statement_general", "Cxx.declarators_variables_pre", "Cxx.C01_function_definition", "Cxx.parseFnEnd_body",
    "Cxx.C01_whole_source",
    "Cxx.C01_sequence",
    "Cxx.C01_variable_sequence",
]
ANCHORS = ["parser.py:", "simple.py:", "types.py:", "parserstate.py:", "lexer.py:"]
RULE = ("AST-first programs: random sequences/nestings of the supported namespace-scope forms (variables with all declarator "
        "shapes and initialisers, functions, typedefs, using x3, enums, forward declarations, namespaces incl. nested/inline/"
        "anonymous/re-opened/alias, extern blocks and linkage, template heads, explicit instantiations, #include/#pragma, "
        "interleaved decorations); expected ParsedData built by the generator; distinct = distinct program text; "
        "non-trivial = at least 3 declarations")
CARRIED_BY = {
    'WHOLE SOURCES through the complete run CxxParser(...).parse() (constructor, on_parse_start, the loop to the end of input): for a visitor that neither raises nor skips, on ANY source whose significant tokens form an `Item` — any number of declarations of the proven forms (variables incl. several declarators and initialisers, typedefs, forward declarations, using x3, enums, functions with parameters, stray `;`) in any order, inside namespaces, extern blocks and classes nested to ANY depth, with any layout and comments — parse() returns normally and the callbacks are on_parse_start followed by exactly one group per declaration, in source order, each in the scope it was written in': 'theorems C01_whole_source (parse_source), C01_sequence (a sequence of items is an item: seq_sound), C01_variable_sequence; the composition framework Theorems/Items.lean (Item, Ran, IterChain, mainLoop_chain, toplevel_eof), the forms as items Theorems/ItemKinds.lean (Item.variable/variables/variableInit/typedef/forwardDecl/usingAlias/usingNamespace/usingDeclaration/enum/function/functionParams/semicolon/ns/externBlock), classes Theorems/Members.lean + MemberKinds.lean (Item.cls), Theorems/WholeParse.lean; non-vacuity: the example after C01_variable_sequence builds the item for `namespace a { T x; ; class C { T f; public: T g; }; }` on a concrete stream',
    "declarations through the whole parse loop AND the recursive type/name core, for every stream and parser state, any length, any layout between the tokens: `T ptr-ops x ;` (T a qualified name of identifiers, ptr-ops empty or any sequence of * / const / volatile starting with *) delivers exactly ONE on_variable with the name x, the type the declarator denotes, no value, the doc text before or else behind the declaration; `using n1::…::nk ;` exactly ONE on_using_declaration with the written name, the access in force and the doc text; a statement with ANY NUMBER of such declarators delivers one on_variable per declarator, in order, each with its own name and type": "theorems C01_toplevel_variable, C01_toplevel_using_declaration, C01_declaration_statement, C01_toplevel_variables, C01_toplevel_typedef (`typedef T ptr-ops x ;`: exactly one on_typedef), C01_toplevel_forward_decl (`class/struct/union a::…::N ;`: exactly one on_forward_decl), C01_toplevel_using_alias (`using A = T ptr-ops ;`: exactly one on_using_alias with the type the abstract declarator denotes), C01_toplevel_enum (`enum [class|struct] N { items } ;`: exactly one on_enum with one enumerator per item and exactly the written value tokens), C01_toplevel_function / C01_toplevel_function_params (`T ptr-ops f ( p1 , … , pn ) ;`, any number of plain parameters: exactly one on_function with one parameter per item, each with its own name and type), C14_variable_initializer (`= value`: exactly the written tokens) (Theorems/VarDecl.lean, VarDecls.lean, TypeName.lean, PqName.lean, FieldForm.lean, UsingDeclForm.lean, TopLevel.lean)",
    "a whole declaration through one iteration of parse()'s own loop (regenerated rules, dispatch table, keep set; active visitor that does not raise here): `using namespace n1::…::nk ;` of any length, after any comments and blank lines, delivers exactly ONE callback on_using_namespace [n1,…,nk] for the innermost open block, consumes exactly the declaration, changes nothing else but the block's recorded location, hands no doc text on": "theorem C01_toplevel_using_namespace (Theorems/TopLevel.lean)",
    "a whole declaration form: `namespace A = [::] n1::…::nk ;` of any length is exactly `read the declaration, then one on_namespace_alias (A, [n1,…,nk])` (or the documented errors)": "theorem C01_namespace_alias (Theorems/NsForm.lean)",
    "a whole declaration form: `using namespace n1::…::nk` of any length is exactly `read the name, deliver one on_using_namespace [n1,…,nk]`": "theorems C01_using_namespace (Theorems/UsingDir.lean), C01_using_namespace_decl (the whole `_parse_using` call, outside a class: location recorded, one callback, `;` required)",
    "one declaration form end to end against the real token stream: every enumerator list of any length (values without top-level `,`/`}`, optional trailing comma, any comments / blank lines / doc blocks between tokens) yields one enumerator per item, in order, with the written name and exactly the written value tokens": "theorems C01_enumerator_list, C01_enumerator_list_trailing_comma (Theorems/EnumList.lean)",
    "each payload is stored exactly once: every item callback adds one object to the result, block callbacks none": "theorems C01_one_callback, C01_each_payload_stored_once (every stream that folds without error)",
    "parse_string(print ds) = expected ds (full statement)": "NOT a theorem yet: correspondence `parse` (full parser model vs parser.py, complete event streams) + oracle `ast_first` (implementation vs generator's expectation)",
    "objects land in the scope of the innermost open block; result is the fold of the stream": "theorems C01_stream_well_formed (instance of C04_well_nested), C01_fold_append",
    "main-loop dispatch and doc carrying are the modelled ones": "theorems C01_dispatch, C01_keep_doxygen decided on tables regenerated from parse()",
    "every reported object conforms to the published field types": "oracle `typing` (implementation objects checked against dataclass type hints)",
}
ASSUMPTIONS = ["parser model is a hand transcription of parser.py tied by the correspondence check",
               "the generator's printer/expectation is the reference semantics of the supported forms"]
MODEL_COVERAGE = "all of parser.py, lexer.py (PLY rules regenerated), simple.py fold"


def check_types(obj, path="data"):
    """every dataclass field value conforms to its declared type hint (shallow structural check)"""
    import dataclasses, typing
    bad = []
    if dataclasses.is_dataclass(obj):
        hints = typing.get_type_hints(type(obj))
        for f in dataclasses.fields(obj):
            v = getattr(obj, f.name)
            if not conforms(v, hints[f.name]):
                bad.append("%s.%s: %r does not conform to %s" % (path, f.name, type(v).__name__, hints[f.name]))
            bad.extend(check_types(v, path + "." + f.name))
    elif isinstance(obj, list):
        for i, x in enumerate(obj):
            bad.extend(check_types(x, "%s[%d]" % (path, i)))
    elif isinstance(obj, dict):
        for k, x in obj.items():
            bad.extend(check_types(x, "%s[%r]" % (path, k)))
    return bad


def conforms(v, hint):
    import typing
    origin = typing.get_origin(hint)
    if hint is typing.Any:
        return True
    if origin is typing.Union:
        return any(conforms(v, a) for a in typing.get_args(hint))
    if origin in (list, typing.List):
        return isinstance(v, list) and all(conforms(x, typing.get_args(hint)[0]) for x in v[:50])
    if origin in (dict, typing.Dict):
        return isinstance(v, dict)
    if hint is type(None):
        return v is None
    if isinstance(hint, type):
        if hint is bool:
            return isinstance(v, bool)
        if hint is int:
            return isinstance(v, int) and not isinstance(v, bool)
        return isinstance(v, hint)
    return True


def seed_mod(ctx):
    return ctx.seed % 3


def run(ctx):
    rng = ctx.rng("prog")
    n = ctx.budget(300, 20000)
    progs = []
    forms = {}
    for _ in range(n):
        text, exp, f = gen_prog.gen_program(rng, budget=rng.choice([3, 6, 10]))
        progs.append((text, exp))
        for k, v in f.items():
            forms[k] = forms.get(k, 0) + v
    fails = []
    tfails = []
    for text, exp in progs:
        ctx.count(text, nontrivial=text.count(";") >= 3)
        try:
            got = parse_string(text)
        except CxxParseError as e:
            fails.append({"input": text, "error": str(e)})
            continue
        if got != exp:
            fails.append({"input": text, "diff": canon.first_diff(impl.to_json(exp), impl.to_json(got))})
        else:
            bt = check_types(got)
            if bt:
                tfails.append({"input": text, "diff": bt[0]})
    ctx.oracle("ast_first", len(progs), fails)
    ctx.oracle("typing", len(progs), tfails)
    ctx.extra["forms_generated"] = forms
    # placeholder (`auto`) parameters: every parameter is reported with the qualifiers and declarator operators written
    # on IT, whatever its siblings in the same parameter list, the same header or an earlier parse look like
    pfails = []
    np_ = 0
    A = T.Type(T.PQName([T.AutoSpecifier()]))

    def au(c=False, v=False):
        return T.Type(T.PQName([T.AutoSpecifier()]), const=c, volatile=v)
    PFORMS = [("auto %s", au()), ("auto const %s", au(c=True)), ("auto const& %s", T.Reference(au(c=True))), ("auto volatile* %s", T.Pointer(au(v=True))),
              ("const auto %s", au(c=True)), ("auto& %s", T.Reference(au())), ("auto* %s", T.Pointer(au())), ("auto&& %s", T.MoveReference(au())),
              ("auto const volatile %s", au(c=True, v=True)), ("auto* const %s", T.Pointer(au(), const=True))]
    for i, (f1, t1) in enumerate(PFORMS):
        for j, (f2, t2) in enumerate(PFORMS):
            for src, getp in (("void f(%s, %s);" % (f1 % "a", f2 % "b"), lambda d: d.namespace.functions[0].parameters),
                              ("void f(%s);\nvoid g(%s);" % (f1 % "a", f2 % "b"), lambda d: [d.namespace.functions[0].parameters[0], d.namespace.functions[1].parameters[0]])):
                np_ += 1
                try:
                    ps = getp(parse_string(src))
                    got = [(q.name, q.type) for q in ps]
                    if got != [("a", t1), ("b", t2)]:
                        pfails.append({"input": src, "diff": "parameters reported as %s" % [(n_, ty.format()) for n_, ty in got]})
                except Exception as e:  # noqa
                    pfails.append({"input": src, "diff": "rejected / not found: %r" % e})
    for src in ("template <class T> struct Box { Box(T); };\ntemplate <class T> Box(T) -> Box<T>;", "template <auto N> struct PN {};\ntemplate <auto const M> struct PM {};\ntemplate <auto K> struct PK {};"):
        np_ += 1
        try:
            d = parse_string(src)
            if src.startswith("template <auto"):
                flags = [c.class_decl.template.params[0].type.const for c in d.namespace.classes]
                if flags != [False, True, False]:
                    pfails.append({"input": src, "diff": "const flags of the non-type parameters: %s" % flags})
        except CxxParseError as e:
            pfails.append({"input": src, "diff": "valid declarations rejected: %s" % e})
    ctx.oracle("placeholder_params", np_, pfails)
    # types as written: the declarator generator's type trees in every namespace-scope position
    import importlib
    C02 = importlib.import_module("props.c02")
    import gen_cpp as G
    wfails = []
    nw = 0
    wtypes = []
    for dpt in range(0, 3):
        wtypes += G.exhaustive_types(dpt)
    tg = G.TypeGen(rng)
    for _ in range(ctx.budget(150, 6000)):
        wtypes.append(tg.gen(rng.randint(0, 6)))
    if not (ctx.tier == "thorough" or ctx.escalated):
        wtypes = wtypes[:: 3]
    for t in wtypes:
        for c in ("variable", "param", "typedef", "alias", "return", "targ"):
            ic = C02.in_context(t, c)
            if ic is None or (c == "targ" and C02.needs_grouping(t)):
                continue
            src, ext = ic
            nw += 1
            try:
                got_t, got_n = ext(parse_string(src))
            except Exception as e:  # noqa
                wfails.append({"input": src, "context": c, "diff": "rejected / not found: %r" % e})
                continue
            if got_t != t or got_n != "x":
                wfails.append({"input": src, "context": c, "diff": str(canon.first_diff(impl.to_json(t), impl.to_json(got_t)))[:300]})
    ctx.oracle("types_as_written", nw, wfails)
    # function types as template arguments: `R (P...)` written inside `<...>` is reported as the function type whose return
    # type and parameters are what the plain declaration `R fn(P...);` reports, in every position a templated name can stand
    ffails = []
    nf = 0
    rets = ["int", "int&", "const std::string&", "T&&", "void", "int*", "std::vector<int>&", "const char*"]
    plists = ["", "int", "int, char", "void (*)(int)", "char (&buf)[4]", "int (*)[3]", "const T&, U&&", "int (*cb)(char), int n", "std::pair<int, T>&"]
    sigs = [(r, pl) for r in rets for pl in plists]
    if not (ctx.tier == "thorough" or ctx.escalated):
        sigs = [sg for k, sg in enumerate(sigs) if k % 3 == seed_mod(ctx)]
    for r, pl in sigs:
        try:
            ref = parse_string("%s fn(%s);" % (r, pl)).namespace.functions[0]
        except CxxParseError:
            continue
        for src, getarg in (
            ("std::function<%s(%s)> v;", lambda d: d.namespace.variables[0].type.typename.segments[-1].specialization.args[0].arg),
            ("Outer<int, Sig<%s(%s)>> v;", lambda d: d.namespace.variables[0].type.typename.segments[-1].specialization.args[1].arg.typename.segments[-1].specialization.args[0].arg),
            ("void take(std::function<%s(%s)> cb);", lambda d: d.namespace.functions[0].parameters[0].type.typename.segments[-1].specialization.args[0].arg),
            ("using A = Sig<%s(%s)>;", lambda d: d.namespace.using_alias[0].type.typename.segments[-1].specialization.args[0].arg),
            ("typedef ns::Sig<%s(%s), 3> TD;", lambda d: d.namespace.typedefs[0].type.typename.segments[-1].specialization.args[0].arg),
        ):
            text = src % (r, pl)
            nf += 1
            try:
                arg = getarg(parse_string(text))
            except Exception as e:  # noqa
                ffails.append({"input": text, "diff": "rejected / not found: %r" % e})
                continue
            if not isinstance(arg, T.FunctionType) or arg.return_type != ref.return_type or arg.parameters != ref.parameters:
                ffails.append({"input": text, "diff": "template argument reported as %s, the plain declaration `%s fn(%s);` reports %s (%s)" % (
                    type(arg).__name__ + " " + (arg.format() if hasattr(arg, "format") else ""), r, pl, ref.return_type.format(), ", ".join(q.format() for q in ref.parameters))})
    ctx.oracle("function_type_arguments", nf, ffails)
    # include and pragma directives are reported as written, whatever the header is called
    ifails = []
    ni = 0
    for name in ('"gen//config.h"', "<boost//version.hpp>", '"a/*b.h"', "<x/*y*/z.h>", '"dir with blank/h.h"', "<a..b/../c.h>", '"quote\'s.h"', "<u8/\u00e4.h>",
                 '"back\\slash.h"', "<sys/types.h>", '"a;b.h"', '"#hash.h"', "<a<b>.h>"):
        for form in ("#include %s\nint after;\n", "namespace n {\n#include %s\nint v;\n}\n", "int before;\n#  include %s\n", "# include\t%s\nstruct S {};\n"):
            src = form % name
            ni += 1
            try:
                d = parse_string(src)
                got = [i.filename for i in d.includes]
                if got != [name]:
                    ifails.append({"input": src, "diff": "include reported as %r, written %r" % (got, name)})
                elif "after" in src and [v.name.segments[-1].name for v in d.namespace.variables] != ["after"]:
                    ifails.append({"input": src, "diff": "the declaration after the include is missing"})
            except CxxParseError as e:
                ifails.append({"input": src, "diff": "rejected: %s" % e})
    for content in ("once", "omp parallel for", "warning(disable : 4996)", "GCC diagnostic ignored \"-Wall\"", "pack(push, 1)"):
        src = "#pragma %s\nint after;\n" % content
        ni += 1
        try:
            d = parse_string(src)
            got = ["".join(t.value for t in p.content.tokens) for p in d.pragmas]
            want = content.replace(" ", "")
            if [g.replace(" ", "") for g in got] != [want]:
                ifails.append({"input": src, "diff": "pragma reported as %r" % got})
        except CxxParseError as e:
            ifails.append({"input": src, "diff": "rejected: %s" % e})
    ctx.oracle("directives_as_written", ni, ifails)
    ctx.sample({"program": progs[0][0]})
    # correspondence: model vs implementation
    texts = pcommon.corpus() + [p[0] for p in progs[: ctx.budget(150, 5000)]] + pcommon.mutated_corpus(ctx, ctx.budget(300, 8000))
    pcommon.parse_corr(ctx, "parse", texts, proj=pcommon.proj_structure)
    # the fold (simple API): model's parse_string vs implementation's
    if ctx.driver is not None:
        sub = [p[0] for p in progs[: ctx.budget(150, 5000)]] + pcommon.corpus()
        res = ctx.driver.run([{"op": "simple", "text": t, "filename": "f.h"} for t in sub])
        mism = []
        skipped = 0
        for t, r in zip(sub, res):
            if canon.is_model_limit(r):
                skipped += 1
                continue
            try:
                e = {"k": "ok", "data": pcommon.strip_keys(impl.to_json(parse_string(t, filename="f.h")), {"doxygen"})}
            except CxxParseError:
                e = {"k": "error", "data": None}
            m = {"k": r["result"]["k"], "data": pcommon.strip_keys(r["data"], {"doxygen"})}
            if e != m:
                mism.append({"input": t, "diff": canon.first_diff(e, m)})
        ctx.corr("simple(fold)", len(sub), mism, skipped)


def replay(path):
    def recheck(v):
        try:
            parse_string(v["input"])
        except CxxParseError as e:
            return False, "REPRODUCED: valid generated program rejected: %s\n%s" % (e, v["input"])
        return False, "REPRODUCED (see diff): %s\n%s" % (v.get("diff"), v["input"])
    return pcommon.generic_replay(path, recheck)
