"""C11 — documentation comments attach to the declaration they adjoin, and only to it."""
import dataclasses
import re

import pcommon
from cxxheaderparser import types as T
from cxxheaderparser.errors import CxxParseError
from cxxheaderparser.simple import parse_string

TECHNIQUE = 'Lean 4: theorems on the two doc-comment scans (which comment tokens are returned/removed, for every buffer), non-documentation comments give no text, kernel-decided keep set; attachment per declaration kind decided by correspondence and a documented-program oracle (not a theorem)'
LEAN_TARGET = "CxxModel.Props.C11"
THEOREMS = ["Cxx.C11_doxScan_partition", "Cxx.C11_doxScan_comments_after_last_newline", "Cxx.C11_doxAfter_partition", "Cxx.C11_extract_none_without_doc", "Cxx.C11_extract_lines_append",
            "Cxx.C11_keep_doxygen", "Cxx.keep_doxygen_eq", "Cxx.C11_get_doxygen_neutral", "Cxx.C11_doc_scans_preserve_tokens", "Cxx.getDoxygen_next", "Cxx.getDoxygen_ok", "Cxx.C11_variable_doc"]
ANCHORS = ["lexer.py:LexerTokenStream", "lexer.py:TokenStream", "lexer.py:<module>", "parser.py:CxxParser.parse", "parser.py:CxxParser._parse_enumerator_list",
           "parser.py:CxxParser._parse_field", "parser.py:CxxParser._parse_declarations", "parser.py:CxxParser._parse_decl", "parser.py:CxxParser._parse_function",
           "parser.py:CxxParser._parse_namespace", "parser.py:CxxParser._parse_class_decl", "parser.py:CxxParser._parse_enum_decl", "parser.py:CxxParser._parse_using",
           "parser.py:CxxParser._parse_friend_decl", "parser.py:CxxParser._maybe_parse_class_enum_decl", "parser.py:CxxParser._parse_template"]
RULE = ("programs in which every declaration of every documentable kind (variables incl. multi-declarator, functions, forward "
        "declarations, aliases, typedef-less using, enums and enumerators, classes, fields, methods, friends, namespaces) "
        "independently gets a uniquely worded doc block above (5 styles), a detached block, a trailing doc comment (3 styles), a "
        "plain comment above or trailing, or nothing; dangling blocks before access specifiers and closing braces; expected "
        "attachment from the generator's knowledge; non-trivial = program with at least 3 documented declarations")
CARRIED_BY = {
    "attachment for one declaration kind end to end: through one iteration of the parse loop a variable declaration `T ptr-ops x ;` gets exactly the doc text found before it when there is one, otherwise what the trailing scan finds; it is the only callback of the iteration, and NO doc text is handed to the next declaration": "theorem C11_variable_doc (Theorems/TopLevel.lean, VarDecl.lean, FieldForm.lean)",
    "looking for documentation never changes what the parser reads: after get_doxygen() the next token and the stream state after it are exactly as before; both scans preserve the sequence of significant tokens": "theorems C11_get_doxygen_neutral, C11_doc_scans_preserve_tokens (over the regenerated rules; uses the lexer progress theorem)",
    "which comments a get_doxygen scan returns (those after the last NEWLINE token before the next significant token); nothing is pushed back": "theorems C11_doxScan_partition, C11_doxScan_comments_after_last_newline",
    "the trailing scan only removes comment tokens of the current line": "theorem C11_doxAfter_partition",
    "non-documentation comments contribute no text; every doc comment of a block contributes its lines, in order": "theorems C11_extract_none_without_doc, C11_extract_lines_append",
    "hand-over in the main loop (consumed by the next item unless it is an attribute)": "theorem C11_keep_doxygen (regenerated set) + correspondence `parse[doxygen]`",
    "attachment per declaration kind": "correspondence `parse[doxygen]` + oracle `attachment` (not proof)",
}
ASSUMPTIONS = ["DocTidy: LF line ends, no blanks after a block doc comment, no plain comment between a declaration and its line end "
               "followed by a continuation doc line (known findings C11-*)"]
MODEL_COVERAGE = "get_doxygen / get_doxygen_after / _extract_comments (TokStream.lean), main-loop hand-over (Parser/Decl.lean)"

ABOVE_STYLES = [
    lambda w: ("/// %s\n" % w, "/// %s" % w),
    lambda w: ("//! %s\n" % w, "//! %s" % w),
    lambda w: ("/** %s */\n" % w, "/** %s */" % w),
    lambda w: ("/*! %s */\n" % w, "/*! %s */" % w),
    lambda w: ("/// %s\n/// more %s\n" % (w, w), "/// %s\n/// more %s" % (w, w)),
    lambda w: ("/**\n * %s\n * line2\n */\n" % w, "/**\n* %s\n* line2\n*/" % w),
    lambda w: ("/// %s\n/** more %s */\n" % (w, w), "/// %s\n/** more %s */" % (w, w)),
    lambda w: ("/** %s */\n/*! more %s */\n//! end %s\n" % (w, w, w), "/** %s */\n/*! more %s */\n//! end %s" % (w, w, w)),
]
TRAIL_STYLES = [
    lambda w: (" ///< %s" % w, "///< %s" % w),
    lambda w: (" //!< %s" % w, "//!< %s" % w),
    lambda w: (" /**< %s */" % w, "/**< %s */" % w),
]


class Gen:
    """Writes a program and records, per declaration name, the doxygen text the property assigns to it.
    `tidy` programs avoid the shapes listed as known findings; see `finding_cases` for those."""

    def __init__(self, rng):
        self.rng = rng
        self.n = 0
        self.expect = {}  # declaration name -> expected doxygen (None = none)

    def word(self):
        self.n += 1
        return "doc%d" % self.n

    def name(self, p):
        self.n += 1
        return "%s%d" % (p, self.n)

    def above(self, indent):
        a, e = self.rng.choice(ABOVE_STYLES)(self.word())
        return "".join(indent + l + "\n" for l in a.rstrip("\n").split("\n")), e

    def doc(self, name, trailing_ok, indent=""):
        """(text above, text trailing incl. what must follow the line) and the expected doxygen of `name`"""
        r = self.rng
        k = r.random()
        above = ""
        trail = ""
        exp = None
        if k < 0.3:
            above, exp = self.above(indent)
        elif k < 0.4:
            above, _ = self.above(indent)
            above += r.choice(["\n", indent + "\n", "\n\n"])  # detached by a blank line
        elif k < 0.58:
            t, e = r.choice(TRAIL_STYLES)(self.word())
            trail = t
            if trailing_ok:
                exp = e
                if r.random() < 0.3:
                    # lines that directly continue a trailing comment belong to it
                    c = "///< cont %s" % self.word()
                    trail += "\n" + indent + "    " + c
                    exp = e + "\n" + c if e.startswith("//") else None
                    if exp is None:
                        # block comment followed by a line comment: both kept in order
                        exp = e + "\n" + c
            trail += "\n"  # the blank line that ends the trailing block
        elif k < 0.66:
            above = indent + "// plain %s\n" % self.word()
        elif k < 0.72:
            trail = " // plain %s" % self.word() + r.choice(["", "\n"])
        elif k < 0.77 and trailing_ok:
            # the block above wins over a trailing comment
            above, exp = self.above(indent)
            t, _ = r.choice(TRAIL_STYLES)(self.word())
            trail = t + "\n"
        elif k < 0.82:
            # a plain comment between the doc block and the declaration does not detach it
            above, exp = self.above(indent)
            above += indent + "// plain %s\n" % self.word()
        self.expect[name] = exp
        return above, trail

    def dangling(self, indent):
        """a doc block that belongs to nothing"""
        return indent + "/// dangling %s\n" % self.word()

    def items(self, depth=0, in_class=False, indent=""):
        r = self.rng
        out = []
        for _ in range(r.randint(1, 5)):
            k = r.random()
            if k < 0.22:
                nm = self.name("v")
                a, t = self.doc(nm, True, indent)
                init = r.choice(["", " = 1", "[3]", "{2}"]) if not in_class else r.choice(["", " = 1", "[3]", " : 3"])
                if r.random() < 0.25 and not (a and t):
                    nm2 = self.name("w")
                    self.expect[nm2] = None  # later declarators never get the text
                    if "// plain" in t and not t.endswith("\n"):
                        t += "\n"  # known finding C11-later-declarator: the scan for the later declarator runs on
                    d2 = r.choice(["*%s", "*%s", "%s{2}", "%s = {1, 2}", "%s[2] = {1}", "%s = (3)"]) if not in_class else r.choice(["*%s", "%s{2}", "%s = {1, 2}", "%s : 2"])
                    out.append(a + indent + "int %s%s, %s;%s\n" % (nm, init, d2 % nm2, t))
                else:
                    out.append(a + indent + "int %s%s;%s\n" % (nm, init, t))
            elif k < 0.36:
                nm = self.name("f")
                a, t = self.doc(nm, False, indent)
                pre = r.choice(["", "", "[[nodiscard]] ", "__attribute__((x)) ", "inline ", "static ", "template <typename T> ", "template <typename T>\n" + indent])
                if not in_class and r.random() < 0.1:
                    pre = 'extern "C" '
                body = r.choice([";", ";", " {}", " { return; }"])
                out.append(a + indent + "%svoid %s(int p)%s%s\n" % (pre, nm, body, t))
            elif k < 0.42:
                nm = self.name("A")
                a, t = self.doc(nm, False, indent)
                out.append(a + indent + "using %s = int;%s\n" % (nm, t))
            elif k < 0.46:
                nm = self.name("u")
                a, t = self.doc(nm, False, indent)
                out.append(a + indent + "using Base::%s;%s\n" % (nm, t))
            elif k < 0.54:
                nm = self.name("E")
                a, t = self.doc(nm, False, indent)
                vals = []
                nvals = r.randint(1, 3)
                for i in range(nvals):
                    vn = self.name("k")
                    va, vt = self.doc(vn, True, indent + "  ")
                    comma = "," if i < nvals - 1 or r.random() < 0.5 else ""
                    vals.append(va + indent + "  %s%s%s%s\n" % (vn, r.choice(["", " = 3", " = int{1}", " = (1 + 2)", " = T{}.v", " = sizeof(S[2])", " = f({1, 2})"]), comma, vt))
                tail = self.dangling(indent + "  ") if r.random() < 0.2 and comma else ""
                out.append(a + indent + "enum %s%s {\n%s%s%s};%s\n" % (r.choice(["", "class "]), nm, "".join(vals), tail, indent, t))
            elif k < 0.6:
                nm = self.name("F")
                a, t = self.doc(nm, False, indent)
                out.append(a + indent + "%s %s;%s\n" % (r.choice(["struct", "class", "enum class"]), nm, t))
            elif k < 0.62 and in_class:
                # an anonymous union / struct member: a doc block above it belongs to the anonymous type and to nothing else
                # (the unnamed member the parser reports for it has no documentation of its own)
                nm = self.name("an")
                a, _t = self.doc(nm, False, indent)
                del self.expect[nm]
                inner = self.name("m")
                self.expect[inner] = None
                out.append(a + indent + "%s {\n%s  int %s;\n%s};\n" % (r.choice(["union", "struct"]), indent, inner, indent))
            elif k < 0.64 and in_class:
                nm = self.name("G")
                a, t = self.doc(nm, False, indent)
                out.append(a + indent + r.choice(["friend class %s;", "friend void %s();"]) % nm + t + "\n")
            elif k < 0.76 and depth < 2:
                nm = self.name("C")
                a, t = self.doc(nm, False, indent)
                body = self.items(depth + 1, True, indent + "  ")
                spec = ""
                if r.random() < 0.4:
                    # a doc block before an access specifier belongs to nothing
                    spec = self.dangling(indent + "  ") + indent + "  " + r.choice(["public:\n", "private:\n", "protected:\n"])
                tail = self.dangling(indent + "  ") if r.random() < 0.3 else ""
                pre = r.choice(["", "", "template <typename T> ", "template <typename T>\n" + indent])
                out.append(a + indent + "%sstruct %s {\n%s%s%s%s};%s\n" % (pre, nm, spec, "".join(body), tail, indent, t))
            elif k < 0.86 and depth < 2 and not in_class:
                nm = self.name("N")
                a, t = self.doc(nm, False, indent)
                body = self.items(depth + 1, False, indent + "  ")
                tail = self.dangling(indent + "  ") if r.random() < 0.3 else ""
                out.append(a + indent + "%snamespace %s {\n%s%s%s}%s\n" % (r.choice(["", "inline "]), nm, "".join(body), tail, indent, t))
            elif k < 0.94:
                # items that carry no documentation: a block above them belongs to nothing and must not leak onwards
                d = self.dangling(indent) if r.random() < 0.6 else ""
                if in_class:
                    it = r.choice([";", "static_assert(1, \"x\");", "public:", "using Base::Base;"])
                else:
                    it = r.choice([";", "static_assert(1, \"x\");", "using namespace std;", "#pragma once", "namespace al = other;",
                                   "extern \"C\" {\n" + indent + "}"])
                out.append(d + indent + it + "\n")
            else:
                out.append("\n")
        return out


def tidy(text):
    """a plain trailing comment directly followed by a documentation-comment line is the known finding
    C11-plain-then-continuation: keep the generated programs clear of it with a blank line"""
    lines = text.split("\n")
    out = []
    for i, l in enumerate(lines):
        out.append(l)
        if "// plain" in l and not l.lstrip().startswith("//") and i + 1 < len(lines):
            if lines[i + 1].lstrip().startswith(("///", "//!", "/**", "/*!")):
                out.append("")
    return "\n".join(out)


def collect_dox(obj, out):
    """name -> doxygen for every documented kind in a ParsedData"""
    if dataclasses.is_dataclass(obj):
        nm = None
        if isinstance(obj, (T.Variable,)):
            nm = obj.name.segments[-1].name
        elif isinstance(obj, T.Function):
            nm = obj.name.segments[-1].name
        elif isinstance(obj, T.Field):
            nm = obj.name
        elif isinstance(obj, T.UsingAlias):
            nm = obj.alias
        elif isinstance(obj, T.EnumDecl):
            nm = obj.typename.segments[-1].name
        elif isinstance(obj, T.Enumerator):
            nm = obj.name
        elif isinstance(obj, T.ForwardDecl):
            nm = obj.typename.segments[-1].name
        elif isinstance(obj, T.ClassDecl):
            nm = getattr(obj.typename.segments[-1], "name", None)
        elif isinstance(obj, T.UsingDecl):
            nm = obj.typename.segments[-1].name
        elif isinstance(obj, T.Concept):
            nm = obj.name
        if nm is not None and hasattr(obj, "doxygen"):
            out[nm] = obj.doxygen
        for f in dataclasses.fields(obj):
            v = getattr(obj, f.name)
            if f.name == "namespaces":
                for k, ns in v.items():
                    out[k] = ns.doxygen
            collect_dox(v, out)
    elif isinstance(obj, list):
        for x in obj:
            collect_dox(x, out)
    elif isinstance(obj, dict):
        for x in obj.values():
            collect_dox(x, out)


def all_dox(obj, out):
    """(kind, doxygen) of EVERY object of the result that carries documentation"""
    if dataclasses.is_dataclass(obj):
        if getattr(obj, "doxygen", None):
            out.append((type(obj).__name__, obj.doxygen))
        for f in dataclasses.fields(obj):
            all_dox(getattr(obj, f.name), out)
    elif isinstance(obj, list):
        for x in obj:
            all_dox(x, out)
    elif isinstance(obj, dict):
        for x in obj.values():
            all_dox(x, out)


def run(ctx):
    rng = ctx.rng("doc")
    fails = []
    n = ctx.budget(300, 15000)
    texts = []
    for _ in range(n):
        g = Gen(rng)
        text = tidy("".join(g.items()))
        texts.append(text)
        ndoc = sum(1 for v in g.expect.values() if v)
        ctx.count(text, nontrivial=ndoc >= 3)
        try:
            d = parse_string(text)
        except CxxParseError as e:
            fails.append({"input": text, "diff": "generated program rejected: %s" % e})
            continue
        got = {}
        collect_dox(d, got)
        # every generated comment carries a unique word: no comment may be attributed to two declarations
        owners = {}
        every = []
        all_dox(d, every)
        for kind, dx in every:
            for wd in set(re.findall(r"\bdoc\d+\b", dx)):
                owners.setdefault(wd, []).append(kind)
        dup = sorted((wd, ks) for wd, ks in owners.items() if len(ks) > 1)
        if dup:
            fails.append({"input": text, "diff": "the comment with the word %s is attributed to %d declarations (%s)" % (dup[0][0], len(dup[0][1]), ", ".join(dup[0][1]))})
            continue
        for nm, exp in g.expect.items():
            if nm not in got:
                fails.append({"input": text, "diff": "declaration %s not found in the result" % nm})
                break
            if got[nm] != exp:
                fails.append({"input": text, "diff": "%s: doxygen %r, expected %r" % (nm, got[nm], exp)})
                break
    ctx.oracle("attachment", n, fails)
    ctx.sample({"program": texts[0]})
    pcommon.parse_corr(ctx, "parse[doxygen]", texts[: ctx.budget(250, 5000)] + [t for t in pcommon.corpus() if "/**" in t or "///" in t or "//!" in t], proj=pcommon.proj_doxygen)


def _w(src, pred):
    def f():
        try:
            return pred(parse_string(src))
        except Exception:  # noqa
            return True
    return f


WITNESSES = {
    "C11-crlf": _w("/** A */\r\nint x;", lambda d: d.namespace.variables[0].doxygen != "/** A */"),
    "C11-trailing-blank": _w("/** A */ \nint x;", lambda d: d.namespace.variables[0].doxygen != "/** A */"),
    "C11-plain-then-continuation": _w("int x; // plain\n///< t2\nint y;", lambda d: d.namespace.variables[0].doxygen is not None),
    "C11-later-declarator": _w("/// A\nint x, y; ///< t\n", lambda d: d.namespace.variables[1].doxygen is not None),
}


def replay(path):
    def recheck(v):
        return False, "REPRODUCED: %s\n%s" % (v.get("diff"), v["input"])
    return pcommon.generic_replay(path, recheck)
