"""C12 — sibling declarations are independent and scopes compose."""
import copy
import dataclasses
import importlib
import json

import canon
import impl

import gen_prog
import pcommon
from cxxheaderparser import types as T
from cxxheaderparser import simple as S
from cxxheaderparser.errors import CxxParseError
from cxxheaderparser.parser import CxxParser
from cxxheaderparser.options import ParserOptions

c11 = importlib.import_module("props.c11")

TECHNIQUE = 'Lean 4: fold-of-concatenation, extern transparency, namespace chain split and re-open theorems on the SimpleCxxVisitor model, loop-carried state of the top-level loop; the whole-parse composition is decided by a merge oracle on the implementation and correspondence on pairs (not a theorem)'
LEAN_TARGET = "CxxModel.Props.C12"
THEOREMS = ["Cxx.C12_fold_append", "Cxx.C12_extern_transparent", "Cxx.C12_open_split", "Cxx.C12_open_existing", "Cxx.C12_top_level_carries_only_doc",
            "Cxx.C12_keep_doxygen", "Cxx.C12_namespace_header", "Cxx.C12_extern_block_header", "Cxx.C12_toplevel_namespace", "Cxx.mainBody_item", "Cxx.C12_toplevel_namespace_opens", "Cxx.C12_toplevel_extern_opens", "Cxx.C12_toplevel_semicolon", "Cxx.interp_push_passing",
    "Cxx.C12_namespace_source",
    "Cxx.C12_concatenation",
]
ANCHORS = ["parser.py:CxxParser.parse", "parser.py:CxxParser._parse_declarations", "parser.py:CxxParser._parse_namespace",
           "parser.py:CxxParser._parse_extern", "parser.py:CxxParser._parse_template", "parser.py:CxxParser._parse_friend_decl",
           "parser.py:CxxParser._parse_class_decl", "parser.py:CxxParser._finish_class_decl", "parser.py:CxxParser._process_access_specifier",
           "parser.py:CxxParser._on_block_end", "parser.py:CxxParser._pop_state", "parser.py:CxxParser._push_state", "parser.py:CxxParser._finish_class_or_enum",
           "simple.py:SimpleCxxVisitor", "lexer.py:LexerTokenStream", "lexer.py:TokenStream"]
RULE = ("pairs and triples of complete declaration sequences drawn from: the test corpus (inputs that parse alone), AST-first "
        "programs, documented programs (C11 generator), each optionally wrapped in `namespace a`, `namespace a::b`, `namespace b`, "
        "`inline namespace a`, `extern \"C\"`; at namespace scope, inside a namespace body, and (member sequences behind an explicit "
        "access specifier) inside a class body; closed blocks of every kind followed by a documented declaration; expected = pure scope-wise merge of the individual results with B's anonymous ids "
        "shifted by the number A allocated; non-trivial = both sides contribute at least one declaration")
CARRIED_BY = {
    "the whole run on nested namespaces: parse() on `namespace N { body }`, body ANY item (further namespaces to any depth, sequences of any length), returns normally; after on_parse_start the callbacks are the namespace's start (child of the global namespace, carrying the written names), the body's callbacks inside it, and its end; the block stack ends as the global namespace alone": 'theorems C12_namespace_source (parse_source on Item.ns; Theorems/WholeParse.lean, ItemKinds.lean), C12_concatenation (seq_concat: the callbacks of `xs ys` split into the group for xs and the group for ys, each constrained only by its own items and the enclosing block)',
    "one iteration of parse()'s own loop, on the regenerated rules / dispatch table / keep set: at `namespace n1::…::nk {` (after any comments and blank lines) it finds the doc text, opens one block with exactly the written names and that text, changes nothing else and hands NO doc text to the next iteration": "theorems C12_toplevel_namespace, mainBody_item (Theorems/TopLevel.lean)",
    "the same iterations down to the callback (active visitor that does not raise here): a namespace / extern header delivers exactly ONE start callback for a new block (fresh id, child of the innermost open block, the written names / linkage, the doc text found) and pushes exactly that block; a lone `;` changes nothing": "theorems C12_toplevel_namespace_opens, C12_toplevel_extern_opens, C12_toplevel_semicolon",
    "block headers end to end against the real token stream: `namespace n1::…::nk {` of any length opens ONE block carrying exactly the written names and changes nothing else of the parser state; `extern \"L\" {` outside a class opens one extern block with the written linkage": "theorems C12_namespace_header, C12_extern_block_header (Theorems/NsForm.lean, ExternForm.lean)",
    "parse(A ++ B) = merge(parse A, parse B) (full statement)": "NOT a theorem: oracle `compose` (implementation vs pure merge of its own results) + correspondence `parse[pairs]`",
    "the result is a fold of the callback stream, and folding a concatenation is folding in sequence": "theorem C12_fold_append",
    "extern blocks are transparent in the simple API": "theorem C12_extern_transparent (fold step aliases the parent's scope, root untouched) + oracle `extern_transparent`",
    "`namespace a::b {}` opens the same chain as the nested blocks": "theorem C12_open_split + oracle `nested_equiv`",
    "the only variable the top-level loop carries between items is the pending doc text, kept across attribute-like tokens only": "theorems C12_top_level_carries_only_doc, C12_keep_doxygen",
}
ASSUMPTIONS = ["sequences are joined by a blank line (a doc block ending A would legitimately adjoin B's first declaration)",
               "a class-body sequence parsed alone is given the access level its predecessors ended with (that carries over by the language rule)"]
MODEL_COVERAGE = "main loop and block handling (Parser/Decl.lean), SimpleCxxVisitor fold (SimpleFold.lean)"


class HeadedVisitor(S.SimpleCxxVisitor):
    """the simple visitor, also recording which namespace paths were named by a header of their own
    (`namespace a::b {` names `a::b`; `a` is only passed through and keeps its flags)"""

    def on_parse_start(self, state):
        super().on_parse_start(state)
        self.headed = set()
        self.ns_paths = {id(self.data.namespace): ()}

    def on_namespace_start(self, state):
        parent = state.parent.user_data
        r = super().on_namespace_start(state)
        path = self.ns_paths[id(parent)]
        scope = parent
        for name in (state.namespace.names or [""]):
            scope = scope.namespaces[name]
            path = path + (name,)
            self.ns_paths[id(scope)] = path
        self.headed.add(path)
        return r


def parse_counting(text):
    """ParsedData (with the set of namespace paths that had a header of their own) and the number of
    anonymous ids the parser allocated"""
    v = HeadedVisitor()
    p = CxxParser("f.h", text, v, ParserOptions())
    p.parse()
    v.data._headed = v.headed
    return v.data, p.anon_id


def shift_anon(obj, off, seen=None):
    if seen is None:
        seen = set()
    if isinstance(obj, T.AnonymousName):
        if id(obj) not in seen:
            seen.add(id(obj))
            obj.id += off
        return
    if dataclasses.is_dataclass(obj):
        for f in dataclasses.fields(obj):
            shift_anon(getattr(obj, f.name), off, seen)
    elif isinstance(obj, list):
        for x in obj:
            shift_anon(x, off, seen)
    elif isinstance(obj, dict):
        for x in obj.values():
            shift_anon(x, off, seen)


def merge_ns(a, b, headed_b, path=()):
    out = copy.deepcopy(a)
    for f in dataclasses.fields(S.NamespaceScope):
        va, vb = getattr(out, f.name), getattr(b, f.name)
        if f.name == "namespaces":
            for k, nb in vb.items():
                if k in va:
                    m = merge_ns(va[k], nb, headed_b, path + (k,))
                    if path + (k,) in headed_b:
                        # re-opening: the latest header's flags win; a namespace that B only passes
                        # through (`k::x {`) keeps the flags it had
                        m.inline = nb.inline
                        m.doxygen = nb.doxygen
                    va[k] = m
                else:
                    va[k] = copy.deepcopy(nb)
        elif isinstance(va, list):
            va.extend(copy.deepcopy(vb))
    return out


def merge_data(a, b, off):
    b = copy.deepcopy(b)
    shift_anon(b, off)
    out = S.ParsedData(namespace=merge_ns(a.namespace, b.namespace, b._headed))
    out.pragmas = copy.deepcopy(a.pragmas) + b.pragmas
    out.includes = copy.deepcopy(a.includes) + b.includes
    out._headed = set(a._headed) | set(b._headed)
    return out


def merge_cls(a, b, off):
    b = copy.deepcopy(b)
    shift_anon(b, off)
    out = copy.deepcopy(a)
    for f in dataclasses.fields(S.ClassScope):
        if f.name == "class_decl":
            continue
        getattr(out, f.name).extend(getattr(b, f.name))
    return out


def join(seqs):
    return "\n\n".join(s.rstrip("\n") for s in seqs) + "\n"


WRAPS = [None, None, None, "namespace a {\n%s\n}", "namespace a::b {\n%s\n}", "namespace b {\n%s\n}", "inline namespace i {\n%s\n}",
         "extern \"C\" {\n%s\n}", "namespace a::b::c {\n%s\n}", "namespace {\n%s\n}", "namespace a { namespace b {\n%s\n} }"]


def count_decls(d):
    n = 0
    for f in dataclasses.fields(S.NamespaceScope):
        v = getattr(d, f.name)
        if f.name == "namespaces":
            n += sum(count_decls(x) for x in v.values())
        elif isinstance(v, list):
            n += len(v)
    return n


# declarations whose types go through the parser's placeholder (`auto`) handling, plain ones first: a qualifier written
# in one sibling must not show up in another, and the result of an earlier parse must not change when a later one runs
PLACEHOLDER_PIECES = ["void g(auto y);\n", "template <auto N> struct PN {};\n", "auto r1();\n", "void g2(int a, auto b, auto c);\n",
                      "void k(auto const &v);\n", "void m(auto volatile *p);\n", "template <auto const N> struct Q {};\n",
                      "void h(auto a, auto const b);\n", "void g3(auto z);\n", "const auto r2();\n", "void k2(const auto &v, auto w);\n",
                      "template <class T> struct Box { Box(T); };\ntemplate <class T> Box(T) -> Box<T>;\n"]
SNAPSHOTS = []


def population(ctx, rng, n):
    """(text, ParsedData, anon count) of sequences that parse alone"""
    base = list(PLACEHOLDER_PIECES)
    for t in pcommon.corpus():
        base.append(t)
    for _ in range(n):
        base.append(gen_prog.gen_program(rng, budget=rng.randint(1, 5))[0])
        base.append(gen_prog.gen_class_program(rng)[0])
        g = c11.Gen(rng)
        base.append(c11.tidy("".join(g.items())))
    out = []
    for t in base:
        w = rng.choice(WRAPS)
        if w:
            t = w % t.rstrip("\n")
        try:
            d, k = parse_counting(t)
        except CxxParseError:
            continue
        out.append((t, d, k))
        SNAPSHOTS.append((t, d, json.dumps(impl.to_json(d), sort_keys=True)))
    return out


def member_seq(rng):
    g = c11.Gen(rng)
    return c11.tidy("".join(g.items(depth=1, in_class=True, indent="  ")))


def last_access(body, cur):
    import re
    for l in body.split("\n"):
        m = re.fullmatch(r"  (public|private|protected):", l)
        if m:
            cur = m.group(1)
    return cur


def run(ctx):
    rng = ctx.rng("compose")
    pop = population(ctx, rng, ctx.budget(60, 1500))
    fails = []
    n = ctx.budget(500, 40000)
    pair_texts = []
    for i in range(n):
        k = 2 if rng.random() < 0.8 else 3
        seqs = [rng.choice(pop) for _ in range(k)]
        inner = rng.random() < 0.25
        if inner:
            # the same composition inside a namespace body: wrap each alone and the whole
            texts = ["namespace W {\n%s\n}\n" % s[0].rstrip("\n") for s in seqs]
            whole = "namespace W {\n%s}\n" % join([s[0] for s in seqs])
            try:
                parts = [parse_counting(t) for t in texts]
            except CxxParseError:
                continue  # not valid inside a namespace (e.g. preprocessor-only content is fine, others rejected)
        else:
            parts = [(s[1], s[2]) for s in seqs]
            whole = join([s[0] for s in seqs])
        exp = parts[0][0]
        off = parts[0][1]
        for d, k2 in parts[1:]:
            exp = merge_data(exp, d, off)
            off += k2
        ctx.count(whole, nontrivial=all(count_decls(p[0].namespace) > 0 for p in parts))
        pair_texts.append(whole)
        try:
            got, _ = parse_counting(whole)
        except CxxParseError as e:
            fails.append({"input": whole, "parts": [s[0] for s in seqs], "diff": "concatenation rejected though each part parses: %s" % e})
            continue
        if got != exp:
            fails.append({"input": whole, "parts": [s[0] for s in seqs], "inner": inner, "diff": first_diff(got, exp)})
    ctx.oracle("compose", n, fails)
    # results handed out earlier are values: parsing more text must not change them
    sfails = []
    for t, d, snap in SNAPSHOTS:
        now = json.dumps(impl.to_json(d), sort_keys=True)
        if now != snap:
            sfails.append({"input": t, "diff": "the result of an earlier parse of this piece changed while later pieces were parsed: "
                           + str(canon.first_diff(json.loads(snap), json.loads(now)))[:300]})
    ctx.oracle("earlier_results_stable", len(SNAPSHOTS), sfails)

    # class bodies
    fails = []
    n2 = ctx.budget(200, 10000)
    for i in range(n2):
        ms = [member_seq(rng) for _ in range(rng.choice([2, 2, 3]))]
        key = rng.choice(["struct", "class"])
        # each part alone starts at the access level the previous parts ended with
        acc = rng.choice(["public", "private", "protected"])
        texts = []
        for m in ms:
            texts.append("%s S {\n%s:\n%s};\n" % (key, acc, m))
            acc = last_access(m, acc)
        whole = "%s S {\n%s:\n%s};\n" % (key, texts[0].split("\n")[1][:-1], "\n".join(ms))
        ctx.count(whole, nontrivial=True)
        try:
            parts = [parse_counting(t) for t in texts]
            got, _ = parse_counting(whole)
        except CxxParseError as e:
            fails.append({"input": whole, "diff": "generated class rejected: %s" % e})
            continue
        exp = parts[0][0].namespace.classes[0]
        off = parts[0][1]
        for d, k2 in parts[1:]:
            exp = merge_cls(exp, d.namespace.classes[0], off)
            off += k2
        if got.namespace.classes[0] != exp or len(got.namespace.classes) != 1:
            fails.append({"input": whole, "parts": ms, "diff": first_diff(got.namespace.classes[0], exp)})
        pair_texts.append(whole)
    ctx.oracle("compose_class_body", n2, fails)

    # `namespace a::b { X }` == nested blocks; extern "C" { X } == X
    fails1, fails2 = [], []
    n3 = ctx.budget(150, 5000)
    for i in range(n3):
        t, d, k = rng.choice(pop)
        names = rng.choice([["p", "q"], ["p", "q", "r"], ["a", "b"]])
        w1 = "namespace %s {\n%s\n}\n" % ("::".join(names), t.rstrip("\n"))
        w2 = "".join("namespace %s {\n" % x for x in names) + t.rstrip("\n") + "\n" + "}" * len(names) + "\n"
        w3 = "extern \"C\" {\n%s\n}\n" % t.rstrip("\n")
        try:
            d1, _ = parse_counting(w1)
        except CxxParseError:
            d1 = None
        try:
            d2, _ = parse_counting(w2)
        except CxxParseError:
            d2 = None
        if (d1 is None) != (d2 is None) or d1 != d2:
            fails1.append({"input": w1, "other": w2, "diff": "rejected" if d1 is None or d2 is None else first_diff(d1, d2)})
        try:
            d3, _ = parse_counting(w3)
        except CxxParseError as e:
            continue  # content not allowed inside a linkage block? (never seen on the unchanged tree)
        if d3 != d:
            fails2.append({"input": w3, "other": t, "diff": first_diff(d3, d)})
        # the same inside enclosing scopes: the block's content belongs to the scope the block is written in
        enc = rng.choice(["namespace W {\n%s\n}\n", "namespace p::q {\n%s\n}\n", "namespace {\n%s\n}\n", "namespace o { inline namespace i {\n%s\n} }\n",
                          "namespace W {\nint before;\n\n%s\n\nint after;\n}\n", "extern \"C++\" {\n%s\n}\n"])
        try:
            d4, _ = parse_counting(enc % t.rstrip("\n"))
            d5, _ = parse_counting(enc % ("extern \"C\" {\n%s\n}" % t.rstrip("\n")))
        except CxxParseError:
            continue
        if d4 != d5:
            fails2.append({"input": enc % ("extern \"C\" {\n%s\n}" % t.rstrip("\n")), "other": enc % t.rstrip("\n"), "diff": first_diff(d5, d4)})
    # (typedefs, variables, fields and enumerators run the trailing-comment scan: listed finding C11-plain-then-continuation)
    # a declaration whose line ends with a plain comment, directly followed (no blank line) by a documented declaration:
    # the comment belongs to nothing and must not cost the next declaration its documentation
    fails3 = []
    tails = ["void f%d(int a); // note", "using U%d = int; /* note */", "struct F%d; // n", "namespace N%d {\nint q;\n} // end", "template <typename T> void g%d(T); // t",
             "class K%d {\nint m;\n}; // k", "enum E%d {\ne%d\n}; // en", "void h%d() { } // body", "extern \"C\" int c%d(); /* c */",
             "using namespace u%d; // un", "static_assert(%d < 99, \"x\"); // sa"]
    n4 = ctx.budget(150, 5000)
    for i in range(n4):
        a = rng.choice(tails)
        a = a % tuple([i] * a.count("%d"))
        g = c11.Gen(rng)
        b = c11.tidy("".join(g.items()))
        scope = rng.choice(["%s", "namespace W {\n%s\n}\n"])
        whole = scope % (a + "\n" + b)
        ctx.count(whole, nontrivial=True)
        try:
            da, ka = parse_counting(scope % a)
            db, kb = parse_counting(scope % b)
            got, _ = parse_counting(whole)
        except CxxParseError as e:
            fails3.append({"input": whole, "diff": "rejected: %s" % e})
            continue
        exp = merge_data(da, db, ka)
        if got != exp:
            fails3.append({"input": whole, "parts": [a, b], "diff": first_diff(got, exp)})
    # a closed block of any kind, directly (or after one blank line) followed by a documented declaration:
    # the block's end must not cost the follower its documentation, nor give it anything else
    fails4 = []
    blocks = ['extern "C" {\n%s\n}', 'extern "C++" {\n%s\n}', 'namespace bn%d {\n%s\n}', 'namespace {\n%s\n}', 'inline namespace bi%d {\n%s\n}',
              'struct BS%d {\n%s\n};', 'class BK%d {\npublic:\n%s\n};', 'enum BE%d {\nbe%d\n};', 'namespace ba%d { extern "C" {\n%s\n} }',
              'extern "C" { namespace bb%d {\n%s\n} }', 'void bfn%d() {\n}', 'template <typename T> struct BT%d {\n%s\n};', 'extern "C" {\n%s\n};',
              'namespace bo%d { namespace bp%d {\n%s\n} }', 'union BU%d {\n%s\n};']
    docs = ["/// doc %d", "//! doc %d", "/** doc %d */", "/*! doc %d */", "/// doc %d\n/// more %d", "/**\n * doc %d\n */"]
    followers = ["int fv%d;", "void ff%d(int a);", "struct FS%d { int m; };", "namespace fn%d { int q; }", "using FA%d = int;", "typedef int ft%d;",
                 "enum FE%d { fe%d };", "struct FF%d;", "template <typename T> void ft%d(T t);", "extern \"C\" int fc%d();", "static int fs%d = 1, fs2_%d;",
                 "class FK%d { public: int m; };"]
    n5 = ctx.budget(250, 6000)
    for i in range(n5):
        blk = rng.choice(blocks)
        nfmt = blk.count("%d") + blk.count("%s")
        args = []
        for m in __import__("re").finditer(r"%[ds]", blk):
            args.append(i if m.group(0) == "%d" else "int bi%d_%d;" % (i, len(args)))
        a = blk % tuple(args)
        dtxt = rng.choice(docs)
        dtxt = dtxt % tuple([i] * dtxt.count("%d"))
        f = rng.choice(followers)
        f = f % tuple([i] * f.count("%d"))
        b = dtxt + "\n" + f
        sep = rng.choice(["\n", "\n\n", "\n// plain\n\n"])
        scope = rng.choice(["%s", "%s", "namespace W {\n%s\n}\n", "extern \"C\" {\n%s\n}\n"])
        whole = scope % (a + sep + b)
        ctx.count(whole, nontrivial=True)
        try:
            da, ka = parse_counting(scope % a)
            db, kb = parse_counting(scope % b)
            got, _ = parse_counting(whole)
        except CxxParseError as e:
            fails4.append({"input": whole, "diff": "rejected: %s" % e})
            continue
        exp = merge_data(da, db, ka)
        if got != exp:
            fails4.append({"input": whole, "parts": [a, b], "diff": first_diff(got, exp)})
    ctx.oracle("block_then_documented", n5, fails4)
    ctx.oracle("compose_after_comment", n4, fails3)
    ctx.oracle("nested_equiv", n3, fails1)
    ctx.oracle("extern_transparent", n3, fails2)
    ctx.sample({"pair": pair_texts[0]})
    pcommon.parse_corr(ctx, "parse[pairs]", pair_texts[: ctx.budget(150, 3000)])


def first_diff(a, b, path="data"):
    if type(a) is not type(b):
        return "%s: %r vs expected %r" % (path, a, b)
    if dataclasses.is_dataclass(a):
        for f in dataclasses.fields(a):
            va, vb = getattr(a, f.name), getattr(b, f.name)
            if va != vb:
                return first_diff(va, vb, path + "." + f.name)
        return None
    if isinstance(a, list):
        for i, (x, y) in enumerate(zip(a, b)):
            if x != y:
                return first_diff(x, y, "%s[%d]" % (path, i))
        if len(a) != len(b):
            return "%s: %d items vs expected %d (extra: %r)" % (path, len(a), len(b), (a[len(b):] or b[len(a):])[:1])
        return None
    if isinstance(a, dict):
        if list(a) != list(b):
            return "%s: keys %r vs expected %r" % (path, list(a), list(b))
        for k in a:
            if a[k] != b[k]:
                return first_diff(a[k], b[k], "%s[%r]" % (path, k))
        return None
    if a != b:
        return "%s: %r vs expected %r" % (path, a, b)
    return None


def replay(path):
    def recheck(v):
        return False, "REPRODUCED: %s\n%s" % (v.get("diff"), v["input"])
    return pcommon.generic_replay(path, recheck)
