"""C20 — entry points and tools agree with one another."""
import dataclasses
import io
import json
import os
import pathlib
import shutil
import subprocess
import sys
import tempfile

import canon
import gen_prog
import impl
import pcommon
from cxxheaderparser import gentest
from cxxheaderparser.errors import CxxParseError
from cxxheaderparser.options import ParserOptions
from cxxheaderparser.parser import CxxParser
from cxxheaderparser.simple import SimpleCxxVisitor, parse_file, parse_string

TECHNIQUE = 'Lean 4: repr round-trip theorem over the dataclass schemas regenerated from the code (kernel-checked schema well-formedness), parse_file = parse_string ∘ decode on the entry model; correspondence of the repr text; entry-point oracle on real files'
LEAN_TARGET = "CxxModel.Props.C20"
THEOREMS = ["Cxx.C20_parse_file_is_parse_string", "Cxx.C20_parse_file_decode_error", "Cxx.C20_preprocessor_once",
            "Cxx.C20_schema_ok", "Cxx.C20_repr_roundtrip", "Cxx.repr_roundtrip"]
ANCHORS = ["simple.py:parse_file", "simple.py:parse_string", "parser.py:CxxParser.__init__", "dump.py:", "gentest.py:", "__main__.py:",
           "types.py:", "simple.py:<module>", "tokfmt.py:Token"]
RULE = ("valid inputs (test corpus, generated programs, inputs with non-ASCII text in comments and strings, the empty input) x "
        "encodings {default, utf-8, utf-8-sig with BOM, latin-1, utf-16} x path types {str, pathlib.Path, '-'} x entry points "
        "{parse_file, parse_string, CxxParser+SimpleCxxVisitor, CLI json dump}; compact repr evaluated; non-trivial = non-ASCII "
        "content or non-default encoding or a result with nested dataclasses")
CARRIED_BY = {
    "parse_file(path, E) = parse_string(decode(E or utf-8-sig, bytes))": "theorem C20_parse_file_is_parse_string (any fs/codec) + oracle `entry_points` on real files",
    "eval(nondefault_repr(d)) == d": "theorem C20_repr_roundtrip over the regenerated schemas (C20_schema_ok) + correspondence `repr` (model text vs implementation text) + oracle `repr_eval`",
    "CxxParser+SimpleCxxVisitor = parse_string; CLI json = asdict; '-' = stdin": "oracle `entry_points` (not proof: library glue)",
}
ASSUMPTIONS = ["Python's eval(repr(x)) == x for str/int/bool/None and keyword construction of dataclasses",
               "file system and codecs are parameters of the Entry model"]
MODEL_COVERAGE = "gentest.nondefault_repr (Repr.lean), parse_file/parse_string/CxxParser.__init__ content selection (Entry.lean)"

NONASCII = ["// café 中文\nint x;\n", "const char* s = \"über €\"; // é\n", "/// döc\nint y; ///< träiling\n",
            "namespace n { /* ñ */ int z = 1; }\n",
            # characters outside the Basic Multilingual Plane (surrogate pairs in UTF-16 / JSON)
            "/// returns a smile \U0001F600\nint smile();\n", "const char* s = u8\"\U0001F600 \U0001D400\";\n",
            "struct S { int m; ///< member \U0001D400\n};\n", "#pragma message(\"\U0001F600\")\n"]
# characters that str.splitlines() treats as line boundaries but the lexer (and C++) do not: inside comments and
# string literals they are ordinary characters, and reading a file must not turn them into newlines
LINEISH = []
for _c in ("\x0b", "\x0c", "\x1c", "\x1d", "\x1e", "\x85", "\u2028", "\u2029"):
    LINEISH += ["// note" + _c + "int hidden;\nint x;\n", "const char* s = \"a" + _c + "b\";\nint y;\n",
                "/* c" + _c + " */ int z;\n", "/// doc" + _c + "more\nint w;\n", "int v; ///< t" + _c + "u\nint q;\n"]
LINEISH += ["int a;\n\n\n", "int a;", "\n\nint a;\n", "int a;\r\nint b;\r\n", "// c\\\nint cont;\nint d;\n"]


def tag(v):
    if v is None or isinstance(v, (bool, int, str)):
        return v
    if isinstance(v, list):
        return [tag(x) for x in v]
    if isinstance(v, dict):
        return {"__dict__": [[str(k), tag(x)] for k, x in v.items()]}
    if dataclasses.is_dataclass(v):
        return {"__cls__": type(v).__name__, "fields": [[f.name, tag(getattr(v, f.name))] for f in dataclasses.fields(v)]}
    return None


def eval_ns():
    ns = {}
    import cxxheaderparser.types as TY, cxxheaderparser.simple as SI
    for m in (TY, SI):
        for k in dir(m):
            ns[k] = getattr(m, k)
    return ns


def run(ctx):
    rng = ctx.rng("entry")
    texts = [t for t in pcommon.corpus()] + NONASCII + LINEISH + ["", "\n", "int only;"]
    for _ in range(ctx.budget(60, 1000)):
        texts.append(gen_prog.gen_program(rng, budget=5)[0])
        texts.append(gen_prog.gen_class_program(rng)[0])
    texts.append("void f1(auto p); void f2(int a, auto b); template <int N = 0> struct Z { int x : 1; };")
    ns = eval_ns()
    rfails = []
    efails = []
    datas = []
    for t in texts:
        try:
            d = parse_string(t)
        except CxxParseError:
            continue
        datas.append((t, d))
        ctx.count(t, nontrivial=(any(ord(c) > 127 for c in t) or len(t) > 40))
        # compact repr, evaluated
        try:
            r = gentest.nondefault_repr(d)
            back = eval(r, dict(ns))
            if back != d:
                rfails.append({"input": t, "diff": "eval(nondefault_repr(data)) != data: " + str(canon.first_diff(impl.to_json(d), impl.to_json(back)))[:300]})
        except Exception as e:  # noqa
            rfails.append({"input": t, "diff": "nondefault_repr/eval raised %r" % e})
        # CxxParser + SimpleCxxVisitor
        v = SimpleCxxVisitor()
        CxxParser("<str>", t, v).parse()
        if v.data != d:
            efails.append({"input": t, "diff": "CxxParser+SimpleCxxVisitor differs from parse_string"})
    ctx.oracle("repr_eval", len(datas), rfails)
    # files x encodings x path types
    tmp = tempfile.mkdtemp(prefix="verif_c20_")
    nfile = 0
    try:
        sub = datas if ctx.tier == "thorough" else datas[:: max(1, len(datas) // 60)] + [x for x in datas if any(ord(c) > 127 for c in x[0])] + [x for x in datas if x[0] in ("", "\n")] + [x for x in datas if x[0] in LINEISH]
        for i, (t, d) in enumerate(sub):
            for enc, explicit in (("utf-8", None), ("utf-8", "utf-8"), ("utf-8-sig", None), ("utf-8-sig", "utf-8-sig"), ("latin-1", "latin-1"), ("utf-16", "utf-16")):
                try:
                    raw = t.encode(enc)
                except UnicodeEncodeError:
                    continue
                p = os.path.join(tmp, "f%d.h" % i)
                with open(p, "wb") as fp:
                    fp.write(raw)
                with open(p, "r", encoding=explicit or "utf-8-sig", newline=None) as fp:
                    decoded = fp.read()
                class _PL:  # a custom os.PathLike
                    def __init__(self, v):
                        self.v = v

                    def __fspath__(self):
                        return self.v
                entry = [e for e in os.scandir(tmp) if e.name == os.path.basename(p)][0]
                try:
                    want = parse_string(decoded, filename=p)
                except CxxParseError:
                    continue
                for pathobj in (p, pathlib.Path(p), os.fsencode(p), _PL(p), _PL(os.fsencode(p)), entry):
                    nfile += 1
                    try:
                        got = parse_file(pathobj, explicit) if explicit else parse_file(pathobj)
                    except Exception as e:  # noqa
                        efails.append({"input": t, "encoding": enc, "explicit": explicit, "path_kind": type(pathobj).__name__, "diff": "parse_file raised %r" % e})
                        continue
                    if got != want:
                        efails.append({"input": t, "encoding": enc, "explicit": explicit, "diff": "parse_file differs from parse_string of the decoded bytes"})
            # stdin and the CLI (a sample: subprocesses are slow)
            if i % 10 == 0 or any(ord(c) > 127 for c in t) or t in ("", "\n"):
                p = os.path.join(tmp, "c%d.h" % i)
                with open(p, "w", encoding="utf-8") as fp:
                    fp.write(t)
                env = dict(os.environ, PYTHONPATH=pcommon.common.REPO, PYTHONDONTWRITEBYTECODE="1", PYTHONIOENCODING="utf-8")
                out = subprocess.run([sys.executable, "-m", "cxxheaderparser", "--mode", "json", p], env=env, capture_output=True, timeout=120)
                nfile += 1
                try:
                    want = dataclasses.asdict(parse_file(p))
                    got = json.loads(out.stdout.decode("utf-8"))
                    if got != json.loads(json.dumps(want)):
                        efails.append({"input": t, "diff": "CLI json differs from dataclasses.asdict(parse_file)"})
                except Exception as e:  # noqa
                    efails.append({"input": t, "diff": "CLI failed: %r %s" % (e, out.stderr.decode("utf-8", "replace")[-200:])})
                code = "import sys, json, dataclasses; from cxxheaderparser.simple import parse_file; print(json.dumps(dataclasses.asdict(parse_file('-'))))"
                out2 = subprocess.run([sys.executable, "-c", code], env=env, input=t.encode("utf-8"), capture_output=True, timeout=120)
                nfile += 1
                try:
                    got2 = json.loads(out2.stdout.decode("utf-8"))
                    want2 = json.loads(json.dumps(dataclasses.asdict(parse_string(t, filename="-"))))
                    if got2 != want2:
                        efails.append({"input": t, "diff": "parse_file('-') differs from parse_string(stdin text)"})
                except Exception as e:  # noqa
                    efails.append({"input": t, "diff": "parse_file('-') failed: %r %s" % (e, out2.stderr.decode("utf-8", "replace")[-300:])})
    finally:
        shutil.rmtree(tmp, ignore_errors=True)
    ctx.oracle("entry_points", nfile + len(datas), efails)
    ctx.sample({"input": NONASCII[1], "encodings": ["utf-8", "utf-8-sig", "latin-1", "utf-16"]})
    # repr correspondence: model text vs implementation text
    if ctx.driver is not None:
        sub = datas[: ctx.budget(200, 4000)]
        res = ctx.driver.run([{"op": "repr", "value": tag(d)} for _, d in sub])
        mism = []
        for (t, d), r in zip(sub, res):
            e = gentest.nondefault_repr(d)
            if all(ord(c) < 128 for c in t) and e != r["repr"]:
                i = next((i for i, (a, b) in enumerate(zip(e, r["repr"])) if a != b), min(len(e), len(r["repr"])))
                mism.append({"input": t, "diff": "at %d: impl …%s model …%s" % (i, e[max(0, i - 30): i + 40], r["repr"][max(0, i - 30): i + 40])})
            if not r["conforms"]:
                mism.append({"input": t, "diff": "parsed data does not conform to the regenerated schema"})
        ctx.corr("repr", len(sub), mism)


def replay(path):
    def recheck(v):
        return False, "REPRODUCED: %s\n%r" % (v.get("diff"), v["input"])
    return pcommon.generic_replay(path, recheck)
