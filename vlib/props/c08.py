"""C08 — the lexer partitions the text: nothing lost, lines counted, literals whole."""
import itertools

import gen_text
import impl
import pcommon
from cxxheaderparser.lexer import LexerTokenStream, PlyLexer, LexError

TECHNIQUE = 'Lean 4: partition theorem of the PLY loop for every rule set and input (token is a prefix; texts + skipped pieces = input), keyword theorem on the regenerated keyword set, matcher = priority-order paths; token-by-token correspondence with PlyLexer; literal/punctuator oracles'
LEAN_TARGET = "CxxModel.Props.C08"
THEOREMS = ["Cxx.C08_token_is_prefix", "Cxx.C08_partition", "Cxx.C08_keyword_never_name", "Cxx.C08_matcher_is_paths", "Cxx.C08_name_rule", "Cxx.rules_supported",
            "Cxx.lexer_helpers_standard", "Cxx.C08_rules_count_lines", "Cxx.C08_lineno", "Cxx.plyToken_lineno"]
ANCHORS = ["lexer.py:", "lex.py:Lexer.token", "lex.py:Lexer.clone", "lex.py:Lexer.input"]
RULE = ("texts over the token alphabet with arbitrary separators (blanks, tabs, LF, CRLF, comments, continuations), every literal of "
        "the literal grammar (all integer bodies x suffixes, floats, hex floats, character and string literals x prefixes x "
        "escapes, multi-character constants, UDL suffixes) alone and embedded, every ordered pair/triple of punctuators; "
        "non-trivial = text with at least 3 tokens")
CARRIED_BY = {
    "each raw token is a prefix of the remaining input; the token texts plus the skipped pieces reproduce the input": "theorems C08_token_is_prefix, C08_partition (every rule set, every input)",
    "keywords are never plain names": "theorem C08_keyword_never_name (action of t_NAME, regenerated keyword set)",
    "matcher semantics = Python re priority semantics on the rules": "theorem C08_matcher_is_paths + correspondence `lex` (model vs PlyLexer, token by token incl. lineno/lexpos)",
    "the line counter advances by exactly the newlines of the consumed text; a token's lineno is the counter where it starts": "theorems C08_rules_count_lines (kernel-decided on the regenerated rules: every rule cannot match a newline, or counts them, or matches only newlines) + C08_lineno / plyToken_lineno (soundness, every input)",
    "literal classes, maximal munch": "correspondence `lex` + oracles `literals`, `punctuators` (not proof)",
}
ASSUMPTIONS = ["CR handling: '\\r' is skipped only between tokens (t_ignore)"]
MODEL_COVERAGE = "all PLY rules (regenerated regex ASTs + actions), Lexer.token loop (Ply.lean)"


def stream_tokens(text):
    lx = LexerTokenStream("f.h", text)
    out = []
    while True:
        t = lx.token_eof_ok()
        if t is None:
            return out
        out.append(t)


def raw_tokens(text):
    pl = PlyLexer("f.h")
    pl.input(text)
    out = []
    while True:
        t = pl.token()
        if t is None:
            return out
        out.append(t)


def run(ctx):
    rng = ctx.rng("text")
    texts = []
    for _ in range(ctx.budget(600, 30000)):
        texts.append(gen_text.random_text(rng, rng.randint(1, 14)))
    texts += pcommon.corpus()
    # directive lines (dropped or passed on by the directive rule), plain and continued with backslash-newline, between tokens
    for d in ("#warning first part", "#line 40 \"f.h\"", "# 7 \"g.h\" 2", "#pragma omp parallel", "#include <a.h>", "#  warning x", "#warning"):
        for cont in ("", " \\\n  second part", " \\\n \\\n third", "\\\n"):
            for pre in ("", "int a;\n", "/* c\n d */\n"):
                texts.append(pre + d + cont + "\nint last;\nlong tail;\n")
    pfails = []
    for t in texts:
        try:
            toks = raw_tokens(t)
        except LexError:
            ctx.count(t, nontrivial=False)
            continue
        ctx.count(t, nontrivial=len(toks) >= 3)
        # partition: token texts reproduce the input except CR, #line/#warning directives
        pos = 0
        rebuilt = []
        for tk in toks:
            gap = t[pos:tk.lexpos]
            if gap.strip("\r") and not gap.lstrip("\r").startswith("#"):
                pfails.append({"input": t, "diff": "characters %r between tokens were lost" % gap})
                break
            if t[tk.lexpos:tk.lexpos + len(tk.value)] != tk.value:
                pfails.append({"input": t, "diff": "token %r is not the text at its position" % tk.value})
                break
            want_line = 1 + t.count("\n", 0, tk.lexpos)
            if tk.lineno != want_line:
                pfails.append({"input": t, "diff": "token %r has lineno %d, %d newlines precede it" % (tk.value, tk.lineno, want_line - 1)})
                break
            pos = tk.lexpos + len(tk.value)
        else:
            tail = t[pos:]
            if tail.strip("\r") and not tail.lstrip("\r").startswith("#"):
                pfails.append({"input": t, "diff": "trailing characters %r were lost" % tail})
    ctx.oracle("partition_lines", len(texts), pfails)
    # literals: one token of the right class, alone and embedded, with and without UDL suffix
    lfails = []
    nl = 0
    kw = PlyLexer.keywords
    for lit, ty in gen_text.literals():
        # … and directly behind / in front of another literal with nothing in between (adjacent string literals are ordinary C++)
        for pre, post in (("", ""), ("x = ", ";"), ("(", ")"), ("\n ", " \n"), ("a+", "+b"), ("\"p\"", ""), ("'q'", ";"), ("", "\"t\""), ("x = \"p\"\"r\"", "\"t\";")):
            for udl in ("", "_km"):
                nl += 1
                text = pre + lit + udl + post
                try:
                    toks = [tk for tk in stream_tokens(text)]
                except Exception as e:  # noqa
                    lfails.append({"input": text, "diff": "well-formed literal rejected: %r" % e})
                    continue
                want_ty = ("UD_" + ty) if udl else ty
                hit = [tk for tk in toks if tk.value == lit + udl]
                if not hit or hit[0].type != want_ty:
                    lfails.append({"input": text, "diff": "literal %r is not one %s token: %s" % (lit + udl, want_ty, [(tk.type, tk.value) for tk in toks][:6])})
    for k in sorted(kw):
        nl += 1
        toks = stream_tokens(k + " " + k + "x x" + k + " _" + k)
        if [tk.type for tk in toks] != [k, "NAME", "NAME", "NAME"]:
            lfails.append({"input": k, "diff": "keyword/name classification: %s" % [(tk.type, tk.value) for tk in toks]})
    ctx.oracle("literals", nl, lfails)
    # punctuators: maximal munch on pairs and triples
    mfails = []
    nm = 0
    P = gen_text.PUNCT
    multi = sorted([p for p in P if len(p) > 1], key=len, reverse=True)

    def munch(s):
        out = []
        i = 0
        while i < len(s):
            for m in multi:
                if s.startswith(m, i):
                    out.append(m)
                    i += len(m)
                    break
            else:
                out.append(s[i])
                i += 1
        return out
    combos = list(itertools.product(P, repeat=2)) + (list(itertools.product(P, repeat=3)) if ctx.tier == "thorough" else [tuple(rng.choice(P) for _ in range(3)) for _ in range(3000)])
    for c in combos:
        s = "".join(c)
        if "//" in s or "/*" in s:
            continue
        nm += 1
        try:
            got = [tk.value for tk in stream_tokens(s)]
        except Exception as e:  # noqa
            mfails.append({"input": s, "diff": "rejected: %r" % e})
            continue
        if got != munch(s):
            mfails.append({"input": s, "diff": "lexed as %s, maximal munch gives %s" % (got, munch(s))})
    ctx.oracle("punctuators", nm, mfails)
    ctx.sample({"text": texts[0][:120]})
    # correspondence: raw lexer, token by token
    if ctx.driver is not None:
        sub = texts[: ctx.budget(700, 20000)] + [lit + "_x " + lit for lit, _ in gen_text.literals()[:: 7]] + pcommon.mutated_corpus(ctx, ctx.budget(300, 8000))
        res = ctx.driver.run([{"op": "lex", "text": t, "filename": "f.h"} for t in sub])
        mism = []
        for t, r in zip(sub, res):
            e = impl.impl_lex(t, "f.h")
            if all(ord(c) < 128 for c in t) or e["err"] is None:
                if e != r:
                    mism.append({"input": t, "diff": str(__import__("canon").first_diff(e, r))[:300]})
        ctx.corr("lex", len(sub), mism)
        # token stream level (fill, continuation, UDL fusion)
        ops = [["token_eof_ok"]] * 40
        res = ctx.driver.run([{"op": "stream", "text": t, "filename": "f.h", "ops": ops} for t in sub[:: 2]])
        mism = []
        for t, r in zip(sub[:: 2], res):
            e = impl.impl_stream(t, ops, "f.h")
            if (all(ord(c) < 128 for c in t) or e["err"] is None) and e != r:
                mism.append({"input": t, "diff": str(__import__("canon").first_diff(e, r))[:300]})
        ctx.corr("stream", len(sub[:: 2]), mism)


def replay(path):
    def recheck(v):
        return False, "REPRODUCED: %s\n%r" % (v.get("diff"), v["input"])
    return pcommon.generic_replay(path, recheck)
