"""C17 — formatted types parse back to the same type."""
import canon
import gen_cpp as G
from gen_cpp import T
import gen_prog
import impl
import pcommon
from cxxheaderparser.simple import parse_string
from cxxheaderparser.errors import CxxParseError

TECHNIQUE = 'Lean 4: formatter equations for every type tree on the format model, tied by correspondence to types.py; parse(format t) = t decided by a round-trip oracle on the implementation (not a theorem)'
LEAN_TARGET = "CxxModel.Props.C17"
THEOREMS = ["Cxx.C17_decl_type", "Cxx.C17_decl_array", "Cxx.C17_decl_ptr_plain", "Cxx.C17_decl_ptr_array", "Cxx.C17_decl_ref_array",
            "Cxx.C17_fmt_plain_ptr", "Cxx.C17_fmt_mref", "Cxx.C17_ptr_cv_both", "Cxx.C17_chain_round_trip"]
ANCHORS = ["types.py:", "tokfmt.py:", "parser.py:CxxParser._parse_cv_ptr_or_fn", "parser.py:CxxParser._parse_type", "parser.py:CxxParser._parse_array_type",
           "parser.py:CxxParser._parse_pqname", "parser.py:CxxParser._parse_pqname_decltype_specifier", "parser.py:CxxParser._parse_parameter", "parser.py:CxxParser._parse_template_specialization"]
RULE = ("the C02 generator's range of type trees (exhaustive to depth 3, random to depth 6, const/volatile pointers at every "
        "level, decltype and templated names) plus every type found in corpus/generated programs; each formatted with "
        "format_decl(name) and re-parsed in variable and parameter position, and with format() in alias and unnamed-parameter "
        "position; qualified names, template specialisations and parameters formatted and re-parsed; non-trivial = depth >= 1")
CARRIED_BY = {
    "format -> parse at the token level for pointer chains of any depth over a named type: format_decl(x) writes the name, exactly the operators chainOps d and x; decoding those operators the way _parse_cv_ptr_or_fn provably does gives d back (with C01_toplevel_variable: the token sequence parses to one variable of type d named x); outside the theorem: that the formatted TEXT lexes to those tokens": "theorem C17_chain_round_trip (Theorems/ChainRoundTrip.lean)",
    "what format()/format_decl() write (every type tree)": "theorems C17_* (formatter equations) + correspondence `format` (model vs types.py)",
    "parse(format(t)) = t (full statement)": "NOT a theorem (needs the C02 round trip); oracle `format_roundtrip` on the implementation, outside the listed finding",
}
ASSUMPTIONS = ["known finding C17-format delimits the range (multi-dimensional arrays, references to functions, arrays in type-id position)"]
MODEL_COVERAGE = "format()/format_decl() of Type, Pointer, Reference, MoveReference, Array, FunctionType, Parameter, PQName, TemplateSpecialization, Value (Format.lean)"


def multidim(t):
    return G.contains(t, lambda u: isinstance(u, T.Array) and isinstance(u.array_of, T.Array))


def ref_to_fn(t):
    return G.contains(t, lambda u: (isinstance(u, T.Reference) and isinstance(u.ref_to, T.FunctionType)) or (isinstance(u, T.MoveReference) and isinstance(u.moveref_to, T.FunctionType)))


def spine_arrays(t):
    out = []
    u = t
    while True:
        if isinstance(u, T.Array):
            out.append(u)
            u = u.array_of
        elif isinstance(u, T.Pointer) and not isinstance(u.ptr_to, (T.Array, T.FunctionType)):
            u = u.ptr_to
        elif isinstance(u, T.Reference) and not isinstance(u.ref_to, T.Array):
            u = u.ref_to
        elif isinstance(u, T.MoveReference):
            u = u.moveref_to
        else:
            break
    return out


def arr_over_ptr_to_array(t):
    return any(isinstance(a.array_of, T.Pointer) and isinstance(a.array_of.ptr_to, T.Array) or isinstance(a.array_of, T.Reference) and isinstance(a.array_of.ref_to, T.Array) for a in spine_arrays(t))


def vararg_after_params(t):
    return G.contains(t, lambda u: isinstance(u, T.FunctionType) and u.vararg and len(u.parameters) > 0)


def has_msvc(t):
    return G.contains(t, lambda u: isinstance(u, T.FunctionType) and u.msvc_convention)


def known(t, ctxname):
    if multidim(t) or ref_to_fn(t) or vararg_after_params(t) or has_msvc(t):
        return True
    if ctxname == "alias" and spine_arrays(t):
        return True
    if ctxname == "uparam" and arr_over_ptr_to_array(t):
        return True
    return False


CTX = {
    "var": (lambda t: t.format_decl("nm") + ";", lambda d: (d.namespace.variables[0].type, d.namespace.variables[0].name.segments[-1].name)),
    "param": (lambda t: "void f(" + t.format_decl("nm") + ");", lambda d: (d.namespace.functions[0].parameters[0].type, d.namespace.functions[0].parameters[0].name)),
    "alias": (lambda t: "using nm = " + t.format() + ";", lambda d: (d.namespace.using_alias[0].type, "nm")),
    "uparam": (lambda t: "void f(" + t.format() + ", int);", lambda d: (d.namespace.functions[0].parameters[0].type, "nm")),
}


def types_in(obj, out):
    import dataclasses
    if isinstance(obj, (T.Type, T.Pointer, T.Reference, T.MoveReference, T.Array)):
        out.append(obj)
    if dataclasses.is_dataclass(obj):
        for f in dataclasses.fields(obj):
            types_in(getattr(obj, f.name), out)
    elif isinstance(obj, list):
        for x in obj:
            types_in(x, out)
    elif isinstance(obj, dict):
        for x in obj.values():
            types_in(x, out)


def run(ctx):
    rng = ctx.rng("types")
    types = []
    maxd = 3 if ctx.tier == "quick" and not ctx.escalated else 4
    for d in range(0, maxd + 1):
        types += G.exhaustive_types(d)
    tg = G.TypeGen(rng)
    for _ in range(ctx.budget(500, 15000)):
        t = tg.gen(rng.randint(0, 6))
        types.append(t)
    # const volatile pointers at every level; decltype names
    for base in (T.Type(G.fund("int")), T.Type(G.pq_name("ns::Baz"), const=True)):
        for c in (False, True):
            for v in (False, True):
                p = T.Pointer(base, const=c, volatile=v)
                types += [p, T.Pointer(p, const=v, volatile=c), T.Pointer(T.Array(base, G.value("3")), const=c, volatile=v),
                          T.Pointer(T.FunctionType(base, [T.Parameter(p)]), const=c, volatile=v), T.Reference(p)]
    for inner in (["const", "T"], ["unsigned", "int"], ["std", "::", "declval", "<", "const", "T", "&", ">", "(", ")"], ["new", "T"], ["a", "+", "b"]):
        tn = T.PQName([T.DecltypeSpecifier(list(G.value(*inner).tokens))])
        types += [T.Type(tn), T.Pointer(T.Type(tn)), T.Reference(T.Type(tn, const=True))]
    # types the parser actually produced
    parsed = []
    decl_family = ["decltype(std::declval<const T&>()) a;", "decltype(new T) b;", "decltype(static_cast<unsigned long>(y))* c;",
                   "const decltype(sizeof(long double))& d = e;", "void f(decltype(a + b) x, decltype(const_cast<const int*>(p)) y);",
                   # unparsed expressions inside the type in which a word-like token stands next to a literal of every class
                   "int (*w1)[N and 3];", "A<sizeof 4> w2;", "int w3[not 0];", "int w4[N xor 0x1F];", "int w5[sizeof 'c'];", "decltype(a or 1.5f) w6;",
                   "int w7[N bitand 0b11];", "A<sizeof 010, N and 2u> w8;", "int w9[sizeof \"s\"];", "A<sizeof u8\"s\", sizeof L'c'> w10;",
                   "int w11[N or 1e3];", "A<sizeof 1.0, sizeof 0x1p3> w12;", "int (&w13)[compl 7 and true];",
                   "std::vector<decltype(new int)> g;", "typename T::template U<int>::type h;", "unsigned long long i; long double j; signed char k;",
                   # shapes the parser rejects today: should a change make it accept them, what it produces must format back
                   "int (&&x)[3];", "int (&&r)(int);", "int ((*x))[3];", "void (*(*f)(int))(char);", "int (*&r)[3] = a;", "int (S::*pm)(int);",
                   "int (*const volatile p)[2];", "T (&&fr)();", "Foo<int volatile> v1;", "Foo<int const volatile*> v2;", "Foo<volatile int> v3;",
                   "int volatile * const volatile cvp;", "void f(int (&&a)[2], int (*const b)(char));", "using A = int (&&)[3];", "typedef int (&&RA)[3];"]
    for t in decl_family + pcommon.corpus()[:: 2] + [gen_prog.gen_program(rng, budget=5)[0] for _ in range(ctx.budget(60, 2000))]:
        try:
            types_in(parse_string(t), parsed)
        except CxxParseError:
            pass
    parsed = [t for t in parsed if not G.contains(t, lambda u: isinstance(u, T.Type) and any(isinstance(s, (T.AnonymousName,)) for s in u.typename.segments) or isinstance(u, T.Type) and (u.typename.classkey or any(getattr(s, "name", "").startswith("operator") for s in u.typename.segments)))]
    types += parsed[: ctx.budget(400, 8000)]
    fails = []
    n = 0
    for t in types:
        for cn, (mk, ex) in CTX.items():
            if cn in ("param", "uparam", "var") and isinstance(t, T.Type) and len(t.typename.segments) == 1 and getattr(t.typename.segments[0], "name", None) == "void":
                continue  # a plain `void` object/parameter is not a declaration
            n += 1
            try:
                src = mk(t)
            except Exception as e:  # noqa
                fails.append({"input": repr(t)[:300], "context": cn, "diff": "format raised %r" % e})
                continue
            ctx.count((cn, src), nontrivial=G.type_depth(t) >= 1)
            ok = False
            why = ""
            try:
                gt, gn = ex(parse_string(src))
                ok = gt == t and gn == "nm"
                if not ok:
                    why = str(canon.first_diff(impl.to_json(t), impl.to_json(gt)))[:200]
            except CxxParseError as e:
                why = "rejected: %s" % str(e)[:150]
            except Exception as e:  # noqa
                why = "extractor: %r" % e
            if not ok:
                f = {"input": src, "context": cn, "diff": "formatted form does not parse back to the same type: " + why}
                if known(t, cn) or "sizeof ..." in src:
                    f["finding"] = "C17-format"
                fails.append(f)
    kn = [f for f in fails if f.get("finding")]
    ctx.oracle("format_roundtrip", n, kn[:1] + [f for f in fails if not f.get("finding")], note="%d cases in the known class" % len(kn))
    # PQName / TemplateSpecialization / Parameter formatted forms
    pfails = []
    np_ = 0
    for _ in range(ctx.budget(300, 5000)):
        base = tg.base()
        np_ += 1
        src = base.typename.format() + " v;"
        try:
            got = parse_string(src).namespace.variables[0].type.typename
            if got != base.typename:
                pfails.append({"input": src, "diff": "qualified name / template specialisation does not parse back"})
        except CxxParseError as e:
            pfails.append({"input": src, "diff": "rejected: %s" % e})
        t = tg.gen(rng.randint(0, 3))
        if known(t, "param"):
            continue
        p = T.Parameter(t, name=rng.choice([None, "pn"]), default=(G.value("1") if rng.random() < 0.3 and not isinstance(t, T.Array) else None))
        if p.name is None and known(t, "uparam"):
            continue
        np_ += 1
        src = "void f(" + p.format() + ", int);"
        try:
            got = parse_string(src).namespace.functions[0].parameters[0]
            if got != p:
                pfails.append({"input": src, "diff": "parameter does not parse back: " + str(canon.first_diff(impl.to_json(p), impl.to_json(got)))[:200]})
        except CxxParseError as e:
            pfails.append({"input": src, "diff": "rejected: %s" % e})
    ctx.oracle("names_params_roundtrip", np_, pfails)
    ctx.sample({"type": types[len(types) // 2].format_decl("nm")})
    if ctx.driver is not None:
        sub = types[:: max(1, len(types) // ctx.budget(1500, 10000))]
        res = ctx.driver.run([{"op": "format", "type": impl.to_json(t), "name": "nm"} for t in sub])
        mism = []
        for t, r in zip(sub, res):
            e = {"format": t.format(), "format_decl": t.format_decl("nm")}
            if e != r:
                mism.append({"input": e["format_decl"], "diff": canon.first_diff(e, r)})
        ctx.corr("format", len(sub), mism)


def replay(path):
    def recheck(v):
        return False, "REPRODUCED: %s\n%s" % (v.get("diff"), v["input"])
    return pcommon.generic_replay(path, recheck)
