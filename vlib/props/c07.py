"""C07 — parsing time is polynomially bounded in input size."""
import multiprocessing
import time

import pcommon
from cxxheaderparser.errors import CxxParseError
from cxxheaderparser.simple import parse_string

TECHNIQUE = 'Lean 4: syntactic regex cost analysis polyOK decided by the kernel on the rules regenerated from the live master regex, with soundness theorems bounding paths and backtracking search polynomially for every input; timing families on the implementation as failing-input search'
LEAN_TARGET = "CxxModel.Props.C07"
THEOREMS = ["Cxx.C07_all_rules_poly", "Cxx.C07_paths_bound", "Cxx.C07_cost_bound", "Cxx.C07_matcher_is_paths", "Cxx.C07_rep_bodies_nonnull",
            "Cxx.polyOK_paths_le", "Cxx.polyOK_cost_le", "Cxx.singleB_sound", "Cxx.C07_collectors_linear", "Cxx.C07_rules_make_progress", "Cxx.C07_lexer_total"]
ANCHORS = ["lexer.py:PlyLexer", "lexer.py:<module>", "lex.py:Lexer.token", "parser.py:CxxParser._consume_balanced_tokens", "parser.py:CxxParser._discard_contents",
           "parser.py:CxxParser._consume_value_until", "parser.py:CxxParser._parse_template_specialization", "parser.py:CxxParser._parse_cv_ptr_or_fn",
           "parser.py:CxxParser._parse_pqname", "parser.py:CxxParser._parse_type", "parser.py:CxxParser._parse_parameters", "parser.py:CxxParser._parse_parameter",
           "parser.py:CxxParser._discard_ctor_initializer", "parser.py:CxxParser._parse_array_type", "lexer.py:LexerTokenStream._fill_tokbuf"]
RULE = ("pumpable families: for every token regular expression a string that drives its repetitions and then fails (unterminated "
        "comments/strings/character literals, runs of escapes of each kind in upper and lower case, digit/separator runs, suffix "
        "soups), for every recursive parser construct a nesting family (template-ids as types and as expressions, parentheses, "
        "arrays, function pointers, namespaces, classes, initialiser braces); each timed at 4 sizes in a child process; verdict = "
        "growth ratio per doubling above 2^4.5 or any run above the time cap; non-trivial = family whose largest instance takes "
        "more than 1 ms")
CARRIED_BY = {
    "no lexer rule can backtrack exponentially": "theorems C07_all_rules_poly (decided on the regenerated rules) + C07_paths_bound / C07_cost_bound (soundness of the analysis: polynomial bound on the number of paths and on the size of the backtracking search of the model matcher, every input)",
    "model matcher = Python re priority semantics": "theorem C07_matcher_is_paths + correspondence `lex` / `re` (C08)",
    "the token collectors run their body once per token consumed (no rescans)": "theorem C07_collectors_linear",
    "other parser constructs (re-scans, trial parses)": "oracle `families` on the implementation (not proof)",
}
ASSUMPTIONS = ["CPython's sre takes no more steps than naive backtracking (its optimisations prune); wall-clock is measured, not proved"]
MODEL_COVERAGE = "all 38 PLY rules as regex ASTs (regenerated), naive backtracking cost model (Cost.lean)"
NEEDS_DRIVER = False


def families():
    F = {}
    F["unterminated_comment_newlines"] = lambda n: "/*" + "\n" * n
    F["unterminated_comment_stars"] = lambda n: "/*" + "*" * n
    F["unterminated_comment_star_nl"] = lambda n: "/*" + "*\n" * n
    F["unterminated_comment_text"] = lambda n: "/* " + "a* /" * n
    F["unterminated_string"] = lambda n: "const char* s = \"" + "a" * n
    F["unterminated_string_escapes"] = lambda n: "const char* s = \"" + "\\n" * n
    F["string_bad_escape_late"] = lambda n: "const char* s = \"" + "\\x41" * n + "\\%\";"
    for name, esc in (("hex_lower", "\\xab"), ("hex_upper", "\\xAB"), ("hex_mixed", "\\xaB1"), ("dec", "\\123"), ("simple", "\\n"), ("x_nonhex", "\\xg"), ("oct", "\\07")):
        F["unterminated_char_" + name] = (lambda e: lambda n: "char c = '" + e * n)(esc)
        F["bad_char_" + name] = (lambda e: lambda n: "char c = '" + e * n + "\\%';")(esc)
        F["char_then_continuation_" + name] = (lambda e: lambda n: "char c = '" + e * n + "\\\n")(esc)
    # closed literals: the whole run is read, the closing quote fails the unterminated rules, other rules are tried after it
    for name, esc in (("universal4", "\\u0041"), ("universal8", "\\U00000041"), ("hex", "\\x41"), ("octal", "\\101"), ("simple", "\\n"), ("plain", "ab")):
        F["closed_char_" + name] = (lambda e: lambda n: "int c = '" + e * n + "';")(esc)
        F["closed_string_" + name] = (lambda e: lambda n: "const char* s = \"" + e * n + "\";")(esc)
    F["digits"] = lambda n: "int x = " + "1" * n + ";"
    F["digits_sep"] = lambda n: "int x = 1" + "'1" * n + "z;"
    F["hex_digits_then_dot"] = lambda n: "int x = 0x" + "f'" * n + ".;"
    # VALID literals with long digit runs: a rule tried before the one that matches must fail fast on them
    F["hex_digits_valid"] = lambda n: "unsigned x = 0x" + "F" * n + ";"
    F["hex_digits_sep_valid"] = lambda n: "unsigned x = 0x" + "F'" * n + "F;"
    F["hex_digits_then_p"] = lambda n: "double x = 0x" + "aB" * n + "p;"
    F["hex_float_valid"] = lambda n: "double x = 0x" + "F" * n + "." + "F" * n + "p3;"
    F["bin_digits_valid"] = lambda n: "unsigned x = 0b" + "10" * n + ";"
    F["bin_digits_sep_valid"] = lambda n: "unsigned x = 0b" + "1'" * n + "0;"
    F["bin_digits_then_2"] = lambda n: "unsigned x = 0b" + "1" * n + "2;"
    F["oct_digits_then_8"] = lambda n: "unsigned x = 0" + "7" * n + "8;"
    F["float_digits_then_e"] = lambda n: "double x = 1." + "1" * n + "e;"
    F["float_exp_digits"] = lambda n: "double x = 1e" + "1" * n + "q;"
    F["dec_digits_sep_suffix"] = lambda n: "auto x = 1" + "'234" * n + "ull_km;"
    F["float_like"] = lambda n: "double d = " + "1" * n + "e+;"
    F["float_dots"] = lambda n: "double d = " + "1." * n + ";"
    F["suffix_soup"] = lambda n: "int x = 1" + "uUlL" * n + ";"
    F["octal_bad"] = lambda n: "int x = 0" + "7" * n + "9;"
    F["identifier"] = lambda n: "int " + "a" * n + ";"
    F["whitespace"] = lambda n: "int" + " \t" * n + "x;"
    F["newlines"] = lambda n: "int" + "\n" * n + "x;"
    F["pp_directive"] = lambda n: "#" + " " * n + "pragma once"
    F["line_directive"] = lambda n: "#line " + "1" * min(n, 4000) + " \"" + "a" * n + "\n"
    F["single_line_comments"] = lambda n: "// " + "/" * n + "\nint x;"
    F["nested_parens_expr"] = lambda n: "int x = " + "(" * n + "1" + ")" * n + ";"
    F["nested_template_types"] = lambda n: "A<" * n + "int" + ">" * n + " v;"
    F["nested_template_exprs"] = lambda n: "Outer<" + "N<" * n + "int>::value" + " + 1>::value" * (n - 1) + " + 1> x;" if n > 1 else "Outer<N<int>::value + 1> x;"
    F["nested_braces_init"] = lambda n: "int x " + "{" * n + "1" + "}" * n + ";"
    F["nested_arrays"] = lambda n: "int x" + "[1]" * n + ";"
    F["nested_fnptr"] = lambda n: "void f(" + "int (*" * n + "p" + ")()" * n + ");"
    F["nested_namespaces"] = lambda n: "namespace a {" * n + "}" * n
    F["nested_classes"] = lambda n: "struct S {" * n + "};" * n
    F["unbalanced_open"] = lambda n: "int x = " + "(" * n
    F["unbalanced_angle"] = lambda n: "int x = a " + "< b " * n + ";"
    F["many_params"] = lambda n: "void f(" + ", ".join("int p%d" % i for i in range(n)) + ");"
    F["many_declarators"] = lambda n: "int " + ", ".join("v%d" % i for i in range(n)) + ";"
    F["many_enumerators"] = lambda n: "enum E { " + ", ".join("k%d = %d" % (i, i) for i in range(n)) + " };"
    F["many_template_args"] = lambda n: "X<" + ", ".join("T%d" % i for i in range(n)) + "> v;"
    F["ctor_initializers"] = lambda n: "struct S { S() : " + ", ".join("m%d(%d)" % (i, i) for i in range(n)) + " {} };"
    F["long_body"] = lambda n: "void f() { " + "x = (a[1] + b{2}); " * n + "}"
    F["attribute_soup"] = lambda n: "[[" + "a(b[c]), " * n + "z]] int x;"
    F["requires_chain"] = lambda n: "template <typename T> requires " + " && ".join("C%d<T>" % i for i in range(n)) + " void f();"
    F["doc_comments"] = lambda n: "/// d\n" * n + "int x;"
    F["continuations"] = lambda n: "int x = 1 " + "\\\n + 1 " * n + ";"
    F["static_assert_soup"] = lambda n: "static_assert(" + "(a<b>::c) && " * n + "true, \"m\");"
    F["operator_name"] = lambda n: "struct S { void operator" + "+" * n + "(); };"
    return F


def _child(q, text):
    t0 = time.perf_counter()
    try:
        parse_string(text)
    except CxxParseError:
        pass
    except RecursionError:
        pass
    except Exception:  # noqa
        pass
    q.put(time.perf_counter() - t0)


def timed(text, cap):
    """parse in a child process (catastrophic regex backtracking cannot be interrupted in-process)"""
    ctxm = multiprocessing.get_context("fork")
    q = ctxm.Queue()
    p = ctxm.Process(target=_child, args=(q, text))
    p.start()
    p.join(cap)
    if p.is_alive():
        p.terminate()
        p.join()
        return None
    try:
        return q.get(timeout=5)
    except Exception:  # noqa
        return None


def measure(fam, sizes, cap, reps=2):
    ts = []
    for n in sizes:
        best = None
        for _ in range(reps):
            t = timed(fam(n), cap)
            if t is None:
                return ts + [None]
            best = t if best is None else min(best, t)
        ts.append(best)
    return ts


def run(ctx):
    fams = families()
    cap = 20.0
    fails = []
    report = {}
    # recursive constructs are limited by Python's recursion limit: nesting sizes stay below it
    deep = {"nested_parens_expr", "nested_template_types", "nested_template_exprs", "nested_braces_init", "nested_arrays", "nested_fnptr", "nested_namespaces",
            "nested_classes", "unbalanced_open", "unbalanced_angle"}
    expo = {"nested_template_exprs"}
    for name, fam in sorted(fams.items()):
        if name in expo:
            sizes = [6, 9, 12, 15]
        elif name in deep:
            sizes = [25, 50, 100, 200]
        else:
            sizes = [12, 24, 48, 96] if ctx.tier == "quick" and not ctx.escalated else [12, 24, 48, 96, 400, 1600]
        # small sizes first: an exponential family shows at 12-24 long before it hangs
        ts = measure(fam, sizes, cap)
        report[name] = [None if t is None else round(t * 1000, 3) for t in ts]
        ctx.count(name, nontrivial=any(t is not None and t > 0.001 for t in ts))
        bad = None
        if any(t is None for t in ts):
            k = ts.index(None)
            bad = "size %d did not finish within %.0f s (smaller sizes: %s ms)" % (sizes[k], cap, report[name][:k])
        else:
            for (n1, t1), (n2, t2) in zip(zip(sizes, ts), zip(sizes[1:], ts[1:])):
                if t2 > 0.02 and t1 > 0.0005:
                    ratio = t2 / t1
                    allowed = (n2 / n1) ** 4.5
                    if ratio > allowed:
                        bad = "size %d -> %d: time x%.1f (%.1f ms -> %.1f ms), a degree-4.5 polynomial allows x%.1f" % (n1, n2, ratio, t1 * 1000, t2 * 1000, allowed)
                        break
        if bad:
            fails.append({"input": {"family": name, "example": fam(sizes[1])[:200], "sizes": sizes, "times_ms": report[name]}, "diff": bad})
    ctx.oracle("families", len(fams), fails)
    ctx.extra["times_ms"] = report
    ctx.sample({"family": "unterminated_char_hex_upper", "instance": fams["unterminated_char_hex_upper"](3)})


def replay(path):
    import json
    d = json.load(open(path))
    v = d.get("violation")
    if not v:
        print(json.dumps(d, indent=1)[:3000])
        return 1
    fam = families().get(v["input"]["family"])
    ts = measure(fam, v["input"]["sizes"], 20.0, reps=1)
    print("family %s sizes %s times %s" % (v["input"]["family"], v["input"]["sizes"], ts))
    return 1
