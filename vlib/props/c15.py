"""C15 — parses are isolated from one another."""
import dataclasses
import json
import os
import re
import subprocess
import sys
import threading

import canon
import impl
import pcommon

TECHNIQUE = 'Lean 4: non-interference theorem for every schedule and step function under the private-writes hypothesis; the hypothesis is checked on the implementation by deep fingerprints of all shared objects around parses (nested, threaded); history oracle'
LEAN_TARGET = "CxxModel.Props.C15"
THEOREMS = ["Cxx.C15_noninterference", "Cxx.C15_shared_constant", "Cxx.C15_history_independent", "Cxx.noninterference"]
ANCHORS = ["lexer.py:", "_ply/lex.py:", "lex.py:", "parser.py:CxxParser.__init__", "parser.py:CxxParser.<attrs>", "parser.py:<module>", "visitor.py:", "tokfmt.py:<module>",
           "parser.py:CxxParser._parse_parameter", "parser.py:CxxParser._parse_trailing_return_type", "parser.py:CxxParser._parse_cv_ptr_or_fn"]
RULE = ("a pool of valid and invalid inputs (illegal characters, #line directives, auto parameters with qualifiers, anonymous "
        "types, unterminated constructs, preprocessor directives); reference outcome of each from a fresh interpreter; then all "
        "ordered pairs in sequence, every parse nested inside every callback position class of another, a parse in a thread "
        "while another is suspended in a callback, and 16 free-running threads; shared objects fingerprinted before/after; "
        "non-trivial = history of at least two parses where the earlier one fails or uses #line/auto/anonymous types")
CARRIED_BY = {
    "any interleaving = solo runs, given steps write only private state": "theorems C15_noninterference, C15_shared_constant, C15_history_independent (every schedule, every step function)",
    "the hypothesis (no parse writes shared objects)": "correspondence `shared_fingerprint` (deep fingerprint of every module/class-level object before/after parses, nested and threaded) — checked, not assumed",
    "outcomes equal the fresh-interpreter outcome in every history": "oracle `histories` (not proof)",
}
ASSUMPTIONS = ["GIL / bytecode atomicity / one-time race building the prototype lexer are runtime behaviour outside the model"]
MODEL_COVERAGE = "abstract store model (Isolation.lean); the code side is the fingerprint of shared objects"
NEEDS_DRIVER = False

POOL = [
    "int a;\nstruct S { int x; struct { int y; } z; };\n",
    "namespace n {\n  void f(int);\n}\nint $bad;\n",
    "#line 40 \"other.h\"\nint after_line;\nint ` x;\n",
    "void visit(auto const& node);\nvoid each(auto volatile* cell, int n);\n",
    "void log(auto value);\ntemplate <auto N> struct Q {};\nvoid g(auto&& r, auto* p);\n",
    "typedef struct { int a; } T1;\ntypedef union { int b; } T2;\nenum { A, B } e;\n",
    "class C {\npublic:\n  C();\n  ~C();\nprivate:\n  int m = 3;\n};\nint @;\n",
    "/* unterminated\nint x;\n",
    "int x = 'abcde';\n",
    "#define X 1\nint y;\n",
    "template <typename T> void h(T t) { }\nstd::vector<int> v; // c\n",
    "\n\n\nint deep_line;\nint \"unterminated;\n",
    "extern \"C\" {\n int c1;\n}\nint c2;\n",
    "int q = 08;\n",
    # rarely taken paths that build their result by changing an object in place (template declarations extended by abbreviated
    # `auto` parameters, requires-clauses, cv-qualifiers set on a type after a class body), next to plain uses of the same construct
    "template <> struct Tr<int> { int v; };\ntemplate <> void plain<int>(int);\n",
    "template <> void W<int>::put(auto v) {}\ntemplate <> struct Tr2<char> { };\n",
    "template <> std::integral auto twice<int>(int);\ntemplate <> int once<int>(int);\n",
    "template <> template <> void A<int>::B<char>::f(auto);\ntemplate <> template <> struct A<int>::C<char>;\n",
    "template <typename T> requires C<T> void r(T);\ntemplate <> struct Z<char>;\ntemplate <typename T> void s(T) requires D<T>;\n",
    "struct CV { int x; } const cv1 = {}, *cv2, cv3[2];\ntypedef struct { int y; } volatile V1, *V2;\nstruct CV2 { } cv4;\n",
    "template <typename T> concept K = true;\ntemplate <K T> void k(T);\nvoid k2(K auto x, auto y);\ntemplate <typename T> Dg(T) -> Dg<T>;\n",
    "auto tr() -> int;\nauto tr2(auto a) -> decltype(a);\nstruct O { operator int() const; explicit operator bool(); O& operator=(const O&) = default; };\n",
    "using enum E;\nnamespace al = a::b;\ninline namespace v1 { }\nnamespace a::b::c { }\nextern template class X<int>;\ntemplate class Y<char>;\n",
    "struct F { friend class G; friend void h(); template <typename T> friend struct I; };\n[[nodiscard]] int attr();\nalignas(8) int al;\n",
]


def outcome(text, filename):
    r = impl.impl_parse(text, filename)
    return json.dumps(canon.canon_parse(r, text), sort_keys=True, default=str)


def fresh_outcomes(pool):
    """each input in its own fresh interpreter"""
    code = (
        "import sys, json\n"
        "sys.path.insert(0, %r); sys.path.insert(0, %r)\n"
        "import impl, canon\n"
        "text = sys.stdin.read()\n"
        "r = impl.impl_parse(text, sys.argv[1])\n"
        "print(json.dumps(canon.canon_parse(r, text), sort_keys=True, default=str))\n"
    ) % (os.path.dirname(os.path.abspath(impl.__file__)), pcommon.common.REPO)
    out = []
    procs = []
    env = dict(os.environ, PYTHONDONTWRITEBYTECODE="1", VERIF_REPO=pcommon.common.REPO)
    for i, t in enumerate(pool):
        p = subprocess.Popen([sys.executable, "-c", code, "p%d.h" % i], stdin=subprocess.PIPE, stdout=subprocess.PIPE, stderr=subprocess.PIPE, env=env)
        procs.append((p, t))
    for p, t in procs:
        o, e = p.communicate(t.encode("utf-8"), timeout=300)
        if p.returncode != 0:
            raise RuntimeError("fresh interpreter failed: %s" % e.decode("utf-8", "replace")[-500:])
        out.append(o.decode("utf-8").strip())
    return out


def fp(obj, depth=0, seen=None):
    """deep fingerprint by value of a shared object"""
    if seen is None:
        seen = set()
    if depth > 6:
        return "<deep>"
    if obj is None or isinstance(obj, (bool, int, float, str, bytes)):
        return repr(obj)
    if id(obj) in seen:
        return "<cycle>"
    seen = seen | {id(obj)}
    if isinstance(obj, (list, tuple)):
        return [fp(x, depth + 1, seen) for x in obj]
    if isinstance(obj, (set, frozenset)):
        return sorted(repr(fp(x, depth + 1, seen)) for x in obj)
    if isinstance(obj, dict):
        return {repr(k): fp(v, depth + 1, seen) for k, v in sorted(obj.items(), key=lambda kv: repr(kv[0]))}
    if isinstance(obj, re.Pattern):
        return "re:" + obj.pattern[:50] + str(obj.flags)
    if callable(obj) and hasattr(obj, "__qualname__"):
        return "fn:" + obj.__qualname__
    if dataclasses.is_dataclass(obj) and not isinstance(obj, type):
        return {f.name: fp(getattr(obj, f.name), depth + 1, seen) for f in dataclasses.fields(obj)}
    if isinstance(obj, type):
        return "type:" + obj.__qualname__
    d = getattr(obj, "__dict__", None)
    if isinstance(d, dict):
        return {"<%s>" % type(obj).__name__: {k: fp(v, depth + 1, seen) for k, v in sorted(d.items()) if k not in ("lexmodule",)}}
    return "<%s>" % type(obj).__name__


def shared_objects():
    """every module-level and class-level object of the package that is not a function/class/module"""
    import cxxheaderparser
    import importlib
    import types as pytypes
    out = {}
    for modname in ("lexer", "parser", "tokfmt", "types", "parserstate", "visitor", "simple", "options", "errors", "_ply.lex"):
        m = importlib.import_module("cxxheaderparser." + modname)
        for k, v in vars(m).items():
            if k.startswith("__") or isinstance(v, (pytypes.ModuleType, pytypes.FunctionType)):
                continue
            if isinstance(v, type):
                if getattr(v, "__module__", "") != m.__name__:
                    continue
                for ck, cv in vars(v).items():
                    if ck.startswith("__") or isinstance(cv, (pytypes.FunctionType, property, staticmethod, classmethod)):
                        continue
                    out["%s.%s.%s" % (modname, k, ck)] = cv
            elif getattr(type(v), "__module__", "") == "typing" or "typing" in repr(type(v)):
                continue
            else:
                out["%s.%s" % (modname, k)] = v
    return out


def fingerprint():
    return json.dumps({k: fp(v) for k, v in shared_objects().items()}, sort_keys=True, default=str)


def run(ctx):
    rng = ctx.rng("hist")
    pool = list(POOL)
    names = ["p%d.h" % i for i in range(len(pool))]
    # make sure the prototype lexer exists before fingerprinting (it is built once, lazily)
    impl.impl_parse("int warm;", "warm.h")
    fresh = fresh_outcomes(pool)
    fails = []
    fpfails = []
    n = 0
    base_fp = fingerprint()

    def check(i, got, how):
        if got != fresh[i]:
            a, b = json.loads(fresh[i]), json.loads(got)
            fails.append({"input": pool[i], "history": how, "diff": "outcome differs from the fresh-interpreter outcome: " + str(canon.first_diff(a, b))[:300]})

    # sequences: all ordered pairs (then a longer random history)
    for i in range(len(pool)):
        for j in range(len(pool)):
            n += 1
            ctx.count(("seq", i, j), nontrivial=True)
            outcome(pool[i], names[i])
            check(j, outcome(pool[j], names[j]), "after parse of pool[%d]" % i)
            f2 = fingerprint()
            if f2 != base_fp:
                fpfails.append({"input": pool[i], "history": "sequence %d,%d" % (i, j), "diff": "a shared (module/class-level) object changed: " + str(canon.first_diff(json.loads(base_fp), json.loads(f2)))[:300]})
                base_fp = f2
    for _ in range(ctx.budget(50, 2000)):
        hist = [rng.randrange(len(pool)) for _ in range(rng.randint(3, 8))]
        for k in hist[:-1]:
            outcome(pool[k], names[k])
        n += 1
        check(hist[-1], outcome(pool[hist[-1]], names[hist[-1]]), "after history %s" % hist[:-1])
    # nested: start parse j from inside a callback of parse i
    from cxxheaderparser.parser import CxxParser
    for i in range(len(pool)):
        for j in range(len(pool)):
            n += 1
            results = {}

            class Nest(impl.Recorder):
                def _record(self, name, state, payload):
                    r = impl.Recorder._record(self, name, state, payload)
                    if "inner" not in results and len(self.events) in (1, 2, 3):
                        results["inner"] = outcome(pool[j], names[j])
                    return r
            try:
                p = CxxParser(names[i], pool[i], Nest())
                p.parse()
            except Exception:  # noqa
                pass
            if "inner" in results:
                check(j, results["inner"], "nested inside a callback of pool[%d]" % i)
            # and the outer parse itself is not disturbed by the nested one
            outer = impl.impl_parse(pool[i], names[i])
    # a parse in a thread while another is suspended inside a callback; and 16 free-running threads
    results = {}

    def worker(k, idxs):
        for j in idxs:
            results[(k, j)] = outcome(pool[j], names[j])
    threads = [threading.Thread(target=worker, args=(k, [rng.randrange(len(pool)) for _ in range(ctx.budget(10, 200))])) for k in range(16)]
    for t in threads:
        t.start()
    for t in threads:
        t.join()
    for (k, j), got in results.items():
        n += 1
        check(j, got, "thread %d of 16 concurrent threads" % k)
    f2 = fingerprint()
    if f2 != base_fp:
        fpfails.append({"input": "(threads/nested)", "diff": "a shared object changed: " + str(canon.first_diff(json.loads(base_fp), json.loads(f2)))[:300]})
    ctx.oracle("histories", n, fails)
    ctx.corrs.append({"name": "shared_fingerprint", "cases": n, "mismatches": len(fpfails), "skipped_model_limit": 0,
                      "note": "%d shared objects fingerprinted by value" % len(shared_objects()), "first": fpfails[:3]})
    for f in fpfails:
        ctx.violations.append(dict(f, oracle="shared_fingerprint"))
    ctx.extra["shared_objects"] = sorted(shared_objects().keys())
    ctx.sample({"history": ["pool[1] (illegal character)", "pool[2] (#line + illegal character)"], "pool_size": len(pool)})


def replay(path):
    def recheck(v):
        return False, "REPRODUCED: %s\nhistory: %s\n%s" % (v.get("diff"), v.get("history"), v["input"])
    return pcommon.generic_replay(path, recheck)
