"""C06 — every input ends in a result or a CxxParseError that says where."""
import re

import canon
import gen_prog
import impl
import pcommon
from cxxheaderparser.errors import CxxParseError
from cxxheaderparser.lexer import LexerTokenStream
from cxxheaderparser.simple import parse_string

TECHNIQUE = "Lean 4: theorems about every outcome of the model's parse() wrapper (message format, totality, stray closing brace, lexer errors); Python-level exception escapes are searched by an oracle on the implementation (runtime behaviour, not provable on the model)"
LEAN_TARGET = "CxxModel.Props.C06"
THEOREMS = ["Cxx.C06_wrap_prefix_tok", "Cxx.C06_wrap_prefix_notok", "Cxx.C06_runParse_total", "Cxx.C06_stray_close_rejected",
            "Cxx.C06_lexer_error_wrapped", "Cxx.rules_supported", "Cxx.lexer_helpers_standard", "Cxx.C06_rules_make_progress", "Cxx.C06_lexer_total", "Cxx.C06_stream_total", "Cxx.nextTok_no_fuel", "Cxx.C06_friend_outside_class", "Cxx.C06_access_outside_class", "Cxx.C06_namespace_in_class", "Cxx.C06_concept_in_class", "Cxx.C06_extern_in_class", "Cxx.C06_mismatched_closer", "Cxx.C06_closer_nothing_open"]
ANCHORS = ["parser.py:", "lexer.py:", "errors.py:", "parserstate.py:", "lex.py:Lexer.token"]
RULE = ("random text over the token alphabet, byte- and token-level mutations of the test corpus and of generated programs, "
        "truncation of corpus inputs at every token boundary, deep nesting, and rule-breaking inputs built systematically in "
        "every block context (global, namespace, extern block, class); distinct = distinct text; non-trivial = input on which "
        "the parser reads at least 3 tokens")
CARRIED_BY = {
    "the explicit structural checks reject, for every parser state of the stated shape: friend / access specifier outside a class, namespace (alias) / concept / extern block inside a class, a closer that does not match the innermost open bracket or with nothing open": "theorems C06_friend_outside_class, C06_access_outside_class, C06_namespace_in_class, C06_concept_in_class, C06_extern_in_class, C06_mismatched_closer, C06_closer_nothing_open (Theorems/Structural.lean)",
    "the lexer and the token stream always make progress: every input is lexed to its end or rejected, the model's bound is never what ends them": "theorems C06_rules_make_progress (kernel-decided on the regenerated rules: no rule matches the empty string, no unmodelled action), C06_lexer_total, C06_stream_total",
    "the error message is `file:line: parse error evaluating '…'` (or `file: parse error`)": "theorems C06_wrap_prefix_tok / C06_wrap_prefix_notok (every outcome of the model's wrapper)",
    "outcome is ok or a wrapped error (non-verbose)": "theorem C06_runParse_total (model: errors are values) + oracle `only_cxxparseerror` on the implementation for Python-level exceptions",
    "a stray closing brace at global scope is rejected; lexer errors are wrapped with the lexer's location": "theorems C06_stray_close_rejected, C06_lexer_error_wrapped",
    "the other rejection rules, line number exists in the input": "correspondence `parse[outcome]` + oracle `rules_rejected`, `line_exists` (not proof)",
}
ASSUMPTIONS = ["'never any other exception' at the Python level (AttributeError/IndexError/RecursionError inside helpers) is runtime behaviour the model does not exhibit: errors are values in the model; the oracle searches for escapes"]
MODEL_COVERAGE = "parse() wrapper (Interp.runParse/wrapError), all rejection sites of the parser model"

PREFIX = re.compile(r"^(?P<file>[^:]*|<str>):(?:(?P<line>-?\d+):)? parse error")

RULE_BREAKERS = [
    ("mismatched bracket", "int x = (1 ];"), ("mismatched bracket", "int y[(2};"), ("mismatched bracket", "void f(int a = g({1, 2)));"),
    ("stray open brace", "{ int x; }"), ("access outside class", "public: int x;"), ("friend outside class", "friend class X;"),
    ("pp conditional", "#if 1\nint x;\n#endif"), ("pp define", "#define X 1"), ("pp undef", "#undef X"),
    ("illegal character", "int $x;"), ("illegal character", "int x = `1`;"), ("bad octal", "int x = 08;"),
    ("bad char const", "char c = 'abcdef';"), ("bad escape in string", "const char* s = \"a\\%b\";"), ("unterminated char", "char c = 'a"),
    ("specifier not allowed", "typedef static int T;"), ("specifier not allowed", "typedef virtual int T;"), ("specifier not allowed", "void f(static int x);"),
    ("specifier not allowed", "using A = static int;"), ("mutable in typedef", "typedef mutable int T;"),
    ("template enum", "template <typename T> enum E { A };"), ("incomplete include", "#include"),
    ("using directive with template", "template <typename T> using namespace std;"),
    ("operator in typedef", "typedef operator int() x;"), ("array of references", "int& x[3];"), ("pointer to reference", "int&* x;"),
    ("inline nested namespace", "inline namespace a::b { }"),
]
# unprocessed directives that merely MENTION the words the directive rule looks for (in a condition, a macro name, a comment)
for _d in ('#if __has_warning("-Wdeprecated")\nint x;\n#endif', "#ifdef ENABLE_WARNINGS\nint x;\n#endif", "#undef warning_level", "#ifndef pragma_once\nint x;\n#endif",
           "#if defined(include_guard)\nint x;\n#endif", "#if 1\nint x;\n#else // warning\nint y;\n#endif", "#error no warning here", "#if line > 3\nint x;\n#endif",
           "#define warning(x) x", "# define LINE 3", "#elif warning", "#endif // #warning", "#if 0 // # 1 \"f.h\"\nint x;\n#endif", "#ifdef line\n#endif",
           "#undef pragma", "#if include\n#endif", "# if 1\n# endif", "#\tifdef X\n#\tendif", "#if 1 /* #warning */\n#endif", "#  undef  warning"):
    RULE_BREAKERS.append(("pp directive mentioning a tolerated word", _d))
for _o1, _c1 in (("(", ")"), ("[", "]"), ("{", "}")):
    for _o2, _c2 in (("(", ")"), ("[", "]"), ("{", "}")):
        if _o1 != _o2:
            RULE_BREAKERS.append(("mismatched bracket (nested)", "int x = %s %s 1 %s ;" % (_o1, _o2, _c1)))
            RULE_BREAKERS.append(("mismatched bracket (nested)", "int x = f%s a, %s 1 %s, b;" % ("(", _o2, ")") if _o2 != "(" else "int y = g(h[1);"))
            RULE_BREAKERS.append(("mismatched bracket (nested)", "enum E { A = %s 1 + %s 2 %s };" % (_o1, _o2, _c1)))
# every place where the parser matches brackets of all three kinds while it collects or skips tokens (NOT the regions it discards
# by counting one bracket kind only — function bodies, static_assert arguments, constructor initialisers: C13 — where kinds are
# not compared by design), filled with sequences whose round parentheses balance while the kinds do not match
BRACKET_SLOTS = ["__declspec(%s) int v;", "int v __attribute__((%s));", "__attribute__((%s)) int v;", "[[%s]] int v;", "alignas(%s) int v;", "decltype(%s) v;",
                 "void f() noexcept(%s);", "void f() throw(%s);", "int v[%s];", "int v{%s};", "void f(int a = %s);", "template <typename T = X<%s>> struct Y;",
                 "X<(%s)> v;", "using A = decltype(%s);", "struct B1 { int b : (%s); };", "struct B2 : B<(%s)> { };", "void f() -> decltype(%s);",
                 "struct alignas(%s) B3 { };", "int v [[gnu::x(%s)]];", "enum E : decltype(%s) { A };", "template <int N = (%s)> struct Z;", "auto l = [](%s) { };"]
BRACKET_FILLS = ["[ }", "{ ]", "1 [ 2 }", "( [ ) ]", "a { ) (", "( { ] )", "{ ( ] ) }", "[ ( ] )", "x [ y { z ] }"]
for _s in BRACKET_SLOTS:
    for _f in BRACKET_FILLS:
        RULE_BREAKERS.append(("mismatched bracket (%s)" % _s.replace("%s", "…"), _s % _f))
CLASS_ONLY_BREAKERS = [("namespace in class", "namespace n { }"), ("concept in class", "template <typename T> concept C = true;"),
                       ("extern block in class", "extern \"C\" { }"), ("using namespace in class", "using namespace std;"),
                       ("extern template in class", "extern template class X<int>;")]
GLOBAL_ONLY_BREAKERS = [("stray close brace", "}"), ("stray close brace", "int a; }")]
CONTEXTS = [("global", "%s"), ("namespace", "namespace n {\n%s\n}"), ("extern block", "extern \"C\" {\n%s\n}"), ("class", "struct S {\n%s\n};"),
            ("nested", "namespace a { class C { public:\n%s\n}; }")]


def token_boundaries(text):
    lx = LexerTokenStream(None, text)
    pos = set()
    try:
        while True:
            t = lx.token_eof_ok()
            if t is None:
                break
            pos.add(t.lexpos)
            pos.add(t.lexpos + len(t.value))
    except Exception:  # noqa
        pass
    return sorted(p for p in pos if 0 <= p <= len(text))


def run(ctx):
    rng = ctx.rng("inputs")
    inputs = []
    inputs += pcommon.mutated_corpus(ctx, ctx.budget(1500, 60000))
    alphabet = ["int", "x", "(", ")", "{", "}", "<", ">", ";", ",", "::", "*", "&", "=", "1", "\"s\"", "'c'", "class", "template", "typename", "namespace",
                "using", "[", "]", "[[", "]]", "...", "->", "operator", "~", "\n", " ", "/*", "*/", "//", "#", "\\", "'", "\"", ":", "public", "enum", "typedef",
                "extern", "friend", "const", "auto", "decltype", "requires", "concept", "static_assert", "0x", "1.", ".5", "08", "$", "@", "é"]
    for _ in range(ctx.budget(800, 40000)):
        inputs.append(" ".join(rng.choice(alphabet) for _ in range(rng.randint(1, 25))))
    for _ in range(ctx.budget(100, 3000)):
        inputs.append(pcommon.mutate(rng, gen_prog.gen_program(rng, budget=5)[0]))
        inputs.append(pcommon.mutate(rng, gen_prog.gen_class_program(rng)[0]))
    # truncation at every token boundary
    cs = pcommon.corpus()
    for t in (cs if ctx.tier == "thorough" else rng.sample(cs, 60 if ctx.escalated else 25)):
        for p in token_boundaries(t):
            inputs.append(t[:p])
    # nesting depth
    for d in (50, 400, 3000):
        inputs += ["(" * d, "int x = " + "(" * d + "1" + ")" * d + ";", "namespace a {" * d, "A<" * d + "int" + ">" * d + " v;", "struct S {" * d,
                   "int x" + "[1" * d + ";", "void f(" + "int (*" * d + "p" + ")()" * d + ");"]
    # every character outside the basic source character set (and a few inside), at the end of the input, before trailing
    # blanks, alone on the last line, and in the middle, after several kinds of prefix
    odd = [chr(c) for c in list(range(0, 32)) + [127]] + ["\x85", "\xa0", "\u2028", "\u2029", "\u3000", "\ufeff", "$", "@", "`", "\\", "é", "\U0001f600"]
    for ch in odd:
        for pre in ("", "int x;\n", "struct S {\n int a; ", "namespace n { int y;\n", "int z = 1 +", "/* c */ "):
            for suf in ("", " ", "\n", " \n\n", "\t\r\n", " int w;", "\n}\n"):
                inputs.append(pre + ch + suf)
    fails = []
    lfails = []
    for t in inputs:
        nlines = t.count("\n") + 1
        try:
            parse_string(t, filename="in.h")
            ctx.count(t, nontrivial=len(t) > 8)
            continue
        except CxxParseError as e:
            ctx.count(t, nontrivial=len(t) > 8)
            msg = e.args[0]
            m = PREFIX.match(msg)
            if not m:
                lfails.append({"input": t, "diff": "message does not begin with file[:line]: %r" % msg[:120]})
            elif "#line" not in t and not re.search(r"^#\s*\d+ \"", t, re.M):
                if m.group("file") != "in.h":
                    lfails.append({"input": t, "diff": "message names file %r" % m.group("file")})
                elif m.group("line") is not None and not (1 <= int(m.group("line")) <= nlines + 1):
                    lfails.append({"input": t, "diff": "line %s does not exist in an input of %d lines" % (m.group("line"), nlines)})
        except BaseException as e:  # noqa
            fails.append({"input": t, "diff": "escaped %s: %s" % (type(e).__name__, str(e)[:150])})
    ctx.oracle("only_cxxparseerror", len(inputs), fails)
    ctx.oracle("line_exists", len(inputs), lfails)
    # rule-breaking inputs in every context
    rfails = []
    nr = 0
    for cname, tmpl in CONTEXTS:
        brs = list(RULE_BREAKERS)
        if cname in ("class", "nested"):
            brs += CLASS_ONLY_BREAKERS
        if cname == "global":
            brs += GLOBAL_ONLY_BREAKERS
        for rule, src in brs:
            if cname in ("class", "nested") and rule in ("access outside class", "friend outside class"):
                continue
            if cname in ("class", "nested") and rule in ("inline nested namespace",):
                continue
            for pre in ("", "int before;\n"):
                nr += 1
                text = pre + (tmpl % src)
                try:
                    parse_string(text)
                    rfails.append({"input": text, "rule": rule, "context": cname, "diff": "input breaking the rule '%s' was accepted" % rule})
                except CxxParseError:
                    pass
                except BaseException as e:  # noqa
                    rfails.append({"input": text, "rule": rule, "context": cname, "diff": "escaped %s" % type(e).__name__})
    # class-only specifiers on every kind of declaration outside a class
    spec_texts = []
    fn_decls = ["int x;", "void f();", "operator int();", "operator bool() const;", "auto g() -> int;", "template <typename T> T h();",
                "int k() { return 1; }", "bool operator==(const X& a, const X& b);", "X::X();", "void X::m();", "X::operator int();"]
    for spec in ("virtual", "explicit", "virtual inline", "static virtual", "inline explicit", "friend"):
        for d in fn_decls:
            for cname, tmpl in (("global", "%s"), ("namespace", "namespace n {\n%s\n}"), ("extern block", "extern \"C\" {\n%s\n}"),
                                ("after class", "struct Q { int q; };\n%s"), ("template", "template <typename U>\n%s"),
                                ("template x2", "template <typename U> template <typename V>\n%s"),
                                ("template x3", "template <typename U>\ntemplate <typename V> template <int W>\n%s"),
                                ("template x2 in namespace", "namespace n {\ntemplate <typename U> template <typename V> %s\n}"),
                                ("template x2 in extern block", "extern \"C\" {\ntemplate <typename U>\ntemplate <typename V>\n%s\n}")):
                if cname.startswith("template") and d.startswith("template"):
                    continue
                nr += 1
                text = tmpl % (spec + " " + d)
                spec_texts.append(text)
                try:
                    parse_string(text)
                    rfails.append({"input": text, "rule": "specifier not allowed", "context": cname, "diff": "class-only specifier '%s' outside a class was accepted" % spec})
                except CxxParseError:
                    pass
                except BaseException as e:  # noqa
                    rfails.append({"input": text, "rule": "specifier not allowed", "context": cname, "diff": "escaped %s" % type(e).__name__})
    ctx.oracle("rules_rejected", nr, rfails)
    # the location an error names when #line directives are in force
    dfails = []
    nd = ctx.budget(300, 8000)
    offenders = ["@", "int $x;", "int y = 08;", "}", "int 5;", "void f(;", "public: int z;", "#define Q 1", "friend class F;"]
    for _ in range(nd):
        text = ""
        cur_file, cur_line = "in.h", 1
        for sgi in range(rng.randint(0, 3)):
            for _ in range(rng.randint(0, 2)):
                fill = rng.choice(["int a;\n", "\n", "/* a\n b */\n", "// c\n"])
                text += fill
                cur_line += fill.count("\n")
            N = rng.randint(1, 500)
            fn = rng.choice(["other.h", "dir/x.h", "a b.h"])
            form = rng.choice(['#line %d "%s"\n', '# %d "%s"\n', '#  line %d "%s"\n', '# %d "%s" 1\n'])
            text += form % (N, fn)
            cur_file, cur_line = fn, N
        for _ in range(rng.randint(0, 3)):
            fill = rng.choice(["int b;\n", "\n", "/* a\n b */\n", "// c\n"])
            text += fill
            cur_line += fill.count("\n")
        off = rng.choice(offenders)
        text += off + "\nint after;\n"
        ctx.count(text, nontrivial=text.count("#") >= 2)
        try:
            parse_string(text, filename="in.h")
            dfails.append({"input": text, "diff": "offending line %r was accepted" % off})
        except CxxParseError as e:
            want = "%s:%d: parse error" % (cur_file, cur_line)
            if not e.args[0].startswith(want):
                dfails.append({"input": text, "diff": "error reported as %r, the offending text is at %s:%d" % (e.args[0][:60], cur_file, cur_line)})
        except BaseException as e:  # noqa
            dfails.append({"input": text, "diff": "escaped %s" % type(e).__name__})
    ctx.oracle("directive_error_location", nd, dfails)
    ctx.sample({"rule": "mismatched bracket", "context": "class", "input": "struct S {\nint x = (1 ];\n};"})
    sub = [t for t in inputs if len(t) < 400][:: max(1, len(inputs) // ctx.budget(1200, 15000))]
    sub += spec_texts[:: 1 if ctx.tier == "thorough" or ctx.escalated else 3]
    pcommon.parse_corr(ctx, "parse[outcome]", sub, proj=pcommon.proj_outcome)


def replay(path):
    def recheck(v):
        try:
            parse_string(v["input"])
            return False, "REPRODUCED (accepted): %s\n%r" % (v.get("diff"), v["input"])
        except CxxParseError as e:
            return False, "REPRODUCED?: %s (now: CxxParseError %s)\n%r" % (v.get("diff"), e, v["input"])
        except BaseException as e:  # noqa
            return False, "REPRODUCED: escaped %s\n%r" % (type(e).__name__, v["input"])
    return pcommon.generic_replay(path, recheck)
