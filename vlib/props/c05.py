"""C05 — returning False from a start callback prunes exactly that block."""
import json

import canon
import gen_blocks
import impl

TECHNIQUE = 'Lean 4: full statement proved by simulation over all client programs, inputs and skip sets (skip_sim / C05_skip_prunes), instantiated at the parser model; model tied to parser.py by correspondence on event streams under skip sets; pruning oracle on the implementation as failing-input search'
LEAN_TARGET = "CxxModel.Props.C05"
THEOREMS = [
    "Cxx.skip_sim",
    "Cxx.C05_skip_prunes",
    "Cxx.C05_same_outcome",
    "Cxx.C05_parser",
    "Cxx.prune_none",
    "Cxx.prune_flat_block",
    "Cxx.C05_whole_source_pruned",
]
ANCHORS = [
    "parser.py:CxxParser._setup_state", "parser.py:CxxParser._pop_state", "parser.py:CxxParser._parse_namespace",
    "parser.py:CxxParser._parse_extern", "parser.py:CxxParser._parse_class_decl", "parser.py:CxxParser._on_block_end",
    "parser.py:CxxParser.__init__", "parser.py:CxxParser.parse", "parserstate.py:", "visitor.py:",
]
RULE = ("block forests with uniquely named blocks (all forests of <=3 blocks over {namespace, extern, struct} x all skip "
        "subsets; leaf sweeps: every kind of namespace-scope / class-scope declaration (aliases, using x3, enums, bodies with braces, "
        "templates, static_assert, constructors with initializers, friends, access specifiers, ...) before, between, after and inside "
        "nested blocks x all skip subsets; then random forests of up to 9 blocks, half of them with mixed leaf kinds, x random skip subsets); a case is (program, skip set); "
        "non-trivial = at least one skipped block whose start callback is actually delivered")
CARRIED_BY = {
    "whole sources under ANY skip set: for a source that is an Item (declarations of the proven forms in namespaces / extern blocks / classes nested to any depth) the visitor receives prune(skip) of on_parse_start followed by exactly the item's callbacks": "theorem C05_whole_source_pruned (composition of parse_source with C05_parser)",
    "stream equals pruned unskipped stream, for every client, input and skip set": "theorem C05_skip_prunes (full, generic) + C05_parser (instance at the parser model)",
    "parser model = parser.py": "correspondence `parse+skip` (model vs implementation, full event streams)",
    "implementation satisfies the statement on generated cases": "oracle `impl_prune` (not proof; search for failing input)",
}
ASSUMPTIONS = [
    "the parser model (lean/CxxModel/Parser) is a hand transcription of parser.py; its tie is the correspondence check",
    "a start callback's return value is consumed only at the three `is False` tests (the model's `push`)",
]
MODEL_COVERAGE = "whole of parser.py (all handlers of parse()), lexer.py token stream, parserstate.py"


def proj(ev):
    """what the visitor can observe of a callback, without state identities"""
    return json.dumps({k: ev[k] for k in ("cb", "kind", "hdr", "payload", "access", "loc")}, sort_keys=True)


def py_prune(events, skip):
    out = []
    depth = 0
    for ev in events:
        cb = ev["cb"]
        is_start = cb in ("on_namespace_start", "on_extern_block_start", "on_class_start")
        is_end = cb in ("on_namespace_end", "on_extern_block_end", "on_class_end")
        if depth == 0:
            out.append(ev)
            if is_start and ev["_name"] in skip:
                depth = 1
        else:
            if is_start:
                depth += 1
            elif is_end:
                depth -= 1
    return out


def ev_name(ev):
    h = ev["hdr"]
    if ev["kind"] == "ns":
        return "::".join(h["namespace"]["names"])
    if ev["kind"] == "ext":
        return h["linkage"]
    seg = h["class_decl"]["typename"]["segments"][-1]
    return seg.get("name") or "<anon>"


def cases(ctx):
    rng = ctx.rng("blocks")
    out = []
    for roots in gen_blocks.small_shapes():
        text = gen_blocks.program(roots)
        names = [n for r in roots for n in r.names()]
        for sub in gen_blocks.all_subsets(names):
            out.append((text, sub))
    # every kind of declaration before, between, after and inside nested blocks of every kind, x all skip subsets
    for text, names in gen_blocks.leaf_sweeps():
        for sub in gen_blocks.all_subsets(names):
            if sub:
                out.append((text, sub))
    n_small = len(out)
    n_rand = ctx.budget(150, 6000)
    cnt = [1000]
    for j in range(n_rand):
        roots = gen_blocks.random_tree(rng, rng.randint(2, 9), cnt)
        gen_blocks.LEAF_MODE = "mix" if j % 2 else None
        try:
            text = gen_blocks.program(roots)
        finally:
            gen_blocks.LEAF_MODE = None
        names = [n for r in roots for n in r.names()]
        for _ in range(3):
            k = rng.randint(1, min(4, len(names)))
            out.append((text, rng.sample(names, k)))
    if ctx.tier == "quick" and not ctx.escalated:
        # keep the exhaustive small part (it is cheap) and a sample of the rest
        pass
    return out, n_small


def run(ctx):
    cs, n_small = cases(ctx)
    ctx.extra["exhaustive_small_cases"] = n_small
    # oracle on the implementation
    fails = []
    base_cache = {}
    for text, skip in cs:
        if text not in base_cache:
            r0 = impl.impl_parse(text, "f.h")
            for ev in r0["events"]:
                ev["_name"] = ev_name(ev)
            base_cache[text] = r0
        r0 = base_cache[text]
        r1 = impl.impl_parse(text, "f.h", skip=skip)
        expect = [proj(e) for e in py_prune(r0["events"], set(skip))]
        got = [proj(e) for e in r1["events"]]
        delivered_skips = [e for e in r1["events"] if e["cb"].endswith("_start") and ev_name(e) in skip]
        ctx.count((text, tuple(skip)), nontrivial=bool(delivered_skips))
        if expect != got or r0["result"] != r1["result"]:
            i = next((i for i, (a, b) in enumerate(zip(expect, got)) if a != b), min(len(expect), len(got)))
            fails.append({"input": text, "skip": skip, "first_diff_index": i,
                          "expected": expect[i] if i < len(expect) else None, "got": got[i] if i < len(got) else None,
                          "expected_len": len(expect), "got_len": len(got)})
    ctx.oracle("impl_prune", len(cs), fails)
    if cs:
        ctx.sample({"program": cs[len(cs) // 2][0], "skip": cs[len(cs) // 2][1]})
    # correspondence model vs implementation, with skip sets
    if ctx.driver is not None:
        sub = cs if ctx.tier == "thorough" else cs[:: max(1, len(cs) // (1500 if ctx.escalated else 400))]
        ops = [{"op": "parse", "text": t, "filename": "f.h", "skip": s} for t, s in sub]
        res = ctx.driver.run(ops)
        mism = []
        skipped = 0
        for (t, s), r in zip(sub, res):
            if canon.is_model_limit(r):
                skipped += 1
                continue
            e = canon.canon_parse(impl.impl_parse(t, "f.h", skip=s), t)
            m = canon.canon_parse(r, t)
            if e != m:
                mism.append({"input": t, "skip": s, "diff": canon.first_diff(e, m)})
        ctx.corr("parse+skip", len(sub), mism, skipped)


def replay(path):
    d = json.load(open(path))
    v = d.get("violation")
    if not v:
        print(json.dumps(d, indent=1)[:3000])
        return 1
    r0 = impl.impl_parse(v["input"], "f.h")
    for ev in r0["events"]:
        ev["_name"] = ev_name(ev)
    r1 = impl.impl_parse(v["input"], "f.h", skip=v["skip"])
    expect = [proj(e) for e in py_prune(r0["events"], set(v["skip"]))]
    got = [proj(e) for e in r1["events"]]
    if expect != got:
        print("REPRODUCED: skipped stream differs from pruned unskipped stream for skip=%s on:\n%s" % (v["skip"], v["input"]))
        return 1
    print("not reproduced")
    return 0
